/* c09_enc: the compression side of C09 (a pledged source size is enforced whatever way the frame is fed and ended)
 * and a few decoder-side histories zv_codec cannot express.  Line oriented, one result line per command.
 *
 *  P <id> <variant> <params> <pledge|-> <chunks> <inputhex|->
 *      variant : s2        ZSTD_compressStream2 over ONE input buffer whose size grows (src pointer fixed, pos carried over:
 *                          the only calling pattern ZSTD_c_stableInBuffer allows); chunks = n:dir,n:dir,... (dir 0/1/2), the
 *                          frame is then finished with ZSTD_e_end calls offering nothing more
 *                old:<k>   ZSTD_initCStream_srcSize (k=0) | ZSTD_resetCStream after ZSTD_initCStream (k=1) |
 *                          ZSTD_initCStream_advanced (k=2, contentSizeFlag=1) | ZSTD_initCStream_usingCDict_advanced (k=3);
 *                          then ZSTD_compressStream per chunk (dir 1 -> ZSTD_flushStream after it), ZSTD_endStream until 0
 *                os:<k>    ZSTD_initCStream_srcSize + ZSTD_c_stableInBuffer=1 (k=1: + nbWorkers=1), ZSTD_compressStream over one growing
 *                          buffer, ZSTD_flushStream after a chunk with dir 1, ZSTD_endStream until 0
 *                bl:<k>    buffer-less: ZSTD_compressBegin_advanced (k=0) | ZSTD_compressBegin + ZSTD_copyCCtx(.., pledge) (k=1) |
 *                          ZSTD_compressBegin_usingCDict_advanced (k=2); ZSTD_compressContinue per chunk but the last, ZSTD_compressEnd
 *                c2        ZSTD_CCtx_setPledgedSrcSize + ZSTD_compress2 (documented: pledge overridden)
 *      -> <id> OK <framehex> <calls>   |  <id> ERR <error name> <calls>        calls = call:consumed:ret;...
 *  R <id> <flags> <frameAhex> <cut> <frameBhex> <cap>
 *      ZSTD_decompressStream of frameA[0..cut) (one call), ZSTD_DCtx_reset(session_only), then frameB completely (7-byte segments)
 *      -> <id> OK <hex of B's output> | ERR <name>
 *  N <id> <flags> <framehex> <cap>
 *      buffer-less decoding following ZSTD_nextSrcSizeToDecompress exactly; reports the hint when input runs out
 *      -> <id> END <hint at exhaustion> <produced> | ERR <name> <offset>
 *  W <id> <framehex> <cap>    ZSTD_decompressContinue offered sizes other than the one requested at every step
 *      -> <id> OK <n refused> | BAD <step> <offered> <expected>
 */
#define ZSTD_STATIC_LINKING_ONLY
#include "zstd.h"
#include "zstd_errors.h"
#include <stdio.h>
#include <stdlib.h>
#include <string.h>

static unsigned char* unhex(const char* s, size_t* n) {
    size_t l, i; unsigned char* b;
    if (!strcmp(s, "-")) { *n = 0; b = (unsigned char*)malloc(1); return b; }
    l = strlen(s) / 2; b = (unsigned char*)malloc(l + 1);
    for (i = 0; i < l; i++) {
        int const h = s[2 * i], w = s[2 * i + 1];
        b[i] = (unsigned char)((((h <= '9') ? h - '0' : (h | 32) - 'a' + 10) << 4) | ((w <= '9') ? w - '0' : (w | 32) - 'a' + 10));
    }
    *n = l; return b;
}
static void puthex(const unsigned char* b, size_t n) {
    static const char* H = "0123456789abcdef"; size_t i;
    if (n == 0) { putchar('-'); return; }
    for (i = 0; i < n; i++) { putchar(H[b[i] >> 4]); putchar(H[b[i] & 15]); }
}
static void pename(size_t code) {
    const char* e = ZSTD_getErrorString(ZSTD_getErrorCode(code));
    for (; *e; e++) putchar(*e == ' ' ? '_' : *e);
}
static size_t apply_cparams(ZSTD_CCtx* c, const char* p) {
    if (!strcmp(p, "-")) return 0;
    while (*p) { int id, v, n = 0;
        if (sscanf(p, "%d:%d%n", &id, &v, &n) < 2) break;
        { size_t r = ZSTD_CCtx_setParameter(c, (ZSTD_cParameter)id, v); if (ZSTD_isError(r)) return r; }
        p += n; if (*p == ',') p++; }
    return 0;
}
static size_t apply_dparams(ZSTD_DCtx* d, const char* p) {
    if (!strcmp(p, "-")) return 0;
    while (*p) { int id, v, n = 0;
        if (sscanf(p, "%d:%d%n", &id, &v, &n) < 2) break;
        { size_t r = ZSTD_DCtx_setParameter(d, (ZSTD_dParameter)id, v); if (ZSTD_isError(r)) return r; }
        p += n; if (*p == ',') p++; }
    return 0;
}

#define MAXCH 64
static char g_calls[1 << 16]; static size_t g_cl;
static void note(const char* what, size_t consumed, size_t r) {
    if (g_cl > sizeof(g_calls) - 200) return;
    if (ZSTD_isError(r)) g_cl += sprintf(g_calls + g_cl, "%s:%lu:E;", what, (unsigned long)consumed);
    else g_cl += sprintf(g_calls + g_cl, "%s:%lu:%lu;", what, (unsigned long)consumed, (unsigned long)r);
}

static void cmd_P(char** t) {
    const char* id = t[1]; const char* var = t[2];
    size_t n; unsigned char* in = unhex(t[6], &n);
    int havePledge = strcmp(t[4], "-") != 0; unsigned long long pledge = havePledge ? strtoull(t[4], NULL, 10) : 0;
    size_t cap = ZSTD_compressBound(n) + (1 << 17), opos = 0; unsigned char* out = (unsigned char*)malloc(cap);
    size_t chn[MAXCH]; int chd[MAXCH]; int nch = 0;
    ZSTD_CCtx* c = ZSTD_createCCtx(); size_t r = 0; int k = 0;
    const char* colon = strchr(var, ':'); if (colon) k = atoi(colon + 1);
    g_cl = 0; g_calls[0] = 0;
    {   const char* p = t[5];
        while (*p && *p != '-' && nch < MAXCH) { unsigned long a; int d, m = 0;
            if (sscanf(p, "%lu:%d%n", &a, &d, &m) < 2) break;
            chn[nch] = a; chd[nch] = d; nch++; p += m; if (*p == ',') p++; } }
    if (!strncmp(var, "s2", 2)) {
        size_t ipos = 0, avail = 0; int i, guard = 0;
        r = apply_cparams(c, t[3]);
        if (!ZSTD_isError(r) && havePledge) r = ZSTD_CCtx_setPledgedSrcSize(c, pledge);
        for (i = 0; !ZSTD_isError(r) && i <= nch; i++) {
            int const dir = i < nch ? chd[i] : 2;
            if (i < nch) { avail += chn[i]; if (avail > n) avail = n; }
            for (;;) {
                ZSTD_inBuffer ib; ZSTD_outBuffer ob; size_t before;
                ib.src = in; ib.size = avail; ib.pos = ipos; ob.dst = out; ob.size = cap; ob.pos = opos;
                before = ipos;
                r = ZSTD_compressStream2(c, &ob, &ib, (ZSTD_EndDirective)dir);
                note(dir == 0 ? "c" : dir == 1 ? "f" : "e", ZSTD_isError(r) ? 0 : ib.pos - before, r);
                if (ZSTD_isError(r)) break;
                ipos = ib.pos; opos = ob.pos;
                if (dir == 0 && ipos == avail) break;
                if (dir != 0 && r == 0) break;
                if (++guard > 4000) { r = (size_t)-ZSTD_error_GENERIC; break; }
            }
        }
    } else if (!strncmp(var, "old", 3)) {
        size_t ipos = 0; int i, guard = 0; ZSTD_CDict* cd = NULL;
        if (k == 0) r = ZSTD_initCStream_srcSize(c, 1, havePledge ? pledge : ZSTD_CONTENTSIZE_UNKNOWN);
        else if (k == 1) { r = ZSTD_initCStream(c, 1); if (!ZSTD_isError(r)) r = ZSTD_resetCStream(c, havePledge ? pledge : ZSTD_CONTENTSIZE_UNKNOWN); }
        else if (k == 2) { ZSTD_parameters p = ZSTD_getParams(1, 0, 0); p.fParams.contentSizeFlag = 1;
            r = ZSTD_initCStream_advanced(c, NULL, 0, p, havePledge ? pledge : ZSTD_CONTENTSIZE_UNKNOWN); }
        else { ZSTD_frameParameters fp; fp.contentSizeFlag = 1; fp.checksumFlag = 1; fp.noDictIDFlag = 0;
            cd = ZSTD_createCDict("the quick brown fox jumps over the lazy dog", 43, 1);
            r = ZSTD_initCStream_usingCDict_advanced(c, cd, fp, havePledge ? pledge : ZSTD_CONTENTSIZE_UNKNOWN); }
        note("i", 0, r);
        for (i = 0; !ZSTD_isError(r) && i < nch; i++) {
            size_t len = chn[i]; ZSTD_inBuffer ib; ZSTD_outBuffer ob;
            if (len > n - ipos) len = n - ipos;
            ib.src = in + ipos; ib.size = len; ib.pos = 0;
            while (ib.pos < ib.size || len == 0) {
                ob.dst = out + opos; ob.size = cap - opos; ob.pos = 0;
                r = ZSTD_compressStream(c, &ob, &ib); note("c", ib.pos, r);
                if (ZSTD_isError(r)) break;
                opos += ob.pos; if (len == 0 || ++guard > 4000) break;
            }
            ipos += ib.pos;
            if (!ZSTD_isError(r) && chd[i] == 1) { ob.dst = out + opos; ob.size = cap - opos; ob.pos = 0; r = ZSTD_flushStream(c, &ob); note("f", 0, r); if (!ZSTD_isError(r)) opos += ob.pos; }
        }
        while (!ZSTD_isError(r)) { ZSTD_outBuffer ob; ob.dst = out + opos; ob.size = cap - opos; ob.pos = 0;
            r = ZSTD_endStream(c, &ob); note("e", 0, r); if (ZSTD_isError(r)) break; opos += ob.pos; if (r == 0 || ++guard > 4000) break; }
        ZSTD_freeCDict(cd);
    } else if (!strncmp(var, "os", 2)) {
        /* the older streaming entry points over a STABLE input buffer: ZSTD_initCStream_srcSize, ZSTD_c_stableInBuffer=1, then
         * ZSTD_compressStream on one growing buffer (dir 1: ZSTD_flushStream after the chunk), ZSTD_endStream until 0 */
        size_t ipos = 0, avail = 0; int i, guard = 0;
        r = ZSTD_initCStream_srcSize(c, 1, havePledge ? pledge : ZSTD_CONTENTSIZE_UNKNOWN);
        if (!ZSTD_isError(r)) r = ZSTD_CCtx_setParameter(c, ZSTD_c_stableInBuffer, 1);
        if (!ZSTD_isError(r) && k) r = ZSTD_CCtx_setParameter(c, ZSTD_c_nbWorkers, 1);
        note("i", 0, r);
        for (i = 0; !ZSTD_isError(r) && i < nch; i++) {
            ZSTD_inBuffer ib; ZSTD_outBuffer ob;
            avail += chn[i]; if (avail > n) avail = n;
            for (;;) {
                ib.src = in; ib.size = avail; ib.pos = ipos; ob.dst = out; ob.size = cap; ob.pos = opos;
                r = ZSTD_compressStream(c, &ob, &ib); note("c", ZSTD_isError(r) ? 0 : ib.pos - ipos, r);
                if (ZSTD_isError(r)) break;
                ipos = ib.pos; opos = ob.pos;
                if (ipos == avail || ++guard > 4000) break;
            }
            while (!ZSTD_isError(r) && chd[i] == 1) { ob.dst = out; ob.size = cap; ob.pos = opos; r = ZSTD_flushStream(c, &ob); note("f", 0, r);
                if (ZSTD_isError(r)) break; opos = ob.pos; if (r == 0 || ++guard > 4000) break; }
        }
        while (!ZSTD_isError(r)) { ZSTD_outBuffer ob; ob.dst = out; ob.size = cap; ob.pos = opos;
            r = ZSTD_endStream(c, &ob); note("e", 0, r); if (ZSTD_isError(r)) break; opos = ob.pos; if (r == 0 || ++guard > 4000) break; }
    } else if (!strncmp(var, "bl", 2)) {
        size_t ipos = 0; int i; ZSTD_CDict* cd = NULL; ZSTD_CCtx* c0 = NULL;
        unsigned long long const pl = havePledge ? pledge : ZSTD_CONTENTSIZE_UNKNOWN;
        if (k == 0) { ZSTD_parameters p = ZSTD_getParams(1, 0, 0); p.fParams.contentSizeFlag = 1; r = ZSTD_compressBegin_advanced(c, NULL, 0, p, pl); }
        else if (k == 1) { c0 = ZSTD_createCCtx(); r = ZSTD_compressBegin(c0, 1);
            if (!ZSTD_isError(r)) r = ZSTD_copyCCtx(c, c0, havePledge ? pledge : 0); }
        else { ZSTD_frameParameters fp; fp.contentSizeFlag = 1; fp.checksumFlag = 0; fp.noDictIDFlag = 0;
            cd = ZSTD_createCDict("the quick brown fox jumps over the lazy dog", 43, 1);
            r = ZSTD_compressBegin_usingCDict_advanced(c, cd, fp, pl); }
        note("b", 0, r);
        for (i = 0; !ZSTD_isError(r) && i < nch; i++) {
            size_t len = chn[i];
            if (len > n - ipos) len = n - ipos;
            if (i == nch - 1) { r = ZSTD_compressEnd(c, out + opos, cap - opos, in + ipos, len); note("E", len, r); }
            else { r = ZSTD_compressContinue(c, out + opos, cap - opos, in + ipos, len); note("C", len, r); }
            if (ZSTD_isError(r)) break;
            opos += r; ipos += len;
        }
        if (nch == 0 && !ZSTD_isError(r)) { r = ZSTD_compressEnd(c, out, cap, in, 0); note("E", 0, r); if (!ZSTD_isError(r)) opos += r; }
        ZSTD_freeCDict(cd); ZSTD_freeCCtx(c0);
    } else if (!strcmp(var, "c2")) {
        r = apply_cparams(c, t[3]);
        if (!ZSTD_isError(r) && havePledge) r = ZSTD_CCtx_setPledgedSrcSize(c, pledge);
        if (!ZSTD_isError(r)) { r = ZSTD_compress2(c, out, cap, in, n); note("2", n, r); if (!ZSTD_isError(r)) opos = r; }
    } else r = (size_t)-ZSTD_error_GENERIC;
    if (ZSTD_isError(r)) { printf("%s ERR ", id); pename(r); printf(" %s\n", g_cl ? g_calls : "-"); }
    else { printf("%s OK ", id); puthex(out, opos); printf(" %s\n", g_cl ? g_calls : "-"); }
    ZSTD_freeCCtx(c); free(in); free(out);
}

static void cmd_R(char** t) {
    const char* id = t[1]; size_t an, bn; unsigned char* a = unhex(t[3], &an); size_t cut = (size_t)strtoull(t[4], NULL, 10);
    unsigned char* b = unhex(t[5], &bn); size_t cap = (size_t)strtoull(t[6], NULL, 10);
    unsigned char* out = (unsigned char*)malloc(cap + 1); ZSTD_DCtx* d = ZSTD_createDCtx();
    size_t r = apply_dparams(d, t[2]); size_t opos = 0, ipos = 0; int guard = 0;
    if (cut > an) cut = an;
    if (!ZSTD_isError(r)) { ZSTD_inBuffer ib; ZSTD_outBuffer ob; ib.src = a; ib.size = cut; ib.pos = 0; ob.dst = out; ob.size = cap; ob.pos = 0;
        (void)ZSTD_decompressStream(d, &ob, &ib);     /* whatever it answers: the session is abandoned */
        r = ZSTD_DCtx_reset(d, ZSTD_reset_session_only); }
    r = ZSTD_isError(r) ? r : 1;
    while (!ZSTD_isError(r) && ++guard < 100000) {
        ZSTD_inBuffer ib; ZSTD_outBuffer ob; size_t il = bn - ipos; if (il > 7) il = 7;
        ib.src = b + ipos; ib.size = il; ib.pos = 0; ob.dst = out + opos; ob.size = cap - opos; ob.pos = 0;
        r = ZSTD_decompressStream(d, &ob, &ib);
        if (ZSTD_isError(r)) break;
        ipos += ib.pos; opos += ob.pos;
        if (ipos == bn && (r == 0 || (ib.pos == 0 && ob.pos == 0))) break;
    }
    if (!ZSTD_isError(r) && r != 0) r = (size_t)-ZSTD_error_srcSize_wrong;
    if (ZSTD_isError(r)) { printf("%s ERR ", id); pename(r); putchar('\n'); }
    else { printf("%s OK ", id); puthex(out, opos); putchar('\n'); }
    ZSTD_freeDCtx(d); free(a); free(b); free(out);
}

static void cmd_N(char** t) {
    const char* id = t[1]; size_t fn; unsigned char* f = unhex(t[3], &fn); size_t cap = (size_t)strtoull(t[4], NULL, 10);
    unsigned char* out = (unsigned char*)malloc(cap + 1); ZSTD_DCtx* d = ZSTD_createDCtx();
    size_t r = apply_dparams(d, t[2]); size_t ipos = 0, opos = 0;
    if (!ZSTD_isError(r)) r = ZSTD_decompressBegin(d);
    while (!ZSTD_isError(r)) {
        size_t need = ZSTD_nextSrcSizeToDecompress(d);
        if (need == 0 || need > fn - ipos) { printf("%s END %lu %lu %lu\n", id, (unsigned long)need, (unsigned long)ipos, (unsigned long)opos); goto done; }
        r = ZSTD_decompressContinue(d, out + opos, cap - opos, f + ipos, need);
        if (ZSTD_isError(r)) break;
        ipos += need; opos += r;
    }
    printf("%s ERR ", id); pename(r); printf(" %lu\n", (unsigned long)ipos);
done:
    ZSTD_freeDCtx(d); free(f); free(out);
}

static void cmd_W(char** t) {
    const char* id = t[1]; size_t fn; unsigned char* f = unhex(t[2], &fn); size_t cap = (size_t)strtoull(t[3], NULL, 10);
    unsigned char* out = (unsigned char*)malloc(cap + 1); unsigned char* pad = (unsigned char*)calloc(fn + (1 << 18), 1);
    size_t step = 0, nref = 0; int bad = 0;
    for (step = 0; step < 64 && !bad; step++) {
        /* replay the frame up to `step` correct calls, then offer wrong sizes */
        ZSTD_DCtx* d = ZSTD_createDCtx(); size_t ipos = 0, opos = 0, s, r = ZSTD_decompressBegin(d); int ended = 0;
        for (s = 0; s < step && !ZSTD_isError(r); s++) {
            size_t need = ZSTD_nextSrcSizeToDecompress(d);
            if (need == 0 || need > fn - ipos) { ended = 1; break; }
            r = ZSTD_decompressContinue(d, out + opos, cap - opos, f + ipos, need); if (ZSTD_isError(r)) { ended = 1; break; }
            ipos += need; opos += r;
        }
        if (!ended) {
            size_t need = ZSTD_nextSrcSizeToDecompress(d); int raw = ZSTD_nextInputType(d) == ZSTDnit_block || ZSTD_nextInputType(d) == ZSTDnit_lastBlock;
            size_t offers[4]; int i; offers[0] = 0; offers[1] = need + 1; offers[2] = need > 1 ? need - 1 : need + 2; offers[3] = need + 3;
            memcpy(pad, f + ipos, fn - ipos);
            for (i = 0; i < 4 && need; i++) {
                ZSTD_DCtx* d2 = ZSTD_createDCtx(); size_t r2;
                ZSTD_copyDCtx(d2, d);
                r2 = ZSTD_decompressContinue(d2, out + opos, cap - opos, pad, offers[i]);
                /* a shorter piece of a raw block is legitimate (raw blocks are streamable) */
                if (!ZSTD_isError(r2) && !(raw && offers[i] >= 1 && offers[i] < need)) { printf("%s BAD %lu %lu %lu\n", id, (unsigned long)step, (unsigned long)offers[i], (unsigned long)need); bad = 1; ZSTD_freeDCtx(d2); break; }
                if (ZSTD_isError(r2)) nref++;
                ZSTD_freeDCtx(d2);
            }
        }
        ZSTD_freeDCtx(d);
        if (ended) break;
    }
    if (!bad) printf("%s OK %lu\n", id, (unsigned long)nref);
    free(f); free(out); free(pad);
}

int main(void) {
    char* line = NULL; size_t lcap = 0; ssize_t len;
    while ((len = getline(&line, &lcap, stdin)) > 0) {
        char* t[12]; int nt = 0; char* sv = NULL; char* tok = strtok_r(line, " \n", &sv);
        while (tok && nt < 12) { t[nt++] = tok; tok = strtok_r(NULL, " \n", &sv); }
        if (nt == 0) continue;
        if (t[0][0] == 'P' && nt >= 7) cmd_P(t);
        else if (t[0][0] == 'R' && nt >= 7) cmd_R(t);
        else if (t[0][0] == 'N' && nt >= 5) cmd_N(t);
        else if (t[0][0] == 'W' && nt >= 4) cmd_W(t);
        else printf("? BADCMD\n");
        fflush(stdout);
    }
    free(line);
    return 0;
}
