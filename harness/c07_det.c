/* C07 tie harness: paired executions of REAL compression contexts + observers of the internal state.
 *
 * A script (stdin) drives any number of contexts through arbitrary histories; every frame the script
 * produces is reported as (size, XXH64 of the bytes, libzstd round trip) so that the python driver can
 * byte-compare frames produced by DIFFERENT executions of the SAME logical call sequence (fresh context
 * vs used context, heap vs static memory, other buffer addresses, other output capacities, other worker
 * counts / thread timings).  No prediction of compressed bytes is made anywhere.
 *
 * Internal state is read through #include of zstd_compress.c / zstdmt_compress.c (no /repo hook):
 *   D lines : window (index of nextSrc, lowLimit, dictLimit), nextToUpdate, loadedDictEnd, hashSalt,
 *             hashSaltEntropy, opt.litLengthSum, the cwksp pointers (relative), applied parameters, the
 *             workspace size resetCCtx_internal asks for, and two direct memory observers:
 *               tb    = number of table entries >= index of nextSrc      (invariant I of the reset theorem)
 *               reach = number of table entries >= lowLimit              (conclusion of the reset theorem)
 *   J lines : every job ZSTDMT posts (id, src size, prefix size, first, last) - POOL_tryAdd is wrapped by a
 *             macro inside this translation unit only; the wrapper can also refuse a post ("no worker
 *             available") and all ZSTD_pthread_mutex_lock calls of zstdmt_compress.c get a random
 *             sched_yield/usleep in front (thread-timing jitter).
 *
 * Script commands (one per line, decimal integers):
 *   blobfile <path>                       input bytes; everything else addresses it by (offset, length)
 *   arena <n>                             size the src/dst arenas once (so that later frames can be placed
 *                                         contiguously after earlier ones: <sa> is an absolute arena offset)
 *   seed <n>                              PRNG for garbage fill / jitter
 *   ctx <c> heap|heapz|static <size>      create (heap: allocator returns garbage-filled memory; heapz: zeroed)
 *   free <c>
 *   set <c> <param> <value>               ZSTD_CCtx_setParameter
 *   setp <c> <n> (<param> <value>)*n      the same through ZSTD_CCtx_params + ZSTD_CCtx_setParametersUsingCCtxParams
 *   reset <c> <1|2|3>                     ZSTD_CCtx_reset
 *   pledge <c> <n>
 *   prefix <c> <off> <len>                ZSTD_CCtx_refPrefix (raw content)
 *   load <c> <off> <len> <byRef> <type>   ZSTD_CCtx_loadDictionary_advanced
 *   cdict <d> <off> <len> <level> <byRef> <type>     ZSTD_createCDict_advanced (cparams of the level / dict size)
 *   cdict2 <d> <off> <len> <wlog> <clog> <hlog> <slog> <mml> <tlen> <strat> <dds>   explicit cparams (advanced2)
 *   refcdict <c> <d>   (d = -1 : NULL)
 *   jitter <level>   mtfail <permille>
 *   trace <0|1>                           D line after every API call on a context
 *   F <c> <fid> <off> <len> <sa> <da> <hex> <api> ...   one frame; src is copied to page+sa, dst is page+da
 *       c2 <cap>                          ZSTD_compress2                          (cap 0 = compressBound)
 *       cctx <level> <cap>                ZSTD_compressCCtx
 *       udict <level> <doff> <dlen>       ZSTD_compress_usingDict
 *       ucdict <d>                        ZSTD_compress_usingCDict
 *       adv <wlog> <clog> <hlog> <slog> <mml> <tlen> <strat> <cs> <chk> <doff> <dlen>   ZSTD_compress_advanced
 *       stream <inmode> <nP> (<size> <dir>)*nP <nC> <cap>*nC      ZSTD_compressStream2 ; dir 0/1/2 ; caps cycle
 *       bl <chunk> <wlog> <clog> <hlog> <slog> <mml> <tlen> <strat> <cs> <chk> <pledge> <doff> <dlen> <copyTo|-1>
 *                                         ZSTD_compressBegin_advanced / Continue / End (optional ZSTD_copyCCtx
 *                                         right after Begin into context <copyTo>, which then does the work)
 *       blcdict <chunk> <d>               ZSTD_compressBegin_usingCDict / Continue / End
 *   A <c> <off> <len> <flush>             abandoned frame: stream <len> bytes (then flush if 1), never end
 *   G <c> <off> <len>                     ZSTD_generateSequences on the context (history item; the sequence array is freed right after)
 *   prefixa <c> <off> <len> <sa>          ZSTD_CCtx_refPrefix of a COPY placed at srcArena+sa (a following F with <sa>+<len> makes
 *                                         the prefix end exactly where the input starts)
 *   loada <c> <off> <len> <sa>            ZSTD_CCtx_loadDictionary_advanced(byRef, auto) of a COPY placed at srcArena+sa (as prefixa)
 *   W <c> <off> <len> <span>              ZSTD_compress2 with the sticky parameters: once with a large capacity (size r0), then with
 *                                         every capacity r0 .. r0+span; prints "W off len r0 nerr ndiff firstcap firstsize nraw headerSize strategy <one of E = R X per capacity>"
 *       udictc <level> <doff> <dlen>      (F api) ZSTD_compress_usingDict, the dictionary copied right in front of the input (<sa> >= <dlen>)
 *   P lines (trace on, streaming frames): after every input piece "P ctx piece consumedSrcSize inBuffPos inToCompress inBuffTarget streamStage"
 * Output: "F fid rc size hash rt nerr sc nblocks lastBlockEmpty [hex]"  (sc: 1 = e_end shortcut taken, -1 = buffered path, -2 = not a streaming frame)  (rc 0 ok, else "E <errorname>"), D / J lines, "E ..." for API errors.
 */
#define ZSTD_DEPS_NEED_MALLOC
#include "compress/zstd_compress.c"
#include <stdio.h>
#include <stdlib.h>
#include <string.h>
#include <sched.h>
#include <unistd.h>
#include <sys/mman.h>

/* ---------------- PRNG (thread safe: counter based) ---------------- */
static volatile unsigned long long g_ctr;
static unsigned long long g_seed = 1;
static unsigned long long mix64(unsigned long long x) {
    x += 0x9E3779B97F4A7C15ULL; x = (x ^ (x >> 30)) * 0xBF58476D1CE4E5B9ULL;
    x = (x ^ (x >> 27)) * 0x94D049BB133111EBULL; return x ^ (x >> 31);
}
static unsigned long long rnd64(void) { return mix64(g_seed * 0x2545F4914F6CDD1DULL + __sync_add_and_fetch(&g_ctr, 1)); }

static int g_jitter = 0;      /* 0 none; n: probability n/16 of yielding at every zstdmt lock */
static int g_mtfail = 0;      /* permille of refused POOL_tryAdd */
static void zv_jit(void) {
    if (g_jitter) {
        unsigned long long const r = rnd64();
        if ((int)(r & 15) < g_jitter) { if ((r >> 4) & 3) sched_yield(); else usleep((unsigned)((r >> 8) % 60)); }
    }
}

/* ---------------- zstdmt_compress.c with jittered locks and an observed job queue ---------------- */
#include "common/pool.h"
#include "common/threading.h"
#undef ZSTD_pthread_mutex_lock
#define ZSTD_pthread_mutex_lock(a) (zv_jit(), pthread_mutex_lock((a)))
static int zv_tryAdd(POOL_ctx* ctx, POOL_function function, void* opaque);
#define POOL_tryAdd(c, f, o) zv_tryAdd((c), (f), (o))
#include "compress/zstdmt_compress.c"
#undef POOL_tryAdd
static int zv_tryAdd(POOL_ctx* ctx, POOL_function function, void* opaque) {
    ZSTDMT_jobDescription const* const job = (ZSTDMT_jobDescription const*)opaque;
    if (g_mtfail && (int)(rnd64() % 1000) < g_mtfail) return 0;
    {   unsigned const id = job->jobID; size_t const ss = job->src.size, ps = job->prefix.size;
        unsigned const fj = job->firstJob, lj = job->lastJob;
        int const r = POOL_tryAdd(ctx, function, opaque);
        if (r) printf("J %u %zu %zu %u %u %d\n", id, ss, ps, fj, lj, job->params.compressionLevel);   /* round 3: + the level the job was prepared with */
        return r;
    }
}

typedef unsigned long long ull;

/* ---------------- allocators ---------------- */
static void fill_garbage(void* p, size_t s) {
    ull x = rnd64(); size_t i; BYTE* b = (BYTE*)p;
    for (i = 0; i + 8 <= s; i += 8) { x = x * 6364136223846793005ULL + 1442695040888963407ULL; memcpy(b + i, &x, 8); b[i + 3] |= 0xC0; b[i + 7] |= 0xC0; }
    for (; i < s; i++) b[i] = (BYTE)(0xC0 | i);
}
static void* g_alloc(void* o, size_t s) { void* p = malloc(s); (void)o; zv_jit(); if (p) fill_garbage(p, s); return p; }
static void* z_alloc(void* o, size_t s) { (void)o; return calloc(1, s); }
static void x_free(void* o, void* p) { (void)o; free(p); }
static ZSTD_customMem const gmem = { g_alloc, x_free, NULL };
static ZSTD_customMem const zmem = { z_alloc, x_free, NULL };

/* ---------------- state ---------------- */
#define NCTX 16
static ZSTD_CCtx* C[NCTX]; static void* Cmem[NCTX];
static ZSTD_CDict* CD[NCTX]; static size_t CDoff[NCTX], CDlen[NCTX];
static ZSTD_DCtx* dctx;
static BYTE* blob; static size_t blobSize;
static BYTE *srcArena, *dstArena, *rtBuf, *pieceBuf; static size_t arenaCap;
static int g_trace = 0;
static int g_cdhint = -1;   /* does the frame being started use a CDict: -1 = read the sticky fields of the context, 0 / 1 = known from the API */
static const ZSTD_CDict* g_cdptr = NULL;   /* the CDict when g_cdhint == 1 */
/* decoding side: what the frame was compressed with */
static size_t curDictOff, curDictLen; static int curDictKind; /* 0 none, 1 raw/auto content (prefix, dict) */
static size_t stickyOff[NCTX], stickyLen[NCTX]; static int stickyKind[NCTX];
static size_t prefOff[NCTX], prefLen[NCTX]; static int prefSet[NCTX];
static int refCD[NCTX];

static void* page_alloc(size_t s) {
    void* p = mmap(NULL, s, PROT_READ | PROT_WRITE, MAP_PRIVATE | MAP_ANONYMOUS, -1, 0);
    if (p == MAP_FAILED) { fprintf(stderr, "mmap failed\n"); exit(2); }
    return p;
}
static void need_arena(size_t n) {
    size_t const want = ((ZSTD_compressBound(n) + 2 * 4096 + 65536) | 4095) + 1;
    if (want <= arenaCap) return;
    if (srcArena) { munmap(srcArena, arenaCap); munmap(dstArena, arenaCap); munmap(rtBuf, arenaCap); munmap(pieceBuf, arenaCap); }
    arenaCap = want;
    srcArena = (BYTE*)page_alloc(arenaCap); dstArena = (BYTE*)page_alloc(arenaCap);
    rtBuf = (BYTE*)page_alloc(arenaCap); pieceBuf = (BYTE*)page_alloc(arenaCap);
}

/* ---------------- observers ---------------- */
/* every U32 cell of the reserved table area [objectEnd, tableEnd) = hashTable ++ chainTable ++ hashTable3 */
static void count_tables(const ZSTD_CCtx* c, ull* tb, ull* reach, ull* nz) {
    const ZSTD_matchState_t* const ms = &c->blockState.matchState;
    U32 const bound = (U32)(ms->window.nextSrc - ms->window.base);
    U32 const low = ms->window.lowLimit;
    const U32* const p = (const U32*)c->workspace.objectEnd;
    size_t const n = (size_t)((const BYTE*)c->workspace.tableEnd - (const BYTE*)c->workspace.objectEnd) / sizeof(U32);
    size_t i;
    *tb = 0; *reach = 0; *nz = 0;
    if (p == NULL) return;
    for (i = 0; i < n; i++) { U32 const v = p[i]; *tb += (v >= bound) && (v != 0); *reach += (v >= low); *nz += (v != 0); }
}

static void dump(int ci, const char* why) {
    const ZSTD_CCtx* const c = C[ci];
    const ZSTD_matchState_t* ms; const ZSTD_cwksp* ws; const ZSTD_CCtx_params* ap;
    if (!g_trace || c == NULL) return;
    ms = &c->blockState.matchState; ws = &c->workspace; ap = &c->appliedParams;
    printf("D %d %s init=%d static=%d", ci, why, c->initialized, c->staticSize != 0);
    {   int const chain = ZSTD_allocateChainTable(ap->cParams.strategy, ap->useRowMatchFinder, 0);
        int const row = ZSTD_rowMatchFinderUsed(ap->cParams.strategy, ap->useRowMatchFinder);
        printf(" wl=%u cl=%u hl=%u sl=%u mm=%u tl=%u strat=%d row=%d chain=%d h3=%u ldm=%d nbw=%d stage=%d",
               ap->cParams.windowLog, ap->cParams.chainLog, ap->cParams.hashLog, ap->cParams.searchLog, ap->cParams.minMatch,
               ap->cParams.targetLength, (int)ap->cParams.strategy, row, chain, ms->hashLog3, ap->ldmParams.enableLdm == ZSTD_ps_enable,
               ap->nbWorkers, (int)c->stage);
    }
    if (c->initialized) {
        ull tb = 0, reach = 0, nz = 0;
        ull const pledged = c->pledgedSrcSizePlusOne - 1;
        size_t need;
        if (ap->nbWorkers == 0) count_tables(c, &tb, &reach, &nz);
        need = 0;
        if (ap->nbWorkers == 0 && (ap->ldmParams.enableLdm != ZSTD_ps_enable || ap->ldmParams.minMatchLength != 0))
            need = ZSTD_estimateCCtxSize_usingCCtxParams_internal(&ap->cParams, &ap->ldmParams, c->staticSize != 0, ap->useRowMatchFinder,
                    c->inBuffSize, c->outBuffSize, pledged, ZSTD_hasExtSeqProd(ap), ap->maxBlockSize);
        printf(" idx=%lld ll=%u dl=%u ntu=%u lde=%u dms=%d salt=%llu ent=%u lls=%u",
               (long long)(ms->window.nextSrc - ms->window.base), ms->window.lowLimit, ms->window.dictLimit, ms->nextToUpdate,
               ms->loadedDictEnd, ms->dictMatchState != NULL, (ull)ms->hashSalt, ms->hashSaltEntropy, ms->opt.litLengthSum);
        printf(" tb=%llu reach=%llu nz=%llu need=%zu pledged=%lld", tb, reach, nz, need, (long long)pledged);
        /* block state (ZSTD_reset_compressedBlockState), streaming buffer state, LDM state */
        if (c->blockState.prevCBlock != NULL) {
            const ZSTD_compressedBlockState_t* const bs = c->blockState.prevCBlock;
            printf(" rep0=%u rep1=%u rep2=%u hr=%d ofr=%d mlr=%d llr=%d", bs->rep[0], bs->rep[1], bs->rep[2], (int)bs->entropy.huf.repeatMode,
                   (int)bs->entropy.fse.offcode_repeatMode, (int)bs->entropy.fse.matchlength_repeatMode, (int)bs->entropy.fse.litlength_repeatMode);
        }
        {   /* the CDict this frame was started with (sticky API: refCDict or the CDict made from a loaded dictionary) */
            const ZSTD_CDict* const cd = g_cdhint >= 0 ? (g_cdhint ? g_cdptr : NULL) : (c->cdict ? c->cdict : c->localDict.cdict);
            printf(" cd=%d", cd != NULL);
            if (cd != NULL) {
                const ZSTD_compressionParameters* const q = &cd->matchState.cParams; const ZSTD_compressionParameters* const a = &ap->cParams;
                int const same = q->strategy == a->strategy && q->hashLog == a->hashLog && q->chainLog == a->chainLog
                              && q->searchLog == a->searchLog && q->minMatch == a->minMatch && q->targetLength == a->targetLength
                              && cd->useRowMatchFinder == ap->useRowMatchFinder;
                printf(" cdsz=%zu cdlvl=%d cdstrat=%d cddds=%d cdrow=%d cdsame=%d adp=%d fw=%d", cd->dictContentSize, cd->compressionLevel,
                       (int)q->strategy, cd->matchState.dedicatedDictSearch, ZSTD_rowMatchFinderUsed(q->strategy, cd->useRowMatchFinder), same,
                       (int)ap->attachDictPref, ap->forceWindow);
            }
        }
        printf(" bs=%zu ibs=%zu ipos=%zu itoc=%zu itgt=%zu cons=%llu sst=%d fe=%u", c->blockSize, c->inBuffSize, c->inBuffPos, c->inToCompress,
               c->inBuffTarget, (ull)c->consumedSrcSize, (int)c->streamStage, c->frameEnded);
        if (ap->nbWorkers == 0 && ap->ldmParams.enableLdm == ZSTD_ps_enable && c->ldmState.hashTable != NULL) {
            size_t const hb = ((size_t)1 << ap->ldmParams.hashLog) * sizeof(ldmEntry_t);
            size_t const nb = (size_t)1 << (ap->ldmParams.hashLog - ap->ldmParams.bucketSizeLog);
            const BYTE* const h = (const BYTE*)c->ldmState.hashTable; const BYTE* const bo = c->ldmState.bucketOffsets;
            ull nzl = 0; size_t i;
            /* after a failed reset (appliedParams are written first) the pointers may belong to an older, smaller table */
            int const inside = h >= (const BYTE*)ws->workspace && h + hb <= (const BYTE*)ws->workspaceEnd
                            && (bo == NULL || (bo >= (const BYTE*)ws->workspace && bo + nb <= (const BYTE*)ws->workspaceEnd));
            if (inside) {
                for (i = 0; i < hb; i++) nzl += (h[i] != 0);
                if (bo) for (i = 0; i < nb; i++) nzl += (bo[i] != 0);
                printf(" ldmnz=%llu ldmidx=%lld ldmll=%u ldmdl=%u ldmlde=%u", nzl, (long long)(c->ldmState.window.nextSrc - c->ldmState.window.base),
                       c->ldmState.window.lowLimit, c->ldmState.window.dictLimit, c->ldmState.loadedDictEnd);
            }
        }
    }
    printf(" ws=%llu wsz=%zu oe=%zu te=%zu tve=%zu as=%zu ios=%zu ph=%d af=%d osd=%d",
           (ull)(size_t)ws->workspace, (size_t)((BYTE*)ws->workspaceEnd - (BYTE*)ws->workspace),
           (size_t)((BYTE*)ws->objectEnd - (BYTE*)ws->workspace), (size_t)((BYTE*)ws->tableEnd - (BYTE*)ws->workspace),
           (size_t)((BYTE*)ws->tableValidEnd - (BYTE*)ws->workspace), (size_t)((BYTE*)ws->allocStart - (BYTE*)ws->workspace),
           (size_t)((BYTE*)ws->initOnceStart - (BYTE*)ws->workspace), (int)ws->phase, (int)ws->allocFailed, ws->workspaceOversizedDuration);
    if (c->initialized && c->blockState.matchState.tagTable && ZSTD_rowMatchFinderUsed(ap->cParams.strategy, ap->useRowMatchFinder))
        printf(" tag=%zu", (size_t)((BYTE*)ms->tagTable - (BYTE*)ws->workspace));
    if (c->mtctx) {
        const ZSTDMT_CCtx* const m = c->mtctx;
        printf(" mt=1 tss=%zu tps=%zu njob=%u djob=%u filled=%zu jready=%d fend=%u mcons=%llu",
               m->targetSectionSize, m->targetPrefixSize, m->nextJobID, m->doneJobID, m->inBuff.filled, m->jobReady, m->frameEnded, m->consumed);
    }
    printf("\n");
}

static int g_nerr;   /* API errors (set / load / reset ...) since the last F line */
static void perr(const char* what, size_t r) { g_nerr++; printf("E %s %s\n", what, ZSTD_getErrorName(r)); }
/* S line (trace on): one API call and the session-level state right after it, for the lock-step with Det/ApiState.v:
 * "S ctx code a b accepted stage!=init localDict.dict localDict.cdict cctx->cdict prefixDict.dict collectSequences"
 * codes = opcodes of Driver.d_api (0 = context created, 20 = a streaming / compress2 frame that failed) */
static void sline(int c, int code, long long a, long long b, size_t rc) {
    const ZSTD_CCtx* const x = C[c];
    if (!g_trace || x == NULL) return;
    /* round 3: last field = cctx->bufferedPolicy == ZSTDb_buffered (ghost field a_buf of Det/ApiState.v) */
    printf("S %d %d %lld %lld %d %d %d %d %d %d %d %d\n", c, code, a, b, ZSTD_isError(rc) ? 0 : 1, x->streamStage != zcss_init,
           x->localDict.dict != NULL, x->localDict.cdict != NULL, x->cdict != NULL, x->prefixDict.dict != NULL,
           x->seqCollector.collectSequences, x->bufferedPolicy == ZSTDb_buffered);
}

/* ---------------- round trip through libzstd ---------------- */
static int decode_ok(const BYTE* cs, size_t csize, const BYTE* src, size_t size) {
    size_t r;
    ZSTD_DCtx_reset(dctx, ZSTD_reset_session_and_parameters);
    ZSTD_DCtx_setParameter(dctx, ZSTD_d_windowLogMax, ZSTD_WINDOWLOG_MAX);
    if (curDictKind == 1) ZSTD_DCtx_refPrefix(dctx, blob + curDictOff, curDictLen);           /* raw content */
    else if (curDictKind == 2) ZSTD_DCtx_loadDictionary_advanced(dctx, blob + curDictOff, curDictLen, ZSTD_dlm_byRef, ZSTD_dct_auto);
    r = ZSTD_decompressDCtx(dctx, rtBuf, size ? size : 1, cs, csize);
    if (ZSTD_isError(r)) return 0;
    return r == size && (size == 0 || memcmp(rtBuf, src, size) == 0);
}

/* streaming only: did the last segment handed to the block compressor live in the caller's buffer (1) or in the
 * context's own input buffer (-1)?  1 <=> the ZSTD_e_end shortcut of ZSTD_compressStream_generic ran ZSTD_compressEnd
 * on the caller's bytes (it ends the frame, so it happens at most once and last). */
static long long g_sc = -2;
static void note_shortcut(int ci, size_t len) {
    const ZSTD_CCtx* const c = C[ci]; const ZSTD_window_t* const w = &c->blockState.matchState.window;
    g_sc = -1;
    if (c->appliedParams.nbWorkers > 0 || !c->initialized || len == 0) return;
    if (w->nextSrc != NULL && !ZSTD_cwksp_owns_buffer(&c->workspace, w->nextSrc - 1)) g_sc = 1;
}
static void report(int fid, size_t r, const BYTE* dst, const BYTE* src, size_t len, int hex) {
    if (ZSTD_isError(r)) { printf("F %d E %s %d\n", fid, ZSTD_getErrorName(r), g_nerr); g_nerr = 0; g_sc = -2; return; }
    printf("F %d 0 %zu %016llx %d %d %lld", fid, r, (ull)XXH64(dst, r, 0), decode_ok(dst, r, src, len), g_nerr, g_sc);
    {   /* walk the block headers: number of blocks, is the last block an empty raw block */
        size_t const h = ZSTD_frameHeaderSize(dst, r); size_t pos = h; int nb = 0, lastEmpty = -1;
        if (!ZSTD_isError(h)) {
            while (pos + 3 <= r) {
                U32 const bh = MEM_readLE24(dst + pos); U32 const last = bh & 1, type = (bh >> 1) & 3, sz = bh >> 3;
                nb++; pos += 3 + (type == 1 ? 1 : sz);
                if (last) { lastEmpty = (type == 0 && sz == 0); break; }
            }
        }
        printf(" %d %d", nb, lastEmpty);
    }
    g_nerr = 0; g_sc = -2;
    if (hex) { size_t i; printf(" "); for (i = 0; i < r; i++) printf("%02x", dst[i]); }
    printf("\n");
}

/* dictionary the next frame of context c is decoded with */
static void pick_dict(int c) {
    curDictKind = 0;
    if (prefSet[c]) { curDictKind = 1; curDictOff = prefOff[c]; curDictLen = prefLen[c]; }
    else if (refCD[c] >= 0 && CD[refCD[c]]) { curDictKind = 2; curDictOff = CDoff[refCD[c]]; curDictLen = CDlen[refCD[c]]; }
    else if (stickyKind[c]) { curDictKind = 2; curDictOff = stickyOff[c]; curDictLen = stickyLen[c]; }
    prefSet[c] = 0;
}

static ZSTD_parameters mk_params(FILE* in, size_t* ok) {
    ZSTD_parameters p; int wl, cl, hl, sl, mm, tl, st, cs, chk;
    memset(&p, 0, sizeof(p));
    *ok = fscanf(in, "%d %d %d %d %d %d %d %d %d", &wl, &cl, &hl, &sl, &mm, &tl, &st, &cs, &chk) == 9;
    p.cParams.windowLog = wl; p.cParams.chainLog = cl; p.cParams.hashLog = hl; p.cParams.searchLog = sl;
    p.cParams.minMatch = mm; p.cParams.targetLength = tl; p.cParams.strategy = (ZSTD_strategy)st;
    p.fParams.contentSizeFlag = cs; p.fParams.checksumFlag = chk; p.fParams.noDictIDFlag = 0;
    return p;
}

/* streaming of [src, src+len) as a list of (size, directive) pieces with cycling output capacities */
static size_t do_stream(int ci, const BYTE* src, size_t len, BYTE* dst, size_t dstCap, int inmode,
                        int nP, const size_t* psz, const int* pdir, int nC, const size_t* caps, int endIt, int dumpFirst)
{
    ZSTD_CCtx* const c = C[ci];
    size_t ipos = 0, opos = 0; int k = 0, p, first = 1; size_t guard = 0;
    for (p = 0; p <= nP; p++) {
        size_t sz; ZSTD_EndDirective dir; ZSTD_inBuffer in;
        if (p == nP) { if (!endIt || (nP > 0 && pdir[nP - 1] == 2 && ipos == len)) break; sz = len - ipos; dir = ZSTD_e_end; }
        else { sz = psz[p]; dir = (ZSTD_EndDirective)pdir[p]; }
        if (sz > len - ipos) sz = len - ipos;
        if (inmode == 1) { memcpy(pieceBuf + 7, src + ipos, sz); in.src = pieceBuf + 7; } else in.src = src + ipos;
        in.size = sz; in.pos = 0;
        for (;;) {
            size_t cap = caps[k % nC]; ZSTD_outBuffer out; size_t r;
            k++;
            if (cap > dstCap - opos) cap = dstCap - opos;
            out.dst = dst + opos; out.size = cap; out.pos = 0;
            r = ZSTD_compressStream2(c, &out, &in, dir);
            opos += out.pos;
            if (first && dumpFirst) { dump(ci, ZSTD_isError(r) ? "firstfail" : (sz == 0 && dir == ZSTD_e_continue) ? "first0" : "first"); first = 0; }
            if (ZSTD_isError(r)) return r;
            if (++guard > 50000000) return ERROR(GENERIC);
            if (dir == ZSTD_e_continue) { if (in.pos == in.size) break; }
            else if (r == 0 && in.pos == in.size) break;
            if (opos == dstCap && out.pos == 0 && cap == 0) return ERROR(dstSize_tooSmall);
        }
        ipos += sz;
        if (g_trace && dumpFirst) printf("P %d %d %llu %zu %zu %zu %d\n", ci, p, (ull)c->consumedSrcSize, c->inBuffPos, c->inToCompress, c->inBuffTarget, (int)c->streamStage);
        if (p == nP || p == nP - 1 || dir == ZSTD_e_end) note_shortcut(ci, len);
    }
    return opos;
}

int main(void) {
    char cmd[64];
    FILE* const in = stdin;
    int i;
    dctx = ZSTD_createDCtx();
    for (i = 0; i < NCTX; i++) refCD[i] = -1;
    setvbuf(stdout, NULL, _IOLBF, 1 << 16);
    {   /* constants local to zstd_compress.c that coq/Det/DictMode.v hard-codes */
        int k; printf("K %llu %llu", (ull)ZSTD_USE_CDICT_PARAMS_SRCSIZE_CUTOFF, (ull)ZSTD_USE_CDICT_PARAMS_DICTSIZE_MULTIPLIER);
        for (k = 0; k <= ZSTD_STRATEGY_MAX; k++) printf(" %zu", attachDictSizeCutoffs[k]);
        printf(" %d %d %d %d\n", (int)ZSTD_dictDefaultAttach, (int)ZSTD_dictForceAttach, (int)ZSTD_dictForceCopy, (int)ZSTD_dictForceLoad);
    }
    {   /* ZSTD_minGain on a grid (Det/RawFallback.minGain) */
        static const size_t gs[] = { 0, 1, 37, 63, 64, 65, 127, 128, 129, 575, 576, 1000, 4096, 65536, 131072 };
        size_t i; int st;
        for (i = 0; i < sizeof(gs) / sizeof(gs[0]); i++) for (st = 1; st <= ZSTD_STRATEGY_MAX; st++)
            printf("M %zu %d %zu\n", gs[i], st, ZSTD_minGain(gs[i], (ZSTD_strategy)st));
    }
    while (fscanf(in, "%63s", cmd) == 1) {
        if (!strcmp(cmd, "blobfile")) {
            char path[1024]; FILE* f; long n;
            if (fscanf(in, "%1023s", path) != 1) return 2;
            f = fopen(path, "rb"); if (!f) { fprintf(stderr, "cannot open %s\n", path); return 2; }
            fseek(f, 0, SEEK_END); n = ftell(f); fseek(f, 0, SEEK_SET);
            blob = (BYTE*)malloc((size_t)n + 64); blobSize = (size_t)n;
            if (fread(blob, 1, blobSize, f) != blobSize) return 2;
            fclose(f);
        } else if (!strcmp(cmd, "arena")) { size_t n; if (fscanf(in, "%zu", &n) != 1) return 2; need_arena(n);
        } else if (!strcmp(cmd, "seed")) { ull s; if (fscanf(in, "%llu", &s) != 1) return 2; g_seed = s; g_ctr = 0;
        } else if (!strcmp(cmd, "jitter")) { if (fscanf(in, "%d", &g_jitter) != 1) return 2;
        } else if (!strcmp(cmd, "mtfail")) { if (fscanf(in, "%d", &g_mtfail) != 1) return 2;
        } else if (!strcmp(cmd, "trace")) { if (fscanf(in, "%d", &g_trace) != 1) return 2;
        } else if (!strcmp(cmd, "ctx")) {
            int c; char kind[32]; size_t sz;
            if (fscanf(in, "%d %31s %zu", &c, kind, &sz) != 3) return 2;
            if (C[c]) { if (!Cmem[c]) ZSTD_freeCCtx(C[c]); free(Cmem[c]); C[c] = NULL; Cmem[c] = NULL; }
            if (!strcmp(kind, "heap")) C[c] = ZSTD_createCCtx_advanced(gmem);
            else if (!strcmp(kind, "heapz")) C[c] = ZSTD_createCCtx_advanced(zmem);
            else { Cmem[c] = malloc(sz + 64); fill_garbage(Cmem[c], sz + 64); C[c] = ZSTD_initStaticCCtx((void*)(((size_t)Cmem[c] + 63) & ~(size_t)63), sz); }
            if (!C[c]) printf("E ctx create-failed\n");
            stickyKind[c] = 0; prefSet[c] = 0; refCD[c] = -1;
            dump(c, "create"); sline(c, 0, 0, 0, 0);
        } else if (!strcmp(cmd, "free")) {
            int c; if (fscanf(in, "%d", &c) != 1) return 2;
            if (C[c]) { if (!Cmem[c]) ZSTD_freeCCtx(C[c]); free(Cmem[c]); C[c] = NULL; Cmem[c] = NULL; }
        } else if (!strcmp(cmd, "set")) {
            int c, p, v; size_t r; if (fscanf(in, "%d %d %d", &c, &p, &v) != 3) return 2;
            r = ZSTD_CCtx_setParameter(C[c], (ZSTD_cParameter)p, v); if (ZSTD_isError(r)) perr("set", r);
            sline(c, 1, ZSTD_isUpdateAuthorized((ZSTD_cParameter)p), 1, r);
        } else if (!strcmp(cmd, "setp")) {
            /* the same parameters through a ZSTD_CCtx_params object: ZSTD_CCtxParams_setParameter xN + ZSTD_CCtx_setParametersUsingCCtxParams */
            int c, n, k; size_t r; ZSTD_CCtx_params* pp;
            if (fscanf(in, "%d %d", &c, &n) != 2) return 2;
            pp = ZSTD_createCCtxParams();
            for (k = 0; k < n; k++) {
                int p, v; if (fscanf(in, "%d %d", &p, &v) != 2) return 2;
                r = ZSTD_CCtxParams_setParameter(pp, (ZSTD_cParameter)p, v); if (ZSTD_isError(r)) perr("set", r);
            }
            r = ZSTD_CCtx_setParametersUsingCCtxParams(C[c], pp); if (ZSTD_isError(r)) perr("setp-apply", r);
            sline(c, 2, 1, 0, r);
            ZSTD_freeCCtxParams(pp);
        } else if (!strcmp(cmd, "reset")) {
            int c, k; size_t r; if (fscanf(in, "%d %d", &c, &k) != 2) return 2;
            r = ZSTD_CCtx_reset(C[c], (ZSTD_ResetDirective)k); if (ZSTD_isError(r)) perr("reset", r);
            if (!ZSTD_isError(r)) { prefSet[c] = 0; if (k >= 2) { stickyKind[c] = 0; refCD[c] = -1; } }
            if (k == 1) sline(c, 7, 0, 0, r);
            else if (k == 2) sline(c, 8, 0, 0, r);
            else { /* session_and_parameters = session_only, then parameters (which a frame in progress cannot refuse any more) */
                printf("S %d 7 0 0 1 -1 -1 -1 -1 -1 -1 -1\n", c); sline(c, 8, 0, 0, r); }
            dump(c, "reset");
        } else if (!strcmp(cmd, "pledge")) {
            int c; ull n; size_t r; if (fscanf(in, "%d %llu", &c, &n) != 2) return 2;
            r = ZSTD_CCtx_setPledgedSrcSize(C[c], n); if (ZSTD_isError(r)) perr("pledge", r);
            sline(c, 6, 0, 0, r);
        } else if (!strcmp(cmd, "prefix")) {
            int c; size_t o, l, r; if (fscanf(in, "%d %zu %zu", &c, &o, &l) != 3) return 2;
            r = ZSTD_CCtx_refPrefix(C[c], blob + o, l); if (ZSTD_isError(r)) perr("prefix", r);
            else { prefSet[c] = l > 0; prefOff[c] = o; prefLen[c] = l; stickyKind[c] = 0; refCD[c] = -1; /* ZSTD_clearAllDicts */ }
            sline(c, 5, l > 0, 0, r);
        } else if (!strcmp(cmd, "load")) {
            int c, byRef, type; size_t o, l, r; if (fscanf(in, "%d %zu %zu %d %d", &c, &o, &l, &byRef, &type) != 5) return 2;
            r = ZSTD_CCtx_loadDictionary_advanced(C[c], blob + o, l, byRef ? ZSTD_dlm_byRef : ZSTD_dlm_byCopy, (ZSTD_dictContentType_e)type);
            if (ZSTD_isError(r)) perr("load", r); else { stickyKind[c] = l > 0; stickyOff[c] = o; stickyLen[c] = l; refCD[c] = -1; prefSet[c] = 0; }
            sline(c, 3, l > 0, 0, r);
        } else if (!strcmp(cmd, "cdict")) {
            int d, level, byRef, type; size_t o, l; if (fscanf(in, "%d %zu %zu %d %d %d", &d, &o, &l, &level, &byRef, &type) != 6) return 2;
            /* the previous CDict of this slot is not freed: a context may still reference it (ZSTD_CCtx_refCDict is sticky) and dump() reads it */
            CD[d] = ZSTD_createCDict_advanced(blob + o, l, byRef ? ZSTD_dlm_byRef : ZSTD_dlm_byCopy, (ZSTD_dictContentType_e)type,
                                              ZSTD_getCParams(level, ZSTD_CONTENTSIZE_UNKNOWN, l), gmem);
            CDoff[d] = o; CDlen[d] = l;
            if (!CD[d]) printf("E cdict create-failed\n");
        } else if (!strcmp(cmd, "cdict2")) {
            int d, wl, cl, hl, sl, mm, tl, st, dds; size_t o, l; ZSTD_CCtx_params* pp; ZSTD_compressionParameters cp;
            if (fscanf(in, "%d %zu %zu %d %d %d %d %d %d %d %d", &d, &o, &l, &wl, &cl, &hl, &sl, &mm, &tl, &st, &dds) != 11) return 2;
            /* the previous CDict of this slot is not freed: a context may still reference it (ZSTD_CCtx_refCDict is sticky) and dump() reads it */
            cp.windowLog = wl; cp.chainLog = cl; cp.hashLog = hl; cp.searchLog = sl; cp.minMatch = mm; cp.targetLength = tl; cp.strategy = (ZSTD_strategy)st;
            pp = ZSTD_createCCtxParams(); ZSTD_CCtxParams_init(pp, 0); pp->cParams = cp; pp->enableDedicatedDictSearch = dds;
            CD[d] = ZSTD_createCDict_advanced2(blob + o, l, ZSTD_dlm_byRef, ZSTD_dct_auto, pp, gmem);
            ZSTD_freeCCtxParams(pp);
            CDoff[d] = o; CDlen[d] = l;
            if (!CD[d]) printf("E cdict2 create-failed\n");
        } else if (!strcmp(cmd, "refcdict")) {
            int c, d; size_t r; if (fscanf(in, "%d %d", &c, &d) != 2) return 2;
            r = ZSTD_CCtx_refCDict(C[c], d < 0 ? NULL : CD[d]); if (ZSTD_isError(r)) perr("refcdict", r);
            else { refCD[c] = d; stickyKind[c] = 0; prefSet[c] = 0; }
            sline(c, 4, (d >= 0 && CD[d] != NULL) ? d + 1 : 0, 1, r);
        } else if (!strcmp(cmd, "A")) {
            int c, fl; size_t o, l, r; size_t psz[1]; int pdir[1]; size_t caps[1];
            if (fscanf(in, "%d %zu %zu %d", &c, &o, &l, &fl) != 4) return 2;
            need_arena(l); memcpy(srcArena, blob + o, l);
            psz[0] = l; pdir[0] = fl ? 1 : 0; caps[0] = ZSTD_compressBound(l) + 64;
            r = do_stream(c, srcArena, l, dstArena, arenaCap, 0, 1, psz, pdir, 1, caps, 0, 0);
            if (ZSTD_isError(r)) perr("A", r);
            prefSet[c] = 0;
            printf("A %d\n", c);
            sline(c, ZSTD_isError(r) ? 20 : 9, 0, 0, 0);
            dump(c, "abandon");
        } else if (!strcmp(cmd, "G")) {
            int c; size_t o, l, r, cap2; ZSTD_Sequence* sq;
            if (fscanf(in, "%d %zu %zu", &c, &o, &l) != 3) return 2;
            cap2 = ZSTD_sequenceBound(l); sq = (ZSTD_Sequence*)malloc(sizeof(ZSTD_Sequence) * cap2);
            need_arena(l); memcpy(srcArena, blob + o, l);
            r = ZSTD_generateSequences(C[c], sq, cap2, srcArena, l);
            free(sq);
            if (ZSTD_isError(r)) perr("G", r);
            prefSet[c] = 0;
            printf("G %d %zu\n", c, ZSTD_isError(r) ? (size_t)0 : r);
            sline(c, ZSTD_isError(r) ? 20 : 13, 0, 0, 0);
            dump(c, "genseq");
        } else if (!strcmp(cmd, "prefixa")) {
            int c; size_t o, l, sa, r; if (fscanf(in, "%d %zu %zu %zu", &c, &o, &l, &sa) != 4) return 2;
            need_arena(sa + l); memcpy(srcArena + sa, blob + o, l);
            r = ZSTD_CCtx_refPrefix(C[c], srcArena + sa, l); if (ZSTD_isError(r)) perr("prefixa", r);
            else { prefSet[c] = l > 0; prefOff[c] = o; prefLen[c] = l; stickyKind[c] = 0; refCD[c] = -1; }
            sline(c, 5, l > 0, 0, r);
        } else if (!strcmp(cmd, "loada")) {
            int c; size_t o, l, sa, r; if (fscanf(in, "%d %zu %zu %zu", &c, &o, &l, &sa) != 4) return 2;
            need_arena(sa + l); memcpy(srcArena + sa, blob + o, l);
            r = ZSTD_CCtx_loadDictionary_advanced(C[c], srcArena + sa, l, ZSTD_dlm_byRef, ZSTD_dct_auto);
            if (ZSTD_isError(r)) perr("loada", r); else { stickyKind[c] = l > 0; stickyOff[c] = o; stickyLen[c] = l; refCD[c] = -1; }
            sline(c, 3, l > 0, 0, r);
        } else if (!strcmp(cmd, "W")) {
            /* ndiff = capacities whose output differs from the large-capacity output; nraw = those among them whose FIRST differing
             * block is a raw block of the same regenerated size where the reference has a compressed block (the signature of the
             * dstSize_tooSmall -> "not compressible" fallback of ZSTD_entropyCompressSeqStore) */
            int c; size_t o, l, span, r0, k, nerr = 0, ndiff = 0, nraw = 0, fcap = 0, fsize = 0; BYTE* ref; char cls[300]; size_t hsz;
            if (fscanf(in, "%d %zu %zu %zu", &c, &o, &l, &span) != 4 || span > 290) return 2;
            need_arena(l + span + 4096); memcpy(srcArena, blob + o, l); curDictKind = 0; prefSet[c] = 0;
            r0 = ZSTD_compress2(C[c], dstArena, ZSTD_compressBound(l) + 4096, srcArena, l);
            if (ZSTD_isError(r0)) { perr("W", r0); printf("W %zu %zu 0 1 0 0 0 0 0 0 -\n", o, l); continue; }
            ref = (BYTE*)malloc(r0 + 1); memcpy(ref, dstArena, r0); hsz = ZSTD_frameHeaderSize(ref, r0); cls[0] = 0;
            for (k = 0; k <= span; k++) {
                size_t const r = ZSTD_compress2(C[c], dstArena, r0 + k, srcArena, l);
                cls[k] = '='; cls[k + 1] = 0;
                if (ZSTD_isError(r)) { nerr++; cls[k] = 'E'; continue; }
                if (r != r0 || memcmp(ref, dstArena, r0)) {
                    size_t const h = ZSTD_frameHeaderSize(ref, r0); size_t pa = h, pb = h; int isRaw = 0;
                    if (!ZSTD_isError(h) && r > h && memcmp(ref, dstArena, h) == 0) {
                        while (pa + 3 <= r0 && pb + 3 <= r) {
                            U32 const ha = MEM_readLE24(ref + pa), hb = MEM_readLE24(dstArena + pb);
                            U32 const ta = (ha >> 1) & 3, tb = (hb >> 1) & 3, sza = ha >> 3, szb = hb >> 3;
                            size_t const la = 3 + (ta == 1 ? 1 : sza), lb = 3 + (tb == 1 ? 1 : szb);
                            if (la == lb && pa + la <= r0 && pb + lb <= r && memcmp(ref + pa, dstArena + pb, la) == 0) { pa += la; pb += lb; if (ha & 1) break; continue; }
                            isRaw = (ta == 2 && tb == 0 && szb <= ZSTD_BLOCKSIZE_MAX);
                            break;
                        }
                    }
                    if (!ndiff) { fcap = r0 + k; fsize = r; }
                    ndiff++; nraw += (size_t)isRaw; cls[k] = isRaw ? 'R' : 'X';
                }
                if (!decode_ok(dstArena, r, srcArena, l)) { ndiff += 1000000; }
            }
            free(ref);
            printf("W %zu %zu %zu %zu %zu %zu %zu %zu %zu %d %s\n", o, l, r0, nerr, ndiff, fcap, fsize, nraw, hsz, (int)C[c]->appliedParams.cParams.strategy, cls);
        } else if (!strcmp(cmd, "X")) {
            /* round 3: second-door scenarios on private contexts. "X stablein <mode> <endop> <nbWorkers> <first> <second>":
             * ZSTD_c_stableInBuffer=1, one deferred ZSTD_e_continue call of <first> bytes from buffer A, then the call that ends the
             * deferral with mode 0 = another buffer B (pos 0), 1 = buffer A with pos rewound to 0, 2 = contract respected
             * (A grown to first+second, pos = first).  A and B live in the middle of the arena: a read in front of them stays inside it.
             * "X copyopen <src bytes>": ZSTD_copyCCtx into a context whose streaming frame is open, then ZSTD_e_end on it. */
            char what[32];
            if (fscanf(in, "%31s", what) != 1) return 2;
            if (!strcmp(what, "stablein")) {
                /* mode 3 (round 3): ZSTD_CCtx_reset(session_only) between the deferred call and a call on buffer B */
                int mode, endop, nbw; size_t n1, n2, r1, r2, regen = 0, k, nc2; ZSTD_CCtx* x; ZSTD_inBuffer ib; ZSTD_outBuffer ob; BYTE *A, *B; int same = -1, st2;
                const BYTE* expect; size_t expectLen;
                if (fscanf(in, "%d %d %d %zu %zu", &mode, &endop, &nbw, &n1, &n2) != 5) return 2;
                need_arena(4 * (n1 + n2) + 400000);
                A = srcArena + n1 + n2 + 4096; B = A + 2 * (n1 + n2) + 8192;
                for (k = 0; k < n1 + n2; k++) { A[k] = blob[(k * 7) % blobSize]; B[k] = blob[(k * 13 + 5) % blobSize]; }
                memset(A - n1 - 64, 0xEE, n1 + 64); memset(B - n1 - 64, 0xDD, n1 + 64);
                x = ZSTD_createCCtx();
                ZSTD_CCtx_setParameter(x, ZSTD_c_stableInBuffer, 1); ZSTD_CCtx_setParameter(x, ZSTD_c_nbWorkers, nbw);
                ib.src = A; ib.size = n1; ib.pos = 0; ob.dst = dstArena; ob.size = arenaCap; ob.pos = 0;
                r1 = ZSTD_compressStream2(x, &ob, &ib, ZSTD_e_continue);
                expect = A; expectLen = n1 + n2;
                if (mode == 0) { ib.src = B; ib.size = n2; ib.pos = 0; }
                else if (mode == 1) { ib.src = A; ib.size = n1 + n2; ib.pos = 0; }
                else if (mode == 3) { ZSTD_CCtx_reset(x, ZSTD_reset_session_only); ib.src = B; ib.size = n2; ib.pos = 0; expect = B; expectLen = n2; }
                else { ib.src = A; ib.size = n1 + n2; }
                r2 = ZSTD_compressStream2(x, &ob, &ib, (ZSTD_EndDirective)endop);
                st2 = x->streamStage != zcss_init; nc2 = x->stableIn_notConsumed;
                if (!ZSTD_isError(r2) && endop != 2) r2 = ZSTD_compressStream2(x, &ob, &ib, ZSTD_e_end);
                if (!ZSTD_isError(r2)) {
                    BYTE* back = (BYTE*)malloc(4 * (n1 + n2) + 1024); size_t const d = ZSTD_decompress(back, 4 * (n1 + n2) + 1024, dstArena, ob.pos);
                    regen = ZSTD_isError(d) ? (size_t)-1 : d;
                    same = (!ZSTD_isError(d) && d == expectLen && memcmp(back, expect, expectLen) == 0);
                    free(back);
                }
                printf("X stablein %d %d %d %zu %zu %d %d %d %zu %d %d %d %zu\n", mode, endop, nbw, n1, n2, ZSTD_isError(r1) ? (int)ZSTD_getErrorCode(r1) : 0,
                       ZSTD_isError(r2) ? (int)ZSTD_getErrorCode(r2) : 0, (int)ZSTD_error_stabilityCondition_notRespected, regen, same, (int)ZSTD_BLOCKSIZE_MAX, st2, nc2);
                ZSTD_freeCCtx(x);
            } else if (!strcmp(what, "mtset")) {
                /* "X mtset nbWorkers sections tail newLevel smallChunk": level 1, jobSize 512 KiB; <sections> e_continue calls of exactly one
                 * section (each repeated until consumed), an accepted mid-frame ZSTD_CCtx_setParameter(compressionLevel), ZSTD_e_end with
                 * <tail> bytes; once with a huge output chunk per call, once with <smallChunk> bytes per call */
                int nbw, nsec, newLevel, pass; size_t tail, small, sizes[2] = { 0, 0 }; unsigned long long hs[2] = { 0, 0 }; int okdec[2] = { 0, 0 }, setok[2] = { 0, 0 };
                size_t const sec = 512 << 10;
                if (fscanf(in, "%d %d %zu %d %zu", &nbw, &nsec, &tail, &newLevel, &small) != 5) return 2;
                if ((size_t)nsec * sec + tail > blobSize) return 2;
                need_arena((size_t)nsec * sec + tail + 4096);
                for (pass = 0; pass < 2; pass++) {
                    size_t const chunk = pass ? small : ((size_t)1 << 30); size_t op = 0, r = 0; int k; ZSTD_CCtx* x = ZSTD_createCCtx();
                    printf("X mtpass %d\n", pass);      /* the J lines (posted jobs) that follow belong to this pass */
                    ZSTD_CCtx_setParameter(x, ZSTD_c_nbWorkers, nbw); ZSTD_CCtx_setParameter(x, ZSTD_c_jobSize, (int)sec); ZSTD_CCtx_setParameter(x, ZSTD_c_compressionLevel, 1);
                    for (k = 0; k < nsec && !ZSTD_isError(r); k++) { ZSTD_inBuffer ib; ib.src = blob + (size_t)k * sec; ib.size = sec; ib.pos = 0;
                        while (ib.pos < ib.size) { ZSTD_outBuffer ob; ob.dst = dstArena + op; ob.size = (arenaCap - op < chunk) ? arenaCap - op : chunk; ob.pos = 0;
                            r = ZSTD_compressStream2(x, &ob, &ib, ZSTD_e_continue); if (ZSTD_isError(r)) break; op += ob.pos; } }
                    setok[pass] = !ZSTD_isError(ZSTD_CCtx_setParameter(x, ZSTD_c_compressionLevel, newLevel));
                    if (!ZSTD_isError(r)) { ZSTD_inBuffer ib; ib.src = blob + (size_t)nsec * sec; ib.size = tail; ib.pos = 0;
                        for (;;) { ZSTD_outBuffer ob; ob.dst = dstArena + op; ob.size = (arenaCap - op < chunk) ? arenaCap - op : chunk; ob.pos = 0;
                            r = ZSTD_compressStream2(x, &ob, &ib, ZSTD_e_end); if (ZSTD_isError(r)) break; op += ob.pos; if (r == 0) break; } }
                    if (!ZSTD_isError(r)) { size_t const n = (size_t)nsec * sec + tail; size_t const d = ZSTD_decompress(srcArena, n + 4096, dstArena, op);
                        okdec[pass] = (!ZSTD_isError(d) && d == n && memcmp(srcArena, blob, n) == 0); sizes[pass] = op; hs[pass] = XXH64(dstArena, op, 0); }
                    ZSTD_freeCCtx(x);
                }
                printf("X mtset %d %d %zu %d %zu %zu %llx %d %d %zu %llx %d %d\n", nbw, nsec, tail, newLevel, small, sizes[0], hs[0], okdec[0], setok[0], sizes[1], hs[1], okdec[1], setok[1]);
            } else if (!strcmp(what, "copyopen")) {
                size_t n, r0, r1, r2, r3, d = 0; int st1, st2; ZSTD_CCtx *x, *s; ZSTD_inBuffer ib; ZSTD_outBuffer ob; int withEnd;
                if (fscanf(in, "%zu %d", &n, &withEnd) != 2) return 2;
                need_arena(n + 4096); memcpy(srcArena, blob, n);
                x = ZSTD_createCCtx(); s = ZSTD_createCCtx();
                ib.src = srcArena; ib.size = n; ib.pos = 0; ob.dst = dstArena; ob.size = 1; ob.pos = 0;
                r0 = ZSTD_compressStream2(x, &ob, &ib, ZSTD_e_continue);
                st1 = x->streamStage != zcss_init;
                r1 = ZSTD_compressBegin(s, 3); if (!ZSTD_isError(r1)) r1 = ZSTD_copyCCtx(x, s, ZSTD_CONTENTSIZE_UNKNOWN);
                st2 = x->streamStage != zcss_init;
                r2 = withEnd ? ZSTD_compressEnd(x, dstArena, arenaCap, srcArena, 1000) : 0;
                /* the streaming call that follows must start a NEW frame of its own input */
                ib.src = srcArena; ib.size = 5000; ib.pos = 0; ob.dst = dstArena; ob.size = arenaCap; ob.pos = 0;
                r3 = ZSTD_compressStream2(x, &ob, &ib, ZSTD_e_end);
                if (!ZSTD_isError(r3)) { BYTE* back = (BYTE*)malloc(20000); d = ZSTD_decompress(back, 20000, dstArena, ob.pos);
                    if (!ZSTD_isError(d) && !(d == 5000 && memcmp(back, srcArena, 5000) == 0)) d = (size_t)-2; free(back); }
                printf("X copyopen %zu %d %d %d %d %d %d %d %zu\n", n, withEnd, ZSTD_isError(r0) ? 1 : 0, st1, ZSTD_isError(r1) ? 1 : 0, st2, ZSTD_isError(r2) ? 1 : 0,
                       ZSTD_isError(r3) ? (int)ZSTD_getErrorCode(r3) : 0, d);
                ZSTD_freeCCtx(x); ZSTD_freeCCtx(s);
            } else return 2;
        } else if (!strcmp(cmd, "F")) {
            int c, fid, hex; size_t off, len, sa, da, r = 0; char api[32]; BYTE *src, *dst; size_t dstCap;
            if (fscanf(in, "%d %d %zu %zu %zu %zu %d %31s", &c, &fid, &off, &len, &sa, &da, &hex, api) != 8) return 2;
            need_arena(len + sa + da);
            src = srcArena + sa; dst = dstArena + da; dstCap = arenaCap - da;
            memcpy(src, blob + off, len);
            if (!strcmp(api, "c2")) {
                size_t cap; if (fscanf(in, "%zu", &cap) != 1) return 2;
                pick_dict(c);
                r = ZSTD_compress2(C[c], dst, cap ? cap : ZSTD_compressBound(len), src, len);
            } else if (!strcmp(api, "cctx")) {
                int level; size_t cap; if (fscanf(in, "%d %zu", &level, &cap) != 2) return 2;
                curDictKind = 0;
                r = ZSTD_compressCCtx(C[c], dst, cap ? cap : ZSTD_compressBound(len), src, len, level);
            } else if (!strcmp(api, "udict")) {
                int level; size_t doff, dlen; if (fscanf(in, "%d %zu %zu", &level, &doff, &dlen) != 3) return 2;
                curDictKind = dlen ? 2 : 0; curDictOff = doff; curDictLen = dlen;
                r = ZSTD_compress_usingDict(C[c], dst, ZSTD_compressBound(len), src, len, blob + doff, dlen, level);
            } else if (!strcmp(api, "udictc")) {
                int level; size_t doff, dlen; if (fscanf(in, "%d %zu %zu", &level, &doff, &dlen) != 3 || dlen > sa) return 2;
                curDictKind = dlen ? 2 : 0; curDictOff = doff; curDictLen = dlen;
                memcpy(src - dlen, blob + doff, dlen);
                r = ZSTD_compress_usingDict(C[c], dst, ZSTD_compressBound(len), src, len, src - dlen, dlen, level);
            } else if (!strcmp(api, "ucdict")) {
                int d; if (fscanf(in, "%d", &d) != 1) return 2;
                curDictKind = 2; curDictOff = CDoff[d]; curDictLen = CDlen[d];
                r = ZSTD_compress_usingCDict(C[c], dst, ZSTD_compressBound(len), src, len, CD[d]);
            } else if (!strcmp(api, "adv")) {
                size_t ok, doff, dlen; ZSTD_parameters const p = mk_params(in, &ok);
                if (!ok || fscanf(in, "%zu %zu", &doff, &dlen) != 2) return 2;
                curDictKind = dlen ? 2 : 0; curDictOff = doff; curDictLen = dlen;
                r = ZSTD_compress_advanced(C[c], dst, ZSTD_compressBound(len), src, len, dlen ? blob + doff : NULL, dlen, p);
            } else if (!strcmp(api, "stream")) {
                int inmode, nP, nC, k; size_t* psz; int* pdir; size_t* caps;
                if (fscanf(in, "%d %d", &inmode, &nP) != 2) return 2;
                psz = (size_t*)malloc(sizeof(size_t) * (nP + 1)); pdir = (int*)malloc(sizeof(int) * (nP + 1));
                for (k = 0; k < nP; k++) if (fscanf(in, "%zu %d", &psz[k], &pdir[k]) != 2) return 2;
                if (fscanf(in, "%d", &nC) != 1 || nC < 1) return 2;
                caps = (size_t*)malloc(sizeof(size_t) * nC);
                for (k = 0; k < nC; k++) if (fscanf(in, "%zu", &caps[k]) != 1) return 2;
                pick_dict(c);
                r = do_stream(c, src, len, dst, dstCap, inmode, nP, psz, pdir, nC, caps, 1, 1);
                free(psz); free(pdir); free(caps);
            } else if (!strcmp(api, "bl") || !strcmp(api, "blcdict")) {
                size_t chunk, doff = 0, dlen = 0, ok = 1, pos = 0, op = 0; int pledge = 0, d = -1, copyTo = -1, w = c; ZSTD_parameters p;
                if (!strcmp(api, "bl")) {
                    if (fscanf(in, "%zu", &chunk) != 1) return 2;
                    p = mk_params(in, &ok);
                    if (!ok || fscanf(in, "%d %zu %zu %d", &pledge, &doff, &dlen, &copyTo) != 4) return 2;
                    curDictKind = dlen ? 2 : 0; curDictOff = doff; curDictLen = dlen;
                    r = ZSTD_compressBegin_advanced(C[c], dlen ? blob + doff : NULL, dlen, p, pledge ? len : ZSTD_CONTENTSIZE_UNKNOWN);
                } else {
                    if (fscanf(in, "%zu %d", &chunk, &d) != 2) return 2;
                    curDictKind = 2; curDictOff = CDoff[d]; curDictLen = CDlen[d];
                    r = ZSTD_compressBegin_usingCDict(C[c], CD[d]);
                }
                g_cdhint = !strcmp(api, "blcdict"); g_cdptr = g_cdhint ? CD[d] : NULL;
                dump(c, ZSTD_isError(r) ? "beginfail" : "begin");
                g_cdhint = -1; g_cdptr = NULL;
                if (!ZSTD_isError(r) && copyTo >= 0) {
                    r = ZSTD_copyCCtx(C[copyTo], C[c], pledge ? len : ZSTD_CONTENTSIZE_UNKNOWN);
                    sline(copyTo, 14, 0, 0, r);      /* round 3: ACopyInto on the destination */
                    dump(copyTo, "copied");
                    w = copyTo;
                }
                if (chunk == 0) chunk = len ? len : 1;
                while (!ZSTD_isError(r)) {
                    size_t const n = (len - pos < chunk) ? len - pos : chunk;
                    int const last = (pos + n == len);
                    r = last ? ZSTD_compressEnd(C[w], dst + op, dstCap - op, src + pos, n)
                             : ZSTD_compressContinue(C[w], dst + op, dstCap - op, src + pos, n);
                    if (ZSTD_isError(r)) break;
                    op += r; pos += n;
                    if (last) { r = op; break; }
                }
                if (w != c) dump(w, "frame");
            } else { fprintf(stderr, "unknown api %s\n", api); return 2; }
            report(fid, r, dst, src, len, hex);
            {   int const sticky2 = !strcmp(api, "c2"), stickyS = !strcmp(api, "stream");
                sline(c, (sticky2 || stickyS) ? (ZSTD_isError(r) ? 20 : (sticky2 ? 11 : 10)) : 12, 0, 0, 0); }
            dump(c, "frame");
        } else { fprintf(stderr, "unknown command %s\n", cmd); return 2; }
    }
    fflush(stdout);
    return 0;
}
