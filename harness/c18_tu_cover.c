/* C18 translation unit around lib/dictBuilder/cover.c */
#define ZDICT_STATIC_LINKING_ONLY
#include "dictBuilder/cover.c"
#include "c18_tu.h"

unsigned long long zv_fnv(const void* p, size_t n) {
    const unsigned char* b = (const unsigned char*)p; unsigned long long h = 0xcbf29ce484222325ULL; size_t i;
    for (i = 0; i < n; i++) { h ^= b[i]; h *= 0x100000001b3ULL; }
    return h;
}

int zv_cover_check(unsigned k, unsigned d, size_t maxDict, double sp) {
    ZDICT_cover_params_t p; memset(&p, 0, sizeof p); p.k = k; p.d = d; p.splitPoint = sp;
    return COVER_checkParameters(p, maxDict);
}

zv_ctxinfo zv_cover_ctx(const void* samples, const size_t* sizes, unsigned nb, unsigned d, double sp) {
    COVER_ctx_t ctx; zv_ctxinfo r; size_t e;
    memset(&r, 0, sizeof r); memset(&ctx, 0, sizeof ctx);
    e = COVER_ctx_init(&ctx, samples, sizes, nb, d, sp);
    if (ZSTD_isError(e)) { r.err = 1; return r; }
    r.nbTrain = (unsigned)ctx.nbTrainSamples; r.nbTest = (unsigned)ctx.nbTestSamples; r.nbDmers = ctx.suffixSize;
    COVER_ctx_destroy(&ctx);
    return r;
}

void zv_epochs(unsigned maxDict, unsigned nbDmers, unsigned k, unsigned passes, unsigned* num, unsigned* size) {
    COVER_epoch_info_t e = COVER_computeEpochs(maxDict, nbDmers, k, passes);
    *num = e.num; *size = e.size;
}

static void zv_record(COVER_best_t* best, zv_cand* out) {
    out->ctxerr = 0;
    out->csize = best->compressedSize;
    out->hasdict = (best->compressedSize != (size_t)-1) && best->dict != NULL;
    out->dsize = out->hasdict ? best->dictSize : 0;
    out->hash = out->hasdict ? zv_fnv(best->dict, best->dictSize) : 0;
}

int zv_cover_candidates(const void* samples, const size_t* sizes, unsigned nb, size_t cap, ZDICT_cover_params_t base,
                        const unsigned* ds, const unsigned* ks, int njobs, zv_cand* out) {
    int j = 0;
    while (j < njobs) {
        unsigned const d = ds[j];
        COVER_ctx_t ctx;
        size_t const e = COVER_ctx_init(&ctx, samples, sizes, nb, d, base.splitPoint);
        if (ZSTD_isError(e)) { memset(&out[j], 0, sizeof out[j]); out[j].ctxerr = 1; return j + 1; }
        for (; j < njobs && ds[j] == d; j++) {
            COVER_best_t best;
            COVER_tryParameters_data_t* data = (COVER_tryParameters_data_t*)malloc(sizeof(*data));
            COVER_best_init(&best);
            data->ctx = &ctx; data->best = &best; data->dictBufferCapacity = cap;
            data->parameters = base; data->parameters.k = ks[j]; data->parameters.d = d;
            data->parameters.shrinkDict = 0; data->parameters.zParams.notificationLevel = 0;
            COVER_best_start(&best);
            COVER_tryParameters(data);
            COVER_best_wait(&best);
            zv_record(&best, &out[j]);
            COVER_best_destroy(&best);
        }
        COVER_ctx_destroy(&ctx);
    }
    return njobs;
}

/* ---- round 2 ---- */
zv_cres zv_cover_run(const void* samples, const size_t* sizes, unsigned nb, unsigned d, unsigned k, size_t cap,
                     unsigned char* dict, int doBuild, unsigned begin, unsigned end) {
    COVER_ctx_t ctx; zv_cres r; COVER_map_t map; ZDICT_cover_params_t p; size_t i, n;
    memset(&r, 0, sizeof r); memset(&ctx, 0, sizeof ctx);
    if (ZSTD_isError(COVER_ctx_init(&ctx, samples, sizes, nb, d, 1.0))) { r.err = 1; return r; }
    n = ctx.suffixSize; r.nbDmers = n;
    r.keys = (unsigned*)malloc((n + 1) * sizeof(unsigned)); r.fvals = (unsigned*)malloc((n + 1) * sizeof(unsigned));
    r.fafter = (unsigned*)malloc((n + 1) * sizeof(unsigned));
    for (i = 0; i < n; i++) { r.keys[i] = ctx.dmerAt[i]; r.fvals[i] = ctx.freqs[ctx.dmerAt[i]]; }
    memset(&p, 0, sizeof p); p.k = k; p.d = d; p.splitPoint = 1.0;
    if (!COVER_map_init(&map, k - d + 1)) { r.err = 3; COVER_ctx_destroy(&ctx); return r; }
    if (doBuild) r.tail = COVER_buildDictionary(&ctx, ctx.freqs, &map, dict, cap, p);
    else if (end > n || begin > end) r.err = 2;
    else {
        COVER_segment_t sg = COVER_selectSegment(&ctx, ctx.freqs, &map, begin, end, p);
        r.seg.begin = sg.begin; r.seg.end = sg.end; r.seg.score = sg.score;
    }
    for (i = 0; i < n; i++) r.fafter[i] = ctx.freqs[ctx.dmerAt[i]];
    COVER_map_destroy(&map);
    COVER_ctx_destroy(&ctx);
    return r;
}

size_t zv_lower_bound(const size_t* offs, size_t first, size_t count, size_t value) {
    return (size_t)(COVER_lower_bound(offs + first, offs + first + count, value) - offs);
}

int zv_map_init_log(unsigned size) {
    COVER_map_t map; int lg;
    if (!COVER_map_init(&map, size)) return -1;
    lg = (int)map.sizeLog;
    COVER_map_destroy(&map);
    return lg;
}
unsigned zv_map_hash(unsigned sizeLog, unsigned key) {
    COVER_map_t map; memset(&map, 0, sizeof map); map.sizeLog = sizeLog;
    return COVER_map_hash(&map, key);
}

/* round 3: the real COVER_map_* functions driven the way COVER_selectSegment drives them.
 * ops[i] > 0: one more occurrence of key keys[i] (COVER_map_at, += 1); ops[i] == 0: one occurrence less (COVER_map_at, -= 1,
 * COVER_map_remove when the counter reaches 0).  vals[i] = the counter after the update.  The whole table is copied out
 * (key, value per slot).  returns the number of slots, -1 when COVER_map_init fails. */
int zv_map_ops(unsigned size, const unsigned* keys, const int* ops, int n, unsigned* vals, unsigned* table, unsigned tableCap) {
    COVER_map_t map; int i; unsigned s;
    if (!COVER_map_init(&map, size)) return -1;
    for (i = 0; i < n; i++) {
        U32* occ = COVER_map_at(&map, keys[i]);
        if (ops[i]) { *occ += 1; vals[i] = *occ; }
        else { *occ -= 1; vals[i] = *occ; if (*occ == 0) COVER_map_remove(&map, keys[i]); }
    }
    for (s = 0; s < map.size && 2 * s + 1 < tableCap; s++) { table[2 * s] = map.data[s].key; table[2 * s + 1] = map.data[s].value; }
    s = map.size;
    COVER_map_destroy(&map);
    return (int)s;
}
