/* c02_stream: lock-step driver for the streaming state machines (C02 / C10).
 * Includes the two translation units under study so that the private fields of ZSTD_DCtx / ZSTD_CCtx are readable;
 * everything else comes from the libzstd rebuilt from /repo's working tree.  One command per line:
 *
 *  X <id> <dflags> <framehex> <ops> [maxcalls]        streaming decompression history
 *      dflags : "-" or comma list: ml (magicless) | wl=<windowLogMax> | bm=<maxBlockSize> | so=<size> (stable out buffer) | nock
 *               | dict=<hex> (ZSTD_DCtx_loadDictionary: attached for indefinite use)
 *      ops    : in:cap;in:cap;...   in = <n> | h (last hint) | h+<k> | h-<k> | a (all remaining) ; cap = <n> | r (1<<20)
 *               the list is cycled until the input is consumed and the last call returned 0 (or error / maxcalls)
 *      -> <id> OK <outhex> offered:cap:consumed:produced:ret|E<name>:streamStage:stage:expected:lhSize:inPos:outStart:outEnd:hostage:inBuffSize:outBuffSize;...
 *  Y <id> <params> <inputhex> <ops> [pledged|-] [pre=<n>]   streaming compression history (ZSTD_compressStream2)
 *      pre=<n> : before the history, the same context compresses the first n input bytes with one ZSTD_compressCCtx call (output dropped)
 *      params : "-" or id:value,...   ops : in:cap:dir;...  in = <n> | h (input hint) | h+<k> | h-<k> | b (blockSize) | b+<k> | b-<k> | a
 *               cap = <n> | r (1<<20) | c[+-k] (compressBound(blockSize) +- k) | C[+-k] (compressBound(bytes offered) +- k)
 *               after the list, "a:r:2" is repeated until the frame is complete
 *      -> <id> OK <outhex> offered:cap:dir:consumed:produced:ret|E<name>:streamStage:inBuffPos:inToCompress:inBuffTarget:outBuffContentSize:outBuffFlushedSize:frameEnded:notConsumed:blockSize:inBuffSize:outBuffSize:hint:windowLog:maxBlockSize;...
 *  L <id> <level> <inputhex> <inchunk> <outchunk>       legacy ZBUFF_* round trip  -> <id> OK <framehex> <regenhex>
 *  K <id> <params> <inputhex> <segments>                buffer-less compressBegin/Continue/End, segments = n,n,... (copied to separate
 *                                                       allocations when prefixed by '!')  -> <id> OK <framehex>
 *  W <id> <params> <arenasize> <inputhex> <segs>          buffer-less compression over explicit places of one arena (round buffers,
 *      overlapping or repeated places): segs = off:len,...; for each segment the next len input bytes are copied to arena+off and
 *      handed to ZSTD_compressContinue (the last one to ZSTD_compressEnd)
 *      -> <id> OK <framehex> base:dictBase:dictLimit:lowLimit:nextSrc;... <blockSizeMax>:<1<<windowLog>   (match-state window after
 *         compressBegin and after every call; addresses relative to the arena)
 */
#define ZSTD_STATIC_LINKING_ONLY
#define ZBUFF_DISABLE_DEPRECATE_WARNINGS
#define ZSTD_DISABLE_DEPRECATE_WARNINGS
#include "compress/zstd_compress.c"
#include "decompress/zstd_ddict.c"
#include "decompress/zstd_decompress.c"
#include "deprecated/zbuff.h"
#include <stdio.h>
#include <stdlib.h>
#include <string.h>

static unsigned char* unhex(const char* s, size_t* n) {
    size_t l, i; unsigned char* b;
    if (!strcmp(s, "-")) { *n = 0; return (unsigned char*)malloc(1); }
    l = strlen(s) / 2; b = (unsigned char*)malloc(l + 1);
    for (i = 0; i < l; i++) { unsigned v; sscanf(s + 2 * i, "%2x", &v); b[i] = (unsigned char)v; }
    *n = l; return b;
}
static void puthex(const unsigned char* b, size_t n) {
    static const char* H = "0123456789abcdef"; size_t i;
    if (n == 0) { putchar('-'); return; }
    for (i = 0; i < n; i++) { putchar(H[b[i] >> 4]); putchar(H[b[i] & 15]); }
}
static void puterr(size_t code) {
    const char* e = ZSTD_getErrorString(ZSTD_getErrorCode(code)); putchar('E');
    for (; *e; e++) putchar(*e == ' ' ? '_' : *e);
}
static void perr(const char* id, size_t code) { printf("%s ERR ", id); puterr(code); putchar('\n'); }

/* in-token: <n> | h | h+k | h-k | b | b+k | b-k | a */
static size_t tok_in(const char* t, size_t hint, size_t bs, size_t remaining) {
    size_t base; long d = 0;
    if (t[0] == 'a') return remaining;
    if (t[0] == 'h') base = hint; else if (t[0] == 'b') base = bs; else return (size_t)strtoull(t, NULL, 10);
    if (t[1] == '+' || t[1] == '-') d = strtol(t + 1, NULL, 10);
    if (d < 0 && (size_t)(-d) > base) return 0;
    return base + d;
}

static void cmd_X(char** t, int nt) {
    const char* id = t[1]; size_t fn; unsigned char* f = unhex(t[3], &fn);
    size_t maxcalls = nt > 5 ? (size_t)strtoull(t[5], NULL, 10) : 200000;
    size_t so = 0; int stable = 0;
    ZSTD_DCtx* d = ZSTD_createDCtx(); size_t r = 0;
    size_t ocap_total = (size_t)8 << 20, opos = 0, ipos = 0, hint, ncalls = 0;
    unsigned char* out; char* ops = strdup(t[4]); char* optok[4096]; int nops = 0, k = 0;
    char* sv = NULL; char* p;
    {   char* fl = strdup(t[2]); char* s2 = NULL; char* q = strtok_r(fl, ",", &s2);
        while (q) {
            if (!strcmp(q, "ml")) r = ZSTD_DCtx_setParameter(d, ZSTD_d_format, ZSTD_f_zstd1_magicless);
            else if (!strncmp(q, "wl=", 3)) r = ZSTD_DCtx_setParameter(d, ZSTD_d_windowLogMax, atoi(q + 3));
            else if (!strncmp(q, "bm=", 3)) r = ZSTD_DCtx_setParameter(d, ZSTD_d_maxBlockSize, atoi(q + 3));
            else if (!strncmp(q, "so=", 3)) { stable = 1; so = (size_t)strtoull(q + 3, NULL, 10); r = ZSTD_DCtx_setParameter(d, ZSTD_d_stableOutBuffer, 1); }
            else if (!strcmp(q, "nock")) r = ZSTD_DCtx_setParameter(d, ZSTD_d_forceIgnoreChecksum, 1);
            else if (!strncmp(q, "dict=", 5)) { size_t dn; unsigned char* db = unhex(q + 5, &dn); r = ZSTD_DCtx_loadDictionary(d, db, dn); free(db); }
            if (ZSTD_isError(r)) { perr(id, r); free(fl); goto done0; }
            q = strtok_r(NULL, ",", &s2);
        }
        free(fl);
    }
    if (stable) ocap_total = so;
    out = (unsigned char*)malloc(ocap_total + 1);
    for (p = strtok_r(ops, ";", &sv); p && nops < 4096; p = strtok_r(NULL, ";", &sv)) optok[nops++] = p;
    hint = ZSTD_startingInputLength(d->format);
    printf("%s OK ", id);
    {   /* two passes are not possible (state), so records are buffered */
        size_t rcap = 1 << 16, rl = 0; char* rec = (char*)malloc(rcap);
        rec[0] = 0;
        while (nops > 0 && ncalls < maxcalls) {
            char* colon = strchr(optok[k], ':'); size_t offered, cap; ZSTD_inBuffer ib; ZSTD_outBuffer ob; size_t opos0;
            char itok[32]; size_t il = colon ? (size_t)(colon - optok[k]) : strlen(optok[k]);
            if (il > 31) il = 31; memcpy(itok, optok[k], il); itok[il] = 0;
            offered = tok_in(itok, hint, 0, fn - ipos);
            if (offered > fn - ipos) offered = fn - ipos;
            cap = (colon && colon[1] != 'r') ? (size_t)strtoull(colon + 1, NULL, 10) : ((size_t)1 << 20);
            k = (k + 1) % nops;
            if (stable) { ob.dst = out; ob.size = so; ob.pos = opos; cap = so - opos; }
            else { if (cap > ocap_total - opos) cap = ocap_total - opos; ob.dst = out + opos; ob.size = cap; ob.pos = 0; }
            opos0 = ob.pos;
            ib.src = f + ipos; ib.size = offered; ib.pos = 0;
            r = ZSTD_decompressStream(d, &ob, &ib);
            ncalls++;
            if (rl + 400 > rcap) { rcap *= 2; rec = (char*)realloc(rec, rcap); }
            rl += sprintf(rec + rl, "%lu:%lu:%lu:%lu:", (unsigned long)offered, (unsigned long)cap, (unsigned long)ib.pos, (unsigned long)(ob.pos - opos0));
            if (ZSTD_isError(r)) { const char* e = ZSTD_getErrorString(ZSTD_getErrorCode(r)); rec[rl++] = 'E'; for (; *e; e++) rec[rl++] = (*e == ' ') ? '_' : *e; }
            else rl += sprintf(rec + rl, "%lu", (unsigned long)r);
            rl += sprintf(rec + rl, ":%d:%d:%lu:%lu:%lu:%lu:%lu:%u:%lu:%lu;", (int)d->streamStage, (int)d->stage, (unsigned long)d->expected,
                          (unsigned long)d->lhSize, (unsigned long)d->inPos, (unsigned long)d->outStart, (unsigned long)d->outEnd,
                          (unsigned)d->hostageByte, (unsigned long)d->inBuffSize, (unsigned long)d->outBuffSize);
            if (ZSTD_isError(r)) break;
            ipos += ib.pos; opos += ob.pos - opos0; hint = r;
            if (ipos == fn && r == 0) break;
        }
        puthex(out, opos); printf(" %s\n", rl ? rec : "-");
        free(rec);
    }
    free(out);
done0:
    free(ops); ZSTD_freeDCtx(d); free(f);
}

static size_t apply_cparams(ZSTD_CCtx* c, const char* p) {
    if (!strcmp(p, "-")) return 0;
    while (*p) { int id, v, n = 0;
        if (sscanf(p, "%d:%d%n", &id, &v, &n) < 2) break;
        { size_t r = ZSTD_CCtx_setParameter(c, (ZSTD_cParameter)id, v); if (ZSTD_isError(r)) return r; }
        p += n; if (*p == ',') p++; }
    return 0;
}

static size_t c_hint(const ZSTD_CCtx* c) {     /* what ZSTD_compressStream() would return (fields are stale, not wrong, after a frame end) */
    if (c->appliedParams.nbWorkers > 0) return ZSTD_BLOCKSIZE_MAX;
    return ZSTD_nextInputSizeHint(c);
}
static size_t c_hint_usable(const ZSTD_CCtx* c) {
    if (c->streamStage == zcss_init) return ZSTD_BLOCKSIZE_MAX;
    return c_hint(c);
}

static void cmd_Y(char** t, int nt) {
    const char* id = t[1]; size_t n; unsigned char* in = unhex(t[3], &n);
    size_t cap_total = ZSTD_compressBound(n) + ((size_t)1 << 20) + 64 * 4096, opos = 0, ipos = 0, ncalls = 0;
    unsigned char* out = (unsigned char*)malloc(cap_total);
    ZSTD_CCtx* c = ZSTD_createCCtx(); size_t r = apply_cparams(c, t[2]);
    char* ops = strdup(t[4]); char* optok[4096]; int nops = 0, k = 0; char* sv = NULL; char* p;
    int stableOut = 0, frames_done = 0, ending = 0; size_t end_limit = 0; size_t rcap = 1 << 16, rl = 0; char* rec = (char*)malloc(rcap);
    int has_pledge = nt > 5 && strcmp(t[5], "-") != 0;
    unsigned long long pledged = has_pledge ? strtoull(t[5], NULL, 10) : (unsigned long long)-1;
    rec[0] = 0;
    if (ZSTD_isError(r)) { perr(id, r); goto done; }
    if (nt > 6 && !strncmp(t[6], "pre=", 4)) {   /* a single-call compression on the same context comes first */
        size_t pn = (size_t)strtoull(t[6] + 4, NULL, 10); size_t pr;
        if (pn > n) pn = n;
        pr = ZSTD_compressCCtx(c, out, cap_total, in, pn, 3);
        if (ZSTD_isError(pr)) { perr(id, pr); goto done; }
    }
    if (has_pledge) { r = ZSTD_CCtx_setPledgedSrcSize(c, pledged); if (ZSTD_isError(r)) { perr(id, r); goto done; } }
    { int v = 0; ZSTD_CCtx_getParameter(c, ZSTD_c_stableOutBuffer, &v); stableOut = v; }
    for (p = strtok_r(ops, ";", &sv); p && nops < 4096; p = strtok_r(NULL, ";", &sv)) optok[nops++] = p;
    for (;;) {
        char itok[32]; char* c1; char* c2; size_t offered, cap; int dir; ZSTD_inBuffer ib; ZSTD_outBuffer ob; size_t opos0, ipos0;
        const char* op_ = (k < nops) ? optok[k] : "a:r:2";
        size_t il; size_t bs = c->streamStage == zcss_init ? ZSTD_BLOCKSIZE_MAX : c->blockSize;
        k++;
        c1 = strchr(op_, ':'); if (!c1) break; c2 = strchr(c1 + 1, ':'); if (!c2) break;
        il = (size_t)(c1 - op_); if (il > 31) il = 31; memcpy(itok, op_, il); itok[il] = 0;
        offered = tok_in(itok, c_hint_usable(c), bs, n - ipos);
        if (offered > n - ipos) offered = n - ipos;
        if (c1[1] == 'r') cap = (size_t)1 << 20;
        else if (c1[1] == 'c' || c1[1] == 'C') {   /* c[+-k] = compressBound(blockSize) +- k ; C[+-k] = compressBound(offered) +- k */
            size_t base = ZSTD_compressBound(c1[1] == 'c' ? bs : offered); long d = 0;
            if (c1[2] == '+' || c1[2] == '-') d = strtol(c1 + 2, NULL, 10);
            cap = (d < 0 && (size_t)(-d) > base) ? 0 : base + d;
        } else cap = (size_t)strtoull(c1 + 1, NULL, 10);
        dir = atoi(c2 + 1);
        /* API contract: once ZSTD_e_end was issued the frame takes no further input and must be driven by e_end until it returns 0 */
        if (ending) { offered = end_limit - ipos; dir = 2; }
        else if (dir == 2) { ending = 1; end_limit = ipos + offered; }
        /* one contiguous input array, src = base, pos = consumed so far: valid for buffered and for stable-input mode */
        ib.src = in; ib.size = ipos + offered; ib.pos = ipos; ipos0 = ipos;
        if (stableOut) { ob.dst = out; ob.size = cap_total; ob.pos = opos; cap = cap_total - opos; }
        else { if (cap > cap_total - opos) cap = cap_total - opos; ob.dst = out + opos; ob.size = cap; ob.pos = 0; }
        opos0 = ob.pos;
        r = ZSTD_compressStream2(c, &ob, &ib, (ZSTD_EndDirective)dir);
        ncalls++;
        if (rl + 500 > rcap) { rcap *= 2; rec = (char*)realloc(rec, rcap); }
        rl += sprintf(rec + rl, "%lu:%lu:%d:%ld:%lu:", (unsigned long)offered, (unsigned long)cap, dir, (long)ib.pos - (long)ipos0, (unsigned long)(ob.pos - opos0));
        if (ZSTD_isError(r)) { const char* e = ZSTD_getErrorString(ZSTD_getErrorCode(r)); rec[rl++] = 'E'; for (; *e; e++) rec[rl++] = (*e == ' ') ? '_' : *e; }
        else rl += sprintf(rec + rl, "%lu", (unsigned long)r);
        rl += sprintf(rec + rl, ":%d:%lu:%lu:%lu:%lu:%lu:%d:%lu:%lu:%lu:%lu:%lu:%u:%lu;", (int)c->streamStage, (unsigned long)c->inBuffPos,
                      (unsigned long)c->inToCompress, (unsigned long)c->inBuffTarget, (unsigned long)c->outBuffContentSize,
                      (unsigned long)c->outBuffFlushedSize, (int)c->frameEnded, (unsigned long)c->stableIn_notConsumed,
                      (unsigned long)c->blockSize, (unsigned long)c->inBuffSize, (unsigned long)c->outBuffSize, (unsigned long)c_hint(c),
                      (unsigned)c->appliedParams.cParams.windowLog, (unsigned long)c->appliedParams.maxBlockSize);
        if (ZSTD_isError(r)) break;
        ipos = ib.pos; opos += ob.pos - opos0;
        if (dir == 2 && r == 0) { frames_done++; ending = 0; }
        if (k >= nops && ipos == n && dir == 2 && r == 0) break;
        if (k >= nops && ipos == n && c->streamStage == zcss_init && c->stableIn_notConsumed == 0 && frames_done > 0) break;
        if (ncalls > 30000) break;   /* a history that does not finish is cut here (reported by the caller as incomplete) */
    }
    printf("%s OK ", id); puthex(out, opos); printf(" %s\n", rl ? rec : "-");
done:
    free(rec); free(ops); ZSTD_freeCCtx(c); free(in); free(out);
}

/* legacy ZBUFF_* streaming API (lib/deprecated) */
static void cmd_L(char** t) {
    const char* id = t[1]; int level = atoi(t[2]); size_t n; unsigned char* in = unhex(t[3], &n);
    size_t ichunk = (size_t)strtoull(t[4], NULL, 10), ochunk = (size_t)strtoull(t[5], NULL, 10);
    size_t cap = ZSTD_compressBound(n) + n + 65536 /* every flush adds a block header */, cpos = 0, ipos = 0, r = 0;
    unsigned char* cbuf = (unsigned char*)malloc(cap); unsigned char* rbuf = (unsigned char*)malloc(n + 1); size_t rpos = 0;
    ZBUFF_CCtx* zc = ZBUFF_createCCtx(); ZBUFF_DCtx* zd = ZBUFF_createDCtx(); int guard = 0;
    if (ichunk == 0) ichunk = 1; if (ochunk == 0) ochunk = 1;
    r = ZBUFF_compressInit(zc, level);
    while (!ZSTD_isError(r) && ipos < n && guard++ < 10000000) {
        size_t il = n - ipos < ichunk ? n - ipos : ichunk, ol = cap - cpos < ochunk ? cap - cpos : ochunk;
        r = ZBUFF_compressContinue(zc, cbuf + cpos, &ol, in + ipos, &il); ipos += il; cpos += ol;
        if (!ZSTD_isError(r) && (guard % 7) == 3) { ol = cap - cpos < ochunk ? cap - cpos : ochunk; r = ZBUFF_compressFlush(zc, cbuf + cpos, &ol); cpos += ol; }
    }
    while (!ZSTD_isError(r) && guard++ < 10000000) {
        size_t ol = cap - cpos < ochunk ? cap - cpos : ochunk; r = ZBUFF_compressEnd(zc, cbuf + cpos, &ol); cpos += ol; if (r == 0) break;
    }
    if (ZSTD_isError(r)) { perr(id, r); goto done; }
    r = ZBUFF_decompressInit(zd); ipos = 0; guard = 0;
    while (!ZSTD_isError(r) && guard++ < 10000000) {
        size_t il = cpos - ipos < ichunk ? cpos - ipos : ichunk, ol = (n + 1) - rpos < ochunk ? (n + 1) - rpos : ochunk;
        r = ZBUFF_decompressContinue(zd, rbuf + rpos, &ol, cbuf + ipos, &il); ipos += il; rpos += ol;
        if (r == 0 && ipos == cpos) break;
        if (il == 0 && ol == 0 && ipos == cpos) { r = (size_t)-ZSTD_error_srcSize_wrong; break; }
    }
    if (ZSTD_isError(r)) { perr(id, r); goto done; }
    printf("%s OK ", id); puthex(cbuf, cpos); putchar(' '); puthex(rbuf, rpos); putchar('\n');
done:
    ZBUFF_freeCCtx(zc); ZBUFF_freeDCtx(zd); free(in); free(cbuf); free(rbuf);
}

/* buffer-less compression: segments either contiguous in one array or copied to separate allocations */
static void cmd_K(char** t) {
    const char* id = t[1]; size_t n; unsigned char* in = unhex(t[3], &n);
    size_t cap = ZSTD_compressBound(n) + 4096 + 64 * 1024, cpos = 0, ipos = 0, r;
    unsigned char* cbuf = (unsigned char*)malloc(cap); ZSTD_CCtx* c = ZSTD_createCCtx();
    void* keep[4096]; int nkeep = 0; const char* p = t[4]; int i;
    r = apply_cparams(c, t[2]);
    if (!ZSTD_isError(r)) { int lvl = 3; ZSTD_CCtx_getParameter(c, ZSTD_c_compressionLevel, &lvl);
        {   ZSTD_parameters prm = ZSTD_getParams(lvl, 0, 0); int wl = 0, ck = 0;
            ZSTD_CCtx_getParameter(c, ZSTD_c_windowLog, &wl); ZSTD_CCtx_getParameter(c, ZSTD_c_checksumFlag, &ck);
            if (wl) prm.cParams.windowLog = (unsigned)wl;
            prm.fParams.checksumFlag = ck; prm.fParams.contentSizeFlag = 0;
            r = ZSTD_compressBegin_advanced(c, NULL, 0, prm, ZSTD_CONTENTSIZE_UNKNOWN); } }
    while (!ZSTD_isError(r) && *p) {
        int copy = 0; size_t seg; const unsigned char* src;
        if (*p == '!') { copy = 1; p++; }
        seg = (size_t)strtoull(p, (char**)&p, 10); if (*p == ',') p++;
        if (seg > n - ipos) seg = n - ipos;
        src = in + ipos;
        if (copy && nkeep < 4096) { unsigned char* q = (unsigned char*)malloc(seg + 1); memcpy(q, src, seg); keep[nkeep++] = q; src = q; }
        if (*p == 0 && ipos + seg == n) { r = ZSTD_compressEnd(c, cbuf + cpos, cap - cpos, src, seg); ipos += seg; if (!ZSTD_isError(r)) cpos += r; goto fin; }
        r = ZSTD_compressContinue(c, cbuf + cpos, cap - cpos, src, seg); ipos += seg; if (!ZSTD_isError(r)) cpos += r;
    }
    if (!ZSTD_isError(r)) { r = ZSTD_compressEnd(c, cbuf + cpos, cap - cpos, in + ipos, n - ipos); if (!ZSTD_isError(r)) cpos += r; }
fin:
    if (ZSTD_isError(r)) perr(id, r); else { printf("%s OK ", id); puthex(cbuf, cpos); putchar('\n'); }
    for (i = 0; i < nkeep; i++) free(keep[i]);
    ZSTD_freeCCtx(c); free(in); free(cbuf);
}

static size_t w_rec(char* rec, size_t rl, const ZSTD_CCtx* c, const unsigned char* arena) {
    const ZSTD_window_t* w = &c->blockState.matchState.window;
    return rl + (size_t)sprintf(rec + rl, "%ld:%ld:%u:%u:%ld;", (long)(w->base - arena), (long)(w->dictBase - arena),
                                (unsigned)w->dictLimit, (unsigned)w->lowLimit, (long)(w->nextSrc - arena));
}
static void cmd_W(char** t) {
    const char* id = t[1]; size_t asz = (size_t)strtoull(t[3], NULL, 10); size_t n; unsigned char* in = unhex(t[4], &n);
    unsigned char* arena = (unsigned char*)calloc(asz + 64, 1);
    size_t cap = ZSTD_compressBound(n) + 4096 + 64 * 1024 + n, cpos = 0, ipos = 0, r, rl = 0, rcap = 1 << 16;
    unsigned char* cbuf = (unsigned char*)malloc(cap); ZSTD_CCtx* c = ZSTD_createCCtx(); char* rec = (char*)malloc(rcap);
    const char* p = t[5]; size_t nseg = 0, k = 0; const char* q;
    for (q = p; *q; q++) if (*q == ':') nseg++;
    r = apply_cparams(c, t[2]);
    if (!ZSTD_isError(r)) { int lvl = 3; ZSTD_CCtx_getParameter(c, ZSTD_c_compressionLevel, &lvl);
        {   ZSTD_parameters prm = ZSTD_getParams(lvl, 0, 0); int wl = 0, ck = 0;
            ZSTD_CCtx_getParameter(c, ZSTD_c_windowLog, &wl); ZSTD_CCtx_getParameter(c, ZSTD_c_checksumFlag, &ck);
            if (wl) prm.cParams.windowLog = (unsigned)wl;
            prm.fParams.checksumFlag = ck; prm.fParams.contentSizeFlag = 0;
            r = ZSTD_compressBegin_advanced(c, NULL, 0, prm, ZSTD_CONTENTSIZE_UNKNOWN); } }
    rec[0] = 0;
    if (!ZSTD_isError(r)) rl = w_rec(rec, rl, c, arena);
    while (!ZSTD_isError(r) && *p) {
        size_t off = (size_t)strtoull(p, (char**)&p, 10), len;
        if (*p != ':') break;
        p++; len = (size_t)strtoull(p, (char**)&p, 10); if (*p == ',') p++;
        if (len > n - ipos) len = n - ipos;
        if (off + len > asz) { r = (size_t)-ZSTD_error_GENERIC; break; }
        memcpy(arena + off, in + ipos, len); ipos += len; k++;
        if (k == nseg) r = ZSTD_compressEnd(c, cbuf + cpos, cap - cpos, arena + off, len);
        else r = ZSTD_compressContinue(c, cbuf + cpos, cap - cpos, arena + off, len);
        if (!ZSTD_isError(r)) cpos += r;
        if (rl + 200 > rcap) { rcap *= 2; rec = (char*)realloc(rec, rcap); }
        if (!ZSTD_isError(r)) rl = w_rec(rec, rl, c, arena);
    }
    if (ZSTD_isError(r)) perr(id, r);
    else { printf("%s OK ", id); puthex(cbuf, cpos);
           printf(" %s %lu:%lu\n", rl ? rec : "-", (unsigned long)c->blockSize, (unsigned long)1 << c->appliedParams.cParams.windowLog); }
    ZSTD_freeCCtx(c); free(in); free(cbuf); free(arena); free(rec);
}

int main(void) {
    char* line = NULL; size_t lcap = 0; ssize_t len;
    while ((len = getline(&line, &lcap, stdin)) > 0) {
        char* t[12]; int nt = 0; char* sv = NULL; char* tok = strtok_r(line, " \n", &sv);
        while (tok && nt < 12) { t[nt++] = tok; tok = strtok_r(NULL, " \n", &sv); }
        if (nt == 0) continue;
        if (t[0][0] == 'X' && nt >= 5) cmd_X(t, nt);
        else if (t[0][0] == 'Y' && nt >= 5) cmd_Y(t, nt);
        else if (t[0][0] == 'L' && nt >= 6) cmd_L(t);
        else if (t[0][0] == 'K' && nt >= 5) cmd_K(t);
        else if (t[0][0] == 'W' && nt >= 6) cmd_W(t);
        else printf("? BADCMD\n");
        fflush(stdout);
    }
    return 0;
}
