/* C18 round 3: the legacy trainer's sample-set reduction at a SCALED limit.
 *
 * The translation unit includes a copy of the CURRENT lib/dictBuilder/zdict.c in which ONE line is rewritten by the
 * driver (zv/props/c18.py, legsmall_source): "#define ZDICT_MAX_SAMPLES_SIZE (2000U << 20)" becomes
 * "#define ZDICT_MAX_SAMPLES_SIZE (C18_SMALL_MAX)".  Every statement that is executed is the real code; only the constant
 * differs, so sample sets of a few tens of KB take the path that 2000 MB take in the library (the unscaled 2000 MB case runs
 * in the thorough tier through the oracle, algo xl-legacy).  The driver refuses to build when the line is not found exactly once.
 *
 * one case per stdin line, each in a forked child (exact-size heap blocks: ASan sees the true ends):
 *   red <cap> <selectivity> <marker 0|1> <headcopy 0|1> <nb> s1 ... snb
 *       samples = pseudo text (bytes < 0xF0); marker=1: every sample of >= 10 bytes starts with the lexicographically
 *       greatest 10 bytes FF FE .. F6 (its suffix group is the last one, so its look-forward reaches the sentinel);
 *       headcopy=1: the LAST sample starts with a copy of sample 0
 * result: ERR:<name> | NODICT | DICT size= cdict= ddict= id= rt= | CRASH ... */
#define ZDICT_STATIC_LINKING_ONLY
#define ZDICT_DISABLE_DEPRECATE_WARNINGS
#include C18_ZDICT_COPY
#include "c18_gen.h"
#include <signal.h>
#include <sys/wait.h>
#include <unistd.h>
#include <fcntl.h>

#define MAXTOK 4000

static void run_case(char** t, int n) {
    size_t const cap = (size_t)strtoull(t[1], 0, 10); unsigned const sel = (unsigned)strtoul(t[2], 0, 10);
    int const marker = atoi(t[3]), headcopy = atoi(t[4]); unsigned const nb = (unsigned)strtoul(t[5], 0, 10);
    static const unsigned char mk[10] = { 0xFF, 0xFE, 0xFD, 0xFC, 0xFB, 0xFA, 0xF9, 0xF8, 0xF7, 0xF6 };
    size_t* sizes; size_t total = 0, pos = 0; unsigned u; unsigned char* buf; unsigned char* dict; size_t r;
    ZDICT_legacy_params_t p;
    if (n != (int)(6 + nb) || nb == 0) { printf("BADCASE\n"); return; }
    sizes = (size_t*)malloc(nb * sizeof(size_t));
    for (u = 0; u < nb; u++) { sizes[u] = (size_t)strtoull(t[6 + u], 0, 10); total += sizes[u]; }
    buf = (unsigned char*)malloc(total ? total : 1);
    for (u = 0; u < nb; u++) {
        c18_fill(buf + pos, sizes[u], 3, 77, u / 2);
        if (marker && sizes[u] >= 10) memcpy(buf + pos, mk, 10);
        pos += sizes[u];
    }
    if (headcopy && nb > 1) { size_t const h = sizes[0] < sizes[nb - 1] ? sizes[0] : sizes[nb - 1]; memcpy(buf + total - sizes[nb - 1], buf, h); }
    dict = (unsigned char*)malloc(cap ? cap : 1);
    memset(&p, 0, sizeof p); p.selectivityLevel = sel;
    r = ZDICT_trainFromBuffer_legacy(dict, cap, buf, sizes, nb, p);
    if (ZDICT_isError(r)) printf("ERR:%s max=%u\n", ZDICT_getErrorName(r), (unsigned)ZDICT_MAX_SAMPLES_SIZE);
    else if (r == 0) printf("NODICT max=%u\n", (unsigned)ZDICT_MAX_SAMPLES_SIZE);
    else if (r > cap) printf("DICT size=%zu OVERRUN\n", r);
    else {
        ZSTD_CDict* cd = ZSTD_createCDict(dict, r, 3); ZSTD_DDict* dd = ZSTD_createDDict(dict, r); int rt = -1;
        if (cd && dd) {
            ZSTD_CCtx* cc = ZSTD_createCCtx(); ZSTD_DCtx* dc = ZSTD_createDCtx(); size_t q = 0;
            for (u = 0; u < nb && rt < 0; u++) {
                size_t const sz = sizes[u], bound = ZSTD_compressBound(sz);
                unsigned char* cb = (unsigned char*)malloc(bound ? bound : 1); unsigned char* ob = (unsigned char*)malloc(sz ? sz : 1);
                size_t const cs = ZSTD_compress_usingCDict(cc, cb, bound, buf + q, sz, cd);
                if (ZSTD_isError(cs)) rt = (int)u;
                else { size_t const ds = ZSTD_decompress_usingDDict(dc, ob, sz, cb, cs, dd);
                       if (ZSTD_isError(ds) || ds != sz || (sz && memcmp(ob, buf + q, sz))) rt = (int)u; }
                free(cb); free(ob); q += sz;
            }
            ZSTD_freeCCtx(cc); ZSTD_freeDCtx(dc);
        }
        printf("DICT size=%zu cdict=%d ddict=%d id=%u rt=%s max=%u\n", r, cd != NULL, dd != NULL, ZDICT_getDictID(dict, r),
               rt < 0 ? "ok" : "fail", (unsigned)ZDICT_MAX_SAMPLES_SIZE);
        ZSTD_freeCDict(cd); ZSTD_freeDDict(dd);
    }
    free(dict); free(buf); free(sizes);
}

int main(int argc, char** argv) {
    static char line[1 << 16];
    static char* tok[MAXTOK];
    unsigned timeout = argc > 1 ? (unsigned)atoi(argv[1]) : 60;
    const char* errfile = argc > 2 ? argv[2] : "/dev/null";
    setvbuf(stdout, NULL, _IOLBF, 0);
    while (fgets(line, sizeof line, stdin)) {
        pid_t pid; int st;
        fflush(stdout);
        pid = fork();
        if (pid == 0) {
            int n; int fd = open(errfile, O_WRONLY | O_CREAT | O_TRUNC, 0644);
            if (fd >= 0) { dup2(fd, 2); close(fd); }
            alarm(timeout);
            n = c18_split(line, tok, MAXTOK);
            if (n < 7 || strcmp(tok[0], "red")) printf("BADCASE\n"); else run_case(tok, n);
            fflush(stdout);
            _exit(0);
        }
        if (pid < 0) { printf("CRASH fork-failed\n.END\n"); continue; }
        waitpid(pid, &st, 0);
        if (WIFSIGNALED(st)) printf("\nCRASH signal=%d%s\n", WTERMSIG(st), WTERMSIG(st) == SIGALRM ? " (timeout)" : "");
        else if (WEXITSTATUS(st) != 0) {
            char msg[400] = ""; FILE* ef = fopen(errfile, "r");
            if (ef) { char l[400]; while (fgets(l, sizeof l, ef)) if (strstr(l, "ERROR") || strstr(l, "runtime error")) { size_t m = strlen(l); if (m && l[m-1] == '\n') l[m-1] = 0; snprintf(msg, sizeof msg, "%s", l); break; } fclose(ef); }
            printf("\nCRASH exit=%d %s\n", WEXITSTATUS(st), msg);
        }
        printf(".END\n");
    }
    return 0;
}
