/* c10_api: API-level streaming compression histories for property C10 - every public entry point that drives a streaming
 * compression (ZSTD_compressStream2, ZSTD_compressStream, ZSTD_flushStream, ZSTD_endStream), parameter changes between frames,
 * abandoned frames, single- and multi-threaded, with the observers ZSTD_toFlushNow / ZSTD_getFrameProgression.
 * The translation unit under study is #included, so the private fields and the static helper inBuffer_forEndFlush() are
 * readable; everything else comes from the libzstd rebuilt from /repo's working tree.  One command per line:
 *
 *  A <id> <params> <inputhex> <ops> [dict=<hex>] [pledged=<n>] [maxcalls=<n>]
 *      params : "-" or id:value,...                       (ZSTD_CCtx_setParameter before the history)
 *      ops    : ';'-separated
 *          c<in>:<cap>:<dir>   ZSTD_compressStream2, dir 0 continue / 1 flush / 2 end
 *          s<in>:<cap>         ZSTD_compressStream                 (returns the input size hint)
 *          f<cap>              ZSTD_flushStream
 *          e<cap>              ZSTD_endStream
 *          p<id>=<v>           ZSTD_CCtx_setParameter              (refused by the library while a frame is in progress)
 *          R                   ZSTD_CCtx_reset(session_only)       (abandons the frame in progress)
 *          t                   ZSTD_toFlushNow + ZSTD_getFrameProgression only (every record carries them anyway)
 *        in  = <n> | h (input hint) | h+k | h-k | b (blockSize) | b+k | b-k | a (all remaining)
 *        cap = <n> | r (1<<20) | c[+-k] (compressBound(blockSize) +- k) | C[+-k] (compressBound(offered) +- k)
 *      The input is ONE array; every call presents {in, ipos + offered, ipos} (valid in buffered and in stable-input mode).
 *      Once an end directive was issued the frame takes no further input: following ops become end calls (an 'e' op stays
 *      ZSTD_endStream) until the frame is complete.  After the list the frame in progress is driven to its end with c a:r:2.
 *      In stable-input mode ZSTD_endStream re-presents the recorded stable buffer, i.e. it ingests what the last call
 *      presented and did not consume; the harness accounts for that when the frame completes.
 *      -> <id> OK <outhex> <records>
 *      record = kind:offered:cap:dir:consumed:produced:ret|E<name>:streamStage:inBuffPos:inToCompress:inBuffTarget:outBuffContentSize:
 *               outBuffFlushedSize:frameEnded:notConsumed:blockSize:inBuffSize:outBuffSize:hint:windowLog:maxBlockSize:
 *               view:appliedStableIn:appliedNbWorkers:fin:fout:ipos:opos:toFlushNow:ingested:consumed:produced:flushed:dec:declen:checksum:
 *               expPos:expSize;                       (expectedInBuffer.pos / .size after the call)
 *        kind   c s f e p R t ; dir of s = 0, f = 1, e = 2
 *        view   what inBuffer_forEndFlush() would hand to the wrappers BEFORE this call: 1 = the recorded stable buffer, 0 = {NULL,0,0}
 *        fin / fout : input / output offset where the frame in progress (or, between frames, the next one) starts
 *        dec    when a flush (dir 1) or end (dir 2) call returned 0: 1 = ZSTD_decompressStream regenerates in[fin, ipos) exactly from
 *               out[fout, opos) (and, for end, reports the frame complete at its last byte), 0 = it does not, -1 = not evaluated
 *        declen number of bytes regenerated
 */
#define ZSTD_STATIC_LINKING_ONLY
#define ZSTD_DISABLE_DEPRECATE_WARNINGS
#include "compress/zstd_compress.c"
#include <stdio.h>
#include <stdlib.h>
#include <string.h>

static unsigned char* unhex(const char* s, size_t* n) {
    size_t l, i; unsigned char* b;
    if (!strcmp(s, "-")) { *n = 0; return (unsigned char*)malloc(1); }
    l = strlen(s) / 2; b = (unsigned char*)malloc(l + 1);
    for (i = 0; i < l; i++) { unsigned v; sscanf(s + 2 * i, "%2x", &v); b[i] = (unsigned char)v; }
    *n = l; return b;
}
static void puthex(const unsigned char* b, size_t n) {
    static const char* H = "0123456789abcdef"; size_t i;
    if (n == 0) { putchar('-'); return; }
    for (i = 0; i < n; i++) { putchar(H[b[i] >> 4]); putchar(H[b[i] & 15]); }
}
static void perr(const char* id, size_t code) {
    const char* e = ZSTD_getErrorString(ZSTD_getErrorCode(code)); printf("%s ERR E", id);
    for (; *e; e++) putchar(*e == ' ' ? '_' : *e);
    putchar('\n');
}

static size_t tok_in(const char* t, size_t hint, size_t bs, size_t remaining) {
    size_t base; long d = 0;
    if (t[0] == 'a') return remaining;
    if (t[0] == 'h') base = hint; else if (t[0] == 'b') base = bs; else return (size_t)strtoull(t, NULL, 10);
    if (t[1] == '+' || t[1] == '-') d = strtol(t + 1, NULL, 10);
    if (d < 0 && (size_t)(-d) > base) return 0;
    return base + d;
}
static size_t tok_cap(const char* t, size_t bs, size_t offered) {
    if (t[0] == 'r') return (size_t)1 << 20;
    if (t[0] == 'c' || t[0] == 'C') {
        size_t base = ZSTD_compressBound(t[0] == 'c' ? bs : offered); long d = 0;
        if (t[1] == '+' || t[1] == '-') d = strtol(t + 1, NULL, 10);
        return (d < 0 && (size_t)(-d) > base) ? 0 : base + d;
    }
    return (size_t)strtoull(t, NULL, 10);
}

static size_t c_hint(const ZSTD_CCtx* c) {
    if (c->appliedParams.nbWorkers > 0) return ZSTD_BLOCKSIZE_MAX;
    return ZSTD_nextInputSizeHint(c);
}
static size_t c_hint_usable(const ZSTD_CCtx* c) {
    if (c->streamStage == zcss_init) return ZSTD_BLOCKSIZE_MAX;
    { size_t h = c_hint(c); return h > ZSTD_BLOCKSIZE_MAX ? ZSTD_BLOCKSIZE_MAX : h; }
}

/* decode out[0, n) with the streaming decoder: -> 1 when it regenerates exactly want[0, wn) (and, when [complete], ends on a frame end) */
static int decodes_to(const unsigned char* o, size_t n, const unsigned char* want, size_t wn, int complete, int magicless,
                      const unsigned char* dict, size_t dn, size_t* declen) {
    ZSTD_DCtx* d = ZSTD_createDCtx(); unsigned char* back = (unsigned char*)malloc(wn + 64);
    ZSTD_inBuffer ib; ZSTD_outBuffer ob; size_t r = 1; int guard = 0, ok;
    if (magicless) ZSTD_DCtx_setParameter(d, ZSTD_d_format, ZSTD_f_zstd1_magicless);
    if (dn) ZSTD_DCtx_loadDictionary(d, dict, dn);
    ib.src = o; ib.size = n; ib.pos = 0; ob.dst = back; ob.size = wn + 64; ob.pos = 0;
    while (guard++ < 1000000) {
        size_t const ip0 = ib.pos, op0 = ob.pos;
        r = ZSTD_decompressStream(d, &ob, &ib);
        if (ZSTD_isError(r)) break;
        if (ib.pos == ib.size && (r == 0 || (ib.pos == ip0 && ob.pos == op0))) break;
        if (ib.pos == ip0 && ob.pos == op0) break;
    }
    *declen = ob.pos;
    ok = !ZSTD_isError(r) && ob.pos == wn && (wn == 0 || !memcmp(back, want, wn)) && ib.pos == n && (!complete || r == 0);
    ZSTD_freeDCtx(d); free(back);
    return ok;
}

static void cmd_A(char** t, int nt) {
    const char* id = t[1]; size_t n; unsigned char* in = unhex(t[3], &n);
    size_t cap_total = ZSTD_compressBound(n) + ((size_t)4 << 20), opos = 0, ipos = 0, ncalls = 0, maxcalls = 30000;
    unsigned char* out = (unsigned char*)malloc(cap_total);
    ZSTD_CCtx* c = ZSTD_createCCtx(); size_t r = 0;
    char* ops = strdup(t[4]); char** optok = (char**)malloc(sizeof(char*) * 8192); int nops = 0, k = 0; char* sv = NULL; char* p;
    size_t rcap = 1 << 16, rl = 0; char* rec = (char*)malloc(rcap);
    unsigned char* dict = NULL; size_t dn = 0; int a;
    int ending = 0, frames_done = 0, wrapper_ending = 0; size_t end_limit = 0, presented_end = 0, fin = 0, fout = 0; int in_frame = 0;
    rec[0] = 0;
    /* parameters */
    {   const char* q = t[2];
        if (strcmp(q, "-")) while (*q) { int pid, v, m = 0;
            if (sscanf(q, "%d:%d%n", &pid, &v, &m) < 2) break;
            r = ZSTD_CCtx_setParameter(c, (ZSTD_cParameter)pid, v); if (ZSTD_isError(r)) { perr(id, r); goto done; }
            q += m; if (*q == ',') q++; } }
    for (a = 5; a < nt; a++) {
        if (!strncmp(t[a], "dict=", 5)) { dict = unhex(t[a] + 5, &dn); r = ZSTD_CCtx_loadDictionary(c, dict, dn); if (ZSTD_isError(r)) { perr(id, r); goto done; } }
        else if (!strncmp(t[a], "pledged=", 8)) { r = ZSTD_CCtx_setPledgedSrcSize(c, strtoull(t[a] + 8, NULL, 10)); if (ZSTD_isError(r)) { perr(id, r); goto done; } }
        else if (!strncmp(t[a], "maxcalls=", 9)) maxcalls = (size_t)strtoull(t[a] + 9, NULL, 10);
    }
    for (p = strtok_r(ops, ";", &sv); p && nops < 8192; p = strtok_r(NULL, ";", &sv)) optok[nops++] = p;
    for (;;) {
        const char* op_ = (k < nops) ? optok[k] : "ca:r:2";
        char kind = op_[0]; char itok[32]; const char* c1; const char* c2;
        size_t offered = 0, cap = 0, il, consumed = 0, produced = 0; int dir = -1; ZSTD_inBuffer ib; ZSTD_outBuffer ob; size_t opos0;
        size_t bs = c->streamStage == zcss_init ? ZSTD_BLOCKSIZE_MAX : c->blockSize;
        int view, dec = -1, fmt = 0, ck = 0, stableOut = 0, stableIn_req = 0; size_t declen = 0; size_t tfn; ZSTD_frameProgression fp;
        k++;
        ZSTD_CCtx_getParameter(c, ZSTD_c_stableOutBuffer, &stableOut);
        ZSTD_CCtx_getParameter(c, ZSTD_c_stableInBuffer, &stableIn_req);
        ZSTD_CCtx_getParameter(c, ZSTD_c_format, &fmt);
        {   ZSTD_inBuffer const v = inBuffer_forEndFlush(c); view = (v.src != NULL || v.size != 0 || v.pos != 0) ? 1 : 0; }
        /* once an end directive was issued the frame takes no further input: c / s / f ops become end calls with their own
         * output room; an 'e' op stays ZSTD_endStream unless that would drop input the end call has not consumed yet */
        {   const char* captok = NULL; const char* intok = NULL;
            if (kind == 'c' || kind == 's') { intok = op_ + 1; c1 = strchr(op_ + 1, ':'); if (!c1) break; captok = c1 + 1; }
            else if (kind == 'f' || kind == 'e') captok = op_ + 1;
            if (ending && (kind == 's' || kind == 'f')) { kind = 'c'; intok = "a"; dir = 2; }
            /* ZSTD_endStream on a stable buffer ingests without telling the caller: the caller's struct is stale, only the wrapper can go on */
            if (ending && wrapper_ending && view && kind == 'c') { kind = 'e'; }
            if (ending && kind == 'e' && !view && ipos < end_limit) { kind = 'c'; intok = "a"; dir = 2; }
            if (kind == 'c' || kind == 's') {
                const char* colon = strchr(intok, ':');
                il = colon ? (size_t)(colon - intok) : strlen(intok); if (il > 31) il = 31; memcpy(itok, intok, il); itok[il] = 0;
                offered = tok_in(itok, c_hint_usable(c), bs, n - ipos);
                if (offered > n - ipos) offered = n - ipos;
                cap = tok_cap(captok, bs, offered);
                if (dir < 0) { if (kind == 'c') { c2 = strchr(captok, ':'); if (!c2) break; dir = atoi(c2 + 1); } else dir = 0; }
                if (ending) { offered = end_limit - ipos; dir = 2; }
                else if (dir == 2) { ending = 1; end_limit = ipos + offered; }
            } else if (kind == 'f' || kind == 'e') {
                cap = tok_cap(captok, bs, 0); dir = (kind == 'f') ? 1 : 2;
                if (kind == 'e') { ending = 1; wrapper_ending = 1; end_limit = (view && c->expectedInBuffer.size > ipos) ? c->expectedInBuffer.size : ipos; }
            }
        }
        if (stableOut) cap = cap_total - opos; else if (cap > cap_total - opos) cap = cap_total - opos;
        ob.dst = stableOut ? out : out + opos; ob.size = stableOut ? cap_total : cap; ob.pos = stableOut ? opos : 0; opos0 = ob.pos;
        ib.src = in; ib.size = ipos + offered; ib.pos = ipos;
        r = 0;
        switch (kind) {
            case 'c': r = ZSTD_compressStream2(c, &ob, &ib, (ZSTD_EndDirective)dir); presented_end = ib.size; break;
            case 's': r = ZSTD_compressStream(c, &ob, &ib); presented_end = ib.size; break;
            case 'f': r = ZSTD_flushStream(c, &ob); break;
            case 'e': r = ZSTD_endStream(c, &ob); break;
            case 'p': { int pid = 0, v = 0; sscanf(op_ + 1, "%d=%d", &pid, &v); r = ZSTD_CCtx_setParameter(c, (ZSTD_cParameter)pid, v); break; }
            case 'R': r = ZSTD_CCtx_reset(c, ZSTD_reset_session_only); break;
            case 't': break;
            default: r = (size_t)-ZSTD_error_GENERIC; break;
        }
        ncalls++;
        if (kind == 'c' || kind == 's') consumed = ib.pos - ipos;      /* two's complement: stable-input bytes handed back show as negative */
        if (kind == 'c' || kind == 's' || kind == 'f' || kind == 'e') produced = ob.pos - opos0;
        if (!ZSTD_isError(r)) {
            if (kind == 'c' || kind == 's') ipos = ib.pos;
            opos += produced;
            if (produced || consumed || kind == 'c' || kind == 's' || kind == 'f' || kind == 'e') in_frame = 1;
            if (kind == 'e' && r == 0) ipos = end_limit;               /* the wrapper ingested what the stable buffer still presented */
        }
        ZSTD_CCtx_getParameter(c, ZSTD_c_checksumFlag, &ck);
        /* the direct oracle of part (b), on the real decoder, at every completed flush / end */
        if (!ZSTD_isError(r) && r == 0 && (dir == 1 || dir == 2) && (kind == 'c' || kind == 'f' || kind == 'e'))
            dec = decodes_to(out + fout, opos - fout, in + fin, ipos - fin, dir == 2, fmt == (int)ZSTD_f_zstd1_magicless, dict, dn, &declen);
        tfn = ZSTD_toFlushNow(c); fp = ZSTD_getFrameProgression(c);
        if (rl + 900 > rcap) { rcap *= 2; rec = (char*)realloc(rec, rcap); }
        rl += sprintf(rec + rl, "%c:%lu:%lu:%d:%ld:%lu:", kind, (unsigned long)offered, (unsigned long)cap, dir, (long)consumed, (unsigned long)produced);
        if (ZSTD_isError(r)) { const char* e = ZSTD_getErrorString(ZSTD_getErrorCode(r)); rec[rl++] = 'E'; for (; *e; e++) rec[rl++] = (*e == ' ') ? '_' : *e; }
        else rl += sprintf(rec + rl, "%lu", (unsigned long)r);
        rl += sprintf(rec + rl, ":%d:%lu:%lu:%lu:%lu:%lu:%d:%lu:%lu:%lu:%lu:%lu:%u:%lu", (int)c->streamStage, (unsigned long)c->inBuffPos,
                      (unsigned long)c->inToCompress, (unsigned long)c->inBuffTarget, (unsigned long)c->outBuffContentSize,
                      (unsigned long)c->outBuffFlushedSize, (int)c->frameEnded, (unsigned long)c->stableIn_notConsumed,
                      (unsigned long)c->blockSize, (unsigned long)c->inBuffSize, (unsigned long)c->outBuffSize, (unsigned long)c_hint(c),
                      (unsigned)c->appliedParams.cParams.windowLog, (unsigned long)c->appliedParams.maxBlockSize);
        rl += sprintf(rec + rl, ":%d:%d:%d:%lu:%lu:%lu:%lu:%lu:%llu:%llu:%llu:%llu:%d:%lu:%d:%lu:%lu;", view, (int)(c->appliedParams.inBufferMode == ZSTD_bm_stable),
                      (int)c->appliedParams.nbWorkers, (unsigned long)fin, (unsigned long)fout, (unsigned long)ipos, (unsigned long)opos, (unsigned long)tfn,
                      fp.ingested, fp.consumed, fp.produced, fp.flushed, dec, (unsigned long)declen, ck,
                      (unsigned long)c->expectedInBuffer.pos, (unsigned long)c->expectedInBuffer.size);
        if (ZSTD_isError(r) && kind != 'p') break;
        if (dir == 2 && r == 0 && (kind == 'c' || kind == 'e')) { frames_done++; ending = 0; wrapper_ending = 0; fin = ipos; fout = opos; in_frame = 0; presented_end = ipos; }
        if (kind == 'R') { ending = 0; wrapper_ending = 0; fin = ipos; fout = opos; in_frame = 0; presented_end = ipos; }
        if (k >= nops && !in_frame && ipos == n && c->stableIn_notConsumed == 0 && frames_done > 0) break;
        if (ncalls > maxcalls) break;   /* a history that does not finish is cut here (reported by the caller) */
    }
    printf("%s OK ", id); puthex(out, opos); printf(" %s\n", rl ? rec : "-");
done:
    free(rec); free(ops); free(optok); ZSTD_freeCCtx(c); free(in); free(out); free(dict);
}

int main(void) {
    char* line = NULL; size_t lcap = 0; ssize_t len;
    while ((len = getline(&line, &lcap, stdin)) > 0) {
        char* t[12]; int nt = 0; char* sv = NULL; char* tok = strtok_r(line, " \n", &sv);
        while (tok && nt < 12) { t[nt++] = tok; tok = strtok_r(NULL, " \n", &sv); }
        if (nt == 0) continue;
        if (t[0][0] == 'A' && nt >= 5) cmd_A(t, nt);
        else printf("? BADCMD\n");
        fflush(stdout);
    }
    free(line);
    return 0;
}
