/* C11 correspondence harness: drives the REAL lib/compress/zstdmt_compress.c + lib/common/pool.c (both
 * included below so that the private structures are visible; the rest of libzstd is linked from the
 * library rebuilt with harness/sched/zv_pthread.h pre-included) through the public streaming API
 * (ZSTD_compressStream2 on a ZSTD_CCtx with nbWorkers >= 1) under the deterministic scheduler of
 * harness/sched, one forked child per case.  After EVERY scheduler step it prints which
 * synchronisation operation was executed on which named object and the protocol fields of the
 * ZSTDMT_CCtx; zv/props/c11.py turns the log into (config, calls, payload oracle, schedule of critical
 * sections), replays it through the extracted Coq model (coq/Conc/MtModel.v) and diffs.
 * Oracles evaluated here on the real code (the property itself): deadlock (no runnable thread),
 * every completed frame decodes with libzstd to exactly the bytes consumed (checksum verified by
 * the decoder, checksum flag present when requested), overlapping live input ranges, lock order.
 *
 * With -DC11_REAL_PTHREADS the same workloads run on real threads (no scheduler, no step log):
 * this is the ThreadSanitizer build (supporting test).
 *
 * stdin: one case per line
 *  CASE id=3 nbw=2 jobsize=1048576 level=1 strat=0 ovlog=0 rsync=0 ldm=0 cksum=1 wlog=0 dict=0 kind=1 iseed=5 isize=3000000
 *       policy=r seed=77 stay=50 fam=0 famarg=0 sched=1:0,0:0 prog=c100000:1000,f0:5000,E65536 dump=-
 *  prog ops: cI:O / fI:O / eI:O  one ZSTD_compressStream2 call (continue/flush/end) offering I more input bytes and O output bytes;
 *            EO / FO  repeat end / flush with all remaining input (E) or no new input (F) and O output bytes per call until it returns 0;
 *            CI:O  repeat continue until I more bytes are consumed;  GI:O  repeat end, offering I more bytes in all and O output bytes per call, until it returns 0;
 *            R  ZSTD_CCtx_reset(session_only) (abort when a frame is open);  Ln  set compressionLevel n (mid-frame allowed);
 *            Xn the n-th allocation made by a WORKER thread from now on fails;  Wn  set nbWorkers n (between frames)
 *            Pp:v  ZSTD_CCtx_setParameter(p, v) (numeric ZSTD_cParameter; between frames, or mid-frame for the parameters zstd lets change);
 *            Dn  dictionary for the next frame(s): 0 none, 1 refPrefix (one frame), 2 loadDictionary, 3 refCDict, 4 loadDictionary of other bytes;
 *            Z  ZSTD_sizeof_CCtx (takes the job and pool mutexes; bracketed like a progress query);
 *            Tn  ZSTD_CCtx_refThreadPool: n > 0 a pool of n threads shared by the harness (created once), 0 = back to a private pool
 *                (the multithreaded context is rebuilt: such runs are oracles only);  sI:O  one call of the older ZSTD_compressStream()
 */
#define _GNU_SOURCE
#ifndef C11_REAL_PTHREADS
#include "sched/zv_pthread.h"
#endif
#define ZSTD_STATIC_LINKING_ONLY
#include "common/pool.c"
#include "compress/zstdmt_compress.c"
#include "zstd.h"
#include "zstd_errors.h"

#include <stdio.h>
#include <stdlib.h>
#include <string.h>
#include <signal.h>
#include <unistd.h>
#include <sys/wait.h>

#ifdef C11_REAL_PTHREADS
#define ZV_MAXSTEPS_PARSE 16
#else
#define ZV_MAXSTEPS_PARSE ZV_MAXSTEPS
#endif
#define MAXOPS 256
#define MAXFRAMES 64
#define MAXT 24

typedef struct { char kind; long a, b; } op_t;
typedef struct {
    int id, nbw, level, strat, ovlog, rsync, ldm, cksum, wlog, dict, kind; long jobsize; unsigned long long iseed; long isize;
    int policy; unsigned long long seed; int stay, fam, famarg, probe;
    int sched_len; int* sched_t; int* sched_w;
    int nops; op_t ops[MAXOPS]; char dump[512];
} case_t;
static case_t C;

static ZSTD_CCtx* g_cctx;
static unsigned char *g_in, *g_out; static size_t g_incap, g_outcap, g_inpos, g_outpos;
typedef struct { size_t in_off, in_len, out_off, out_len; int cksum, dictmode; size_t dict_off; } frame_t;
static int g_cur_dictmode; static int g_sticky_dict; static size_t g_sticky_off, g_cur_dict_off; static ZSTD_CDict* g_cdict;
#define DICT_LEN() (C.isize > 40000 ? (size_t)40000 : (size_t)C.isize / 2)
static frame_t g_frames[MAXFRAMES]; static int g_nframes; static size_t g_fin_off, g_fout_off; static int g_frame_open;
static int g_bad;
static void oracle(const char* msg) { printf("O %s\n", msg); g_bad = 1; }
/* in-order flush (mt_flush_in_order): every copy into the application's output buffer is observed at the scheduler step in which it was
 * made: the bytes must be the next bytes of the dstBuff of the job at doneJobID; count / total / last event are compared with the
 * model's flush log after every critical section */
static ZSTD_outBuffer* g_cur_ob; static size_t g_prev_opos;
static unsigned long g_nflush; static unsigned long long g_flushed_total; static long g_last_fl[3] = { -1, 0, 0 };

/* ---------- fault-injecting allocator (worker threads only) ---------- */
static long g_fail_at = -1, g_wallocs = 0;
#ifndef C11_REAL_PTHREADS
static int cur_tid(void) { return zv_self(); }
#else
static __thread int tl_worker = 1; static int cur_tid(void) { return tl_worker; }
#endif
/* every block carries a header; freed blocks are poisoned and never handed out again (quarantine), so that a use after free reads
 * 0xDD.. (crash / garbage caught by the oracles) and a double free is seen here; the child process is short-lived */
typedef struct { size_t n; size_t magic; } c11_hdr;
#define C11_LIVE 0xA110CA7EUL
#define C11_DEAD 0xDEADF4EEUL
static void* c11_alloc(void* o, size_t n) {
    c11_hdr* h;
    (void)o;
    if (cur_tid() != 0 && __atomic_load_n(&g_fail_at, __ATOMIC_SEQ_CST) >= 0) {
        long const k = __atomic_fetch_add(&g_wallocs, 1, __ATOMIC_SEQ_CST);
        if (k == __atomic_load_n(&g_fail_at, __ATOMIC_SEQ_CST)) { __atomic_store_n(&g_fail_at, -1, __ATOMIC_SEQ_CST); printf("FAULT %d\n", cur_tid()); return NULL; }
    }
    h = (c11_hdr*)malloc(n + sizeof *h);
    if (!h) return NULL;
    h->n = n; h->magic = C11_LIVE;
    return h + 1;
}
static void c11_free(void* o, void* p) {
    c11_hdr* h;
    (void)o;
    if (!p) return;
    h = (c11_hdr*)p - 1;
    if (h->magic != C11_LIVE) { oracle("free of a block that is not live (double free)"); return; }
    h->magic = C11_DEAD;
#if defined(__SANITIZE_ADDRESS__)   /* zstd's workspace code poisons parts of its blocks in an AddressSanitizer build */
    {   extern void __asan_unpoison_memory_region(void const volatile*, size_t); __asan_unpoison_memory_region(p, h->n); }
#endif
    memset(p, 0xDD, h->n);
}

/* ---------- input generator ---------- */
static unsigned long long g_rs;
static unsigned long long rnd64(void) { unsigned long long z = (g_rs += 0x9e3779b97f4a7c15ULL); z = (z ^ (z >> 30)) * 0xbf58476d1ce4e5b9ULL; z = (z ^ (z >> 27)) * 0x94d049bb133111ebULL; return z ^ (z >> 31); }
static void gen_input(void) {
    size_t i, n = (size_t)C.isize; g_rs = C.iseed * 0x2545F4914F6CDD1DULL + 7;
    g_in = (unsigned char*)malloc(n + 64); g_incap = n;
    switch (C.kind) {
    case 0: memset(g_in, 'a', n); break;                                   /* constant */
    case 2: for (i = 0; i < n; i++) g_in[i] = (unsigned char)rnd64(); break; /* incompressible */
    case 3: {                                                                /* long-distance repeats (LDM food) */
        size_t blk = 70000; for (i = 0; i < n && i < blk; i++) g_in[i] = (unsigned char)rnd64();
        for (; i < n; i++) g_in[i] = (rnd64() % 997 == 0) ? (unsigned char)rnd64() : g_in[i - blk];
        break; }
    default: {                                                               /* text-like: words from a small dictionary */
        static const char* W[] = { "alpha ", "beta ", "gamma", "delta\n", "epsilon ", "zeta", "eta ", "theta ", "iota", "kappa " };
        i = 0; while (i < n) { const char* w = W[rnd64() % 10]; size_t l = strlen(w); if (rnd64() % 13 == 0) { g_in[i++] = (unsigned char)rnd64(); continue; } if (i + l > n) l = n - i; memcpy(g_in + i, w, l); i += l; }
        break; }
    }
}

/* ---------- names of the synchronisation objects ---------- */
/* zstd's debug threading layer (DEBUGLEVEL >= 1, common/threading.h) allocates every mutex and condition: the object handed to
 * pthread_* is *field, not &field */
#if defined(DEBUGLEVEL) && (DEBUGLEVEL >= 1)
#define OBJ(field) ((void*)(field))
#define MUX(field) (field)
#else
#define OBJ(field) ((void*)&(field))
#define MUX(field) (&(field))
#endif
static ZSTDMT_CCtx* MT(void) { return g_cctx ? g_cctx->mtctx : NULL; }
static int g_after_end;
static const char* name_of(const void* o, char* buf) {
    ZSTDMT_CCtx* m = MT(); unsigned k;
    if (o == NULL) return "-";
    if (g_after_end > 1) return "?";   /* the context is being torn down */
    if (m) {
        if (m->jobs) for (k = 0; k <= m->jobIDMask; k++) {
            if (o == OBJ(m->jobs[k].job_mutex)) { sprintf(buf, "J%u", k); return buf; }
            if (o == OBJ(m->jobs[k].job_cond)) { sprintf(buf, "j%u", k); return buf; }
        }
        if (o == OBJ(m->serial.mutex)) return "S";
        if (o == OBJ(m->serial.cond)) return "s";
        if (o == OBJ(m->serial.ldmWindowMutex)) return "L";
        if (o == OBJ(m->serial.ldmWindowCond)) return "l";
        if (m->bufPool && o == OBJ(m->bufPool->poolMutex)) return "B";
        if (m->cctxPool && o == OBJ(m->cctxPool->poolMutex)) return "C";
        if (m->seqPool && o == OBJ(m->seqPool->poolMutex)) return "Q";
        if (m->factory) {
            if (o == OBJ(m->factory->queueMutex)) return "P";
            if (o == OBJ(m->factory->queuePushCond)) return "u";
            if (o == OBJ(m->factory->queuePopCond)) return "p";
        }
    }
    return "?";
}

#ifndef C11_REAL_PTHREADS
/* ---------- canonical state ---------- */
static long off_of(const void* p) {
    ZSTDMT_CCtx* m = MT(); const BYTE* b = (const BYTE*)p;
    if (p == NULL) return -1;
    if (m && m->roundBuff.buffer && b >= m->roundBuff.buffer && b <= m->roundBuff.buffer + m->roundBuff.capacity) return (long)(b - m->roundBuff.buffer);
    return -2;
}
static int owner_of(pthread_mutex_t* mu) { return zv_mutex_owner(mu); }

static char prev_kind[MAXT]; static char prev_name[MAXT][8]; static int prev_known[MAXT];
static int cur_job[MAXT];   /* job id the pool thread is running, -1 when idle (tracked from the queue) */

static void stand(int t, char* kind, char* nm) {
    void* obj = NULL; zv_status s = zv_thread_status(t, &obj); char b[16];
    switch (s) {
    case ZS_RUN: *kind = zv_thread_op(t); break;       /* U W S B */
    case ZS_MUTEX: *kind = 'M'; break;
    case ZS_COND: *kind = 'Z'; break;
    case ZS_JOIN: *kind = 'K'; break;
    case ZS_DONE: *kind = 'D'; obj = NULL; break;
    default: *kind = '?'; obj = NULL;
    }
    strcpy(nm, name_of(obj, b));
}

static void print_win(ZSTD_window_t w) {
    const BYTE* e0 = w.dictBase ? w.dictBase + w.lowLimit : NULL; const BYTE* p0 = w.base ? w.base + w.dictLimit : NULL;
    long es = (long)w.dictLimit - (long)w.lowLimit, ps = (w.nextSrc && w.base) ? (long)(w.nextSrc - (w.base + w.dictLimit)) : 0;
    printf("%ld:%ld:%ld:%ld", es > 0 ? off_of(e0) : 0, es > 0 ? es : 0, ps > 0 ? off_of(p0) : 0, ps > 0 ? ps : 0);
}

static int g_after_end;   /* scheduler steps printed since the program ended (MARK end): the first one closes the caller's last section, the
                           * later ones belong to ZSTD_freeCCtx, which destroys the objects print_state() would look at */
static void print_state(void) {
    ZSTDMT_CCtx* m = MT(); int t, nt = zv_nthreads(); unsigned k;
    if (g_after_end > 2) { printf("nomt"); return; }
    if (!m || !m->jobs || !m->factory || !m->bufPool || !m->cctxPool || !m->seqPool) { printf("nomt"); return; }
    printf("mt %u %u %d %u %u %zu %zu %ld %zu %ld %zu %zu %zu %d %d %d",
           m->doneJobID, m->nextJobID, m->jobReady, m->frameEnded, m->allJobsCompleted, m->roundBuff.pos, m->roundBuff.capacity,
           off_of(m->inBuff.buffer.start), m->inBuff.filled, off_of(m->inBuff.prefix.start), m->inBuff.prefix.size,
           m->targetSectionSize, m->targetPrefixSize, m->params.fParams.checksumFlag,
           m->params.ldmParams.enableLdm == ZSTD_ps_enable, m->params.rsyncable);
    printf(" | ser %u ", m->serial.nextJobID); print_win(m->serial.ldmWindow); putchar(' '); print_win(m->serial.ldmState.window);
    {   POOL_ctx* f = m->factory; long qs = -1;
        if (!f->queueEmpty) { ZSTDMT_jobDescription* jd = (ZSTDMT_jobDescription*)f->queue[f->queueHead].opaque; qs = (long)(jd - m->jobs); }
        printf(" | pool %ld %zu %u %d %u %zu", qs, f->numThreadsBusy, m->bufPool->nbBuffers, m->cctxPool->availCCtx, m->seqPool->nbBuffers, m->seqPool->bufferSize != 0);
    }
    printf(" | jobs");
    for (k = 0; k <= m->jobIDMask; k++) {
        ZSTDMT_jobDescription* j = &m->jobs[k];
        printf(" %u:%ld:%zu:%ld:%zu:%zu:", j->jobID, off_of(j->src.start), j->src.size, off_of(j->prefix.start), j->prefix.size, j->consumed);
        if (ZSTD_isError(j->cSize)) printf("E"); else printf("%zu", j->cSize);
#ifdef C11_NO_JOBCOMPLETED   /* the sources have no jobCompleted flag (fix c655545 absent): the model's flag has no counterpart */
        printf(":%d:%u:%u:%u:%zu:%u", j->dstBuff.start != NULL, j->firstJob, j->lastJob, j->frameChecksumNeeded, j->dstFlushed, 0U);
#else
        printf(":%d:%u:%u:%u:%zu:%u", j->dstBuff.start != NULL, j->firstJob, j->lastJob, j->frameChecksumNeeded, j->dstFlushed, j->jobCompleted);
#endif
    }
    printf(" | own");
    for (k = 0; k <= m->jobIDMask; k++) printf(" %d", owner_of(MUX(m->jobs[k].job_mutex)));
    printf(" ; %d %d %d %d %d %d", owner_of(MUX(m->serial.mutex)), owner_of(MUX(m->serial.ldmWindowMutex)), owner_of(MUX(m->bufPool->poolMutex)),
           owner_of(MUX(m->cctxPool->poolMutex)), owner_of(MUX(m->seqPool->poolMutex)), owner_of(MUX(m->factory->queueMutex)));
    printf(" | th");
    for (t = 0; t < nt; t++) { char kd, nm[16]; stand(t, &kd, nm); printf(" %c%s", kd, nm); }
    printf(" | fl %lu %llu %ld:%ld:%ld", g_nflush, g_flushed_total, g_last_fl[0], g_last_fl[1], g_last_fl[2]);
}

/* called after every scheduler step, before the state is printed */
static void flush_oracle(int tid) {
    ZSTDMT_CCtx* m = MT();
    if (!g_cur_ob || !m || !m->jobs) return;
    if (g_cctx->appliedParams.nbWorkers == 0) { g_prev_opos = g_cur_ob->pos; return; }   /* the library chose single-threaded compression for this frame */
    if (g_cur_ob->pos < g_prev_opos) { g_prev_opos = g_cur_ob->pos; return; }
    if (g_cur_ob->pos > g_prev_opos) {
        size_t const n = g_cur_ob->pos - g_prev_opos;
        ZSTDMT_jobDescription* j = &m->jobs[m->doneJobID & m->jobIDMask];
        if (tid != 0) oracle("flush order: output was handed to the application by a thread other than the application thread");
        if (j->jobID != m->doneJobID || j->dstFlushed < n || j->dstBuff.start == NULL) oracle("flush order: output was copied although the job at doneJobID has not flushed that much");
        else {
            size_t const off = j->dstFlushed - n;
            if (memcmp((const char*)g_cur_ob->dst + g_prev_opos, (const char*)j->dstBuff.start + off, n) != 0)
                oracle("flush order: the bytes handed to the application are not the next bytes of the job at doneJobID");
            g_last_fl[0] = (long)j->jobID; g_last_fl[1] = (long)off; g_last_fl[2] = (long)n;
        }
        g_nflush++; g_flushed_total += n; g_prev_opos = g_cur_ob->pos;
    }
}

/* live input ranges: whenever the caller owns an input buffer, no unfinished posted job's src/prefix overlaps it (the property,
 * evaluated on the real fields; reads of consumed are exact because every other thread is stopped) */
static void range_oracle(void) {
    ZSTDMT_CCtx* m = MT(); unsigned id;
    if (!m || !m->jobs) return;
    /* a job created while an OLDER job is still unfinished must not have its source inside that job's source or prefix
     * (the caller wrote that source into the round buffer while the older job could read it) */
    {   unsigned const last = m->nextJobID + (m->jobReady ? 1 : 0); unsigned a, b;
        if (last - m->doneJobID <= m->jobIDMask + 1)
        for (a = m->doneJobID; a < m->nextJobID; a++) {
            ZSTDMT_jobDescription* ja = &m->jobs[a & m->jobIDMask];
            if (ja->jobID != a || ja->consumed >= ja->src.size) continue;
            for (b = a + 1; b < last; b++) {
                ZSTDMT_jobDescription* jb = &m->jobs[b & m->jobIDMask];
                const BYTE* s0 = (const BYTE*)jb->src.start; const BYTE* s1 = s0 + jb->src.size;
                const BYTE* a0 = (const BYTE*)ja->src.start; const BYTE* a1 = a0 + ja->src.size;
                const BYTE* p0 = (const BYTE*)ja->prefix.start; const BYTE* p1 = p0 + ja->prefix.size;
                if (jb->jobID != b || jb->src.size == 0) continue;
                if ((s0 < a1 && a0 < s1) || (ja->prefix.size && s0 < p1 && p0 < s1)) { oracle("a job's source was written over the source/prefix of an older unfinished job"); return; }
            }
        }
    }
    /* every posted or prepared job reads its source from inside the round buffer; a job that has not been through its serial section
     * yet does not lie inside the LDM window (the window only covers data of jobs already processed: otherwise window data was overwritten) */
    {   unsigned const last = m->nextJobID + (m->jobReady ? 1 : 0); unsigned a;
        int const ldm_ok = m->params.ldmParams.enableLdm == ZSTD_ps_enable && owner_of(MUX(m->serial.ldmWindowMutex)) < 0 && owner_of(MUX(m->serial.mutex)) < 0;
        if (m->roundBuff.buffer && last - m->doneJobID <= m->jobIDMask + 1)
        for (a = m->doneJobID; a < last; a++) {
            ZSTDMT_jobDescription* ja = &m->jobs[a & m->jobIDMask];
            const BYTE* a0 = (const BYTE*)ja->src.start; const BYTE* a1 = a0 + ja->src.size;
            if (ja->jobID != a || ja->src.size == 0 || a0 == NULL) continue;
            if (a0 < m->roundBuff.buffer || a1 > m->roundBuff.buffer + m->roundBuff.capacity) { oracle("the source of a job is not inside the round buffer"); return; }
            if (ldm_ok && a >= m->serial.nextJobID && owner_of(MUX(ja->job_mutex)) < 0) {
                buffer_t b; b.start = (void*)a0; b.capacity = ja->src.size;
                if (ZSTDMT_doesOverlapWindow(b, m->serial.ldmWindow)) { oracle("the source of a job that has not been through its serial section overlaps the LDM window"); return; }
            }
        }
    }
    if (m->inBuff.buffer.start == NULL) return;
    {   const BYTE* b0 = (const BYTE*)m->inBuff.buffer.start; const BYTE* b1 = b0 + m->targetSectionSize;
        if (m->roundBuff.buffer && (b0 < m->roundBuff.buffer || b1 > m->roundBuff.buffer + m->roundBuff.capacity)) { oracle("input range handed to the caller is not inside the round buffer"); return; }
        for (id = m->doneJobID; id < m->nextJobID; id++) {
            ZSTDMT_jobDescription* j = &m->jobs[id & m->jobIDMask];
            if (j->consumed < j->src.size) {
                const BYTE* s0 = (const BYTE*)j->src.start; const BYTE* s1 = s0 + j->src.size;
                const BYTE* p0 = (const BYTE*)j->prefix.start; const BYTE* p1 = p0 + j->prefix.size;
                if ((s0 < b1 && b0 < s1) || (j->prefix.size && p0 < b1 && b0 < p1)) { oracle("input range handed to the caller overlaps the source/prefix of an unfinished job"); return; }
            }
        }
        if (m->params.ldmParams.enableLdm == ZSTD_ps_enable && owner_of(MUX(m->serial.ldmWindowMutex)) < 0 && owner_of(MUX(m->serial.mutex)) < 0) {
            buffer_t b; b.start = (void*)b0; b.capacity = m->targetSectionSize;
            /* the window only ever advances over posted jobs, never into the buffer the caller is filling */
            if (ZSTDMT_doesOverlapWindow(b, m->serial.ldmWindow)) { oracle("input range handed to the caller overlaps the LDM window"); }
        }
    }
}

static int held[MAXT][4], nheld[MAXT];   /* lock-order check: S before L, every other mutex is a leaf */
static void lock_order(int tid, char kind, const char* nm) {
    if (tid < 0 || tid >= MAXT) return;
    if (kind == 'M') {
        if (nheld[tid] > 0 && !(nheld[tid] == 1 && held[tid][0] == 'S' && nm[0] == 'L')) oracle("lock order: nested acquisition other than serial.mutex -> ldmWindowMutex");
        if (nheld[tid] < 4) held[tid][nheld[tid]++] = nm[0];
    } else if (kind == 'U' || kind == 'W') { if (nheld[tid] > 0) nheld[tid]--; }
}

static int g_queue_before = -1;
static void on_step(int step, int tid, int w) {
    int t, nt = zv_nthreads(); ZSTDMT_CCtx* m = g_after_end > 1 ? NULL : MT();   /* (nothing of the context is read during its teardown) */
    if (step < 0) printf("I ");
    else {
        char kd = prev_known[tid] ? prev_kind[tid] : '?'; const char* nm = prev_known[tid] ? prev_name[tid] : "?";
        printf("S %d %d %c%s ", tid, w, kd, nm);
        lock_order(tid, kd, nm);
        /* which job did a pool thread pick up (tracked from the queue): used by the "overtake" schedule family */
        if (m && m->factory && m->jobs && tid > 0 && tid < MAXT && kd == 'M' && nm[0] == 'P') {
            if (g_queue_before >= 0 && m->factory->queueEmpty) cur_job[tid] = (int)m->jobs[g_queue_before].jobID; else cur_job[tid] = -1;
        }
    }
    flush_oracle(tid);
    if (g_after_end) g_after_end++;
    print_state(); putchar('\n');
    if (g_after_end <= 2) range_oracle();
    for (t = 0; t < nt && t < MAXT; t++) { stand(t, &prev_kind[t], prev_name[t]); prev_known[t] = 1; }
    if (m && m->factory && m->jobs) { POOL_ctx* f = m->factory; g_queue_before = f->queueEmpty ? -1 : (int)((ZSTDMT_jobDescription*)f->queue[f->queueHead].opaque - m->jobs); }
}

static void finish(const char* how);
static void on_stuck(void) { oracle("deadlock: no thread can run although the application has not finished"); finish("STUCK"); fflush(stdout); _exit(0); }

/* ---------- adversarial schedule families (zv_params.choose) ---------- */
static int prio[MAXT]; static int g_low = -1; static int chg[64], nchg;
static int choose_fam(int step, int me, const int* en, int n);
static int g_run_len, g_run_tid = -1;
/* every family is made weakly fair: a thread that was chosen 48 times in a row yields once to another enabled thread
 * (zstdmt's caller legitimately spins on POOL_tryAdd / flush while a pool thread has not yet reported itself idle) */
static int choose(int step, int me, const int* en, int n) {
    int c = choose_fam(step, me, en, n);
    if (c < 0) return c;
    if (c == g_run_tid) { if (++g_run_len > 48 && n > 1) { int k; for (k = 0; k < n; k++) { int o = en[(step + k) % n]; if (o != c) { c = o; break; } } g_run_len = 0; g_run_tid = c; } }
    else { g_run_tid = c; g_run_len = 0; }
    return c;
}
static int choose_fam(int step, int me, const int* en, int n) {
    int i, best = -1;
    if (C.fam == 0) return -1;
    if (C.fam == 1) {   /* PCT: random priorities, the running thread drops to the lowest priority at d random change points */
        for (i = 0; i < nchg; i++) if (chg[i] == step && me >= 0 && me < MAXT) prio[me] = g_low--;
        for (i = 0; i < n; i++) if (en[i] < MAXT && (best < 0 || prio[en[i]] > prio[best])) best = en[i];
        return best;
    }
    if (C.fam == 2) {   /* the caller runs until it must block; then the lowest (famarg=0) / highest (famarg=1) worker */
        for (i = 0; i < n; i++) if (en[i] == 0) return 0;
        return C.famarg ? en[n - 1] : en[0];
    }
    if (C.fam == 3) {   /* overtake: the caller first, then the pool thread running the LATEST job (idle threads before busy ones) */
        int bj = -2;
        for (i = 0; i < n; i++) if (en[i] == 0) return 0;
        for (i = 0; i < n; i++) { int j = en[i] < MAXT ? cur_job[en[i]] : -1; int key = j < 0 ? 1000000 : j; if (key > bj) { bj = key; best = en[i]; } }
        return best;
    }
    if (C.fam == 4) {   /* starve pool thread famarg (default: the last one): it runs only when nothing else can */
        int victim = C.famarg > 0 ? C.famarg : C.nbw; int k;
        /* rotate among the others to stay fair between them */
        for (k = 1; k <= n; k++) { int c = en[(step + k) % n]; if (c != victim) return c; }
        return victim;
    }
    if (C.fam == 6) {   /* no preemption: the running thread continues while it can, else the lowest enabled thread */
        for (i = 0; i < n; i++) if (en[i] == me) return me;
        return en[0];
    }
    if (C.fam == 7) {   /* starve the pool thread that runs job number famarg (once it has picked it up), rotate among the others */
        int k;
        for (k = 1; k <= n; k++) { int c = en[(step + k) % n]; if (!(c > 0 && c < MAXT && cur_job[c] == C.famarg)) return c; }
        return en[0];
    }
    if (C.fam == 5) {   /* workers first (lowest job first), the caller only when no pool thread can run */
        for (i = 0; i < n; i++) if (en[i] != 0) return en[i];
        return 0;
    }
    return -1;
}
#endif /* !C11_REAL_PTHREADS */

/* ---------- running the program ---------- */
static void finish(const char* how) {
    printf("E %s frames=%d", how, g_nframes);
#ifndef C11_REAL_PTHREADS
    printf(" steps=%d mismatch=%d", zv_trace_len(), zv_schedule_mismatch());
#endif
    printf("\n");
}
static void on_crash(int sig) { printf("O crash: signal %d\n", sig); finish("CRASH"); fflush(stdout); _exit(0); }

static int g_need_init = 1; static size_t g_end_limit = (size_t)-1;
static void print_initp(void) {
    ZSTDMT_CCtx* m = MT(); size_t i, n; const BYTE* base = g_in + g_fin_off;
    if (!m) return;
    printf("INITP target=%zu prefix=%zu cksum=%d ldm=%d rsync=%d wsize=%u nbw=%u hits=", m->targetSectionSize, m->targetPrefixSize,
           g_cctx->appliedParams.fParams.checksumFlag, m->params.ldmParams.enableLdm == ZSTD_ps_enable, m->params.rsyncable,
           m->params.ldmParams.enableLdm == ZSTD_ps_enable ? (1U << m->params.cParams.windowLog) : 0, m->params.nbWorkers);
    n = g_incap - g_fin_off;
    if (m->params.rsyncable && n >= RSYNC_LENGTH) {
        U64 h = ZSTD_rollingHash_compute(base, RSYNC_LENGTH); int first = 1;
        for (i = RSYNC_LENGTH; ; i++) {
            if ((h & m->rsync.hitMask) == m->rsync.hitMask) { printf(first ? "%zu" : ".%zu", i); first = 0; }
            if (i >= n) break;
            h = ZSTD_rollingHash_rotate(h, base[i - RSYNC_LENGTH], base[i], m->rsync.primePower);
        }
        if (first) printf("-");
    } else printf("-");
    printf("\n");
}

/* progress accounting (ZSTD_getFrameProgression / ZSTD_toFlushNow -> ZSTDMT_getFrameProgression / ZSTDMT_toFlushNow) between two calls
 * of an open frame: ingested and flushed are exactly what the application handed in / received; the other counters are bounded by them.
 * The calls take the job mutexes: their scheduler steps are bracketed by PROBE lines and are not steps of the model. */
static void probe_progress(void) {
    size_t tf; ZSTD_frameProgression fp; char b[256];
    printf("PROBE begin\n");
    tf = ZSTD_toFlushNow(g_cctx);
    fp = ZSTD_getFrameProgression(g_cctx);
    printf("PROBE end\n");
    if (fp.ingested != (unsigned long long)(g_inpos - g_fin_off)) { snprintf(b, sizeof b, "frame progression: ingested %llu but the application handed in %zu bytes", fp.ingested, g_inpos - g_fin_off); oracle(b); }
    if (fp.flushed != (unsigned long long)(g_outpos - g_fout_off)) { snprintf(b, sizeof b, "frame progression: flushed %llu but the application received %zu bytes", fp.flushed, g_outpos - g_fout_off); oracle(b); }
    if (fp.consumed > fp.ingested) oracle("frame progression: consumed > ingested");
    if (fp.flushed > fp.produced) oracle("frame progression: flushed > produced");
    if (tf > fp.produced - fp.flushed) { snprintf(b, sizeof b, "ZSTD_toFlushNow %zu exceeds produced - flushed = %llu", tf, fp.produced - fp.flushed); oracle(b); }
}

static ZSTD_threadPool* g_pool; static int g_legacy_call; static int g_fault_ops;
static size_t one_call(ZSTD_EndDirective e, size_t in_more, size_t out_more) {
    ZSTD_inBuffer ib; ZSTD_outBuffer ob; size_t r; int init_now;
    if (in_more > g_incap - g_inpos) in_more = g_incap - g_inpos;
    if (out_more > g_outcap - g_outpos) out_more = g_outcap - g_outpos;
    /* API contract: once ZSTD_e_end has been issued for a frame (its first use may also pledge the source size), the application
     * offers no input beyond what that call offered */
    if (g_frame_open && g_cctx->streamStage != zcss_init && g_end_limit != (size_t)-1 && g_inpos + in_more > g_end_limit) in_more = g_end_limit > g_inpos ? g_end_limit - g_inpos : 0;
    if (g_cctx->streamStage == zcss_init) g_end_limit = (size_t)-1;
    if (e == ZSTD_e_end && g_end_limit == (size_t)-1) g_end_limit = g_inpos + in_more;
    ib.src = g_in; ib.pos = g_inpos; ib.size = g_inpos + in_more;
    ob.dst = g_out; ob.pos = g_outpos; ob.size = g_outpos + out_more;
    init_now = (g_cctx->streamStage == zcss_init);
    if (init_now) { g_cur_dictmode = g_cctx->prefixDict.dict ? 1 : (g_sticky_dict ? 2 : 0); g_cur_dict_off = g_cctx->prefixDict.dict ? 0 : g_sticky_off; }
    if (init_now) { if (g_frame_open) { g_outpos = g_fout_off; ob.pos = g_outpos; ob.size = g_outpos + out_more; } g_fin_off = g_inpos - g_cctx->stableIn_notConsumed /* stable input accepted by earlier calls belongs to this frame */; g_fout_off = g_outpos; g_frame_open = 1; printf("OP init\n"); }
    printf("OP cs %d %zu %zu\n", (int)e, in_more, out_more);
    g_prev_opos = ob.pos; g_cur_ob = &ob;
    r = g_legacy_call ? ZSTD_compressStream(g_cctx, &ob, &ib) : ZSTD_compressStream2(g_cctx, &ob, &ib, e);
#ifndef C11_REAL_PTHREADS
    flush_oracle(0);      /* a copy made after the last synchronisation operation of the call */
#endif
    g_cur_ob = NULL;
    if (init_now) { if (g_cctx->appliedParams.nbWorkers > 0) print_initp(); else printf("INITST\n"); }
    g_inpos = ib.pos; g_outpos = ob.pos;
    if (ZSTD_isError(r)) printf("RET E %s\n", ZSTD_getErrorName(r)); else printf("RET %zu\n", r);
    /* without an injected allocation failure a call fails only for a reason the program itself gives (a call after the frame has
     * ended, a stable buffer that moved): anything else is a compression job that failed on its own */
    if (ZSTD_isError(r) && !g_fault_ops) {
        ZSTD_ErrorCode const ec = ZSTD_getErrorCode(r);
        if (ec != ZSTD_error_stage_wrong && ec != ZSTD_error_srcSize_wrong && ec != ZSTD_error_stabilityCondition_notRespected) {
            char b[200]; snprintf(b, sizeof b, "ZSTD_compressStream2 failed although no allocation failure was injected: %s", ZSTD_getErrorName(r)); oracle(b); }
    }
    if (C.probe && !ZSTD_isError(r) && g_frame_open && !(e == ZSTD_e_end && r == 0) && g_cctx->appliedParams.nbWorkers > 0 && g_cctx->streamStage != zcss_init) probe_progress();
    if (ZSTD_isError(r)) { g_frame_open = 0; g_outpos = g_fout_off; }
    else if (e == ZSTD_e_end && r == 0) {
        if (g_nframes < MAXFRAMES) { frame_t* f = &g_frames[g_nframes++]; f->in_off = g_fin_off; f->in_len = g_inpos - g_fin_off; f->out_off = g_fout_off; f->out_len = g_outpos - g_fout_off; f->cksum = C.cksum; f->dictmode = g_cur_dictmode; f->dict_off = g_cur_dict_off; }
        g_frame_open = 0;
    }
    return r;
}

static void run_prog(void) {
    int i;
    for (i = 0; i < C.nops; i++) {
        op_t* o = &C.ops[i]; size_t r; int guard;
        switch (o->kind) {
        case 'c': one_call(ZSTD_e_continue, (size_t)o->a, (size_t)o->b); break;
        case 's': g_legacy_call = 1; one_call(ZSTD_e_continue, (size_t)o->a, (size_t)o->b); g_legacy_call = 0; break;
        case 'N': printf("OP pool0 %ld\n", o->a); break;   /* done before the multithreaded context was created */
        case 'T': { size_t e; printf("OP pool %ld\n", o->a);
                    if (o->a > 0 && !g_pool) g_pool = ZSTD_createThreadPool((size_t)o->a);
                    e = ZSTD_CCtx_refThreadPool(g_cctx, o->a > 0 ? g_pool : NULL);
                    if (ZSTD_isError(e) && g_cctx->streamStage == zcss_init) oracle("ZSTD_CCtx_refThreadPool refused between frames");
                    /* a pool that no context references any more may be freed (the documented life cycle) */
                    if (o->a == 0 && !ZSTD_isError(e) && g_pool) { ZSTD_freeThreadPool(g_pool); g_pool = NULL; }
                    break; }
        case 'f': one_call(ZSTD_e_flush, (size_t)o->a, (size_t)o->b); break;
        case 'e': one_call(ZSTD_e_end, (size_t)o->a, (size_t)o->b); break;
        case 'C': { size_t const goal = g_inpos + (size_t)o->a > g_incap ? g_incap : g_inpos + (size_t)o->a; guard = 0;
                    while (g_inpos < goal && ++guard < 20000) { r = one_call(ZSTD_e_continue, goal - g_inpos, (size_t)o->b); if (ZSTD_isError(r)) break; } break; }
        case 'E': guard = 0; do { r = one_call(ZSTD_e_end, g_incap - g_inpos, (size_t)o->a); } while (!ZSTD_isError(r) && r != 0 && ++guard < 100000); break;
        case 'G': { size_t const goal = g_inpos + (size_t)o->a > g_incap ? g_incap : g_inpos + (size_t)o->a; guard = 0;   /* end the frame after I more bytes */
                    do { r = one_call(ZSTD_e_end, goal - g_inpos, (size_t)o->b); } while (!ZSTD_isError(r) && r != 0 && ++guard < 100000); break; }
        case 'F': guard = 0; do { r = one_call(ZSTD_e_flush, 0, (size_t)o->a); } while (!ZSTD_isError(r) && r != 0 && ++guard < 100000); break;
        case 'R': printf("OP reset\n"); ZSTD_CCtx_reset(g_cctx, ZSTD_reset_session_only); if (g_frame_open) { g_frame_open = 0; g_outpos = g_fout_off; } break;
        case 'L': printf("OP level %ld\n", o->a); { size_t const e = ZSTD_CCtx_setParameter(g_cctx, ZSTD_c_compressionLevel, (int)o->a); if (ZSTD_isError(e)) oracle("setParameter(compressionLevel) refused mid-frame"); } break;
        case 'X': g_fault_ops++; printf("OP fault %ld\n", o->a); __atomic_store_n(&g_wallocs, 0, __ATOMIC_SEQ_CST); __atomic_store_n(&g_fail_at, o->a, __ATOMIC_SEQ_CST); break;
        case 'W': printf("OP workers %ld\n", o->a); ZSTD_CCtx_setParameter(g_cctx, ZSTD_c_nbWorkers, (int)o->a); break;
        case 'P': { size_t const e = ZSTD_CCtx_setParameter(g_cctx, (ZSTD_cParameter)o->a, (int)o->b);
                    printf("OP param %ld %ld %s\n", o->a, o->b, ZSTD_isError(e) ? ZSTD_getErrorName(e) : "ok");
                    if (!ZSTD_isError(e) && o->a == (long)ZSTD_c_checksumFlag) C.cksum = (int)o->b;
                    break; }
        case 'D': { size_t e = 0; printf("OP dict %ld\n", o->a);
                    if (g_cctx->streamStage != zcss_init) break;   /* only between frames */
                    switch (o->a) {
                    case 0: e = ZSTD_CCtx_loadDictionary(g_cctx, NULL, 0); g_sticky_dict = 0; g_sticky_off = 0; break;
                    case 1: e = ZSTD_CCtx_refPrefix(g_cctx, g_in, DICT_LEN()); break;
                    case 2: e = ZSTD_CCtx_loadDictionary(g_cctx, g_in, DICT_LEN()); g_sticky_dict = 1; g_sticky_off = 0; break;
                    case 3: if (!g_cdict) g_cdict = ZSTD_createCDict(g_in, DICT_LEN(), 3);
                            e = ZSTD_CCtx_refCDict(g_cctx, g_cdict); g_sticky_dict = 1; g_sticky_off = 0; break;
                    default: { size_t const off = (size_t)C.isize > 2 * DICT_LEN() + 4096 ? 4096 : 0;
                            e = ZSTD_CCtx_loadDictionary(g_cctx, g_in + off, DICT_LEN()); g_sticky_dict = 1; g_sticky_off = off; break; }
                    }
                    if (ZSTD_isError(e)) oracle("a dictionary call between frames failed");
                    break; }
        case 'Z': printf("PROBE begin\n"); { size_t const sz = ZSTD_sizeof_CCtx(g_cctx); printf("PROBE end\n"); printf("SIZEOF %zu\n", sz); } break;
        default: break;
        }
    }
}

static void verify_frames(void) {
    int i; unsigned char* back;
    for (i = 0; i < g_nframes; i++) {
        frame_t* f = &g_frames[i]; size_t r; ZSTD_frameHeader fh;
        back = (unsigned char*)malloc(f->in_len + 1);
        if (ZSTD_getFrameHeader(&fh, g_out + f->out_off, f->out_len) != 0) { oracle("frame header of a completed frame does not parse"); free(back); continue; }
        if (f->cksum && !fh.checksumFlag) oracle("checksum requested but the frame has no checksum flag");
        {   ZSTD_DCtx* d = ZSTD_createDCtx(); size_t const dl = C.isize > 40000 ? 40000 : (size_t)C.isize / 2;
            r = f->dictmode ? ZSTD_decompress_usingDict(d, back, f->in_len + 1, g_out + f->out_off, f->out_len, g_in + f->dict_off, dl) : ZSTD_decompressDCtx(d, back, f->in_len + 1, g_out + f->out_off, f->out_len);
            ZSTD_freeDCtx(d); }
        if (ZSTD_isError(r)) { char b[200]; snprintf(b, sizeof b, "completed frame %d does not decode: %s", i, ZSTD_getErrorName(r)); oracle(b); }
        else if (r != f->in_len || memcmp(back, g_in + f->in_off, r) != 0) { char b[200]; snprintf(b, sizeof b, "completed frame %d decodes to different bytes (%zu vs %zu)", i, r, f->in_len); oracle(b); }
        else if (ZSTD_findFrameCompressedSize(g_out + f->out_off, f->out_len) != f->out_len) oracle("completed frame is followed by stray bytes");
        printf("FRAME %d in=%zu:%zu out=%zu:%zu cksum=%d\n", i, f->in_off, f->in_len, f->out_off, f->out_len, fh.checksumFlag);
        free(back);
    }
    if (C.dump[0] && strcmp(C.dump, "-") != 0) {
        FILE* fo = fopen(C.dump, "wb");
        if (fo) { for (i = 0; i < g_nframes; i++) { frame_t* f = &g_frames[i]; unsigned long long h[2]; h[0] = f->out_len; h[1] = f->in_len; fwrite(h, 8, 2, fo); fwrite(g_out + f->out_off, 1, f->out_len, fo); fwrite(g_in + f->in_off, 1, f->in_len, fo); } fclose(fo); }
    }
}

static void run_case(void) {
    ZSTD_customMem cm; int t;
    cm.customAlloc = c11_alloc; cm.customFree = c11_free; cm.opaque = NULL;
    signal(SIGSEGV, on_crash); signal(SIGABRT, on_crash); signal(SIGBUS, on_crash); signal(SIGFPE, on_crash);
    gen_input();
    g_outcap = ZSTD_compressBound(g_incap) * 2 + (size_t)MAXFRAMES * 64 + 4096; g_out = (unsigned char*)malloc(g_outcap);
#ifndef C11_REAL_PTHREADS
    {   static zv_params P; int i;
        memset(&P, 0, sizeof P);
        P.sched_len = C.sched_len; for (i = 0; i < C.sched_len; i++) { P.sched_t[i] = C.sched_t[i]; P.sched_w[i] = C.sched_w[i]; }
        P.policy = C.policy == 'n' ? ZV_POLICY_NOPREEMPT : ZV_POLICY_RANDOM; P.seed = C.seed; P.stay_pct = C.stay; P.first_worker_tid = 1;
        P.on_step = on_step; P.on_stuck = on_stuck; P.choose = choose;
        for (t = 0; t < MAXT; t++) cur_job[t] = -1;
        if (C.fam == 1) { unsigned long long s = C.seed * 77 + 5; int k; g_rs = s; for (t = 0; t < MAXT; t++) prio[t] = 1000 + (int)(rnd64() % 1000); nchg = C.famarg > 63 ? 63 : C.famarg; for (k = 0; k < nchg; k++) chg[k] = (int)(rnd64() % 1500); }
        zv_sched_begin(&P);
    }
#else
    tl_worker = 0;
#endif
    g_cctx = ZSTD_createCCtx_advanced(cm);
    ZSTD_CCtx_setParameter(g_cctx, ZSTD_c_nbWorkers, C.nbw);
    ZSTD_CCtx_setParameter(g_cctx, ZSTD_c_compressionLevel, C.level);
    if (C.strat) ZSTD_CCtx_setParameter(g_cctx, ZSTD_c_strategy, C.strat);
    ZSTD_CCtx_setParameter(g_cctx, ZSTD_c_jobSize, (int)C.jobsize);
    ZSTD_CCtx_setParameter(g_cctx, ZSTD_c_overlapLog, C.ovlog);
    ZSTD_CCtx_setParameter(g_cctx, ZSTD_c_rsyncable, C.rsync);
    ZSTD_CCtx_setParameter(g_cctx, ZSTD_c_enableLongDistanceMatching, C.ldm ? 1 : 0);
    ZSTD_CCtx_setParameter(g_cctx, ZSTD_c_checksumFlag, C.cksum);
    if (C.wlog) ZSTD_CCtx_setParameter(g_cctx, ZSTD_c_windowLog, C.wlog);
    if (C.dict == 1) ZSTD_CCtx_refPrefix(g_cctx, g_in, C.isize > 40000 ? 40000 : (size_t)C.isize / 2);
    if (C.dict == 2) { ZSTD_CCtx_loadDictionary(g_cctx, g_in, C.isize > 40000 ? 40000 : (size_t)C.isize / 2); g_sticky_dict = 1; }
    /* a program that starts with Tn references the shared pool BEFORE the multithreaded context exists: the context is built around it */
    if (C.nops > 0 && C.ops[0].kind == 'T' && C.ops[0].a > 0) {
        g_pool = ZSTD_createThreadPool((size_t)C.ops[0].a); ZSTD_CCtx_refThreadPool(g_cctx, g_pool); C.ops[0].kind = 'N';
    }
    /* what ZSTD_CCtx_init_compressStream2 does on first use; done here so that the compared region starts at the first call */
    g_cctx->mtctx = ZSTDMT_createCCtx_advanced((U32)C.nbw, g_cctx->customMem, g_cctx->pool);
    if (g_cctx->mtctx == NULL) { printf("E NOMT\n"); fflush(stdout); _exit(0); }
    printf("CFG nbw=%d rlog=%u chunk=%u minblk=%u bufs=%u\n", C.nbw, ZSTD_highbit32(g_cctx->mtctx->jobIDMask + 1), (unsigned)(4 * ZSTD_BLOCKSIZE_MAX), (unsigned)RSYNC_MIN_BLOCK_SIZE,
           g_cctx->mtctx->bufPool->totalBuffers);
    printf("MARK begin\n");
    run_prog();
    printf("MARK end\n");
#ifndef C11_REAL_PTHREADS
    g_after_end = 1;
#endif
    ZSTD_freeCCtx(g_cctx); g_cctx = NULL;
    if (g_pool) { ZSTD_freeThreadPool(g_pool); g_pool = NULL; }
#ifndef C11_REAL_PTHREADS
    zv_sched_end();
#endif
    verify_frames();
    finish("END");
}

/* ---------- case parsing, one child per case ---------- */
static int parse_case(char* line) {
    char* tok; static int st[ZV_MAXSTEPS_PARSE], sw[ZV_MAXSTEPS_PARSE];
    memset(&C, 0, sizeof C); C.nbw = 1; C.level = 1; C.jobsize = 0; C.stay = 50; C.policy = 'r'; C.kind = 1; C.isize = 1000; strcpy(C.dump, "-");
    C.sched_t = st; C.sched_w = sw;
    if (strncmp(line, "CASE", 4)) return -1;
    for (tok = strtok(line + 4, " \n"); tok; tok = strtok(NULL, " \n")) {
        char* eq = strchr(tok, '='); char* v; if (!eq) continue; *eq = 0; v = eq + 1;
        if (!strcmp(tok, "id")) C.id = atoi(v); else if (!strcmp(tok, "nbw")) C.nbw = atoi(v); else if (!strcmp(tok, "jobsize")) C.jobsize = atol(v);
        else if (!strcmp(tok, "level")) C.level = atoi(v); else if (!strcmp(tok, "strat")) C.strat = atoi(v); else if (!strcmp(tok, "ovlog")) C.ovlog = atoi(v);
        else if (!strcmp(tok, "rsync")) C.rsync = atoi(v); else if (!strcmp(tok, "ldm")) C.ldm = atoi(v); else if (!strcmp(tok, "cksum")) C.cksum = atoi(v);
        else if (!strcmp(tok, "wlog")) C.wlog = atoi(v); else if (!strcmp(tok, "dict")) C.dict = atoi(v); else if (!strcmp(tok, "kind")) C.kind = atoi(v);
        else if (!strcmp(tok, "iseed")) C.iseed = strtoull(v, NULL, 10); else if (!strcmp(tok, "isize")) C.isize = atol(v);
        else if (!strcmp(tok, "policy")) C.policy = v[0]; else if (!strcmp(tok, "seed")) C.seed = strtoull(v, NULL, 10); else if (!strcmp(tok, "stay")) C.stay = atoi(v);
        else if (!strcmp(tok, "fam")) C.fam = atoi(v); else if (!strcmp(tok, "famarg")) C.famarg = atoi(v); else if (!strcmp(tok, "probe")) C.probe = atoi(v);
        else if (!strcmp(tok, "dump")) { strncpy(C.dump, v, sizeof C.dump - 1); }
        else if (!strcmp(tok, "sched")) {
            char* p = v; if (strcmp(v, "-")) while (*p) { int a = (int)strtol(p, &p, 10), b = 0; if (*p == ':') b = (int)strtol(p + 1, &p, 10); if (C.sched_len < ZV_MAXSTEPS_PARSE) { st[C.sched_len] = a; sw[C.sched_len] = b; C.sched_len++; } if (*p == ',') p++; else break; }
        } else if (!strcmp(tok, "prog")) {
            char* p = v; while (*p && C.nops < MAXOPS) { op_t* o = &C.ops[C.nops++]; o->kind = *p++; o->a = strtol(p, &p, 10); o->b = 0; if (*p == ':') o->b = strtol(p + 1, &p, 10); if (*p == ',') p++; else break; }
        }
    }
    return 0;
}

int main(void) {
    static char line[1 << 20];
    while (fgets(line, sizeof line, stdin)) {
        pid_t pid; int status;
        if (strncmp(line, "CASE", 4)) continue;
        {   char* copy = strdup(line); size_t l = strlen(copy); if (l && copy[l - 1] == '\n') copy[l - 1] = 0; printf("%s\n", copy); free(copy); }
        fflush(stdout);
        if (parse_case(line)) { printf("E BADCASE\n"); continue; }
        pid = fork();
        if (pid == 0) { alarm(120); run_case(); fflush(stdout); _exit(0); }
        waitpid(pid, &status, 0);
        if (WIFSIGNALED(status)) printf("\nO child killed by signal %d\nE KILLED\n", WTERMSIG(status));
        else if (WEXITSTATUS(status) == 4) printf("\nE STEPLIMIT\n");
        else if (WEXITSTATUS(status) != 0) printf("O child exit code %d\nE EXIT\n", WEXITSTATUS(status));
        fflush(stdout);
    }
    return 0;
}
