/* libFuzzer target of the bounded fuzzing phase of ./check C03 --tier thorough (round 3; from the round-2 campaign): legacy frames v0.1 - v0.7
 * (library built with ZSTD_LEGACY_SUPPORT=1) through the inspectors, the one-shot decoder, usingDict with short dictionaries, streaming with a
 * seeded segmentation and loadDictionary.  First byte: version (mod 7) and capacity; second byte: options. */
#define ZSTD_STATIC_LINKING_ONLY
#include "zstd.h"
#include "zstd_errors.h"
#include <stdlib.h>
#include <string.h>
#include <stdint.h>
#include <stdio.h>
#if defined(__has_feature)
#  if __has_feature(memory_sanitizer)
#    include <sanitizer/msan_interface.h>
#    define CHECK_INIT(p, n) __msan_check_mem_is_initialized((p), (n))
#  endif
#endif
#ifndef CHECK_INIT
#  define CHECK_INIT(p, n) ((void)0)
#endif

static const unsigned MAGICS[7] = { 0x1EB52FFDU, 0xFD2FB522U, 0xFD2FB523U, 0xFD2FB524U, 0xFD2FB525U, 0xFD2FB526U, 0xFD2FB527U };
int LLVMFuzzerTestOneInput(const uint8_t* data, size_t size) {
    if (size < 2) return 0;
    unsigned sel = data[0], sel2 = data[1]; data += 2; size -= 2;
    size_t fn = size + 4;
    unsigned char* f = (unsigned char*)malloc(fn);
    unsigned m = MAGICS[sel % 7]; memcpy(f, &m, 4); memcpy(f + 4, data, size);
    static const size_t caps[8] = { 0, 1, 7, 100, 1000, 4096, 70000, 300000 };
    size_t cap = caps[(sel / 7) % 8];
    unsigned char* out = cap ? (unsigned char*)malloc(cap) : NULL;
    /* inspectors */
    { volatile unsigned long long a = ZSTD_getFrameContentSize(f, fn); (void)a;
      volatile unsigned long long b = ZSTD_decompressBound(f, fn); (void)b;
      size_t cs = ZSTD_findFrameCompressedSize(f, fn); if (!ZSTD_isError(cs) && cs > fn) abort();
      volatile unsigned long long ds = ZSTD_findDecompressedSize(f, fn); (void)ds;
      volatile size_t mg = ZSTD_decompressionMargin(f, fn); (void)mg;
      ZSTD_frameHeader h; volatile size_t hr = ZSTD_getFrameHeader(&h, f, fn); (void)hr;
      volatile unsigned did = ZSTD_getDictID_fromFrame(f, fn); (void)did; }
    /* one-shot */
    { size_t r = ZSTD_decompress(out, cap, f, fn); if (!ZSTD_isError(r) && r > cap) abort(); if (!ZSTD_isError(r)) { CHECK_INIT(out, r); { unsigned long long bd = ZSTD_decompressBound(f, fn); if (bd == ZSTD_CONTENTSIZE_ERROR || bd < r) { fprintf(stderr, "BOUND %llu < decoded %zu\n", bd, r); abort(); } } } }
    /* with dict */
    if (sel2 & 1) { ZSTD_DCtx* dc = ZSTD_createDCtx(); size_t dn = (sel2 >> 1) % 64; if (dn > size) dn = size;
      size_t r = ZSTD_decompress_usingDict(dc, out, cap, f, fn, data + size - dn, dn); if (!ZSTD_isError(r) && r > cap) abort(); ZSTD_freeDCtx(dc); }
    /* streaming */
    { ZSTD_DCtx* dc = ZSTD_createDCtx(); size_t ipos = 0, opos = 0; unsigned guard = 0; unsigned rs = sel2 * 2654435761u + 12345;
      if (sel2 & 4) { size_t dn = (sel2 >> 3) % 32 + ((sel2 & 0x80) ? 200 : 0); if (dn > size) dn = size; unsigned char* dd = (unsigned char*)malloc(dn ? dn : 1); memcpy(dd, data + size - dn, dn); ZSTD_DCtx_loadDictionary(dc, dd, dn); free(dd); }
      int stalls = 0;
      while (guard++ < 100000) {
        rs = rs * 1103515245u + 12345u;
        size_t il = fn - ipos, ol = cap - opos;
        if (sel2 & 2) { size_t a = 1 + (rs >> 8) % 37, b = 1 + (rs >> 16) % 300; if (il > a) il = a; if (ol > b) ol = b; }
        unsigned char* isub = (unsigned char*)malloc(il ? il : 1); memcpy(isub, f + ipos, il);
        unsigned char* osub = ol ? (unsigned char*)malloc(ol) : NULL;
        ZSTD_inBuffer ib = { isub, il, 0 }; ZSTD_outBuffer ob = { osub, ol, 0 };
        size_t r = ZSTD_decompressStream(dc, &ob, &ib);
        if (ob.pos > ol || ib.pos > il) abort(); if (!ZSTD_isError(r)) CHECK_INIT(osub, ob.pos);
        free(isub); free(osub);
        if (ZSTD_isError(r)) break;
        ipos += ib.pos; opos += ob.pos;
        if (ib.pos == 0 && ob.pos == 0) { if (++stalls > 40) abort(); if (ipos == fn || opos == cap) { if (stalls > 20) break; } } else stalls = 0;
        if (r == 0 && ipos == fn) break;
      }
      if (guard >= 100000) abort();
      ZSTD_freeDCtx(dc); }
    free(f); free(out);
    return 0;
}
