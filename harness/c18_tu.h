/* C18: wrappers that expose static functions of lib/dictBuilder/{cover,fastcover,zdict}.c.
 * cover.h has no include guard, so each .c file is included by its own translation unit. */
#ifndef C18_TU_H
#define C18_TU_H
#include <stddef.h>
#define ZDICT_STATIC_LINKING_ONLY
#define ZDICT_DISABLE_DEPRECATE_WARNINGS
#include "zdict.h"

typedef struct { int err; unsigned nbTrain, nbTest; unsigned long long nbDmers; } zv_ctxinfo;
/* one candidate job of an optimiser, run alone against a private COVER_best_t */
typedef struct { unsigned long long csize; int hasdict; unsigned long long dsize; unsigned long long hash; int ctxerr; } zv_cand;

int zv_cover_check(unsigned k, unsigned d, size_t maxDict, double sp);
zv_ctxinfo zv_cover_ctx(const void* samples, const size_t* sizes, unsigned nb, unsigned d, double sp);
int zv_cover_candidates(const void* samples, const size_t* sizes, unsigned nb, size_t cap, ZDICT_cover_params_t base,
                        const unsigned* ds, const unsigned* ks, int njobs, zv_cand* out);
/* returns 0, or 1 when the C code would trap (never returns in that case: the caller forks) */
void zv_epochs(unsigned maxDict, unsigned nbDmers, unsigned k, unsigned passes, unsigned* num, unsigned* size);

int zv_fast_check(unsigned k, unsigned d, size_t maxDict, unsigned f, unsigned accel, double sp);
zv_ctxinfo zv_fast_ctx(const void* samples, const size_t* sizes, unsigned nb, unsigned d, double sp, unsigned f, unsigned accel);
int zv_fast_candidates(const void* samples, const size_t* sizes, unsigned nb, size_t cap, ZDICT_cover_params_t base,
                       unsigned f, unsigned accel, const unsigned* ds, const unsigned* ks, int njobs, zv_cand* out);

size_t zv_analyzeEntropy(void* dst, size_t maxDst, int level, const void* samples, const size_t* sizes, unsigned nb,
                         const void* dict, size_t dictSize);
size_t zv_addEntropy_advanced(void* dictBuffer, size_t contentSize, size_t cap, const void* samples, const size_t* sizes,
                              unsigned nb, ZDICT_params_t params);
unsigned zv_hbuffsize(void);
unsigned long long zv_fnv(const void* p, size_t n);
#endif
