/* C18: wrappers that expose static functions of lib/dictBuilder/{cover,fastcover,zdict}.c.
 * cover.h has no include guard, so each .c file is included by its own translation unit. */
#ifndef C18_TU_H
#define C18_TU_H
#include <stddef.h>
#define ZDICT_STATIC_LINKING_ONLY
#define ZDICT_DISABLE_DEPRECATE_WARNINGS
#include "zdict.h"

typedef struct { int err; unsigned nbTrain, nbTest; unsigned long long nbDmers; } zv_ctxinfo;
/* one candidate job of an optimiser, run alone against a private COVER_best_t */
typedef struct { unsigned long long csize; int hasdict; unsigned long long dsize; unsigned long long hash; int ctxerr; } zv_cand;

int zv_cover_check(unsigned k, unsigned d, size_t maxDict, double sp);
zv_ctxinfo zv_cover_ctx(const void* samples, const size_t* sizes, unsigned nb, unsigned d, double sp);
int zv_cover_candidates(const void* samples, const size_t* sizes, unsigned nb, size_t cap, ZDICT_cover_params_t base,
                        const unsigned* ds, const unsigned* ks, int njobs, zv_cand* out);
/* returns 0, or 1 when the C code would trap (never returns in that case: the caller forks) */
void zv_epochs(unsigned maxDict, unsigned nbDmers, unsigned k, unsigned passes, unsigned* num, unsigned* size);

int zv_fast_check(unsigned k, unsigned d, size_t maxDict, unsigned f, unsigned accel, double sp);
zv_ctxinfo zv_fast_ctx(const void* samples, const size_t* sizes, unsigned nb, unsigned d, double sp, unsigned f, unsigned accel);
int zv_fast_candidates(const void* samples, const size_t* sizes, unsigned nb, size_t cap, ZDICT_cover_params_t base,
                       unsigned f, unsigned accel, const unsigned* ds, const unsigned* ks, int njobs, zv_cand* out);

size_t zv_analyzeEntropy(void* dst, size_t maxDst, int level, const void* samples, const size_t* sizes, unsigned nb,
                         const void* dict, size_t dictSize);
size_t zv_addEntropy_advanced(void* dictBuffer, size_t contentSize, size_t cap, const void* samples, const size_t* sizes,
                              unsigned nb, ZDICT_params_t params);
unsigned zv_hbuffsize(void);

/* round 2: segment selection and dictionary building, run on the real static functions */
typedef struct { unsigned begin, end, score; } zv_seg;
typedef struct { int err; unsigned long long nbDmers; unsigned long long fh; size_t tail; int dirty; zv_seg seg; } zv_fres;
/* FASTCOVER_ctx_init (split point 1.0) + FASTCOVER_buildDictionary into dict[0..cap); fh = FNV of the frequency table
 * right after ctx_init; dirty = segmentFreqs not all zero afterwards */
zv_fres zv_fast_build(const void* samples, const size_t* sizes, unsigned nb, unsigned d, unsigned f, unsigned accel,
                      unsigned k, size_t cap, unsigned char* dict);
/* FASTCOVER_ctx_init + one FASTCOVER_selectSegment(begin, end); fh = FNV of the frequency table afterwards */
zv_fres zv_fast_select(const void* samples, const size_t* sizes, unsigned nb, unsigned d, unsigned f, unsigned accel,
                       unsigned k, unsigned begin, unsigned end);
typedef struct { int err; unsigned long long nbDmers; unsigned* keys; unsigned* fvals; unsigned* fafter; size_t tail; zv_seg seg; } zv_cres;
/* COVER_ctx_init (split point 1.0); keys[p] = dmerAt[p], fvals[p] = freqs[dmerAt[p]] before; then COVER_buildDictionary
 * (doBuild) or one COVER_selectSegment(begin, end) (fafter[p] = freqs[dmerAt[p]] afterwards) */
zv_cres zv_cover_run(const void* samples, const size_t* sizes, unsigned nb, unsigned d, unsigned k, size_t cap,
                     unsigned char* dict, int doBuild, unsigned begin, unsigned end);
size_t zv_lower_bound(const size_t* offs, size_t first, size_t count, size_t value);   /* index of the result pointer */
int zv_map_init_log(unsigned size);               /* sizeLog, or -1 when COVER_map_init fails */
unsigned zv_map_hash(unsigned sizeLog, unsigned key);
unsigned long long zv_fnv(const void* p, size_t n);
/* round 3: offcodeMax chosen by the real ZDICT_analyzeEntropy for a dictionary of dictSize bytes (-1 = error returned) */
int zv_offcode_max(unsigned long long dictSize);
/* round 3: an operation sequence on a real COVER_map_t (see c18_tu_cover.c) */
int zv_map_ops(unsigned size, const unsigned* keys, const int* ops, int n, unsigned* vals, unsigned* table, unsigned tableCap);
#endif
