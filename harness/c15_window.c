/* C15 tie harness (1): calls the REAL index-window functions of the current /repo tree on the case
 * lines also given to the extracted model (ml/c15_driver.ml) and prints the same canonical integers.
 *
 * Pointers are offsets into a 16 GiB PROT_NONE reservation: pointer arithmetic only, never dereferenced.
 * The static / MEM_STATIC functions are reached by #include of the .c files (no /repo hook).
 * Opcodes < 100: one call of one real function.  Opcodes >= 100: a history on a fake ZSTD_matchState_t;
 * there the REAL primitives are called in the order of ZSTD_compressBegin_internal /
 * ZSTD_compressContinue_internal / ZSTD_compress_frameChunk / ZSTD_ldm_generateSequences; the glue that
 * cannot run on unreadable memory (the table filling of ZSTD_loadDictionaryContent, the block compressor)
 * is replicated here and is validated separately on real contexts by harness/c15_ctx.c. */
#define ZSTD_DEPS_NEED_MALLOC
#include "compress/zstd_compress.c"
#include "compress/zstd_ldm.c"
#include <stdio.h>
#include <stdlib.h>
#include <string.h>
#include <sys/mman.h>

typedef long long ll;
static const BYTE* R0;
#define PTR(off) ((const BYTE*)((uintptr_t)R0 + (uintptr_t)(ll)(off)))
#define OFF(p) ((ll)((intptr_t)(uintptr_t)(p) - (intptr_t)(uintptr_t)R0))

#define MAXA (1 << 20)
static ll a[MAXA];
static int na;

static void w_in(ZSTD_window_t* w, const ll* x) {
    w->nextSrc = PTR(x[0]); w->base = PTR(x[1]); w->dictBase = PTR(x[2]);
    w->dictLimit = (U32)x[3]; w->lowLimit = (U32)x[4]; w->nbOverflowCorrections = (U32)x[5];
}
static void w_out(const ZSTD_window_t* w) {
    printf("%lld %lld %lld %u %u %u", OFF(w->nextSrc), OFF(w->base), OFF(w->dictBase),
           w->dictLimit, w->lowLimit, w->nbOverflowCorrections);
}
static U32 cksum(const U32* t, size_t n) { U32 acc = 7; size_t i; for (i = 0; i < n; i++) acc = acc * 31u + t[i]; return acc; }
static U32 cksum_ldm(const ldmEntry_t* t, size_t n) { U32 acc = 7; size_t i; for (i = 0; i < n; i++) acc = acc * 31u + t[i].offset; return acc; }

/* ---------------- fake match state used by opcode 17 and the histories ---------------- */
static ZSTD_matchState_t ms;
static ZSTD_matchState_t dummyDms;
static ZSTD_cwksp ws;
static ZSTD_CCtx_params params;
static ldmState_t ldm;
static int ldmOn;
static size_t nH, nC, n3, nL;
static U32 *tH, *tC, *t3;
static ldmEntry_t* tL;

static void set_params(ll wlog, ll clog, ll hlog, ll strat, ll useRow) {
    memset(&params, 0, sizeof(params));
    params.cParams.windowLog = (unsigned)wlog; params.cParams.chainLog = (unsigned)clog;
    params.cParams.hashLog = (unsigned)hlog; params.cParams.strategy = (ZSTD_strategy)strat;
    params.cParams.minMatch = 4; params.cParams.searchLog = 1; params.cParams.targetLength = 0;
    params.useRowMatchFinder = useRow ? ZSTD_ps_enable : ZSTD_ps_disable;
    ms.cParams = params.cParams;
}
static void set_tables(const ll* h, size_t nh, const ll* c, size_t nc, const ll* x3, size_t nn3) {
    size_t i;
    free(tH); free(tC); free(t3);
    nH = nh; nC = nc; n3 = nn3;
    tH = (U32*)malloc((nh + 1) * 4); tC = (U32*)malloc((nc + 1) * 4); t3 = (U32*)malloc((nn3 + 1) * 4);
    for (i = 0; i < nh; i++) tH[i] = (U32)h[i];
    for (i = 0; i < nc; i++) tC[i] = (U32)c[i];
    for (i = 0; i < nn3; i++) t3[i] = (U32)x3[i];
    ms.hashTable = tH; ms.chainTable = tC; ms.hashTable3 = t3;
}
static void set_ldm_table(const ll* e, size_t n) {
    size_t i;
    free(tL); nL = n; tL = (ldmEntry_t*)malloc((n + 1) * sizeof(ldmEntry_t));
    for (i = 0; i < n; i++) { tL[i].offset = (U32)e[i]; tL[i].checksum = (U32)(i * 2654435761u); }
    ldm.hashTable = tL;
}

static void h_out(int ok) {
    w_out(&ms.window);
    printf(" %u %u %d %d %u %u %u", ms.loadedDictEnd, ms.nextToUpdate, ms.dictMatchState != NULL, ms.forceNonContiguous,
           cksum(tH, nH), cksum(tC, nC), cksum(t3, n3));
    if (ldmOn) { printf(" 1 "); w_out(&ldm.window); printf(" %u %u", ldm.loadedDictEnd, cksum_ldm(tL, nL)); }
    else printf(" 0");
    printf(" %d %d\n", ms.opt.litLengthSum == 0, ok);
}

/* exactness observer on the real pointers: is p - base an exact U32 index? */
static int exact_idx(const ZSTD_window_t* w, const BYTE* p) {
    ll d = OFF(p) - OFF(w->base);
    return d >= 0 && d < 4294967296LL;
}
static int update_ok(const ZSTD_window_t* w, const BYTE* src, size_t size, int force) {
    if (size == 0) return 1;
    if (src != w->nextSrc || force) return exact_idx(w, w->nextSrc);
    return 1;
}

/* window / index part of ZSTD_loadDictionaryContent (replicated glue, real primitives) */
static void load_dict_window(const BYTE* src, size_t srcSize, int forceWindow, int detRefPrefix, int forCDict) {
    const BYTE* ip = src;
    const BYTE* const iend = ip + srcSize;
    {   U32 maxDictSize = ZSTD_CURRENT_MAX - ZSTD_WINDOW_START_INDEX;
        if (ZSTD_CDictIndicesAreTagged(&params.cParams) && forCDict) {
            U32 const shortCacheMaxDictSize = (1u << (32 - ZSTD_SHORT_CACHE_TAG_BITS)) - ZSTD_WINDOW_START_INDEX;
            maxDictSize = MIN(maxDictSize, shortCacheMaxDictSize);
        }
        if (srcSize > maxDictSize) { ip = iend - maxDictSize; src = ip; srcSize = maxDictSize; }
    }
    ZSTD_window_update(&ms.window, src, srcSize, 0);
    if (ldmOn) {
        ZSTD_window_update(&ldm.window, src, srcSize, 0);
        ldm.loadedDictEnd = forceWindow ? 0 : (U32)(iend - ldm.window.base);
    }
    if (params.cParams.strategy < ZSTD_btultra) {
        U32 maxDictSize = 8U << MIN(MAX(params.cParams.hashLog, params.cParams.chainLog), 28);
        if (srcSize > maxDictSize) { ip = iend - maxDictSize; src = ip; srcSize = maxDictSize; }
    }
    ms.nextToUpdate = (U32)(ip - ms.window.base);
    ms.loadedDictEnd = forceWindow ? 0 : (U32)(iend - ms.window.base);
    ms.forceNonContiguous = detRefPrefix;
    if (srcSize <= HASH_READ_SIZE) return;
    ZSTD_overflowCorrectIfNeeded(&ms, &ws, &params, ip, iend);
    ms.nextToUpdate = (U32)(iend - ms.window.base);
}

/* steps 1 and 2 of each chunk of ZSTD_ldm_generateSequences (replicated glue, real primitives) */
static void ldm_chunks(const BYTE* istart, size_t srcSize, U32 windowLog) {
    U32 const maxDist = 1U << windowLog;
    const BYTE* const iend = istart + srcSize;
    size_t const kMaxChunkSize = 1 << 20;
    size_t const nbChunks = (srcSize / kMaxChunkSize) + ((srcSize % kMaxChunkSize) != 0);
    size_t chunk;
    for (chunk = 0; chunk < nbChunks; ++chunk) {
        const BYTE* const chunkStart = istart + chunk * kMaxChunkSize;
        size_t const remaining = (size_t)(iend - chunkStart);
        const BYTE* const chunkEnd = (remaining < kMaxChunkSize) ? iend : chunkStart + kMaxChunkSize;
        if (ZSTD_window_needOverflowCorrection(ldm.window, 0, maxDist, ldm.loadedDictEnd, chunkStart, chunkEnd)) {
            U32 const correction = ZSTD_window_correctOverflow(&ldm.window, 0, maxDist, chunkStart);
            ZSTD_ldm_reduceTable(ldm.hashTable, (U32)nL, correction);
            ldm.loadedDictEnd = 0;
        }
        ZSTD_window_enforceMaxDist(&ldm.window, chunkEnd, maxDist, &ldm.loadedDictEnd, NULL);
    }
}

/* index effect of ZSTD_buildSeqStore + block compressor (replicated glue: the compressor cannot run on
 * unreadable memory): the btultra2 first pass of zstd_opt.c, and opt.litLengthSum becoming non-zero */
static void block_search_effect(const BYTE* ip, size_t blockSize) {
    if (blockSize < MIN_CBLOCK_SIZE + ZSTD_blockHeaderSize + 1 + 1) return;
    {   U32 const curr = (U32)(ip - ms.window.base);
        if (params.cParams.strategy == ZSTD_btultra2 && ZSTD_matchState_dictMode(&ms) == ZSTD_noDict
            && ms.opt.litLengthSum == 0 && ms.window.dictLimit == ms.window.lowLimit && curr == ms.window.dictLimit
            && blockSize > 8 /* ZSTD_PREDEF_THRESHOLD */) {
            ms.window.base -= blockSize;
            ms.window.dictLimit += (U32)blockSize;
            ms.window.lowLimit = ms.window.dictLimit;
            ms.nextToUpdate = ms.window.dictLimit;
        }
        if (params.cParams.strategy >= ZSTD_btopt) ms.opt.litLengthSum = 1;
    }
}

static int do_continue(const BYTE* src, const ll* blocks, int nb, int frame) {
    size_t srcSize = 0; int i, ok = 1;
    for (i = 0; i < nb; i++) srcSize += (size_t)blocks[i];
    if (!srcSize) return 1;
    ok &= update_ok(&ms.window, src, srcSize, ms.forceNonContiguous);
    if (ldmOn) ok &= update_ok(&ldm.window, src, srcSize, 0);
    /* top of ZSTD_compressContinue_internal */
    if (!ZSTD_window_update(&ms.window, src, srcSize, ms.forceNonContiguous)) {
        ms.forceNonContiguous = 0;
        ms.nextToUpdate = ms.window.dictLimit;
    }
    if (ldmOn) ZSTD_window_update(&ldm.window, src, srcSize, 0);
    if (!frame) {
        ZSTD_overflowCorrectIfNeeded(&ms, &ws, &params, src, src + srcSize);
        if (ms.loadedDictEnd != ms.window.dictLimit) ms.dictMatchState = NULL;   /* /repo 00d59f3 (validated on real contexts: `blockapi` of c15_ctx.c) */
        block_search_effect(src, srcSize);
        ok &= exact_idx(&ms.window, src) & exact_idx(&ms.window, src + srcSize);
        return ok;
    }
    {   const BYTE* ip = src;
        U32 const maxDist = (U32)1 << params.cParams.windowLog;
        for (i = 0; i < nb; i++) {   /* per block of ZSTD_compress_frameChunk */
            size_t const blockSize = (size_t)blocks[i];
            ZSTD_overflowCorrectIfNeeded(&ms, &ws, &params, ip, ip + blockSize);
            ZSTD_checkDictValidity(&ms.window, ip + blockSize, maxDist, &ms.loadedDictEnd, &ms.dictMatchState);
            ZSTD_window_enforceMaxDist(&ms.window, ip, maxDist, &ms.loadedDictEnd, &ms.dictMatchState);
            if (ms.nextToUpdate < ms.window.lowLimit) ms.nextToUpdate = ms.window.lowLimit;
            if (ldmOn && blockSize >= MIN_CBLOCK_SIZE + ZSTD_blockHeaderSize + 1 + 1)
                ldm_chunks(ip, blockSize, params.cParams.windowLog);
            block_search_effect(ip, blockSize);
            ok &= exact_idx(&ms.window, ip) & exact_idx(&ms.window, ip + blockSize);
            if (ldmOn) ok &= exact_idx(&ldm.window, ip + blockSize);
            ip += blockSize;
        }
    }
    return ok;
}

static void hist_reset(void) {
    memset(&ms, 0, sizeof(ms)); memset(&ws, 0, sizeof(ws)); memset(&ldm, 0, sizeof(ldm));
    ms.window.nextSrc = ms.window.base = ms.window.dictBase = PTR(0);
    ldmOn = 0;
    set_tables(NULL, 0, NULL, 0, NULL, 0); set_ldm_table(NULL, 0);
    set_params(0, 0, 0, 0, 0);
}

int main(void) {
    char* line = NULL; size_t cap = 0;
    void* r = mmap(NULL, (size_t)16 << 30, PROT_NONE, MAP_PRIVATE | MAP_ANONYMOUS | MAP_NORESERVE, -1, 0);
    if (r == MAP_FAILED) { perror("mmap"); return 2; }
    R0 = (const BYTE*)r;
    hist_reset();
    while (getline(&line, &cap, stdin) > 0) {
        char* p = line; char* e; ll opc;
        ZSTD_window_t w;
        const ll* x;
        na = 0;
        opc = strtoll(p, &e, 10); if (e == p) continue; p = e;
        for (;;) { ll v = strtoll(p, &e, 10); if (e == p) break; if (na < MAXA) a[na++] = v; p = e; }
        x = a + 6;
        if (opc < 100 && opc != 1 && opc != 9 && opc != 14 && opc != 15 && opc != 16) w_in(&w, a);
        switch ((int)opc) {
        case 1: { ZSTD_window_init(&w);   /* report relative to the literal the real code chose */
                  printf("%lld %lld %lld %u %u %u\n", a[0] + (ll)(w.nextSrc - w.base), a[0], a[0] + (ll)(w.dictBase - w.base),
                         w.dictLimit, w.lowLimit, w.nbOverflowCorrections); break; }
        case 2: ZSTD_window_clear(&w); w_out(&w); printf("\n"); break;
        case 3: printf("%u\n", ZSTD_window_isEmpty(w) != 0); break;
        case 4: printf("%u\n", ZSTD_window_hasExtDict(w) != 0); break;
        case 5: { U32 c = ZSTD_window_update(&w, PTR(x[0]), (size_t)x[1], (int)x[2]); w_out(&w); printf(" %u\n", c != 0); break; }
        case 6: { U32 lde = (U32)x[2]; const ZSTD_matchState_t* d = x[3] > 0 ? &dummyDms : NULL;
                  ZSTD_window_enforceMaxDist(&w, PTR(x[0]), (U32)x[1], x[2] < 0 ? NULL : &lde, x[3] < 0 ? NULL : &d);
                  w_out(&w);
                  if (x[2] < 0) printf(" -1"); else printf(" %u", lde);
                  if (x[3] < 0) printf(" -1\n"); else printf(" %d\n", d != NULL);
                  break; }
        case 7: { U32 lde = (U32)x[2]; const ZSTD_matchState_t* d = x[3] ? &dummyDms : NULL;
                  ZSTD_checkDictValidity(&w, PTR(x[0]), (U32)x[1], &lde, &d);
                  printf("%u %d\n", lde, d != NULL); break; }
        case 8: { ZSTD_matchState_t m; memset(&m, 0, sizeof(m)); m.window = w; m.loadedDictEnd = (U32)x[0];
                  printf("%u %u\n", ZSTD_getLowestMatchIndex(&m, (U32)x[1], (unsigned)x[2]),
                         ZSTD_getLowestPrefixIndex(&m, (U32)x[1], (unsigned)x[2])); break; }
        case 9: printf("%d\n", ZSTD_index_overlap_check((U32)a[0], (U32)a[1]) != 0); break;
        case 10: printf("%u\n", ZSTD_window_canOverflowCorrect(w, (U32)x[0], (U32)x[1], (U32)x[2], PTR(x[3])) != 0); break;
        case 11: printf("%u\n", ZSTD_window_needOverflowCorrection(w, (U32)x[0], (U32)x[1], (U32)x[2], PTR(x[3]), PTR(x[4])) != 0); break;
        case 12: { U32 c = ZSTD_window_correctOverflow(&w, (U32)x[0], (U32)x[1], PTR(x[2])); printf("%u ", c); w_out(&w); printf("\n"); break; }
        case 13: printf("%d\n", ZSTD_indexTooCloseToMax(w) != 0); break;
        case 14: printf("%d\n", ZSTD_dictTooBig((size_t)a[0]) != 0); break;
        case 15: { int n = na - 3, i; U32* t = (U32*)malloc((size_t)(n + 1) * 4);
                   for (i = 0; i < n; i++) t[i] = (U32)a[3 + i];
                   ZSTD_reduceTable_internal(t, (U32)a[2], (U32)a[1], a[0] != 0);
                   for (i = 0; i < n; i++) printf("%s%u", i ? " " : "", t[i]);
                   printf("\n"); free(t); break; }
        case 16: { int n = na - 1, i; ldmEntry_t* t = (ldmEntry_t*)malloc((size_t)(n + 1) * sizeof(ldmEntry_t));
                   for (i = 0; i < n; i++) { t[i].offset = (U32)a[1 + i]; t[i].checksum = 0xABCD0000u + (U32)i; }
                   ZSTD_ldm_reduceTable(t, (U32)n, (U32)a[0]);
                   for (i = 0; i < n; i++) { printf("%s%u", i ? " " : "", t[i].offset); if (t[i].checksum != 0xABCD0000u + (U32)i) printf("!"); }
                   printf("\n"); free(t); break; }
        case 17: { /* W lde ntu dms hashLog3 dds windowLog chainLog hashLog strategy useRow ip iend nh nc n3 tables */
                   U32 const ntu0 = (U32)x[1]; U32 const nb0 = w.nbOverflowCorrections; const BYTE* const base0 = w.base; size_t i;
                   hist_reset();
                   ms.window = w; ms.loadedDictEnd = (U32)x[0]; ms.nextToUpdate = ntu0; ms.dictMatchState = x[2] ? &dummyDms : NULL;
                   ms.hashLog3 = (U32)x[3]; ms.dedicatedDictSearch = (int)x[4];
                   set_params(x[5], x[6], x[7], x[8], x[9]);
                   set_tables(x + 15, (size_t)x[12], x + 15 + x[12], (size_t)x[13], x + 15 + x[12] + x[13], (size_t)x[14]);
                   ZSTD_overflowCorrectIfNeeded(&ms, &ws, &params, PTR(x[10]), PTR(x[11]));
                   if (ms.window.nbOverflowCorrections != nb0) printf("%u ", (U32)(ms.window.base - base0)); else printf("-1 ");
                   w_out(&ms.window);
                   printf(" %u %u %d", ms.loadedDictEnd, ms.nextToUpdate, ms.dictMatchState != NULL);
                   for (i = 0; i < nH; i++) printf(" %u", tH[i]);
                   for (i = 0; i < nC; i++) printf(" %u", tC[i]);
                   for (i = 0; i < n3; i++) printf(" %u", t3[i]);
                   printf("\n"); break; }
        case 18: { /* W lde windowLog chunkStart chunkEnd table */
                   U32 const maxDist = 1U << (U32)x[1]; U32 const nb0 = w.nbOverflowCorrections; const BYTE* const base0 = w.base; size_t i;
                   hist_reset(); ldm.window = w; ldm.loadedDictEnd = (U32)x[0]; set_ldm_table(x + 4, (size_t)(na - 10));
                   if (ZSTD_window_needOverflowCorrection(ldm.window, 0, maxDist, ldm.loadedDictEnd, PTR(x[2]), PTR(x[3]))) {
                       U32 const correction = ZSTD_window_correctOverflow(&ldm.window, 0, maxDist, PTR(x[2]));
                       ZSTD_ldm_reduceTable(ldm.hashTable, (U32)nL, correction);
                       ldm.loadedDictEnd = 0;
                   }
                   ZSTD_window_enforceMaxDist(&ldm.window, PTR(x[3]), maxDist, &ldm.loadedDictEnd, NULL);
                   if (ldm.window.nbOverflowCorrections != nb0) printf("%u ", (U32)(ldm.window.base - base0)); else printf("-1 ");
                   w_out(&ldm.window); printf(" %u", ldm.loadedDictEnd);
                   for (i = 0; i < nL; i++) printf(" %u", tL[i].offset);
                   printf("\n"); break; }
        case 100: hist_reset(); printf("0\n"); break;
        case 101: { /* wlog clog hlog strat useRow h3 ldm forced lit ldmLit loadedDictSize hasDict d_src d_size fw drp */
                   int ok = 1;
                   int const indexTooClose = ZSTD_indexTooCloseToMax(ms.window);
                   int const dictTooBig = ZSTD_dictTooBig((size_t)a[10]);
                   int const needsIndexReset = (indexTooClose || dictTooBig || a[7]);
                   set_params(a[0], a[1], a[2], a[3], a[4]);
                   if (!needsIndexReset) ok &= exact_idx(&ms.window, ms.window.nextSrc);
                   /* ZSTD_reset_matchState */
                   if (needsIndexReset) {
                       ZSTD_window_init(&ms.window);
                       /* re-seat the (arbitrary) literal address chosen by the real code at the case's address */
                       ms.window.nextSrc = PTR(a[8]) + (ms.window.nextSrc - ms.window.base);
                       ms.window.dictBase = PTR(a[8]) + (ms.window.dictBase - ms.window.base);
                       ms.window.base = PTR(a[8]);
                       memset(tH, 0, nH * 4); memset(tC, 0, nC * 4); memset(t3, 0, n3 * 4);
                   }
                   ms.hashLog3 = (U32)a[5];
                   ZSTD_invalidateMatchState(&ms);
                   ldmOn = a[6] != 0;
                   if (ldmOn) {
                       size_t i;
                       ZSTD_window_init(&ldm.window);
                       ldm.window.nextSrc = PTR(a[9]) + (ldm.window.nextSrc - ldm.window.base);
                       ldm.window.dictBase = PTR(a[9]) + (ldm.window.dictBase - ldm.window.base);
                       ldm.window.base = PTR(a[9]);
                       ldm.loadedDictEnd = 0;
                       for (i = 0; i < nL; i++) tL[i].offset = 0;
                   } else { set_ldm_table(NULL, 0); }
                   if (a[11]) {
                       load_dict_window(PTR(a[12]), (size_t)a[13], (int)a[14], (int)a[15], 0);
                       ok &= exact_idx(&ms.window, PTR(a[12]) + a[13]);
                       if (ldmOn) ok &= exact_idx(&ldm.window, PTR(a[12]) + a[13]);
                   }
                   h_out(ok); break; }
        case 102: { /* window part of ZSTD_resetCCtx_byAttachingCDict (replicated glue) */
                   U32 const cdictEnd = (U32)a[0];
                   U32 const cdictLen = cdictEnd - (U32)a[1];
                   if (cdictLen != 0) {
                       ms.dictMatchState = &dummyDms;
                       if (ms.window.dictLimit < cdictEnd) {
                           ms.window.nextSrc = ms.window.base + cdictEnd;
                           ZSTD_window_clear(&ms.window);
                       }
                       ms.loadedDictEnd = ms.window.dictLimit;
                   }
                   h_out(1); break; }
        case 103: { int ok = do_continue(PTR(a[0]), a + 1, na - 1, 1); h_out(ok); break; }
        case 104: { int ok = do_continue(PTR(a[0]), a + 1, 1, 0); h_out(ok); break; }
        case 105: { ms.nextToUpdate = (U32)a[0];
                   set_tables(a + 4, (size_t)a[1], a + 4 + a[1], (size_t)a[2], a + 4 + a[1] + a[2], (size_t)a[3]);
                   h_out(1); break; }
        case 106: { if (ldmOn) set_ldm_table(a, (size_t)na); h_out(1); break; }
        case 107: { /* "copy dictionary offsets" of ZSTD_resetCCtx_byCopyingCDict (replicated glue) */
                   w_in(&ms.window, a); ms.loadedDictEnd = (U32)a[6]; ms.nextToUpdate = (U32)a[7]; h_out(1); break; }
        case 108: { w_in(&ms.window, a); ms.loadedDictEnd = (U32)a[6]; ms.dictMatchState = a[7] ? &dummyDms : NULL;
                   ms.forceNonContiguous = (int)a[8]; ms.nextToUpdate = (U32)a[9]; ms.opt.litLengthSum = a[10] ? 0 : 1; h_out(1); break; }
        default: printf("-999\n");
        }
    }
    return 0;
}
