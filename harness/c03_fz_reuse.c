/* libFuzzer target of the bounded fuzzing phase of ./check C03 --tier thorough (round 3; written for the round-2 campaign): one DCtx reused over three untrusted inputs through four entry points; results must equal a fresh context's */
/* libFuzzer target: one DCtx reused over three untrusted inputs through different entry points; every result must equal
 * the result of the same call on a fresh DCtx (no state may survive a frame / an error / a reset). */
#define ZSTD_STATIC_LINKING_ONLY
#include "zstd.h"
#include "zstd_errors.h"
#include <stdlib.h>
#include <string.h>
#include <stdint.h>
#include <stdio.h>
#if defined(__has_feature)
#  if __has_feature(memory_sanitizer)
#    include <sanitizer/msan_interface.h>
#    define CHECK_INIT(p, n) __msan_check_mem_is_initialized((p), (n))
#  endif
#endif
#ifndef CHECK_INIT
#  define CHECK_INIT(p, n) ((void)0)
#endif
typedef struct { int err; size_t n; } res_t;
static res_t run_api(ZSTD_DCtx* dc, unsigned api, unsigned char* out, size_t cap, const unsigned char* p, size_t n, const unsigned char* d, size_t dn, unsigned par) {
    res_t r = { 1, 0 };
    switch (api) {
    case 0: { size_t x = ZSTD_decompressDCtx(dc, out, cap, p, n); if (!ZSTD_isError(x)) { if (x > cap) abort(); r.err = 0; r.n = x; } } break;
    case 1: { ZSTD_inBuffer ib = { p, n, 0 }; ZSTD_outBuffer ob = { out, cap, 0 }; int k; size_t x = 1;
        ZSTD_DCtx_reset(dc, ZSTD_reset_session_only);
        if (par & 1) ZSTD_DCtx_refPrefix(dc, d, dn);
        for (k = 0; k < 64; k++) { size_t ip0 = ib.pos, op0 = ob.pos; if (par & 2) { ib.size = ib.pos + ((n - ib.pos) > 7 ? 7 : (n - ib.pos)); }
            x = ZSTD_decompressStream(dc, &ob, &ib); if (ob.pos > cap || ib.pos > n) abort(); if (ZSTD_isError(x)) break; if (x == 0 && ib.pos == n) break; if (ib.pos == ip0 && ob.pos == op0 && ib.size == n) break; ib.size = n; }
        if (!ZSTD_isError(x) && x == 0 && ib.pos == n) { r.err = 0; r.n = ob.pos; } } break;
    case 2: { size_t x = ZSTD_decompress_usingDict(dc, out, cap, p, n, d, dn); if (!ZSTD_isError(x)) { if (x > cap) abort(); r.err = 0; r.n = x; } } break;
    default: { size_t x = (par & 1) ? ZSTD_decompressBegin_usingDict(dc, d, dn) : ZSTD_decompressBegin(dc); size_t ip = 0, op = 0; int k;
        for (k = 0; k < 100000 && !ZSTD_isError(x); k++) { size_t need = ZSTD_nextSrcSizeToDecompress(dc); if (need == 0) break; if (need > n - ip) { x = (size_t)-1; break; }
            x = ZSTD_decompressContinue(dc, out + op, cap - op, p + ip, need); if (!ZSTD_isError(x)) { if (x > cap - op) abort(); op += x; ip += need; } }
        if (!ZSTD_isError(x) && ip == n && n > 0) { r.err = 0; r.n = op; } } break;
    }
    if (!r.err) CHECK_INIT(out, r.n);
    return r;
}
int LLVMFuzzerTestOneInput(const uint8_t* data, size_t size) {
    if (size < 6) return 0;
    unsigned sel = data[0], s1 = data[1], par = data[4], fmt = data[5]; size_t a = data[2], b = data[3]; data += 6; size -= 6;
    size_t cut1 = size * a / 255, cut2 = cut1 + (size - cut1) * b / 255; if (cut1 > size) cut1 = size; if (cut2 > size) cut2 = size;
    const unsigned char* pcs[3]; size_t ns[3]; int i; unsigned char* keep[6] = {0,0,0,0,0,0};
    static const size_t caps[4] = { 100, 3000, 70000, 200000 };
    size_t cap = caps[s1 & 3];
    unsigned char* out = (unsigned char*)malloc(cap); unsigned char* ref = (unsigned char*)malloc(cap);
    ZSTD_DCtx* dc = ZSTD_createDCtx();
    pcs[0] = data; ns[0] = cut1; pcs[1] = data + cut1; ns[1] = cut2 - cut1; pcs[2] = data + cut2; ns[2] = size - cut2;
    if (fmt & 1) ZSTD_DCtx_setParameter(dc, ZSTD_d_disableHuffmanAssembly, 1);
    if (fmt & 2) ZSTD_DCtx_setParameter(dc, ZSTD_d_forceIgnoreChecksum, 1);
    for (i = 0; i < 3; i++) {
        unsigned api = (sel >> (2 * i)) & 3; unsigned pr = (par >> (2 * i)) & 3;
        unsigned char* p = (unsigned char*)malloc(ns[i] ? ns[i] : 1); memcpy(p, pcs[i], ns[i]);
        const unsigned char* d = pcs[(i + 2) % 3]; size_t dn = ns[(i + 2) % 3]; if (dn > 300) dn = 300;
        unsigned char* dcopy = (unsigned char*)malloc(dn ? dn : 1); memcpy(dcopy, d, dn);
        res_t r = run_api(dc, api, out, cap, p, ns[i], dcopy, dn, pr);
        ZSTD_DCtx* fresh = ZSTD_createDCtx();
        if (fmt & 1) ZSTD_DCtx_setParameter(fresh, ZSTD_d_disableHuffmanAssembly, 1);
        if (fmt & 2) ZSTD_DCtx_setParameter(fresh, ZSTD_d_forceIgnoreChecksum, 1);
        res_t q = run_api(fresh, api, ref, cap, p, ns[i], dcopy, dn, pr);
        ZSTD_freeDCtx(fresh);
        if (r.err != q.err || r.n != q.n || (!r.err && memcmp(out, ref, r.n))) { fprintf(stderr, "HISTORY DEPENDENCE piece %d api %u: reused err=%d n=%zu fresh err=%d n=%zu\n", i, api, r.err, r.n, q.err, q.n); abort(); }
        keep[2*i] = p; keep[2*i+1] = dcopy;      /* a prefix given to the context stays referenced until a frame uses it */
    }
    ZSTD_freeDCtx(dc); free(out); free(ref); for (i = 0; i < 6; i++) free(keep[i]);
    return 0;
}
