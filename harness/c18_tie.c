/* C18 correspondence harness: runs the REAL functions of lib/dictBuilder (statics reached through the c18_tu_*.c
 * translation units) on the cases the python driver also gives to the extracted Coq model.
 * One command per stdin line, one result line per command.  Every command runs in a forked child so that a trap
 * (SIGFPE, SIGSEGV, sanitizer abort, alarm) is reported as "CRASH ..." for that case only. */
#define ZSTD_STATIC_LINKING_ONLY
#include "c18_tu.h"
#include "c18_gen.h"
#include "zstd.h"
#include "dictBuilder/cover.h"       /* COVER_best_* (non static), included exactly once in this unit */
#include "common/xxhash.h"
#include <math.h>
#include <signal.h>
#include <sys/wait.h>
#include <unistd.h>
#include <fcntl.h>

#define MAXTOK 70000

static double sp_of(const char* num, const char* sh) { return ldexp(strtod(num, NULL), -atoi(sh)); }

static const char* errname(size_t r) {      /* error name with '_' for spaces: results stay single tokens */
    static char buf[128]; size_t i;
    snprintf(buf, sizeof buf, "%s", ZDICT_getErrorName(r));
    for (i = 0; buf[i]; i++) if (buf[i] == ' ') buf[i] = '_';
    return buf;
}

/* ---------------------------------------------------------------- commands (run in the child) */
static void cmd_chk(char** t, int n) {
    (void)n; printf("%d\n", zv_cover_check((unsigned)strtoul(t[1], 0, 10), (unsigned)strtoul(t[2], 0, 10),
                                           (size_t)strtoull(t[3], 0, 10), sp_of(t[4], t[5])) ? 1 : 0);
}
static void cmd_fchk(char** t, int n) {
    (void)n; printf("%d\n", zv_fast_check((unsigned)strtoul(t[1], 0, 10), (unsigned)strtoul(t[2], 0, 10),
                                          (size_t)strtoull(t[3], 0, 10), (unsigned)strtoul(t[4], 0, 10),
                                          (unsigned)strtoul(t[5], 0, 10), sp_of(t[6], t[7])) ? 1 : 0);
}
static void cmd_ep(char** t, int n) {
    unsigned num, size; (void)n;
    zv_epochs((unsigned)strtoul(t[1], 0, 10), (unsigned)strtoul(t[2], 0, 10), (unsigned)strtoul(t[3], 0, 10),
              (unsigned)strtoul(t[4], 0, 10), &num, &size);
    printf("%u %u\n", num, size);
}
/* ctx c|f d num sh f accel <samples> */
static void cmd_ctx(char** t, int n) {
    c18_samples s; zv_ctxinfo r;
    unsigned d = (unsigned)strtoul(t[2], 0, 10); double sp = sp_of(t[3], t[4]);
    if (c18_parse_samples(t + 7, n - 7, &s) < 0) { printf("BADCASE\n"); return; }
    if (t[1][0] == 'c') r = zv_cover_ctx(s.buf, s.sizes, s.nb, d, sp);
    else r = zv_fast_ctx(s.buf, s.sizes, s.nb, d, sp, (unsigned)strtoul(t[5], 0, 10), (unsigned)strtoul(t[6], 0, 10));
    if (r.err) printf("ERR\n"); else printf("OK %u %u %llu\n", r.nbTrain, r.nbTest, r.nbDmers);
    c18_free_samples(&s);
}

/* fin cap dictID level overlap ckind cseed csize <samples>
 * -> FIN e=<E|hex of the entropy section> hash=<XXH64(content)> content=<hex> real=<ERR name|hex of the dictionary> */
static void cmd_fin(char** t, int n) {
    size_t cap = (size_t)strtoull(t[1], 0, 10); unsigned dictID = (unsigned)strtoul(t[2], 0, 10);
    int level = atoi(t[3]); int overlap = atoi(t[4]); int ckind = atoi(t[5]);
    uint64_t cseed = strtoull(t[6], 0, 10); size_t csize = (size_t)strtoull(t[7], 0, 10);
    c18_samples s; unsigned char* content; unsigned char* dict; unsigned char ent[1024]; size_t e, r;
    ZDICT_params_t p; const void* src;
    if (c18_parse_samples(t + 8, n - 8, &s) < 0) { printf("BADCASE\n"); return; }
    content = (unsigned char*)malloc(csize ? csize : 1);
    c18_fill(content, csize, ckind, cseed, 0);
    dict = (unsigned char*)malloc(cap ? cap : 1);
    memset(dict, 0xEE, cap);
    /* the entropy section, computed independently with the arguments ZDICT_finalizeDictionary uses */
    e = zv_analyzeEntropy(ent, zv_hbuffsize() - 8, level == 0 ? ZSTD_CLEVEL_DEFAULT : level, s.buf, s.sizes, s.nb, content, csize);
    printf("FIN e=");
    if (ZDICT_isError(e)) printf("E"); else c18_print_hex(ent, e);
    printf(" hash=%llu content=", (unsigned long long)XXH64(content, csize, 0));
    c18_print_hex(content, csize);
    memset(&p, 0, sizeof p); p.compressionLevel = level; p.dictID = dictID;
    src = content;
    if (overlap && csize <= cap) { memcpy(dict + cap - csize, content, csize); src = dict + cap - csize; }
    r = ZDICT_finalizeDictionary(dict, cap, src, csize, s.buf, s.sizes, s.nb, p);
    printf(" real=");
    if (ZDICT_isError(r)) printf("ERR:%s", errname(r));
    else if (r > cap) printf("OVERRUN:%zu", r);
    else c18_print_hex(dict, r);
    printf("\n");
    free(content); free(dict); c18_free_samples(&s);
}

/* adde cap dictID level ckind cseed csize pub <samples>
 * -> ADD e=<E|n> real=<ERR|size> hdr=<header size|-> id=<id> loads=<0|1> */
static void cmd_adde(char** t, int n) {
    size_t cap = (size_t)strtoull(t[1], 0, 10); unsigned dictID = (unsigned)strtoul(t[2], 0, 10);
    int level = atoi(t[3]); int ckind = atoi(t[4]); uint64_t cseed = strtoull(t[5], 0, 10);
    size_t csize = (size_t)strtoull(t[6], 0, 10); int pub = atoi(t[7]);
    c18_samples s; unsigned char* dict; unsigned char* copy; size_t e = (size_t)-1, r; ZDICT_params_t p;
    if (c18_parse_samples(t + 8, n - 8, &s) < 0) { printf("BADCASE\n"); return; }
    dict = (unsigned char*)malloc(cap ? cap : 1); copy = (unsigned char*)malloc(cap ? cap : 1);
    memset(dict, 0xEE, cap);
    if (csize <= cap) c18_fill(dict + cap - csize, csize, ckind, cseed, 0);
    memcpy(copy, dict, cap);
    printf("ADD e=");
    if (csize <= cap && cap >= 16) {   /* only where the call cannot overrun (the model's pre-check mirrors this) */
        e = zv_analyzeEntropy(copy + 8, cap - 8, level == 0 ? ZSTD_CLEVEL_DEFAULT : level, s.buf, s.sizes, s.nb,
                              copy + cap - csize, csize);
        if (ZDICT_isError(e)) printf("E"); else printf("%zu", e);
    } else printf("E");
    memset(&p, 0, sizeof p); p.compressionLevel = level; p.dictID = dictID;
    if (csize > cap) {
        /* the content cannot sit inside the buffer: hand the function a valid pointer range anyway */
        r = pub ? ZDICT_addEntropyTablesFromBuffer(dict, csize, cap, s.buf, s.sizes, s.nb)
                : zv_addEntropy_advanced(dict, csize, cap, s.buf, s.sizes, s.nb, p);
    } else {
        r = pub ? ZDICT_addEntropyTablesFromBuffer(dict, csize, cap, s.buf, s.sizes, s.nb)
                : zv_addEntropy_advanced(dict, csize, cap, s.buf, s.sizes, s.nb, p);
    }
    if (ZDICT_isError(r)) printf(" real=ERR hdr=- id=0 loads=0\n");
    else {
        size_t h = (r <= cap) ? ZDICT_getDictHeaderSize(dict, r) : (size_t)-1;
        ZSTD_CDict* c = (r <= cap) ? ZSTD_createCDict(dict, r, 3) : NULL;
        ZSTD_DDict* d = (r <= cap) ? ZSTD_createDDict(dict, r) : NULL;
        printf(" real=%zu hdr=", r);
        if (ZDICT_isError(h)) printf("-"); else printf("%zu", h);
        printf(" id=%u loads=%d\n", (r <= cap) ? ZDICT_getDictID(dict, r) : 0, (c != NULL && d != NULL) ? 1 : 0);
        ZSTD_freeCDict(c); ZSTD_freeDDict(d);
    }
    free(dict); free(copy); c18_free_samples(&s);
}

/* best <op>... : S | F:id:csize:hasdict:dsize  -> state after each op "live csize who dsize" joined by ';' */
static void cmd_best(char** t, int n) {
    COVER_best_t best; int i;
    COVER_best_init(&best);
    for (i = 1; i < n; i++) {
        if (t[i][0] == 'S') COVER_best_start(&best);
        else {
            unsigned id; unsigned long long cs, ds; int has;
            ZDICT_cover_params_t p; COVER_dictSelection_t sel; unsigned char* buf;
            if (sscanf(t[i], "F:%u:%llu:%d:%llu", &id, &cs, &has, &ds) != 4) { printf("BADCASE\n"); return; }
            memset(&p, 0, sizeof p); p.k = id + 1; p.d = 8;
            buf = (unsigned char*)malloc(ds ? (size_t)ds : 1);
            memset(buf, (int)(id & 0xff), (size_t)ds);
            sel.dictContent = has ? buf : NULL; sel.dictSize = (size_t)ds; sel.totalCompressedSize = (size_t)cs;
            COVER_best_finish(&best, p, sel);
            free(buf);
        }
        {   int who = (int)best.parameters.k - 1; size_t j; int bad = 0;
            if (who >= 0) for (j = 0; j < best.dictSize; j++) if (((unsigned char*)best.dict)[j] != (unsigned char)(who & 0xff)) bad = 1;
            if (i > 1) printf(";");
            printf("%llu %llu ", (unsigned long long)best.liveJobs, (unsigned long long)best.compressedSize);
            if (who < 0) printf("-"); else printf("%d", who);
            printf(" %llu%s", (unsigned long long)best.dictSize, bad ? " BADBYTES" : "");
        }
    }
    printf("\n");
    /* COVER_best_destroy waits for liveJobs == 0: only call it when that holds */
    if (best.liveJobs == 0) COVER_best_destroy(&best);
}

/* opt c|f cap d k steps spnum spsh f accel nbThreads level dictID  rsteps rspnum rspsh  njobs d:k ...  <samples>
 * (spnum,spsh) = the split point given to the optimiser (0 0 = "not set"); (rspnum,rspsh), rsteps = the resolved
 * values the per-candidate runs use (taken from the model).
 * -> OPT real=<ERR:name|OK:size:k:d:hash> cands=<csize:has:dsize:hash|CTXERR>,... */
static void cmd_opt(char** t, int n) {
    int const isCover = t[1][0] == 'c';
    size_t cap = (size_t)strtoull(t[2], 0, 10);
    unsigned d = (unsigned)strtoul(t[3], 0, 10), k = (unsigned)strtoul(t[4], 0, 10), steps = (unsigned)strtoul(t[5], 0, 10);
    double sp = (t[6][0] == '0' && t[6][1] == 0) ? 0.0 : sp_of(t[6], t[7]);
    unsigned f = (unsigned)strtoul(t[8], 0, 10), accel = (unsigned)strtoul(t[9], 0, 10);
    unsigned nbThreads = (unsigned)strtoul(t[10], 0, 10); int level = atoi(t[11]);
    unsigned dictID = (unsigned)strtoul(t[12], 0, 10);
    unsigned rsteps = (unsigned)strtoul(t[13], 0, 10); double rsp = sp_of(t[14], t[15]);
    int njobs = atoi(t[16]); int i, used;
    unsigned* ds = (unsigned*)malloc((njobs + 1) * sizeof(unsigned));
    unsigned* ks = (unsigned*)malloc((njobs + 1) * sizeof(unsigned));
    zv_cand* out = (zv_cand*)calloc(njobs + 1, sizeof(zv_cand));
    c18_samples s; unsigned char* dict; size_t r;
    for (i = 0; i < njobs; i++) if (sscanf(t[17 + i], "%u:%u", &ds[i], &ks[i]) != 2) { printf("BADCASE\n"); return; }
    if (c18_parse_samples(t + 17 + njobs, n - 17 - njobs, &s) < 0) { printf("BADCASE\n"); return; }
    dict = (unsigned char*)malloc(cap ? cap : 1);
    memset(dict, 0xEE, cap);
    printf("OPT real=");
    if (isCover) {
        ZDICT_cover_params_t p; memset(&p, 0, sizeof p);
        p.k = k; p.d = d; p.steps = steps; p.nbThreads = nbThreads; p.splitPoint = sp;
        p.zParams.compressionLevel = level; p.zParams.dictID = dictID;
        r = ZDICT_optimizeTrainFromBuffer_cover(dict, cap, s.buf, s.sizes, s.nb, &p);
        if (ZDICT_isError(r)) printf("ERR:%s", errname(r));
        else printf("OK:%zu:%u:%u:%llu", r, p.k, p.d, (unsigned long long)c18_fnv(dict, r <= cap ? r : 0));
    } else {
        ZDICT_fastCover_params_t p; memset(&p, 0, sizeof p);
        p.k = k; p.d = d; p.steps = steps; p.nbThreads = nbThreads; p.splitPoint = sp; p.f = f; p.accel = accel;
        p.zParams.compressionLevel = level; p.zParams.dictID = dictID;
        r = ZDICT_optimizeTrainFromBuffer_fastCover(dict, cap, s.buf, s.sizes, s.nb, &p);
        if (ZDICT_isError(r)) printf("ERR:%s", errname(r));
        else printf("OK:%zu:%u:%u:%llu", r, p.k, p.d, (unsigned long long)c18_fnv(dict, r <= cap ? r : 0));
    }
    {   ZDICT_cover_params_t base; memset(&base, 0, sizeof base);
        base.k = k; base.d = d; base.steps = rsteps; base.nbThreads = nbThreads; base.splitPoint = rsp;
        base.zParams.compressionLevel = level; base.zParams.dictID = dictID;
        used = njobs == 0 ? 0
             : isCover ? zv_cover_candidates(s.buf, s.sizes, s.nb, cap, base, ds, ks, njobs, out)
                       : zv_fast_candidates(s.buf, s.sizes, s.nb, cap, base, f ? f : 20, accel ? accel : 1, ds, ks, njobs, out);
    }
    printf(" cands=");
    if (used == 0) printf("-");
    for (i = 0; i < used; i++) {
        if (i) printf(",");
        if (out[i].ctxerr) printf("CTXERR");
        else printf("%llu:%d:%llu:%llu", out[i].csize, out[i].hasdict, out[i].dsize, out[i].hash);
    }
    printf("\n");
    free(ds); free(ks); free(out); free(dict); c18_free_samples(&s);
}

/* ---------------------------------------------------------------- round 2: segment selection / buildDictionary */
static void print_u32s(const unsigned* v, size_t n) {
    size_t i; if (n == 0) { printf("-"); return; }
    for (i = 0; i < n; i++) printf("%s%u", i ? "," : "", v[i]);
}
/* fbuild d f accel k cap <samples> -> FB <ERR | nbDmers fh tail dirty content=<hex>> bytes=<hex of the samples> */
static void cmd_fbuild(char** t, int n) {
    unsigned d = (unsigned)strtoul(t[1], 0, 10), f = (unsigned)strtoul(t[2], 0, 10), accel = (unsigned)strtoul(t[3], 0, 10);
    unsigned k = (unsigned)strtoul(t[4], 0, 10); size_t cap = (size_t)strtoull(t[5], 0, 10);
    c18_samples s; unsigned char* dict; zv_fres r;
    if (c18_parse_samples(t + 6, n - 6, &s) < 0) { printf("BADCASE\n"); return; }
    dict = (unsigned char*)malloc(cap ? cap : 1); memset(dict, 0xEE, cap);
    r = zv_fast_build(s.buf, s.sizes, s.nb, d, f, accel, k, cap, dict);
    if (r.err) printf("FB ERR");
    else if (r.tail > cap) printf("FB OVERRUN");
    else { printf("FB %llu %llu %zu %s content=", r.nbDmers, r.fh, r.tail, r.dirty ? "dirty" : "clean"); c18_print_hex(dict + r.tail, cap - r.tail); }
    printf(" bytes="); c18_print_hex(s.buf, s.total); printf("\n");
    free(dict); c18_free_samples(&s);
}
/* fsel d f accel k begin end <samples> -> FS <ERR | begin end score fh dirty> bytes=<hex> */
static void cmd_fsel(char** t, int n) {
    unsigned d = (unsigned)strtoul(t[1], 0, 10), f = (unsigned)strtoul(t[2], 0, 10), accel = (unsigned)strtoul(t[3], 0, 10);
    unsigned k = (unsigned)strtoul(t[4], 0, 10), b = (unsigned)strtoul(t[5], 0, 10), e = (unsigned)strtoul(t[6], 0, 10);
    c18_samples s; zv_fres r;
    if (c18_parse_samples(t + 7, n - 7, &s) < 0) { printf("BADCASE\n"); return; }
    r = zv_fast_select(s.buf, s.sizes, s.nb, d, f, accel, k, b, e);
    if (r.err) printf("FS ERR%d", r.err);
    else printf("FS %u %u %u %llu %s", r.seg.begin, r.seg.end, r.seg.score, r.fh, r.dirty ? "dirty" : "clean");
    printf(" bytes="); c18_print_hex(s.buf, s.total); printf("\n");
    c18_free_samples(&s);
}
/* cbuild d k cap <samples> -> CB <ERR | n keys=.. fv=.. tail content=<hex>> bytes=<hex>
 * csel d k begin end <samples> -> CS <ERR | n keys=.. fv=.. begin end score after=..> */
static void cmd_cover(char** t, int n, int doBuild) {
    unsigned d = (unsigned)strtoul(t[1], 0, 10), k = (unsigned)strtoul(t[2], 0, 10);
    size_t cap = doBuild ? (size_t)strtoull(t[3], 0, 10) : 0;
    unsigned b = doBuild ? 0 : (unsigned)strtoul(t[3], 0, 10), e = doBuild ? 0 : (unsigned)strtoul(t[4], 0, 10);
    int const first = doBuild ? 4 : 5;
    c18_samples s; unsigned char* dict; zv_cres r;
    if (c18_parse_samples(t + first, n - first, &s) < 0) { printf("BADCASE\n"); return; }
    dict = (unsigned char*)malloc(cap ? cap : 1); memset(dict, 0xEE, cap);
    r = zv_cover_run(s.buf, s.sizes, s.nb, d, k, cap, dict, doBuild, b, e);
    printf(doBuild ? "CB " : "CS ");
    if (r.err) printf("ERR%d", r.err);
    else if (doBuild && r.tail > cap) printf("OVERRUN");
    else {
        printf("%llu keys=", r.nbDmers); print_u32s(r.keys, (size_t)r.nbDmers);
        printf(" fv="); print_u32s(r.fvals, (size_t)r.nbDmers);
        if (doBuild) { printf(" %zu content=", r.tail); c18_print_hex(dict + r.tail, cap - r.tail); }
        else { printf(" %u %u %u after=", r.seg.begin, r.seg.end, r.seg.score); print_u32s(r.fafter, (size_t)r.nbDmers); }
    }
    if (doBuild) { printf(" bytes="); c18_print_hex(s.buf, s.total); }
    printf("\n");
    free(r.keys); free(r.fvals); free(r.fafter); free(dict); c18_free_samples(&s);
}
/* lb first count value o0,o1,... -> index returned by COVER_lower_bound(offs+first, offs+first+count, value) */
static void cmd_lb(char** t, int n) {
    size_t first = (size_t)strtoull(t[1], 0, 10), count = (size_t)strtoull(t[2], 0, 10), value = (size_t)strtoull(t[3], 0, 10);
    size_t* offs; size_t m = 1, i = 0; char* p; (void)n;
    for (p = t[4]; *p; p++) if (*p == ',') m++;
    offs = (size_t*)malloc(m * sizeof(size_t));           /* exact size: ASan sees a read past the array */
    for (p = t[4]; i < m; i++) { offs[i] = (size_t)strtoull(p, &p, 10); if (*p == ',') p++; }
    printf("%zu\n", zv_lower_bound(offs, first, count, value));
    free(offs);
}
static void cmd_mapinit(char** t, int n) { (void)n; { int lg = zv_map_init_log((unsigned)strtoul(t[1], 0, 10)); if (lg < 0) printf("ERR\n"); else printf("%d\n", lg); } }
static void cmd_maphash(char** t, int n) { (void)n; printf("%u\n", zv_map_hash((unsigned)strtoul(t[1], 0, 10), (unsigned)strtoul(t[2], 0, 10))); }

/* mapops size op... : op = a<key> | d<key>; prints "OK v1,v2,.. | k:v k:v ..." (all slots) */
static void cmd_mapops(char** t, int n) {
    unsigned size = (unsigned)strtoul(t[1], 0, 10); int nops = n - 2, i, slots;
    unsigned* keys = (unsigned*)malloc((nops + 1) * sizeof(unsigned)); int* ops = (int*)malloc((nops + 1) * sizeof(int));
    unsigned* vals = (unsigned*)malloc((nops + 1) * sizeof(unsigned)); unsigned cap = 2 * 4096; unsigned* table = (unsigned*)malloc(cap * sizeof(unsigned));
    for (i = 0; i < nops; i++) { ops[i] = t[2 + i][0] == 'a'; keys[i] = (unsigned)strtoul(t[2 + i] + 1, 0, 10); }
    slots = zv_map_ops(size, keys, ops, nops, vals, table, cap);
    if (slots < 0) { printf("ERR\n"); return; }
    printf("OK ");
    for (i = 0; i < nops; i++) printf("%s%u", i ? "," : "", vals[i]);
    printf(" |");
    for (i = 0; i < slots && 2 * i + 1 < (int)cap; i++) printf(" %u:%u", table[2 * i], table[2 * i + 1]);
    printf("\n");
}

/* oc dictSize : offcodeMax of the real ZDICT_analyzeEntropy */
static void cmd_oc(char** t, int n) { (void)n; { int m = zv_offcode_max(strtoull(t[1], 0, 10)); if (m == -1) printf("TOOLARGE\n"); else if (m < 0) printf("HARNESS\n"); else printf("OK %d\n", m); } }

static void dispatch(char** t, int n) {
    if (!strcmp(t[0], "chk") && n == 6) cmd_chk(t, n);
    else if (!strcmp(t[0], "fchk") && n == 8) cmd_fchk(t, n);
    else if (!strcmp(t[0], "ep") && n == 5) cmd_ep(t, n);
    else if (!strcmp(t[0], "ctx") && n >= 10) cmd_ctx(t, n);
    else if (!strcmp(t[0], "fin") && n >= 11) cmd_fin(t, n);
    else if (!strcmp(t[0], "adde") && n >= 11) cmd_adde(t, n);
    else if (!strcmp(t[0], "best")) cmd_best(t, n);
    else if (!strcmp(t[0], "opt") && n >= 20) cmd_opt(t, n);
    else if (!strcmp(t[0], "fbuild") && n >= 9) cmd_fbuild(t, n);
    else if (!strcmp(t[0], "fsel") && n >= 10) cmd_fsel(t, n);
    else if (!strcmp(t[0], "cbuild") && n >= 7) cmd_cover(t, n, 1);
    else if (!strcmp(t[0], "csel") && n >= 8) cmd_cover(t, n, 0);
    else if (!strcmp(t[0], "lb") && n == 5) cmd_lb(t, n);
    else if (!strcmp(t[0], "mapinit") && n == 2) cmd_mapinit(t, n);
    else if (!strcmp(t[0], "maphash") && n == 3) cmd_maphash(t, n);
    else if (!strcmp(t[0], "oc") && n == 2) cmd_oc(t, n);
    else if (!strcmp(t[0], "mapops") && n >= 2) cmd_mapops(t, n);
    else printf("BADCASE\n");
}

int main(int argc, char** argv) {
    static char line[1 << 20];
    static char* tok[MAXTOK];
    unsigned timeout = argc > 1 ? (unsigned)atoi(argv[1]) : 60;
    char errfile[256];
    snprintf(errfile, sizeof errfile, "%s", argc > 2 ? argv[2] : "/dev/null");
    setvbuf(stdout, NULL, _IOLBF, 0);
    while (fgets(line, sizeof line, stdin)) {
        pid_t pid;
        int st;
        fflush(stdout);
        pid = fork();
        if (pid == 0) {
            int n;
            int fd = open(errfile, O_WRONLY | O_CREAT | O_TRUNC, 0644);
            if (fd >= 0) { dup2(fd, 2); close(fd); }
            alarm(timeout);
            n = c18_split(line, tok, MAXTOK);
            if (n == 0) { printf("BADCASE\n"); fflush(stdout); _exit(0); }
            dispatch(tok, n);
            fflush(stdout);
            _exit(0);
        }
        if (pid < 0) { printf("CRASH fork-failed\n.END\n"); continue; }
        waitpid(pid, &st, 0);
        if (WIFSIGNALED(st)) printf("\nCRASH signal=%d%s\n", WTERMSIG(st), WTERMSIG(st) == SIGALRM ? " (timeout)" : "");
        else if (WEXITSTATUS(st) != 0) {
            /* sanitizer report: first interesting line of the child's stderr */
            char msg[400] = ""; FILE* ef = fopen(errfile, "r");
            if (ef) { char l[400]; while (fgets(l, sizeof l, ef)) if (strstr(l, "ERROR") || strstr(l, "runtime error") || strstr(l, "WARNING: ThreadSanitizer")) { size_t m = strlen(l); if (m && l[m-1] == '\n') l[m-1] = 0; snprintf(msg, sizeof msg, "%s", l); break; } fclose(ef); }
            printf("\nCRASH exit=%d %s\n", WEXITSTATUS(st), msg);
        }
        printf(".END\n");
    }
    return 0;
}
