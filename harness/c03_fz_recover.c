/* libFuzzer target of the bounded fuzzing phase of ./check C03 --tier thorough (round 3): ZSTD_decompressStream after an error, recovered the two documented
 * ways (zstd.h: ZSTD_DCtx_reset, or an operation that starts a new decompression job: ZSTD_decompressDCtx / ZSTD_decompress_usingDict), then fed the
 * rest of the untrusted bytes; legacy + modern + magicless, refMultipleDDicts, maxBlockSize, a short dictionary */
#define ZSTD_STATIC_LINKING_ONLY
#include "zstd.h"
#include "zstd_errors.h"
#include <stdlib.h>
#include <string.h>
#include <stdint.h>
int LLVMFuzzerTestOneInput(const uint8_t* data, size_t size) {
    if (size < 4) return 0;
    unsigned sel = data[0], s1 = data[1], s2 = data[2], s3 = data[3]; data += 4; size -= 4;
    static const size_t caps[8] = { 0, 5, 100, 1000, 4096, 70000, 140000, 600000 };
    size_t cap = caps[sel % 8]; size_t fn = size;
    unsigned char* f = (unsigned char*)malloc(fn ? fn : 1); memcpy(f, data, fn);
    ZSTD_DCtx* dc = ZSTD_createDCtx();
    if (sel & 8) ZSTD_DCtx_setParameter(dc, ZSTD_d_format, ZSTD_f_zstd1_magicless);
    if (sel & 32) ZSTD_DCtx_setParameter(dc, ZSTD_d_maxBlockSize, (s1 & 1) ? 1024 : (1024 << (s1 % 8)));
    if (sel & 64) ZSTD_DCtx_setParameter(dc, ZSTD_d_refMultipleDDicts, 1);
    ZSTD_DCtx_setParameter(dc, ZSTD_d_windowLogMax, 10 + (s2 % 14));
    if (s1 & 2) { size_t dn = (s1 >> 2) % 64; if (dn > fn) dn = fn; ZSTD_DCtx_loadDictionary(dc, f + fn - dn, dn); }
    { size_t ipos = 0, opos = 0; unsigned guard = 0; unsigned rs = s3 * 2654435761u + 12345; int stalls = 0; int errors = 0;
      while (guard++ < 20000) {
        rs = rs * 1103515245u + 12345u;
        size_t il = fn - ipos, ol = cap > opos ? cap - opos : 0;
        if (s3 & 1) { size_t a = 1 + (rs >> 8) % 37; if (il > a) il = a; { size_t b = 1 + (rs >> 16) % 300; if (ol > b) ol = b; } }
        unsigned char* isub = (unsigned char*)malloc(il ? il : 1); memcpy(isub, f + ipos, il);
        unsigned char* osub = ol ? (unsigned char*)malloc(ol) : NULL;
        ZSTD_inBuffer ib = { isub, il, 0 }; ZSTD_outBuffer ob = { osub, ol, 0 };
        size_t r = ZSTD_decompressStream(dc, &ob, &ib);
        if (ob.pos > ol || ib.pos > il) abort();
        free(isub); free(osub);
        if (ZSTD_isError(r)) {
            if (++errors > 4) break;
            if (s3 & 2) ZSTD_DCtx_reset(dc, ZSTD_reset_session_only);      /* legitimate recovery */
            else { /* the other documented recovery: an operation that starts a new decompression job */
                size_t rem = fn - ipos; size_t take = (s3 & 8) ? rem : (rem < 60 ? rem : 60); unsigned char* o2 = (unsigned char*)malloc(cap ? cap : 1);
                unsigned char* i2 = (unsigned char*)malloc(take ? take : 1); memcpy(i2, f + ipos, take);
                size_t r2 = (s3 & 16) ? ZSTD_decompress_usingDict(dc, o2, cap, i2, take, NULL, 0) : ZSTD_decompressDCtx(dc, o2, cap, i2, take); if (!ZSTD_isError(r2) && r2 > cap) abort();
                free(o2); free(i2); }
            if (s3 & 4) ipos += (il < 3 ? il : 3);                          /* skip a few bytes */
            if (ipos >= fn) break;
            continue;                                                        /* else : call again as is */
        }
        if (ib.pos == 0 && ob.pos == 0) { if (++stalls > 40) abort(); if (stalls > 20) break; } else stalls = 0;
        ipos += ib.pos; opos += ob.pos;
        if (r == 0 && ipos == fn) break;
      }
    }
    ZSTD_freeDCtx(dc); free(f);
    return 0;
}
