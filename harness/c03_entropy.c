/* c03_entropy: the two readers of entropy-table descriptions that every untrusted table goes through
 * (lib/common/entropy_common.c: HUF_readStats, FSE_readNCount), called directly with exact-size heap buffers for
 * every output array, so that with the `asan` variant an index one past rankStats / huffWeight / normalizedCounter
 * is a trap even when the surrounding decoder would mask it.  Output format = the one of ml/c03_driver.ml
 * (commands UH / UN) for line-by-line comparison with the reference decoder's readers.
 *
 *   UH <id> <srchex>                 HUF_readStats(hwSize 256)
 *      -> UH <id> OK used=<n> log=<tableLog> w=<weights of all nbSymbols symbols, hex digit each, ':' separated when > 15>
 *       | UH <id> ERR
 *   UN <id> <maxSymbolValue> <srchex> FSE_readNCount
 *      -> UN <id> OK used=<n> log=<tableLog> c=<normalized counts up to the returned maxSymbolValue, comma separated>
 *       | UN <id> ERR
 */
#define FSE_STATIC_LINKING_ONLY
#define HUF_STATIC_LINKING_ONLY
#include "common/mem.h"
#include "common/error_private.h"
#include "common/fse.h"
#include "common/huf.h"
#include <stdio.h>
#include <stdlib.h>
#include <string.h>

static unsigned char* unhex(const char* s, size_t* n) {
    size_t l, i; unsigned char* b;
    if (!strcmp(s, "-")) { *n = 0; return (unsigned char*)malloc(1); }
    l = strlen(s) / 2; b = (unsigned char*)malloc(l ? l : 1);      /* exact size: over-reads of the source are trapped too */
    for (i = 0; i < l; i++) { unsigned v; sscanf(s + 2 * i, "%2x", &v); b[i] = (unsigned char)v; }
    *n = l; return b;
}

int main(void) {
    char* line = NULL; size_t lcap = 0; ssize_t len;
    while ((len = getline(&line, &lcap, stdin)) > 0) {
        char* t[6]; int nt = 0; char* sv = NULL; char* tok = strtok_r(line, " \n", &sv);
        while (tok && nt < 6) { t[nt++] = tok; tok = strtok_r(NULL, " \n", &sv); }
        if (nt >= 3 && !strcmp(t[0], "UH")) {
            size_t sn; unsigned char* src = unhex(t[2], &sn);
            BYTE* w = (BYTE*)malloc(256); U32* rank = (U32*)malloc((HUF_TABLELOG_MAX + 1) * sizeof(U32));
            U32 nbSym = 0, tlog = 0; size_t r;
            memset(w, 0, 256);
            r = HUF_readStats(w, 256, rank, &nbSym, &tlog, src, sn);
            printf("UH %s", t[1]);
            if (ERR_isError(r)) printf(" ERR\n");
            else { U32 i; printf(" OK used=%lu log=%u w=", (unsigned long)r, tlog);
                   for (i = 0; i < nbSym && i < 256; i++) printf("%u,", (unsigned)w[i]);
                   putchar('\n'); }
            free(w); free(rank); free(src);
        } else if (nt >= 4 && !strcmp(t[0], "UN")) {
            unsigned msv = (unsigned)atoi(t[2]), tlog = 0; size_t sn; unsigned char* src = unhex(t[3], &sn);
            unsigned const msv0 = msv;
            short* norm = (short*)malloc((msv + 1) * sizeof(short)); size_t r;
            r = FSE_readNCount(norm, &msv, &tlog, src, sn);
            printf("UN %s", t[1]);
            if (ERR_isError(r)) printf(" ERR\n");
            else { unsigned i; printf(" OK used=%lu log=%u c=", (unsigned long)r, tlog);
                   for (i = 0; i <= msv && i <= msv0; i++) printf("%d,", (int)norm[i]);
                   putchar('\n'); }
            free(norm); free(src);
        } else if (nt) printf("? BADCMD\n");
        fflush(stdout);
    }
    free(line);
    return 0;
}
