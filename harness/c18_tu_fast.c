/* C18 translation unit around lib/dictBuilder/fastcover.c */
#define ZDICT_STATIC_LINKING_ONLY
#include "dictBuilder/fastcover.c"
#include "c18_tu.h"

int zv_fast_check(unsigned k, unsigned d, size_t maxDict, unsigned f, unsigned accel, double sp) {
    ZDICT_cover_params_t p; memset(&p, 0, sizeof p); p.k = k; p.d = d; p.splitPoint = sp;
    return FASTCOVER_checkParameters(p, maxDict, f, accel);
}

zv_ctxinfo zv_fast_ctx(const void* samples, const size_t* sizes, unsigned nb, unsigned d, double sp, unsigned f, unsigned accel) {
    FASTCOVER_ctx_t ctx; zv_ctxinfo r; size_t e;
    memset(&r, 0, sizeof r); memset(&ctx, 0, sizeof ctx);
    e = FASTCOVER_ctx_init(&ctx, samples, sizes, nb, d, sp, f, FASTCOVER_defaultAccelParameters[accel]);
    if (ZSTD_isError(e)) { r.err = 1; return r; }
    r.nbTrain = (unsigned)ctx.nbTrainSamples; r.nbTest = (unsigned)ctx.nbTestSamples; r.nbDmers = ctx.nbDmers;
    FASTCOVER_ctx_destroy(&ctx);
    return r;
}

static void zv_frecord(COVER_best_t* best, zv_cand* out) {
    out->ctxerr = 0;
    out->csize = best->compressedSize;
    out->hasdict = (best->compressedSize != (size_t)-1) && best->dict != NULL;
    out->dsize = out->hasdict ? best->dictSize : 0;
    out->hash = out->hasdict ? zv_fnv(best->dict, best->dictSize) : 0;
}

int zv_fast_candidates(const void* samples, const size_t* sizes, unsigned nb, size_t cap, ZDICT_cover_params_t base,
                       unsigned f, unsigned accel, const unsigned* ds, const unsigned* ks, int njobs, zv_cand* out) {
    int j = 0;
    while (j < njobs) {
        unsigned const d = ds[j];
        FASTCOVER_ctx_t ctx;
        size_t const e = FASTCOVER_ctx_init(&ctx, samples, sizes, nb, d, base.splitPoint, f, FASTCOVER_defaultAccelParameters[accel]);
        if (ZSTD_isError(e)) { memset(&out[j], 0, sizeof out[j]); out[j].ctxerr = 1; return j + 1; }
        for (; j < njobs && ds[j] == d; j++) {
            COVER_best_t best;
            FASTCOVER_tryParameters_data_t* data = (FASTCOVER_tryParameters_data_t*)malloc(sizeof(*data));
            COVER_best_init(&best);
            data->ctx = &ctx; data->best = &best; data->dictBufferCapacity = cap;
            data->parameters = base; data->parameters.k = ks[j]; data->parameters.d = d;
            data->parameters.shrinkDict = 0; data->parameters.zParams.notificationLevel = 0;
            COVER_best_start(&best);
            FASTCOVER_tryParameters(data);
            COVER_best_wait(&best);
            zv_frecord(&best, &out[j]);
            COVER_best_destroy(&best);
        }
        FASTCOVER_ctx_destroy(&ctx);
    }
    return njobs;
}

/* ---- round 2 ---- */
static int zv_fctx(FASTCOVER_ctx_t* ctx, const void* samples, const size_t* sizes, unsigned nb, unsigned d, unsigned f, unsigned accel) {
    memset(ctx, 0, sizeof *ctx);
    return ZSTD_isError(FASTCOVER_ctx_init(ctx, samples, sizes, nb, d, 1.0, f, FASTCOVER_defaultAccelParameters[accel]));
}

zv_fres zv_fast_build(const void* samples, const size_t* sizes, unsigned nb, unsigned d, unsigned f, unsigned accel,
                      unsigned k, size_t cap, unsigned char* dict) {
    FASTCOVER_ctx_t ctx; zv_fres r; ZDICT_cover_params_t p; U16* segmentFreqs; size_t i;
    memset(&r, 0, sizeof r);
    if (zv_fctx(&ctx, samples, sizes, nb, d, f, accel)) { r.err = 1; return r; }
    r.nbDmers = ctx.nbDmers;
    r.fh = zv_fnv(ctx.freqs, ((size_t)4) << f);
    memset(&p, 0, sizeof p); p.k = k; p.d = d; p.splitPoint = 1.0;
    segmentFreqs = (U16*)calloc(((size_t)1) << f, sizeof(U16));
    r.tail = FASTCOVER_buildDictionary(&ctx, ctx.freqs, dict, cap, p, segmentFreqs);
    for (i = 0; i < (((size_t)1) << f); i++) if (segmentFreqs[i]) r.dirty = 1;
    free(segmentFreqs);
    FASTCOVER_ctx_destroy(&ctx);
    return r;
}

zv_fres zv_fast_select(const void* samples, const size_t* sizes, unsigned nb, unsigned d, unsigned f, unsigned accel,
                       unsigned k, unsigned begin, unsigned end) {
    FASTCOVER_ctx_t ctx; zv_fres r; ZDICT_cover_params_t p; U16* segmentFreqs; size_t i; COVER_segment_t sg;
    memset(&r, 0, sizeof r);
    if (zv_fctx(&ctx, samples, sizes, nb, d, f, accel)) { r.err = 1; return r; }
    r.nbDmers = ctx.nbDmers;
    if (end > ctx.nbDmers || begin > end) { r.err = 2; FASTCOVER_ctx_destroy(&ctx); return r; }   /* outside the function's contract */
    memset(&p, 0, sizeof p); p.k = k; p.d = d; p.splitPoint = 1.0;
    segmentFreqs = (U16*)calloc(((size_t)1) << f, sizeof(U16));
    sg = FASTCOVER_selectSegment(&ctx, ctx.freqs, begin, end, p, segmentFreqs);
    r.seg.begin = sg.begin; r.seg.end = sg.end; r.seg.score = sg.score;
    r.fh = zv_fnv(ctx.freqs, ((size_t)4) << f);
    for (i = 0; i < (((size_t)1) << f); i++) if (segmentFreqs[i]) r.dirty = 1;
    free(segmentFreqs);
    FASTCOVER_ctx_destroy(&ctx);
    return r;
}
