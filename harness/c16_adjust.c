/* C16 correspondence harness for the level -> parameter mechanism: ZSTD_adjustCParams_internal, ZSTD_adjustCParams,
 * ZSTD_getCParams_internal, ZSTD_getCParams of the CURRENT /repo sources.  One result line per input line:
 *   windowLog chainLog hashLog searchLog minMatch targetLength strategy <1 if ZSTD_checkCParams accepts the result> */
#include "compress/zstd_compress.c"
#include <stdio.h>
#include <stdlib.h>
#include <string.h>

static void out(ZSTD_compressionParameters c) {
    printf("%u %u %u %u %u %u %d %d\n", c.windowLog, c.chainLog, c.hashLog, c.searchLog, c.minMatch, c.targetLength, (int)c.strategy,
           !ZSTD_isError(ZSTD_checkCParams(c)));
}

int main(void) {
    static char line[4096];
    while (fgets(line, sizeof(line), stdin)) {
        char op[16]; char* p = line; int n = 0; unsigned long long a[16]; int k = 0;
        if (sscanf(p, "%15s%n", op, &n) < 1) continue;
        p += n;
        for (;;) { char* e; long long v; while (*p == ' ') p++; if (*p == '\n' || *p == 0) break;
            if (*p == '-') { v = strtoll(p, &e, 10); a[k++] = (unsigned long long)v; } else a[k++] = strtoull(p, &e, 10);
            if (e == p || k >= 16) break; p = e; }
        if (!strcmp(op, "adj") && k == 11) { ZSTD_compressionParameters c = { (unsigned)a[0], (unsigned)a[1], (unsigned)a[2], (unsigned)a[3], (unsigned)a[4], (unsigned)a[5], (ZSTD_strategy)a[6] };
            out(ZSTD_adjustCParams_internal(c, a[7], (size_t)a[8], (ZSTD_cParamMode_e)a[9], (ZSTD_paramSwitch_e)a[10])); }
        else if (!strcmp(op, "adjp") && k == 9) { ZSTD_compressionParameters c = { (unsigned)a[0], (unsigned)a[1], (unsigned)a[2], (unsigned)a[3], (unsigned)a[4], (unsigned)a[5], (ZSTD_strategy)a[6] };
            out(ZSTD_adjustCParams(c, a[7], (size_t)a[8])); }
        else if (!strcmp(op, "get") && k == 4) out(ZSTD_getCParams_internal((int)(long long)a[0], a[1], (size_t)a[2], (ZSTD_cParamMode_e)a[3]));
        else if (!strcmp(op, "getp") && k == 3) out(ZSTD_getCParams((int)(long long)a[0], a[1], (size_t)a[2]));
        else { fprintf(stderr, "c16_adjust: bad line: %s", line); return 3; }
    }
    return 0;
}
