/* C19 — ptrace supervisor ("kill-point enumerator").
 *
 *   c19_killer <K> <kill|int|none> <logfile> -- cmd args...
 *
 * Runs cmd under ptrace (following threads / children).  Counts, over the whole
 * process tree and in the order the kernel reports them, the entries of the
 * file-system relevant system calls listed in `watched`.  On entry of the K-th
 * such call (K >= 1):
 *    kill : SIGKILL to every traced task before the call executes (the call is
 *           skipped by the kernel: fatal signal pending at syscall-enter-stop);
 *    int  : SIGINT to the calling thread; the call completes, then the signal is delivered;
 *    none : nothing (dry run, K ignored);
 *    fail:<errno>  : the K-th call is not executed and returns -<errno> to the program (I/O fault injection:
 *           the system call number is replaced by -1 at the syscall-enter-stop, the return register is
 *           set at the syscall-exit-stop); every other call runs normally;
 *    failp:<errno> : the same, and every later call with the same system call number fails too
 *           (a disk that stays full).
 * The log gets one line per counted call: "<idx> <tid> <nr> <path-or-dash> <arg0> <arg1> <arg2> <arg3>",
 * "RET <idx> <tid> <value>" when the call returns, "ACT kill|int" when the action fires, and a
 * final "EXIT <code>" / "SIGNALED <sig>" line for the initial process ("ACT fail <errno>" / "INJ <idx>" lines
 * mark the injected failures).
 * env C19_WIDE=1 also counts read / stat / sigaction entries (finer signal points).
 * No zstd code is linked here.
 */
#define _GNU_SOURCE
#include <errno.h>
#include <signal.h>
#include <stdio.h>
#include <stdlib.h>
#include <string.h>
#include <unistd.h>
#include <sys/ptrace.h>
#include <sys/syscall.h>
#include <sys/types.h>
#include <sys/user.h>
#include <sys/wait.h>
#include <linux/ptrace.h>

#define MAXT 256
static pid_t tasks[MAXT];
static long pend[MAXT];       /* index of the counted call the task is currently inside, or 0 */
static long inj[MAXT];        /* errno to put into the return register at the exit stop of that call, or 0 */
static int ntasks = 0;

static int known(pid_t p) { int i; for (i = 0; i < ntasks; i++) if (tasks[i] == p) return 1; return 0; }
static void add(pid_t p) { if (!known(p) && ntasks < MAXT) { pend[ntasks] = 0; inj[ntasks] = 0; tasks[ntasks++] = p; } }
static void del(pid_t p) { int i; for (i = 0; i < ntasks; i++) if (tasks[i] == p) { --ntasks; tasks[i] = tasks[ntasks]; pend[i] = pend[ntasks]; inj[i] = inj[ntasks]; return; } }
static long* pendOf(pid_t p) { int i; for (i = 0; i < ntasks; i++) if (tasks[i] == p) return &pend[i]; return NULL; }
static long* injOf(pid_t p) { int i; for (i = 0; i < ntasks; i++) if (tasks[i] == p) return &inj[i]; return NULL; }

/* make the call the task is about to enter a no-op (x86-64: orig_rax = -1) */
static int skip_call(pid_t p)
{
    struct user_regs_struct r;
    if (ptrace(PTRACE_GETREGS, p, 0, &r) < 0) return -1;
    r.orig_rax = (unsigned long long)-1;
    return (int)ptrace(PTRACE_SETREGS, p, 0, &r);
}
static int set_ret(pid_t p, long err)
{
    struct user_regs_struct r;
    if (ptrace(PTRACE_GETREGS, p, 0, &r) < 0) return -1;
    r.rax = (unsigned long long)(-err);
    return (int)ptrace(PTRACE_SETREGS, p, 0, &r);
}

static int g_wide = 0;   /* env C19_WIDE=1: also count read / stat / sigaction entries (more signal points) */

static int watched(long nr, int* pathArg)
{
    *pathArg = -1;
    if (g_wide) {
        switch (nr) {
        case SYS_read: case SYS_pread64: case SYS_rt_sigaction: case SYS_fstat:
            return 1;
        case SYS_stat: case SYS_lstat:
            *pathArg = 0; return 1;
        case SYS_newfstatat:
            *pathArg = 1; return 1;
        default: break;
        }
    }
    switch (nr) {
    case SYS_open: case SYS_creat: case SYS_unlink: case SYS_chmod: case SYS_rename: case SYS_truncate: case SYS_mkdir: case SYS_rmdir:
        *pathArg = 0; return 1;
    case SYS_openat: case SYS_unlinkat: case SYS_utimensat: case SYS_renameat: case SYS_renameat2: case SYS_fchmodat: case SYS_mkdirat:
        *pathArg = 1; return 1;
    case SYS_close: case SYS_write: case SYS_pwrite64: case SYS_writev: case SYS_lseek: case SYS_fchmod: case SYS_fchown:
    case SYS_ftruncate: case SYS_exit_group: case SYS_fallocate:
        return 1;
    default: return 0;
    }
}

static void readstr(pid_t pid, unsigned long addr, char* out, size_t cap)
{
    size_t n = 0;
    out[0] = 0;
    if (!addr) return;
    while (n + sizeof(long) < cap) {
        long w;
        size_t i;
        errno = 0;
        w = ptrace(PTRACE_PEEKDATA, pid, (void*)(addr + n), 0);
        if (errno) break;
        for (i = 0; i < sizeof(long); i++) {
            char c = ((char*)&w)[i];
            out[n++] = (c == ' ' || c == '\n') ? '_' : c;
            if (!c) return;
        }
    }
    out[n] = 0;
}

int main(int argc, char** argv)
{
    long K;
    const char* action;
    FILE* lg;
    pid_t child;
    long count = 0;
    int acted = 0;
    int status = 0, haveStatus = 0;
    long failErr = 0, failNr = -1;
    int persistent = 0;

    if (argc < 6 || strcmp(argv[4], "--")) { fprintf(stderr, "usage: c19_killer K kill|int|none|fail:E|failp:E log -- cmd...\n"); return 2; }
    K = atol(argv[1]);
    g_wide = getenv("C19_WIDE") != NULL && getenv("C19_WIDE")[0] == '1';
    action = argv[2];
    if (!strncmp(action, "fail:", 5)) failErr = atol(action + 5);
    if (!strncmp(action, "failp:", 6)) { failErr = atol(action + 6); persistent = 1; }
    lg = fopen(argv[3], "we");
    if (!lg) { perror("log"); return 2; }

    child = fork();
    if (child < 0) { perror("fork"); return 2; }
    if (child == 0) {
        /* the traced program starts with the default disposition of SIGINT / SIGTERM and nothing blocked:
         * a check started as a background job of a non-interactive shell inherits SIGINT ignored, and a
         * signal sent before zstd installs its handler would then be dropped instead of ending the run */
        {   sigset_t none;
            signal(SIGINT, SIG_DFL); signal(SIGTERM, SIG_DFL); signal(SIGQUIT, SIG_DFL);
            sigemptyset(&none); sigprocmask(SIG_SETMASK, &none, NULL);
        }
        ptrace(PTRACE_TRACEME, 0, 0, 0);
        raise(SIGSTOP);
        execv(argv[5], argv + 5);
        perror("execv");
        _exit(127);
    }
    {   int st;
        if (waitpid(child, &st, __WALL) < 0 || !WIFSTOPPED(st)) { fprintf(stderr, "no initial stop\n"); return 2; }
        if (ptrace(PTRACE_SETOPTIONS, child, 0,
                   PTRACE_O_TRACESYSGOOD | PTRACE_O_TRACECLONE | PTRACE_O_TRACEFORK | PTRACE_O_TRACEVFORK |
                   PTRACE_O_TRACEEXEC | PTRACE_O_EXITKILL) < 0) { perror("setoptions"); return 2; }
        add(child);
        ptrace(PTRACE_SYSCALL, child, 0, 0);
    }

    while (ntasks > 0) {
        int st;
        pid_t p = waitpid(-1, &st, __WALL);
        if (p < 0) { if (errno == EINTR) continue; break; }
        if (WIFEXITED(st) || WIFSIGNALED(st)) {
            if (p == child) { status = st; haveStatus = 1; }
            del(p);
            continue;
        }
        if (!WIFSTOPPED(st)) continue;
        {   int sig = WSTOPSIG(st);
            int event = (st >> 16) & 0xffff;
            int deliver = 0;
            if (!known(p)) {
                /* new thread / child: its first stop is the automatic SIGSTOP */
                add(p);
                if (sig == SIGSTOP) { ptrace(PTRACE_SYSCALL, p, 0, 0); continue; }
            }
            if (sig == (SIGTRAP | 0x80)) {
                struct ptrace_syscall_info info;
                memset(&info, 0, sizeof(info));
                long got = ptrace(PTRACE_GET_SYSCALL_INFO, p, sizeof(info), &info);
                if (got > 0 && info.op == PTRACE_SYSCALL_INFO_EXIT) {
                    long* pe = pendOf(p);
                    long* ie = injOf(p);
                    if (ie && *ie) {
                        set_ret(p, *ie);
                        info.exit.rval = -*ie;
                        *ie = 0;
                    }
                    if (pe && *pe) {
                        fprintf(lg, "RET %ld %d %lld\n", *pe, (int)p, (long long)info.exit.rval);
                        fflush(lg);
                        *pe = 0;
                    }
                }
                if (got > 0 && info.op == PTRACE_SYSCALL_INFO_ENTRY) {
                    long nr = (long)info.entry.nr;
                    int pathArg;
                    if (watched(nr, &pathArg)) {
                        char path[512];
                        count++;
                        path[0] = '-'; path[1] = 0;
                        if (pathArg >= 0) {
                            readstr(p, (unsigned long)info.entry.args[pathArg], path, sizeof(path));
                            if (!path[0]) { path[0] = '-'; path[1] = 0; }
                        }
                        fprintf(lg, "%ld %d %ld %s %llu %llu %llu %llu\n", count, (int)p, nr, path,
                                (unsigned long long)info.entry.args[0], (unsigned long long)info.entry.args[1],
                                (unsigned long long)info.entry.args[2], (unsigned long long)info.entry.args[3]);
                        fflush(lg);
                        { long* pe = pendOf(p); if (pe) *pe = count; }
                        if (acted && failErr && persistent && nr == failNr && nr != SYS_exit_group) {
                            long* ie = injOf(p);
                            if (ie && skip_call(p) == 0) { *ie = failErr; fprintf(lg, "INJ %ld\n", count); fflush(lg); }
                        }
                        if (!acted && K > 0 && count == K) {
                            acted = 1;
                            if (failErr) {
                                long* ie = injOf(p);
                                failNr = nr;
                                if (nr != SYS_exit_group && ie && skip_call(p) == 0) {
                                    *ie = failErr;
                                    fprintf(lg, "ACT fail %ld\n", failErr); fflush(lg);
                                }
                            } else if (!strcmp(action, "kill")) {
                                int i;
                                kill(child, SIGKILL);
                                for (i = 0; i < ntasks; i++) kill(tasks[i], SIGKILL);
                                fprintf(lg, "ACT kill\n"); fflush(lg);
                            } else if (!strcmp(action, "int")) {
                                /* directed at the thread that makes the call: INThandler then runs on that thread
                                 * and never returns, as in the model (handler = atomic step) */
                                syscall(SYS_tgkill, child, p, SIGINT);
                                fprintf(lg, "ACT int\n"); fflush(lg);
                            }
                        }
                    }
                }
            } else if (sig == SIGTRAP && event != 0) {
                /* PTRACE_EVENT_* stop: nothing to do */
            } else if (event == PTRACE_EVENT_STOP) {
                /* group stop (not expected without SEIZE) */
            } else {
                deliver = sig;   /* signal-delivery-stop: pass the signal on */
            }
            ptrace(PTRACE_SYSCALL, p, 0, (void*)(long)deliver);
        }
    }
    if (haveStatus && WIFEXITED(status)) fprintf(lg, "EXIT %d\n", WEXITSTATUS(status));
    else if (haveStatus && WIFSIGNALED(status)) fprintf(lg, "SIGNALED %d\n", WTERMSIG(status));
    else fprintf(lg, "UNKNOWN\n");
    fclose(lg);
    return 0;
}
