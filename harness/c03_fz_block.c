/* libFuzzer target of the bounded fuzzing phase of ./check C03 --tier thorough (round 3; written for the round-2 campaign): block-level + buffer-less API in mixed orders */
/* libFuzzer target: block-level API + buffer-less API with odd call orders */
#define ZSTD_STATIC_LINKING_ONLY
#include "zstd.h"
#include "zstd_errors.h"
#include <stdlib.h>
#include <string.h>
#include <stdint.h>
#if defined(__has_feature)
#  if __has_feature(memory_sanitizer)
#    include <sanitizer/msan_interface.h>
#    define CHECK_INIT(p, n) __msan_check_mem_is_initialized((p), (n))
#  endif
#endif
#ifndef CHECK_INIT
#  define CHECK_INIT(p, n) ((void)0)
#endif

int LLVMFuzzerTestOneInput(const uint8_t* data, size_t size) {
    if (size < 4) return 0;
    unsigned sel = data[0], s1 = data[1], s2 = data[2], s3 = data[3]; data += 4; size -= 4;
    static const size_t caps[8] = { 0, 1, 33, 100, 1000, 65536+64, 131072, 300000 };
    size_t cap = caps[sel % 8];
    unsigned char* out = (unsigned char*)malloc(cap ? cap : 1);
    ZSTD_DCtx* dc = ZSTD_createDCtx();
    size_t dn = (sel & 8) ? (s1 % 128) : 0; if (dn > size) dn = size;
    unsigned char* d = (unsigned char*)malloc(dn ? dn : 1); memcpy(d, data, dn); data += dn; size -= dn;
    if (sel & 16) ZSTD_DCtx_setParameter(dc, ZSTD_d_disableHuffmanAssembly, 1);
    if (sel & 32) ZSTD_DCtx_setParameter(dc, ZSTD_d_maxBlockSize, 1024 << (s3 % 8));
    size_t r = dn ? ZSTD_decompressBegin_usingDict(dc, d, dn) : ZSTD_decompressBegin(dc);
    size_t opos = 0;
    /* split the input in up to 4 pieces, each used as one block: op chosen by s2 bits */
    int i; size_t off = 0;
    for (i = 0; i < 4 && !ZSTD_isError(r) && off <= size; i++) {
        size_t n = (i == 3) ? size - off : ((size - off) * ((s3 >> (2*i)) & 3)) / 3; 
        unsigned char* b = (unsigned char*)malloc(n ? n : 1); memcpy(b, data + off, n);
        unsigned op = (s2 >> (2 * i)) & 3;
        if (op == 0 || op == 3) { r = ZSTD_decompressBlock(dc, out + opos, cap - opos, b, n); if (!ZSTD_isError(r)) { if (r > cap - opos) abort(); CHECK_INIT(out + opos, r); opos += r; } else { r = 0; } }
        else if (op == 1) { /* insertBlock: a raw block the caller copied */ size_t k = n; if (k > cap - opos) k = cap - opos; memcpy(out + opos, b, k); ZSTD_insertBlock(dc, out + opos, k); opos += k; }
        else { /* decompressContinue with whatever it wants */ size_t need = ZSTD_nextSrcSizeToDecompress(dc); if (need > 0 && need <= n) { size_t rr = ZSTD_decompressContinue(dc, out + opos, cap - opos, b, need); if (!ZSTD_isError(rr)) { if (rr > cap - opos) abort(); opos += rr; } else { free(b); break; } } }
        free(b); off += n;
    }
    ZSTD_freeDCtx(dc); free(out); free(d);
    return 0;
}
