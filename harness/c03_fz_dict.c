/* libFuzzer target of the bounded fuzzing phase of ./check C03 --tier thorough (round 3; written for the round-2 campaign): dictionary loaders on hostile dictionaries, each content type / load method, then a frame */
/* libFuzzer target: dictionary loaders on hostile dictionaries, each content type, then decode a fixed or fuzzed frame */
#define ZSTD_STATIC_LINKING_ONLY
#include "zstd.h"
#include "zstd_errors.h"
#include <stdlib.h>
#include <string.h>
#include <stdint.h>
#if defined(__has_feature)
#  if __has_feature(memory_sanitizer)
#    include <sanitizer/msan_interface.h>
#    define CHECK_INIT(p, n) __msan_check_mem_is_initialized((p), (n))
#  endif
#endif
#ifndef CHECK_INIT
#  define CHECK_INIT(p, n) ((void)0)
#endif

static const char SAMPLE[] = "The quick brown fox jumps over the lazy dog. Pack my box with five dozen liquor jugs. How vexingly quick daft zebras jump!";
int LLVMFuzzerTestOneInput(const uint8_t* data, size_t size) {
    if (size < 4) return 0;
    unsigned sel = data[0], s1 = data[1]; size_t split = ((size_t)data[2] | ((size_t)data[3] << 8)); data += 4; size -= 4;
    if (split > size) split = size;
    size_t dn = split, fn = size - split;
    unsigned char* d = (unsigned char*)malloc(dn ? dn : 1); memcpy(d, data, dn);
    unsigned char* f = (unsigned char*)malloc(fn ? fn : 1); memcpy(f, data + split, fn);
    size_t cap = (sel & 1) ? 100 : 70000; unsigned char* out = (unsigned char*)malloc(cap);
    ZSTD_dictContentType_e ct = (ZSTD_dictContentType_e)((sel >> 1) % 3);
    ZSTD_dictLoadMethod_e lm = (sel & 8) ? ZSTD_dlm_byRef : ZSTD_dlm_byCopy;
    ZSTD_customMem cm = { NULL, NULL, NULL };
    ZSTD_DDict* dd = ZSTD_createDDict_advanced(d, dn, lm, ct, cm);
    ZSTD_DCtx* dc = ZSTD_createDCtx();
    if (dd) { size_t r = ZSTD_decompress_usingDDict(dc, out, cap, f, fn, dd); if (!ZSTD_isError(r) && r > cap) abort(); if (!ZSTD_isError(r)) CHECK_INIT(out, r);
        volatile unsigned id = ZSTD_getDictID_fromDDict(dd); (void)id; volatile size_t sz = ZSTD_sizeof_DDict(dd); (void)sz; }
    { size_t r = ZSTD_DCtx_loadDictionary_advanced(dc, d, dn, lm, ct);
      if (!ZSTD_isError(r)) { ZSTD_inBuffer ib = { f, fn, 0 }; ZSTD_outBuffer ob = { out, cap, 0 }; int k; for (k = 0; k < 50; k++) { size_t rr = ZSTD_decompressStream(dc, &ob, &ib); if (ZSTD_isError(rr) || rr == 0) break; if (ob.pos > cap) abort(); } } }
    { size_t r = ZSTD_decompress_usingDict(dc, out, cap, f, fn, d, dn); if (!ZSTD_isError(r) && r > cap) abort(); }
    if (s1 & 1) { ZSTD_DCtx_reset(dc, ZSTD_reset_session_and_parameters); ZSTD_DCtx_refPrefix_advanced(dc, d, dn, ct); size_t r = ZSTD_decompressDCtx(dc, out, cap, f, fn); if (!ZSTD_isError(r) && r > cap) abort(); }
    if (s1 & 2) { /* compress side with the hostile dict */
        ZSTD_CCtx* cc = ZSTD_createCCtx(); unsigned char cb[600]; int lvl = (s1 & 4) ? 19 : ((s1 & 8) ? 1 : 5);
        size_t cr = ZSTD_compress_usingDict(cc, cb, sizeof(cb), SAMPLE, sizeof(SAMPLE), d, dn, lvl);
        if (!ZSTD_isError(cr)) { unsigned char rt[sizeof(SAMPLE)]; size_t dr = ZSTD_decompress_usingDict(dc, rt, sizeof(rt), cb, cr, d, dn); if (dr != sizeof(SAMPLE) || memcmp(rt, SAMPLE, dr)) abort(); }
        ZSTD_freeCCtx(cc); }
    ZSTD_freeDDict(dd); ZSTD_freeDCtx(dc); free(d); free(f); free(out);
    return 0;
}
