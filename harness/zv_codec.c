/* zv_codec: line-oriented driver around the libzstd rebuilt from /repo's working tree.
 * One command per input line, one result line per command.  Used by the C01/C02/C04/C05/C08/C09/C10 checks.
 *
 *  C <id> <entry> <params> <dictmode> <dicthex|-> <inputhex|->          -> <id> OK <framehex> | <id> ERR <name>
 *      entry   : compress2 | simple:<level> | cctx:<level> | advanced:<level> | usingDict:<level> | usingCDict:<level>
 *      params  : "-" or id:value,id:value,...   (ZSTD_CCtx_setParameter, numeric ids)
 *      entry   : ... | blcdict:<level> (buffer-less API + CDict, non-contiguous segments)
 *      dictmode: - | load | loadref | prefix | cdict | cdictref | cdictraw | loadraw   (how the dictionary is given for compress2)
 *  S <id> <params> <dictmode> <dicthex|-> <ops> <inputhex|-> [pledged]    streaming compression history
 *      ops     : in:cap:dir;in:cap:dir;...  (dir 0 continue 1 flush 2 end ; in = bytes offered, cap = output capacity)
 *      -> <id> OK <framehex> <calls>   calls = consumed:produced:ret(or E<name>);...   (stops at first error)
 *  D <id> <path> <flags> <dicthex|-> <framehex|-> <capacity>              -> <id> OK <hex> [extra] | <id> ERR <name>
 *      path    : oneshot | dctx | usingDict | ddict | ddictwarm | ddictref | loaddict | refprefix | multiddict | multiddict2
 *                | stream:<inseg>:<outseg> | stableout:<inseg> | continue | inplace | block | nulldst (empty content only) | reuse
 *      flags   : "-" or id:value,... (ZSTD_DCtx_setParameter)
 *  I <id> <framehex>       inspectors -> <id> OK fcs=<..> bound=<..> csize=<..> margin=<..> did=<..> dsize=<..>
 */
#define ZSTD_STATIC_LINKING_ONLY
#define ZDICT_STATIC_LINKING_ONLY
#include "zstd.h"
#include "zstd_errors.h"
#include "zdict.h"
#include <stdio.h>
#include <stdlib.h>
#include <string.h>

static unsigned char* unhex(const char* s, size_t* n) {
    size_t l, i; unsigned char* b;
    if (!strcmp(s, "-")) { *n = 0; b = (unsigned char*)malloc(1); return b; }
    l = strlen(s) / 2; b = (unsigned char*)malloc(l + 1);
    for (i = 0; i < l; i++) {   /* table-free hex decoding (sscanf per byte dominated the run time of large inputs) */
        int const h = s[2 * i], w = s[2 * i + 1];
        b[i] = (unsigned char)((((h <= '9') ? h - '0' : (h | 32) - 'a' + 10) << 4) | ((w <= '9') ? w - '0' : (w | 32) - 'a' + 10));
    }
    *n = l; return b;
}
static void puthex(const unsigned char* b, size_t n) {
    static const char* H = "0123456789abcdef"; size_t i;
    if (n == 0) { putchar('-'); return; }
    for (i = 0; i < n; i++) { putchar(H[b[i] >> 4]); putchar(H[b[i] & 15]); }
}
static const char* ename(size_t code) { return ZSTD_getErrorString(ZSTD_getErrorCode(code)); }
static void perr(const char* id, size_t code) {
    const char* e = ename(code); printf("%s ERR ", id);
    for (; *e; e++) putchar(*e == ' ' ? '_' : *e);
    putchar('\n');
}

static size_t apply_cparams(ZSTD_CCtx* c, const char* p) {
    if (!strcmp(p, "-")) return 0;
    while (*p) { int id, v, n = 0;
        if (sscanf(p, "%d:%d%n", &id, &v, &n) < 2) break;
        { size_t r = ZSTD_CCtx_setParameter(c, (ZSTD_cParameter)id, v); if (ZSTD_isError(r)) return r; }
        p += n; if (*p == ',') p++; }
    return 0;
}
static size_t apply_dparams(ZSTD_DCtx* d, const char* p) {
    if (!strcmp(p, "-")) return 0;
    while (*p) { int id, v, n = 0;
        if (sscanf(p, "%d:%d%n", &id, &v, &n) < 2) break;
        { size_t r = ZSTD_DCtx_setParameter(d, (ZSTD_dParameter)id, v); if (ZSTD_isError(r)) return r; }
        p += n; if (*p == ',') p++; }
    return 0;
}

static ZSTD_CDict* g_cdict = NULL;
static size_t give_dict(ZSTD_CCtx* c, const char* mode, const unsigned char* d, size_t dn) {
    if (!strcmp(mode, "-")) return 0;
    if (!strcmp(mode, "load")) return ZSTD_CCtx_loadDictionary(c, d, dn);
    if (!strcmp(mode, "loadref")) return ZSTD_CCtx_loadDictionary_byReference(c, d, dn);
    if (!strcmp(mode, "prefix")) return ZSTD_CCtx_refPrefix(c, d, dn);
    if (!strcmp(mode, "loadraw")) return ZSTD_CCtx_loadDictionary_advanced(c, d, dn, ZSTD_dlm_byCopy, ZSTD_dct_rawContent);
    if (!strcmp(mode, "cdictraw")) {   /* the bytes are content only, whatever they look like */
        int lvl = 3; ZSTD_CCtx_getParameter(c, ZSTD_c_compressionLevel, &lvl);
        if (g_cdict) ZSTD_freeCDict(g_cdict);
        g_cdict = ZSTD_createCDict_advanced(d, dn, ZSTD_dlm_byCopy, ZSTD_dct_rawContent, ZSTD_getCParams(lvl, 0, dn), ZSTD_defaultCMem);
        if (!g_cdict) return (size_t)-ZSTD_error_memory_allocation;
        return ZSTD_CCtx_refCDict(c, g_cdict);
    }
    if (!strcmp(mode, "cdict") || !strcmp(mode, "cdictref")) {
        int lvl = 3; ZSTD_CCtx_getParameter(c, ZSTD_c_compressionLevel, &lvl);
        if (g_cdict) ZSTD_freeCDict(g_cdict);
        g_cdict = !strcmp(mode, "cdict") ? ZSTD_createCDict(d, dn, lvl) : ZSTD_createCDict_byReference(d, dn, lvl);
        if (!g_cdict) return (size_t)-ZSTD_error_memory_allocation;
        return ZSTD_CCtx_refCDict(c, g_cdict);
    }
    return (size_t)-ZSTD_error_GENERIC;
}

static void cmd_C(char** t) {
    const char* id = t[1]; const char* entry = t[2];
    size_t dn, n; unsigned char* d = unhex(t[5], &dn); unsigned char* in = unhex(t[6], &n);
    size_t cap = ZSTD_compressBound(n) + 64; unsigned char* out = (unsigned char*)malloc(cap);
    ZSTD_CCtx* c = ZSTD_createCCtx(); size_t r;
    int level = 3; const char* colon = strchr(entry, ':'); if (colon) level = atoi(colon + 1);
    if (!strncmp(entry, "compress2", 9)) {
        r = apply_cparams(c, t[3]);
        if (!ZSTD_isError(r)) r = give_dict(c, t[4], d, dn);
        if (!ZSTD_isError(r)) r = ZSTD_compress2(c, out, cap, in, n);
    } else if (!strncmp(entry, "simple", 6)) { r = ZSTD_compress(out, cap, in, n, level);
    } else if (!strncmp(entry, "cctx", 4)) { r = apply_cparams(c, t[3]); /* must be ignored by the simple API */
        if (!ZSTD_isError(r)) r = ZSTD_compressCCtx(c, out, cap, in, n, level);
    } else if (!strncmp(entry, "advanced", 8)) {
        ZSTD_parameters p = ZSTD_getParams(level, n, dn); r = ZSTD_compress_advanced(c, out, cap, in, n, dn ? d : NULL, dn, p);
    } else if (!strncmp(entry, "usingDict", 9)) { r = ZSTD_compress_usingDict(c, out, cap, in, n, d, dn, level);
    } else if (!strncmp(entry, "usingCDict", 10)) {
        ZSTD_CDict* cd = ZSTD_createCDict(d, dn, level); r = ZSTD_compress_usingCDict(c, out, cap, in, n, cd); ZSTD_freeCDict(cd);
    } else if (!strncmp(entry, "blcdict", 7)) {
        /* buffer-less API with a digested dictionary; the input arrives in segments that are NOT contiguous in memory
         * (separate allocations, the first one tiny), as a caller re-using small I/O buffers would supply it */
        ZSTD_CDict* cd = ZSTD_createCDict(d, dn, level);
        size_t cuts[5]; unsigned char* seg[4]; size_t k, op = 0;
        cuts[0] = 0; cuts[1] = n < 5 ? n : 5; cuts[2] = cuts[1] + (n - cuts[1]) / 3; cuts[3] = cuts[2] + (n - cuts[2]) / 2; cuts[4] = n;
        r = cd ? ZSTD_compressBegin_usingCDict(c, cd) : (size_t)-ZSTD_error_memory_allocation;
        for (k = 0; k < 4; k++) {
            size_t const len = cuts[k + 1] - cuts[k]; size_t w;
            seg[k] = (unsigned char*)malloc(len + 64 + 4096 * k); memcpy(seg[k] + 32, in + cuts[k], len);
            if (ZSTD_isError(r)) continue;
            w = (k == 3) ? ZSTD_compressEnd(c, out + op, cap - op, seg[k] + 32, len) : ZSTD_compressContinue(c, out + op, cap - op, seg[k] + 32, len);
            if (ZSTD_isError(w)) r = w; else op += w;
        }
        if (!ZSTD_isError(r)) r = op;
        for (k = 0; k < 4; k++) free(seg[k]);
        ZSTD_freeCDict(cd);
    } else r = (size_t)-ZSTD_error_GENERIC;
    if (ZSTD_isError(r)) perr(id, r); else { printf("%s OK ", id); puthex(out, r); putchar('\n'); }
    ZSTD_freeCCtx(c); if (g_cdict) { ZSTD_freeCDict(g_cdict); g_cdict = NULL; }
    free(d); free(in); free(out);
}

static void cmd_S(char** t, int nt) {
    const char* id = t[1];
    size_t dn, n; unsigned char* d = unhex(t[4], &dn); unsigned char* in = unhex(t[6], &n);
    size_t cap = ZSTD_compressBound(n) + 4096 + 64 * 1024, opos = 0, ipos = 0; unsigned char* out = (unsigned char*)malloc(cap);
    char* calls = (char*)malloc(64 * 4096); size_t cl = 0; int ncalls = 0;
    ZSTD_CCtx* c = ZSTD_createCCtx(); size_t r = apply_cparams(c, t[2]); const char* p = t[5];
    calls[0] = 0;
    if (!ZSTD_isError(r)) r = give_dict(c, t[3], d, dn);
    (void)nt;
    if (ZSTD_isError(r)) { perr(id, r); goto done; }
    if (!strcmp(p, "-")) p = "";
    if (nt > 7) { r = ZSTD_CCtx_setPledgedSrcSize(c, strtoull(t[7], NULL, 10)); if (ZSTD_isError(r)) { perr(id, r); goto done; } }
    {   int finished = 0, tail = 0;
        while (!finished && ncalls < 6000) {
            unsigned long inl, oc; int dir, k = 0;
            if (*p && sscanf(p, "%lu:%lu:%d%n", &inl, &oc, &dir, &k) >= 3) { p += k; if (*p == ';') p++; }
            else { inl = (unsigned long)(n - ipos); oc = (unsigned long)(cap - opos); dir = 2; tail = 1; }   /* history exhausted: finish the frame */
            if (inl > n - ipos) inl = n - ipos;
            if (oc > cap - opos) oc = cap - opos;
            {   ZSTD_inBuffer ib; ZSTD_outBuffer ob;
                ib.src = in + ipos; ib.size = inl; ib.pos = 0; ob.dst = out + opos; ob.size = oc; ob.pos = 0;
                r = ZSTD_compressStream2(c, &ob, &ib, (ZSTD_EndDirective)dir);
                ncalls++;
                if (ZSTD_isError(r)) { const char* e = ename(r); cl += sprintf(calls + cl, "%lu:%lu:E", (unsigned long)ib.pos, (unsigned long)ob.pos);
                    for (; *e; e++) calls[cl++] = (*e == ' ') ? '_' : *e; calls[cl++] = ';'; calls[cl] = 0; break; }
                ipos += ib.pos; opos += ob.pos;
                if (cl < 64 * 4096 - 100) cl += sprintf(calls + cl, "%lu:%lu:%lu%s;", (unsigned long)ib.pos, (unsigned long)ob.pos, (unsigned long)r, tail ? "t" : "");
                if (dir == 2 && r == 0 && ib.pos == inl) finished = 1;   /* frame complete */
                if (tail && ib.pos == 0 && ob.pos == 0 && r != 0) break;   /* no progress in the tail: give up */
            }
        }
    }
    printf("%s OK ", id); puthex(out, opos); printf(" %s\n", cl ? calls : "-");
done:
    ZSTD_freeCCtx(c); if (g_cdict) { ZSTD_freeCDict(g_cdict); g_cdict = NULL; }
    free(d); free(in); free(out); free(calls);
}

static size_t stream_decode(ZSTD_DCtx* dc, const unsigned char* f, size_t fn, unsigned char* out, size_t cap,
                            size_t inseg, size_t outseg, int stable, char* extra, size_t* produced) {
    size_t ipos = 0, opos = 0, r = 1; int guard = 0, zeros = 0; size_t el = 0;
    extra[0] = 0;
    if (stable) { size_t e = ZSTD_DCtx_setParameter(dc, ZSTD_d_stableOutBuffer, 1); if (ZSTD_isError(e)) return e; }
    for (;;) {
        ZSTD_inBuffer ib; ZSTD_outBuffer ob; size_t il = fn - ipos, ol = cap - opos;
        if (inseg && il > inseg) il = inseg;
        if (!stable && outseg && ol > outseg) ol = outseg;
        ib.src = f + ipos; ib.size = il; ib.pos = 0;
        if (stable) { ob.dst = out; ob.size = cap; ob.pos = opos; } else { ob.dst = out + opos; ob.size = ol; ob.pos = 0; }
        r = ZSTD_decompressStream(dc, &ob, &ib);
        if (ZSTD_isError(r)) return r;
        if (r == 0 && el < 900) el += sprintf(extra + el, "%lu,", (unsigned long)(ipos + ib.pos));   /* frame-end reports: input offset */
        if (ib.pos == 0 && (stable ? ob.pos == opos : ob.pos == 0)) { if (++zeros > 3) break; } else zeros = 0;
        ipos += ib.pos; opos = stable ? ob.pos : opos + ob.pos;
        if (ipos == fn && r == 0) break;
        if (ipos == fn && (stable ? 0 : ob.pos < ol)) break;     /* input exhausted, output not full: nothing more will come */
        if (++guard > 2000000) break;
    }
    *produced = opos;
    if (r != 0) return (size_t)-ZSTD_error_srcSize_wrong;    /* stream ended inside a frame */
    return 0;
}

static void cmd_D(char** t) {
    const char* id = t[1]; const char* path = t[2];
    size_t dn, fn; unsigned char* d = unhex(t[4], &dn); unsigned char* f = unhex(t[5], &fn);
    size_t cap = (size_t)strtoull(t[6], NULL, 10); unsigned char* out = (unsigned char*)malloc(cap + 1);
    ZSTD_DCtx* dc = ZSTD_createDCtx(); size_t r; size_t produced = 0; char extra[1024]; extra[0] = 0;
    r = apply_dparams(dc, t[3]);
    if (ZSTD_isError(r)) { perr(id, r); goto done; }
    if (!strcmp(path, "oneshot")) { r = ZSTD_decompress(out, cap, f, fn); produced = r;
    } else if (!strcmp(path, "dctx")) { r = ZSTD_decompressDCtx(dc, out, cap, f, fn); produced = r;
    } else if (!strcmp(path, "usingDict")) { r = ZSTD_decompress_usingDict(dc, out, cap, f, fn, d, dn); produced = r;
    } else if (!strcmp(path, "ddict") || !strcmp(path, "ddictref")) {
        ZSTD_DDict* dd = !strcmp(path, "ddict") ? ZSTD_createDDict(d, dn) : ZSTD_createDDict_byReference(d, dn);
        r = dd ? ZSTD_decompress_usingDDict(dc, out, cap, f, fn, dd) : (size_t)-ZSTD_error_memory_allocation; produced = r;
        ZSTD_freeDDict(dd);
    } else if (!strcmp(path, "ddictwarm")) {   /* same DCtx + DDict used twice: the second decode starts from a warm dictionary */
        ZSTD_DDict* dd = ZSTD_createDDict(d, dn);
        r = dd ? ZSTD_decompress_usingDDict(dc, out, cap, f, fn, dd) : (size_t)-ZSTD_error_memory_allocation;
        if (!ZSTD_isError(r)) { memset(out, 0, cap); r = ZSTD_decompress_usingDDict(dc, out, cap, f, fn, dd); }
        produced = r; ZSTD_freeDDict(dd);
    } else if (!strcmp(path, "loaddict")) { r = ZSTD_DCtx_loadDictionary(dc, d, dn);
        if (!ZSTD_isError(r)) { r = ZSTD_decompressDCtx(dc, out, cap, f, fn); produced = r; }
    } else if (!strcmp(path, "rawdict")) { r = ZSTD_DCtx_loadDictionary_advanced(dc, d, dn, ZSTD_dlm_byCopy, ZSTD_dct_rawContent);
        if (!ZSTD_isError(r)) { r = ZSTD_decompressDCtx(dc, out, cap, f, fn); produced = r; }
    } else if (!strcmp(path, "refprefix")) { r = ZSTD_DCtx_refPrefix(dc, d, dn);
        if (!ZSTD_isError(r)) { r = ZSTD_decompressDCtx(dc, out, cap, f, fn); produced = r; }
    } else if (!strcmp(path, "multiddict")) {
        ZSTD_DDict* dd = ZSTD_createDDict(d, dn);
        r = ZSTD_DCtx_setParameter(dc, ZSTD_d_refMultipleDDicts, ZSTD_rmd_refMultipleDDicts);
        if (!ZSTD_isError(r)) r = ZSTD_DCtx_refDDict(dc, dd);
        if (!ZSTD_isError(r)) { r = ZSTD_decompressDCtx(dc, out, cap, f, fn); produced = r; }
        ZSTD_freeDDict(dd);
    } else if (!strcmp(path, "multiddict2")) {
        /* several DDicts referenced, the one referenced last (the active one) is a decoy with another dictID:
         * the frame's own DDict must be picked from the table, one-shot and streaming */
        ZSTD_DDict* dd = ZSTD_createDDict(d, dn); ZSTD_DDict* decoy = NULL;
        int formatted = dn >= 8 && d[0] == 0x37 && d[1] == 0xA4 && d[2] == 0x30 && d[3] == 0xEC;
        r = ZSTD_DCtx_setParameter(dc, ZSTD_d_refMultipleDDicts, ZSTD_rmd_refMultipleDDicts);
        if (!ZSTD_isError(r)) r = ZSTD_DCtx_refDDict(dc, dd);
        if (ZSTD_getDictID_fromFrame(f, fn) == 0) formatted = 0;   /* the frame names no dictionary: the active DDict is the only candidate */
        if (formatted && dd) {
            unsigned char* d2 = (unsigned char*)malloc(dn); size_t i;
            memcpy(d2, d, dn); d2[4] ^= 0x55; if ((d2[4] | d2[5] | d2[6] | d2[7]) == 0) d2[5] = 1;
            for (i = dn - (dn > 64 ? 32 : 0); i < dn; i++) d2[i] ^= 0xA5;   /* different content too */
            decoy = ZSTD_createDDict(d2, dn); free(d2);
            if (decoy && !ZSTD_isError(r)) r = ZSTD_DCtx_refDDict(dc, decoy);
        }
        if (!ZSTD_isError(r)) { r = ZSTD_decompressDCtx(dc, out, cap, f, fn); produced = r; }
        if (!ZSTD_isError(r)) {   /* same table, streaming, after the decoy was made active again */
            unsigned char* o2 = (unsigned char*)malloc(cap + 1);
            ZSTD_inBuffer in; ZSTD_outBuffer ob; size_t r2 = 0;
            if (decoy) r2 = ZSTD_DCtx_refDDict(dc, decoy);
            in.src = f; in.size = fn; in.pos = 0; ob.dst = o2; ob.size = cap; ob.pos = 0;
            while (!ZSTD_isError(r2) && in.pos < in.size) { size_t before = in.pos + ob.pos; r2 = ZSTD_decompressStream(dc, &ob, &in); if (in.pos + ob.pos == before) break; }
            if (ZSTD_isError(r2)) r = r2;
            else if (ob.pos != produced || memcmp(o2, out, produced)) r = (size_t)-ZSTD_error_GENERIC;
            free(o2);
        }
        ZSTD_freeDDict(dd); ZSTD_freeDDict(decoy);
    } else if (!strncmp(path, "stream", 6) || !strncmp(path, "stableout", 9)) {
        unsigned long a = 0, b = 0; int stable = path[2] == 'a';
        if (stable) sscanf(path, "stableout:%lu", &a); else sscanf(path, "stream:%lu:%lu", &a, &b);
        if (dn) { r = ZSTD_DCtx_loadDictionary(dc, d, dn); if (ZSTD_isError(r)) { perr(id, r); goto done; } }
        r = stream_decode(dc, f, fn, out, cap, a, b, stable, extra, &produced);
    } else if (!strcmp(path, "continue")) {   /* buffer-less API, single frame sequence */
        size_t ipos = 0, opos = 0; r = dn ? ZSTD_decompressBegin_usingDict(dc, d, dn) : ZSTD_decompressBegin(dc);
        while (!ZSTD_isError(r)) {
            size_t need = ZSTD_nextSrcSizeToDecompress(dc);
            if (need == 0) { if (ipos == fn) { r = 0; break; }
                r = dn ? ZSTD_decompressBegin_usingDict(dc, d, dn) : ZSTD_decompressBegin(dc); continue; }
            if (need > fn - ipos) { r = (size_t)-ZSTD_error_srcSize_wrong; break; }
            r = ZSTD_decompressContinue(dc, out + opos, cap - opos, f + ipos, need);
            if (ZSTD_isError(r)) break;
            ipos += need; opos += r;
        }
        produced = opos; if (!ZSTD_isError(r)) r = opos;
    } else if (!strcmp(path, "inplace")) {
        size_t margin = ZSTD_decompressionMargin(f, fn);
        if (ZSTD_isError(margin)) { r = margin; }
        else { unsigned long long cs = ZSTD_findDecompressedSize(f, fn);
            if (cs == ZSTD_CONTENTSIZE_UNKNOWN || cs == ZSTD_CONTENTSIZE_ERROR) cs = cap;
            {   size_t total = (size_t)cs + margin; unsigned char* buf;
                if (total < fn) total = fn;   /* a frame whose header understates its content: keep the source inside the buffer */
                buf = (unsigned char*)malloc(total + 1);
                if (!buf) { r = (size_t)-ZSTD_error_memory_allocation; produced = 0; }
                else {
                memcpy(buf + total - fn, f, fn);
                r = ZSTD_decompressDCtx(dc, buf, total, buf + total - fn, fn);
                if (!ZSTD_isError(r)) { if (r > cap) r = (size_t)-ZSTD_error_dstSize_tooSmall; else memcpy(out, buf, r); }
                produced = r; free(buf); } } }
    } else if (!strcmp(path, "reuse")) {
        /* (C04 round 2) one DCtx with a history: a streaming decode abandoned half way through the frame, a single-call decode of the
         * whole frame, ZSTD_DCtx_reset(session_only), a complete streaming decode (7-byte input segments), a buffer-less decode:
         * the three complete decodes must agree */
        unsigned char* o2 = (unsigned char*)malloc(cap + 1); unsigned char* o3 = (unsigned char*)malloc(cap + 1);
        size_t p2 = 0; char ex2[1024];
        {   ZSTD_inBuffer in; ZSTD_outBuffer ob; in.src = f; in.size = fn / 2; in.pos = 0; ob.dst = o2; ob.size = cap / 2; ob.pos = 0;
            (void)ZSTD_decompressStream(dc, &ob, &in); }
        r = ZSTD_decompressDCtx(dc, out, cap, f, fn); produced = r;
        if (!ZSTD_isError(r)) { size_t e = ZSTD_DCtx_reset(dc, ZSTD_reset_session_only); if (ZSTD_isError(e)) r = e; }
        if (!ZSTD_isError(r)) { size_t e = stream_decode(dc, f, fn, o2, cap, 7, 0, 0, ex2, &p2);
            if (ZSTD_isError(e)) r = e; else if (p2 != produced || memcmp(o2, out, produced)) r = (size_t)-ZSTD_error_GENERIC; }
        if (!ZSTD_isError(r)) {   /* buffer-less on the same context, right after the streaming session */
            size_t ipos = 0, opos = 0; size_t e = ZSTD_decompressBegin(dc);
            while (!ZSTD_isError(e)) { size_t need = ZSTD_nextSrcSizeToDecompress(dc);
                if (need == 0) { if (ipos == fn) break; e = ZSTD_decompressBegin(dc); continue; }
                if (need > fn - ipos) { e = (size_t)-ZSTD_error_srcSize_wrong; break; }
                e = ZSTD_decompressContinue(dc, o3 + opos, cap - opos, f + ipos, need); if (ZSTD_isError(e)) break; ipos += need; opos += e; }
            if (ZSTD_isError(e)) r = e; else if (opos != produced || memcmp(o3, out, produced)) r = (size_t)-ZSTD_error_GENERIC; }
        free(o2); free(o3);
    } else if (!strcmp(path, "nulldst")) {
        /* (C04 round 2) destination NULL with capacity 0: legal for a frame whose content is empty; one-shot, then streaming */
        r = ZSTD_decompressDCtx(dc, NULL, 0, f, fn); produced = 0;
        if (!ZSTD_isError(r) && r != 0) r = (size_t)-ZSTD_error_GENERIC;
        if (!ZSTD_isError(r)) {
            ZSTD_inBuffer in; ZSTD_outBuffer ob; size_t r2 = 1; int guard = 0;
            in.src = f; in.size = fn; in.pos = 0; ob.dst = NULL; ob.size = 0; ob.pos = 0;
            while (in.pos < in.size && guard++ < 100000) { size_t const before = in.pos; r2 = ZSTD_decompressStream(dc, &ob, &in);
                if (ZSTD_isError(r2) || in.pos == before) break; }
            if (ZSTD_isError(r2)) r = r2; else if (r2 != 0 || in.pos != in.size) r = (size_t)-ZSTD_error_srcSize_wrong;
        }
    } else r = (size_t)-ZSTD_error_GENERIC;
    if (ZSTD_isError(r)) perr(id, r);
    else { printf("%s OK ", id); puthex(out, produced); if (extra[0]) printf(" ends=%s", extra); putchar('\n'); }
done:
    ZSTD_freeDCtx(dc); free(d); free(f); free(out);
}

static void cmd_I(char** t) {
    const char* id = t[1]; size_t fn; unsigned char* f = unhex(t[2], &fn);
    unsigned long long fcs = ZSTD_getFrameContentSize(f, fn);
    unsigned long long bound = ZSTD_decompressBound(f, fn);
    size_t cs = ZSTD_findFrameCompressedSize(f, fn);
    size_t margin = ZSTD_decompressionMargin(f, fn);
    unsigned long long ds = ZSTD_findDecompressedSize(f, fn);
    unsigned did = ZSTD_getDictID_fromFrame(f, fn);
    ZSTD_frameHeader h; size_t hr = ZSTD_getFrameHeader(&h, f, fn);
    printf("%s OK fcs=%llu bound=%llu csize=%s%llu margin=%s%llu dsize=%llu did=%u", id, fcs, bound,
           ZSTD_isError(cs) ? "E" : "", ZSTD_isError(cs) ? 0ULL : (unsigned long long)cs,
           ZSTD_isError(margin) ? "E" : "", ZSTD_isError(margin) ? 0ULL : (unsigned long long)margin, ds, did);
    if (hr == 0) printf(" hdr=%llu/%llu/%u/%u/%u/%u/%u", h.frameContentSize, h.windowSize, h.blockSizeMax, (unsigned)h.frameType, h.headerSize, h.dictID, h.checksumFlag);
    else printf(" hdr=E%lu", (unsigned long)(ZSTD_isError(hr) ? 0 : hr));
    putchar('\n'); free(f);
}

int main(void) {
    char* line = NULL; size_t lcap = 0; ssize_t len;
    while ((len = getline(&line, &lcap, stdin)) > 0) {
        char* t[12]; int nt = 0; char* sv = NULL; char* tok = strtok_r(line, " \n", &sv);
        while (tok && nt < 12) { t[nt++] = tok; tok = strtok_r(NULL, " \n", &sv); }
        if (nt == 0) continue;
        if (t[0][0] == 'C' && nt >= 7) cmd_C(t);
        else if (t[0][0] == 'S' && nt >= 7) cmd_S(t, nt);
        else if (t[0][0] == 'D' && nt >= 7) cmd_D(t);
        else if (t[0][0] == 'I' && nt >= 3) cmd_I(t);
        else printf("? BADCMD\n");
        fflush(stdout);
    }
    free(line);
    return 0;
}
