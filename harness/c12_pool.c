/* C12 correspondence harness: drives the REAL lib/common/pool.c (included below, so that the
 * private POOL_ctx fields are visible) under the deterministic scheduler of harness/sched, one
 * forked child per run, and prints the pool state after every atomic step in the canonical form
 * that ml/c12_driver.ml prints for the Coq model (coq/Conc/PoolModel.v).
 *
 * stdin : one case per line
 *   CASE id=7 threads=2 queue=1 progs=a0.j|t1.r3 bodies=t2.a3|-|-|- policy=r seed=5 stay=50 sched=0:0,2:1 [explore=2 maxruns=5000]
 *   progs : '|'-separated client programs (client 0 = main; it implicitly joins the other clients and frees the pool);
 *           ops '.'-separated: aJ = POOL_add(job J), tJ = POOL_tryAdd(job J), j = POOL_joinJobs, rN = POOL_resize(N); '-' = empty
 *   bodies: '|'-separated job bodies (what job J posts while it runs): aJ / tJ; '-' = empty
 *   policy: r = PRNG after the explicit schedule prefix, n = no preemption (continue same thread, else lowest tid)
 *   explore=B: stateless depth-first enumeration of ALL schedules with at most B preemptions (and all signal choices)
 * stdout: per run  "CASE ..." , "I <state>", "S <tid> <w> <state>"*, optional "O <oracle violation>", "E END|STUCK|CRASH ..."
 */
#define _GNU_SOURCE
#include <sched.h>
#include "sched/zv_pthread.h"
#include "common/pool.c"

#include <stdio.h>
#include <stdlib.h>
#include <string.h>
#include <signal.h>
#include <unistd.h>
#include <sys/wait.h>

#ifndef ZSTD_MULTITHREAD
#error "C12 needs the ZSTD_MULTITHREAD pool"
#endif

#define MAXOPS 16
#define MAXCL 4
#define MAXJOBS 32
#define MAXREC 256

typedef struct { char kind; int arg; } op_t;        /* 'a','t','j','r' */
typedef struct { int n; op_t ops[MAXOPS]; } prog_t;
typedef struct {
    int id, threads, queue, K, nbodies; prog_t progs[MAXCL]; prog_t bodies[MAXJOBS];
    int policy; unsigned long long seed; int stay; int sched_len; int sched_t[ZV_MAXSTEPS]; int sched_w[ZV_MAXSTEPS];
    int explore; long maxruns; int fault, cfail, afail;
    char progs_s[512], bodies_s[1024];
} case_t;

typedef struct { int jobid, kind, exec, finished, returned, refused, dropped; } rec_t;

static case_t C;
static POOL_ctx* g_ctx; static int g_freed;
static rec_t recs[MAXREC]; static int nrec;
static int started_log[MAXREC], nstarted, done_log[MAXREC], ndone, refused_log[MAXREC], nrefused, dropped_log[MAXREC], ndropped;
static int g_oracle_bad;

static void oracle(const char* msg) { printf("O %s\n", msg); g_oracle_bad = 1; }
static int g_partial_resize, g_sizeof_said; static size_t g_partial_gap;

/* ---------- accounting allocator handed to POOL_create_advanced: what the pool really holds ----------
 * (one thread runs at a time under the scheduler, so plain counters are enough) */
typedef struct { size_t size; size_t pad; } zv_hdr;
static size_t g_live_bytes; static long g_live_blocks;
static __thread int t_in_resize, t_alloc_faults; static int g_alloc_countdown;   /* failure injection: see run_prog ('r') and run_fcase */
static void* zv_acct_alloc(void* o, size_t n) {
    zv_hdr* h; (void)o;
    if (g_alloc_countdown > 0 && --g_alloc_countdown == 0) return NULL;
    if (t_in_resize && zv_step_fault(2) == 1) { t_alloc_faults++; return NULL; }   /* the schedule says: this POOL_resize fails to allocate */
    h = (zv_hdr*)malloc(sizeof(zv_hdr) + n);
    if (!h) return NULL;
    h->size = n; h->pad = 0x5a5a5a5au; g_live_bytes += n; g_live_blocks++; return h + 1;
}
static void zv_acct_free(void* o, void* p) {
    zv_hdr* h; (void)o;
    if (!p) return;
    h = (zv_hdr*)p - 1;
    if (h->pad != 0x5a5a5a5au) { oracle("free of a block that is not live (double free / foreign pointer)"); return; }
    h->pad = 0; g_live_bytes -= h->size; g_live_blocks--; free(h);
}

/* ---------- canonical state ---------- */
static void print_list(const int* a, int n) { int i; if (!n) putchar('-'); for (i = 0; i < n; i++) printf(i ? ",%d" : "%d", a[i]); }
static size_t pending_count(const POOL_ctx* c) {
    if (c->queueEmpty) return 0;
    if (c->queueHead == c->queueTail) return c->queueSize;
    return (c->queueTail + c->queueSize - c->queueHead) % c->queueSize;
}
static void print_state(void) {
    int t, nt = zv_nthreads();
    if (g_freed) printf("freed");
    else {
        POOL_ctx* c = g_ctx;
        printf("%zu %zu %zu %d %zu %zu %zu %d %d", c->queueHead, c->queueTail, c->queueSize, c->queueEmpty ? 1 : 0,
               c->numThreadsBusy, c->threadLimit, c->threadCapacity, c->shutdown ? 1 : 0, zv_mutex_owner(&c->queueMutex));
    }
    putchar('|');
    for (t = 0; t < nt; t++) {
        void* obj = NULL; zv_status s = zv_thread_status(t, &obj); char ch = '?';
        switch (s) {
        case ZS_RUN: ch = zv_thread_op(t); { int const onpop = !g_freed && obj == (void*)&g_ctx->queuePopCond; if (ch == 'S') ch = onpop ? 's' : 'S'; if (ch == 'B') ch = onpop ? 'b' : 'B'; } break; case ZS_MUTEX: ch = 'M'; break; case ZS_JOIN: ch = 'J'; break; case ZS_DONE: ch = 'D'; break;
        case ZS_COND: ch = (!g_freed && obj == (void*)&g_ctx->queuePushCond) ? 'P' : (!g_freed && obj == (void*)&g_ctx->queuePopCond) ? 'Q' : 'X'; break;
        default: ch = '?';
        }
        putchar(ch);
    }
    putchar('|');
    if (g_freed) putchar('-');
    else {
        POOL_ctx* c = g_ctx; size_t n = pending_count(c), i;
        if (!n) putchar('-');
        for (i = 0; i < n; i++) {
            rec_t* r = (rec_t*)c->queue[(c->queueHead + i) % c->queueSize].opaque;
            if (i) putchar(',');
            if (r >= recs && r < recs + MAXREC) printf("%d", r->jobid); else putchar('?');
        }
    }
    putchar('|'); print_list(started_log, nstarted);
    putchar('|'); print_list(done_log, ndone);
}

/* ---------- oracles evaluated on the real state after every step (the property, executed) ---------- */
#define MAXINADD 64
static int g_in_add[MAXINADD];      /* thread t is inside POOL_add (round 3) */
static void step_oracles(void) {
    POOL_ctx* c = g_ctx; int t, nt = zv_nthreads(), awake = 0; size_t p, room;
    if (g_freed) return;
    p = pending_count(c);
    if (c->queueSize > 1 ? p > c->queueSize - 1 : p > 1) oracle("ring: more pending entries than the queue holds");
    if (c->threadLimit < 1 || c->threadLimit > c->threadCapacity) oracle("threadLimit outside 1..threadCapacity");
    if (POOL_sizeof(c) != g_live_bytes) {
        /* after a POOL_resize whose k-th pthread_create failed the thread array has numThreads entries and threadCapacity < numThreads */
        if (zv_total_faults() > 0 && POOL_sizeof(c) < g_live_bytes && g_live_bytes - POOL_sizeof(c) <= g_partial_gap) {
            if (!g_sizeof_said) { oracle("POOL_sizeof under-reports the thread array after a POOL_resize in which pthread_create failed"); g_sizeof_said = 1; }
        } else oracle("POOL_sizeof differs from the bytes the pool holds");
    }
    /* round 3 (baece04: POOL_resize also broadcasts queuePushCond): "a blocking post returns once capacity exists" - whenever nobody is
     * inside a critical section, a thread asleep in POOL_add still faces a full queue, or a broadcast of queuePushCond is the next
     * operation of some thread (before the repair a POOL_resize that raised threadLimit left the poster asleep until a job ended) */
    if (!c->shutdown && zv_mutex_owner(&c->queueMutex) < 0 && !isQueueFull(c)) {
        int pendingB = 0, asleep = 0;
        for (t = 0; t < nt; t++) { void* o; zv_status s = zv_thread_status(t, &o);
            if (s == ZS_RUN && o == (void*)&c->queuePushCond && zv_thread_op(t) == 'B') pendingB = 1;
            if (s == ZS_COND && o == (void*)&c->queuePushCond && t < MAXINADD && g_in_add[t]) asleep = 1; }
        if (asleep && !pendingB) oracle("a thread is asleep in POOL_add although the queue is not full and no wake-up of queuePushCond is on its way");
    }
    if (!c->shutdown) {
        /* no lost wake-up on queuePopCond: min(pending, limit-busy) workers are about to look at the queue */
        for (t = C.K; t < nt; t++) { void* o; zv_status s = zv_thread_status(t, &o); if (s != ZS_COND && s != ZS_DONE && s != ZS_NONE) awake++; else if (s == ZS_COND && o != (void*)&c->queuePopCond) awake++; }
        room = c->threadLimit > c->numThreadsBusy ? c->threadLimit - c->numThreadsBusy : 0;
        if (p < room) room = p;
        /* a signal / broadcast on queuePopCond that is about to be delivered (its sender holds the mutex) */
        for (t = 0; t < nt; t++) { void* o; if (zv_thread_status(t, &o) == ZS_RUN && o == (void*)&c->queuePopCond) { if (zv_thread_op(t) == 'S') awake++; if (zv_thread_op(t) == 'B') awake += nt; } }
        if ((size_t)awake < c->numThreadsBusy + room) oracle("lost wake-up: queued jobs and free thread slots, but not enough workers awake to take them");
    }
}

/* lock discipline (the mechanism the property rests on): queueHead/queueTail/queueEmpty/numThreadsBusy/threadLimit/
 * threadCapacity/shutdown change only in steps of a thread that holds queueMutex at the end of the step (a step is the
 * code between two synchronisation operations, so "holds it at the end" = "held it while the code ran") */
static size_t g_snap[7]; static int g_snap_valid;
static void take_snap(size_t* v) {
    POOL_ctx* c = g_ctx;
    v[0] = c->queueHead; v[1] = c->queueTail; v[2] = (size_t)(c->queueEmpty != 0); v[3] = c->numThreadsBusy;
    v[4] = c->threadLimit; v[5] = c->threadCapacity; v[6] = (size_t)(c->shutdown != 0);
}
static void lock_discipline(int step, int tid) {
    size_t now[7];
    if (g_freed) { g_snap_valid = 0; return; }
    take_snap(now);
    if (step >= 0 && g_snap_valid && memcmp(now, g_snap, sizeof now) && zv_mutex_owner(&g_ctx->queueMutex) != tid)
        oracle("a pool field guarded by queueMutex was written by a thread that does not hold the mutex");
    /* POOL_resize's contract: no job is started while threadLimit threads are busy */
    if (step >= 0 && g_snap_valid && now[3] > g_snap[3] && now[3] > now[4])
        oracle("a worker started a job although numThreadsBusy had reached threadLimit");
    /* POOL_resize's contract under failure (theorem pool_resize_failure_frame): a call in which pthread_create failed reports an error
     * and leaves threadLimit where it was */
    {   static int faults_seen;
        if (step >= 0 && g_snap_valid && zv_total_faults() > faults_seen && now[4] != g_snap[4])
            oracle("a POOL_resize in which pthread_create failed changed threadLimit");
        faults_seen = zv_total_faults();
    }
    memcpy(g_snap, now, sizeof now); g_snap_valid = 1;
}

static void on_step(int step, int tid, int w) {
    if (step < 0) printf("I "); else printf("S %d %d ", tid, w);
    print_state(); putchar('\n');
    step_oracles();
    lock_discipline(step, tid);
}

static void finish_line(const char* how) {
    printf("E %s refused=", how); print_list(refused_log, nrefused); printf(" dropped="); print_list(dropped_log, ndropped);
    printf(" mismatch=%d\n", zv_schedule_mismatch());
}

static int g_trace_fd = -1;
static void send_trace(int how) {
    if (g_trace_fd >= 0) {
        int hdr[3]; hdr[0] = how; hdr[1] = zv_trace_len(); hdr[2] = g_oracle_bad;
        if (write(g_trace_fd, hdr, sizeof(hdr)) < 0) {}
        if (write(g_trace_fd, zv_trace(), sizeof(zv_trace_step) * (size_t)hdr[1]) < 0) {}
    }
}

static void on_stuck(void) {
    int t, nt = zv_nthreads(), selfblocked = 0;
    for (t = C.K; t < nt; t++) { void* o; if (zv_thread_status(t, &o) == ZS_COND && !g_freed && o == (void*)&g_ctx->queuePushCond) selfblocked = 1; }
    if (!selfblocked) oracle("deadlock: no thread can run, and no worker is blocked inside a blocking POOL_add made by its own job");
    else if (!g_freed && g_ctx->shutdown) oracle("deadlock during POOL_free: shutdown is set but a thread is still blocked");
    finish_line("STUCK"); fflush(stdout); send_trace(1); _exit(0);
}

/* invalid use of a synchronisation object (lock / wait on a destroyed object, destroy of a locked mutex or of a condition with waiters,
 * unlock by a non-owner): reported like a crash, with the case line and the schedule so far flushed (the scheduler would _exit(6) next) */
static void on_fatal(const char* what) { printf("S %d 0 ", zv_self()); print_state(); putchar('\n');   /* the step in progress, for the replay */
    printf("O invalid use of a synchronisation object: %s\n", what); g_oracle_bad = 1; finish_line("CRASH"); fflush(stdout); send_trace(2); _exit(0); }
static void on_crash(int sig) { printf("O crash: signal %d\n", sig); g_oracle_bad = 1; finish_line("CRASH"); fflush(stdout); send_trace(2); _exit(0); }

/* ---------- jobs and clients ---------- */
static void job_fn(void* o);
static void do_post(char kind, int jobid) {
    rec_t* r;
    if (nrec >= MAXREC) { fprintf(stderr, "c12: too many posts\n"); _exit(7); }
    r = &recs[nrec++]; r->jobid = jobid; r->kind = kind;
    if (kind == 'a') {
        int const me = zv_self();
        if (me >= 0 && me < MAXINADD) g_in_add[me] = 1;
        POOL_add(g_ctx, job_fn, r);
        if (me >= 0 && me < MAXINADD) g_in_add[me] = 0;
        if (g_ctx->shutdown) { r->dropped = 1; dropped_log[ndropped++] = jobid; }
    } else {
        int const ret = POOL_tryAdd(g_ctx, job_fn, r);
        if (ret != 0 && ret != 1) oracle("POOL_tryAdd returned neither 0 nor 1");
        if (!ret) {
            /* the refusal was decided under the mutex, which this thread released in the step it is still executing: the
             * fields are the ones it saw.  pool.h: "the maximum number of queued jobs before blocking is queueSize";
             * queueSize 0 = hand-off: refuse only when a job waits or no thread is free */
            size_t const pend = pending_count(g_ctx);
            if (C.queue >= 1 ? pend < (size_t)C.queue : (pend == 0 && g_ctx->numThreadsBusy < g_ctx->threadLimit))
                oracle("POOL_tryAdd refused a job although the queue had room");
            r->refused = 1; refused_log[nrefused++] = jobid;
        }
        else if (g_ctx->shutdown) { r->dropped = 1; dropped_log[ndropped++] = jobid; }
    }
    r->returned = 1;
}
static void job_fn(void* o) {
    rec_t* r = (rec_t*)o; int i; prog_t* b;
    if (r < recs || r >= recs + MAXREC) { oracle("a job ran with an opaque pointer that was never posted"); return; }
    r->exec++;
    if (nstarted < MAXREC) started_log[nstarted++] = r->jobid;
    if (r->exec > 1) oracle("a job was executed twice");
    if (r->jobid < C.nbodies) { b = &C.bodies[r->jobid]; for (i = 0; i < b->n; i++) do_post(b->ops[i].kind, b->ops[i].arg); }
    r->finished++;
    if (ndone < MAXREC) done_log[ndone++] = r->jobid;
}
static void check_all_finished(const char* where) {
    int i; char buf[160];
    for (i = 0; i < nrec; i++) {
        rec_t* r = &recs[i];
        if (r->exec && !r->finished) { snprintf(buf, sizeof buf, "%s: job %d still running", where, r->jobid); oracle(buf); }
        if (r->returned && !r->refused && !r->dropped && r->finished != 1) { snprintf(buf, sizeof buf, "%s: accepted job %d has not been executed (finished=%d)", where, r->jobid, r->finished); oracle(buf); }
    }
}
static void run_prog(const prog_t* p) {
    int i;
    for (i = 0; i < p->n; i++) {
        switch (p->ops[i].kind) {
        case 'a': case 't': do_post(p->ops[i].kind, p->ops[i].arg); break;
        case 'j':
            POOL_joinJobs(g_ctx);
            if (!g_ctx->queueEmpty || g_ctx->numThreadsBusy) oracle("POOL_joinJobs returned with a non-empty queue or busy threads");
            check_all_finished("POOL_joinJobs returned");
            break;
        case 'r': {
            int const f0 = zv_thread_faults() + t_alloc_faults; int r, failed; size_t const n = (size_t)p->ops[i].arg;
            t_in_resize = 1; r = POOL_resize(g_ctx, n); t_in_resize = 0;
            failed = (zv_thread_faults() + t_alloc_faults) != f0;       /* the schedule injected an allocation / pthread_create failure into this call */
            if (r != (n == 0 || failed)) oracle(failed ? "POOL_resize returned 0 although thread creation failed" : "POOL_resize: unexpected return value");
            break; }
        default: break;
        }
    }
}
static void* client_main(void* a) { run_prog(&C.progs[(int)(long)a]); return NULL; }

static void run_case(void) {   /* in the forked child */
    zv_params zp; int i;
    memset(&zp, 0, sizeof zp);
    zp.sched_len = C.sched_len; memcpy(zp.sched_t, C.sched_t, sizeof(int) * (size_t)C.sched_len); memcpy(zp.sched_w, C.sched_w, sizeof(int) * (size_t)C.sched_len);
    zp.policy = C.policy ? ZV_POLICY_NOPREEMPT : ZV_POLICY_RANDOM; zp.seed = C.seed; zp.stay_pct = C.stay;
    zp.first_worker_tid = C.K; zp.on_step = on_step; zp.on_stuck = on_stuck;
    zp.fault_enable = 1; zp.fault_pct = C.fault; zp.on_fatal = on_fatal;
    {   /* all threads of a run on one CPU: the baton hand-over is then a plain context switch (no cross-CPU wake-up) */
        cpu_set_t set; long ncpu = sysconf(_SC_NPROCESSORS_ONLN); CPU_ZERO(&set); CPU_SET((int)((unsigned long)getppid() % (unsigned long)(ncpu > 0 ? ncpu : 1)), &set);
        sched_setaffinity(0, sizeof set, &set);
    }
    signal(SIGSEGV, on_crash); signal(SIGBUS, on_crash); signal(SIGFPE, on_crash); signal(SIGABRT, on_crash);
    {   int a, b; for (a = 0; a < C.K; a++) for (b = 0; b < C.progs[a].n; b++) if (C.progs[a].ops[b].kind == 'r' && (size_t)C.progs[a].ops[b].arg * sizeof(ZSTD_pthread_t) > g_partial_gap) g_partial_gap = (size_t)C.progs[a].ops[b].arg * sizeof(ZSTD_pthread_t); }
    zv_sched_begin(&zp);
    {   ZSTD_customMem cm; cm.customAlloc = zv_acct_alloc; cm.customFree = zv_acct_free; cm.opaque = NULL;
        g_ctx = POOL_create_advanced((size_t)C.threads, (size_t)C.queue, cm);
    }
    if (!g_ctx) { printf("O POOL_create failed\n"); finish_line("CRASH"); fflush(stdout); send_trace(2); _exit(0); }
    for (i = 1; i < C.K; i++) zv_spawn(i, client_main, (void*)(long)i);
    run_prog(&C.progs[0]);
    for (i = 1; i < C.K; i++) zv_join_tid(i);
    POOL_free(g_ctx); g_freed = 1;
    if (g_live_bytes != 0 || g_live_blocks != 0) oracle("POOL_free leaked memory of the pool");
    {   int k, bad = 0; char buf[160];
        for (k = 0; k < nrec; k++) {
            rec_t* r = &recs[k];
            if (r->exec > 1) bad = 1;
            if (!r->refused && !r->dropped && (r->exec != 1 || r->finished != 1)) { snprintf(buf, sizeof buf, "after POOL_free: accepted job %d executed %d times", r->jobid, r->exec); oracle(buf); }
            if ((r->refused || r->dropped) && r->exec) { snprintf(buf, sizeof buf, "after POOL_free: refused/dropped job %d was executed", r->jobid); oracle(buf); }
        }
        (void)bad;
    }
    zv_sched_end();
    finish_line("END"); fflush(stdout); send_trace(0); _exit(0);
}

/* ---------- parsing ---------- */
static int parse_prog(const char* s, size_t len, prog_t* p) {
    size_t i = 0; p->n = 0;
    if (len == 1 && s[0] == '-') return 0;
    while (i < len) {
        op_t o; o.kind = s[i++]; o.arg = 0;
        while (i < len && s[i] >= '0' && s[i] <= '9') o.arg = o.arg * 10 + (s[i++] - '0');
        if (!strchr("atjr", o.kind) || p->n >= MAXOPS) return -1;
        p->ops[p->n++] = o;
        if (i < len) { if (s[i] != '.') return -1; i++; }
    }
    return 0;
}
static int parse_progs(const char* s, prog_t* out, int maxn) {
    int n = 0; const char* p = s;
    for (;;) {
        const char* e = strchr(p, '|'); size_t len = e ? (size_t)(e - p) : strlen(p);
        if (n >= maxn || parse_prog(p, len, &out[n])) return -1;
        n++; if (!e) break; p = e + 1;
    }
    return n;
}
static int parse_case(char* line) {
    char* tok; memset(&C, 0, sizeof C); C.stay = 50; C.explore = -1; C.maxruns = 100000;
    for (tok = strtok(line, " \n"); tok; tok = strtok(NULL, " \n")) {
        char* v = strchr(tok, '='); if (!v) continue; *v++ = 0;
        if (!strcmp(tok, "id")) C.id = atoi(v);
        else if (!strcmp(tok, "threads")) C.threads = atoi(v);
        else if (!strcmp(tok, "queue")) C.queue = atoi(v);
        else if (!strcmp(tok, "progs")) { snprintf(C.progs_s, sizeof C.progs_s, "%s", v); C.K = parse_progs(v, C.progs, MAXCL); if (C.K < 1) return -1; }
        else if (!strcmp(tok, "bodies")) { snprintf(C.bodies_s, sizeof C.bodies_s, "%s", v); C.nbodies = parse_progs(v, C.bodies, MAXJOBS); if (C.nbodies < 0) return -1; }
        else if (!strcmp(tok, "policy")) C.policy = (v[0] == 'n');
        else if (!strcmp(tok, "seed")) C.seed = strtoull(v, NULL, 10);
        else if (!strcmp(tok, "stay")) C.stay = atoi(v);
        else if (!strcmp(tok, "explore")) C.explore = atoi(v);
        else if (!strcmp(tok, "fault")) C.fault = atoi(v);
        else if (!strcmp(tok, "cfail")) C.cfail = atoi(v);
        else if (!strcmp(tok, "afail")) C.afail = atoi(v);
        else if (!strcmp(tok, "maxruns")) C.maxruns = atol(v);
        else if (!strcmp(tok, "sched")) {
            char* q = v; C.sched_len = 0;
            while (*q && *q != '-') {
                int t = (int)strtol(q, &q, 10), w = 0;
                if (*q == ':') w = (int)strtol(q + 1, &q, 10);
                if (C.sched_len >= ZV_MAXSTEPS) return -1;
                C.sched_t[C.sched_len] = t; C.sched_w[C.sched_len] = w; C.sched_len++;
                if (*q == ',') q++;
            }
        }
    }
    if (C.K < 1 && (C.cfail || C.afail)) C.K = 1;      /* FCASE lines carry no programs */
    return (C.K >= 1 && C.threads >= 1) ? 0 : -1;
}

/* one run in a child; returns how (0 end, 1 stuck, 2 crash, 3 abnormal) and the trace */
static zv_trace_step tr[ZV_MAXSTEPS];
static int run_child(int* tlen, int* obad) {
    int pfd[2], st, hdr[3] = {3, 0, 1}; pid_t pid; size_t want, got = 0;
    fflush(stdout);
    if (pipe(pfd)) { perror("pipe"); exit(2); }
    pid = fork();
    if (pid < 0) { perror("fork"); exit(2); }
    if (pid == 0) { close(pfd[0]); g_trace_fd = pfd[1]; printf("CASE id=%d threads=%d queue=%d progs=%s bodies=%s\n", C.id, C.threads, C.queue, C.progs_s, C.bodies_s); run_case(); _exit(0); }
    close(pfd[1]);
    if (read(pfd[0], hdr, sizeof hdr) != (ssize_t)sizeof hdr) { hdr[0] = 3; hdr[1] = 0; hdr[2] = 1; }
    want = sizeof(zv_trace_step) * (size_t)hdr[1];
    while (got < want) { ssize_t r = read(pfd[0], (char*)tr + got, want - got); if (r <= 0) break; got += (size_t)r; }
    close(pfd[0]);
    waitpid(pid, &st, 0);
    if (hdr[0] == 3 || !WIFEXITED(st) || WEXITSTATUS(st) != 0) {
        printf("O abnormal termination of the run (status 0x%x)\nE CRASH refused=- dropped=- mismatch=0\n", st); hdr[0] = 3; hdr[2] = 1;
    }
    *tlen = (got == want) ? hdr[1] : 0; *obad = hdr[2];
    return hdr[0];
}

/* stateless DFS over schedules with a preemption bound */
typedef struct { int len; int npre; int* t; int* w; } prefix_t;
static void explore(void) {
    prefix_t* stack; size_t sp = 0, cap = 1024; long runs = 0, bad = 0; int bound = C.explore;
    stack = (prefix_t*)malloc(cap * sizeof *stack);
    stack[sp].len = 0; stack[sp].npre = 0; stack[sp].t = NULL; stack[sp].w = NULL; sp++;
    C.policy = 1;
    while (sp > 0 && runs < C.maxruns) {
        prefix_t pf = stack[--sp]; int tlen, obad, k, how;
        C.sched_len = pf.len;
        if (pf.len) { memcpy(C.sched_t, pf.t, sizeof(int) * (size_t)pf.len); memcpy(C.sched_w, pf.w, sizeof(int) * (size_t)pf.len); }
        how = run_child(&tlen, &obad); runs++; if (obad || how >= 2) bad++;
        /* children: first deviation at position k >= pf.len */
        {   int npre = pf.npre;
            for (k = pf.len; k < tlen; k++) {
                int a, prev = k > 0 ? tr[k - 1].t : -1;
                for (a = 0; a < ZV_MAXT; a++) {
                    int cost;
                    if (!(tr[k].enabled & (1u << a)) || a == tr[k].t) continue;
                    cost = npre + ((k > 0 && tr[k].prev_enabled && a != prev) ? 1 : 0);
                    if (cost > bound) continue;
                    if (sp + 1 >= cap) { cap *= 2; stack = (prefix_t*)realloc(stack, cap * sizeof *stack); }
                    stack[sp].len = k + 1; stack[sp].npre = cost;
                    stack[sp].t = (int*)malloc(sizeof(int) * (size_t)(k + 1)); stack[sp].w = (int*)malloc(sizeof(int) * (size_t)(k + 1));
                    { int i; for (i = 0; i < k; i++) { stack[sp].t[i] = tr[i].t; stack[sp].w[i] = tr[i].w; } }
                    stack[sp].t[k] = a; stack[sp].w[k] = 0; sp++;
                }
                /* other wake choices of the step that was taken (free) */
                {   int wc; int const taken_cost = (k > 0 && tr[k].prev_enabled && tr[k].t != prev) ? 1 : 0;
                    for (wc = 0; wc < tr[k].nwake; wc++) {
                        if (wc == tr[k].w) continue;
                        if (sp + 1 >= cap) { cap *= 2; stack = (prefix_t*)realloc(stack, cap * sizeof *stack); }
                        stack[sp].len = k + 1; stack[sp].npre = npre + taken_cost;
                        stack[sp].t = (int*)malloc(sizeof(int) * (size_t)(k + 1)); stack[sp].w = (int*)malloc(sizeof(int) * (size_t)(k + 1));
                        { int i; for (i = 0; i <= k; i++) { stack[sp].t[i] = tr[i].t; stack[sp].w[i] = tr[i].w; } }
                        stack[sp].w[k] = wc; sp++;
                    }
                }
                /* the step actually taken at k may itself have been a preemption */
                if (k > 0 && tr[k].prev_enabled && tr[k].t != prev) npre++;
            }
        }
        free(pf.t); free(pf.w);
    }
    printf("X id=%d runs=%ld exhausted=%d bad=%ld bound=%d\n", C.id, runs, sp == 0 ? 1 : 0, bad, bound);
    while (sp > 0) { sp--; free(stack[sp].t); free(stack[sp].w); }
    free(stack);
}

/* FCASE threads=3 queue=1 cfail=2 afail=0 : POOL_create_advanced with the cfail-th pthread_create / the afail-th allocation failing
 * (no model run): it must return NULL, give every byte back and leave no thread behind; then a second, fault-free creation works */
static void run_fcase(void) {
    zv_params zp; int t; ZSTD_customMem cm; POOL_ctx* ctx;
    memset(&zp, 0, sizeof zp); zp.policy = ZV_POLICY_NOPREEMPT; zp.first_worker_tid = 1; zp.on_stuck = on_stuck;
    signal(SIGSEGV, on_crash); signal(SIGBUS, on_crash); signal(SIGFPE, on_crash); signal(SIGABRT, on_crash);
    C.K = 1; g_freed = 1;
    zv_sched_begin(&zp);
    cm.customAlloc = zv_acct_alloc; cm.customFree = zv_acct_free; cm.opaque = NULL;
    g_alloc_countdown = C.afail; zv_fail_create_at(C.cfail);
    ctx = POOL_create_advanced((size_t)C.threads, (size_t)C.queue, cm);
    g_alloc_countdown = 0; zv_fail_create_at(0);
    if (ctx != NULL) { if ((C.afail >= 1 && C.afail <= 3) || (C.cfail >= 1 && C.cfail <= C.threads)) oracle("POOL_create_advanced succeeded although an allocation / a pthread_create failed"); POOL_free(ctx); }
    if (g_live_bytes != 0 || g_live_blocks != 0) oracle("POOL_create_advanced that failed (or POOL_free) leaked memory");
    for (t = 1; t < zv_nthreads(); t++) if (zv_thread_status(t, NULL) != ZS_DONE) oracle("a worker thread of a pool whose creation failed is still alive");
    ctx = POOL_create_advanced((size_t)C.threads, (size_t)C.queue, cm);
    if (!ctx) oracle("fault-free POOL_create_advanced failed"); else { if (POOL_sizeof(ctx) != g_live_bytes) oracle("POOL_sizeof differs from the bytes the pool holds"); POOL_free(ctx); }
    if (g_live_bytes != 0 || g_live_blocks != 0) oracle("POOL_free leaked memory of the pool");
    zv_sched_end();
    printf("E END\n"); fflush(stdout); _exit(0);
}

int main(void) {
    static char line[65536];
    while (fgets(line, sizeof line, stdin)) {
        if (!strncmp(line, "FCASE", 5)) {
            pid_t pid; int st;
            if (parse_case(line + 5)) { printf("BADCASE\n"); continue; }
            printf("FCASE threads=%d queue=%d cfail=%d afail=%d\n", C.threads, C.queue, C.cfail, C.afail); fflush(stdout);
            pid = fork(); if (pid == 0) { run_fcase(); _exit(0); }
            waitpid(pid, &st, 0);
            if (!WIFEXITED(st) || WEXITSTATUS(st) != 0) printf("O abnormal termination (status 0x%x)\nE CRASH\n", st);
            fflush(stdout); continue;
        }
        if (strncmp(line, "CASE", 4)) continue;
        if (parse_case(line + 4)) { printf("BADCASE\n"); continue; }
        if (C.explore >= 0) explore();
        else { int tlen, obad; run_child(&tlen, &obad); }
    }
    fflush(stdout);
    return 0;
}
