/* C14 round 3 unit harness: what a ZSTDMT_CCtx owns / what ZSTDMT_sizeof_CCtx reports, with allocation failures.
 * #includes lib/compress/zstdmt_compress.c to call its static functions (ZSTDMT_resize, ZSTDMT_releaseAllJobResources,
 * ZSTDMT_getBuffer / ZSTDMT_releaseBuffer, ZSTDMT_getCCtx / ZSTDMT_releaseCCtx) and to read the private fields that the
 * model coq/Mem/MtOwner.v predicts.  /repo is not touched.
 *   SIZES                       -> the structure sizes of this build, in the order of the model's record mtsz
 *   MTU <n> <sched> op op ...   -> one history on one context created with ZSTDMT_createCCtx_advanced(n, counting allocator, NULL)
 *     <sched> : string over {0,1}: the i-th allocation of the operation fails when its i-th character is 0 ("-" = none fails)
 *     op: S<n>/<sched>  session start: ZSTDMT_releaseAllJobResources, ZSTDMT_resize(n) when n differs from params.nbWorkers
 *         G<cap>/<ok>   ZSTDMT_getBuffer(bufPool) with bufferSize = cap, attached to a free job slot
 *         F<i>          the i-th buffer in flight (0 = newest) is flushed: ZSTDMT_releaseBuffer
 *         Q<bytes>/<ok> a job takes a sequence buffer (bufferSize = bytes) and gives it back
 *         C<ws|->/<ok1><ok2>  a job takes a worker context, replaces its workspace by ws bytes (- : keeps it), gives it back
 *         I<n>/<sched>/<ldmHashLog|0>/<dictSize>/<windowLog>/<jobSize>  the whole ZSTDMT_initCStream_internal (level-1 parameters); the result token is
 *                       followed by [d=<bytes of the block that holds cdictLocal>,rb=<round-buffer capacity the session needs>,hl=,bl=<LDM logs after adjustment>]:
 *                       inputs of the model, which predicts the accounting
 *   per op:  <rc>/<nbWorkers>/<jobs>/<bufTotal>/<cctxTotal>/<seqTotal>/<live>/<sizeof>   (N = NULL, X = ZSTDMT_sizeof_CCtx crashed)
 *   then     end=<live after ZSTDMT_freeCCtx> badfree=<n>   (all numbers in hex) */
#define ZSTD_STATIC_LINKING_ONLY
#include "compress/zstdmt_compress.c"
#include "common/pool.c"
#include <stdio.h>
#include <stdlib.h>
#include <string.h>
#include <signal.h>
#include <setjmp.h>

typedef unsigned long long u64;
static u64 hx(const char* s) { return strtoull(s, NULL, 16); }

#define ZV_TAG 0xC0FFEE5AC0FFEE5AULL
static size_t zv_live = 0, zv_badFree = 0;
static const char* zv_sched = "-"; static size_t zv_schedPos = 0;
/* live blocks (single-threaded use: no job runs in this harness), to find the block a pointer lies in */
#define ZV_MAXBLK 8192
static struct { char* p; size_t n; } zv_blk[ZV_MAXBLK]; static int zv_nblk = 0;
static void* zv_alloc(void* op, size_t sz) {
    u64* p; (void)op;
    if (zv_sched[zv_schedPos] == '0') { zv_schedPos++; return NULL; }
    if (zv_sched[zv_schedPos] == '1') zv_schedPos++;
    p = (u64*)malloc(sz + 16); if (!p) return NULL;
    p[0] = sz; p[1] = ZV_TAG; __sync_add_and_fetch(&zv_live, sz);
    if (zv_nblk < ZV_MAXBLK) { zv_blk[zv_nblk].p = (char*)p + 16; zv_blk[zv_nblk].n = sz; zv_nblk++; }
    return (char*)p + 16;
}
static void zv_free(void* op, void* ptr) {
    u64* p; int i; (void)op; if (!ptr) return; p = (u64*)((char*)ptr - 16);
    if (p[1] != ZV_TAG) { __sync_add_and_fetch(&zv_badFree, 1); return; }
    for (i = 0; i < zv_nblk; i++) if (zv_blk[i].p == (char*)ptr) { zv_blk[i] = zv_blk[--zv_nblk]; break; }
    p[1] = 0; __sync_sub_and_fetch(&zv_live, (size_t)p[0]); free(p);
}
/* bytes of the allocated block that contains [q] (0: none).  The local CDict is one block (structure inside its workspace);
 * ZSTD_sizeof_CDict over-reports it by sizeof(ZSTD_CDict) in builds whose workspace puts a redzone in front of the structure */
static size_t zv_block_of(const void* q) {
    int i; for (i = 0; i < zv_nblk; i++) if ((const char*)q >= zv_blk[i].p && (const char*)q < zv_blk[i].p + zv_blk[i].n) return zv_blk[i].n;
    return 0;
}
static void set_sched(const char* s) { zv_sched = (s && *s && *s != '-') ? s : "-"; zv_schedPos = 0; }

static sigjmp_buf zv_jmp; static volatile int zv_armed = 0;
static void zv_segv(int sig) { (void)sig; if (zv_armed) siglongjmp(zv_jmp, 1); _exit(99); }

static void show(const char* rc, ZSTDMT_CCtx* m, const char* suffix) {
    char so[32];
    zv_armed = 1;
    if (sigsetjmp(zv_jmp, 1)) { strcpy(so, "X"); }
    else { size_t const v = ZSTDMT_sizeof_CCtx(m); snprintf(so, sizeof so, "%llx", (u64)v); }
    zv_armed = 0;
    printf("%s/%x/", rc, (unsigned)m->params.nbWorkers);
    if (m->jobs) printf("%x/", m->jobIDMask + 1); else printf("N/");
    if (m->bufPool) printf("%x/", m->bufPool->totalBuffers); else printf("N/");
    if (m->cctxPool) printf("%x/", (unsigned)m->cctxPool->totalCCtx); else printf("N/");
    if (m->seqPool) printf("%x/", m->seqPool->totalBuffers); else printf("N/");
    printf("%llx/%s%s ", (u64)zv_live, so, suffix);
}

static void do_mtu(char** a, int n) {
    ZSTD_customMem cm; ZSTDMT_CCtx* m; int i; int order[1100]; int nfl = 0; char extra[160]; static unsigned char zv_dict[1 << 17];
    { size_t q; for (q = 0; q < sizeof zv_dict; q++) zv_dict[q] = (unsigned char)(q * 31 + (q >> 7)); }
    cm.customAlloc = zv_alloc; cm.customFree = zv_free; cm.opaque = NULL;
    zv_live = 0; zv_badFree = 0; zv_nblk = 0;
    set_sched(a[2]);
    m = ZSTDMT_createCCtx_advanced((unsigned)hx(a[1]), cm, NULL);
    set_sched("-");
    if (!m) { printf("NULL live=%llx badfree=%llx\n", (u64)zv_live, (u64)zv_badFree); return; }
    show("K", m, "");
    for (i = 3; i < n; i++) {
        char k = a[i][0]; char* sl = strchr(a[i], '/'); const char* arg2 = sl ? sl + 1 : "-"; const char* rc = "K";
        if (k == 'S') { unsigned const nb = (unsigned)hx(a[i] + 1);
            if (nb == 0) rc = "S";
            else {   /* the model releases the buffers in flight newest first; ZSTDMT_releaseAllJobResources walks the job table in slot
                      * order (which buffer ends on top of the pool differs, the accounting does not): release in the model's order first */
                int q; for (q = 0; q < nfl; q++) { ZSTDMT_releaseBuffer(m->bufPool, m->jobs[order[q]].dstBuff); m->jobs[order[q]].dstBuff = g_nullBuffer; }
                ZSTDMT_releaseAllJobResources(m); nfl = 0;
                if (nb != (unsigned)m->params.nbWorkers) { size_t r; set_sched(arg2); r = ZSTDMT_resize(m, nb); set_sched("-"); rc = ZSTD_isError(r) ? "M" : "K"; } } }
        else if (k == 'G') {
            if (!m->bufPool || !m->jobs) rc = "S";
            else { buffer_t b; unsigned u, slot = ~0u; for (u = 0; u <= m->jobIDMask; u++) if (m->jobs[u].dstBuff.start == NULL) { slot = u; break; }
                if (slot == ~0u) rc = "S";      /* every job slot holds an unflushed buffer: no new job (the model says the same) */
                else {
                ZSTDMT_setBufferSize(m->bufPool, (size_t)hx(a[i] + 1));
                set_sched(arg2[0] == '0' ? "0" : "-"); b = ZSTDMT_getBuffer(m->bufPool); set_sched("-");
                if (b.start) { int j; m->jobs[slot].dstBuff = b; for (j = nfl; j > 0; j--) order[j] = order[j - 1]; order[0] = (int)slot; nfl++; } else rc = "M"; } } }
        else if (k == 'F') { int const idx = (int)hx(a[i] + 1);
            if (!m->bufPool || idx >= nfl) rc = "S";
            else { int j; int const slot = order[idx]; ZSTDMT_releaseBuffer(m->bufPool, m->jobs[slot].dstBuff); m->jobs[slot].dstBuff = g_nullBuffer;
                for (j = idx; j + 1 < nfl; j++) order[j] = order[j + 1]; nfl--; } }
        else if (k == 'Q') {
            if (!m->seqPool) rc = "S";
            else { buffer_t b; ZSTDMT_setBufferSize(m->seqPool, (size_t)hx(a[i] + 1));
                set_sched(arg2[0] == '0' ? "0" : "-"); b = ZSTDMT_getBuffer(m->seqPool); set_sched("-");
                if (b.start) ZSTDMT_releaseBuffer(m->seqPool, b); else rc = "M"; } }
        else if (k == 'C') {
            if (!m->cctxPool) rc = "S";
            else { ZSTD_CCtx* c; set_sched(arg2[0] == '0' ? "0" : "-"); c = ZSTDMT_getCCtx(m->cctxPool); set_sched("-");
                if (!c) rc = "M";
                else { if (a[i][1] != '-') { size_t const ws = (size_t)hx(a[i] + 1);
                           ZSTD_cwksp_free(&c->workspace, c->customMem);
                           set_sched(arg2[0] && arg2[1] == '0' ? "0" : "-"); (void)ZSTD_cwksp_create(&c->workspace, ws, c->customMem); set_sched("-"); }
                       ZSTDMT_releaseCCtx(m->cctxPool, c); } } }
        else if (k == 'I') {   /* I<n>/<sched>/<ldm hashLog, 0 = no LDM>/<dictSize>/<windowLog>/<jobSize> : the whole ZSTDMT_initCStream_internal */
            char tmp[256]; char* f[8]; int nf = 0; char* t2; unsigned nb, hlReq, wlog; size_t dictSize, jobSize; ZSTD_CCtx_params params; ldmParams_t lp; size_t r;
            strncpy(tmp, a[i] + 1, sizeof tmp - 1); tmp[sizeof tmp - 1] = 0;
            for (t2 = strtok(tmp, "/"); t2 && nf < 8; t2 = strtok(NULL, "/")) f[nf++] = t2;
            if (nf < 6) { printf("BADTOKEN "); continue; }
            nb = (unsigned)hx(f[0]); hlReq = (unsigned)hx(f[2]); dictSize = (size_t)hx(f[3]); wlog = (unsigned)hx(f[4]); jobSize = (size_t)hx(f[5]);
            memset(extra, 0, sizeof extra);
            if (nb == 0) rc = "S";
            else {
                int q; for (q = 0; q < nfl; q++) { ZSTDMT_releaseBuffer(m->bufPool, m->jobs[order[q]].dstBuff); m->jobs[order[q]].dstBuff = g_nullBuffer; }
                ZSTDMT_releaseAllJobResources(m); nfl = 0;      /* what the function does itself when a frame was left open */
                ZSTD_CCtxParams_init(&params, 1); params.cParams = ZSTD_getCParams(1, 0, 0); params.cParams.windowLog = wlog;
                params.nbWorkers = (int)nb; params.jobSize = jobSize;
                params.ldmParams.enableLdm = hlReq ? ZSTD_ps_enable : ZSTD_ps_disable; params.ldmParams.hashLog = hlReq;
                lp = params.ldmParams; if (hlReq) ZSTD_ldm_adjustParameters(&lp, &params.cParams);
                set_sched(f[1]);
                r = ZSTDMT_initCStream_internal(m, dictSize ? zv_dict : NULL, dictSize, ZSTD_dct_rawContent, NULL, params, ZSTD_CONTENTSIZE_UNKNOWN);
                set_sched("-");
                rc = ZSTD_isError(r) ? "M" : "K";
                {   size_t const win = hlReq ? ((size_t)1 << wlog) : 0; size_t const sec = m->targetSectionSize; size_t const nbs = 2 + (m->targetPrefixSize > 0);
                    size_t const sections = sec * (nb > 1 ? nb : 1); size_t const need = (win > sections ? win : sections) + sec * nbs;
                    snprintf(extra, sizeof extra, "[d=%llx,rb=%llx,hl=%x,bl=%x]", (u64)zv_block_of(m->cdictLocal), (u64)need,
                             hlReq ? lp.hashLog : 0, hlReq ? lp.hashLog - lp.bucketSizeLog : 0); }
            } }
        else { printf("BADTOKEN "); continue; }
        show(rc, m, k == 'I' ? extra : "");
    }
    ZSTDMT_freeCCtx(m);
    printf("end=%llx badfree=%llx\n", (u64)zv_live, (u64)zv_badFree);
}

int main(void) {
    static char line[1 << 16]; char* a[4096];
    signal(SIGSEGV, zv_segv); signal(SIGBUS, zv_segv);
    while (fgets(line, sizeof line, stdin)) {
        int n = 0; char* t = strtok(line, " \t\r\n");
        while (t && n < 4095) { a[n++] = t; t = strtok(NULL, " \t\r\n"); }
        if (n == 0) continue;
        if (!strcmp(a[0], "MTU") && n >= 3) do_mtu(a, n);
        else if (!strcmp(a[0], "SIZES"))
            printf("%llx %llx %llx %llx %llx %llx %llx %llx %llx %llx %llx %llx\n", (u64)sizeof(ZSTDMT_CCtx), (u64)sizeof(ZSTDMT_jobDescription),
                   (u64)sizeof(ZSTDMT_bufferPool), (u64)sizeof(buffer_t), (u64)sizeof(ZSTDMT_CCtxPool), (u64)sizeof(ZSTD_CCtx*), (u64)sizeof(ZSTD_CCtx),
                   (u64)sizeof(POOL_ctx), (u64)sizeof(POOL_job), (u64)sizeof(ZSTD_pthread_t), (u64)sizeof(ldmEntry_t), (u64)ZSTDMT_NBWORKERS_MAX);
        else printf("UNKNOWN-CASE %s\n", a[0]);
        fflush(stdout);
    }
    return 0;
}
