/* C07 tie harness (3): the REAL ZSTD_rescaleFreqs (static in zstd_opt.c, reached by #include) on caller-chosen prior
 * statistics, so that the extracted model (Det/OptStats.v) can be compared field by field.
 *   consts                      -> "K MaxLit MaxLL MaxML MaxOff PREDEF_THRESHOLD BITCOST_ACCURACY"
 *   dict <path>                 -> "C ok <256 lit costs> <36 ll> <53 ml> <32 of>"  (entropy tables of a zstd dictionary)
 *   train <path>                same, for a dictionary trained here (ZDICT_trainFromBuffer) on 512-byte samples of the file
 *   H mls hBits salt b0..b7     -> "H w mixed hash"   (ZSTD_hashPtrSalted on 8 bytes, and the unsalted unshifted mix)
 *   R cl lvl hasdict lls nsrc src[nsrc] litFreq[256] llFreq[36] mlFreq[53] ofFreq[32]
 *                               -> "O <256> <36> <53> <32> litSum llSum mlSum ofSum litBase llBase mlBase ofBase priceType"
 */
#include "compress/zstd_opt.c"
#define ZDICT_STATIC_LINKING_ONLY
#include "zdict.h"
#include <stdio.h>
#include <stdlib.h>
#include <string.h>

static ZSTD_compressedBlockState_t bs;
static int haveDict;
static U64 wksp[HUF_WORKSPACE_SIZE_U64 * 4 + 1024];

int main(void) {
    char cmd[32];
    while (scanf("%31s", cmd) == 1) {
        if (!strcmp(cmd, "consts")) {
            printf("K %d %d %d %d %d %d\n", MaxLit, MaxLL, MaxML, MaxOff, ZSTD_PREDEF_THRESHOLD, BITCOST_ACCURACY);
        } else if (!strcmp(cmd, "dict") || !strcmp(cmd, "train")) {
            char path[1024]; FILE* f; static BYTE buf[1 << 20]; size_t n, r; unsigned s; int ok = 1;
            if (scanf("%1023s", path) != 1) return 2;
            f = fopen(path, "rb"); if (!f) { printf("C 0\n"); continue; }
            n = fread(buf, 1, sizeof(buf), f); fclose(f);
            if (!strcmp(cmd, "train")) {
                static BYTE dbuf[1 << 15]; static size_t sizes[4096]; unsigned const ns = (unsigned)(n / 512); unsigned k; size_t d;
                for (k = 0; k < ns && k < 4096; k++) sizes[k] = 512;
                d = ZDICT_trainFromBuffer(dbuf, sizeof(dbuf), buf, sizes, ns < 4096 ? ns : 4096);
                if (ZDICT_isError(d)) { printf("C 0 trainerr %s\n", ZDICT_getErrorName(d)); continue; }
                memcpy(buf, dbuf, d); n = d;
            }
            ZSTD_reset_compressedBlockState(&bs);
            r = ZSTD_loadCEntropy(&bs, wksp, buf, n);
            if (ZSTD_isError(r)) { printf("C 0 loaderr %s\n", ZSTD_getErrorName(r)); continue; }
            for (s = 0; s <= MaxLit; s++) if (HUF_getNbBitsFromCTable(bs.entropy.huf.CTable, s) > 11) { ok = 0; fprintf(stderr, "lit %u cost %u\n", s, HUF_getNbBitsFromCTable(bs.entropy.huf.CTable, s)); }
            {   FSE_CState_t st;
                FSE_initCState(&st, bs.entropy.fse.litlengthCTable);
                for (s = 0; s <= MaxLL; s++) if (FSE_getMaxNbBits(st.symbolTT, s) >= 10) { ok = 0; fprintf(stderr, "ll %u cost %u\n", s, FSE_getMaxNbBits(st.symbolTT, s)); }
                FSE_initCState(&st, bs.entropy.fse.matchlengthCTable);
                for (s = 0; s <= MaxML; s++) if (FSE_getMaxNbBits(st.symbolTT, s) >= 10) ok = 0;
                FSE_initCState(&st, bs.entropy.fse.offcodeCTable);
                for (s = 0; s <= MaxOff; s++) if (FSE_getMaxNbBits(st.symbolTT, s) >= 10) ok = 0;
            }
            haveDict = ok;
            printf("C %d", ok);
            if (ok) {
                FSE_CState_t st;
                for (s = 0; s <= MaxLit; s++) printf(" %u", HUF_getNbBitsFromCTable(bs.entropy.huf.CTable, s));
                FSE_initCState(&st, bs.entropy.fse.litlengthCTable);
                for (s = 0; s <= MaxLL; s++) printf(" %u", FSE_getMaxNbBits(st.symbolTT, s));
                FSE_initCState(&st, bs.entropy.fse.matchlengthCTable);
                for (s = 0; s <= MaxML; s++) printf(" %u", FSE_getMaxNbBits(st.symbolTT, s));
                FSE_initCState(&st, bs.entropy.fse.offcodeCTable);
                for (s = 0; s <= MaxOff; s++) printf(" %u", FSE_getMaxNbBits(st.symbolTT, s));
            }
            printf("\n");
        } else if (!strcmp(cmd, "R")) {
            int cl, lvl, hasdict; unsigned lls; size_t nsrc, i; BYTE* src;
            static unsigned litFreq[MaxLit + 1], llFreq[MaxLL + 1], mlFreq[MaxML + 1], ofFreq[MaxOff + 1];
            optState_t opt; ZSTD_entropyCTables_t none;
            if (scanf("%d %d %d %u %zu", &cl, &lvl, &hasdict, &lls, &nsrc) != 5) return 2;
            src = (BYTE*)malloc(nsrc + 8);
            for (i = 0; i < nsrc; i++) { unsigned v; if (scanf("%u", &v) != 1) return 2; src[i] = (BYTE)v; }
            for (i = 0; i <= MaxLit; i++) if (scanf("%u", &litFreq[i]) != 1) return 2;
            for (i = 0; i <= MaxLL; i++) if (scanf("%u", &llFreq[i]) != 1) return 2;
            for (i = 0; i <= MaxML; i++) if (scanf("%u", &mlFreq[i]) != 1) return 2;
            for (i = 0; i <= MaxOff; i++) if (scanf("%u", &ofFreq[i]) != 1) return 2;
            memset(&opt, 0xA5, sizeof(opt));      /* everything not set below is garbage on purpose */
            memset(&none, 0, sizeof(none));
            none.huf.repeatMode = HUF_repeat_none;
            opt.litFreq = litFreq; opt.litLengthFreq = llFreq; opt.matchLengthFreq = mlFreq; opt.offCodeFreq = ofFreq;
            opt.litLengthSum = lls;
            opt.litSum = 0; { unsigned t = 0; for (i = 0; i <= MaxLit; i++) t += litFreq[i]; opt.litSum = t; }
            { unsigned t = 0; for (i = 0; i <= MaxML; i++) t += mlFreq[i]; opt.matchLengthSum = t; }
            { unsigned t = 0; for (i = 0; i <= MaxOff; i++) t += ofFreq[i]; opt.offCodeSum = t; }
            opt.litSumBasePrice = 0; opt.litLengthSumBasePrice = 0; opt.matchLengthSumBasePrice = 0; opt.offCodeSumBasePrice = 0;
            opt.priceType = zop_dynamic;
            opt.literalCompressionMode = cl ? ZSTD_ps_auto : ZSTD_ps_disable;
            if (hasdict && haveDict) { bs.entropy.huf.repeatMode = HUF_repeat_valid; opt.symbolCosts = &bs.entropy; }
            else opt.symbolCosts = &none;
            ZSTD_rescaleFreqs(&opt, src, nsrc, lvl);
            printf("O");
            for (i = 0; i <= MaxLit; i++) printf(" %u", litFreq[i]);
            for (i = 0; i <= MaxLL; i++) printf(" %u", llFreq[i]);
            for (i = 0; i <= MaxML; i++) printf(" %u", mlFreq[i]);
            for (i = 0; i <= MaxOff; i++) printf(" %u", ofFreq[i]);
            printf(" %u %u %u %u %u %u %u %u %d\n", opt.litSum, opt.litLengthSum, opt.matchLengthSum, opt.offCodeSum,
                   opt.litSumBasePrice, opt.litLengthSumBasePrice, opt.matchLengthSumBasePrice, opt.offCodeSumBasePrice,
                   (int)opt.priceType);
            free(src);
        } else if (!strcmp(cmd, "H")) {
            /* H mls hBits salt b0..b7 -> "H w mixed hash" : the real ZSTD_hashPtrSalted and its unsalted, unshifted mix */
            unsigned mls, hBits, i; unsigned long long salt, mixed; BYTE b[8]; size_t h; unsigned w;
            if (scanf("%u %u %llu", &mls, &hBits, &salt) != 3) return 2;
            for (i = 0; i < 8; i++) { unsigned v; if (scanf("%u", &v) != 1) return 2; b[i] = (BYTE)v; }
            h = ZSTD_hashPtrSalted(b, hBits, mls, salt);
            switch (mls) {
                default:
                case 4: w = 32; mixed = ZSTD_hash4(MEM_readLE32(b), 32, 0); break;
                case 5: w = 64; mixed = ZSTD_hash5(MEM_readLE64(b), 64, 0); break;
                case 6: w = 64; mixed = ZSTD_hash6(MEM_readLE64(b), 64, 0); break;
                case 7: w = 64; mixed = ZSTD_hash7(MEM_readLE64(b), 64, 0); break;
                case 8: w = 64; mixed = ZSTD_hash8(MEM_readLE64(b), 64, 0); break;
            }
            printf("H %u %llu %llu\n", w, mixed, (unsigned long long)h);
        } else return 2;
    }
    return 0;
}
