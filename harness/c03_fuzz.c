/* c03_fuzz: every decoding / frame-inspection entry point of the libzstd rebuilt from /repo's working tree, run on
 * untrusted bytes.  In-process loop over a case file (stdin), one result line per case; built with the `asan`
 * variant (ASan + UBSan, -fno-sanitize-recover) a memory error kills the process - the driver (zv/props/c03.py)
 * runs batches and bisects to the culprit.  Input and output buffers are exact-size heap blocks so that a
 * one-byte over-read / over-write is caught.
 *
 *   F <id> <flags> <dicthex|-> <datahex|-> <cap> <seed>     frame-level entry points
 *        flags: "-" or comma list:  ml (magicless format)  nolegacy-irrelevant
 *        -> <id> one=<OK:hex|E:name> dctx=<st> dict=<st> strm=<st> cont=<st> insp=<...> wd=<watchdog trace> flags=<anomalies|->
 *   B <id> - - <datahex> <cap> <seed>                        ZSTD_decompressBlock on a bare block body
 *   D <id> - <dicthex> <framehex> <cap> <seed>               dictionary loaders (DDict / DCtx / CDict) on untrusted dictionary bytes
 *   L <id> - - <datahex> <cap> <seed>                        legacy-format frame: one-shot + streaming + inspectors (sanitizer only)
 *   G <id> <dictID>                                          print a freshly finalized valid dictionary (hex) and a frame compressed with it
 *
 * Anomaly flags (each is an oracle failure reported by the driver):
 *   RET>CAP     a decoder returned a size larger than the capacity it was given
 *   PATHDIFF:x  two entry points succeeded on the same input with different bytes
 *   STALLX      a ZSTD_decompressStream call made no progress although input and output space were available
 *   NPOVER      more than the limit of consecutive zero-progress calls returned without error
 *   CSIZE>SRC   ZSTD_findFrameCompressedSize > srcSize ;  DSIZE!=OUT  ZSTD_findDecompressedSize differs from the decoded size
 *   (ZSTD_decompressBound is printed; the driver compares it with the decoded size for inputs the reference decoder accepts)
 */
#define ZSTD_STATIC_LINKING_ONLY
#define ZDICT_STATIC_LINKING_ONLY
#include "zstd.h"
#include "zstd_errors.h"
#include "zdict.h"
#include "decompress/zstd_decompress_internal.h"   /* struct ZSTD_DCtx_s: streamStage, noForwardProgress, legacyVersion */
#include <stdio.h>
#include <stdlib.h>
#include <string.h>

static unsigned char* unhex(const char* s, size_t* n) {
    size_t l, i; unsigned char* b;
    if (!strcmp(s, "-")) { *n = 0; return (unsigned char*)malloc(1); }
    l = strlen(s) / 2; b = (unsigned char*)malloc(l ? l : 1);
    for (i = 0; i < l; i++) { unsigned v; sscanf(s + 2 * i, "%2x", &v); b[i] = (unsigned char)v; }
    *n = l; return b;
}
static void puthex(const unsigned char* b, size_t n) {
    static const char* H = "0123456789abcdef"; size_t i;
    if (n == 0) { putchar('-'); return; }
    for (i = 0; i < n; i++) { putchar(H[b[i] >> 4]); putchar(H[b[i] & 15]); }
}
static void puterr(size_t code) {
    const char* e = ZSTD_getErrorString(ZSTD_getErrorCode(code));
    printf("E:"); for (; *e; e++) putchar((*e == ' ' || *e == '\'') ? '_' : *e);
}
static unsigned long long g_rng;
static unsigned rnd(void) { g_rng ^= g_rng << 13; g_rng ^= g_rng >> 7; g_rng ^= g_rng << 17; return (unsigned)(g_rng >> 11); }

static char g_flags[512];
static void flag(const char* f) { if (strlen(g_flags) + strlen(f) + 2 < sizeof(g_flags)) { if (g_flags[0]) strcat(g_flags, ","); strcat(g_flags, f); } }

/* exact-size copy of a buffer (so that ASan sees the true bounds) */
static unsigned char* exact(const unsigned char* b, size_t n) { unsigned char* p = (unsigned char*)malloc(n ? n : 1); if (n) memcpy(p, b, n); return p; }

typedef struct { size_t r; unsigned char* out; size_t n; } result;
static void put_status(const char* key, const result* x, int with_bytes) {
    printf(" %s=", key);
    if (ZSTD_isError(x->r)) puterr(x->r);
    else { printf("OK:"); if (with_bytes) puthex(x->out, x->n); else printf("%lu", (unsigned long)x->n); }
}
static void compare(const char* name, const result* ref, const result* x) {
    if (!ZSTD_isError(ref->r) && !ZSTD_isError(x->r)) {
        if (ref->n != x->n || (ref->n && memcmp(ref->out, x->out, ref->n))) { char b[64]; sprintf(b, "PATHDIFF:%s", name); flag(b); }
    }
}
static void check_ret(size_t r, size_t cap) { if (!ZSTD_isError(r) && r > cap) flag("RET>CAP"); }

/* ---- watchdog trace: run-length list of (class, counter after the call) ---- */
static char g_wd[8192]; static size_t g_wdl; static char g_wd_last; static int g_wd_lastc; static unsigned g_wd_run;
static void wd_flush(void) {
    if (g_wd_run && g_wdl + 40 < sizeof(g_wd)) g_wdl += (size_t)sprintf(g_wd + g_wdl, "%c%dx%u;", g_wd_last, g_wd_lastc, g_wd_run);
    g_wd_run = 0;
}
static void wd_add(char c, int counter) {
    if (g_wd_run && c == g_wd_last && counter == g_wd_lastc) { g_wd_run++; return; }
    wd_flush(); g_wd_last = c; g_wd_lastc = counter; g_wd_run = 1;
}

/* streaming decode under a seeded segmentation; records the watchdog observations */
static result stream_decode(ZSTD_DCtx* dc, const unsigned char* f, size_t fn, size_t cap, unsigned mode) {
    result res; size_t ipos = 0, opos = 0, r = 1; unsigned stalls = 0, tail = 0; unsigned long guard = 0;
    unsigned char* out = (unsigned char*)malloc(cap ? cap : 1);
    res.out = out; res.n = 0;
    g_wdl = 0; g_wd_run = 0; g_wd[0] = 0;
    for (;;) {
        size_t il = fn - ipos, ol = cap - opos; ZSTD_inBuffer ib; ZSTD_outBuffer ob; unsigned char* isub; unsigned char* osub;
        char cls; int counter;
        switch (mode & 3) {
            case 0: { size_t b = 1 + rnd() % 7; if (il > 1) il = 1; if (ol > b) ol = b; } break;       /* byte by byte */
            case 1: { size_t a = 1 + rnd() % 17, b = 1 + rnd() % 300; if (il > a) il = a; if (ol > b) ol = b; } break;
            case 2: { size_t a = 1 + rnd() % 5000, b = 1 + rnd() % 70000; if (il > a) il = a; if (ol > b) ol = b; } break;
            default: break;                                                                            /* everything at once */
        }
        if (tail) il = 0;
        isub = exact(f + ipos, il); osub = (unsigned char*)malloc(ol ? ol : 1);     /* exact-size windows */
        ib.src = isub; ib.size = il; ib.pos = 0; ob.dst = osub; ob.size = ol; ob.pos = 0;
        r = ZSTD_decompressStream(dc, &ob, &ib);
        counter = dc->noForwardProgress;
        if (ob.pos > ol || ib.pos > il) flag("RET>CAP");
        if (ob.pos <= ol && ob.pos) memcpy(out + opos, osub, ob.pos);
        free(isub); free(osub);
        if (ZSTD_isError(r)) {
            ZSTD_ErrorCode const ec = ZSTD_getErrorCode(r);
            wd_add(ec == ZSTD_error_noForwardProgress_destFull ? 'f' : ec == ZSTD_error_noForwardProgress_inputEmpty ? 'e' : 'x', counter);
            break;
        }
#if defined(ZSTD_LEGACY_SUPPORT) && (ZSTD_LEGACY_SUPPORT>=1)
        if (dc->legacyVersion) cls = 'L'; else
#endif
        if (dc->streamStage == zdss_loadHeader && r != 0) cls = 'H';
        else if (ib.pos || ob.pos) cls = 'P';
        else cls = (ob.pos == ob.size) ? ((ib.pos == ib.size) ? 'B' : 'F') : ((ib.pos == ib.size) ? 'E' : 'X');
        wd_add(cls, counter);
        if (cls == 'X') flag("STALLX");
        if (ib.pos == 0 && ob.pos == 0) { if (cls != 'H' && cls != 'L' && ++stalls > (unsigned)ZSTD_NO_FORWARD_PROGRESS_MAX_FOR_HARNESS) { flag("NPOVER"); break; } }
        else stalls = 0;
        ipos += ib.pos; opos += ob.pos;
        if (r == 0 && ipos == fn) break;                         /* all frames decoded and flushed */
        if (ipos == fn && ob.pos < ol) {                         /* input exhausted inside a frame: poke the watchdog with empty calls */
            if (++tail > (unsigned)ZSTD_NO_FORWARD_PROGRESS_MAX_FOR_HARNESS + 3) break;
        }
        if (opos == cap && ob.pos == 0 && ib.pos == 0 && ++tail > (unsigned)ZSTD_NO_FORWARD_PROGRESS_MAX_FOR_HARNESS + 3) break;
        if (++guard > 3000000UL) { flag("GUARD"); break; }
    }
    wd_flush();
    res.n = opos;
    if (ZSTD_isError(r)) res.r = r;
    else if (r != 0 || ipos != fn) res.r = (size_t)-ZSTD_error_srcSize_wrong;      /* stream ended inside a frame */
    else res.r = opos;
    return res;
}

static result bufferless(ZSTD_DCtx* dc, const unsigned char* f, size_t fn, size_t cap, const unsigned char* d, size_t dn) {
    result res; size_t ipos = 0, opos = 0; size_t r;
    unsigned char* out = (unsigned char*)malloc(cap ? cap : 1); unsigned long guard = 0;
    res.out = out; res.n = 0;
    r = dn ? ZSTD_decompressBegin_usingDict(dc, d, dn) : ZSTD_decompressBegin(dc);
    while (!ZSTD_isError(r)) {
        size_t need = ZSTD_nextSrcSizeToDecompress(dc); unsigned char* isub;
        if (need == 0) { if (ipos == fn) { r = 0; break; }
            r = dn ? ZSTD_decompressBegin_usingDict(dc, d, dn) : ZSTD_decompressBegin(dc); if (++guard > 100000UL) break; continue; }
        if (need > fn - ipos) { r = (size_t)-ZSTD_error_srcSize_wrong; break; }
        isub = exact(f + ipos, need);
        r = ZSTD_decompressContinue(dc, out + opos, cap - opos, isub, need);
        free(isub);
        if (ZSTD_isError(r)) break;
        if (r > cap - opos) { flag("RET>CAP"); break; }
        ipos += need; opos += r;
        if (++guard > 3000000UL) { flag("GUARD"); break; }
    }
    res.n = opos; res.r = ZSTD_isError(r) ? r : opos;
    return res;
}

static void inspectors(const unsigned char* f, size_t fn, const result* one) {
    unsigned long long fcs = ZSTD_getFrameContentSize(f, fn);
    unsigned long long bound = ZSTD_decompressBound(f, fn);
    size_t cs = ZSTD_findFrameCompressedSize(f, fn);
    size_t margin = ZSTD_decompressionMargin(f, fn);
    unsigned long long ds = ZSTD_findDecompressedSize(f, fn);
    unsigned did = ZSTD_getDictID_fromFrame(f, fn);
    unsigned isf = ZSTD_isFrame(f, fn), issk = ZSTD_isSkippableFrame(f, fn);
    ZSTD_frameHeader h; size_t hr = ZSTD_getFrameHeader(&h, f, fn);
    ZSTD_frameHeader h2; size_t hr2 = ZSTD_getFrameHeader_advanced(&h2, f, fn, ZSTD_f_zstd1_magicless);
    size_t hsz = ZSTD_frameHeaderSize(f, fn);
    (void)hr2; (void)hsz; (void)did; (void)isf;
    if (issk) {   /* skippable frame reader, with a capacity that may be too small */
        unsigned mv = 0; size_t capv = rnd() % 64; unsigned char* sk = (unsigned char*)malloc(capv ? capv : 1);
        size_t sr = ZSTD_readSkippableFrame(sk, capv, &mv, f, fn);
        if (!ZSTD_isError(sr) && sr > capv) flag("RET>CAP");
        free(sk);
    }
    if (!ZSTD_isError(cs) && cs > fn) flag("CSIZE>SRC");
    if (!ZSTD_isError(one->r) && ds != ZSTD_CONTENTSIZE_ERROR && ds != ZSTD_CONTENTSIZE_UNKNOWN && ds != one->n) flag("DSIZE!=OUT");
    printf(" insp=fcs:%llu,bound:%llu,cs:%s%llu,margin:%s%llu,ds:%llu,hdr:%s%lu", fcs, bound,
           ZSTD_isError(cs) ? "E" : "", ZSTD_isError(cs) ? 0ULL : (unsigned long long)cs,
           ZSTD_isError(margin) ? "E" : "", ZSTD_isError(margin) ? 0ULL : (unsigned long long)margin, ds,
           ZSTD_isError(hr) ? "E" : "", (unsigned long)(ZSTD_isError(hr) ? 0 : hr));
}

static void cmd_F(char** t, int legacy) {
    const char* id = t[1]; const char* fl = t[2];
    size_t dn, fn, cap = (size_t)strtoull(t[5], NULL, 10); unsigned char* d0 = unhex(t[3], &dn); unsigned char* f0 = unhex(t[4], &fn);
    unsigned char* d = exact(d0, dn); unsigned char* f = exact(f0, fn);
    int magicless = strstr(fl, "ml") != NULL;
    result one, dx, dd, st, st2, co; ZSTD_DCtx* dc;
    g_rng = strtoull(t[6], NULL, 10) * 2654435761ULL + 88172645463325252ULL; g_flags[0] = 0;
    free(d0); free(f0);
    memset(&dd, 0, sizeof(dd)); dd.r = (size_t)-1; dd.out = NULL;
    /* 1. one-shot */
    one.out = (unsigned char*)malloc(cap ? cap : 1);
    if (magicless) { dc = ZSTD_createDCtx(); ZSTD_DCtx_setParameter(dc, ZSTD_d_format, ZSTD_f_zstd1_magicless);
        one.r = dn ? ZSTD_decompress_usingDict(dc, one.out, cap, f, fn, d, dn) : ZSTD_decompressDCtx(dc, one.out, cap, f, fn); ZSTD_freeDCtx(dc); }
    else if (dn) { dc = ZSTD_createDCtx(); one.r = ZSTD_decompress_usingDict(dc, one.out, cap, f, fn, d, dn); ZSTD_freeDCtx(dc); }
    else one.r = ZSTD_decompress(one.out, cap, f, fn);
    check_ret(one.r, cap); one.n = ZSTD_isError(one.r) ? 0 : one.r;
    printf("%s", id); put_status("one", &one, 1);
    /* 2. explicit context (+ DDict, multi-DDict when a dictionary is given) */
    dc = ZSTD_createDCtx(); if (magicless) ZSTD_DCtx_setParameter(dc, ZSTD_d_format, ZSTD_f_zstd1_magicless);
    dx.out = (unsigned char*)malloc(cap ? cap : 1);
    if (dn) { ZSTD_DDict* ddict = ZSTD_createDDict(d, dn);
        dx.r = ddict ? ZSTD_decompress_usingDDict(dc, dx.out, cap, f, fn, ddict) : (size_t)-ZSTD_error_dictionary_corrupted;
        check_ret(dx.r, cap); dx.n = ZSTD_isError(dx.r) ? 0 : dx.r;
        if (ddict) {   /* multi-DDict selection path */
            ZSTD_DCtx* dm = ZSTD_createDCtx(); dd.out = (unsigned char*)malloc(cap ? cap : 1);
            if (magicless) ZSTD_DCtx_setParameter(dm, ZSTD_d_format, ZSTD_f_zstd1_magicless);
            dd.r = ZSTD_DCtx_setParameter(dm, ZSTD_d_refMultipleDDicts, ZSTD_rmd_refMultipleDDicts);
            if (!ZSTD_isError(dd.r)) dd.r = ZSTD_DCtx_refDDict(dm, ddict);
            if (!ZSTD_isError(dd.r)) dd.r = ZSTD_decompressDCtx(dm, dd.out, cap, f, fn);
            check_ret(dd.r, cap); dd.n = ZSTD_isError(dd.r) ? 0 : dd.r;
            ZSTD_freeDCtx(dm);
        }
        ZSTD_freeDDict(ddict);
    } else { dx.r = ZSTD_decompressDCtx(dc, dx.out, cap, f, fn); check_ret(dx.r, cap); dx.n = ZSTD_isError(dx.r) ? 0 : dx.r; }
    put_status("dctx", &dx, 0); compare("dctx", &one, &dx);
    if (dd.out) { put_status("mdd", &dd, 0); compare("mdd", &one, &dd); }
    /* 3. streaming under two segmentations (same context reused: exercises reset after an error too) */
    ZSTD_DCtx_reset(dc, ZSTD_reset_session_only);
    ZSTD_DCtx_setParameter(dc, ZSTD_d_windowLogMax, 23);
    if (dn) ZSTD_DCtx_loadDictionary(dc, d, dn);
    st = stream_decode(dc, f, fn, cap, (unsigned)(g_rng >> 20));
    put_status("strm", &st, 0); compare("strm", &one, &st);
    printf(" wd=%s", g_wdl ? g_wd : "-");
    ZSTD_DCtx_reset(dc, ZSTD_reset_session_only);
    st2 = stream_decode(dc, f, fn, cap, 3);
    put_status("strm1", &st2, 0); compare("strm1", &one, &st2);
    printf(" wd1=%s", g_wdl ? g_wd : "-");
    /* 4. buffer-less */
    if (!legacy && !magicless) { ZSTD_DCtx_reset(dc, ZSTD_reset_session_and_parameters);
        co = bufferless(dc, f, fn, cap, d, dn); put_status("cont", &co, 0); compare("cont", &one, &co); free(co.out); }
    /* 5. inspectors */
    inspectors(f, fn, &one);
    printf(" flags=%s\n", g_flags[0] ? g_flags : "-");
    ZSTD_freeDCtx(dc);
    free(one.out); free(dx.out); if (dd.out) free(dd.out); free(st.out); free(st2.out); free(d); free(f);
}

static void cmd_B(char** t) {
    const char* id = t[1]; size_t fn, cap = (size_t)strtoull(t[5], NULL, 10); unsigned char* f0 = unhex(t[4], &fn);
    unsigned char* f = exact(f0, fn); unsigned char* out = (unsigned char*)malloc(cap ? cap : 1);
    ZSTD_DCtx* dc = ZSTD_createDCtx(); size_t r; result x;
    g_flags[0] = 0; free(f0);
    r = ZSTD_decompressBegin(dc);
    if (!ZSTD_isError(r)) r = ZSTD_decompressBlock(dc, out, cap, f, fn);
    check_ret(r, cap);
    x.r = r; x.out = out; x.n = ZSTD_isError(r) ? 0 : r;
    printf("%s", id); put_status("blk", &x, 1);
    /* a second block on the same context: history = first block */
    if (!ZSTD_isError(r) && r < cap) { size_t r2 = ZSTD_decompressBlock(dc, out + r, cap - r, f, fn); check_ret(r2, cap - r); }
    printf(" flags=%s\n", g_flags[0] ? g_flags : "-");
    ZSTD_freeDCtx(dc); free(out); free(f);
}

static const char SAMPLE[] = "The quick brown fox jumps over the lazy dog. Pack my box with five dozen liquor jugs. "
                             "How vexingly quick daft zebras jump! Sphinx of black quartz, judge my vow. 0123456789 "
                             "{\"key\": \"value\", \"list\": [1, 2, 3], \"nested\": {\"a\": true, \"b\": null}}\n";

static void cmd_D(char** t) {
    const char* id = t[1]; size_t dn, fn, cap = (size_t)strtoull(t[5], NULL, 10);
    unsigned char* d0 = unhex(t[3], &dn); unsigned char* f0 = unhex(t[4], &fn);
    unsigned char* d = exact(d0, dn); unsigned char* f = exact(f0, fn);
    unsigned char* out = (unsigned char*)malloc(cap ? cap : 1); unsigned char* out2 = (unsigned char*)malloc(cap ? cap : 1);
    ZSTD_DCtx* dc = ZSTD_createDCtx(); ZSTD_DDict* dd; result a, b, c; size_t r; unsigned id1, id2 = 0;
    g_flags[0] = 0; free(d0); free(f0);
    id1 = ZSTD_getDictID_fromDict(d, dn);
    /* decoder side */
    a.out = out; a.r = ZSTD_decompress_usingDict(dc, out, cap, f, fn, d, dn); check_ret(a.r, cap); a.n = ZSTD_isError(a.r) ? 0 : a.r;
    dd = ZSTD_createDDict(d, dn);
    b.out = out2; b.r = dd ? ZSTD_decompress_usingDDict(dc, out2, cap, f, fn, dd) : (size_t)-ZSTD_error_dictionary_corrupted;
    check_ret(b.r, cap); b.n = ZSTD_isError(b.r) ? 0 : b.r;
    if (dd) { id2 = ZSTD_getDictID_fromDDict(dd); if (id2 != id1 && id2 != 0) flag("DICTID"); }
    printf("%s", id); put_status("one", &a, 1); put_status("ddict", &b, 0); compare("ddict", &a, &b);
    r = ZSTD_DCtx_loadDictionary(dc, d, dn);
    c.out = out2; c.r = ZSTD_isError(r) ? r : ZSTD_decompressDCtx(dc, out2, cap, f, fn); check_ret(c.r, cap); c.n = ZSTD_isError(c.r) ? 0 : c.r;
    put_status("load", &c, 0); compare("load", &a, &c);
    /* note: usingDict and usingDDict may legitimately disagree on error-ness: a DDict keeps the whole dictionary buffer
     * (header + entropy tables + content) as history, the raw path only the content - an offset reaching into the header
     * part is accepted by the former and rejected by the latter (both stay inside the dictionary buffer) */
    /* compressor side: the same untrusted bytes as a compression dictionary; what it produces must decode with it */
    {   int levels[2] = { 3, 6 }; int li;
        for (li = 0; li < 2; li++) {
            ZSTD_CCtx* cc = ZSTD_createCCtx(); size_t const sn = sizeof(SAMPLE) - 1; size_t cb = ZSTD_compressBound(sn);
            unsigned char* cbuf = (unsigned char*)malloc(cb); unsigned char* rt = (unsigned char*)malloc(sn);
            size_t cr = ZSTD_compress_usingDict(cc, cbuf, cb, SAMPLE, sn, d, dn, levels[li]);
            printf(" c%d=", levels[li]);
            if (ZSTD_isError(cr)) puterr(cr);
            else { size_t dr = ZSTD_decompress_usingDict(dc, rt, sn, cbuf, cr, d, dn);
                if (ZSTD_isError(dr) || dr != sn || memcmp(rt, SAMPLE, sn)) { flag("DICTRT"); printf("RTFAIL"); } else printf("OK:%lu", (unsigned long)cr); }
            {   ZSTD_CDict* cd = ZSTD_createCDict(d, dn, levels[li]);
                if (cd) { size_t cr2 = ZSTD_compress_usingCDict(cc, cbuf, cb, SAMPLE, sn, cd);
                    if (!ZSTD_isError(cr2)) { size_t dr = ZSTD_decompress_usingDict(dc, rt, sn, cbuf, cr2, d, dn);
                        if (ZSTD_isError(dr) || dr != sn || memcmp(rt, SAMPLE, sn)) flag("CDICTRT"); }
                    if (ZSTD_getDictID_fromCDict(cd) != id1 && ZSTD_getDictID_fromCDict(cd) != 0) flag("DICTID");
                    ZSTD_freeCDict(cd); }
            }
            free(cbuf); free(rt); ZSTD_freeCCtx(cc);
        }
    }
    printf(" did=%u flags=%s\n", id1, g_flags[0] ? g_flags : "-");
    ZSTD_freeDDict(dd); ZSTD_freeDCtx(dc); free(out); free(out2); free(d); free(f);
}

/* a valid dictionary with the requested dictID (ZDICT_finalizeDictionary over text samples) + a frame that uses it */
static void cmd_G(char** t) {
    const char* id = t[1]; unsigned did = (unsigned)strtoul(t[2], NULL, 10);
    enum { NS = 40 }; size_t sizes[NS]; size_t const sn = sizeof(SAMPLE) - 1; char* samples = (char*)malloc(NS * sn); int i;
    unsigned char dict[4096]; size_t dsz; ZDICT_params_t p; unsigned char content[600];
    for (i = 0; i < NS; i++) { memcpy(samples + i * sn, SAMPLE, sn); samples[i * sn + (i % sn)] = (char)('A' + i % 26); sizes[i] = sn; }
    memset(&p, 0, sizeof(p)); p.dictID = did; p.compressionLevel = 3;
    for (i = 0; i < (int)sizeof(content); i++) content[i] = (unsigned char)SAMPLE[i % sn];
    dsz = ZDICT_finalizeDictionary(dict, sizeof(dict), content, sizeof(content), samples, sizes, NS, p);
    printf("%s", id);
    if (ZDICT_isError(dsz)) { printf(" E:%s\n", ZDICT_getErrorName(dsz)); free(samples); return; }
    printf(" dict="); puthex(dict, dsz);
    {   ZSTD_CCtx* cc = ZSTD_createCCtx(); unsigned char cbuf[1024]; size_t cr = ZSTD_compress_usingDict(cc, cbuf, sizeof(cbuf), SAMPLE, sn, dict, dsz, 3);
        printf(" frame="); if (ZSTD_isError(cr)) printf("E"); else puthex(cbuf, cr);
        printf(" plain="); puthex((const unsigned char*)SAMPLE, sn);
        ZSTD_freeCCtx(cc); }
    putchar('\n'); free(samples);
}

int main(void) {
    char* line = NULL; size_t lcap = 0; ssize_t len;
    while ((len = getline(&line, &lcap, stdin)) > 0) {
        char* t[8]; int nt = 0; char* sv = NULL; char* tok = strtok_r(line, " \n", &sv);
        while (tok && nt < 8) { t[nt++] = tok; tok = strtok_r(NULL, " \n", &sv); }
        if (nt == 0) continue;
        if (t[0][0] == 'F' && nt >= 7) cmd_F(t, 0);
        else if (t[0][0] == 'L' && nt >= 7) cmd_F(t, 1);
        else if (t[0][0] == 'B' && nt >= 7) cmd_B(t);
        else if (t[0][0] == 'D' && nt >= 7) cmd_D(t);
        else if (t[0][0] == 'G' && nt >= 3) cmd_G(t);
        else printf("? BADCMD\n");
        fflush(stdout);
    }
    free(line);
    return 0;
}
