/* C16 correspondence harness: executes a script of parameter-interface calls on the real library (rebuilt from the
 * current /repo working tree) and prints one canonical result line per call, in the format of ml/c16_driver.ml.
 *   class: ok | oob (parameter_outOfBound) | unsup (parameter_unsupported) | stage (stage_wrong) | err (any other error)
 * Calls whose precondition does not hold on the real object (would need huge allocations, stable-buffer modes, ...)
 * are not executed: the line is "skip" and the python driver turns the op into a no-op for the model.
 * Round 2: composite setters, ZSTD_CCtx_setPledgedSrcSize, applied parameters (cctx->appliedParams, mtctx->params),
 * which dictionary a produced frame used (header + decodability), decoder-side dictionary calls. */
#define ZDICT_STATIC_LINKING_ONLY
#include "compress/zstd_compress.c"
#include "zdict.h"
#include <stdio.h>
#include <stdlib.h>
#include <string.h>

int c16_d_stage(const ZSTD_DCtx* d);
int c16_d_hasdict(const ZSTD_DCtx* d);
unsigned long long c16_d_maxwin(const ZSTD_DCtx* d);
/* round 2 (c16_dint.c / c16_mtint.c) */
int c16_d_dictuses(const ZSTD_DCtx* d);                  /* 0 dont_use, 1 use_once, 2 use_indefinitely */
int c16_d_ddict_is_local(const ZSTD_DCtx* d);            /* ddict == ddictLocal (and not NULL) */
const void* c16_d_ddict(const ZSTD_DCtx* d);             /* dctx->ddict */
const void* c16_d_ddict_content(const ZSTD_DCtx* d);     /* content pointer of dctx->ddict, NULL without one */
size_t c16_d_ddict_size(const ZSTD_DCtx* d);
int c16_d_set_allocated(const ZSTD_DCtx* d);
int c16_d_set_has(const ZSTD_DCtx* d, unsigned dictID);
unsigned c16_d_lastid(const ZSTD_DCtx* d);               /* dictID of the last frame header parsed (dctx->fParams.dictID) */
size_t c16_d_sizeof(void);
int c16_mt_params(const ZSTDMT_CCtx* mt, int* level, unsigned cp[7]);

#define MAXIDS 128
static int cids[MAXIDS], ncids = 0, dids[MAXIDS], ndids = 0;

static ZSTD_CCtx* C[2]; static ZSTD_CCtx_params* P; static ZSTD_DCtx* D[2];
static void* cws; static size_t cwsSize = (size_t)48 << 20;
static void* dws; static size_t dwsSize = (size_t)4 << 20;
static unsigned char srcA[100], srcB[5000], garbage[8];
static unsigned char* outb; static size_t outCap = 1 << 18;
static unsigned char* sout[2]; static size_t soutPos[2];          /* accumulated streaming output per cctx */
static unsigned char dictBuf[1 << 14]; static size_t dictSize; static unsigned dictID;
static ZSTD_CDict* cdict; static ZSTD_DDict* ddict;
static unsigned char F[2][256]; static size_t Fsize[2];            /* a small valid frame in format 0 / 1 */
static int dbegan[2];
static unsigned char G[5][8192]; static size_t Gsize[5];          /* frames for the decoder-side effect checks */
/* round 2: a second dictionary, two prefixes, frames that need each of them; index 1 = the dictionary above, 2 = the second one */
static unsigned char dictBuf2[1 << 14]; static size_t dictSize2;
static const unsigned char* DICT[3]; static size_t DICTSZ[3]; static unsigned DICTID[3];
static ZSTD_CDict* CDICT[3]; static ZSTD_DDict* DDICT[3];
static unsigned char PFX[3][1000];
static unsigned char FD[5][2048]; static size_t FDsize[5];       /* 0 plain, 1 dictionary 1, 2 dictionary 2, 3 prefix 1, 4 prefix 2 */
static size_t fedBytes[2]; static int broken[2];
static unsigned char* lastFrame[2]; static size_t lastSize[2]; static size_t lastSrcKind[2]; static size_t lastSrcLen[2]; static int haveLast[2];
static unsigned char* expectBuf; static unsigned char* decBuf;
static ZSTD_DCtx* UD;                                            /* decoder used to find out what a produced frame needs */

static int c16_d_ignores_checksum(ZSTD_DCtx* d) { int v = 0; ZSTD_DCtx_getParameter(d, ZSTD_d_forceIgnoreChecksum, &v); return v != 0; }
static const char* cls(size_t r) {
    if (!ZSTD_isError(r)) return "ok";
    switch (ZSTD_getErrorCode(r)) {
        case ZSTD_error_parameter_outOfBound: return "oob";
        case ZSTD_error_parameter_unsupported: return "unsup";
        case ZSTD_error_stage_wrong: return "stage";
        default: return "err";
    }
}

static void die(const char* m) { fprintf(stderr, "c16_params: %s\n", m); exit(3); }

static void fresh(void) {
    int i;
    if (C[0]) ZSTD_freeCCtx(C[0]);
    if (C[1]) ZSTD_freeCCtx(C[1]);   /* static: no-op on memory, but releases what the context owns */
    if (P) ZSTD_freeCCtxParams(P);
    if (D[0]) ZSTD_freeDCtx(D[0]);
    C[0] = ZSTD_createCCtx();
    C[1] = ZSTD_initStaticCCtx(cws, cwsSize);
    P = ZSTD_createCCtxParams();
    D[0] = ZSTD_createDCtx();
    memset(dws, 0, c16_d_sizeof());  /* ZSTD_initStaticDCtx leaves customMem and fParams of the context as they are */
    D[1] = ZSTD_initStaticDCtx(dws, dwsSize);
    if (!C[0] || !C[1] || !P || !D[0] || !D[1]) die("object creation failed");
    for (i = 0; i < 2; i++) { soutPos[i] = 0; dbegan[i] = 0; fedBytes[i] = 0; broken[i] = 0; haveLast[i] = 0; }
}

static int cgetv(ZSTD_CCtx* c, ZSTD_cParameter p) { int v = 0; if (ZSTD_isError(ZSTD_CCtx_getParameter(c, p, &v))) return 0; return v; }

/* is starting a frame with the current requested parameters affordable in a test loop ? */
static int cheap(ZSTD_CCtx* c, int isStatic) {
    int const level = cgetv(c, ZSTD_c_compressionLevel);
    int const wl = cgetv(c, ZSTD_c_windowLog), hl = cgetv(c, ZSTD_c_hashLog), cl = cgetv(c, ZSTD_c_chainLog);
    int const nbw = cgetv(c, ZSTD_c_nbWorkers), js = cgetv(c, ZSTD_c_jobSize);
    if ((wl == 0 || hl == 0 || cl == 0) && level > 3) return 0;
    if (wl > 17 || hl > 17 || cl > 17) return 0;
    if (cgetv(c, ZSTD_c_enableLongDistanceMatching) == 1 && wl == 0) return 0;
    if (cgetv(c, ZSTD_c_ldmHashLog) > 17) return 0;
    if (nbw > 2 || (nbw > 0 && isStatic) || (nbw > 0 && js > (1 << 20))) return 0;
    return 1;
}
static int buffered_req(ZSTD_CCtx* c) { return cgetv(c, ZSTD_c_stableInBuffer) == 0 && cgetv(c, ZSTD_c_stableOutBuffer) == 0; }
static int buffered_applied(ZSTD_CCtx* c) { return c->appliedParams.inBufferMode == ZSTD_bm_buffered && c->appliedParams.outBufferMode == ZSTD_bm_buffered; }
static int cmid(ZSTD_CCtx* c) { return c->streamStage != zcss_init; }
static int cdictcode(ZSTD_CCtx* c) {
    if (c->localDict.dict) return c->localDict.cdict ? 2 : 1;
    if (c->cdict) return 3;
    if (c->prefixDict.dict) return 4;
    return 0;
}
/* which of the two test dictionaries / prefixes the context holds: 1, 2, 0 = none, 9 = something else */
static int cdictwhich(ZSTD_CCtx* c) {
    int k;
    if (c->localDict.dict) { for (k = 1; k <= 2; k++) if (c->localDict.dictSize == DICTSZ[k] && !memcmp(c->localDict.dict, DICT[k], DICTSZ[k])) return k; return 9; }
    if (c->cdict) { for (k = 1; k <= 2; k++) if (c->cdict == CDICT[k]) return k; return 9; }
    if (c->prefixDict.dict) { for (k = 1; k <= 2; k++) if (c->prefixDict.dict == (const void*)PFX[k]) return k; return 9; }
    return 0;
}

/* frame header fields of a finished frame: checksum flag, content size present, dictID present, magicless */
static void print_hdr(const char* k, const unsigned char* f, size_t n) {
    ZSTD_frameHeader h; int const magicless = !(n >= 4 && MEM_readLE32(f) == ZSTD_MAGICNUMBER);
    size_t const r = ZSTD_getFrameHeader_advanced(&h, f, n, magicless ? ZSTD_f_zstd1_magicless : ZSTD_f_zstd1);
    if (r != 0) { printf("err hdr\n"); return; }
    printf("%s %d %d %d %d\n", k, (int)h.checksumFlag, h.frameContentSize != ZSTD_CONTENTSIZE_UNKNOWN, h.dictID != 0, magicless);
}

/* remember the frame a context produced: kind 0 = n copies of srcA, 1 = srcB[0..len) */
static void remember(int o, const unsigned char* f, size_t n, int kind, size_t len) {
    if (n > outCap) return;
    memcpy(lastFrame[o], f, n); lastSize[o] = n; lastSrcKind[o] = (size_t)kind; lastSrcLen[o] = len; haveLast[o] = 1;
}
static int dictidx(unsigned id) { return id == 0 ? 0 : id == DICTID[1] ? 1 : id == DICTID[2] ? 2 : 9; }

/* does `f` decode to `want` with: 0 nothing, 1 / 2 dictionary, 3 / 4 prefix ? */
static int decodes_with(const unsigned char* f, size_t n, const unsigned char* want, size_t wantLen, int magicless, int with) {
    size_t r;
    ZSTD_DCtx_reset(UD, ZSTD_reset_session_and_parameters);
    ZSTD_DCtx_setParameter(UD, ZSTD_d_format, magicless ? ZSTD_f_zstd1_magicless : ZSTD_f_zstd1);
    ZSTD_DCtx_setParameter(UD, ZSTD_d_windowLogMax, 31);
    if (with == 1 || with == 2) ZSTD_DCtx_refDDict(UD, DDICT[with]);
    if (with == 3 || with == 4) ZSTD_DCtx_refPrefix(UD, PFX[with - 2], sizeof(PFX[0]));
    r = ZSTD_decompressDCtx(UD, decBuf, outCap, f, n);
    return !ZSTD_isError(r) && r == wantLen && (wantLen == 0 || !memcmp(decBuf, want, wantLen));
}

static size_t parse_nums(const char* p, long long* v, unsigned long long* u, int max) {
    int n = 0;
    while (n < max) { char* e; while (*p == ' ') p++; if (!*p || *p == '\n') break;
        if (*p == '-') { v[n] = strtoll(p, &e, 10); u[n] = (unsigned long long)v[n]; } else { u[n] = strtoull(p, &e, 10); v[n] = (long long)u[n]; }
        if (e == p) break; p = e; n++; }
    return (size_t)n;
}

int main(void) {
    static char line[1 << 16];
    size_t i;
    cws = malloc(cwsSize); dws = calloc(1, dwsSize); outb = malloc(outCap); sout[0] = malloc(outCap); sout[1] = malloc(outCap);
    lastFrame[0] = malloc(outCap); lastFrame[1] = malloc(outCap); expectBuf = malloc(outCap); decBuf = malloc(outCap);
    if (!cws || !dws || !outb || !sout[0] || !sout[1] || !lastFrame[0] || !lastFrame[1] || !expectBuf || !decBuf) die("malloc");
    for (i = 0; i < sizeof(srcA); i++) srcA[i] = (unsigned char)("parameter interface "[i % 20]);
    for (i = 0; i < sizeof(srcB); i++) srcB[i] = (unsigned char)((i * 2654435761u) >> 24) & 0x3f;
    memset(garbage, 0x08, sizeof(garbage));   /* refused in both formats: wrong magic / reserved header bit */
    {   /* two real dictionaries (with a dictID) trained on synthetic samples of different alphabets */
        int which;
        for (which = 1; which <= 2; which++) {
            size_t const ns = 400, ss = 120; size_t* sizes = malloc(ns * sizeof(size_t)); unsigned char* smp = malloc(ns * ss); size_t s, j;
            unsigned x = which == 1 ? 12345 : 987654321u; unsigned char* const dst = which == 1 ? dictBuf : dictBuf2; size_t dsz;
            const char* const pat = which == 1 ? "key=value;zstd-dict" : "<tag attr='q'/>\t#$%";
            for (s = 0; s < ns; s++) { sizes[s] = ss; for (j = 0; j < ss; j++) { x = x * 1103515245u + 12345u;
                smp[s * ss + j] = (j % 24 < 16) ? (unsigned char)(pat[j % 19]) : (unsigned char)((which == 1 ? 'a' : 'P') + ((x >> 16) % 6)); } }
            dsz = ZDICT_trainFromBuffer(dst, sizeof(dictBuf), smp, sizes, (unsigned)ns);
            if (ZDICT_isError(dsz)) die("dictionary training failed");
            DICT[which] = dst; DICTSZ[which] = dsz; DICTID[which] = ZDICT_getDictID(dst, dsz);
            if (DICTID[which] == 0) die("dictionary without id");
            CDICT[which] = ZSTD_createCDict(dst, dsz, 1); DDICT[which] = ZSTD_createDDict(dst, dsz);
            if (!CDICT[which] || !DDICT[which]) die("cdict/ddict");
            free(sizes); free(smp);
        }
        if (DICTID[1] == DICTID[2]) die("the two dictionaries share their id");
        dictSize = DICTSZ[1]; dictSize2 = DICTSZ[2]; dictID = DICTID[1]; cdict = CDICT[1]; ddict = DDICT[1]; (void)dictSize2;
    }
    {   /* two prefixes of incompressible bytes; the sources of the compression calls quote both dictionaries and both prefixes,
           so that a frame compressed with one of them does not decode without it */
        unsigned x = 2463534242u; int k; size_t j;
        for (k = 1; k <= 2; k++) for (j = 0; j < sizeof(PFX[0]); j++) { x ^= x << 13; x ^= x >> 17; x ^= x << 5; PFX[k][j] = (unsigned char)(x >> 11); }
        for (j = 0; j < 25; j++) { srcA[j] = DICT[1][DICTSZ[1] - 60 + j]; srcA[25 + j] = DICT[2][DICTSZ[2] - 60 + j]; srcA[50 + j] = PFX[1][900 + j]; srcA[75 + j] = PFX[2][900 + j]; }
        for (j = 0; j < 75; j++) { srcB[j] = DICT[1][DICTSZ[1] - 160 + j]; srcB[75 + j] = DICT[2][DICTSZ[2] - 160 + j]; srcB[150 + j] = PFX[1][800 + j]; srcB[225 + j] = PFX[2][800 + j]; }
    }
    {   int f; for (f = 0; f < 2; f++) { ZSTD_CCtx* c = ZSTD_createCCtx(); ZSTD_CCtx_setParameter(c, ZSTD_c_format, f);
            Fsize[f] = ZSTD_compress2(c, F[f], sizeof(F[f]), srcA, sizeof(srcA)); if (ZSTD_isError(Fsize[f])) die("F"); ZSTD_freeCCtx(c); } }
    {   /* G0: zstd1 wlog 10, checksum, no content size; G1: same, magicless; G2: wlog 12; G3: G0 with a corrupted checksum; G4: with dictionary */
        int k; for (k = 0; k < 5; k++) { ZSTD_CCtx* c = ZSTD_createCCtx();
            ZSTD_CCtx_setParameter(c, ZSTD_c_windowLog, k == 2 ? 12 : 10); ZSTD_CCtx_setParameter(c, ZSTD_c_contentSizeFlag, 0);
            ZSTD_CCtx_setParameter(c, ZSTD_c_checksumFlag, 1); ZSTD_CCtx_setParameter(c, ZSTD_c_format, k == 1);
            if (k == 4) ZSTD_CCtx_refCDict(c, cdict);
            Gsize[k] = ZSTD_compress2(c, G[k], sizeof(G[k]), srcB, sizeof(srcB)); if (ZSTD_isError(Gsize[k])) die("G"); ZSTD_freeCCtx(c); }
        G[3][Gsize[3] - 1] ^= 0x55; }
    UD = ZSTD_createDCtx(); if (!UD) die("UD");
    {   /* FD0..4: srcB[0..300) compressed with nothing / dictionary 1 / dictionary 2 / prefix 1 / prefix 2 (checksum, content size) */
        int k; for (k = 0; k < 5; k++) { ZSTD_CCtx* c = ZSTD_createCCtx(); int w;
            ZSTD_CCtx_setParameter(c, ZSTD_c_checksumFlag, 1);
            if (k == 1 || k == 2) ZSTD_CCtx_refCDict(c, CDICT[k]);
            if (k >= 3) ZSTD_CCtx_refPrefix(c, PFX[k - 2], sizeof(PFX[0]));
            FDsize[k] = ZSTD_compress2(c, FD[k], sizeof(FD[k]), srcB, 300); if (ZSTD_isError(FDsize[k])) die("FD"); ZSTD_freeCCtx(c);
            for (w = 0; w < 5; w++) if (decodes_with(FD[k], FDsize[k], srcB, 300, 0, w) != (w == k || k == 0)) die("fixture frame FD does not need exactly its own dictionary"); } }
    fresh();
    while (fgets(line, sizeof(line), stdin)) {
        char op[32]; long long v[14]; unsigned long long u[14]; long long a = 0, b = 0, c3 = 0; size_t n; int oplen = 0;
        if (!strncmp(line, "cids", 4) || !strncmp(line, "dids", 4)) {
            int* ids = line[0] == 'c' ? cids : dids; int cnt = 0; char* p = line + 4;
            for (;;) { char* e; long vv = strtol(p, &e, 10); if (e == p) break; if (cnt < MAXIDS) ids[cnt++] = (int)vv; p = e; }
            if (line[0] == 'c') ncids = cnt; else ndids = cnt;
            continue;
        }
        if (sscanf(line, "%31s%n", op, &oplen) < 1) continue;
        memset(v, 0, sizeof(v)); memset(u, 0, sizeof(u));
        n = parse_nums(line + oplen, v, u, 14); (void)n;
        a = v[0]; b = v[1]; c3 = v[2];
        if (!strcmp(op, "new")) { fresh(); printf("ok\n"); }
        else if (!strcmp(op, "nop")) printf("ok\n");
        else if (!strcmp(op, "cbounds")) { ZSTD_bounds bd = ZSTD_cParam_getBounds((ZSTD_cParameter)a);
            if (ZSTD_isError(bd.error)) printf("%s\n", cls(bd.error)); else printf("ok %d %d\n", bd.lowerBound, bd.upperBound); }
        else if (!strcmp(op, "dbounds")) { ZSTD_bounds bd = ZSTD_dParam_getBounds((ZSTD_dParameter)a);
            if (ZSTD_isError(bd.error)) printf("%s\n", cls(bd.error)); else printf("ok %d %d\n", bd.lowerBound, bd.upperBound); }
        else if (!strcmp(op, "fixture")) printf("ok %u %u %u %u\n", (unsigned)DICTSZ[1], (unsigned)DICTSZ[2], (unsigned)CDICT[1]->dictContentSize, (unsigned)CDICT[2]->dictContentSize);
        else if (op[0] == 'c') {
            ZSTD_CCtx* c = C[a & 1]; int const o = (int)(a & 1);
            if (!strcmp(op, "cset")) printf("%s\n", cls(ZSTD_CCtx_setParameter(c, (ZSTD_cParameter)b, (int)c3)));
            else if (!strcmp(op, "cget")) { int vv = 0; size_t const r = ZSTD_CCtx_getParameter(c, (ZSTD_cParameter)b, &vv); printf("%s %d\n", cls(r), ZSTD_isError(r) ? 0 : vv); }
            else if (!strcmp(op, "creset")) { size_t const r = ZSTD_CCtx_reset(c, (ZSTD_ResetDirective)b); if (!cmid(c)) { broken[o] = 0; fedBytes[o] = 0; soutPos[o] = 0; } printf("%s\n", cls(r)); }
            else if (!strcmp(op, "cbegin")) {
                if (!cheap(c, o) || (cmid(c) ? (!buffered_applied(c) || broken[o]) : !buffered_req(c))) printf("skip\n");
                else if (c->pledgedSrcSizePlusOne != 0 && (cmid(c) ? fedBytes[o] : 0) + sizeof(srcA) > c->pledgedSrcSizePlusOne - 1) printf("skip\n");   /* feeding beyond the pledge: see `cover` */
                else if (!cmid(c) && cgetv(c, ZSTD_c_nbWorkers) > 0 && (c->cdict || c->localDict.dict)
                         && (c->pledgedSrcSizePlusOne == 0 || c->pledgedSrcSizePlusOne - 1 > ZSTDMT_JOBSIZE_MIN)) printf("skip\n");   /* multithreaded frame with a CDict: the job parameters depend on the CDict's tables (not modelled) */
                else { ZSTD_inBuffer in = { srcA, sizeof(srcA), 0 }; ZSTD_outBuffer out; size_t r;
                    if (!cmid(c)) { soutPos[o] = 0; fedBytes[o] = 0; }
                    out.dst = sout[o]; out.size = outCap; out.pos = soutPos[o];
                    r = ZSTD_compressStream2(c, &out, &in, ZSTD_e_continue); soutPos[o] = out.pos;
                    if (!ZSTD_isError(r)) fedBytes[o] += in.pos;
                    printf("%s\n", ZSTD_isError(r) ? "err" : (in.pos == in.size ? "ok" : "err partial")); } }
            else if (!strcmp(op, "cend")) {
                if (!cheap(c, o) || (cmid(c) ? (!buffered_applied(c) || broken[o]) : !buffered_req(c))) printf("skip\n");
                else { ZSTD_inBuffer in = { srcA, 0, 0 }; ZSTD_outBuffer out; size_t r;
                    if (!cmid(c)) { soutPos[o] = 0; fedBytes[o] = 0; }
                    out.dst = sout[o]; out.size = outCap; out.pos = soutPos[o];
                    r = ZSTD_compressStream2(c, &out, &in, ZSTD_e_end);
                    if (ZSTD_isError(r) || r != 0) { printf("err %s\n", ZSTD_isError(r) ? ZSTD_getErrorName(r) : "unfinished"); if (cmid(c)) broken[o] = 1; }
                    else { print_hdr("ok", sout[o], out.pos); remember(o, sout[o], out.pos, 0, fedBytes[o]); }
                    soutPos[o] = 0; if (!cmid(c)) fedBytes[o] = 0; } }
            else if (!strcmp(op, "cframe")) {
                if (!cheap(c, o)) printf("skip\n");
                else { size_t const r = ZSTD_compress2(c, outb, outCap, srcB, 300); soutPos[o] = 0; broken[o] = 0; fedBytes[o] = 0;
                    if (ZSTD_isError(r)) printf("err %s\n", ZSTD_getErrorName(r)); else { print_hdr("ok", outb, r); remember(o, outb, r, 1, 300); } } }
            else if (!strcmp(op, "cfxwin")) {   /* effect: the frame of a 5000-byte input shows the window in force */
                if (!cheap(c, o)) printf("skip\n");
                else { size_t const r = ZSTD_compress2(c, outb, outCap, srcB, sizeof(srcB)); soutPos[o] = 0; broken[o] = 0; fedBytes[o] = 0;
                    if (ZSTD_isError(r)) printf("err %s\n", ZSTD_getErrorName(r));
                    else { ZSTD_frameHeader h; int const magicless = !(r >= 4 && MEM_readLE32(outb) == ZSTD_MAGICNUMBER);
                        remember(o, outb, r, 1, sizeof(srcB));
                        if (ZSTD_getFrameHeader_advanced(&h, outb, r, magicless ? ZSTD_f_zstd1_magicless : ZSTD_f_zstd1) != 0) printf("err hdr\n");
                        else printf("ok %d %d %d %d %llu\n", (int)h.checksumFlag, h.frameContentSize != ZSTD_CONTENTSIZE_UNKNOWN, h.dictID != 0, magicless, (unsigned long long)h.windowSize); } } }
            else if (!strcmp(op, "cpledge")) {   /* direct check: a one-shot call must not pledge a size for the next streamed frame */
                size_t r = b == 0 ? ZSTD_compressCCtx(c, outb, outCap, srcB, 300, 1)
                         : b == 1 ? ZSTD_compress_usingDict(c, outb, outCap, srcB, 300, dictBuf, dictSize, 1)
                                  : ZSTD_compress_usingCDict(c, outb, outCap, srcB, 300, cdict);
                if (ZSTD_isError(r)) printf("err oneshot %s\n", ZSTD_getErrorName(r));
                else { ZSTD_inBuffer in = { srcA, sizeof(srcA), 0 }; ZSTD_outBuffer out = { outb, outCap, 0 }; ZSTD_inBuffer in2 = { srcA, 0, 0 };
                    r = ZSTD_compressStream2(c, &out, &in, ZSTD_e_continue);
                    if (!ZSTD_isError(r)) r = ZSTD_compressStream2(c, &out, &in2, ZSTD_e_end);
                    if (ZSTD_isError(r)) printf("err stream %s\n", ZSTD_getErrorName(r)); else print_hdr("ok", outb, out.pos); }
                ZSTD_CCtx_reset(c, ZSTD_reset_session_only); broken[o] = 0; fedBytes[o] = 0; }
            else if (!strcmp(op, "cover")) {   /* direct check: pledge b bytes, feed more than that, end: one of the calls must fail with srcSize_wrong */
                size_t r = ZSTD_CCtx_reset(c, ZSTD_reset_session_only); size_t r1, r2 = 0, r3 = 0; broken[o] = 0; fedBytes[o] = 0;
                r1 = ZSTD_CCtx_setPledgedSrcSize(c, (unsigned long long)b); (void)r;
                if (!cheap(c, o) || !buffered_req(c)) { ZSTD_CCtx_reset(c, ZSTD_reset_session_only); printf("skip\n"); }
                else { ZSTD_inBuffer in = { srcB, (size_t)c3, 0 }; ZSTD_outBuffer out = { outb, outCap, 0 }; ZSTD_inBuffer in2 = { srcB, 0, 0 };
                    r2 = ZSTD_compressStream2(c, &out, &in, ZSTD_e_continue);
                    if (!ZSTD_isError(r2)) r3 = ZSTD_compressStream2(c, &out, &in2, ZSTD_e_end);
                    printf("ok %s %s %s\n", cls(r1), ZSTD_isError(r2) ? ZSTD_getErrorName(r2) : "fed", ZSTD_isError(r2) ? "-" : ZSTD_isError(r3) ? ZSTD_getErrorName(r3) : (r3 == 0 ? "ended" : "unfinished"));
                    ZSTD_CCtx_reset(c, ZSTD_reset_session_only); } }
            else if (!strcmp(op, "cfail")) {
                if (!cheap(c, o)) printf("skip\n");
                else { size_t const r = ZSTD_compress2(c, outb, 1, srcB, 300); soutPos[o] = 0; broken[o] = 0; fedBytes[o] = 0; printf("%s\n", ZSTD_isError(r) ? "err" : "ok"); } }
            else if (!strcmp(op, "cbad")) { ZSTD_inBuffer in = { srcA, 10, 0 }; ZSTD_outBuffer out = { outb, 10, 11 };
                size_t const r = ZSTD_compressStream2(c, &out, &in, ZSTD_e_continue); printf("%s\n", ZSTD_isError(r) ? "err" : "ok"); }
            else if (!strcmp(op, "csimple")) {
                /* round 3: since fix 38ec6ea a single-call compression closes a streaming session left open; not tried while the
                   jobs of a multithreaded frame are in flight */
                if (cmid(c) && c->appliedParams.nbWorkers > 0) printf("skip\n");
                else { size_t const r = ZSTD_compressCCtx(c, outb, outCap, srcB, 300, 1);
                    soutPos[o] = 0; broken[o] = 0; fedBytes[o] = 0;
                    if (ZSTD_isError(r)) printf("err %s\n", ZSTD_getErrorName(r)); else { print_hdr("ok", outb, r); remember(o, outb, r, 1, 300); } } }
            else if (!strcmp(op, "cload")) printf("%s\n", cls(ZSTD_CCtx_loadDictionary(c, b ? DICT[1 + (b == 2)] : NULL, b ? DICTSZ[1 + (b == 2)] : 0)));
            else if (!strcmp(op, "crefcdict")) printf("%s\n", cls(ZSTD_CCtx_refCDict(c, b ? CDICT[1 + (b == 2)] : NULL)));
            else if (!strcmp(op, "crefprefix")) printf("%s\n", cls(ZSTD_CCtx_refPrefix(c, b ? PFX[1 + (b == 2)] : NULL, b ? sizeof(PFX[0]) : 0)));
            else if (!strcmp(op, "capply")) printf("%s\n", cls(ZSTD_CCtx_setParametersUsingCCtxParams(c, P)));
            else if (!strcmp(op, "cvec")) { int k; printf("ok");
                for (k = 0; k < ncids; k++) { int vv = 0; size_t const r = ZSTD_CCtx_getParameter(c, (ZSTD_cParameter)cids[k], &vv); if (ZSTD_isError(r)) printf(" E"); else printf(" %d", vv); }
                printf(" %d %d\n", cmid(c), cdictcode(c)); }
            /* ---- round 2 ---- */
            else if (!strcmp(op, "csetcp")) { ZSTD_compressionParameters cp; cp.windowLog = (unsigned)v[1]; cp.chainLog = (unsigned)v[2]; cp.hashLog = (unsigned)v[3];
                cp.searchLog = (unsigned)v[4]; cp.minMatch = (unsigned)v[5]; cp.targetLength = (unsigned)v[6]; cp.strategy = (ZSTD_strategy)v[7];
                printf("%s\n", cls(ZSTD_CCtx_setCParams(c, cp))); }
            else if (!strcmp(op, "csetfp")) { ZSTD_frameParameters fp; fp.contentSizeFlag = (int)v[1]; fp.checksumFlag = (int)v[2]; fp.noDictIDFlag = (int)v[3];
                printf("%s\n", cls(ZSTD_CCtx_setFParams(c, fp))); }
            else if (!strcmp(op, "csetp")) { ZSTD_parameters pp; pp.cParams.windowLog = (unsigned)v[1]; pp.cParams.chainLog = (unsigned)v[2]; pp.cParams.hashLog = (unsigned)v[3];
                pp.cParams.searchLog = (unsigned)v[4]; pp.cParams.minMatch = (unsigned)v[5]; pp.cParams.targetLength = (unsigned)v[6]; pp.cParams.strategy = (ZSTD_strategy)v[7];
                pp.fParams.contentSizeFlag = (int)v[8]; pp.fParams.checksumFlag = (int)v[9]; pp.fParams.noDictIDFlag = (int)v[10];
                printf("%s\n", cls(ZSTD_CCtx_setParams(c, pp))); }
            else if (!strcmp(op, "cpl")) printf("%s\n", cls(ZSTD_CCtx_setPledgedSrcSize(c, u[1])));
            else if (!strcmp(op, "cxvec")) printf("ok %llu %d %d\n", (unsigned long long)c->pledgedSrcSizePlusOne, c->cParamsChanged != 0, cdictwhich(c));
            else if (!strcmp(op, "cavec")) { int k; printf("ok");
                for (k = 0; k < ncids; k++) { int vv = 0; size_t const r = ZSTD_CCtxParams_getParameter(&c->appliedParams, (ZSTD_cParameter)cids[k], &vv); if (ZSTD_isError(r)) printf(" E"); else printf(" %d", vv); }
                printf("\n"); }
            else if (!strcmp(op, "cmvec")) { int lv = 0; unsigned cp[7];
                if (!c->mtctx || !c16_mt_params(c->mtctx, &lv, cp)) printf("ok none\n");
                else printf("ok %d %u %u %u %u %u %u %u\n", lv, cp[0], cp[1], cp[2], cp[3], cp[4], cp[5], cp[6]); }
            else if (!strcmp(op, "cuse")) {   /* what the last frame produced by this context says and needs */
                if (!haveLast[o]) printf("ok none\n");
                else { ZSTD_frameHeader h; const unsigned char* f = lastFrame[o]; size_t const fn = lastSize[o]; int w, mask = 0; size_t wantLen = lastSrcLen[o]; const unsigned char* want;
                    int const magicless = !(fn >= 4 && MEM_readLE32(f) == ZSTD_MAGICNUMBER);
                    if (lastSrcKind[o] == 0) { size_t q; for (q = 0; q + sizeof(srcA) <= wantLen && q + sizeof(srcA) <= outCap; q += sizeof(srcA)) memcpy(expectBuf + q, srcA, sizeof(srcA)); want = expectBuf; } else want = srcB;
                    if (ZSTD_getFrameHeader_advanced(&h, f, fn, magicless ? ZSTD_f_zstd1_magicless : ZSTD_f_zstd1) != 0) printf("err hdr\n");
                    else { for (w = 0; w < 5; w++) if (decodes_with(f, fn, want, wantLen, magicless, w)) mask |= 1 << w;
                        if (h.frameContentSize == ZSTD_CONTENTSIZE_UNKNOWN) printf("ok -1 %d %d\n", dictidx(h.dictID), mask);
                        else printf("ok %llu %d %d\n", (unsigned long long)h.frameContentSize, dictidx(h.dictID), mask); } } }
            /* ---- round 3: the deprecated stream initialisers ---- */
            else if (!strncmp(op, "cinit", 5) || !strcmp(op, "cresetcs")) {
                size_t r; const int kk = (int)b; const void* const dk = (kk == 1 || kk == 2) ? DICT[kk] : NULL; size_t const dks = (kk == 1 || kk == 2) ? DICTSZ[kk] : 0;
                if (!strcmp(op, "cinit")) r = ZSTD_initCStream(c, (int)b);
                else if (!strcmp(op, "cinitsrc")) r = ZSTD_initCStream_srcSize(c, (int)b, u[2]);
                else if (!strcmp(op, "cinitdict")) r = ZSTD_initCStream_usingDict(c, dk, dks, (int)c3);
                else if (!strcmp(op, "cinitcdict")) r = ZSTD_initCStream_usingCDict(c, (kk == 1 || kk == 2) ? CDICT[kk] : NULL);
                else if (!strcmp(op, "cinitcdictadv")) { ZSTD_frameParameters fp; fp.contentSizeFlag = (int)v[2]; fp.checksumFlag = (int)v[3]; fp.noDictIDFlag = (int)v[4];
                    r = ZSTD_initCStream_usingCDict_advanced(c, (kk == 1 || kk == 2) ? CDICT[kk] : NULL, fp, u[5]); }
                else if (!strcmp(op, "cinitadv")) { ZSTD_parameters pp; pp.cParams.windowLog = (unsigned)v[2]; pp.cParams.chainLog = (unsigned)v[3]; pp.cParams.hashLog = (unsigned)v[4];
                    pp.cParams.searchLog = (unsigned)v[5]; pp.cParams.minMatch = (unsigned)v[6]; pp.cParams.targetLength = (unsigned)v[7]; pp.cParams.strategy = (ZSTD_strategy)v[8];
                    pp.fParams.contentSizeFlag = (int)v[9]; pp.fParams.checksumFlag = (int)v[10]; pp.fParams.noDictIDFlag = (int)v[11];
                    r = ZSTD_initCStream_advanced(c, dk, dks, pp, u[12]); }
                else if (!strcmp(op, "cresetcs")) r = ZSTD_resetCStream(c, u[1]);
                else { die("unknown init op"); r = 0; }
                if (!cmid(c)) { broken[o] = 0; fedBytes[o] = 0; soutPos[o] = 0; }
                printf("%s\n", cls(r)); }
            else die("unknown c op");
        }
        else if (op[0] == 'p') {
            if (!strcmp(op, "pset")) printf("%s\n", cls(ZSTD_CCtxParams_setParameter(P, (ZSTD_cParameter)a, (int)b)));
            else if (!strcmp(op, "pget")) { int vv = 0; size_t const r = ZSTD_CCtxParams_getParameter(P, (ZSTD_cParameter)a, &vv); printf("%s %d\n", cls(r), ZSTD_isError(r) ? 0 : vv); }
            else if (!strcmp(op, "preset")) printf("%s\n", cls(ZSTD_CCtxParams_reset(P)));
            else if (!strcmp(op, "pinit")) printf("%s\n", cls(ZSTD_CCtxParams_init(P, (int)a)));
            else if (!strcmp(op, "pinitadv")) { ZSTD_parameters pp; pp.cParams.windowLog = (unsigned)v[0]; pp.cParams.chainLog = (unsigned)v[1]; pp.cParams.hashLog = (unsigned)v[2];
                pp.cParams.searchLog = (unsigned)v[3]; pp.cParams.minMatch = (unsigned)v[4]; pp.cParams.targetLength = (unsigned)v[5]; pp.cParams.strategy = (ZSTD_strategy)v[6];
                pp.fParams.contentSizeFlag = (int)v[7]; pp.fParams.checksumFlag = (int)v[8]; pp.fParams.noDictIDFlag = (int)v[9];
                printf("%s\n", cls(ZSTD_CCtxParams_init_advanced(P, pp))); }
            else if (!strcmp(op, "pvec")) { int k; printf("ok");
                for (k = 0; k < ncids; k++) { int vv = 0; size_t const r = ZSTD_CCtxParams_getParameter(P, (ZSTD_cParameter)cids[k], &vv); if (ZSTD_isError(r)) printf(" E"); else printf(" %d", vv); }
                printf("\n"); }
            else die("unknown p op");
        }
        else if (op[0] == 'd') {
            ZSTD_DCtx* d = D[a & 1]; int const o = (int)(a & 1);
            if (!strcmp(op, "dset")) printf("%s\n", cls(ZSTD_DCtx_setParameter(d, (ZSTD_dParameter)b, (int)c3)));
            else if (!strcmp(op, "dget")) { int vv = 0; size_t const r = ZSTD_DCtx_getParameter(d, (ZSTD_dParameter)b, &vv); printf("%s %d\n", cls(r), ZSTD_isError(r) ? 0 : vv); }
            else if (!strcmp(op, "dreset")) { printf("%s\n", cls(ZSTD_DCtx_reset(d, (ZSTD_ResetDirective)b))); dbegan[o] = 0; }
            else if (!strcmp(op, "dmaxwin")) printf("%s\n", cls(ZSTD_DCtx_setMaxWindowSize(d, (size_t)(unsigned long long)b)));
            else if (!strcmp(op, "dbegin") || !strcmp(op, "dbad") || !strcmp(op, "dframe")) {
                if (c16_d_stage(d)) printf("skip\n");
                else { int fmt = 0; ZSTD_DCtx_getParameter(d, ZSTD_d_format, &fmt); fmt &= 1;
                    {   int const bad = op[1] == 'b' && op[2] == 'a', whole = op[1] == 'f';
                        ZSTD_inBuffer in = { bad ? garbage : F[fmt], bad ? sizeof(garbage) : (whole ? Fsize[fmt] : 2), 0 };
                        ZSTD_outBuffer out = { outb, outCap, 0 };
                        size_t const r = ZSTD_decompressStream(d, &out, &in);
                        dbegan[o] = (!bad && !whole && !ZSTD_isError(r));
                        if (bad) printf("%s\n", ZSTD_isError(r) ? "err" : "ok");
                        else if (whole) printf("%s\n", (r == 0 && out.pos == sizeof(srcA) && !memcmp(outb, srcA, sizeof(srcA))) ? "ok" : "err");
                        else printf("%s\n", ZSTD_isError(r) ? "err" : "ok"); } } }
            else if (!strcmp(op, "dend")) {
                if (!dbegan[o] || !c16_d_stage(d)) printf("skip\n");
                else { int fmt = 0; ZSTD_DCtx_getParameter(d, ZSTD_d_format, &fmt); fmt &= 1;
                    {   ZSTD_inBuffer in = { F[fmt], Fsize[fmt], 2 }; ZSTD_outBuffer out = { outb, outCap, 0 };
                        size_t const r = ZSTD_decompressStream(d, &out, &in); dbegan[o] = 0;
                        printf("%s\n", (r == 0 && out.pos == sizeof(srcA) && !memcmp(outb, srcA, sizeof(srcA))) ? "ok" : "err"); } } }
            else if (!strcmp(op, "dfx")) {   /* effect: decode prepared frame b by streaming, then reset the session */
                if (c16_d_stage(d)) printf("skip\n");
                else { ZSTD_inBuffer in = { G[b % 5], Gsize[b % 5], 0 }; ZSTD_outBuffer out = { outb, outCap, 0 }; size_t r = 1; int it = 0;
                    while (it++ < 64) { r = ZSTD_decompressStream(d, &out, &in); if (ZSTD_isError(r) || r == 0) break; if (in.pos == in.size) break; }
                    if (!ZSTD_isError(r) && r == 0 && out.pos == sizeof(srcB) && !memcmp(outb, srcB, sizeof(srcB))) printf("ok\n");
                    else printf("err %s\n", ZSTD_isError(r) ? ZSTD_getErrorName(r) : "incomplete");
                    ZSTD_DCtx_reset(d, ZSTD_reset_session_only); dbegan[o] = 0; } }
            else if (!strcmp(op, "dbadcall")) { ZSTD_inBuffer in = { garbage, 4, 5 }; ZSTD_outBuffer out = { outb, outCap, 0 };
                size_t const r = ZSTD_decompressStream(d, &out, &in); printf("%s\n", ZSTD_isError(r) ? "err" : "ok"); }
            else if (!strcmp(op, "drefddict")) printf("%s\n", cls(ZSTD_DCtx_refDDict(d, b ? DDICT[1 + (b == 2)] : NULL)));
            else if (!strcmp(op, "dvec")) { int k; printf("ok");
                for (k = 0; k < ndids; k++) { int vv = 0; size_t const r = ZSTD_DCtx_getParameter(d, (ZSTD_dParameter)dids[k], &vv); if (ZSTD_isError(r)) printf(" E"); else printf(" %d", vv); }
                printf(" %llu %d %d\n", c16_d_maxwin(d), c16_d_stage(d), c16_d_hasdict(d)); }
            /* round 3: with checksum verification off, a frame decoded with the wrong prefix may "succeed" (wrong content) or not: whether that
               call uses up a pending prefix (fixes b15fdb6 / b87b37f / 2f289ec: only a successful call does) is then not determined by the model */
            else if ((!strncmp(op, "ddec", 4)) && c16_d_dictuses(d) == 1 && c16_d_ignores_checksum(d)) printf("skip\n");
            /* ---- round 2 ---- */
            else if (!strcmp(op, "dload")) {
                if (o == 1 && b) printf("skip\n");     /* a static dctx cannot copy (its allocator is uninitialised memory: reported separately) */
                else printf("%s\n", cls(ZSTD_DCtx_loadDictionary(d, b ? DICT[1 + (b == 2)] : NULL, b ? DICTSZ[1 + (b == 2)] : 0))); }
            else if (!strcmp(op, "drefprefix")) {
                if (o == 1 && b) printf("skip\n");     /* refPrefix allocates a (by-reference) DDict */
                else printf("%s\n", cls(ZSTD_DCtx_refPrefix(d, b ? PFX[1 + (b == 2)] : NULL, b ? sizeof(PFX[0]) : 0))); }
            else if (!strcmp(op, "ddec") || !strcmp(op, "ddec1")) {   /* decode fixture frame b (streaming, whole frame in one call / ZSTD_decompressDCtx), then reset the session */
                if (c16_d_stage(d) && op[4] != '1') printf("skip\n");   /* round 3 (fix 21a1fb6): the single-call functions abandon a streaming frame in progress */
                else { int const k = (int)(((b % 5) + 5) % 5); size_t r; size_t produced;
                    if (op[4] == '1') { r = ZSTD_decompressDCtx(d, outb, outCap, FD[k], FDsize[k]); produced = ZSTD_isError(r) ? 0 : r; if (!ZSTD_isError(r)) r = 0; }
                    else { ZSTD_inBuffer in = { FD[k], FDsize[k], 0 }; ZSTD_outBuffer out = { outb, outCap, 0 }; r = ZSTD_decompressStream(d, &out, &in); produced = out.pos; }
                    if (!ZSTD_isError(r) && r == 0 && produced == 300 && !memcmp(outb, srcB, 300)) printf("ok\n");
                    else printf("err %s\n", ZSTD_isError(r) ? ZSTD_getErrorName(r) : "wrong content");
                    ZSTD_DCtx_reset(d, ZSTD_reset_session_only); dbegan[o] = 0; } }
            else if (!strcmp(op, "ddecm")) {   /* one-shot ZSTD_decompressDCtx of the concatenation of three fixture frames */
                if (0) printf("skip\n");
                else { size_t pos = 0, r; int q;
                    for (q = 1; q <= 3; q++) { int const k = (int)(((v[q] % 5) + 5) % 5); memcpy(expectBuf + pos, FD[k], FDsize[k]); pos += FDsize[k]; }
                    r = ZSTD_decompressDCtx(d, outb, outCap, expectBuf, pos);
                    if (!ZSTD_isError(r) && r == 900 && !memcmp(outb, srcB, 300) && !memcmp(outb + 300, srcB, 300) && !memcmp(outb + 600, srcB, 300)) printf("ok\n");
                    else printf("err %s\n", ZSTD_isError(r) ? ZSTD_getErrorName(r) : "wrong content");
                    ZSTD_DCtx_reset(d, ZSTD_reset_session_only); dbegan[o] = 0; } }
            else if (!strcmp(op, "ddecu")) {   /* ZSTD_decompress_usingDDict(dctx, explicit DDict b (0 = NULL), fixture frame c3) */
                if (0) printf("skip\n");
                else { int const k = (int)(((c3 % 5) + 5) % 5);
                    size_t const r = ZSTD_decompress_usingDDict(d, outb, outCap, FD[k], FDsize[k], b ? DDICT[1 + (b == 2)] : NULL);
                    if (!ZSTD_isError(r) && r == 300 && !memcmp(outb, srcB, 300)) printf("ok\n");
                    else printf("err %s\n", ZSTD_isError(r) ? ZSTD_getErrorName(r) : "wrong content");
                    ZSTD_DCtx_reset(d, ZSTD_reset_session_only); dbegan[o] = 0; } }
            /* ---- round 3 ---- */
            else if (!strcmp(op, "ddecr")) {   /* ZSTD_decompress_usingDict(dctx, the bytes of dictionary b (0 = NULL), fixture frame c3) */
                if (0) printf("skip\n");
                else { int const k = (int)(((c3 % 5) + 5) % 5); int const w = b ? 1 + (b == 2) : 0;
                    size_t const r = ZSTD_decompress_usingDict(d, outb, outCap, FD[k], FDsize[k], w ? DICT[w] : NULL, w ? DICTSZ[w] : 0);
                    if (!ZSTD_isError(r) && r == 300 && !memcmp(outb, srcB, 300)) printf("ok\n");
                    else printf("err %s\n", ZSTD_isError(r) ? ZSTD_getErrorName(r) : "wrong content");
                    ZSTD_DCtx_reset(d, ZSTD_reset_session_only); dbegan[o] = 0; } }
            else if (!strcmp(op, "dfxb")) {   /* effect: prepared frame b through the buffer-less API (ZSTD_decompressBegin + ZSTD_decompressContinue), then a session reset */
                /* not run next to a set of referenced DDicts: ZSTD_decodeFrameHeader would select (switch dctx->ddict), and `dfxb` has no model counterpart */
                if (c16_d_stage(d) || c16_d_set_allocated(d)) printf("skip\n");
                else { const unsigned char* ip = G[b % 5]; size_t left = Gsize[b % 5]; size_t pos = 0; size_t r = ZSTD_decompressBegin(d); int it = 0;
                    while (!ZSTD_isError(r) && it++ < 4096) { size_t const need = ZSTD_nextSrcSizeToDecompress(d); if (need == 0) break;
                        if (need > left) { r = ERROR(srcSize_wrong); break; }
                        r = ZSTD_decompressContinue(d, outb + pos, outCap - pos, ip, need); if (ZSTD_isError(r)) break; pos += r; ip += need; left -= need; }
                    if (!ZSTD_isError(r) && pos == sizeof(srcB) && !memcmp(outb, srcB, sizeof(srcB))) printf("ok\n");
                    else printf("err %s\n", ZSTD_isError(r) ? ZSTD_getErrorName(r) : "incomplete");
                    ZSTD_DCtx_reset(d, ZSTD_reset_session_only); dbegan[o] = 0; } }
            else if (!strcmp(op, "dxvec")) {   /* dictUses, kind of the active dictionary (0 none, 1 referenced DDict, 2 local copy, 3 prefix), which one, set membership */
                int const uses = c16_d_dictuses(d); int kind = 0, which = 0; const void* dd = c16_d_ddict(d);
                if (dd) { int k; const void* content = c16_d_ddict_content(d); size_t const csz = c16_d_ddict_size(d);
                    for (k = 1; k <= 2; k++) {
                        if (dd == (const void*)DDICT[k]) { kind = 1; which = k; }
                        else if (content == (const void*)PFX[k]) { kind = 3; which = k; }
                        else if (c16_d_ddict_is_local(d) && kind == 0 && csz <= DICTSZ[k] && csz > 0 && !memcmp(content, DICT[k] + (DICTSZ[k] - csz), csz)) { kind = 2; which = k; } }
                    if (kind == 0) { kind = 9; which = 9; } }
                printf("ok %d %d %d %d %d %d\n", uses, kind, which, c16_d_set_allocated(d), c16_d_set_has(d, DICTID[1]), c16_d_set_has(d, DICTID[2])); }
            else die("unknown d op");
        }
        else die("unknown op");
    }
    return 0;
}
