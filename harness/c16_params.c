/* C16 correspondence harness: executes a script of parameter-interface calls on the real library (rebuilt from the
 * current /repo working tree) and prints one canonical result line per call, in the format of ml/c16_driver.ml.
 *   class: ok | oob (parameter_outOfBound) | unsup (parameter_unsupported) | stage (stage_wrong) | err (any other error)
 * Calls whose precondition does not hold on the real object (would need huge allocations, stable-buffer modes, ...)
 * are not executed: the line is "skip" and the python driver turns the op into a no-op for the model. */
#define ZDICT_STATIC_LINKING_ONLY
#include "compress/zstd_compress.c"
#include "zdict.h"
#include <stdio.h>
#include <stdlib.h>
#include <string.h>

int c16_d_stage(const ZSTD_DCtx* d);
int c16_d_hasdict(const ZSTD_DCtx* d);
unsigned long long c16_d_maxwin(const ZSTD_DCtx* d);

#define MAXIDS 128
static int cids[MAXIDS], ncids = 0, dids[MAXIDS], ndids = 0;

static ZSTD_CCtx* C[2]; static ZSTD_CCtx_params* P; static ZSTD_DCtx* D[2];
static void* cws; static size_t cwsSize = (size_t)48 << 20;
static void* dws; static size_t dwsSize = (size_t)4 << 20;
static unsigned char srcA[100], srcB[5000], garbage[8];
static unsigned char* outb; static size_t outCap = 1 << 18;
static unsigned char* sout[2]; static size_t soutPos[2];          /* accumulated streaming output per cctx */
static unsigned char dictBuf[1 << 14]; static size_t dictSize; static unsigned dictID;
static ZSTD_CDict* cdict; static ZSTD_DDict* ddict;
static unsigned char F[2][256]; static size_t Fsize[2];            /* a small valid frame in format 0 / 1 */
static int dbegan[2];
static unsigned char G[5][8192]; static size_t Gsize[5];          /* frames for the decoder-side effect checks */

static const char* cls(size_t r) {
    if (!ZSTD_isError(r)) return "ok";
    switch (ZSTD_getErrorCode(r)) {
        case ZSTD_error_parameter_outOfBound: return "oob";
        case ZSTD_error_parameter_unsupported: return "unsup";
        case ZSTD_error_stage_wrong: return "stage";
        default: return "err";
    }
}

static void die(const char* m) { fprintf(stderr, "c16_params: %s\n", m); exit(3); }

static void fresh(void) {
    int i;
    if (C[0]) ZSTD_freeCCtx(C[0]);
    if (C[1]) ZSTD_freeCCtx(C[1]);   /* static: no-op on memory, but releases what the context owns */
    if (P) ZSTD_freeCCtxParams(P);
    if (D[0]) ZSTD_freeDCtx(D[0]);
    C[0] = ZSTD_createCCtx();
    C[1] = ZSTD_initStaticCCtx(cws, cwsSize);
    P = ZSTD_createCCtxParams();
    D[0] = ZSTD_createDCtx();
    D[1] = ZSTD_initStaticDCtx(dws, dwsSize);
    if (!C[0] || !C[1] || !P || !D[0] || !D[1]) die("object creation failed");
    for (i = 0; i < 2; i++) { soutPos[i] = 0; dbegan[i] = 0; }
}

static int cgetv(ZSTD_CCtx* c, ZSTD_cParameter p) { int v = 0; if (ZSTD_isError(ZSTD_CCtx_getParameter(c, p, &v))) return 0; return v; }

/* is starting a frame with the current requested parameters affordable in a test loop ? */
static int cheap(ZSTD_CCtx* c, int isStatic) {
    int const level = cgetv(c, ZSTD_c_compressionLevel);
    int const wl = cgetv(c, ZSTD_c_windowLog), hl = cgetv(c, ZSTD_c_hashLog), cl = cgetv(c, ZSTD_c_chainLog);
    int const nbw = cgetv(c, ZSTD_c_nbWorkers), js = cgetv(c, ZSTD_c_jobSize);
    if ((wl == 0 || hl == 0 || cl == 0) && level > 3) return 0;
    if (wl > 17 || hl > 17 || cl > 17) return 0;
    if (cgetv(c, ZSTD_c_enableLongDistanceMatching) == 1 && wl == 0) return 0;
    if (cgetv(c, ZSTD_c_ldmHashLog) > 17) return 0;
    if (nbw > 2 || (nbw > 0 && isStatic) || (nbw > 0 && js > (1 << 20))) return 0;
    return 1;
}
static int buffered_req(ZSTD_CCtx* c) { return cgetv(c, ZSTD_c_stableInBuffer) == 0 && cgetv(c, ZSTD_c_stableOutBuffer) == 0; }
static int buffered_applied(ZSTD_CCtx* c) { return c->appliedParams.inBufferMode == ZSTD_bm_buffered && c->appliedParams.outBufferMode == ZSTD_bm_buffered; }
static int cmid(ZSTD_CCtx* c) { return c->streamStage != zcss_init; }
static int cdictcode(ZSTD_CCtx* c) {
    if (c->localDict.dict) return c->localDict.cdict ? 2 : 1;
    if (c->cdict) return 3;
    if (c->prefixDict.dict) return 4;
    return 0;
}

/* frame header fields of a finished frame: checksum flag, content size present, dictID present, magicless */
static void print_hdr(const char* k, const unsigned char* f, size_t n) {
    ZSTD_frameHeader h; int const magicless = !(n >= 4 && MEM_readLE32(f) == ZSTD_MAGICNUMBER);
    size_t const r = ZSTD_getFrameHeader_advanced(&h, f, n, magicless ? ZSTD_f_zstd1_magicless : ZSTD_f_zstd1);
    if (r != 0) { printf("err hdr\n"); return; }
    printf("%s %d %d %d %d\n", k, (int)h.checksumFlag, h.frameContentSize != ZSTD_CONTENTSIZE_UNKNOWN, h.dictID != 0, magicless);
}

int main(void) {
    static char line[1 << 16];
    size_t i;
    cws = malloc(cwsSize); dws = calloc(1, dwsSize); outb = malloc(outCap); sout[0] = malloc(outCap); sout[1] = malloc(outCap);
    if (!cws || !dws || !outb || !sout[0] || !sout[1]) die("malloc");
    for (i = 0; i < sizeof(srcA); i++) srcA[i] = (unsigned char)("parameter interface "[i % 20]);
    for (i = 0; i < sizeof(srcB); i++) srcB[i] = (unsigned char)((i * 2654435761u) >> 24) & 0x3f;
    memset(garbage, 0x08, sizeof(garbage));   /* refused in both formats: wrong magic / reserved header bit */
    {   /* a real dictionary (with a dictID) trained on synthetic samples */
        size_t const ns = 400, ss = 120; size_t* sizes = malloc(ns * sizeof(size_t)); unsigned char* smp = malloc(ns * ss); size_t s, j; unsigned x = 12345;
        for (s = 0; s < ns; s++) { sizes[s] = ss; for (j = 0; j < ss; j++) { x = x * 1103515245u + 12345u;
            smp[s * ss + j] = (j % 24 < 16) ? (unsigned char)("key=value;zstd-dict"[j % 19]) : (unsigned char)('a' + ((x >> 16) % 6)); } }
        dictSize = ZDICT_trainFromBuffer(dictBuf, sizeof(dictBuf), smp, sizes, (unsigned)ns);
        if (ZDICT_isError(dictSize)) die("dictionary training failed");
        dictID = ZDICT_getDictID(dictBuf, dictSize);
        if (dictID == 0) die("dictionary without id");
        free(sizes); free(smp);
        cdict = ZSTD_createCDict(dictBuf, dictSize, 1); ddict = ZSTD_createDDict(dictBuf, dictSize);
        if (!cdict || !ddict) die("cdict/ddict");
    }
    {   int f; for (f = 0; f < 2; f++) { ZSTD_CCtx* c = ZSTD_createCCtx(); ZSTD_CCtx_setParameter(c, ZSTD_c_format, f);
            Fsize[f] = ZSTD_compress2(c, F[f], sizeof(F[f]), srcA, sizeof(srcA)); if (ZSTD_isError(Fsize[f])) die("F"); ZSTD_freeCCtx(c); } }
    {   /* G0: zstd1 wlog 10, checksum, no content size; G1: same, magicless; G2: wlog 12; G3: G0 with a corrupted checksum; G4: with dictionary */
        int k; for (k = 0; k < 5; k++) { ZSTD_CCtx* c = ZSTD_createCCtx();
            ZSTD_CCtx_setParameter(c, ZSTD_c_windowLog, k == 2 ? 12 : 10); ZSTD_CCtx_setParameter(c, ZSTD_c_contentSizeFlag, 0);
            ZSTD_CCtx_setParameter(c, ZSTD_c_checksumFlag, 1); ZSTD_CCtx_setParameter(c, ZSTD_c_format, k == 1);
            if (k == 4) ZSTD_CCtx_refCDict(c, cdict);
            Gsize[k] = ZSTD_compress2(c, G[k], sizeof(G[k]), srcB, sizeof(srcB)); if (ZSTD_isError(Gsize[k])) die("G"); ZSTD_freeCCtx(c); }
        G[3][Gsize[3] - 1] ^= 0x55; }
    fresh();
    while (fgets(line, sizeof(line), stdin)) {
        char op[32]; long long a = 0, b = 0, c3 = 0; int n;
        if (!strncmp(line, "cids", 4) || !strncmp(line, "dids", 4)) {
            int* ids = line[0] == 'c' ? cids : dids; int cnt = 0; char* p = line + 4;
            for (;;) { char* e; long v = strtol(p, &e, 10); if (e == p) break; if (cnt < MAXIDS) ids[cnt++] = (int)v; p = e; }
            if (line[0] == 'c') ncids = cnt; else ndids = cnt;
            continue;
        }
        n = sscanf(line, "%31s %lld %lld %lld", op, &a, &b, &c3);
        if (n < 1) continue;
        if (!strcmp(op, "new")) { fresh(); printf("ok\n"); }
        else if (!strcmp(op, "nop")) printf("ok\n");
        else if (!strcmp(op, "cbounds")) { ZSTD_bounds bd = ZSTD_cParam_getBounds((ZSTD_cParameter)a);
            if (ZSTD_isError(bd.error)) printf("%s\n", cls(bd.error)); else printf("ok %d %d\n", bd.lowerBound, bd.upperBound); }
        else if (!strcmp(op, "dbounds")) { ZSTD_bounds bd = ZSTD_dParam_getBounds((ZSTD_dParameter)a);
            if (ZSTD_isError(bd.error)) printf("%s\n", cls(bd.error)); else printf("ok %d %d\n", bd.lowerBound, bd.upperBound); }
        else if (op[0] == 'c') {
            ZSTD_CCtx* c = C[a & 1]; int const o = (int)(a & 1);
            if (!strcmp(op, "cset")) printf("%s\n", cls(ZSTD_CCtx_setParameter(c, (ZSTD_cParameter)b, (int)c3)));
            else if (!strcmp(op, "cget")) { int v = 0; size_t const r = ZSTD_CCtx_getParameter(c, (ZSTD_cParameter)b, &v); printf("%s %d\n", cls(r), ZSTD_isError(r) ? 0 : v); }
            else if (!strcmp(op, "creset")) printf("%s\n", cls(ZSTD_CCtx_reset(c, (ZSTD_ResetDirective)b)));
            else if (!strcmp(op, "cbegin")) {
                if (!cheap(c, o) || (cmid(c) ? !buffered_applied(c) : !buffered_req(c))) printf("skip\n");
                else { ZSTD_inBuffer in = { srcA, sizeof(srcA), 0 }; ZSTD_outBuffer out = { sout[o], outCap, soutPos[o] };
                    size_t const r = ZSTD_compressStream2(c, &out, &in, ZSTD_e_continue); soutPos[o] = out.pos;
                    printf("%s\n", ZSTD_isError(r) ? "err" : (in.pos == in.size ? "ok" : "err partial")); } }
            else if (!strcmp(op, "cend")) {
                if (!cheap(c, o) || (cmid(c) ? !buffered_applied(c) : !buffered_req(c))) printf("skip\n");
                else { int const known = !cmid(c); ZSTD_inBuffer in = { srcA, 0, 0 }; ZSTD_outBuffer out = { sout[o], outCap, soutPos[o] };
                    size_t const r = ZSTD_compressStream2(c, &out, &in, ZSTD_e_end); (void)known;
                    if (ZSTD_isError(r) || r != 0) printf("err %s\n", ZSTD_isError(r) ? ZSTD_getErrorName(r) : "unfinished");
                    else print_hdr("ok", sout[o], out.pos);
                    soutPos[o] = 0; } }
            else if (!strcmp(op, "cframe")) {
                if (!cheap(c, o)) printf("skip\n");
                else { size_t const r = ZSTD_compress2(c, outb, outCap, srcB, 300); soutPos[o] = 0;
                    if (ZSTD_isError(r)) printf("err %s\n", ZSTD_getErrorName(r)); else print_hdr("ok", outb, r); } }
            else if (!strcmp(op, "cfxwin")) {   /* effect: the frame of a 5000-byte input shows the window in force */
                if (!cheap(c, o)) printf("skip\n");
                else { size_t const r = ZSTD_compress2(c, outb, outCap, srcB, sizeof(srcB)); soutPos[o] = 0;
                    if (ZSTD_isError(r)) printf("err %s\n", ZSTD_getErrorName(r));
                    else { ZSTD_frameHeader h; int const magicless = !(r >= 4 && MEM_readLE32(outb) == ZSTD_MAGICNUMBER);
                        if (ZSTD_getFrameHeader_advanced(&h, outb, r, magicless ? ZSTD_f_zstd1_magicless : ZSTD_f_zstd1) != 0) printf("err hdr\n");
                        else printf("ok %d %d %d %d %llu\n", (int)h.checksumFlag, h.frameContentSize != ZSTD_CONTENTSIZE_UNKNOWN, h.dictID != 0, magicless, (unsigned long long)h.windowSize); } } }
            else if (!strcmp(op, "cpledge")) {   /* direct check: a one-shot call must not pledge a size for the next streamed frame */
                size_t r = b == 0 ? ZSTD_compressCCtx(c, outb, outCap, srcB, 300, 1)
                         : b == 1 ? ZSTD_compress_usingDict(c, outb, outCap, srcB, 300, dictBuf, dictSize, 1)
                                  : ZSTD_compress_usingCDict(c, outb, outCap, srcB, 300, cdict);
                if (ZSTD_isError(r)) printf("err oneshot %s\n", ZSTD_getErrorName(r));
                else { ZSTD_inBuffer in = { srcA, sizeof(srcA), 0 }; ZSTD_outBuffer out = { outb, outCap, 0 }; ZSTD_inBuffer in2 = { srcA, 0, 0 };
                    r = ZSTD_compressStream2(c, &out, &in, ZSTD_e_continue);
                    if (!ZSTD_isError(r)) r = ZSTD_compressStream2(c, &out, &in2, ZSTD_e_end);
                    if (ZSTD_isError(r)) printf("err stream %s\n", ZSTD_getErrorName(r)); else print_hdr("ok", outb, out.pos); }
                ZSTD_CCtx_reset(c, ZSTD_reset_session_only); }
            else if (!strcmp(op, "cfail")) {
                if (!cheap(c, o)) printf("skip\n");
                else { size_t const r = ZSTD_compress2(c, outb, 1, srcB, 300); soutPos[o] = 0; printf("%s\n", ZSTD_isError(r) ? "err" : "ok"); } }
            else if (!strcmp(op, "cbad")) { ZSTD_inBuffer in = { srcA, 10, 0 }; ZSTD_outBuffer out = { outb, 10, 11 };
                size_t const r = ZSTD_compressStream2(c, &out, &in, ZSTD_e_continue); printf("%s\n", ZSTD_isError(r) ? "err" : "ok"); }
            else if (!strcmp(op, "csimple")) {
                if (cmid(c)) printf("skip\n");
                else { size_t const r = ZSTD_compressCCtx(c, outb, outCap, srcB, 300, 1);
                    if (ZSTD_isError(r)) printf("err %s\n", ZSTD_getErrorName(r)); else print_hdr("ok", outb, r); } }
            else if (!strcmp(op, "cload")) printf("%s\n", cls(ZSTD_CCtx_loadDictionary(c, b ? dictBuf : NULL, b ? dictSize : 0)));
            else if (!strcmp(op, "crefcdict")) printf("%s\n", cls(ZSTD_CCtx_refCDict(c, b ? cdict : NULL)));
            else if (!strcmp(op, "crefprefix")) printf("%s\n", cls(ZSTD_CCtx_refPrefix(c, b ? srcB : NULL, b ? 1000 : 0)));
            else if (!strcmp(op, "capply")) printf("%s\n", cls(ZSTD_CCtx_setParametersUsingCCtxParams(c, P)));
            else if (!strcmp(op, "cvec")) { int k; printf("ok");
                for (k = 0; k < ncids; k++) { int v = 0; size_t const r = ZSTD_CCtx_getParameter(c, (ZSTD_cParameter)cids[k], &v); if (ZSTD_isError(r)) printf(" E"); else printf(" %d", v); }
                printf(" %d %d\n", cmid(c), cdictcode(c)); }
            else die("unknown c op");
        }
        else if (op[0] == 'p') {
            if (!strcmp(op, "pset")) printf("%s\n", cls(ZSTD_CCtxParams_setParameter(P, (ZSTD_cParameter)a, (int)b)));
            else if (!strcmp(op, "pget")) { int v = 0; size_t const r = ZSTD_CCtxParams_getParameter(P, (ZSTD_cParameter)a, &v); printf("%s %d\n", cls(r), ZSTD_isError(r) ? 0 : v); }
            else if (!strcmp(op, "preset")) printf("%s\n", cls(ZSTD_CCtxParams_reset(P)));
            else if (!strcmp(op, "pinit")) printf("%s\n", cls(ZSTD_CCtxParams_init(P, (int)a)));
            else if (!strcmp(op, "pvec")) { int k; printf("ok");
                for (k = 0; k < ncids; k++) { int v = 0; size_t const r = ZSTD_CCtxParams_getParameter(P, (ZSTD_cParameter)cids[k], &v); if (ZSTD_isError(r)) printf(" E"); else printf(" %d", v); }
                printf("\n"); }
            else die("unknown p op");
        }
        else if (op[0] == 'd') {
            ZSTD_DCtx* d = D[a & 1]; int const o = (int)(a & 1);
            if (!strcmp(op, "dset")) printf("%s\n", cls(ZSTD_DCtx_setParameter(d, (ZSTD_dParameter)b, (int)c3)));
            else if (!strcmp(op, "dget")) { int v = 0; size_t const r = ZSTD_DCtx_getParameter(d, (ZSTD_dParameter)b, &v); printf("%s %d\n", cls(r), ZSTD_isError(r) ? 0 : v); }
            else if (!strcmp(op, "dreset")) { printf("%s\n", cls(ZSTD_DCtx_reset(d, (ZSTD_ResetDirective)b))); dbegan[o] = 0; }
            else if (!strcmp(op, "dmaxwin")) printf("%s\n", cls(ZSTD_DCtx_setMaxWindowSize(d, (size_t)(unsigned long long)b)));
            else if (!strcmp(op, "dbegin") || !strcmp(op, "dbad") || !strcmp(op, "dframe")) {
                if (c16_d_stage(d)) printf("skip\n");
                else { int fmt = 0; ZSTD_DCtx_getParameter(d, ZSTD_d_format, &fmt); fmt &= 1;
                    {   int const bad = op[1] == 'b' && op[2] == 'a', whole = op[1] == 'f';
                        ZSTD_inBuffer in = { bad ? garbage : F[fmt], bad ? sizeof(garbage) : (whole ? Fsize[fmt] : 2), 0 };
                        ZSTD_outBuffer out = { outb, outCap, 0 };
                        size_t const r = ZSTD_decompressStream(d, &out, &in);
                        dbegan[o] = (!bad && !whole && !ZSTD_isError(r));
                        if (bad) printf("%s\n", ZSTD_isError(r) ? "err" : "ok");
                        else if (whole) printf("%s\n", (r == 0 && out.pos == sizeof(srcA) && !memcmp(outb, srcA, sizeof(srcA))) ? "ok" : "err");
                        else printf("%s\n", ZSTD_isError(r) ? "err" : "ok"); } } }
            else if (!strcmp(op, "dend")) {
                if (!dbegan[o] || !c16_d_stage(d)) printf("skip\n");
                else { int fmt = 0; ZSTD_DCtx_getParameter(d, ZSTD_d_format, &fmt); fmt &= 1;
                    {   ZSTD_inBuffer in = { F[fmt], Fsize[fmt], 2 }; ZSTD_outBuffer out = { outb, outCap, 0 };
                        size_t const r = ZSTD_decompressStream(d, &out, &in); dbegan[o] = 0;
                        printf("%s\n", (r == 0 && out.pos == sizeof(srcA) && !memcmp(outb, srcA, sizeof(srcA))) ? "ok" : "err"); } } }
            else if (!strcmp(op, "dfx")) {   /* effect: decode prepared frame b by streaming, then reset the session */
                if (c16_d_stage(d)) printf("skip\n");
                else { ZSTD_inBuffer in = { G[b % 5], Gsize[b % 5], 0 }; ZSTD_outBuffer out = { outb, outCap, 0 }; size_t r = 1; int it = 0;
                    while (it++ < 64) { r = ZSTD_decompressStream(d, &out, &in); if (ZSTD_isError(r) || r == 0) break; if (in.pos == in.size) break; }
                    if (!ZSTD_isError(r) && r == 0 && out.pos == sizeof(srcB) && !memcmp(outb, srcB, sizeof(srcB))) printf("ok\n");
                    else printf("err %s\n", ZSTD_isError(r) ? ZSTD_getErrorName(r) : "incomplete");
                    ZSTD_DCtx_reset(d, ZSTD_reset_session_only); dbegan[o] = 0; } }
            else if (!strcmp(op, "dbadcall")) { ZSTD_inBuffer in = { garbage, 4, 5 }; ZSTD_outBuffer out = { outb, outCap, 0 };
                size_t const r = ZSTD_decompressStream(d, &out, &in); printf("%s\n", ZSTD_isError(r) ? "err" : "ok"); }
            else if (!strcmp(op, "drefddict")) printf("%s\n", cls(ZSTD_DCtx_refDDict(d, b ? ddict : NULL)));
            else if (!strcmp(op, "dvec")) { int k; printf("ok");
                for (k = 0; k < ndids; k++) { int v = 0; size_t const r = ZSTD_DCtx_getParameter(d, (ZSTD_dParameter)dids[k], &v); if (ZSTD_isError(r)) printf(" E"); else printf(" %d", v); }
                printf(" %llu %d %d\n", c16_d_maxwin(d), c16_d_stage(d), c16_d_hasdict(d)); }
            else die("unknown d op");
        }
        else die("unknown op");
    }
    return 0;
}
