/* C01 unit-level tie of the frame-header writer: calls the static ZSTD_writeFrameHeader of the CURRENT
 * lib/compress/zstd_compress.c.  input line: <id> <windowLog> <contentSizeFlag> <checksumFlag> <noDictIDFlag>
 * <magicless> <pledgedSrcSize> <dictID>   output: <id> OK <hex>  |  <id> ERR <name> */
#include "compress/zstd_compress.c"
#include <stdio.h>
#include <stdlib.h>
#include <string.h>

int main(void) {
    static char line[512];
    while (fgets(line, sizeof(line), stdin)) {
        char id[64]; unsigned wl, cs, ck, nd, ml; unsigned long long pl, di;
        if (line[0] == 'S' && line[1] == ' ') {   /* S <id> <variant> <payload length> : ZSTD_writeSkippableFrame of bytes i*7+3 */
            unsigned variant; unsigned long n; static BYTE src[4096], dst2[4200]; size_t r, i;
            if (sscanf(line + 2, "%63s %u %lu", id, &variant, &n) != 3 || n > sizeof(src)) continue;
            for (i = 0; i < n; i++) src[i] = (BYTE)(i * 7 + 3);
            r = ZSTD_writeSkippableFrame(dst2, sizeof(dst2), src, n, variant);
            if (ZSTD_isError(r)) { printf("%s ERR %s\n", id, ZSTD_getErrorName(r)); continue; }
            printf("%s OK ", id); for (i = 0; i < r; i++) printf("%02x", dst2[i]); printf("\n");
            continue;
        }
        if (sscanf(line, "%63s %u %u %u %u %u %llu %llu", id, &wl, &cs, &ck, &nd, &ml, &pl, &di) != 8) continue;
        {   ZSTD_CCtx_params params; BYTE dst[ZSTD_FRAMEHEADERSIZE_MAX + 8]; size_t r, i;
            memset(&params, 0, sizeof(params));
            params.cParams.windowLog = wl;
            params.fParams.contentSizeFlag = (int)cs; params.fParams.checksumFlag = (int)ck; params.fParams.noDictIDFlag = (int)nd;
            params.format = ml ? ZSTD_f_zstd1_magicless : ZSTD_f_zstd1;
            r = ZSTD_writeFrameHeader(dst, sizeof(dst), &params, (U64)pl, (U32)di);
            if (ZSTD_isError(r)) { printf("%s ERR %s\n", id, ZSTD_getErrorName(r)); continue; }
            printf("%s OK ", id);
            for (i = 0; i < r; i++) printf("%02x", dst[i]);
            printf("\n");
        }
    }
    return 0;
}
