/* c03_ddict: the multi-DDict hash set of lib/decompress/zstd_decompress.c driven through the public API
 * (ZSTD_d_refMultipleDDicts + ZSTD_DCtx_refDDict), its private table read back through the included source.
 * Output format is the one of ml/c03_driver.ml (command H) so that the two can be compared line by line.
 *
 *   H <id> <ops>     ops = comma separated  a<dictID>:<handle> (reference a DDict with that dictID; handle names it)
 *                                         | g<dictID>          (ZSTD_DDictHashSet_getDDict)
 *      -> H <id> OK size=<n> count=<n> tab=<idx>:<dictID>:<handle>;... gets=<dictID>:<handle>|-;... sel=<handle>|-;...
 *         sel = which DDict a frame carrying that dictID selects (ZSTD_decompressDCtx on a minimal frame), "-" = none/unchanged
 * DDicts with a non-zero dictID are made from a valid dictionary (ZDICT_finalizeDictionary) whose dictID field is
 * patched; dictID 0 is a raw-content dictionary.
 */
#include "decompress/zstd_decompress.c"
#define ZDICT_STATIC_LINKING_ONLY
#include "zdict.h"
#include <stdio.h>
#include <stdlib.h>
#include <string.h>

static const char SAMPLE[] = "The quick brown fox jumps over the lazy dog. Pack my box with five dozen liquor jugs. "
                             "How vexingly quick daft zebras jump! Sphinx of black quartz, judge my vow. 0123456789 ";
static unsigned char g_base[4096]; static size_t g_baseSize;

static void make_base(void) {
    enum { NS = 40 }; size_t sizes[NS]; size_t const sn = sizeof(SAMPLE) - 1; char* samples = (char*)malloc(NS * sn); int i;
    ZDICT_params_t p; unsigned char content[300];
    for (i = 0; i < NS; i++) { memcpy(samples + i * sn, SAMPLE, sn); samples[i * sn + (i % sn)] = (char)('A' + i % 26); sizes[i] = sn; }
    memset(&p, 0, sizeof(p)); p.dictID = 12345; p.compressionLevel = 3;
    for (i = 0; i < (int)sizeof(content); i++) content[i] = (unsigned char)SAMPLE[i % sn];
    g_baseSize = ZDICT_finalizeDictionary(g_base, sizeof(g_base), content, sizeof(content), samples, sizes, NS, p);
    if (ZDICT_isError(g_baseSize)) { fprintf(stderr, "finalizeDictionary failed: %s\n", ZDICT_getErrorName(g_baseSize)); exit(3); }
    free(samples);
}

#define MAXD 4096
static ZSTD_DDict* g_dd[MAXD]; static unsigned g_handle[MAXD]; static int g_nd;

static int handle_of(const ZSTD_DDict* p) { int i; for (i = 0; i < g_nd; i++) if (g_dd[i] == p) return (int)g_handle[i]; return -1; }

static void cmd_H(char* id, char* ops) {
    ZSTD_DCtx* dc = ZSTD_createDCtx(); char gets[65536]; size_t gl = 0; char sel[65536]; size_t sl = 0; char* sv = NULL; char* op; size_t r;
    g_nd = 0; gets[0] = 0; sel[0] = 0;
    r = ZSTD_DCtx_setParameter(dc, ZSTD_d_refMultipleDDicts, ZSTD_rmd_refMultipleDDicts);
    if (ZSTD_isError(r)) { printf("H %s ERR %s\n", id, ZSTD_getErrorName(r)); ZSTD_freeDCtx(dc); return; }
    for (op = strtok_r(ops, ",", &sv); op; op = strtok_r(NULL, ",", &sv)) {
        if (op[0] == 'a') {
            unsigned did = 0, h = 0; ZSTD_DDict* dd;
            sscanf(op + 1, "%u:%u", &did, &h);
            if (did == 0) dd = ZSTD_createDDict(SAMPLE, 64 + (h % 32));
            else { unsigned char* d = (unsigned char*)malloc(g_baseSize); memcpy(d, g_base, g_baseSize); MEM_writeLE32(d + 4, did);
                   dd = ZSTD_createDDict(d, g_baseSize); free(d); }
            if (!dd || ZSTD_getDictID_fromDDict(dd) != did || g_nd >= MAXD) { printf("H %s ERR cannot create DDict %u\n", id, did); goto done; }
            g_dd[g_nd] = dd; g_handle[g_nd] = h; g_nd++;
            r = ZSTD_DCtx_refDDict(dc, dd);
            if (ZSTD_isError(r)) { printf("H %s %s\n", id, ZSTD_getErrorCode(r) == ZSTD_error_GENERIC ? "FULL" : ZSTD_getErrorName(r)); goto done; }
        } else if (op[0] == 'g') {
            unsigned did = (unsigned)strtoul(op + 1, NULL, 10);
            if (!dc->ddictSet) { gl += (size_t)sprintf(gets + gl, "-;"); sl += (size_t)sprintf(sel + sl, "-;"); continue; }
            {   const ZSTD_DDict* p = ZSTD_DDictHashSet_getDDict(dc->ddictSet, did);
                if (p) gl += (size_t)sprintf(gets + gl, "%u:%d;", ZSTD_getDictID_fromDDict(p), handle_of(p));
                else gl += (size_t)sprintf(gets + gl, "-;"); }
            /* selection through the decoder: a minimal single-segment frame (content size 0) carrying this dictID */
            {   unsigned char fr[16]; unsigned char out[8]; const ZSTD_DDict* before = dc->ddict; size_t fl = 0;
                MEM_writeLE32(fr, ZSTD_MAGICNUMBER); fl = 4;
                if (did) { fr[fl++] = 0x23; MEM_writeLE32(fr + fl, did); fl += 4; } else fr[fl++] = 0x20;
                fr[fl++] = 0; fr[fl++] = 1; fr[fl++] = 0; fr[fl++] = 0;
                (void)ZSTD_decompressDCtx(dc, out, sizeof(out), fr, fl);
                if (dc->ddict != before || (did && dc->ddict && ZSTD_getDictID_fromDDict(dc->ddict) == did))
                    sl += (size_t)sprintf(sel + sl, "%d;", handle_of(dc->ddict));
                else sl += (size_t)sprintf(sel + sl, "-;");
            }
            if (gl > sizeof(gets) - 64 || sl > sizeof(sel) - 64) break;
        }
    }
    if (!dc->ddictSet) { printf("H %s OK size=%u count=0 tab=- gets=%s sel=%s\n", id, (unsigned)DDICT_HASHSET_TABLE_BASE_SIZE, gl ? gets : "-", sl ? sel : "-"); goto done; }
    {   const ZSTD_DDictHashSet* hs = dc->ddictSet; size_t i; int any = 0;
        printf("H %s OK size=%lu count=%lu tab=", id, (unsigned long)hs->ddictPtrTableSize, (unsigned long)hs->ddictPtrCount);
        for (i = 0; i < hs->ddictPtrTableSize; i++) if (hs->ddictPtrTable[i]) {
            printf("%lu:%u:%d;", (unsigned long)i, ZSTD_getDictID_fromDDict(hs->ddictPtrTable[i]), handle_of(hs->ddictPtrTable[i])); any = 1; }
        if (!any) putchar('-');
        printf(" gets=%s sel=%s\n", gl ? gets : "-", sl ? sel : "-");
    }
done:
    ZSTD_freeDCtx(dc);
    { int i; for (i = 0; i < g_nd; i++) ZSTD_freeDDict(g_dd[i]); g_nd = 0; }
}

int main(void) {
    char* line = NULL; size_t lcap = 0; ssize_t len;
    make_base();
    while ((len = getline(&line, &lcap, stdin)) > 0) {
        char* sv = NULL; char* c = strtok_r(line, " \n", &sv); char* id = strtok_r(NULL, " \n", &sv); char* ops = strtok_r(NULL, " \n", &sv);
        if (!c) continue;
        if (c[0] == 'H' && id && ops) cmd_H(id, ops);
        else printf("? BADCMD\n");
        fflush(stdout);
    }
    free(line);
    return 0;
}
