#!/usr/bin/env python3
"""Confirm a seeded change delivered by an independent sub-agent and run checks against it.

usage: tools/seed_eval.py <delivery dir containing patch.diff, demo/, meta.json> <seed id, e.g. C05-1> [--checks C05,C01] [--no-make-check] [--thorough]

Everything happens in scratch copies of /repo's HEAD under /tmp (removed afterwards); /repo itself is not touched.
Confirms: patch applies and builds, demo fails with the change and passes without, `make check` passes with the change.
Then runs ./check <id> --tier quick (and thorough when quick stays silent and --thorough is given) with ZV_REPO=<patched copy>.
Result: /verif/seeded/<seed id>/{patch.diff, demo/, meta.json}."""
import json
import os
import shutil
import subprocess
import sys
import tempfile
import time

VERIF = os.path.dirname(os.path.dirname(os.path.abspath(__file__)))


def sh(cmd, cwd=None, timeout=None, env=None):
    try:
        p = subprocess.run(cmd, cwd=cwd, shell=isinstance(cmd, str), stdout=subprocess.PIPE, stderr=subprocess.STDOUT, timeout=timeout, env=env)
        return p.returncode, p.stdout.decode("utf-8", "replace")
    except subprocess.TimeoutExpired as e:
        return 124, (e.stdout or b"").decode("utf-8", "replace")


def scratch(patch=None):
    d = tempfile.mkdtemp(prefix="zv-seed-", dir="/tmp")
    sh("git -C /repo archive HEAD | tar -x -C %s" % d)
    if patch:
        rc, out = sh(["git", "apply", "--unsafe-paths", "--directory", d, patch], cwd="/")
        if rc != 0:
            rc, out = sh("cd %s && patch -p1 < %s" % (d, patch))
            if rc != 0:
                shutil.rmtree(d, ignore_errors=True)
                raise RuntimeError("patch does not apply: " + out[-500:])
    return d


def main():
    a = sys.argv[1:]
    src, sid = a[0], a[1]
    checks = None
    make_check = "--no-make-check" not in a
    thorough = "--thorough" in a
    for i, x in enumerate(a):
        if x == "--checks":
            checks = a[i + 1].split(",")
    meta = json.load(open(os.path.join(src, "meta.json")))
    pid = meta.get("property", sid.split("-")[0])
    checks = checks or [pid]
    patch = os.path.abspath(os.path.join(src, "patch.diff"))
    res = dict(seed_id=sid, property=pid, title=meta.get("title"), mechanism=meta.get("mechanism"), needs=meta.get("needs"),
               files=meta.get("files"), why_tests_pass=meta.get("why_tests_pass"), source="independent sub-agent given only the property record and a scratch worktree",
               repo_head=sh("git -C /repo rev-parse --short HEAD")[1].strip(), confirmed={}, ran=[], checks={})
    clean = scratch()
    changed = scratch(patch)
    try:
        run = os.path.join(src, "demo", "run.sh")
        t0 = time.time()
        rc_c, out_c = sh(["sh", run, changed], cwd=os.path.join(src, "demo"), timeout=1800)
        rc_u, out_u = sh(["sh", run, clean], cwd=os.path.join(src, "demo"), timeout=1800)
        res["confirmed"]["demo_fails_with_change"] = rc_c != 0
        res["confirmed"]["demo_passes_without"] = rc_u == 0
        res["confirmed"]["demo_tail_with_change"] = out_c[-600:]
        res["ran"].append("demo/run.sh <changed copy> -> rc %d; demo/run.sh <clean copy> -> rc %d (%.0fs)" % (rc_c, rc_u, time.time() - t0))
        if make_check:
            t0 = time.time()
            mc = scratch(patch)
            rc, out = sh("make -j6 check", cwd=mc, timeout=2400)
            shutil.rmtree(mc, ignore_errors=True)
            res["confirmed"]["make_check_passes_with_change"] = rc == 0
            res["confirmed"]["make_check_tail"] = out[-400:]
            res["ran"].append("make -j6 check in a clean copy with the change -> rc %d (%.0fs)" % (rc, time.time() - t0))
        for c in checks:
            for tier in (["quick", "thorough"] if thorough else ["quick"]):
                env = dict(os.environ, ZV_REPO=changed)
                t0 = time.time()
                rc, out = sh([os.path.join(VERIF, "check"), c, "--tier", tier], cwd=VERIF, env=env, timeout=3600)
                vio = [l for l in out.splitlines() if l.startswith("VIOLATION")]
                what = []
                for l in vio[:3]:
                    try:
                        rp = l.split("replay=")[1].split()[0]
                        what.append(json.load(open(rp)).get("what", "")[:300])
                    except Exception:
                        pass
                res["checks"].setdefault(c, {})[tier] = dict(rc=rc, fired=bool(vio), n_violation_lines=len(vio),
                                                             concrete_input=any("no-failing-input-found" not in l for l in vio),
                                                             first=what, wall_s=round(time.time() - t0))
                res["ran"].append("ZV_REPO=<changed copy> ./check %s --tier %s -> rc %d, %d VIOLATION lines" % (c, tier, rc, len(vio)))
                if vio:
                    break
    finally:
        shutil.rmtree(clean, ignore_errors=True)
        shutil.rmtree(changed, ignore_errors=True)
    dst = os.path.join(VERIF, "seeded", sid)
    if os.path.exists(dst):
        shutil.rmtree(dst)
    os.makedirs(dst)
    shutil.copy(patch, os.path.join(dst, "patch.diff"))
    shutil.copytree(os.path.join(src, "demo"), os.path.join(dst, "demo"))
    json.dump(res, open(os.path.join(dst, "meta.json"), "w"), indent=1)
    ok = res["confirmed"].get("demo_fails_with_change") and res["confirmed"].get("demo_passes_without") and res["confirmed"].get("make_check_passes_with_change", True)
    print(sid, "confirmed" if ok else "NOT-CONFIRMED", {c: {t: v["fired"] for t, v in d.items()} for c, d in res["checks"].items()})


if __name__ == "__main__":
    main()
