#!/usr/bin/env python3
"""Regenerate docs/SEEDED.md from seeded/*/meta.json: which checks catch which independently seeded changes."""
import glob
import json
import os

VERIF = os.path.dirname(os.path.dirname(os.path.abspath(__file__)))
rows = []
for f in sorted(glob.glob(os.path.join(VERIF, "seeded", "*", "meta.json"))):
    m = json.load(open(f))
    conf = m.get("confirmed", {})
    ok = conf.get("demo_fails_with_change") and conf.get("demo_passes_without")
    mc = conf.get("make_check_passes_with_change")
    det = []
    for c, tiers in sorted(m.get("checks", {}).items()):
        for tier in ("quick", "thorough"):
            if tier in tiers:
                v = tiers[tier]
                if v["fired"]:
                    det.append("%s %s: fires (%s)" % (c, tier, "concrete input" if v.get("concrete_input") else "no-failing-input-found"))
                    break
                else:
                    det.append("%s %s: silent" % (c, tier))
    first = ""
    for c, tiers in m.get("checks", {}).items():
        for v in tiers.values():
            if v.get("first"):
                first = v["first"][0][:160].replace("|", "/").replace("\n", " ")
                break
        if first:
            break
    rows.append((m["seed_id"], (m.get("title") or "")[:110].replace("|", "/"), (m.get("needs") or "")[:170].replace("|", "/").replace("\n", " "),
                 "yes" if ok else "NO", {True: "passes", False: "FAILS", None: "not re-run"}[mc], "; ".join(det), first))
out = ["# Independently seeded property-breaking changes and what the checks did with them", "",
       "Each change was written by a fresh sub-agent that saw only the property record and a scratch worktree of facebook/zstd (nothing from /verif).",
       "`tools/seed_eval.py` confirmed each one in scratch copies (demo fails with the change and passes without; `make check` passes with the change)",
       "and ran the checks with `ZV_REPO=<changed copy>`. Files: `seeded/<id>/{patch.diff, demo/, meta.json}`.", "",
       "| id | change | needs, in order to manifest | demo confirmed | make check | checks | first report |", "|---|---|---|---|---|---|---|"]
for r in rows:
    out.append("| " + " | ".join(r) + " |")
open(os.path.join(VERIF, "docs", "SEEDED.md"), "w").write("\n".join(out) + "\n")
print("%d seeded changes" % len(rows))
