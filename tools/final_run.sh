#!/bin/sh
# usage: tools/final_run.sh [tier]   - every check once, sequentially, against /repo itself; summary in build/logs/final_run.log
TIER=${1:-quick}
cd /verif
: > build/logs/final_run.log
for i in 01 02 03 04 05 06 07 08 09 10 11 12 13 14 15 16 17 18 19 20; do
  c=C$i; S=$(date +%s)
  ./check $c --tier $TIER > build/logs/final_$c.log 2>&1; RC=$?
  echo "$c rc=$RC $(( $(date +%s)-S ))s viol=$(grep -c '^VIOLATION' build/logs/final_$c.log) known=$(grep -c '^KNOWN-FINDING' build/logs/final_$c.log)" >> build/logs/final_run.log
done
python3-vt - <<'P' >> build/logs/final_run.log 2>&1
import json, jsonschema, glob
s = json.load(open('/root/.vp/EVIDENCE.schema.json'))
bad = 0
for f in sorted(glob.glob('/verif/evidence/C??.json')):
    try:
        jsonschema.validate(json.load(open(f)), s)
    except Exception as e:
        bad += 1; print('EVIDENCE INVALID', f, str(e)[:200])
m = json.load(open('/verif/MANIFEST.json')); jsonschema.validate(m, json.load(open('/root/.vp/MANIFEST.schema.json')))
print('evidence files invalid:', bad, '; manifest ok, checks:', len(m['checks']), 'not_applicable:', len(m['not_applicable']))
P
cat build/logs/final_run.log
