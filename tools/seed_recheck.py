#!/usr/bin/env python3
"""Re-run, on the CURRENT /repo HEAD and the CURRENT checks, the check that caught each seeded change when it was first evaluated.

usage: tools/seed_recheck.py <deadline HH:MM UTC> [ids...]      (default ids: the first change of each round of each property)
Writes docs/SEEDED_RECHECK.md.  Nothing under seeded/ is modified; scratch copies live under /tmp and are removed."""
import json, os, subprocess, sys, tempfile, shutil, time, glob

VERIF = os.path.dirname(os.path.dirname(os.path.abspath(__file__)))


def sh(cmd, cwd=None, env=None, timeout=None):
    try:
        p = subprocess.run(cmd, cwd=cwd, env=env, shell=isinstance(cmd, str), stdout=subprocess.PIPE, stderr=subprocess.STDOUT, timeout=timeout)
        return p.returncode, p.stdout.decode("utf-8", "replace")
    except subprocess.TimeoutExpired as e:
        return 124, (e.stdout or b"").decode("utf-8", "replace")


def main():
    deadline = sys.argv[1]
    ids = sys.argv[2:]
    if not ids:
        for p in range(1, 21):
            for r in ("1", "r2-1"):
                ids.append("C%02d-%s" % (p, r))
    head = sh("git -C /repo rev-parse --short HEAD")[1].strip()
    rows = []
    for sid in ids:
        if time.strftime("%H:%M", time.gmtime()) >= deadline:
            break
        d = os.path.join(VERIF, "seeded", sid)
        meta = json.load(open(os.path.join(d, "meta.json")))
        fired = [(c, t) for c, dd in meta.get("checks", {}).items() for t, v in dd.items() if v.get("fired")]
        quick = [c for c, t in fired if t == "quick"]
        if not quick:
            rows.append((sid, meta.get("title", "")[:70], "-", "not re-run (first caught by a thorough tier: %s)" % fired))
            continue
        chk = quick[0]
        tmp = tempfile.mkdtemp(prefix="zv-recheck-", dir="/tmp")
        try:
            sh("git -C /repo archive HEAD | tar -x -C %s" % tmp)
            rc, out = sh(["git", "apply", "--unsafe-paths", "--directory", tmp, os.path.join(d, "patch.diff")], cwd="/")
            if rc != 0:
                rows.append((sid, meta.get("title", "")[:70], chk, "patch no longer applies (a repair rewrote these lines)"))
                continue
            t0 = time.time()
            rc, out = sh([os.path.join(VERIF, "check"), chk, "--tier", "quick"], cwd=VERIF, env=dict(os.environ, ZV_REPO=tmp), timeout=2400)
            vio = [l for l in out.splitlines() if l.startswith("VIOLATION")]
            rows.append((sid, meta.get("title", "")[:70], chk, "%s (rc %d, %d VIOLATION lines, %s, %.0f s)" % (
                "FIRES" if vio else "SILENT", rc, len(vio),
                "concrete input" if any("no-failing-input-found" not in l for l in vio) else "no-failing-input-found" if vio else "-", time.time() - t0)))
        finally:
            shutil.rmtree(tmp, ignore_errors=True)
        with open(os.path.join(VERIF, "docs", "SEEDED_RECHECK.md"), "w") as f:
            f.write("# Seeded changes re-run against the final checks\n\n`tools/seed_recheck.py`: for a sample of the 120 seeded changes (`seeded/<id>/`), the patch is applied to a scratch copy of\n/repo HEAD %s and the check that first caught it is run again in its quick tier (`ZV_REPO=<copy> ./check Cxx --tier quick`).\nThis is a regression test of the checks' detection power after the last two waves rewrote large parts of them.\n\n| seeded change | title | check | result |\n|---|---|---|---|\n" % head)
            for r in rows:
                f.write("| %s | %s | %s | %s |\n" % r)
        print(rows[-1], flush=True)


if __name__ == "__main__":
    main()
