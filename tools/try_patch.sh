#!/bin/sh
# usage: tools/try_patch.sh <patch.diff> <tier> Cxx [Cyy ...]   - apply the patch to a scratch copy of /repo, run the checks against it
P="$1"; TIER="$2"; shift 2
D=$(mktemp -d /tmp/zv-lead-XXXXXX)
git -C /repo archive HEAD | tar -x -C "$D"
( cd "$D" && git init -q . 2>/dev/null && git apply "$P" ) || { echo "patch does not apply"; rm -rf "$D"; exit 2; }
for c in "$@"; do
  S=$(date +%s)
  OUT=$(ZV_REPO="$D" /verif/check "$c" --tier "$TIER" 2>/dev/null); RC=$?
  E=$(date +%s)
  echo "== $c rc=$RC $((E-S))s"; echo "$OUT" | grep -E "VIOLATION|KNOWN-FINDING" | cut -c1-400 | head -8
done
rm -rf "$D"
