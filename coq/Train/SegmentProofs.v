(* C18 - proofs about Train/SegmentModel.v (selectSegment of COVER / FASTCOVER) *)
From Coq Require Import NArith ZArith List Bool Lia.
From ZV.Gen Require Import Gen_Train.
From ZV.Train Require Import CoverParams CoverProofs SegmentModel.
Import ListNotations.
Local Open Scope N_scope.
Ltac Zify.zify_post_hook ::= Z.to_euclidean_division_equations.
Set Default Proof Using "All".

Lemma upd_same f i v : upd f i v i = v.
Proof. unfold upd. now rewrite N.eqb_refl. Qed.
Lemma upd_other f i v j : j <> i -> upd f i v j = f j.
Proof. unfold upd. intros H. destruct (N.eqb_spec j i); congruence. Qed.
Lemma w32_le v : w32 v <= v.
Proof. unfold w32, U32MOD. apply N.mod_le. discriminate. Qed.
Lemma w32_lt v : w32 v < U32MOD.
Proof. unfold w32, U32MOD. apply N.mod_lt. discriminate. Qed.
Lemma w32_small v : v < U32MOD -> w32 v = v.
Proof. unfold w32. apply N.mod_small. Qed.

(* ------------------------------------------------------------------ occurrences and the distinct-key sum of a window *)
Section Occ.
  Variable key : N -> N.

  (* number of positions p in [b, b+n) with key p = i *)
  Fixpoint occ (b : N) (n : nat) (i : N) : N :=
    match n with O => 0 | S n' => (if key b =? i then 1 else 0) + occ (b + 1) n' i end.

  Lemma occ_snoc n : forall b i, occ b (S n) i = occ b n i + (if key (b + N.of_nat n) =? i then 1 else 0).
  Proof.
    induction n as [|n IH]; intros b i.
    - cbn [occ]. replace (b + N.of_nat 0) with b by lia. destruct (key b =? i); lia.
    - change (occ b (S (S n)) i) with ((if key b =? i then 1 else 0) + occ (b + 1) (S n) i).
      rewrite IH. cbn [occ]. replace (b + 1 + N.of_nat n) with (b + N.of_nat (S n)) by lia. lia.
  Qed.

  Lemma occ_le n : forall b i, occ b n i <= N.of_nat n.
  Proof. induction n as [|n IH]; intros b i; cbn [occ]; [lia|]. specialize (IH (b + 1) i). destruct (key b =? i); lia. Qed.
End Occ.

Section Window.
  Variables (key : N -> N) (fr : N -> N).
  Local Notation occ := (occ key).

  (* sum of fr over the distinct keys of the window (each key counted at its last occurrence) *)
  Fixpoint dsum (b : N) (n : nat) : N :=
    match n with O => 0 | S n' => (if occ (b + 1) n' (key b) =? 0 then fr (key b) else 0) + dsum (b + 1) n' end.

  Lemma dsum_snoc n : forall b,
      dsum b (S n) = dsum b n + (if occ b n (key (b + N.of_nat n)) =? 0 then fr (key (b + N.of_nat n)) else 0).
  Proof.
    induction n as [|n IH]; intros b.
    - cbn [dsum occ]. replace (b + N.of_nat 0) with b by lia. cbn. lia.
    - change (dsum b (S (S n))) with ((if occ (b + 1) (S n) (key b) =? 0 then fr (key b) else 0) + dsum (b + 1) (S n)).
      rewrite IH, occ_snoc. cbn [dsum occ].
      replace (b + 1 + N.of_nat n) with (b + N.of_nat (S n)) by lia.
      set (x := key (b + N.of_nat (S n))).
      destruct (N.eqb_spec x (key b)) as [E|E].
      + rewrite E. rewrite N.eqb_refl.
        destruct (N.eqb_spec (occ (b + 1) n (key b) + 1) 0); [lia|].
        destruct (N.eqb_spec (1 + occ (b + 1) n (key b)) 0); [lia|]. lia.
      + destruct (N.eqb_spec (key b) x); [congruence|]. rewrite !N.add_0_r, N.add_0_l. lia.
  Qed.

  Lemma dsum_nonzero_ex n : forall b, dsum b n <> 0 -> exists j, (j < n)%nat /\ fr (key (b + N.of_nat j)) <> 0.
  Proof.
    induction n as [|n IH]; intros b H; cbn [dsum] in H; [congruence|].
    destruct (N.eq_dec (dsum (b + 1) n) 0) as [Z|NZ].
    - exists O. split; [lia|]. rewrite N.add_0_r. destruct (occ (b + 1) n (key b) =? 0); lia.
    - destruct (IH _ NZ) as (j & Hj & Hf). exists (S j). split; [lia|].
      replace (b + N.of_nat (S j)) with (b + 1 + N.of_nat j) by lia. exact Hf.
  Qed.
End Window.

(* ------------------------------------------------------------------ the sliding loop *)
Section Slide.
  Variables (cm : N) (key : N -> N) (dk1 : N) (fr : N -> N).
  Hypothesis cm_pos : 1 < cm.

  Definition wlen (a : seg) : nat := N.to_nat (se a - sb a).

  (* shape invariant: needs nothing about the counters *)
  Record shape (b : N) (n : nat) (st : wst) : Prop := {
    sh_be : sb (w_act st) <= se (w_act st);
    sh_b  : b <= sb (w_act st);
    sh_e  : se (w_act st) = b + N.of_nat n;
    sh_w  : 0 < dk1 -> se (w_act st) - sb (w_act st) < dk1;
    sh_best : w_best st = mkseg 0 0 0 \/
              (ss (w_best st) <> 0 /\ b <= sb (w_best st) /\ sb (w_best st) <= se (w_best st) /\
               se (w_best st) <= b + N.of_nat n /\ (0 < dk1 -> se (w_best st) - sb (w_best st) < dk1))
  }.

  Definition st0 (b : N) (c0 : N -> N) : wst := mkwst (mkseg b b 0) c0 (mkseg 0 0 0).

  Lemma shape_init b c0 : shape b 0 (st0 b c0).
  Proof. constructor; cbn; try lia. now left. Qed.

  Lemma shape_step b n st : shape b n st -> shape b (S n) (slide_step cm key dk1 fr st).
  Proof.
    intros [Hbe Hb He Hw Hbest]. unfold slide_step.
    set (a := w_act st) in *. set (c := w_cnt st).
    set (idx := key (se a)).
    set (score1 := if c idx =? 0 then w32 (ss a + fr idx) else ss a).
    set (c1 := upd c idx (inc cm (c idx))).
    destruct (N.eqb_spec (se a + 1 - sb a) dk1) as [E|E].
    - set (a2 := mkseg (sb a + 1) (se a + 1) _).
      assert (A2 : sb a2 <= se a2 /\ b <= sb a2 /\ se a2 = b + N.of_nat (S n) /\ (0 < dk1 -> se a2 - sb a2 < dk1)).
      { subst a2; cbn. repeat split; lia. }
      destruct A2 as (A21 & A22 & A23 & A24).
      constructor; cbn [w_act w_best]; try assumption.
      destruct (N.ltb_spec (ss (w_best st)) (ss a2)) as [L|L].
      + right. repeat split; try lia; try assumption.
      + destruct Hbest as [Z|(S1 & S2 & S3 & S4 & S5)]; [now left|right]. repeat split; try assumption; lia.
    - set (a2 := mkseg (sb a) (se a + 1) score1).
      assert (A2 : sb a2 <= se a2 /\ b <= sb a2 /\ se a2 = b + N.of_nat (S n) /\ (0 < dk1 -> se a2 - sb a2 < dk1)).
      { subst a2; cbn. repeat split; try lia; intros P; specialize (Hw P); lia. }
      destruct A2 as (A21 & A22 & A23 & A24).
      constructor; cbn [w_act w_best]; try assumption.
      destruct (N.ltb_spec (ss (w_best st)) (ss a2)) as [L|L].
      + right. repeat split; try lia; try assumption.
      + destruct Hbest as [Z|(S1 & S2 & S3 & S4 & S5)]; [now left|right]. repeat split; try assumption; lia.
  Qed.

  Lemma shape_slide n : forall b m st, shape b m st -> shape b (m + n) (slide cm key dk1 n fr st).
  Proof.
    induction n as [|n IH]; intros b m st H; cbn [slide].
    - now rewrite Nat.add_0_r.
    - replace (m + S n)%nat with (S m + n)%nat by lia. apply IH. now apply shape_step.
  Qed.

  (* counters: the table holds the occurrences of each key in the active window, modulo cm *)
  Definition cnt_inv (st : wst) : Prop :=
    forall i, w_cnt st i = occ key (sb (w_act st)) (wlen (w_act st)) i mod cm.

  Lemma inc_mod x : inc cm (x mod cm) = (x + 1) mod cm.
  Proof. unfold inc. rewrite N.add_mod_idemp_l by lia. reflexivity. Qed.
  Lemma dec_mod x : 1 <= x -> dec cm (x mod cm) = (x - 1) mod cm.
  Proof.
    intros H. unfold dec. rewrite N.add_mod_idemp_l by lia.
    replace (x + (cm - 1)) with (x - 1 + 1 * cm) by lia. rewrite N.mod_add by lia. reflexivity.
  Qed.

  Lemma occ_head b n i : occ key b (S n) i = (if key b =? i then 1 else 0) + occ key (b + 1) n i.
  Proof. reflexivity. Qed.

  Lemma cnt_step b n st : shape b n st -> cnt_inv st -> cnt_inv (slide_step cm key dk1 fr st).
  Proof.
    intros [Hbe Hb He Hw Hbest] Hc. unfold cnt_inv, slide_step in *.
    set (a := w_act st) in *. set (c := w_cnt st) in *.
    set (idx := key (se a)).
    set (c1 := upd c idx (inc cm (c idx))).
    assert (L : se a = sb a + N.of_nat (wlen a)) by (unfold wlen; lia).
    assert (C1 : forall i, c1 i = occ key (sb a) (S (wlen a)) i mod cm).
    { intros i. rewrite occ_snoc, <- L. fold idx. subst c1. unfold upd.
      destruct (N.eqb_spec i idx) as [->|NE].
      - rewrite N.eqb_refl, Hc, inc_mod. reflexivity.
      - destruct (N.eqb_spec idx i); [congruence|]. rewrite N.add_0_r. apply Hc. }
    intros i. destruct (N.eqb_spec (se a + 1 - sb a) dk1) as [E|E]; cbn [w_act w_cnt sb se].
    - assert (W : wlen (mkseg (sb a + 1) (se a + 1) 0) = wlen a) by (unfold wlen; cbn; lia).
      unfold wlen in *. cbn [sb se] in *. replace (N.to_nat (se a + 1 - (sb a + 1))) with (N.to_nat (se a - sb a)) by lia.
      unfold upd. destruct (N.eqb_spec i (key (sb a))) as [->|NE].
      + rewrite C1, occ_head, N.eqb_refl. rewrite dec_mod by lia. f_equal. lia.
      + rewrite C1, occ_head. destruct (N.eqb_spec (key (sb a)) i); [congruence|]. now rewrite N.add_0_l.
    - unfold wlen in *. cbn [sb se] in *. replace (N.to_nat (se a + 1 - sb a)) with (S (N.to_nat (se a - sb a))) by lia.
      apply C1.
  Qed.

  Lemma cnt_slide n : forall b m st, shape b m st -> cnt_inv st -> cnt_inv (slide cm key dk1 n fr st).
  Proof.
    induction n as [|n IH]; intros b m st H Hc; cbn [slide]; [exact Hc|].
    apply (IH b (S m)); [now apply shape_step | now apply (cnt_step b m)].
  Qed.

  (* draining the counters of the window [b', b'+n) *)
  Lemma drain_spec n : forall b' c,
      (forall i, c i = occ key b' n i mod cm) -> forall i, drain cm key n b' c i = 0.
  Proof.
    induction n as [|n IH]; intros b' c Hc i; cbn [drain].
    - rewrite Hc. cbn [occ]. apply N.mod_0_l; lia.
    - apply IH. intros j. unfold upd. destruct (N.eqb_spec j (key b')) as [->|NE].
      + rewrite Hc, occ_head, N.eqb_refl, dec_mod by lia. f_equal. lia.
      + rewrite Hc, occ_head. destruct (N.eqb_spec (key b') j); [congruence|]. now rewrite N.add_0_l.
  Qed.

  (* exact score: as long as no counter can wrap *)
  Definition score_inv (st : wst) : Prop :=
    ss (w_act st) = w32 (dsum key fr (sb (w_act st)) (wlen (w_act st))) /\
    (w_best st = mkseg 0 0 0 \/
     (ss (w_best st) <> 0 /\ ss (w_best st) = w32 (dsum key fr (sb (w_best st)) (wlen (w_best st))))).

  Lemma sub32_spec x y : sub32 (w32 (y + x)) y = w32 x.
  Proof. unfold sub32, w32, U32MOD. lia. Qed.
  Lemma add32_spec x y : w32 (w32 x + y) = w32 (x + y).
  Proof. unfold w32, U32MOD. lia. Qed.

  Lemma score_step b n st :
    N.of_nat (S n) < cm -> shape b n st -> cnt_inv st -> score_inv st -> score_inv (slide_step cm key dk1 fr st).
  Proof.
    intros Hcm [Hbe Hb He Hw Hbest] Hc [Hs Hsb]. unfold slide_step, score_inv, cnt_inv in *.
    set (a := w_act st) in *. set (c := w_cnt st) in *.
    set (idx := key (se a)).
    set (score1 := if c idx =? 0 then w32 (ss a + fr idx) else ss a).
    set (c1 := upd c idx (inc cm (c idx))).
    assert (L : se a = sb a + N.of_nat (wlen a)) by (unfold wlen; lia).
    assert (WL : (wlen a <= n)%nat) by (unfold wlen; lia).
    assert (small : forall b' m i, (m <= S n)%nat -> occ key b' m i mod cm = occ key b' m i).
    { intros b' m i Hm. apply N.mod_small. pose proof (occ_le key m b' i). lia. }
    assert (S1 : score1 = w32 (dsum key fr (sb a) (S (wlen a)))).
    { subst score1. rewrite dsum_snoc, <- L. fold idx. rewrite (Hc idx).
      rewrite small by lia. destruct (occ key (sb a) (wlen a) idx =? 0).
      - rewrite Hs. apply add32_spec.
      - rewrite N.add_0_r. exact Hs. }
    assert (C1 : forall i, c1 i = occ key (sb a) (S (wlen a)) i).
    { intros i. rewrite occ_snoc, <- L. fold idx. subst c1. unfold upd.
      destruct (N.eqb_spec i idx) as [->|NE].
      - rewrite N.eqb_refl, (Hc idx). rewrite inc_mod. apply N.mod_small.
        pose proof (occ_le key (wlen a) (sb a) idx). lia.
      - destruct (N.eqb_spec idx i); [congruence|]. rewrite N.add_0_r, (Hc i). apply small. lia. }
    assert (CD : dec cm (c1 (key (sb a))) = occ key (sb a + 1) (wlen a) (key (sb a))).
    { rewrite C1. rewrite <- (small (sb a) (S (wlen a)) (key (sb a))) by lia.
      rewrite dec_mod by (rewrite occ_head, N.eqb_refl; lia).
      rewrite occ_head, N.eqb_refl.
      replace (1 + occ key (sb a + 1) (wlen a) (key (sb a)) - 1) with (occ key (sb a + 1) (wlen a) (key (sb a))) by lia.
      apply small. lia. }
    destruct (N.eqb_spec (se a + 1 - sb a) dk1) as [E|E]; cbn [w_act w_best].
    - assert (A2 : (if dec cm (c1 (key (sb a))) =? 0 then sub32 score1 (fr (key (sb a))) else score1)
                   = w32 (dsum key fr (sb a + 1) (wlen a))).
      { rewrite CD, S1. cbn [dsum]. destruct (occ key (sb a + 1) (wlen a) (key (sb a)) =? 0).
        - apply sub32_spec.
        - now rewrite N.add_0_l. }
      assert (W : wlen (mkseg (sb a + 1) (se a + 1)
                   (if dec cm (c1 (key (sb a))) =? 0 then sub32 score1 (fr (key (sb a))) else score1)) = wlen a)
        by (unfold wlen; cbn [sb se]; lia).
      split.
      + cbn [sb se ss]. rewrite W. cbn [sb]. exact A2.
      + match goal with |- context [if ?x <? ?y then _ else _] => destruct (N.ltb_spec x y) as [Lt|Lt] end.
        * right. cbn [ss] in *. split; [lia|]. rewrite W. cbn [sb ss]. exact A2.
        * exact Hsb.
    - assert (W : wlen (mkseg (sb a) (se a + 1) score1) = S (wlen a)) by (unfold wlen; cbn [sb se]; lia).
      split.
      + cbn [sb se ss]. rewrite W. cbn [sb]. exact S1.
      + match goal with |- context [if ?x <? ?y then _ else _] => destruct (N.ltb_spec x y) as [Lt|Lt] end.
        * right. cbn [ss] in *. split; [lia|]. rewrite W. cbn [sb ss]. exact S1.
        * exact Hsb.
  Qed.

  Lemma score_slide n : forall b m st,
      N.of_nat (m + n) < cm -> shape b m st -> cnt_inv st -> score_inv st -> score_inv (slide cm key dk1 n fr st).
  Proof.
    induction n as [|n IH]; intros b m st Hcm H Hc Hs; cbn [slide]; [exact Hs|].
    apply (IH b (S m)).
    - replace (S m + n)%nat with (m + S n)%nat by lia. exact Hcm.
    - now apply shape_step.
    - now apply (cnt_step b m).
    - apply (score_step b m); try assumption. lia.
  Qed.

  Lemma inv_init b c0 : (forall i, c0 i = 0) -> cnt_inv (st0 b c0) /\ score_inv (st0 b c0).
  Proof.
    intros Hz. unfold cnt_inv, score_inv, st0, wlen. cbn [w_act w_cnt w_best sb se ss].
    rewrite N.sub_diag. cbn [N.to_nat occ dsum]. split.
    - intros i. rewrite Hz. symmetry. apply N.mod_0_l. lia.
    - split; [reflexivity | now left].
  Qed.
End Slide.

(* ------------------------------------------------------------------ trimming and zeroing *)
Section Tail.
  Variable key : N -> N.

  Lemma trim_scan_spec n : forall fr pos nb ne nb' ne',
      trim_scan key n fr pos nb ne = (nb', ne') ->
      ((forall j, (j < n)%nat -> fr (key (pos + N.of_nat j)) = 0) /\ nb' = nb /\ ne' = ne) \/
      (exists j1 j2, (j1 <= j2 < n)%nat /\ nb' = N.min nb (pos + N.of_nat j1) /\ ne' = pos + N.of_nat j2 + 1 /\
                     fr (key (pos + N.of_nat j1)) <> 0 /\ fr (key (pos + N.of_nat j2)) <> 0).
  Proof.
    induction n as [|n IH]; intros fr pos nb ne nb' ne' H; cbn [trim_scan] in H.
    - left. inversion H. repeat split; intros; lia.
    - destruct (N.eqb_spec (fr (key pos)) 0) as [Z|NZ].
      + destruct (IH _ _ _ _ _ _ H) as [(A & B & C)|(j1 & j2 & J & B & C & F1 & F2)].
        * left. repeat split; try assumption. intros [|j] Hj.
          -- now rewrite N.add_0_r.
          -- replace (pos + N.of_nat (S j)) with (pos + 1 + N.of_nat j) by lia. apply A. lia.
        * right. exists (S j1), (S j2).
          replace (pos + N.of_nat (S j1)) with (pos + 1 + N.of_nat j1) by lia.
          replace (pos + N.of_nat (S j2)) with (pos + 1 + N.of_nat j2) by lia.
          repeat split; try lia; assumption.
      + destruct (IH _ _ _ _ _ _ H) as [(A & B & C)|(j1 & j2 & J & B & C & F1 & F2)].
        * right. exists O, O. rewrite N.add_0_r. repeat split; try lia; assumption.
        * right. exists O, (S j2). rewrite N.add_0_r.
          replace (pos + N.of_nat (S j2)) with (pos + 1 + N.of_nat j2) by lia.
          repeat split; try lia; assumption.
  Qed.

  Lemma zero_range_zero n : forall pos fr i, fr i = 0 -> zero_range key n pos fr i = 0.
  Proof.
    induction n as [|n IH]; intros pos fr i H; cbn [zero_range]; [exact H|].
    apply IH. unfold upd. destruct (i =? key pos); [reflexivity|exact H].
  Qed.
  Lemma zero_range_in n : forall pos fr j, (j < n)%nat -> zero_range key n pos fr (key (pos + N.of_nat j)) = 0.
  Proof.
    induction n as [|n IH]; intros pos fr j Hj; [lia|]. cbn [zero_range].
    destruct j as [|j].
    - rewrite N.add_0_r. apply zero_range_zero. apply upd_same.
    - replace (pos + N.of_nat (S j)) with (pos + 1 + N.of_nat j) by lia. apply IH. lia.
  Qed.
  Lemma zero_range_out n : forall pos fr i,
      (forall j, (j < n)%nat -> key (pos + N.of_nat j) <> i) -> zero_range key n pos fr i = fr i.
  Proof.
    induction n as [|n IH]; intros pos fr i H; cbn [zero_range]; [reflexivity|].
    rewrite IH.
    - apply upd_other. intros E. apply (H O); [lia|]. now rewrite N.add_0_r.
    - intros j Hj. replace (pos + 1 + N.of_nat j) with (pos + N.of_nat (S j)) by lia. apply H. lia.
  Qed.
End Tail.

(* ------------------------------------------------------------------ selectSegment *)
Section SelectThms.
  Variables (cm : N) (key : N -> N) (dk1 : N).
  Hypothesis cm_pos : 1 < cm.

  Definition seg_inside (b e : N) (r : seg) : Prop :=
    r = mkseg 0 0 0 \/
    (ss r <> 0 /\ b <= sb r /\ sb r <= se r /\ se r <= e /\ (0 < dk1 -> se r - sb r < dk1)).

  Lemma slide_from_init fr c0 b e :
    b <= e -> shape dk1 b (N.to_nat (e - b)) (slide cm key dk1 (N.to_nat (e - b)) fr (st0 b c0)).
  Proof.
    intros H. change (N.to_nat (e - b)) with (0 + N.to_nat (e - b))%nat at 1.
    apply (shape_slide cm key dk1 fr cm_pos). apply (shape_init cm key dk1 fr cm_pos).
  Qed.

  (* FASTCOVER_selectSegment *)
  Theorem select_fast fr cnt0 b e :
    b <= e ->
    exists r c',
      select cm key dk1 false fr cnt0 b e = Some (r, zero_range key (N.to_nat (se r - sb r)) (sb r) fr, c') /\
      seg_inside b e r /\
      ((forall i, cnt0 i = 0) -> forall i, c' i = 0).
  Proof.
    intros Hbe. unfold select. cbv zeta.
    change (if false then zero_fn else cnt0) with cnt0.
    change (mkwst (mkseg b b 0) cnt0 (mkseg 0 0 0)) with (st0 b cnt0).
    pose proof (slide_from_init fr cnt0 b e Hbe) as Sh.
    set (st := slide cm key dk1 (N.to_nat (e - b)) fr (st0 b cnt0)) in *.
    destruct Sh as [S1 S2 S3 S4 S5].
    assert (Hb : se (w_best st) <? sb (w_best st) = false).
    { apply N.ltb_ge. destruct S5 as [Z|Z]; [rewrite Z; cbn; lia | lia]. }
    cbv iota. rewrite !Hb. eexists _, _. split; [reflexivity|]. split.
    - destruct S5 as [Z|(A & B & C & D & E)]; [now left|right]. repeat split; try assumption; lia.
    - intros Hz. apply (drain_spec cm key dk1 fr cm_pos).
      assert (Ci : cnt_inv cm key st).
      { apply (cnt_slide cm key dk1 fr cm_pos _ b 0%nat); [apply (shape_init cm key dk1 fr cm_pos)|].
        apply (inv_init cm key dk1 fr cm_pos b cnt0 Hz). }
      intros i. rewrite (Ci i). unfold wlen. f_equal. f_equal. lia.
  Qed.

  (* COVER_selectSegment: the epoch is shorter than the counter modulus (2^32), so the score is exact *)
  Theorem select_cover fr cnt0 b e :
    b <= e -> e - b < cm ->
    exists r c',
      select cm key dk1 true fr cnt0 b e = Some (r, zero_range key (N.to_nat (se r - sb r)) (sb r) fr, c') /\
      seg_inside b e r /\
      (ss r <> 0 -> sb r < se r /\ fr (key (sb r)) <> 0 /\ fr (key (se r - 1)) <> 0).
  Proof.
    intros Hbe Hcm. unfold select. cbv zeta.
    change (if true then zero_fn else cnt0) with zero_fn.
    change (mkwst (mkseg b b 0) zero_fn (mkseg 0 0 0)) with (st0 b zero_fn).
    pose proof (slide_from_init fr zero_fn b e Hbe) as Sh.
    destruct (inv_init cm key dk1 fr cm_pos b zero_fn (fun _ => eq_refl)) as [Ci0 Si0].
    pose proof (score_slide cm key dk1 fr cm_pos (N.to_nat (e - b)) b 0%nat (st0 b zero_fn)) as Sc.
    specialize (Sc ltac:(lia) (shape_init cm key dk1 fr cm_pos b zero_fn) Ci0 Si0).
    set (st := slide cm key dk1 (N.to_nat (e - b)) fr (st0 b zero_fn)) in *.
    destruct Sh as [S1 S2 S3 S4 S5]. destruct Sc as [_ Sb].
    set (best := w_best st) in *.
    assert (Hb : se best <? sb best = false).
    { apply N.ltb_ge. destruct S5 as [Z|Z]; [rewrite Z; cbn; lia | lia]. }
    rewrite Hb.
    destruct (trim_scan key (N.to_nat (se best - sb best)) fr (sb best) (se best) (sb best)) as [nb ne] eqn:T.
    apply trim_scan_spec in T.
    destruct S5 as [Z|(A & B & C & D & E)].
    - (* never improved: the zero segment *)
      rewrite Z in T. cbn in T.
      assert (nb = 0 /\ ne = 0) as [-> ->].
      { destruct T as [(_ & P & Q)|(j1 & j2 & J & _)]; [now split | lia]. }
      rewrite Z. cbn [ss sb se]. change (0 <? 0) with false. cbv iota.
      exists (mkseg 0 0 0), (w_cnt st). split; [reflexivity|]. split; [now left|]. cbn. congruence.
    - destruct Sb as [Z|(_ & Sv)]; [rewrite Z in A; cbn in A; congruence|].
      assert (NZ : dsum key fr (sb best) (wlen best) <> 0).
      { intros Q. rewrite Q in Sv. apply A. rewrite Sv. reflexivity. }
      destruct (dsum_nonzero_ex key fr _ _ NZ) as (j & Hj & Hf). unfold wlen in Hj.
      destruct T as [(AZ & _)|(j1 & j2 & J & P & Q & F1 & F2)]; [exfalso; apply Hf, AZ, Hj|].
      assert (Hnb : nb = sb best + N.of_nat j1) by lia.
      assert (Hlt : se (mkseg nb ne (ss best)) <? sb (mkseg nb ne (ss best)) = false) by (apply N.ltb_ge; cbn; lia).
      rewrite Hlt. exists (mkseg nb ne (ss best)), (w_cnt st). split; [reflexivity|]. split.
      + right. cbn [ss sb se]. repeat split; try lia.
      + cbn [ss sb se]. intros _. split; [lia|]. split.
        * rewrite Hnb. exact F1.
        * replace (ne - 1) with (sb best + N.of_nat j2) by lia. exact F2.
  Qed.
End SelectThms.

(* ------------------------------------------------------------------ buildDictionary *)
Section BuildThms.
  Variables (cm : N) (cover : bool) (key : N -> N) (d k epNum epSize maxZero : N) (capacity trainSize nbDmers : N).
  Hypothesis cm_pos : 1 < cm.
  Hypothesis Hcover : cover = true -> nbDmers < cm.
  Hypothesis Hd : 1 <= d.
  Hypothesis Hnum : 1 <= epNum.
  Hypothesis Hfit : epNum * epSize <= nbDmers.
  Hypothesis Hdm : nbDmers + N.max d 8 = trainSize + 1.
  Hypothesis Hdm32 : nbDmers < U32MOD.

  (* the copies tile [tail, capacity) downwards; each reads inside the training samples and is at least d long *)
  Fixpoint tiles (acc : list (N * N * N)) (tail : N) : Prop :=
    match acc with
    | [] => tail = capacity
    | (dst, src, len) :: t => dst = tail /\ d <= len /\ src + len <= trainSize /\ tiles t (tail + len)
    end.

  Lemma seg_size_le sb' se' : sb' <= se' -> se' < U32MOD ->
    w32 (se' + (U32MOD - w32 sb') + d + (U32MOD - 1)) <= se' - sb' + d - 1.
  Proof. intros A B. unfold w32, U32MOD in *. lia. Qed.

  Theorem build_safe fuel : forall epoch tail zero fr cnt acc,
      epoch < epNum -> tail <= capacity -> tiles acc tail ->
      match build cm cover key d k epNum epSize maxZero fuel epoch tail zero fr cnt acc with
      | BuildDone t' acc' => t' <= tail /\ tiles acc' t'
      | BuildTrap => False
      | BuildFuel => True
      end.
  Proof.
    induction fuel as [|fuel IH]; intros epoch tail zero fr cnt acc He Ht Hacc; cbn [build]; [exact I|].
    destruct (N.eqb_spec tail 0) as [T0|T0]; [split; [lia|exact Hacc]|].
    assert (E1 : epoch * epSize + epSize <= nbDmers) by nia.
    assert (Eb : w32 (epoch * epSize) = epoch * epSize) by (apply w32_small; lia).
    rewrite Eb.
    assert (Ee : w32 (epoch * epSize + epSize) = epoch * epSize + epSize) by (apply w32_small; lia).
    rewrite Ee.
    set (eb := epoch * epSize) in *. set (ee := eb + epSize) in *.
    set (dk1 := dk1_of k d).
    assert (Sel : exists r fr' c', select cm key dk1 cover fr cnt eb ee = Some (r, fr', c') /\
                                    seg_inside dk1 eb ee r /\ (ss r <> 0 -> sb r <= se r)).
    { destruct cover eqn:Cv.
      - destruct (select_cover cm key dk1 cm_pos fr cnt eb ee) as (r & c' & Q & In & _); [lia | specialize (Hcover eq_refl); lia |].
        eexists r, _, c'. split; [exact Q|]. split; [exact In|]. intros NZ. destruct In as [Z|Z]; [rewrite Z in NZ; cbn in NZ; congruence | lia].
      - destruct (select_fast cm key dk1 cm_pos fr cnt eb ee) as (r & c' & Q & In & _); [lia|].
        eexists r, _, c'. split; [exact Q|]. split; [exact In|]. intros NZ. destruct In as [Z|Z]; [rewrite Z in NZ; cbn in NZ; congruence | lia]. }
    destruct Sel as (r & fr' & c' & Q & In & _). rewrite Q.
    assert (Hn : (epoch + 1) mod epNum < epNum) by (apply N.mod_lt; lia).
    destruct (N.eqb_spec (ss r) 0) as [Z|NZ].
    - destruct (N.leb_spec maxZero (zero + 1)); [split; [lia|exact Hacc]|].
      apply IH; assumption.
    - destruct In as [Zr|(_ & B1 & B2 & B3 & _)]; [rewrite Zr in NZ; cbn in NZ; congruence|].
      set (raw := w32 (se r + (U32MOD - w32 (sb r)) + d + (U32MOD - 1))).
      assert (Hraw : raw <= se r - sb r + d - 1) by (apply seg_size_le; lia).
      clearbody raw.
      assert (Ht' : tail - N.min raw tail <= capacity) by lia.
      destruct (N.ltb_spec (N.min raw tail) d) as [L|L]; [split; [lia|exact Hacc]|].
      specialize (IH ((epoch + 1) mod epNum) (tail - N.min raw tail) 0 fr' c'
                     ((tail - N.min raw tail, sb r, N.min raw tail) :: acc) Hn Ht').
      assert (Hnew : tiles ((tail - N.min raw tail, sb r, N.min raw tail) :: acc) (tail - N.min raw tail)).
      { cbn [tiles]. repeat split; try lia.
        replace (tail - N.min raw tail + N.min raw tail) with tail by lia. exact Hacc. }
      specialize (IH Hnew).
      destruct (build cm cover key d k epNum epSize maxZero fuel ((epoch + 1) mod epNum) (tail - N.min raw tail) 0 fr' c'
                      ((tail - N.min raw tail, sb r, N.min raw tail) :: acc)); try exact IH.
      destruct IH as [I1 I2]. split; [lia|exact I2].
  Qed.

  (* termination: never out of fuel when the fuel exceeds (tail / d) * maxZero + (maxZero - zero) *)
  Theorem build_terminates fuel : forall epoch tail zero fr cnt acc,
      zero < maxZero -> (N.to_nat ((tail / d) * maxZero + (maxZero - zero)) < fuel)%nat ->
      build cm cover key d k epNum epSize maxZero fuel epoch tail zero fr cnt acc <> BuildFuel.
  Proof.
    induction fuel as [|fuel IH]; intros epoch tail zero fr cnt acc Hz Hf; [exfalso; inversion Hf|]. cbn [build].
    destruct (N.eqb_spec tail 0); [discriminate|].
    destruct (select cm key _ cover fr cnt _ _) as [[[r fr'] c']|]; [|discriminate].
    destruct (N.eqb_spec (ss r) 0).
    - destruct (N.leb_spec maxZero (zero + 1)); [discriminate|]. apply IH; [lia|].
      set (P := tail / d * maxZero) in *. clearbody P. lia.
    - set (s := N.min _ tail). destruct (N.ltb_spec s d); [discriminate|].
      apply IH; [lia|].
      assert (Hs : s <= tail) by (subst s; lia).
      assert (Q : (tail - s) / d + 1 <= tail / d).
      { assert (A1 : d * ((tail - s) / d) <= tail - s) by (apply N.mul_div_le; lia).
        assert (A2 : tail < d * (tail / d) + d).
        { pose proof (N.mod_lt tail d ltac:(lia)) as M1. pose proof (N.div_mod tail d ltac:(lia)) as M2.
          set (q := tail / d) in *. set (m := tail mod d) in *. clearbody q m. lia. }
        assert (A3 : d * ((tail - s) / d) < d * (tail / d)).
        { set (q := tail / d) in *. set (q' := (tail - s) / d) in *. clearbody q q'. lia. }
        apply N.mul_lt_mono_pos_l in A3; [|lia].
        set (q := tail / d) in *. set (q' := (tail - s) / d) in *. clearbody q q'. lia. }
      assert (Q2 : ((tail - s) / d + 1) * maxZero <= (tail / d) * maxZero) by (apply N.mul_le_mono_r; exact Q).
      rewrite N.mul_add_distr_r, N.mul_1_l in Q2.
      set (P := tail / d * maxZero) in *. set (A := (tail - s) / d * maxZero) in *. clearbody P A. lia.
  Qed.
End BuildThms.

(* ------------------------------------------------------------------ COVER_buildDictionary / FASTCOVER_buildDictionary *)
Lemma max_zero_run_pos cover n : 10 <= max_zero_run cover n.
Proof. unfold max_zero_run. destruct cover; lia. Qed.

Theorem build_dictionary_safe cover maxSamples sizes d sp c capacity k key fr :
  maxSamples <= U32MOD ->
  ctx_init true maxSamples sizes d sp = Some c ->
  1 <= d -> 1 <= k -> 1 <= w32 (k * 10) ->
  exists tail copies,
    build_dictionary cover key fr capacity (ci_nbDmers c) d k = Some (BuildDone tail copies) /\
    tail <= capacity /\ tiles d capacity (ci_trainSize c) copies tail.
Proof.
  intros HM Hc Hd Hk Hm.
  destruct (ctx_init_guarantees_dmers _ _ _ _ _ HM Hc) as (H1 & H2 & H3 & H4 & _).
  assert (Hsmall : ci_nbDmers c < U32MOD) by (unfold minlen in H2; lia).
  unfold build_dictionary, build_epochs. unfold w32 at 2. rewrite (N.mod_small (ci_nbDmers c)) by exact Hsmall.
  destruct (epochs_positive (w32 capacity) (ci_nbDmers c) k (if cover then 4 else 1) Hk Hm
                            ltac:(destruct cover; lia) H1) as (num & size & He & Hn & Hs & Hb).
  rewrite He.
  set (mz := max_zero_run cover num). pose proof (max_zero_run_pos cover num) as Hmz. fold mz in Hmz.
  set (cm := if cover then U32MOD else U16MOD).
  assert (cm_pos : 1 < cm) by (subst cm; destruct cover; reflexivity).
  assert (Hcover : cover = true -> ci_nbDmers c < cm) by (intros ->; exact Hsmall).
  assert (Hdm : ci_nbDmers c + N.max d 8 = ci_trainSize c + 1).
  { unfold minlen in H2. rewrite sizeof_U64_val in H2. exact H2. }
  pose proof (build_safe cm cover key d k num size mz capacity (ci_trainSize c) (ci_nbDmers c) cm_pos Hcover Hd Hn Hb Hdm
                         Hsmall (build_fuel capacity d mz) 0 capacity 0 fr zero_fn [] ltac:(lia) ltac:(lia) eq_refl) as Safe.
  pose proof (build_terminates cm cover key d k num size mz capacity (ci_trainSize c) (ci_nbDmers c) cm_pos Hcover Hd Hn Hb Hdm
                         Hsmall (build_fuel capacity d mz) 0 capacity 0 fr zero_fn [] ltac:(lia)) as Term.
  destruct (build cm cover key d k num size mz (build_fuel capacity d mz) 0 capacity 0 fr zero_fn []) as [t cs| |].
  - exists t, cs. split; [reflexivity|]. exact Safe.
  - destruct Safe.
  - exfalso. apply Term; [|reflexivity]. unfold build_fuel.
    replace (capacity / d * mz + (mz - 0)) with ((capacity / d + 1) * mz) by lia. lia.
Qed.

(* ---- the side condition 1 <= w32 (k*10) of epochs_positive is not needed for a U32 k *)
(* the only U32 k >= 1 whose k*10 wraps to 0 is 2^31 *)
Lemma minepoch_zero k : 1 <= k -> k < U32MOD -> w32 (k * 10) = 0 -> k = 2147483648.
Proof. unfold w32, U32MOD. intros. lia. Qed.

(* COVER_computeEpochs for EVERY U32 k >= 1 (no side condition on k*10): for k = 2^31 the minimum epoch size wraps to 0,
   the first branch is taken with num = 1 *)
Lemma epochs_total maxDict nbDmers k passes :
  1 <= k -> k < U32MOD -> maxDict < U32MOD -> 1 <= passes -> 1 <= nbDmers ->
  exists num size, compute_epochs maxDict nbDmers k passes = Some (num, size) /\
                   1 <= num /\ 1 <= size /\ num * size <= nbDmers.
Proof.
  intros Hk Hk32 Hm Hp Hn.
  destruct (N.eq_dec (w32 (k * 10)) 0) as [Z|NZ].
  - apply minepoch_zero in Z; try assumption. subst k. unfold compute_epochs.
    change (w32 (2147483648 * 10)) with 0. cbn [N.eqb orb].
    replace (passes =? 0) with false by (symmetry; apply N.eqb_neq; lia). cbn [orb].
    assert (Q : maxDict / 2147483648 / passes <= 1).
    { assert (Q0 : maxDict / 2147483648 <= 1) by (unfold U32MOD in Hm; lia).
      apply N.div_le_upper_bound; [lia|]. set (q := maxDict / 2147483648) in *. clearbody q. lia. }
    replace (N.max 1 (maxDict / 2147483648 / passes)) with 1 by lia.
    rewrite N.div_1_r. replace (0 <=? nbDmers) with true by (symmetry; apply N.leb_le; lia).
    exists 1, nbDmers. repeat split; lia.
  - apply epochs_positive; try assumption. lia.
Qed.

Theorem build_dictionary_total cover maxSamples sizes d sp c capacity k key fr :
  maxSamples <= U32MOD ->
  ctx_init true maxSamples sizes d sp = Some c ->
  1 <= d -> 1 <= k -> k < U32MOD ->
  exists tail copies,
    build_dictionary cover key fr capacity (ci_nbDmers c) d k = Some (BuildDone tail copies) /\
    tail <= capacity /\ tiles d capacity (ci_trainSize c) copies tail.
Proof.
  intros HM Hc Hd Hk Hk32.
  destruct (N.eq_dec (w32 (k * 10)) 0) as [Z|NZ].
  2:{ apply (build_dictionary_safe cover maxSamples sizes d sp c capacity k key fr HM Hc Hd Hk). lia. }
  (* k = 2^31: same proof as build_dictionary_safe with epochs_total *)
  destruct (ctx_init_guarantees_dmers _ _ _ _ _ HM Hc) as (H1 & H2 & H3 & H4 & _).
  assert (Hsmall : ci_nbDmers c < U32MOD) by (unfold minlen in H2; lia).
  unfold build_dictionary, build_epochs. unfold w32 at 2. rewrite (N.mod_small (ci_nbDmers c)) by exact Hsmall.
  destruct (epochs_total (w32 capacity) (ci_nbDmers c) k (if cover then 4 else 1) Hk Hk32 (w32_lt capacity)
                         ltac:(destruct cover; lia) H1) as (num & size & He & Hn & Hs & Hb).
  rewrite He.
  set (mz := max_zero_run cover num). pose proof (max_zero_run_pos cover num) as Hmz. fold mz in Hmz.
  set (cm := if cover then U32MOD else U16MOD).
  assert (cm_pos : 1 < cm) by (subst cm; destruct cover; reflexivity).
  assert (Hcover : cover = true -> ci_nbDmers c < cm) by (intros ->; exact Hsmall).
  assert (Hdm : ci_nbDmers c + N.max d 8 = ci_trainSize c + 1).
  { unfold minlen in H2. rewrite sizeof_U64_val in H2. exact H2. }
  pose proof (build_safe cm cover key d k num size mz capacity (ci_trainSize c) (ci_nbDmers c) cm_pos Hcover Hd Hn Hb Hdm
                         Hsmall (build_fuel capacity d mz) 0 capacity 0 fr zero_fn [] ltac:(lia) ltac:(lia) eq_refl) as Safe.
  pose proof (build_terminates cm cover key d k num size mz capacity (ci_trainSize c) (ci_nbDmers c) cm_pos Hcover Hd Hn Hb Hdm
                         Hsmall (build_fuel capacity d mz) 0 capacity 0 fr zero_fn [] ltac:(lia)) as Term.
  destruct (build cm cover key d k num size mz (build_fuel capacity d mz) 0 capacity 0 fr zero_fn []) as [t cs| |].
  - exists t, cs. split; [reflexivity|]. exact Safe.
  - destruct Safe.
  - exfalso. apply Term; [|reflexivity]. unfold build_fuel.
    replace (capacity / d * mz + (mz - 0)) with ((capacity / d + 1) * mz) by lia. lia.
Qed.

(* ------------------------------------------------------------------ table indexes *)
Lemma div_pow_lt x a b : b <= a -> x < 2 ^ a -> x / 2 ^ (a - b) < 2 ^ b.
Proof.
  intros Hb Hx. apply N.div_lt_upper_bound; [apply N.pow_nonzero; discriminate|].
  rewrite <- N.pow_add_r. replace (a - b + b) with a by lia. exact Hx.
Qed.

(* FASTCOVER_hashPtrToIndex stays inside the 2^f entries of freqs / segmentFreqs *)
Theorem fc_hash_in_table d f u : f <= 64 -> fc_hash d f u < 2 ^ f.
Proof.
  intros Hf. unfold fc_hash.
  destruct (d =? 6); apply div_pow_lt; try exact Hf; change (2 ^ 64) with U64MOD; apply N.mod_lt; discriminate.
Qed.

(* COVER_map_init (repaired): the table has 2^sizeLog <= 2^31 slots, at least twice the number of keys it must hold,
   and COVER_map_hash stays inside it *)
Theorem map_init_ok size sl :
  1 <= size -> map_init true size = Some sl ->
  size < 2 ^ 30 /\ 2 <= sl <= 31 /\ 2 * (size + 1) <= 2 ^ sl /\ 2 ^ sl < U32MOD /\ forall key, map_hash sl key < 2 ^ sl.
Proof.
  intros Hs. unfold map_init, highbit. cbn [andb].
  destruct (N.leb_spec 1073741824 size) as [L|L]; [discriminate|]. intros E. injection E as <-.
  change 1073741824 with (2 ^ 30) in L.
  assert (Hl : N.log2 size < 30) by (apply N.log2_lt_pow2; lia).
  destruct (N.log2_spec size ltac:(lia)) as [Lo Hi].
  assert (P : 2 ^ (N.log2 size + 2) = 4 * 2 ^ N.log2 size) by (rewrite N.pow_add_r; change (2 ^ 2) with 4; lia).
  rewrite N.pow_succ_r' in Hi.
  assert (Q : 2 ^ (N.log2 size + 2) <= 2 ^ 31) by (apply N.pow_le_mono_r; lia).
  change (2 ^ 31) with 2147483648 in Q.
  repeat split; try lia.
  - unfold U32MOD. lia.
  - intros key. unfold map_hash. apply div_pow_lt; [lia|]. change (2 ^ 32) with U32MOD. apply w32_lt.
Qed.

Theorem map_init_refuses size : 2 ^ 30 <= size -> map_init true size = None.
Proof. intros H. unfold map_init. cbn [andb]. change (2 ^ 30) with 1073741824 in H. destruct (N.leb_spec 1073741824 size); [reflexivity|lia]. Qed.

(* the pinned code: k - d + 1 = 2^30 gives sizeLog = 32, the width of the U32 that is shifted (finding, fix 62c5591) *)
Theorem map_init_pinned_refuted : map_init false (2 ^ 30) = Some 32 /\ map_init false (2 ^ 31) = Some 33.
Proof. split; reflexivity. Qed.

(* ------------------------------------------------------------------ the selectivity hint loop of the legacy trainer *)
Lemma hint_loop_from fuel : forall nb p,
    4 < nb -> p < 32 -> (N.to_nat p < fuel)%nat ->
    exists l, hint_loop fuel nb p = Some l /\ Forall (fun q => q < 32) l.
Proof.
  induction fuel as [|fuel IH]; intros nb p Hnb Hp Hf; [lia|]. cbn [hint_loop].
  destruct (N.leb_spec (N.shiftr nb p) t_MINRATIO) as [L|L].
  - assert (P0 : p <> 0).
    { intros ->. rewrite N.shiftr_0_r in L. change t_MINRATIO with 4 in L. lia. }
    assert (E : w32 (p + (U32MOD - 1)) = p - 1) by (clear - Hp P0; unfold w32, U32MOD; lia).
    rewrite E. clear L E.
    assert (P1 : p - 1 < 32) by lia. assert (P2 : (N.to_nat (p - 1) < fuel)%nat) by lia.
    destruct (IH nb (p - 1) Hnb P1 P2) as (l & -> & Fl).
    exists (p :: l). split; [reflexivity|]. constructor; assumption.
  - exists [p]. split; [reflexivity|]. constructor; [assumption|constructor].
Qed.

(* repaired code (9804e77): every shift count is below 32 and the loop ends, for every selectivity level *)
Theorem hint_shift_ok selectivity nbSamples :
  1 <= selectivity -> 4 < nbSamples ->
  exists l, hint_loop 33 nbSamples (hint_start true selectivity) = Some l /\ Forall (fun q => q < 32) l.
Proof.
  intros Hs Hn. apply hint_loop_from; [exact Hn | unfold hint_start; lia | unfold hint_start; lia].
Qed.

(* pinned code: selectivity 33 shifts a 32-bit value by 32 *)
Theorem hint_shift_pinned_refuted : exists l, hint_loop 40 64 (hint_start false 33) = Some l /\ In 32 l.
Proof. eexists. split; [vm_compute; reflexivity | cbn; auto]. Qed.

(* ------------------------------------------------------------------ selectSegment reads key (dmerAt[] / the samples) only inside its epoch *)
Definition feq (f g : N -> N) : Prop := forall i, f i = g i.
Lemma upd_feq f g i v : feq f g -> feq (upd f i v) (upd g i v).
Proof. intros H j. unfold upd. destruct (j =? i); [reflexivity|apply H]. Qed.

Definition wst_eq (s1 s2 : wst) : Prop := w_act s1 = w_act s2 /\ w_best s1 = w_best s2 /\ feq (w_cnt s1) (w_cnt s2).

Definition sel_eq (r1 r2 : option (seg * (N -> N) * (N -> N))) : Prop :=
  match r1, r2 with
  | Some (s1, f1, c1), Some (s2, f2, c2) => s1 = s2 /\ feq f1 f2 /\ feq c1 c2
  | None, None => True
  | _, _ => False
  end.

Section Ext.
  Variables (cm : N) (key1 key2 : N -> N) (dk1 : N) (fr1 fr2 : N -> N) (b e : N).
  Hypothesis cm_pos : 1 < cm.
  Hypothesis Hfr : feq fr1 fr2.
  Hypothesis Hkey : forall p, b <= p < e -> key1 p = key2 p.

  Lemma step_ext n st1 st2 :
    shape dk1 b n st1 -> b + N.of_nat n < e -> wst_eq st1 st2 ->
    wst_eq (slide_step cm key1 dk1 fr1 st1) (slide_step cm key2 dk1 fr2 st2).
  Proof.
    intros [S1 S2 S3 S4 S5] Hn (Ea & Eb & Ec).
    destruct st1 as [a c1 bst], st2 as [a' c2 bst']. cbn [w_act w_best w_cnt] in *. subst a' bst'.
    unfold slide_step. cbn [w_act w_best w_cnt].
    rewrite <- (Hkey (se a)) by lia. rewrite <- (Hkey (sb a)) by lia.
    set (idx := key1 (se a)). set (del := key1 (sb a)).
    rewrite <- (Ec idx), <- (Hfr idx), <- (Hfr del).
    set (score1 := if c1 idx =? 0 then w32 (ss a + fr1 idx) else ss a).
    assert (F1 : feq (upd c1 idx (inc cm (c1 idx))) (upd c2 idx (inc cm (c1 idx)))) by (apply upd_feq; exact Ec).
    rewrite <- (F1 del).
    set (c1' := upd c1 idx (inc cm (c1 idx))) in *. set (c2' := upd c2 idx (inc cm (c1 idx))) in *.
    repeat split.
    - destruct (se a + 1 - sb a =? dk1); [apply upd_feq; exact F1 | exact F1].
  Qed.

  Lemma slide_ext n : forall m st1 st2,
      shape dk1 b m st1 -> b + N.of_nat (m + n) <= e -> wst_eq st1 st2 ->
      wst_eq (slide cm key1 dk1 n fr1 st1) (slide cm key2 dk1 n fr2 st2).
  Proof.
    induction n as [|n IH]; intros m st1 st2 Sh Hn Eq; cbn [slide]; [exact Eq|].
    apply (IH (S m)).
    - apply (shape_step cm key1 dk1 fr1 cm_pos). exact Sh.
    - replace (S m + n)%nat with (m + S n)%nat by lia. exact Hn.
    - apply (step_ext m); [exact Sh | lia | exact Eq].
  Qed.

  Lemma drain_ext n : forall b' c1 c2,
      b <= b' -> b' + N.of_nat n <= e -> feq c1 c2 -> feq (drain cm key1 n b' c1) (drain cm key2 n b' c2).
  Proof.
    induction n as [|n IH]; intros b' c1 c2 H1 H2 Ec; cbn [drain]; [exact Ec|].
    rewrite <- (Hkey b') by lia. rewrite <- (Ec (key1 b')). apply IH; [lia | lia | apply upd_feq; exact Ec].
  Qed.

  Lemma trim_ext n : forall pos nb ne,
      b <= pos -> pos + N.of_nat n <= e -> trim_scan key1 n fr1 pos nb ne = trim_scan key2 n fr2 pos nb ne.
  Proof.
    induction n as [|n IH]; intros pos nb ne H1 H2; cbn [trim_scan]; [reflexivity|].
    rewrite <- (Hkey pos) by lia. rewrite <- (Hfr (key1 pos)).
    destruct (fr1 (key1 pos) =? 0); apply IH; lia.
  Qed.

  Lemma zero_ext n : forall pos f1 f2,
      b <= pos -> pos + N.of_nat n <= e -> feq f1 f2 -> feq (zero_range key1 n pos f1) (zero_range key2 n pos f2).
  Proof.
    induction n as [|n IH]; intros pos f1 f2 H1 H2 Ef; cbn [zero_range]; [exact Ef|].
    rewrite <- (Hkey pos) by lia. apply IH; [lia | lia | apply upd_feq; exact Ef].
  Qed.

  (* two runs whose position -> key maps agree on [b, e) (and whose tables agree) cannot be told apart:
     COVER_selectSegment / FASTCOVER_selectSegment read dmerAt[] / the samples at positions of the epoch only *)
  Theorem select_reads_inside_epoch cover cnt1 cnt2 :
    b <= e -> feq cnt1 cnt2 ->
    sel_eq (select cm key1 dk1 cover fr1 cnt1 b e) (select cm key2 dk1 cover fr2 cnt2 b e).
  Proof.
    intros Hbe Ec. unfold select. cbv zeta.
    set (c01 := if cover then zero_fn else cnt1). set (c02 := if cover then zero_fn else cnt2).
    assert (E0 : wst_eq (st0 b c01) (st0 b c02)).
    { repeat split. subst c01 c02. destruct cover; [intros i; reflexivity | exact Ec]. }
    pose proof (shape_init cm key1 dk1 fr1 cm_pos b c01) as Sh0.
    pose proof (slide_ext (N.to_nat (e - b)) 0 _ _ Sh0 ltac:(lia) E0) as (Ea & Eb & Ecn).
    pose proof (shape_slide cm key1 dk1 fr1 cm_pos (N.to_nat (e - b)) b 0 _ Sh0) as [S1 S2 S3 S4 S5].
    change (mkwst (mkseg b b 0) c01 (mkseg 0 0 0)) with (st0 b c01).
    change (mkwst (mkseg b b 0) c02 (mkseg 0 0 0)) with (st0 b c02).
    set (st1 := slide cm key1 dk1 (N.to_nat (e - b)) fr1 (st0 b c01)) in *.
    set (st2 := slide cm key2 dk1 (N.to_nat (e - b)) fr2 (st0 b c02)) in *.
    rewrite <- Ea, <- Eb.
    assert (Hc : feq (if cover then w_cnt st1 else drain cm key1 (N.to_nat (e - sb (w_act st1))) (sb (w_act st1)) (w_cnt st1))
                     (if cover then w_cnt st2 else drain cm key2 (N.to_nat (e - sb (w_act st1))) (sb (w_act st1)) (w_cnt st2))).
    { destruct cover; [exact Ecn|]. apply drain_ext; [lia | lia | exact Ecn]. }
    destruct (se (w_best st1) <? sb (w_best st1)); [exact I|].
    assert (In : w_best st1 = mkseg 0 0 0 \/ (b <= sb (w_best st1) /\ sb (w_best st1) <= se (w_best st1) /\ se (w_best st1) <= e)).
    { destruct S5 as [Z|Z]; [now left | right; lia]. }
    destruct cover.
    - assert (T : trim_scan key1 (N.to_nat (se (w_best st1) - sb (w_best st1))) fr1 (sb (w_best st1)) (se (w_best st1)) (sb (w_best st1))
                = trim_scan key2 (N.to_nat (se (w_best st1) - sb (w_best st1))) fr2 (sb (w_best st1)) (se (w_best st1)) (sb (w_best st1))).
      { destruct In as [Z|In]; [rewrite Z; reflexivity | apply trim_ext; lia]. }
      rewrite <- T.
      destruct (trim_scan key1 _ fr1 _ _ _) as [nb ne] eqn:TS.
      cbn [sb se ss].
      destruct (N.ltb_spec ne nb); [exact I|].
      split; [reflexivity|]. split; [|exact Hc].
      apply trim_scan_spec in TS.
      destruct In as [Z|In].
      + rewrite Z in TS. cbn in TS.
        assert (nb = 0 /\ ne = 0) as [-> ->] by (destruct TS as [(_ & P & Q)|(j1 & j2 & J & _)]; [now split | lia]).
        cbn. exact Hfr.
      + destruct TS as [(_ & -> & ->)|(j1 & j2 & J & -> & -> & _)].
        * replace (N.to_nat (sb (w_best st1) - se (w_best st1))) with 0%nat by lia. exact Hfr.
        * apply zero_ext; [lia | lia | exact Hfr].
    - destruct (N.ltb_spec (se (w_best st1)) (sb (w_best st1))); [exact I|].
      split; [reflexivity|]. split; [|exact Hc].
      destruct In as [Z|In]; [rewrite Z; cbn; exact Hfr | apply zero_ext; [lia | lia | exact Hfr]].
  Qed.
End Ext.

(* ------------------------------------------------------------------ FASTCOVER_computeFrequency reads the training samples only *)
Lemma fc_count_ext n : forall key1 key2 readLen skip start sEnd f1 f2,
    (forall p, start <= p -> p + readLen <= sEnd -> key1 p = key2 p) -> feq f1 f2 ->
    feq (fc_count n key1 readLen skip start sEnd f1) (fc_count n key2 readLen skip start sEnd f2).
Proof.
  induction n as [|n IH]; intros key1 key2 readLen skip start sEnd f1 f2 Hk Ef; cbn [fc_count]; [exact Ef|].
  destruct (N.leb_spec (start + readLen) sEnd) as [L|L]; [|exact Ef].
  rewrite <- (Hk start) by lia. rewrite <- (Ef (key1 start)).
  apply IH; [intros p P1 P2; apply Hk; lia | apply upd_feq; exact Ef].
Qed.

Lemma fc_freqs_from_ext sizes : forall key1 key2 readLen skip off f1 f2,
    (forall p, p + readLen <= off + sumN sizes -> key1 p = key2 p) -> feq f1 f2 ->
    feq (fc_freqs_from key1 readLen skip sizes off f1) (fc_freqs_from key2 readLen skip sizes off f2).
Proof.
  induction sizes as [|sz t IH]; intros key1 key2 readLen skip off f1 f2 Hk Ef; cbn [fc_freqs_from]; [exact Ef|].
  rewrite sumN_cons in Hk.
  apply IH.
  - intros p Hp. apply Hk. lia.
  - apply fc_count_ext; [|exact Ef]. intros p P1 P2. apply Hk. lia.
Qed.

Lemma le64_ext s1 s2 p total :
  (forall q, q < total -> byte_at s1 q = byte_at s2 q) -> p + 8 <= total -> le64 s1 p = le64 s2 p.
Proof. intros H Hp. unfold le64. rewrite !(H p), !(H (p + 1)), !(H (p + 2)), !(H (p + 3)), !(H (p + 4)), !(H (p + 5)), !(H (p + 6)), !(H (p + 7)) by lia. reflexivity. Qed.

(* the frequency table depends on the bytes of the training samples only (each hashed 8-byte read ends inside them) *)
Theorem fc_freqs_reads_inside s1 s2 d f skip trainSizes :
  (forall q, q < sumN trainSizes -> byte_at s1 q = byte_at s2 q) ->
  feq (fc_freqs (fc_key s1 d f) d skip trainSizes) (fc_freqs (fc_key s2 d f) d skip trainSizes).
Proof.
  intros H. unfold fc_freqs. apply fc_freqs_from_ext; [|intros i; reflexivity].
  intros p Hp. unfold fc_key. f_equal. apply (le64_ext s1 s2 p (sumN trainSizes) H). lia.
Qed.

(* frequencies are zeroed exactly on the keys of the chosen segment *)
Theorem select_zeroes_segment key n pos fr :
  (forall j, (j < n)%nat -> zero_range key n pos fr (key (pos + N.of_nat j)) = 0) /\
  (forall i, (forall j, (j < n)%nat -> key (pos + N.of_nat j) <> i) -> zero_range key n pos fr i = fr i).
Proof. split; [intros j Hj; now apply zero_range_in | intros i Hi; now apply zero_range_out]. Qed.
