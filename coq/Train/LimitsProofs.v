(* C18 round 3 - proofs about Train/LimitsModel.v *)
From Coq Require Import NArith ZArith List Bool Lia.
From ZV.Gen Require Import Gen_Train.
From ZV.Train Require Import CoverParams CoverProofs LimitsModel.
Import ListNotations.
Local Open Scope N_scope.
Ltac Zify.zify_post_hook ::= Z.div_mod_to_equations.

Lemma SZ_val : SZ = 18446744073709551616.
Proof. vm_compute. reflexivity. Qed.
Lemma U32M_val : U32M = 4294967296.
Proof. vm_compute. reflexivity. Qed.

(* the regenerated constants these theorems rely on *)
Lemma limits_consts_ok :
  t_ZDICT_MAX_SAMPLES_SIZE < 2 ^ 31 /\ t_NOISELENGTH = 32 /\ t_sizeof_int = 4 /\
  t_OFFCODE_MAX = 30 /\ t_entropy_window_slack = 131072 /\ t_OFFCODE_MAX < t_MaxOff + 1 /\ t_sizeof_size_t = 8.
Proof. vm_compute. repeat split; discriminate. Qed.

(* ------------------------------------------------------------------ sums *)
Lemma sum3_app a b : sum3 (a ++ b) = sum3 a + sum3 b.
Proof. induction a as [|x a IH]; cbn [app sum3 fold_right]; [reflexivity|]. fold (sum3 (a ++ b)). fold (sum3 a). rewrite IH. lia. Qed.

Lemma sum3_rev l : sum3 (rev l) = sum3 l.
Proof.
  induction l as [|x l IH]; [reflexivity|].
  cbn [rev]. rewrite sum3_app, IH. cbn [sum3 fold_right]. fold (sum3 l). lia.
Qed.

Lemma sum3_cons x l : sum3 (x :: l) = x + sum3 l.
Proof. reflexivity. Qed.

Lemma wsub_exact a b : b <= a -> a < SZ -> wsub a b = a - b.
Proof.
  unfold wsub. rewrite SZ_val. intros Hb Ha.
  rewrite (N.mod_small b) by lia.
  replace (a + 18446744073709551616 - b) with ((a - b) + 1 * 18446744073709551616) by lia.
  rewrite N.mod_add by discriminate. apply N.mod_small. lia.
Qed.

(* ------------------------------------------------------------------ 1. drop_tail *)
Lemma drop_tail_spec maxS : forall l total, total = sum3 l -> total < SZ ->
  exists d l', l = d ++ l' /\ drop_tail maxS total l = Some (sum3 l', l') /\ sum3 l' <= maxS /\
    (d <> [] -> exists x d0, d = d0 ++ [x] /\ maxS < x + sum3 l').
Proof.
  induction l as [|s r IH]; intros total Ht Hlt.
  - exists [], []. cbn [drop_tail app sum3 fold_right] in *. subst total.
    replace (0 <=? maxS) with true by (symmetry; apply N.leb_le; lia).
    repeat split; try lia. intros H; contradiction H; reflexivity.
  - cbn [drop_tail]. destruct (total <=? maxS) eqn:E.
    + apply N.leb_le in E. exists [], (s :: r). cbn [app]. subst total. repeat split; try assumption.
      intros H; contradiction H; reflexivity.
    + apply N.leb_gt in E. rewrite sum3_cons in Ht.
      assert (Hw : wsub total s = sum3 r) by (rewrite wsub_exact by lia; lia).
      destruct (IH (wsub total s) Hw ltac:(lia)) as (d & l' & Hl & Hd & Hle & Hlast).
      exists (s :: d), l'. subst r. cbn [app]. repeat split; try assumption.
      intros _. destruct d as [|y d'].
      * exists s, []. cbn [app] in *. split; [reflexivity|]. lia.
      * destruct (Hlast ltac:(discriminate)) as (x & d0 & Hd0 & Hx).
        exists x, (s :: d0). rewrite Hd0. split; [reflexivity|assumption].
Qed.

Lemma drop_tail_idem maxS l : sum3 l <= maxS -> drop_tail maxS (sum3 l) l = Some (sum3 l, l).
Proof.
  intros H. destruct l as [|s r]; cbn [drop_tail];
    replace (_ <=? maxS) with true by (symmetry; apply N.leb_le; assumption); reflexivity.
Qed.

Lemma sum_last_le d0 (x : N) : x <= sum3 (d0 ++ [x]).
Proof. rewrite sum3_app. cbn [sum3 fold_right]. lia. Qed.

(* the repaired entry: the guard band sits exactly where the sentinels of the analysis point *)
Lemma legacy_plan_fixed sizes : sum3 sizes < SZ ->
  exists kept dropped, sizes = kept ++ dropped /\
    sum3 kept <= t_ZDICT_MAX_SAMPLES_SIZE /\
    (sum3 sizes <= t_ZDICT_MAX_SAMPLES_SIZE -> dropped = []) /\
    (forall x d, dropped = x :: d -> t_ZDICT_MAX_SAMPLES_SIZE < sum3 kept + x) /\
    (if sum3 kept <? t_ZDICT_MIN_SAMPLES_SIZE then legacy_plan true sizes = LgNoDict
     else legacy_plan true sizes = LgPlan (sum3 kept) (sum3 kept) (lenN3 kept)) /\
    sum3 kept + t_NOISELENGTH < 2 ^ 31 + 32 /\ sum3 kept < 2 ^ 31 /\ (sum3 kept + 2) * t_sizeof_int < SZ.
Proof.
  intros Hs. destruct limits_consts_ok as (Hmax & Hnoise & Hint & _).
  unfold legacy_plan, legacy_plan_at. rewrite (N.mod_small _ _ Hs).
  destruct (drop_tail_spec t_ZDICT_MAX_SAMPLES_SIZE (rev sizes) (sum3 sizes) (eq_sym (sum3_rev sizes)) Hs)
    as (d & l' & Hl & Hd & Hle & Hlast).
  exists (rev l'), (rev d).
  assert (Hsz : sizes = rev l' ++ rev d).
  { rewrite <- rev_app_distr, <- Hl, rev_involutive. reflexivity. }
  rewrite Hd. rewrite (sum3_rev l').
  split; [exact Hsz|]. split; [exact Hle|].
  split.
  { intros Htot. destruct d as [|y d']; [reflexivity|].
    destruct (Hlast ltac:(discriminate)) as (x & d0 & Hd0 & Hx). exfalso.
    assert (sum3 sizes = sum3 (y :: d') + sum3 l').
    { rewrite <- (sum3_rev sizes), Hl, sum3_app. reflexivity. }
    pose proof (sum_last_le d0 x) as Hx2. rewrite <- Hd0 in Hx2. lia. }
  split.
  { intros x dd Hdd.
    assert (Hd' : d = rev dd ++ [x]).
    { rewrite <- (rev_involutive d), Hdd. reflexivity. }
    destruct (Hlast) as (x' & d0 & Hd0 & Hx).
    { rewrite Hd'. intros E. apply (f_equal (@length N)) in E. rewrite app_length in E. cbn in E. lia. }
    rewrite Hd' in Hd0. apply app_inj_tail in Hd0. destruct Hd0 as (_ & ->). lia. }
  split.
  { destruct (sum3 l' <? t_ZDICT_MIN_SAMPLES_SIZE); [reflexivity|].
    rewrite (drop_tail_idem _ _ Hle). unfold lenN3. rewrite rev_length. reflexivity. }
  rewrite Hnoise, Hint, SZ_val. lia.
Qed.

Lemma legacy_plan_fixed_never_traps sizes : sum3 sizes < SZ -> legacy_plan true sizes <> LgTrap.
Proof.
  intros Hs. destruct (legacy_plan_fixed sizes Hs) as (kept & dropped & _ & _ & _ & _ & Hp & _).
  destruct (sum3 kept <? t_ZDICT_MIN_SAMPLES_SIZE); rewrite Hp; discriminate.
Qed.

(* the pinned entry: the guard band sits behind the FULL copy, the analysis ends at the reduced size *)
Lemma legacy_plan_pinned_refuted :
  legacy_plan false [t_ZDICT_MAX_SAMPLES_SIZE; 1] = LgPlan (t_ZDICT_MAX_SAMPLES_SIZE + 1) t_ZDICT_MAX_SAMPLES_SIZE 1 /\
  legacy_plan true [t_ZDICT_MAX_SAMPLES_SIZE; 1] = LgPlan t_ZDICT_MAX_SAMPLES_SIZE t_ZDICT_MAX_SAMPLES_SIZE 1 /\
  legacy_plan false [6400; 6400; t_ZDICT_MAX_SAMPLES_SIZE] = LgPlan (t_ZDICT_MAX_SAMPLES_SIZE + 12800) 12800 2.
Proof. vm_compute. repeat split; reflexivity. Qed.

Lemma legacy_plan_pinned sizes : sum3 sizes < SZ ->
  legacy_plan false sizes = LgNoDict \/
  exists an nb, legacy_plan false sizes = LgPlan (sum3 sizes) an nb /\ an <= sum3 sizes /\
    (an = sum3 sizes <-> sum3 sizes <= t_ZDICT_MAX_SAMPLES_SIZE).
Proof.
  intros Hs. unfold legacy_plan, legacy_plan_at. rewrite (N.mod_small _ _ Hs).
  destruct (sum3 sizes <? t_ZDICT_MIN_SAMPLES_SIZE); [left; reflexivity|right].
  destruct (drop_tail_spec t_ZDICT_MAX_SAMPLES_SIZE (rev sizes) (sum3 sizes) (eq_sym (sum3_rev sizes)) Hs)
    as (d & l' & Hl & Hd & Hle & Hlast).
  rewrite Hd. exists (sum3 l'), (lenN3 l'). split; [reflexivity|].
  assert (Hsum : sum3 sizes = sum3 d + sum3 l') by (rewrite <- (sum3_rev sizes), Hl, sum3_app; reflexivity).
  split; [lia|]. split.
  - intros E. lia.
  - intros Htot. destruct d as [|y d']; [cbn [sum3 fold_right] in Hsum; lia|].
    destruct (Hlast ltac:(discriminate)) as (x & d0 & Hd0 & Hx).
    pose proof (sum_last_le d0 x) as Hx2. rewrite <- Hd0 in Hx2. lia.
Qed.

(* ------------------------------------------------------------------ 2. offcodeMax *)
Lemma offcode_max_fixed dictSize : dictSize < SZ ->
  match offcode_max true dictSize with
  | OcTrap => False
  | OcTooLarge => 2 ^ (t_OFFCODE_MAX + 1) <= dictSize + t_entropy_window_slack
  | OcOk m => 17 <= m <= t_OFFCODE_MAX /\ m <= t_MaxOff /\
              2 ^ m <= dictSize + t_entropy_window_slack < 2 ^ (m + 1)
  end.
Proof.
  intros Hd. destruct limits_consts_ok as (_ & _ & _ & Hoc & Hsl & Hmo & _).
  unfold offcode_max. rewrite Hoc, Hsl in *. rewrite SZ_val in *. change (2 ^ (30 + 1)) with 2147483648.
  destruct (N.lt_ge_cases (dictSize + 131072) 18446744073709551616) as [Hnw|Hw].
  - rewrite (N.mod_small (dictSize + 131072)) by assumption.
    replace (dictSize <=? dictSize + 131072) with true by (symmetry; apply N.leb_le; lia).
    cbn [andb]. destruct ((dictSize + 131072) / 2147483648 =? 0) eqn:E.
    + apply N.eqb_eq in E.
      assert (Hlt : dictSize + 131072 < 2147483648) by (apply N.div_small_iff in E; [assumption|discriminate]).
      rewrite U32M_val. rewrite (N.mod_small (dictSize + 131072)) by lia.
      unfold highbit32. destruct (dictSize + 131072 =? 0) eqn:Z; [apply N.eqb_eq in Z; lia|].
      assert (Hpos : 0 < dictSize + 131072) by lia.
      pose proof (N.log2_spec _ Hpos) as (Hlo & Hhi).
      assert (H17 : 17 <= N.log2 (dictSize + 131072)).
      { apply N.log2_le_pow2; [assumption|]. change (2 ^ 17) with 131072. lia. }
      assert (H30 : N.log2 (dictSize + 131072) < 31).
      { apply N.log2_lt_pow2; [assumption|]. change (2 ^ 31) with 2147483648. assumption. }
      rewrite <- N.add_1_r in Hhi. repeat split; try assumption; try lia.
    + apply N.eqb_neq in E.
      destruct (N.lt_ge_cases (dictSize + 131072) 2147483648) as [Hl|Hg]; [|assumption].
      exfalso. apply E. apply N.div_small. assumption.
  - assert (Hm : (dictSize + 131072) mod 18446744073709551616 = dictSize + 131072 - 18446744073709551616).
    { replace (dictSize + 131072) with ((dictSize + 131072 - 18446744073709551616) + 1 * 18446744073709551616) at 1 by lia.
      rewrite N.mod_add by discriminate. apply N.mod_small. lia. }
    rewrite Hm.
    replace (dictSize <=? dictSize + 131072 - 18446744073709551616) with false by (symmetry; apply N.leb_gt; lia).
    cbn [andb]. lia.
Qed.

Lemma offcode_max_pinned_refuted :
  offcode_max false (2 ^ 32 - 2 ^ 17) = OcTrap /\
  offcode_max false (2 ^ 32) = OcOk 17 /\
  offcode_max false (2 ^ 31 - 2 ^ 17) = OcTooLarge /\
  offcode_max true (2 ^ 32 - 2 ^ 17) = OcTooLarge /\ offcode_max true (2 ^ 32) = OcTooLarge /\
  offcode_max true (2 ^ 31 - 2 ^ 17 - 1) = OcOk 30 /\ offcode_max true 0 = OcOk 17.
Proof. vm_compute. repeat split; reflexivity. Qed.

(* below 4 GiB - 128 KiB the two versions agree: the repair changes nothing for the sizes the pinned code handled *)
Lemma offcode_max_agree dictSize : dictSize + t_entropy_window_slack < U32M ->
  offcode_max false dictSize = offcode_max true dictSize.
Proof.
  destruct limits_consts_ok as (_ & _ & _ & Hoc & Hsl & _). rewrite Hsl, U32M_val. intros H.
  unfold offcode_max. rewrite Hoc, Hsl, SZ_val, U32M_val. change (2 ^ (30 + 1)) with 2147483648.
  rewrite (N.mod_small (dictSize + 131072) 18446744073709551616) by lia.
  rewrite (N.mod_small (dictSize + 131072) 4294967296) by lia.
  replace (dictSize <=? dictSize + 131072) with true by (symmetry; apply N.leb_le; lia). cbn [andb].
  unfold highbit32. destruct (dictSize + 131072 =? 0) eqn:Z; [apply N.eqb_eq in Z; lia|].
  assert (Hpos : 0 < dictSize + 131072) by lia.
  destruct ((dictSize + 131072) / 2147483648 =? 0) eqn:E.
  - apply N.eqb_eq in E. apply N.div_small_iff in E; [|discriminate].
    assert (N.log2 (dictSize + 131072) < 31) by (apply N.log2_lt_pow2; [assumption|exact E]).
    replace (30 <? N.log2 (dictSize + 131072)) with false by (symmetry; apply N.ltb_ge; lia). reflexivity.
  - apply N.eqb_neq in E.
    assert (2147483648 <= dictSize + 131072).
    { destruct (N.lt_ge_cases (dictSize + 131072) 2147483648) as [Hl|Hg]; [|assumption]. exfalso. apply E, N.div_small, Hl. }
    assert (31 <= N.log2 (dictSize + 131072)) by (apply N.log2_le_pow2; [assumption|exact H0]).
    replace (30 <? N.log2 (dictSize + 131072)) with true by (symmetry; apply N.ltb_lt; lia). reflexivity.
Qed.

(* ------------------------------------------------------------------ 3. offsets table *)
Lemma offsets_alloc_fixed nb : nb < U32M ->
  offsets_alloc true nb = offsets_written nb /\ fill_last true nb = Some (nb + 1).
Proof.
  destruct limits_consts_ok as (_ & _ & _ & _ & _ & _ & Hst). rewrite U32M_val. intros H.
  unfold offsets_alloc, offsets_written, fill_last. rewrite Hst, SZ_val.
  rewrite (N.mod_small (nb + 1)) by lia. split; [apply N.mod_small; lia|reflexivity].
Qed.

Lemma offsets_alloc_pinned nb : nb + 1 < U32M ->
  offsets_alloc false nb = offsets_written nb /\ fill_last false nb = Some (nb + 1).
Proof.
  destruct limits_consts_ok as (_ & _ & _ & _ & _ & _ & Hst). rewrite U32M_val. intros H.
  unfold offsets_alloc, offsets_written, fill_last. rewrite Hst, SZ_val, U32M_val.
  rewrite (N.mod_small (nb + 1)) by lia.
  replace (nb + 1 <? 4294967296) with true by (symmetry; apply N.ltb_lt; lia).
  split; [apply N.mod_small; lia|reflexivity].
Qed.

Lemma offsets_alloc_pinned_refuted :
  offsets_alloc false (U32M - 1) = 0 /\ offsets_written (U32M - 1) = 34359738368 /\ fill_last false (U32M - 1) = None /\
  offsets_alloc true (U32M - 1) = 34359738368.
Proof. vm_compute. repeat split; reflexivity. Qed.

(* ------------------------------------------------------------------ 4. the progress display of the optimisers *)
(* kIterations, the divisor of the progress display "(iteration * 100) / kIterations" of both optimisers, is never 0
   (and does not wrap), for every parameter vector that passes the entry checks *)
Lemma opt_iterations_positive fuel d k steps g :
  opt_grid true fuel d k steps = Some (Some g) -> 1 <= g_iterations g <= 3902.
Proof.
  unfold opt_grid.
  set (kMinD := if d =? 0 then 6 else d). set (kMaxD := if d =? 0 then 8 else d).
  set (kMinK := if k =? 0 then 50 else k). set (kMaxK := if k =? 0 then 2000 else k).
  set (kSteps := if steps =? 0 then 40 else steps).
  set (kStepSize := N.max ((kMaxK - kMinK) / kSteps) 1).
  assert (HD : (kMaxD - kMinD) / 2 <= 1).
  { unfold kMinD, kMaxD. destruct (N.eqb_spec d 0); [vm_compute; discriminate|]. replace (d - d) with 0 by lia. vm_compute; discriminate. }
  assert (HS : 1 <= kStepSize) by (unfold kStepSize; lia).
  assert (HK : (kMaxK - kMinK) / kStepSize <= 1950).
  { apply N.div_le_upper_bound; [lia|]. unfold kMinK, kMaxK. destruct (N.eqb_spec k 0).
    - change (2000 - 50) with 1950. clearbody kStepSize. nia.
    - replace (k - k) with 0 by lia. lia. }
  destruct ((kMinK <? kMaxD) || (kMaxK <? kMinK)); [discriminate|].
  destruct (u32_loop true fuel kMinD kMinD kMaxD 2); [|discriminate].
  destruct (u32_loop true fuel kMinK kMinK kMaxK kStepSize); [|discriminate].
  intros H. injection H as <-. change (1 <= w32 ((1 + (kMaxD - kMinD) / 2) * (1 + (kMaxK - kMinK) / kStepSize)) <= 3902). unfold w32. rewrite U32MOD_val.
  remember ((kMaxD - kMinD) / 2) as a. remember ((kMaxK - kMinK) / kStepSize) as b. clear - HD HK.
  assert (Hp : (1 + a) * (1 + b) <= 2 * 1951) by (apply N.mul_le_mono; lia).
  assert (Hq : 1 * 1 <= (1 + a) * (1 + b)) by (apply N.mul_le_mono; lia).
  rewrite N.mod_small by lia. lia.
Qed.
