(* C18 - model of the size / ID / layout logic of lib/dictBuilder/zdict.c (NO proofs in this file).

   ZDICT_finalizeDictionary, ZDICT_addEntropyTablesFromBuffer_advanced, ZDICT_getDictID,
   the entry gates of ZDICT_trainFromBuffer_legacy / _unsafe_legacy.

   The entropy section (ZDICT_analyzeEntropy: Huffman + three FSE tables + 12 bytes of repcodes, produced
   through the unmodelled FSE_normalizeCount / HUF_buildCTable) is an INPUT of the model: [None] when
   ZDICT_analyzeEntropy returns an error, [Some bytes] otherwise.  ZDICT_analyzeEntropy never writes more
   than the maxDstSize it is given: that bound is a hypothesis of the theorems and is validated per run. *)
From Coq Require Import NArith List Bool.
From ZV.Gen Require Import Gen_Train.
Import ListNotations.
Local Open Scope N_scope.

Definition SZMODz : N := 2 ^ (8 * t_sizeof_size_t).
Definition wszz (v : N) : N := v mod SZMODz.

Definition lenNz {A} (l : list A) : N := N.of_nat (length l).
Fixpoint firstNz {A} (l : list A) (n : N) : list A :=
  match l with
  | [] => []
  | x :: t => if n =? 0 then [] else x :: firstNz t (N.pred n)
  end.
Fixpoint zerosN (n : nat) : list N := match n with O => [] | S m => 0 :: zerosN m end.

Definition le32 (v : N) : list N :=
  [v mod 256; (v / 256) mod 256; (v / 65536) mod 256; (v / 16777216) mod 256].
Definition rd32 (l : list N) : N :=
  match l with
  | a :: b :: c :: d :: _ => a + 256 * b + 65536 * c + 16777216 * d
  | _ => 0
  end.

(* ------------------------------------------------------------------ dictionary ID *)
(* U64 randomID = XXH64(content);  U32 compliantID = (randomID % ((1U<<31)-32768)) + 32768;
   U32 dictID = params.dictID ? params.dictID : compliantID                                              *)
Definition compliant_id (h : N) : N := ((h mod (2147483648 - 32768)) + 32768) mod 4294967296.
Definition dict_id (param h : N) : N := if param =? 0 then compliant_id h else param.

(* ZDICT_getDictID / ZSTD_getDictID_fromDict : size < 8 -> 0 ; wrong magic -> 0 ; else LE32 at offset 4 *)
Definition get_dict_id (dict : list N) : N :=
  if lenNz dict <? 8 then 0
  else if negb (rd32 dict =? t_ZSTD_MAGIC_DICTIONARY) then 0
  else rd32 (skipn 4 dict).

(* ------------------------------------------------------------------ ZDICT_finalizeDictionary *)
Inductive fin_res :=
| FinErr                                   (* an error code is returned *)
| FinOk (hSize padding content : N).       (* dictSize = hSize + padding + content; layout header|padding|content *)

(* eSize : result of ZDICT_analyzeEntropy(header+8, HBUFFSIZE-8, ...) : None = error *)
Definition finalize_sizes (capacity contentSize : N) (eSize : option N) : fin_res :=
  if capacity <? contentSize then FinErr
  else if capacity <? t_ZDICT_DICTSIZE_MIN then FinErr
  else match eSize with
       | None => FinErr
       | Some e =>
         let hSize := 8 + e in
         (* if (hSize + dictContentSize > dictBufferCapacity) dictContentSize = dictBufferCapacity - hSize;   (size_t) *)
         let content := if capacity <? hSize + contentSize then wszz (capacity + (SZMODz - wszz hSize)) else contentSize in
         if content <? t_minContentSize
         then (if capacity <? hSize + t_minContentSize then FinErr
               else FinOk hSize (t_minContentSize - content) content)
         else FinOk hSize 0 content
       end.

Definition fin_total (r : fin_res) : N :=
  match r with FinErr => 0 | FinOk h p c => h + p + c end.

(* the bytes written to dictBuffer[0 .. dictSize) : header (magic, id, entropy) | zero padding | the FIRST
   [content] bytes of customDictContent (memmove(outDictContent, customDictContent, dictContentSize))      *)
Definition finalize_bytes (capacity : N) (content : list N) (entropy : option (list N)) (idParam hash : N)
  : option (list N) :=
  match finalize_sizes capacity (lenNz content) (option_map lenNz entropy), entropy with
  | FinOk h p c, Some e =>
      Some (le32 t_ZSTD_MAGIC_DICTIONARY ++ le32 (dict_id idParam hash) ++ e ++ zerosN (N.to_nat p) ++ firstNz content c)
  | _, _ => None
  end.

(* ------------------------------------------------------------------ ZDICT_addEntropyTablesFromBuffer_advanced *)
(* (repaired code, findings F9)  the content sits at dictBuffer + capacity - contentSize.
   maxDstSize handed to ZDICT_analyzeEntropy:  dictBufferCapacity - 8  (no wrap: capacity >= 16 is tested first) *)
Definition add_entropy_maxdst (capacity : N) : N := wszz (capacity + (SZMODz - 8)).

Inductive add_res :=
| AddErr
| AddOk (dictSize hSize : N) (moved : bool).   (* moved: content memmove'd down to follow the header *)

(* pre-checks made before ZDICT_analyzeEntropy is called: true = an error is returned *)
Definition add_entropy_precheck (capacity contentSize : N) : bool :=
  (capacity <? contentSize) || (capacity <? 8 + t_minContentSize).

Definition add_entropy_sizes (capacity contentSize : N) (eSize : option N) : add_res :=
  if add_entropy_precheck capacity contentSize then AddErr
  else match eSize with
  | None => AddErr
  | Some e =>
    let hSize := 8 + e in
    if capacity <? hSize + t_minContentSize then AddErr
    else if contentSize <? t_minContentSize then AddErr
    else AddOk (N.min capacity (hSize + contentSize)) hSize (hSize + contentSize <? capacity)
  end.

(* the bytes of content that remain behind the header in the returned dictionary *)
Definition add_content_left (r : add_res) : N :=
  match r with AddErr => 0 | AddOk s h _ => s - h end.

(* ------------------------------------------------------------------ legacy trainer gates *)
Inductive gate := GateNoDict | GateErr | GateProceed.
(* ZDICT_trainFromBuffer_legacy: total < ZDICT_MIN_SAMPLES_SIZE -> return 0 ("no dictionary");
   ZDICT_trainFromBuffer_unsafe_legacy: maxDictSize < ZDICT_DICTSIZE_MIN -> error                        *)
Definition legacy_gate (total capacity : N) : gate :=
  if total <? t_ZDICT_MIN_SAMPLES_SIZE then GateNoDict
  else if capacity <? t_ZDICT_DICTSIZE_MIN then GateErr
  else GateProceed.
