(* C18 - model of the parameter / size arithmetic of the COVER and FASTCOVER trainers (NO proofs in this file).

   lib/dictBuilder/cover.c     : COVER_checkParameters, COVER_ctx_init (size and split logic only),
                                 COVER_computeEpochs, the (d,k) grid of ZDICT_optimizeTrainFromBuffer_cover
   lib/dictBuilder/fastcover.c : FASTCOVER_checkParameters, FASTCOVER_ctx_init (size and split logic only),
                                 the grid of ZDICT_optimizeTrainFromBuffer_fastCover

   Conventions.  U32 / size_t wrap-around is written explicitly (w32, wsz).  A C division by zero is the
   result [None] of [compute_epochs] (the real code traps with SIGFPE).  A split point is a double; the model
   covers the doubles that are dyadic rationals num / 2^sh (every value the correspondence uses, including the
   defaults 1.0 and 0.75) for which (double)nbSamples * splitPoint is computed exactly.

   [ctx_init true]  is the size logic of the REPAIRED code (finding F7: the training part of the split is also
                    required to hold MAX(d, 8) bytes);
   [ctx_init false] is the code of the pinned tree (only the total is tested).                              *)
From Coq Require Import NArith ZArith List Bool.
From ZV.Gen Require Import Gen_Train.
Import ListNotations.
Local Open Scope N_scope.

Definition U32MOD : N := 4294967296.
Definition SZMOD : N := 2 ^ (8 * t_sizeof_size_t).        (* size_t modulus of the build under test *)
Definition w32 (v : N) : N := v mod U32MOD.
Definition wsz (v : N) : N := v mod SZMOD.

(* ------------------------------------------------------------------ split point *)
Record splitpoint := { sp_num : Z; sp_sh : N }.            (* the double  sp_num / 2^sp_sh *)
Definition sp_pos (sp : splitpoint) : bool := (0 <? sp_num sp)%Z.                       (* splitPoint > 0  *)
Definition sp_le1 (sp : splitpoint) : bool := (sp_num sp <=? 2 ^ Z.of_N (sp_sh sp))%Z.  (* splitPoint <= 1 *)
Definition sp_lt1 (sp : splitpoint) : bool := (sp_num sp <? 2 ^ Z.of_N (sp_sh sp))%Z.   (* splitPoint < 1.0 *)
Definition sp_ok (sp : splitpoint) : bool := sp_pos sp && sp_le1 sp.   (* !(splitPoint <= 0 || splitPoint > 1) *)
Definition sp_one : splitpoint := {| sp_num := 1; sp_sh := 0 |}.

(* ------------------------------------------------------------------ COVER_checkParameters / FASTCOVER_checkParameters *)
Definition cover_check (k d maxDict : N) (sp : splitpoint) : bool :=
  if (d =? 0) || (k =? 0) then false
  else if maxDict <? k then false
  else if k <? d then false
  else sp_ok sp.

Definition fastcover_check (k d maxDict f accel : N) (sp : splitpoint) : bool :=
  if (d =? 0) || (k =? 0) then false
  else if negb (d =? 6) && negb (d =? 8) then false
  else if maxDict <? k then false
  else if k <? d then false
  else if (t_FASTCOVER_MAX_F <? f) || (f =? 0) then false
  else if negb (sp_ok sp) then false
  else if (t_FASTCOVER_MAX_ACCEL <? accel) || (accel =? 0) then false
  else true.

(* ------------------------------------------------------------------ COVER_ctx_init / FASTCOVER_ctx_init : sizes *)
Definition sumN (l : list N) : N := fold_left N.add l 0.
Fixpoint firstN {A} (l : list A) (n : N) : list A :=
  match l with
  | [] => []
  | x :: t => if n =? 0 then [] else x :: firstN t (N.pred n)
  end.
Fixpoint skipN {A} (l : list A) (n : N) : list A :=
  match l with
  | [] => []
  | _ :: t => if n =? 0 then l else skipN t (N.pred n)
  end.
Definition lenN {A} (l : list A) : N := N.of_nat (length l).

(* nbTrainSamples = splitPoint < 1.0 ? (unsigned)((double)nbSamples * splitPoint) : nbSamples *)
Definition nb_train (nb : N) (sp : splitpoint) : N :=
  if sp_lt1 sp then Z.to_N (Z.of_N nb * sp_num sp / 2 ^ Z.of_N (sp_sh sp))%Z else nb.
Definition nb_test (nb : N) (sp : splitpoint) : N :=
  if sp_lt1 sp then nb - nb_train nb sp else nb.

Definition minlen (d : N) : N := N.max d t_sizeof_U64.     (* MAX(d, sizeof(U64)) *)

Record ctxinfo := { ci_nbTrain : N; ci_nbTest : N; ci_trainSize : N; ci_testSize : N; ci_nbDmers : N }.

Definition ctx_init (repaired : bool) (maxSamples : N) (sizes : list N) (d : N) (sp : splitpoint) : option ctxinfo :=
  let nb := lenN sizes in
  let total := sumN sizes in
  let nbTrain := nb_train nb sp in
  let nbTest := nb_test nb sp in
  let trainSize := if sp_lt1 sp then sumN (firstN sizes nbTrain) else total in
  let testSize := if sp_lt1 sp then sumN (firstN (skipN sizes nbTrain) nbTest) else total in
  if (total <? minlen d) || (maxSamples <=? total) then None
  else if repaired && (trainSize <? minlen d) then None
  else if nbTrain <? 5 then None
  else if nbTest <? 1 then None
  else Some {| ci_nbTrain := nbTrain; ci_nbTest := nbTest; ci_trainSize := trainSize; ci_testSize := testSize;
               (* suffixSize / nbDmers = trainingSamplesSize - MAX(d, sizeof(U64)) + 1   in size_t arithmetic *)
               ci_nbDmers := wsz (wsz (trainSize + (SZMOD - wsz (minlen d))) + 1) |}.

Definition cover_ctx_init (repaired : bool) := ctx_init repaired t_COVER_MAX_SAMPLES_SIZE.
Definition fastcover_ctx_init (repaired : bool) := ctx_init repaired t_FASTCOVER_MAX_SAMPLES_SIZE.

(* nbFinalizeSamples = (unsigned)(nbTrainSamples * accelParams.finalize / 100) *)
Definition nb_finalize (nbTrain accel : N) : N :=
  w32 (nbTrain * fst (nth (N.to_nat accel) t_accel_table (0, 0)) / 100).

(* ------------------------------------------------------------------ COVER_computeEpochs (all U32) *)
(* None = the C code divides by zero *)
Definition compute_epochs (maxDict nbDmers k passes : N) : option (N * N) :=
  let minEpoch := w32 (k * 10) in
  if (k =? 0) || (passes =? 0) then None
  else
    let num := N.max 1 (maxDict / k / passes) in
    let size := nbDmers / num in
    if minEpoch <=? size then Some (num, size)
    else
      let size' := N.min minEpoch nbDmers in
      if size' =? 0 then None else Some (nbDmers / size', size').

(* what COVER_buildDictionary / FASTCOVER_buildDictionary pass:  (U32)dictBufferCapacity, (U32)nbDmers, k, passes *)
Definition build_epochs (capacity nbDmers k passes : N) : option (N * N) :=
  compute_epochs (w32 capacity) (w32 nbDmers) k passes.

(* ------------------------------------------------------------------ the optimisers' parameter grid *)
(* for (x = lo; x <= hi && x >= lo; x += step)  on an unsigned 32-bit x  (repaired = true; the pinned tree had
   only  x <= hi : finding F8).  None = not finished within the fuel. *)
Fixpoint u32_loop (repaired : bool) (fuel : nat) (lo x hi step : N) : option (list N) :=
  match fuel with
  | O => None
  | S f => if (hi <? x) || (repaired && (x <? lo)) then Some []
           else match u32_loop repaired f lo (w32 (x + step)) hi step with
                | Some l => Some (x :: l)
                | None => None
                end
  end.

Record grid := { g_ds : list N; g_ks : list N; g_steps : N; g_iterations : N }.

(* the constants at the head of ZDICT_optimizeTrainFromBuffer_cover / _fastCover and their entry checks;
   None = ERROR(parameter_outOfBound) from the "kMinK < kMaxD || kMaxK < kMinK" test.
   [fuel] bounds the two loops of the model (see opt_grid_terminates / opt_loop_never_exits_pinned). *)
Definition opt_grid (repaired : bool) (fuel : nat) (d k steps : N) : option (option grid) :=
  let kMinD := if d =? 0 then 6 else d in
  let kMaxD := if d =? 0 then 8 else d in
  let kMinK := if k =? 0 then 50 else k in
  let kMaxK := if k =? 0 then 2000 else k in
  let kSteps := if steps =? 0 then 40 else steps in
  let kStepSize := N.max ((kMaxK - kMinK) / kSteps) 1 in
  let kIterations := w32 ((1 + (kMaxD - kMinD) / 2) * (1 + (kMaxK - kMinK) / kStepSize)) in
  if (kMinK <? kMaxD) || (kMaxK <? kMinK) then Some None
  else match u32_loop repaired fuel kMinD kMinD kMaxD 2, u32_loop repaired fuel kMinK kMinK kMaxK kStepSize with
       | Some ds, Some ks => Some (Some {| g_ds := ds; g_ks := ks; g_steps := kSteps; g_iterations := kIterations |})
       | _, _ => None
       end.

(* the candidates actually started, in iteration order: d outer, k inner, those passing the parameter check *)
Definition grid_cover_jobs (g : grid) (maxDict : N) (sp : splitpoint) : list (N * N) :=
  flat_map (fun d => flat_map (fun k => if cover_check k d maxDict sp then [(d, k)] else []) (g_ks g)) (g_ds g).
Definition grid_fastcover_jobs (g : grid) (maxDict f accel : N) (sp : splitpoint) : list (N * N) :=
  flat_map (fun d => flat_map (fun k => if fastcover_check k d maxDict f accel sp then [(d, k)] else []) (g_ks g)) (g_ds g).

(* ------------------------------------------------------------------ entry of the two optimisers *)
(* what ZDICT_optimizeTrainFromBuffer_cover / _fastCover do before the first candidate runs:
   EntryErr = an error code is returned, EntryHang = the model's loops did not finish within the fuel,
   EntryJobs = the resolved steps / split point / f / accel and the candidates that will be started, in order.
   (repaired code: the d and k loops stop on wrap-around, and the fastCover optimiser validates f on entry -
   findings F8, F10) *)
Inductive entry :=
| EntryErr
| EntryHang
| EntryJobs (steps : N) (sp : splitpoint) (f accel : N) (jobs : list (N * N)).

Definition sp_dflt (num20 : N) : splitpoint := {| sp_num := Z.of_N num20; sp_sh := 20 |}.

Definition opt_entry_cover (fuel : nat) (d k steps : N) (sp : splitpoint) (nb capacity : N) : entry :=
  let sp' := if sp_pos sp then sp else sp_dflt t_COVER_DEFAULT_SPLITPOINT_num20 in
  if negb (sp_ok sp') then EntryErr
  else match opt_grid true fuel d k steps with
       | None => EntryHang
       | Some None => EntryErr
       | Some (Some g) =>
           if nb =? 0 then EntryErr
           else if capacity <? t_ZDICT_DICTSIZE_MIN then EntryErr
           else EntryJobs (g_steps g) sp' 0 0 (grid_cover_jobs g capacity sp')
       end.

Definition opt_entry_fast (fuel : nat) (d k steps : N) (sp : splitpoint) (f accel nb capacity : N) : entry :=
  let sp' := if sp_pos sp then sp else sp_dflt t_FASTCOVER_DEFAULT_SPLITPOINT_num20 in
  let f' := if f =? 0 then t_DEFAULT_F else f in
  let accel' := if accel =? 0 then t_DEFAULT_ACCEL else accel in
  if negb (sp_ok sp') then EntryErr
  else if (accel' =? 0) || (t_FASTCOVER_MAX_ACCEL <? accel') then EntryErr
  else if (f' =? 0) || (t_FASTCOVER_MAX_F <? f') then EntryErr
  else match opt_grid true fuel d k steps with
       | None => EntryHang
       | Some None => EntryErr
       | Some (Some g) =>
           if nb =? 0 then EntryErr
           else if capacity <? t_ZDICT_DICTSIZE_MIN then EntryErr
           else EntryJobs (g_steps g) sp' f' accel' (grid_fastcover_jobs g capacity f' accel' sp')
       end.
