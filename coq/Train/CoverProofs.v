(* C18 - proofs about Train/CoverParams.v *)
From Coq Require Import NArith ZArith List Bool Lia.
From ZV.Gen Require Import Gen_Train.
From ZV.Train Require Import CoverParams.
Import ListNotations.
Local Open Scope N_scope.
Ltac Zify.zify_post_hook ::= Z.div_mod_to_equations.

Lemma SZMOD_val : SZMOD = 18446744073709551616.
Proof. vm_compute. reflexivity. Qed.
Lemma U32MOD_val : U32MOD = 4294967296.
Proof. reflexivity. Qed.
Lemma sizeof_U64_val : t_sizeof_U64 = 8.
Proof. reflexivity. Qed.
Lemma max_samples_le : t_COVER_MAX_SAMPLES_SIZE <= U32MOD /\ t_FASTCOVER_MAX_SAMPLES_SIZE <= U32MOD.
Proof. split; vm_compute; discriminate. Qed.

(* ------------------------------------------------------------------ parameter checks *)
Definition sp_valid (sp : splitpoint) : Prop := (0 < sp_num sp <= 2 ^ Z.of_N (sp_sh sp))%Z.

Lemma sp_ok_iff sp : sp_ok sp = true <-> sp_valid sp.
Proof.
  unfold sp_ok, sp_pos, sp_le1, sp_valid. rewrite andb_true_iff, Z.ltb_lt, Z.leb_le. tauto.
Qed.

Lemma cover_check_iff k d maxDict sp :
  cover_check k d maxDict sp = true <-> (0 < d /\ d <= k /\ k <= maxDict /\ sp_valid sp).
Proof.
  unfold cover_check. rewrite <- sp_ok_iff.
  destruct (N.eqb_spec d 0); destruct (N.eqb_spec k 0); cbn [orb]; try (split; [discriminate | lia]).
  destruct (N.ltb_spec maxDict k); try (split; [discriminate | lia]).
  destruct (N.ltb_spec k d); try (split; [discriminate | lia]).
  split; [intros Hsp; repeat split; try lia; exact Hsp | intros (_ & _ & _ & Hsp); exact Hsp].
Qed.

Lemma cover_params_checked k d maxDict sp :
  cover_check k d maxDict sp = true -> 0 < d /\ d <= k /\ k <= maxDict /\ sp_valid sp.
Proof. apply cover_check_iff. Qed.

Lemma fastcover_check_iff k d maxDict f accel sp :
  fastcover_check k d maxDict f accel sp = true <->
  ((d = 6 \/ d = 8) /\ d <= k /\ k <= maxDict /\ 1 <= f <= t_FASTCOVER_MAX_F /\ sp_valid sp /\
   1 <= accel <= t_FASTCOVER_MAX_ACCEL).
Proof.
  unfold fastcover_check. rewrite <- sp_ok_iff.
  destruct (N.eqb_spec d 0); destruct (N.eqb_spec k 0); cbn [orb]; try (split; [discriminate | lia]).
  destruct (N.eqb_spec d 6); destruct (N.eqb_spec d 8); cbn [negb andb]; try (split; [discriminate | lia]).
  all: destruct (N.ltb_spec maxDict k); try (split; [discriminate | lia]).
  all: destruct (N.ltb_spec k d); try (split; [discriminate | lia]).
  all: destruct (N.ltb_spec t_FASTCOVER_MAX_F f); cbn [orb]; try (split; [discriminate | lia]).
  all: destruct (N.eqb_spec f 0); try (split; [discriminate | lia]).
  all: destruct (sp_ok sp) eqn:H5; cbn [negb]; try (split; [discriminate | intros (_ & _ & _ & _ & Hsp & _); discriminate]).
  all: destruct (N.ltb_spec t_FASTCOVER_MAX_ACCEL accel); cbn [orb]; try (split; [discriminate | lia]).
  all: destruct (N.eqb_spec accel 0); try (split; [discriminate | lia]).
  all: split; [intros _; repeat split; try lia; auto | reflexivity].
Qed.

Lemma fastcover_params_checked k d maxDict f accel sp :
  fastcover_check k d maxDict f accel sp = true ->
  (d = 6 \/ d = 8) /\ d <= k /\ k <= maxDict /\ 1 <= f <= t_FASTCOVER_MAX_F /\ sp_valid sp /\
  1 <= accel <= t_FASTCOVER_MAX_ACCEL.
Proof. apply fastcover_check_iff. Qed.

(* the accel value indexes FASTCOVER_defaultAccelParameters inside the table *)
Lemma accel_index_in_table accel :
  1 <= accel <= t_FASTCOVER_MAX_ACCEL -> (N.to_nat accel < length t_accel_table)%nat.
Proof.
  intros H. assert (Hl : length t_accel_table = N.to_nat (t_FASTCOVER_MAX_ACCEL + 1)) by reflexivity.
  rewrite Hl. lia.
Qed.

(* ------------------------------------------------------------------ epochs *)
Lemma minepoch_pos k : 1 <= k -> k < 2147483648 -> 1 <= w32 (k * 10).
Proof.
  intros H1 H2. unfold w32. rewrite U32MOD_val.
  destruct (N.eq_dec ((k * 10) mod 4294967296) 0) as [E | E];
    [| remember ((k * 10) mod 4294967296) as x; clear Heqx; lia].
  exfalso.
  assert (Hd : k * 10 = 4294967296 * (k * 10 / 4294967296) + (k * 10) mod 4294967296)
    by (apply N.div_mod; discriminate).
  rewrite E in Hd.
  remember (k * 10 / 4294967296) as q eqn:Hq.
  assert (q < 5) by (subst q; apply N.div_lt_upper_bound; lia).
  lia.
Qed.

Lemma epochs_positive maxDict nbDmers k passes :
  1 <= k -> 1 <= w32 (k * 10) -> 1 <= passes -> 1 <= nbDmers ->
  exists num size, compute_epochs maxDict nbDmers k passes = Some (num, size) /\
                   1 <= num /\ 1 <= size /\ num * size <= nbDmers.
Proof.
  intros Hk Hm Hp Hn. unfold compute_epochs.
  replace (k =? 0) with false by (symmetry; apply N.eqb_neq; lia).
  replace (passes =? 0) with false by (symmetry; apply N.eqb_neq; lia).
  cbn [orb].
  set (num := N.max 1 (maxDict / k / passes)).
  assert (Hnum : 1 <= num) by (unfold num; lia).
  destruct (w32 (k * 10) <=? nbDmers / num) eqn:E.
  - apply N.leb_le in E. exists num, (nbDmers / num). split; [reflexivity |].
    split; [exact Hnum |]. split; [lia |].
    pose proof (N.mul_div_le nbDmers num). lia.
  - apply N.leb_gt in E.
    set (size := N.min (w32 (k * 10)) nbDmers).
    assert (Hs : 1 <= size) by (unfold size; lia).
    replace (size =? 0) with false by (symmetry; apply N.eqb_neq; lia).
    exists (nbDmers / size), size. split; [reflexivity |].
    split.
    + apply N.div_le_lower_bound; [lia |]. unfold size. lia.
    + split; [exact Hs |]. pose proof (N.mul_div_le nbDmers size). lia.
Qed.

(* the hypothesis nbDmers >= 1 cannot be dropped: with no d-mer the C code divides by zero *)
Lemma epochs_needs_dmers maxDict k passes :
  1 <= k -> 1 <= w32 (k * 10) -> 1 <= passes -> compute_epochs maxDict 0 k passes = None.
Proof.
  intros Hk Hm Hp. unfold compute_epochs.
  replace (k =? 0) with false by (symmetry; apply N.eqb_neq; lia).
  replace (passes =? 0) with false by (symmetry; apply N.eqb_neq; lia).
  cbn [orb].
  rewrite N.div_0_l by lia.
  replace (w32 (k * 10) <=? 0) with false by (symmetry; apply N.leb_gt; lia).
  replace (N.min (w32 (k * 10)) 0) with 0 by lia.
  reflexivity.
Qed.

(* every epoch [e*size, e*size + size) lies inside [0, nbDmers) *)
Lemma epoch_in_bounds maxDict nbDmers k passes num size e :
  compute_epochs maxDict nbDmers k passes = Some (num, size) ->
  1 <= k -> 1 <= w32 (k * 10) -> 1 <= passes -> 1 <= nbDmers ->
  e < num -> e * size + size <= nbDmers.
Proof.
  intros H Hk Hm Hp Hn He.
  destruct (epochs_positive maxDict nbDmers k passes Hk Hm Hp Hn) as (num' & size' & H' & _ & _ & Hb).
  rewrite H in H'. injection H' as <- <-. nia.
Qed.

(* ------------------------------------------------------------------ ctx_init *)
Lemma sumN_acc l a : fold_left N.add l a = a + sumN l.
Proof.
  unfold sumN. revert a. induction l as [| x t IH]; intros a; cbn [fold_left].
  - lia.
  - rewrite IH, (IH (0 + x)). lia.
Qed.

Lemma sumN_cons x l : sumN (x :: l) = x + sumN l.
Proof. unfold sumN at 1. cbn [fold_left]. rewrite sumN_acc. lia. Qed.

Lemma sumN_firstN_le l n : sumN (firstN l n) <= sumN l.
Proof.
  revert n. induction l as [| x t IH]; intros n; cbn [firstN]; [lia |].
  destruct (n =? 0); [unfold sumN at 1; cbn [fold_left]; lia |].
  rewrite !sumN_cons. specialize (IH (N.pred n)). lia.
Qed.

Lemma nb_train_le nb sp : sp_lt1 sp = true -> nb_train nb sp <= nb.
Proof.
  intros H. unfold nb_train. rewrite H. unfold sp_lt1 in H. apply Z.ltb_lt in H.
  set (p := (2 ^ Z.of_N (sp_sh sp))%Z) in *.
  assert (Hp : (0 < p)%Z) by (unfold p; apply Z.pow_pos_nonneg; lia).
  destruct (Z_le_gt_dec (sp_num sp) 0) as [Hneg | Hpos].
  - assert ((Z.of_N nb * sp_num sp / p <= 0)%Z).
    { apply Z.div_le_upper_bound; [lia |]. nia. }
    lia.
  - assert ((Z.of_N nb * sp_num sp / p <= Z.of_N nb)%Z).
    { apply Z.div_le_upper_bound; [lia |]. nia. }
    lia.
Qed.

Lemma Some_inj {A} (a b : A) : Some a = Some b -> a = b.
Proof. congruence. Qed.

Lemma wsz_sub_add1 a b : b <= a -> a + 1 < SZMOD -> wsz (wsz (a + (SZMOD - wsz b)) + 1) = a - b + 1.
Proof.
  intros Hba Ha. unfold wsz. rewrite SZMOD_val in *.
  rewrite (N.mod_small b) by lia.
  replace (a + (18446744073709551616 - b)) with ((a - b) + 1 * 18446744073709551616) by lia.
  rewrite N.mod_add by discriminate.
  rewrite (N.mod_small (a - b)) by lia.
  apply N.mod_small. lia.
Qed.

Lemma ctx_init_guarantees_dmers maxSamples sizes d sp c :
  maxSamples <= U32MOD ->
  ctx_init true maxSamples sizes d sp = Some c ->
  1 <= ci_nbDmers c /\
  ci_nbDmers c + minlen d = ci_trainSize c + 1 /\
  ci_trainSize c <= sumN sizes /\ sumN sizes < maxSamples /\
  5 <= ci_nbTrain c /\ ci_nbTrain c <= lenN sizes /\ 1 <= ci_nbTest c /\ ci_nbTest c <= lenN sizes.
Proof.
  intros HM. unfold ctx_init.
  destruct ((sumN sizes <? minlen d) || (maxSamples <=? sumN sizes)) eqn:E1; [discriminate |].
  apply orb_false_iff in E1. destruct E1 as [E1 E1']. apply N.ltb_ge in E1. apply N.leb_gt in E1'.
  cbn [andb].
  set (tr := if sp_lt1 sp then sumN (firstN sizes (nb_train (lenN sizes) sp)) else sumN sizes).
  destruct (tr <? minlen d) eqn:E2; [discriminate |]. apply N.ltb_ge in E2.
  destruct (nb_train (lenN sizes) sp <? 5) eqn:E3; [discriminate |]. apply N.ltb_ge in E3.
  destruct (nb_test (lenN sizes) sp <? 1) eqn:E4; [discriminate |]. apply N.ltb_ge in E4.
  intros H. apply Some_inj in H. subst c. lazy beta iota delta [ci_nbDmers ci_trainSize ci_nbTrain ci_nbTest].
  assert (Htr : tr <= sumN sizes).
  { unfold tr. destruct (sp_lt1 sp); [apply sumN_firstN_le | lia]. }
  assert (Hml : minlen d <= tr) by exact E2.
  pose proof SZMOD_val as HSZ. pose proof U32MOD_val as HU32.
  rewrite wsz_sub_add1 by lia.
  assert (Hnt : nb_train (lenN sizes) sp <= lenN sizes).
  { destruct (sp_lt1 sp) eqn:El; [apply nb_train_le; exact El | unfold nb_train; rewrite El; lia]. }
  assert (Hnte : nb_test (lenN sizes) sp <= lenN sizes).
  { unfold nb_test. destruct (sp_lt1 sp); lia. }
  repeat split; try lia.
Qed.

(* the pinned code (no test of the training part): a sample set it accepts with ZERO d-mers, and one where
   the d-mer count wraps around to 2^64 - 1 (finding F7) *)
Lemma ctx_init_pinned_refuted :
  (exists c, fastcover_ctx_init false [1; 1; 1; 1; 1; 2; 100; 100] 8 {| sp_num := 3; sp_sh := 2 |} = Some c /\
             ci_nbDmers c = 0) /\
  (exists c, fastcover_ctx_init false [1; 1; 1; 1; 1; 1; 100; 100] 8 {| sp_num := 3; sp_sh := 2 |} = Some c /\
             ci_nbDmers c = SZMOD - 1) /\
  fastcover_ctx_init true [1; 1; 1; 1; 1; 2; 100; 100] 8 {| sp_num := 3; sp_sh := 2 |} = None /\
  fastcover_ctx_init true [1; 1; 1; 1; 1; 1; 100; 100] 8 {| sp_num := 3; sp_sh := 2 |} = None.
Proof.
  split; [| split; [| split]].
  - eexists. split; [vm_compute; reflexivity | vm_compute; reflexivity].
  - eexists. split; [vm_compute; reflexivity | vm_compute; reflexivity].
  - vm_compute. reflexivity.
  - vm_compute. reflexivity.
Qed.

(* the whole arithmetic chain of COVER_buildDictionary / FASTCOVER_buildDictionary after a successful
   (repaired) ctx_init: no division by zero, at least one epoch, and every position of every epoch is the
   start of MAX(d,8) bytes inside the training part of the samples buffer *)
Lemma build_epochs_safe maxSamples sizes d sp c capacity k passes :
  maxSamples <= U32MOD ->
  ctx_init true maxSamples sizes d sp = Some c ->
  1 <= k -> 1 <= w32 (k * 10) -> 1 <= passes ->
  exists num size,
    build_epochs capacity (ci_nbDmers c) k passes = Some (num, size) /\ 1 <= num /\ 1 <= size /\
    forall e pos, e < num -> e * size <= pos < e * size + size ->
                  pos < ci_nbDmers c /\ pos + minlen d <= ci_trainSize c /\ ci_trainSize c <= sumN sizes.
Proof.
  intros HM Hc Hk Hm Hp.
  destruct (ctx_init_guarantees_dmers _ _ _ _ _ HM Hc) as (H1 & H2 & H3 & H4 & _).
  assert (Hml : 8 <= minlen d) by (unfold minlen; rewrite sizeof_U64_val; lia).
  assert (Hsmall : ci_nbDmers c < U32MOD) by lia.
  unfold build_epochs. unfold w32 at 2. rewrite (N.mod_small (ci_nbDmers c)) by exact Hsmall.
  destruct (epochs_positive (w32 capacity) (ci_nbDmers c) k passes Hk Hm Hp H1) as (num & size & He & Hn & Hs & Hb).
  exists num, size. split; [exact He |]. split; [exact Hn |]. split; [exact Hs |].
  intros e pos Hlt Hpos.
  assert (e * size + size <= ci_nbDmers c) by nia.
  lia.
Qed.

(* ------------------------------------------------------------------ the optimisers' loops *)
Lemma u32_loop_spec rep fuel : forall lo x hi step,
  1 <= step -> lo <= x -> x <= hi -> hi + step < U32MOD ->
  (S (N.to_nat ((hi - x) / step)) < fuel)%nat ->
  exists l, u32_loop rep fuel lo x hi step = Some l /\
            length l = S (N.to_nat ((hi - x) / step)) /\
            forall i, (i < length l)%nat -> nth i l 0 = x + N.of_nat i * step.
Proof.
  induction fuel as [| f IH]; intros lo x hi step Hs Hlo Hx Hh Hf; [exfalso; exact (Nat.nlt_0_r _ Hf) |].
  cbn [u32_loop].
  replace (hi <? x) with false by (symmetry; apply N.ltb_ge; lia).
  replace (x <? lo) with false by (symmetry; apply N.ltb_ge; lia).
  rewrite andb_false_r. cbn [orb].
  unfold w32. rewrite N.mod_small by lia.
  destruct (N.le_gt_cases (x + step) hi) as [Hle | Hgt].
  - assert (Hq : (hi - x) / step = (hi - (x + step)) / step + 1).
    { replace (hi - x) with ((hi - (x + step)) + 1 * step) by lia.
      rewrite N.div_add by lia. reflexivity. }
    destruct (IH lo (x + step) hi step Hs) as (l & Hl & Hlen & Hnth); try lia.
    rewrite Hl. exists (x :: l). split; [reflexivity |]. split.
    + cbn [length]. rewrite Hlen, Hq. lia.
    + intros [| i] Hi; cbn [nth]; [lia |]. cbn [length] in Hi. rewrite Hnth by lia. lia.
  - assert (Hq : (hi - x) / step = 0) by (apply N.div_small; lia).
    destruct f as [| f']; [rewrite Hq in Hf; cbn in Hf; lia |].
    cbn [u32_loop]. replace (hi <? x + step) with true by (symmetry; apply N.ltb_lt; lia).
    cbn [orb].
    exists [x]. split; [reflexivity |]. split; [rewrite Hq; reflexivity |].
    intros [| i] Hi; cbn [nth length] in *; lia.
Qed.

(* the repaired loop when the increment wraps: the single value is visited once, then  x >= lo  fails *)
Lemma u32_loop_wrap fuel p step :
  p < U32MOD -> 1 <= step -> step <= p -> U32MOD <= p + step ->
  u32_loop true (S (S fuel)) p p p step = Some [p].
Proof.
  intros Hp Hs Hsp Hw. cbn [u32_loop].
  rewrite N.ltb_irrefl. cbn [andb orb].
  assert (Hx : w32 (p + step) = p + step - U32MOD).
  { unfold w32. remember (p + step - U32MOD) as r eqn:Hr.
    replace (p + step) with (r + 1 * U32MOD) by lia.
    rewrite N.mod_add by discriminate. apply N.mod_small. lia. }
  rewrite Hx.
  replace (p <? p + step - U32MOD) with false by (symmetry; apply N.ltb_ge; lia).
  replace (p + step - U32MOD <? p) with true by (symmetry; apply N.ltb_lt; lia).
  reflexivity.
Qed.

Lemma u32_loop_total lo hi step :
  1 <= step -> lo <= hi -> hi < U32MOD ->
  (hi + step < U32MOD \/ (lo = hi /\ step <= lo)) -> (hi - lo) / step < 2000 ->
  exists l, u32_loop true 2100 lo lo hi step = Some l /\ l <> [] /\ (length l <= 2000)%nat /\
            forall x, In x l -> lo <= x <= hi.
Proof.
  intros Hs Hlh Hhi Hc Hq.
  destruct (N.lt_ge_cases (hi + step) U32MOD) as [Hnw | Hw].
  - destruct (u32_loop_spec true 2100 lo lo hi step) as (l & Hl & Hlen & Hnth); try lia.
    exists l. split; [exact Hl |]. split; [intros ->; discriminate |]. split; [lia |].
    intros x Hx. apply (In_nth _ _ 0) in Hx. destruct Hx as (i & Hi & <-). rewrite Hnth by exact Hi.
    rewrite Hlen in Hi.
    assert (N.of_nat i <= (hi - lo) / step) by lia.
    pose proof (N.mul_div_le (hi - lo) step). nia.
  - destruct Hc as [Hc | [-> Hc]]; [lia |].
    exists [hi]. split; [apply (u32_loop_wrap 2098); lia |].
    split; [discriminate |]. split; [cbn; lia |]. intros x [<- | []]. lia.
Qed.

(* the pinned loop  for (x = lo; x <= hi; x += step)  with hi = UINT_MAX never exits: x <= hi holds for every
   unsigned x (finding F8: ZDICT_optimizeTrainFromBuffer_cover/_fastCover called with k = 0xFFFFFFFF) *)
Lemma opt_loop_never_exits_pinned fuel : forall lo x step,
  x < U32MOD -> u32_loop false fuel lo x (U32MOD - 1) step = None.
Proof.
  induction fuel as [| f IH]; intros lo x step Hx; [reflexivity |].
  cbn [u32_loop]. cbn [andb].
  replace (U32MOD - 1 <? x) with false by (symmetry; apply N.ltb_ge; rewrite U32MOD_val in *; lia).
  cbn [orb].
  rewrite IH; [reflexivity |]. unfold w32. apply N.mod_lt. discriminate.
Qed.

(* the two loops of a (repaired) optimiser end for EVERY parameter vector; the grid is non-empty and stays in
   the advertised ranges *)
Lemma opt_grid_terminates d k steps :
  d < U32MOD -> k < U32MOD -> steps < U32MOD ->
  exists r, opt_grid true 2100 d k steps = Some r /\
            match r with
            | None => (if k =? 0 then 50 else k) < (if d =? 0 then 8 else d)
            | Some g =>
                g_ds g <> [] /\ g_ks g <> [] /\
                (forall x, In x (g_ds g) -> if d =? 0 then 6 <= x <= 8 else x = d) /\
                (forall x, In x (g_ks g) -> if k =? 0 then 50 <= x <= 2000 else x = k)
            end.
Proof.
  intros Hd Hk Hst. unfold opt_grid.
  set (kMinD := if d =? 0 then 6 else d). set (kMaxD := if d =? 0 then 8 else d) in *.
  set (kMinK := if k =? 0 then 50 else k) in *. set (kMaxK := if k =? 0 then 2000 else k).
  set (kSteps := if steps =? 0 then 40 else steps).
  set (kStepSize := N.max ((kMaxK - kMinK) / kSteps) 1).
  assert (HkS : 1 <= kSteps) by (unfold kSteps; destruct (N.eqb_spec steps 0); lia).
  assert (HD : kMinD <= kMaxD /\ kMaxD < U32MOD /\ kMaxD - kMinD <= 2 /\
               (kMaxD + 2 < U32MOD \/ (kMinD = kMaxD /\ 2 <= kMinD))).
  { unfold kMinD, kMaxD. rewrite U32MOD_val in *. destruct (N.eqb_spec d 0); lia. }
  assert (HSz : 1 <= kStepSize /\ kStepSize <= N.max (kMaxK - kMinK) 1).
  { unfold kStepSize. split; [lia |].
    assert ((kMaxK - kMinK) / kSteps <= kMaxK - kMinK) by (apply N.div_le_upper_bound; [lia | nia]).
    lia. }
  assert (HK : kMinK <= kMaxK /\ kMaxK < U32MOD /\ kMaxK - kMinK <= 1950 /\
               (kMaxK + kStepSize < U32MOD \/ (kMinK = kMaxK /\ kStepSize <= kMinK))).
  { unfold kMinK, kMaxK in *. rewrite U32MOD_val in *. destruct (N.eqb_spec k 0); [lia |].
    replace (k - k) with 0 in HSz by lia. lia. }
  destruct (N.ltb_spec kMinK kMaxD) as [Hlt | Hge].
  { cbn [orb]. eexists. split; [reflexivity |]. exact Hlt. }
  replace (kMaxK <? kMinK) with false by (symmetry; apply N.ltb_ge; lia).
  cbn [orb].
  assert (HqD : (kMaxD - kMinD) / 2 < 2000).
  { apply N.le_lt_trans with 1; [apply N.div_le_upper_bound; lia | lia]. }
  assert (HqK : (kMaxK - kMinK) / kStepSize < 2000).
  { apply N.le_lt_trans with 1950; [apply N.div_le_upper_bound; [lia | nia] | lia]. }
  destruct (u32_loop_total kMinD kMaxD 2) as (ds & Hds & Hdne & _ & Hdin);
    [lia | lia | lia | lia | exact HqD |].
  destruct (u32_loop_total kMinK kMaxK kStepSize) as (ks & Hks & Hkne & _ & Hkin);
    [lia | lia | lia | lia | exact HqK |].
  rewrite Hds, Hks. eexists. split; [reflexivity |]. cbn [g_ds g_ks].
  split; [exact Hdne |]. split; [exact Hkne |]. split.
  - intros x Hx. apply Hdin in Hx. unfold kMinD, kMaxD in Hx. destruct (d =? 0); lia.
  - intros x Hx. apply Hkin in Hx. unfold kMinK, kMaxK in Hx. destruct (k =? 0); lia.
Qed.

(* ------------------------------------------------------------------ optimiser entry *)
Lemma grid_cover_jobs_checked g m sp d k :
  In (d, k) (grid_cover_jobs g m sp) -> cover_check k d m sp = true.
Proof.
  unfold grid_cover_jobs. intros H. apply in_flat_map in H. destruct H as (d' & _ & H).
  apply in_flat_map in H. destruct H as (k' & _ & H).
  destruct (cover_check k' d' m sp) eqn:E; [| destruct H].
  destruct H as [H | []]. injection H as <- <-. exact E.
Qed.

Lemma grid_fastcover_jobs_checked g m f accel sp d k :
  In (d, k) (grid_fastcover_jobs g m f accel sp) -> fastcover_check k d m f accel sp = true.
Proof.
  unfold grid_fastcover_jobs. intros H. apply in_flat_map in H. destruct H as (d' & _ & H).
  apply in_flat_map in H. destruct H as (k' & _ & H).
  destruct (fastcover_check k' d' m f accel sp) eqn:E; [| destruct H].
  destruct H as [H | []]. injection H as <- <-. exact E.
Qed.

(* every candidate an optimiser starts has passed the parameter check with the resolved values; the model's
   loops always finish (no EntryHang) *)
Lemma opt_entry_cover_checked d k steps sp nb capacity :
  d < U32MOD -> k < U32MOD -> steps < U32MOD ->
  opt_entry_cover 2100 d k steps sp nb capacity <> EntryHang /\
  forall steps' sp' f' accel' jobs,
    opt_entry_cover 2100 d k steps sp nb capacity = EntryJobs steps' sp' f' accel' jobs ->
    1 <= nb /\ t_ZDICT_DICTSIZE_MIN <= capacity /\ sp_valid sp' /\
    forall dj kj, In (dj, kj) jobs -> 0 < dj /\ dj <= kj /\ kj <= capacity.
Proof.
  intros Hd Hk Hs. unfold opt_entry_cover.
  destruct (opt_grid_terminates d k steps Hd Hk Hs) as (r & Hr & _). rewrite Hr.
  set (sp0 := if sp_pos sp then sp else sp_dflt t_COVER_DEFAULT_SPLITPOINT_num20).
  split.
  - destruct (sp_ok sp0); cbn [negb]; [| discriminate].
    destruct r as [g |]; [| discriminate].
    destruct (nb =? 0); [discriminate |]. destruct (capacity <? t_ZDICT_DICTSIZE_MIN); discriminate.
  - intros steps' sp' f' accel' jobs.
    destruct (sp_ok sp0) eqn:Eok; cbn [negb]; [| discriminate].
    destruct r as [g |]; [| discriminate].
    destruct (N.eqb_spec nb 0); [discriminate |].
    destruct (N.ltb_spec capacity t_ZDICT_DICTSIZE_MIN); [discriminate |].
    intros Heq. injection Heq as <- <- <- <- <-.
    split; [lia |]. split; [assumption |]. split; [apply sp_ok_iff; exact Eok |].
    intros dj kj Hin. apply grid_cover_jobs_checked in Hin. apply cover_check_iff in Hin. tauto.
Qed.

Lemma opt_entry_fast_checked d k steps sp f accel nb capacity :
  d < U32MOD -> k < U32MOD -> steps < U32MOD ->
  opt_entry_fast 2100 d k steps sp f accel nb capacity <> EntryHang /\
  forall steps' sp' f' accel' jobs,
    opt_entry_fast 2100 d k steps sp f accel nb capacity = EntryJobs steps' sp' f' accel' jobs ->
    1 <= nb /\ t_ZDICT_DICTSIZE_MIN <= capacity /\ sp_valid sp' /\
    1 <= f' <= t_FASTCOVER_MAX_F /\ 1 <= accel' <= t_FASTCOVER_MAX_ACCEL /\
    forall dj kj, In (dj, kj) jobs -> (dj = 6 \/ dj = 8) /\ dj <= kj /\ kj <= capacity.
Proof.
  intros Hd Hk Hs. unfold opt_entry_fast.
  destruct (opt_grid_terminates d k steps Hd Hk Hs) as (r & Hr & _). rewrite Hr.
  set (sp0 := if sp_pos sp then sp else sp_dflt t_FASTCOVER_DEFAULT_SPLITPOINT_num20).
  set (f0 := if f =? 0 then t_DEFAULT_F else f). set (a0 := if accel =? 0 then t_DEFAULT_ACCEL else accel).
  split.
  - destruct (sp_ok sp0); cbn [negb]; [| discriminate].
    destruct ((a0 =? 0) || (t_FASTCOVER_MAX_ACCEL <? a0)); [discriminate |].
    destruct ((f0 =? 0) || (t_FASTCOVER_MAX_F <? f0)); [discriminate |].
    destruct r as [g |]; [| discriminate].
    destruct (nb =? 0); [discriminate |]. destruct (capacity <? t_ZDICT_DICTSIZE_MIN); discriminate.
  - intros steps' sp' f' accel' jobs.
    destruct (sp_ok sp0) eqn:Eok; cbn [negb]; [| discriminate].
    destruct (N.eqb_spec a0 0); cbn [orb]; [discriminate |].
    destruct (N.ltb_spec t_FASTCOVER_MAX_ACCEL a0); [discriminate |].
    destruct (N.eqb_spec f0 0); cbn [orb]; [discriminate |].
    destruct (N.ltb_spec t_FASTCOVER_MAX_F f0); [discriminate |].
    destruct r as [g |]; [| discriminate].
    destruct (N.eqb_spec nb 0); [discriminate |].
    destruct (N.ltb_spec capacity t_ZDICT_DICTSIZE_MIN); [discriminate |].
    intros Heq. injection Heq as <- <- <- <- <-.
    split; [lia |]. split; [assumption |]. split; [apply sp_ok_iff; exact Eok |].
    split; [lia |]. split; [lia |].
    intros dj kj Hin. apply grid_fastcover_jobs_checked in Hin. apply fastcover_check_iff in Hin. tauto.
Qed.
