(* C18 - proofs about Train/ZdictModel.v *)
From Coq Require Import NArith ZArith List Bool Lia.
From ZV.Gen Require Import Gen_Train.
From ZV.Train Require Import ZdictModel.
Import ListNotations.
Local Open Scope N_scope.
Ltac Zify.zify_post_hook ::= Z.div_mod_to_equations.

Lemma SZMODz_val : SZMODz = 18446744073709551616.
Proof. vm_compute. reflexivity. Qed.

(* the regenerated constants the theorems rely on (re-checked against the current headers on every run) *)
Lemma consts_ok :
  t_HBUFFSIZE <= t_ZDICT_DICTSIZE_MIN /\ 8 <= t_HBUFFSIZE /\ 1 <= t_minContentSize /\
  t_minContentSize = 8 /\ t_ZSTD_MAGIC_DICTIONARY < 4294967296 /\
  8 + t_minContentSize <= t_ZDICT_DICTSIZE_MIN.
Proof. vm_compute. repeat split; discriminate. Qed.

(* ------------------------------------------------------------------ dictionary ID *)
Lemma compliant_id_range h : 32768 <= compliant_id h < 2147483648.
Proof.
  unfold compliant_id.
  assert (H : h mod (2147483648 - 32768) < 2147483648 - 32768) by (apply N.mod_lt; discriminate).
  remember (h mod (2147483648 - 32768)) as r eqn:Hr. clear Hr.
  rewrite N.mod_small by lia. lia.
Qed.

Lemma dictid_compliant param h :
  (param = 0 -> 32768 <= dict_id param h < 2147483648) /\
  (param <> 0 -> dict_id param h = param) /\
  (dict_id param h <> 0).
Proof.
  unfold dict_id. pose proof (compliant_id_range h) as Hc.
  destruct (N.eqb_spec param 0) as [E | E].
  - repeat split; intros; try lia.
  - repeat split; intros; try lia.
Qed.

(* ------------------------------------------------------------------ finalize: sizes *)
Lemma FinOk_inj a b c a' b' c' : FinOk a b c = FinOk a' b' c' -> a = a' /\ b = b' /\ c = c'.
Proof. intros H. injection H as -> -> ->. auto. Qed.
Lemma AddOk_inj a b c a' b' c' : AddOk a b c = AddOk a' b' c' -> a = a' /\ b = b' /\ c = c'.
Proof. intros H. injection H as -> -> ->. auto. Qed.
Lemma Some_inj' {A} (a b : A) : Some a = Some b -> a = b.
Proof. congruence. Qed.

Lemma finalize_size_accounting capacity contentSize e hSize padding content :
  capacity < SZMODz -> 8 + e <= t_HBUFFSIZE ->
  finalize_sizes capacity contentSize (Some e) = FinOk hSize padding content ->
  hSize = 8 + e /\
  hSize + padding + content <= capacity /\
  t_minContentSize <= padding + content /\
  content <= contentSize /\
  (padding = 0 \/ padding + content = t_minContentSize) /\
  (content = contentSize \/ hSize + padding + content = capacity \/ content + hSize = capacity) /\
  t_ZDICT_DICTSIZE_MIN <= capacity.
Proof.
  intros Hcap He. unfold finalize_sizes.
  destruct consts_ok as (C1 & C2 & C3 & C4 & _ & _).
  destruct (N.ltb_spec capacity contentSize) as [| H1]; [discriminate |].
  destruct (N.ltb_spec capacity t_ZDICT_DICTSIZE_MIN) as [| H2]; [discriminate |].
  assert (Hh : 8 + e <= capacity) by lia.
  assert (Hw : wszz (capacity + (SZMODz - wszz (8 + e))) = capacity - (8 + e)).
  { unfold wszz. rewrite SZMODz_val in *.
    rewrite (N.mod_small (8 + e)) by lia.
    remember (capacity - (8 + e)) as r eqn:Hr.
    replace (capacity + (18446744073709551616 - (8 + e))) with (r + 1 * 18446744073709551616) by lia.
    rewrite N.mod_add by discriminate. apply N.mod_small. lia. }
  rewrite Hw.
  destruct (N.ltb_spec capacity (8 + e + contentSize)) as [H3 | H3].
  - destruct (N.ltb_spec (capacity - (8 + e)) t_minContentSize) as [H4 | H4].
    + destruct (N.ltb_spec capacity (8 + e + t_minContentSize)) as [| H5]; [discriminate |].
      intros H. apply FinOk_inj in H. destruct H as (<- & <- & <-). repeat split; lia.
    + intros H. apply FinOk_inj in H. destruct H as (<- & <- & <-). repeat split; lia.
  - destruct (N.ltb_spec contentSize t_minContentSize) as [H4 | H4].
    + destruct (N.ltb_spec capacity (8 + e + t_minContentSize)) as [| H5]; [discriminate |].
      intros H. apply FinOk_inj in H. destruct H as (<- & <- & <-). repeat split; lia.
    + intros H. apply FinOk_inj in H. destruct H as (<- & <- & <-). repeat split; lia.
Qed.

(* finalize fails only for the documented reasons *)
Lemma finalize_error_reasons capacity contentSize e :
  capacity < SZMODz -> 8 + e <= t_HBUFFSIZE ->
  finalize_sizes capacity contentSize (Some e) = FinErr ->
  capacity < contentSize \/ capacity < t_ZDICT_DICTSIZE_MIN \/ capacity < 8 + e + t_minContentSize.
Proof.
  intros Hcap He. unfold finalize_sizes.
  destruct consts_ok as (C1 & C2 & C3 & C4 & _ & _).
  destruct (N.ltb_spec capacity contentSize) as [| H1]; [lia |].
  destruct (N.ltb_spec capacity t_ZDICT_DICTSIZE_MIN) as [| H2]; [lia |].
  destruct (capacity <? 8 + e + contentSize);
    match goal with |- context [?a <? t_minContentSize] => destruct (a <? t_minContentSize) end;
    try discriminate;
    destruct (N.ltb_spec capacity (8 + e + t_minContentSize)); try discriminate; lia.
Qed.

(* ------------------------------------------------------------------ finalize: bytes *)
Lemma le32_length v : length (le32 v) = 4%nat.
Proof. reflexivity. Qed.

Lemma rd32_le32 v rest : v < 4294967296 -> rd32 (le32 v ++ rest) = v.
Proof.
  intros Hv. unfold le32, rd32. cbn [app].
  pose proof (N.div_mod v 256) as E1. pose proof (N.div_mod (v / 256) 256) as E2.
  pose proof (N.div_mod (v / 256 / 256) 256) as E3.
  assert (A1 : v / 65536 = v / 256 / 256) by (rewrite N.div_div by discriminate; reflexivity).
  assert (A2 : v / 16777216 = v / 256 / 256 / 256) by (rewrite !N.div_div by discriminate; reflexivity).
  rewrite A1, A2.
  assert (B : v / 256 / 256 / 256 < 256).
  { rewrite !N.div_div by discriminate. apply N.div_lt_upper_bound; [discriminate | exact Hv]. }
  rewrite (N.mod_small (v / 256 / 256 / 256)) by exact B.
  specialize (E1 ltac:(discriminate)). specialize (E2 ltac:(discriminate)). specialize (E3 ltac:(discriminate)).
  remember (v mod 256) as m0. remember (v / 256) as q0.
  remember (q0 mod 256) as m1. remember (q0 / 256) as q1.
  remember (q1 mod 256) as m2. remember (q1 / 256) as q2.
  lia.
Qed.

Lemma lenNz_app {A} (a b : list A) : lenNz (a ++ b) = lenNz a + lenNz b.
Proof. unfold lenNz. rewrite app_length. lia. Qed.

Lemma zerosN_length n : length (zerosN n) = n.
Proof. induction n; cbn; [reflexivity | rewrite IHn; reflexivity]. Qed.

Lemma firstNz_length {A} (l : list A) n : n <= lenNz l -> lenNz (firstNz l n) = n.
Proof.
  revert n. induction l as [| x t IH]; intros n Hn; cbn [firstNz].
  - unfold lenNz in *. cbn in *. lia.
  - destruct (N.eqb_spec n 0) as [-> | Hne]; [reflexivity |].
    unfold lenNz in *. cbn [length] in *. rewrite Nat2N.inj_succ in *.
    specialize (IH (N.pred n)). lia.
Qed.

Lemma zerosN_all_zero n x : In x (zerosN n) -> x = 0.
Proof. induction n; cbn; [tauto | intros [<- | H]; auto]. Qed.

(* the dictionary written by ZDICT_finalizeDictionary: size within capacity, magic | id | entropy | zero
   padding | a prefix of the custom content, at least minContentSize bytes after the header, and the ID read
   back by ZDICT_getDictID is the one the ID rule prescribes (non-zero) *)
Lemma finalize_layout capacity content entropy idParam hash bytes :
  capacity < SZMODz -> 8 + lenNz entropy <= t_HBUFFSIZE -> idParam < 4294967296 ->
  finalize_bytes capacity content (Some entropy) idParam hash = Some bytes ->
  exists padding kept,
    bytes = le32 t_ZSTD_MAGIC_DICTIONARY ++ le32 (dict_id idParam hash) ++ entropy ++
            zerosN (N.to_nat padding) ++ firstNz content kept /\
    lenNz bytes = 8 + lenNz entropy + padding + kept /\
    lenNz bytes <= capacity /\
    kept <= lenNz content /\
    t_minContentSize <= padding + kept /\
    get_dict_id bytes = dict_id idParam hash /\
    get_dict_id bytes <> 0.
Proof.
  intros Hcap He Hid. unfold finalize_bytes. cbn [option_map].
  destruct (finalize_sizes capacity (lenNz content) (Some (lenNz entropy))) as [| h p c] eqn:Hf; [discriminate |].
  intros H. apply Some_inj' in H. subst bytes.
  destruct (finalize_size_accounting _ _ _ _ _ _ Hcap He Hf) as (Hh & Hsum & Hmin & Hc & _ & _ & _).
  exists p, c.
  assert (Hlen : lenNz (le32 t_ZSTD_MAGIC_DICTIONARY ++ le32 (dict_id idParam hash) ++ entropy ++
                        zerosN (N.to_nat p) ++ firstNz content c) = 8 + lenNz entropy + p + c).
  { rewrite !lenNz_app. rewrite (firstNz_length content c Hc).
    unfold lenNz at 1 2 4. rewrite !le32_length, zerosN_length. lia. }
  assert (Hidr : dict_id idParam hash < 4294967296).
  { destruct (dictid_compliant idParam hash) as (H1 & H2 & _).
    destruct (N.eq_dec idParam 0) as [E | E]; [specialize (H1 E); lia | rewrite (H2 E); exact Hid]. }
  assert (Hget : get_dict_id (le32 t_ZSTD_MAGIC_DICTIONARY ++ le32 (dict_id idParam hash) ++ entropy ++
                              zerosN (N.to_nat p) ++ firstNz content c) = dict_id idParam hash).
  { unfold get_dict_id. rewrite Hlen.
    replace (8 + lenNz entropy + p + c <? 8) with false by (symmetry; apply N.ltb_ge; lia).
    destruct consts_ok as (_ & _ & _ & _ & Cm & _).
    rewrite (rd32_le32 _ _ Cm). rewrite N.eqb_refl. cbn [negb].
    change (skipn 4 (le32 t_ZSTD_MAGIC_DICTIONARY ++ ?r)) with r.
    apply rd32_le32. exact Hidr. }
  split; [reflexivity |]. split; [exact Hlen |]. split; [lia |]. split; [exact Hc |]. split; [exact Hmin |].
  split; [exact Hget |]. rewrite Hget. apply dictid_compliant.
Qed.

(* ------------------------------------------------------------------ addEntropyTables (repaired code) *)
Lemma add_entropy_accounting capacity contentSize e dictSize hSize moved :
  capacity < SZMODz ->
  add_entropy_sizes capacity contentSize (Some e) = AddOk dictSize hSize moved ->
  add_entropy_maxdst capacity = capacity - 8 /\       (* the size handed to ZDICT_analyzeEntropy did not wrap *)
  contentSize <= capacity /\
  hSize = 8 + e /\
  dictSize <= capacity /\
  t_minContentSize <= dictSize - hSize /\ hSize <= dictSize /\
  dictSize - hSize <= contentSize.
Proof.
  intros Hcap. unfold add_entropy_sizes, add_entropy_precheck.
  destruct consts_ok as (_ & _ & C3 & C4 & _ & _).
  destruct (N.ltb_spec capacity contentSize) as [| H1]; [discriminate |].
  destruct (N.ltb_spec capacity (8 + t_minContentSize)) as [| H2]; [discriminate |].
  cbn [orb].
  destruct (N.ltb_spec capacity (8 + e + t_minContentSize)) as [| H3]; [discriminate |].
  destruct (N.ltb_spec contentSize t_minContentSize) as [| H4]; [discriminate |].
  intros H. apply AddOk_inj in H. destruct H as (<- & <- & <-).
  split.
  { unfold add_entropy_maxdst, wszz. rewrite SZMODz_val in *.
    remember (capacity - 8) as r eqn:Hr.
    replace (capacity + (18446744073709551616 - 8)) with (r + 1 * 18446744073709551616) by lia.
    rewrite N.mod_add by discriminate. apply N.mod_small. lia. }
  repeat split; lia.
Qed.

(* what the pinned code returned: a "success" whose content is shorter than the largest repeat offset,
   which no loader accepts (finding F9); the repaired model refuses it *)
Lemma add_entropy_pinned_refuted :
  N.min 140 (8 + 132 + 100) - (8 + 132) < t_minContentSize /\
  add_entropy_sizes 140 100 (Some 132) = AddErr /\
  add_entropy_sizes 7 4 (Some 0) = AddErr.
Proof. vm_compute. repeat split; reflexivity. Qed.

(* ------------------------------------------------------------------ legacy gates *)
Lemma legacy_gate_proceed total capacity :
  legacy_gate total capacity = GateProceed ->
  t_ZDICT_MIN_SAMPLES_SIZE <= total /\ t_ZDICT_DICTSIZE_MIN <= capacity.
Proof.
  unfold legacy_gate.
  destruct (N.ltb_spec total t_ZDICT_MIN_SAMPLES_SIZE); [discriminate |].
  destruct (N.ltb_spec capacity t_ZDICT_DICTSIZE_MIN); [discriminate |]. intros _. lia.
Qed.
