(* C18 round 3 - size arithmetic at the top of the integer types (NO proofs in this file).

   Three places of lib/dictBuilder where a size is narrowed or a limit is applied, each next to a finding of the
   third wave.  The models follow the REPAIRED code (fix commits f135f24, 6b1809d, 3e4461e); the pinned behaviour is
   kept as the parameter [fixed = false] so that the witnesses of the defects stay theorems.

   1. ZDICT_trainFromBuffer_legacy / ZDICT_trainBuffer_legacy: the sample set is cut down to ZDICT_MAX_SAMPLES_SIZE
      (whole trailing samples are dropped), the samples are copied, the 32-byte noise guard band is written behind the
      copy, and the suffix analysis points its two sentinels at buffer + bufferSize ("leads into noise").
   2. ZDICT_analyzeEntropy: offcodeMax = highbit32(dictBufferSize + 128 KB), "too large" above OFFCODE_MAX.
   3. COVER_ctx_init / FASTCOVER_ctx_init: the offsets table has nbSamples + 1 entries. *)
From Coq Require Import NArith List Bool.
From ZV.Gen Require Import Gen_Train.
Import ListNotations.
Local Open Scope N_scope.

Definition SZ : N := 2 ^ (8 * t_sizeof_size_t).          (* size_t modulus *)
Definition U32M : N := 2 ^ (8 * t_sizeof_unsigned).       (* unsigned / U32 modulus *)
Definition sum3 (l : list N) : N := fold_right N.add 0 l.
Definition lenN3 {A} (l : list A) : N := N.of_nat (length l).
(* a - b in size_t arithmetic (a, b < SZ) *)
Definition wsub (a b : N) : N := (a + SZ - b mod SZ) mod SZ.

(* ------------------------------------------------------------------ 1. the legacy trainer's sample-set limit *)
(* while (sBuffSize > ZDICT_MAX_SAMPLES_SIZE) sBuffSize -= samplesSizes[--nbSamples];
   state = (current total, sizes still kept, LAST sample first).  Stepping below sample 0 (--nbSamples on 0) is [None]. *)
Fixpoint drop_tail (maxS total : N) (rev_sizes : list N) : option (N * list N) :=
  match rev_sizes with
  | [] => if total <=? maxS then Some (total, []) else None
  | s :: r => if total <=? maxS then Some (total, rev_sizes) else drop_tail maxS (wsub total s) r
  end.

(* LgPlan copy analysed nb :
     copy     = bytes copied into newBuff; the guard band is written at newBuff + copy
     analysed = bufferSize of the suffix analysis: suffix[bufferSize] = suffix0[0] = bufferSize point at newBuff + analysed
     nb       = samples that take part                                                                               *)
Inductive legacy_res := LgNoDict | LgTrap | LgPlan (copy analysed nb : N).

(* [maxS] = ZDICT_MAX_SAMPLES_SIZE (a parameter: the quick tier runs the real code with the constant scaled down) *)
Definition legacy_plan_at (maxS : N) (fixed : bool) (sizes : list N) : legacy_res :=
  let total := sum3 sizes mod SZ in                       (* ZDICT_totalSampleSize *)
  if fixed then
    (* f135f24: the reduction runs in ZDICT_trainFromBuffer_legacy, before the copy *)
    match drop_tail maxS total (rev sizes) with
    | None => LgTrap
    | Some (kept, rk) =>
        if kept <? t_ZDICT_MIN_SAMPLES_SIZE then LgNoDict
        else match drop_tail maxS kept rk with      (* the loop of ZDICT_trainBuffer_legacy is still there *)
             | None => LgTrap
             | Some (an, rk2) => LgPlan kept an (lenN3 rk2)
             end
    end
  else
    if total <? t_ZDICT_MIN_SAMPLES_SIZE then LgNoDict
    else match drop_tail maxS total (rev sizes) with
         | None => LgTrap
         | Some (an, rk) => LgPlan total an (lenN3 rk)
         end.
Definition legacy_plan := legacy_plan_at t_ZDICT_MAX_SAMPLES_SIZE.

(* ------------------------------------------------------------------ 2. offcodeMax of ZDICT_analyzeEntropy *)
(* OcTrap = ZSTD_highbit32(0) (clz of 0: undefined);  OcTooLarge = "too large dictionary" (dictionaryCreation_failed) *)
Inductive oc_res := OcTrap | OcTooLarge | OcOk (m : N).

Definition highbit32 (v : N) : oc_res := if v =? 0 then OcTrap else OcOk (N.log2 v).

Definition offcode_max (fixed : bool) (dictSize : N) : oc_res :=
  let mo := (dictSize + t_entropy_window_slack) mod SZ in             (* size_t maxOffset = dictBufferSize + 128 KB *)
  if fixed then
    (* 6b1809d: ((maxOffset >= dictBufferSize) && ((maxOffset >> (OFFCODE_MAX+1)) == 0)) ? highbit32((U32)maxOffset) : OFFCODE_MAX+1 *)
    if (dictSize <=? mo) && (mo / 2 ^ (t_OFFCODE_MAX + 1) =? 0) then highbit32 (mo mod U32M) else OcTooLarge
  else
    (* pinned: U32 offcodeMax = ZSTD_highbit32((U32)(dictBufferSize + 128 KB)); if (offcodeMax>OFFCODE_MAX) error *)
    match highbit32 (mo mod U32M) with
    | OcOk m => if t_OFFCODE_MAX <? m then OcTooLarge else OcOk m
    | r => r
    end.

(* ------------------------------------------------------------------ 3. the offsets table of the cover trainers *)
(* bytes requested for ctx->offsets : (nbSamples + 1) entries of sizeof(size_t);
   3e4461e computes the count in size_t, the pinned code in unsigned                                               *)
Definition offsets_alloc (fixed : bool) (nb : N) : N :=
  let count := if fixed then (nb + 1) mod SZ else (nb + 1) mod U32M in
  (count * t_sizeof_size_t) mod SZ.
(* bytes written by "offsets[0] = 0; for (i = 1; i <= nbSamples; ++i) offsets[i] = ..." *)
Definition offsets_written (nb : N) : N := (nb + 1) * t_sizeof_size_t.
(* the fill loop's counter: U32 in the pinned code (i <= nbSamples can never fail for nbSamples = 2^32-1), size_t now.
   [fill_last fixed nb] = Some i: the loop stops with counter value i; None: it cannot stop                         *)
Definition fill_last (fixed : bool) (nb : N) : option N :=
  if fixed then Some (nb + 1) else if nb + 1 <? U32M then Some (nb + 1) else None.
