(* C18 - proofs about Train/BestModel.v : the retained candidate is a minimum under every completion order,
   the first minimum under the sequential order, and COVER_best_wait returns only when every job is done. *)
From Coq Require Import NArith ZArith List Bool Lia Permutation PeanoNat.
From ZV.Gen Require Import Gen_Train.
From ZV.Train Require Import BestModel.
Import ListNotations.
Local Open Scope N_scope.

Lemma SZMODb_val : SZMODb = 18446744073709551616.
Proof. vm_compute. reflexivity. Qed.

Definition validj (j : nat * cand) : Prop := c_hasdict (snd j) = true.
Definition same_choice (a b : best) : Prop :=
  b_csize a = b_csize b /\ b_who a = b_who b /\ b_dsize a = b_dsize b.

Lemma same_choice_refl a : same_choice a a.
Proof. repeat split. Qed.
Lemma same_choice_trans a b c : same_choice a b -> same_choice b c -> same_choice a c.
Proof. intros (A & B & C) (D & E & F). repeat split; congruence. Qed.
Lemma same_choice_sym a b : same_choice a b -> same_choice b a.
Proof. intros (A & B & C). repeat split; congruence. Qed.

Lemma run_finishes_snoc l x b : run_finishes (l ++ [x]) b = best_finish (run_finishes l b) x.
Proof. unfold run_finishes. rewrite fold_left_app. reflexivity. Qed.

Lemma best_finish_same a b j : same_choice a b -> same_choice (best_finish a j) (best_finish b j).
Proof.
  intros (A & B & C). unfold best_finish. rewrite A.
  destruct ((c_csize (snd j) <? b_csize b) && c_hasdict (snd j)); repeat split; cbn; auto.
Qed.

Lemma best_start_same a b : same_choice a b -> same_choice (best_start a) b.
Proof. intros (A & B & C). repeat split; cbn; auto. Qed.

Lemma run_finishes_same l : forall a b, same_choice a b -> same_choice (run_finishes l a) (run_finishes l b).
Proof.
  induction l as [| x t IH]; intros a b H; [exact H |].
  cbn [run_finishes fold_left]. apply IH. apply best_finish_same. exact H.
Qed.

(* ------------------------------------------------------------------ the fold keeps a minimum; first minimum *)
(* position-aware invariant (also gives the order-insensitive facts) *)
Definition chosen (b0 : best) (l : list (nat * cand)) (b : best) : Prop :=
  (same_choice b b0 /\ forall j, In j l -> validj j -> b_csize b0 <= c_csize (snd j))
  \/
  (exists l1 i c l2,
      l = l1 ++ (i, c) :: l2 /\ c_hasdict c = true /\
      b_who b = Some i /\ b_csize b = c_csize c /\ b_dsize b = c_dsize c /\
      c_csize c < b_csize b0 /\
      (forall j, In j l1 -> validj j -> c_csize c < c_csize (snd j)) /\
      (forall j, In j l2 -> validj j -> c_csize c <= c_csize (snd j))).

Lemma run_finishes_chosen b0 l : chosen b0 l (run_finishes l b0).
Proof.
  induction l as [| x l IH] using rev_ind.
  - left. split; [apply same_choice_refl | intros j []].
  - rewrite run_finishes_snoc. set (b := run_finishes l b0) in *.
    unfold best_finish.
    destruct (N.ltb_spec (c_csize (snd x)) (b_csize b)) as [Hlt | Hge];
      destruct (c_hasdict (snd x)) eqn:Hv; cbn [andb].
    + (* x becomes the retained candidate *)
      right. exists l, (fst x), (snd x), []. cbn [b_who b_csize b_dsize].
      split; [destruct x; reflexivity |]. split; [exact Hv |].
      split; [reflexivity |]. split; [reflexivity |]. split; [reflexivity |].
      destruct IH as [(Hs & Hall) | (l1 & i & c & l2 & -> & Hc & Hw & Hcs & Hds & Hlt0 & H1 & H2)].
      * destruct Hs as (Hs1 & _). split; [lia |]. split; [| intros j []].
        intros j Hj Hvj. specialize (Hall j Hj Hvj). lia.
      * split; [lia |]. split; [| intros j []].
        intros j Hj Hvj. apply in_app_or in Hj. destruct Hj as [Hj | [<- | Hj]].
        -- specialize (H1 j Hj Hvj). lia.
        -- cbn [snd]. lia.
        -- specialize (H2 j Hj Hvj). lia.
    + (* smaller but without a dictionary (an error selection): nothing is saved *)
      destruct IH as [(Hs & Hall) | (l1 & i & c & l2 & -> & Hc & Hw & Hcs & Hds & Hlt0 & H1 & H2)].
      * left. split; [exact Hs |]. intros j Hj Hvj. apply in_app_or in Hj. destruct Hj as [Hj | [<- | []]].
        -- apply Hall; assumption.
        -- unfold validj in Hvj. congruence.
      * right. exists l1, i, c, (l2 ++ [x]). cbn [b_who b_csize b_dsize].
        split; [rewrite <- app_assoc; reflexivity |]. repeat (split; [assumption |]).
        intros j Hj Hvj. apply in_app_or in Hj. destruct Hj as [Hj | [<- | []]].
        -- apply H2; assumption.
        -- unfold validj in Hvj. congruence.
    + destruct IH as [(Hs & Hall) | (l1 & i & c & l2 & -> & Hc & Hw & Hcs & Hds & Hlt0 & H1 & H2)].
      * left. split; [exact Hs |]. intros j Hj Hvj. apply in_app_or in Hj. destruct Hj as [Hj | [<- | []]].
        -- apply Hall; assumption.
        -- destruct Hs as (Hs1 & _). lia.
      * right. exists l1, i, c, (l2 ++ [x]). cbn [b_who b_csize b_dsize].
        split; [rewrite <- app_assoc; reflexivity |]. repeat (split; [assumption |]).
        intros j Hj Hvj. apply in_app_or in Hj. destruct Hj as [Hj | [<- | []]].
        -- apply H2; assumption.
        -- lia.
    + destruct IH as [(Hs & Hall) | (l1 & i & c & l2 & -> & Hc & Hw & Hcs & Hds & Hlt0 & H1 & H2)].
      * left. split; [exact Hs |]. intros j Hj Hvj. apply in_app_or in Hj. destruct Hj as [Hj | [<- | []]].
        -- apply Hall; assumption.
        -- unfold validj in Hvj. congruence.
      * right. exists l1, i, c, (l2 ++ [x]). cbn [b_who b_csize b_dsize].
        split; [rewrite <- app_assoc; reflexivity |]. repeat (split; [assumption |]).
        intros j Hj Hvj. apply in_app_or in Hj. destruct Hj as [Hj | [<- | []]].
        -- apply H2; assumption.
        -- unfold validj in Hvj. congruence.
Qed.

(* order-insensitive summary of [chosen] *)
Definition is_minimum (b0 : best) (l : list (nat * cand)) (b : best) : Prop :=
  b_csize b <= b_csize b0 /\
  (forall j, In j l -> validj j -> b_csize b <= c_csize (snd j)) /\
  (same_choice b b0 \/
   exists j, In j l /\ validj j /\ b_who b = Some (fst j) /\ b_csize b = c_csize (snd j) /\
             b_dsize b = c_dsize (snd j) /\ c_csize (snd j) < b_csize b0).

Lemma chosen_is_minimum b0 l b : chosen b0 l b -> is_minimum b0 l b.
Proof.
  intros [(Hs & Hall) | (l1 & i & c & l2 & -> & Hc & Hw & Hcs & Hds & Hlt0 & H1 & H2)].
  - destruct Hs as (Hs1 & Hs2 & Hs3). split; [lia |]. split.
    + intros j Hj Hvj. specialize (Hall j Hj Hvj). lia.
    + left. repeat split; assumption.
  - split; [lia |]. split.
    + intros j Hj Hvj. apply in_app_or in Hj. destruct Hj as [Hj | [<- | Hj]].
      * specialize (H1 j Hj Hvj). lia.
      * cbn [snd]. lia.
      * specialize (H2 j Hj Hvj). lia.
    + right. exists (i, c). cbn [fst snd]. split; [apply in_or_app; right; left; reflexivity |].
      repeat (split; [assumption |]). lia.
Qed.

(* best_is_a_minimum: whatever the completion order l' of the candidate jobs l *)
Lemma best_is_a_minimum b0 l l' :
  Permutation l l' -> is_minimum b0 l (run_finishes l' b0).
Proof.
  intros HP. pose proof (chosen_is_minimum _ _ _ (run_finishes_chosen b0 l')) as (H1 & H2 & H3).
  split; [exact H1 |]. split.
  - intros j Hj. apply H2. eapply Permutation_in; eassumption.
  - destruct H3 as [H3 | (j & Hj & Hr)]; [left; exact H3 |].
    right. exists j. split; [eapply Permutation_in; [apply Permutation_sym; eassumption | exact Hj] | exact Hr].
Qed.

(* the retained compressed size does not depend on the completion order at all *)
Lemma best_csize_order_independent b0 l l' :
  Permutation l l' -> b_csize (run_finishes l b0) = b_csize (run_finishes l' b0).
Proof.
  intros HP.
  pose proof (best_is_a_minimum b0 l l (Permutation_refl l)) as (A1 & A2 & A3).
  pose proof (best_is_a_minimum b0 l l' HP) as (B1 & B2 & B3).
  apply N.le_antisymm.
  - destruct B3 as [(E & _) | (j & Hj & Hv & _ & E & _)]; [lia |]. rewrite E. apply A2; assumption.
  - destruct A3 as [(E & _) | (j & Hj & Hv & _ & E & _)]; [lia |]. rewrite E. apply B2; assumption.
Qed.

(* best_deterministic: jobs completing in iteration order => the FIRST minimal candidate is retained *)
Lemma best_deterministic b0 l : chosen b0 l (run_finishes l b0).
Proof. apply run_finishes_chosen. Qed.

(* ------------------------------------------------------------------ sequential run (no pool) *)
Lemma run_sequential_same cs :
  same_choice (run_sequential cs) (run_finishes (indexed cs) best_init) /\ b_live (run_sequential cs) = 0.
Proof.
  unfold run_sequential, run_finishes.
  assert (G : forall l a b, same_choice a b -> b_live a = 0 ->
              same_choice (fold_left (fun b j => best_finish (best_start b) j) l a) (fold_left best_finish l b) /\
              b_live (fold_left (fun b j => best_finish (best_start b) j) l a) = 0).
  { induction l as [| x t IH]; intros a b Hs Hl; [split; assumption |].
    cbn [fold_left]. apply IH.
    - apply best_finish_same. apply best_start_same. exact Hs.
    - unfold best_finish, best_start. cbn [b_live].
      assert (E : (((b_live a + 1) mod SZMODb) + (SZMODb - 1)) mod SZMODb = 0).
      { rewrite Hl, SZMODb_val. reflexivity. }
      destruct ((c_csize (snd x) <? _) && c_hasdict (snd x)); cbn [b_live]; exact E. }
  apply G; [apply same_choice_refl | reflexivity].
Qed.

(* ------------------------------------------------------------------ schedules *)
Definition pair_ok (cs : list cand) (j : nat * cand) : Prop := nth_error cs (fst j) = Some (snd j).

Record inv (cs : list cand) (b0 : best) (s : sys) : Prop := {
  i_started : s_started s = seq 0 (length (s_started s));
  i_len : (length (s_started s) <= length cs)%nat;
  i_nodup : NoDup (s_finished s);
  i_incl : incl (s_finished s) (s_started s);
  i_live : b_live (s_best s) = N.of_nat (length (s_started s)) - N.of_nat (length (s_finished s));
  i_hist : exists fl, map fst fl = s_finished s /\ Forall (pair_ok cs) fl /\
                      same_choice (s_best s) (run_finishes fl b0);
  i_ret : s_returned s = true -> length (s_finished s) = length cs
}.

Lemma memb_true_iff i l : memb i l = true <-> In i l.
Proof.
  unfold memb. rewrite existsb_exists. split.
  - intros (x & Hx & E). apply Nat.eqb_eq in E. subst. exact Hx.
  - intros H. exists i. split; [exact H | apply Nat.eqb_refl].
Qed.

Lemma finished_le_started cs b0 s : inv cs b0 s -> (length (s_finished s) <= length (s_started s))%nat.
Proof. intros I. apply NoDup_incl_length; [apply (i_nodup _ _ _ I) | apply (i_incl _ _ _ I)]. Qed.

Lemma inv_init cs b0 : b_live b0 = 0 -> inv cs b0 (sys_init b0).
Proof.
  intros Hl. constructor; cbn [sys_init s_started s_finished s_best s_returned length].
  - reflexivity.
  - lia.
  - constructor.
  - intros x [].
  - rewrite Hl. reflexivity.
  - exists []. split; [reflexivity |]. split; [constructor | apply same_choice_refl].
  - discriminate.
Qed.

Lemma NoDup_app_snoc {A} (l : list A) x : NoDup l -> ~ In x l -> NoDup (l ++ [x]).
Proof.
  intros H1 H2. apply (Permutation_NoDup (Permutation_cons_append l x)). constructor; assumption.
Qed.

Lemma inv_step cs b0 s e s' :
  N.of_nat (length cs) < SZMODb ->
  inv cs b0 s -> step cs s e = Some s' -> inv cs b0 s'.
Proof.
  intros Hn I Hs. pose proof (finished_le_started _ _ _ I) as Hfl.
  destruct I as [I1 I2 I3 I4 I5 I6 I7].
  destruct e as [i | i |]; cbn [step] in Hs.
  - (* start *)
    destruct (Nat.eqb i (length (s_started s)) && Nat.ltb i (length cs) && negb (s_returned s)) eqn:E; [| discriminate].
    apply andb_true_iff in E. destruct E as (E & E3). apply andb_true_iff in E. destruct E as (E1 & E2).
    apply Nat.eqb_eq in E1. apply Nat.ltb_lt in E2. apply negb_true_iff in E3.
    injection Hs as <-. constructor; cbn [s_started s_finished s_best s_returned].
    + rewrite app_length. cbn [length]. rewrite Nat.add_1_r, seq_S, <- I1. cbn [plus]. rewrite E1. reflexivity.
    + rewrite app_length. cbn [length]. lia.
    + exact I3.
    + intros x Hx. apply in_or_app. left. apply I4. exact Hx.
    + unfold best_start. cbn [b_live]. rewrite I5, app_length. cbn [length].
      rewrite N.mod_small; [lia |]. rewrite SZMODb_val in *. lia.
    + destruct I6 as (fl & F1 & F2 & F3). exists fl. repeat split; try assumption.
      * apply (best_start_same _ _ F3).
      * apply (best_start_same _ _ F3).
      * apply (best_start_same _ _ F3).
    + discriminate.
  - (* finish *)
    destruct (memb i (s_started s) && negb (memb i (s_finished s))) eqn:E; [| discriminate].
    apply andb_true_iff in E. destruct E as (E1 & E2). apply memb_true_iff in E1.
    apply negb_true_iff in E2.
    assert (Hnf : ~ In i (s_finished s)).
    { intros Hin. apply memb_true_iff in Hin. congruence. }
    destruct (nth_error cs i) as [c |] eqn:Hc; [| discriminate].
    injection Hs as <-.
    assert (Hlt : (length (s_finished s) < length (s_started s))%nat).
    { destruct (Nat.lt_ge_cases (length (s_finished s)) (length (s_started s))) as [H | H]; [exact H |].
      exfalso. apply Hnf.
      assert (HP : incl (s_started s) (s_finished s)).
      { apply NoDup_length_incl; [exact I3 | lia | exact I4]. }
      apply HP. exact E1. }
    constructor; cbn [s_started s_finished s_best s_returned].
    + exact I1.
    + exact I2.
    + apply NoDup_app_snoc; assumption.
    + intros x Hx. apply in_app_or in Hx. destruct Hx as [Hx | [<- | []]]; [apply I4; exact Hx | exact E1].
    + assert (El : b_live (best_finish (s_best s) (i, c)) = (b_live (s_best s) + (SZMODb - 1)) mod SZMODb).
      { unfold best_finish. destruct ((c_csize (snd (i, c)) <? _) && c_hasdict (snd (i, c))); reflexivity. }
      rewrite El, I5, app_length. cbn [length].
      rewrite SZMODb_val in *.
      remember (N.of_nat (length (s_started s)) - N.of_nat (length (s_finished s)) - 1) as r eqn:Hr.
      replace (N.of_nat (length (s_started s)) - N.of_nat (length (s_finished s)) + (18446744073709551616 - 1))
        with (r + 1 * 18446744073709551616) by lia.
      rewrite N.mod_add by discriminate. rewrite N.mod_small by lia. lia.
    + destruct I6 as (fl & F1 & F2 & F3). exists (fl ++ [(i, c)]). split; [| split].
      * rewrite map_app, F1. reflexivity.
      * apply Forall_app. split; [exact F2 |]. constructor; [exact Hc | constructor].
      * rewrite run_finishes_snoc. apply best_finish_same. exact F3.
    + intros Hr. specialize (I7 Hr). exfalso. lia.
  - (* wait returns *)
    destruct (Nat.eqb (length (s_started s)) (length cs) && (b_live (s_best s) =? 0) && negb (s_returned s)) eqn:E;
      [| discriminate].
    apply andb_true_iff in E. destruct E as (E & E3). apply andb_true_iff in E. destruct E as (E1 & E2).
    apply Nat.eqb_eq in E1. apply N.eqb_eq in E2.
    injection Hs as <-. constructor; cbn [s_started s_finished s_best s_returned]; try assumption.
    intros _. rewrite I5 in E2. lia.
Qed.

Lemma inv_run cs b0 es : forall s s',
  N.of_nat (length cs) < SZMODb ->
  inv cs b0 s -> run cs s es = Some s' -> inv cs b0 s'.
Proof.
  induction es as [| e t IH]; intros s s' Hn I Hr; cbn [run] in Hr.
  - injection Hr as <-. exact I.
  - destruct (step cs s e) as [s1 |] eqn:Hs; [| discriminate].
    eapply IH; [exact Hn | eapply inv_step; eassumption | exact Hr].
Qed.

(* indexed cs enumerates exactly the pairs (i, cs[i]) *)
Lemma indexed_from_spec {A} (l : list A) n :
  indexed_from n l = combine (seq n (length l)) l.
Proof.
  revert n. induction l as [| x t IH]; intros n; cbn; [reflexivity | rewrite IH; reflexivity].
Qed.

Lemma pair_ok_map cs fl :
  Forall (pair_ok cs) fl ->
  fl = map (fun i => (i, nth i cs {| c_csize := 0; c_hasdict := false; c_dsize := 0 |})) (map fst fl).
Proof.
  induction 1 as [| [i c] t H _ IH]; cbn [map]; [reflexivity |].
  rewrite <- IH. f_equal. cbn [fst]. f_equal. unfold pair_ok in H. cbn [fst snd] in H.
  symmetry. apply nth_error_nth. exact H.
Qed.

Lemma indexed_map (cs : list cand) :
  indexed cs = map (fun i => (i, nth i cs {| c_csize := 0; c_hasdict := false; c_dsize := 0 |})) (seq 0 (length cs)).
Proof.
  unfold indexed. rewrite indexed_from_spec.
  assert (G : forall (l : list cand) n d, combine (seq n (length l)) l = map (fun i => (i, nth (i - n) l d)) (seq n (length l))).
  { induction l as [| x t IH]; intros n d; cbn [length seq combine map]; [reflexivity |].
    rewrite Nat.sub_diag. cbn [nth]. f_equal. rewrite (IH (S n) d).
    apply map_ext_in. intros i Hi. apply in_seq in Hi.
    replace (i - n)%nat with (S (i - S n)) by lia. reflexivity. }
  rewrite (G cs 0%nat {| c_csize := 0; c_hasdict := false; c_dsize := 0 |}).
  apply map_ext. intros i. rewrite Nat.sub_0_r. reflexivity.
Qed.

(* wait_returns_only_when_all_done: for EVERY event sequence the model can execute from the start of a group,
   if COVER_best_wait has returned then every job has finished, liveJobs is 0, and the retained candidate is
   the result of the finishes in SOME completion order, i.e. (best_is_a_minimum) a minimum. *)
Lemma sched_all_done cs b0 es s :
  N.of_nat (length cs) < SZMODb -> b_live b0 = 0 ->
  run cs (sys_init b0) es = Some s ->
  (* at every moment: liveJobs = started - finished, never wraps *)
  b_live (s_best s) = N.of_nat (length (s_started s)) - N.of_nat (length (s_finished s)) /\
  (length (s_finished s) <= length (s_started s) <= length cs)%nat /\
  (s_returned s = true ->
     b_live (s_best s) = 0 /\
     Permutation (s_finished s) (seq 0 (length cs)) /\
     exists order, Permutation (indexed cs) order /\
                   same_choice (s_best s) (run_finishes order b0) /\
                   is_minimum b0 (indexed cs) (run_finishes order b0)).
Proof.
  intros Hn Hl Hr.
  pose proof (inv_run cs b0 es _ _ Hn (inv_init cs b0 Hl) Hr) as I.
  pose proof (finished_le_started _ _ _ I) as Hfl.
  destruct I as [I1 I2 I3 I4 I5 I6 I7].
  split; [exact I5 |]. split; [lia |].
  intros Hret. specialize (I7 Hret).
  assert (Hst : length (s_started s) = length cs) by lia.
  split; [rewrite I5; lia |].
  assert (HP : Permutation (s_finished s) (seq 0 (length cs))).
  { apply NoDup_Permutation_bis; [exact I3 | rewrite seq_length; lia |].
    rewrite <- Hst, <- I1. exact I4. }
  split; [exact HP |].
  destruct I6 as (fl & F1 & F2 & F3).
  exists fl.
  assert (HPi : Permutation (indexed cs) fl).
  { rewrite (pair_ok_map cs fl F2), indexed_map, F1. apply Permutation_map. apply Permutation_sym. exact HP. }
  split; [exact HPi |]. split; [exact F3 |].
  apply best_is_a_minimum. exact HPi.
Qed.

(* liveness side: once every job has been started, liveJobs = 0 exactly when all of them have finished *)
Lemma live_zero_iff_all_done cs b0 es s :
  N.of_nat (length cs) < SZMODb -> b_live b0 = 0 ->
  run cs (sys_init b0) es = Some s ->
  length (s_started s) = length cs ->
  (b_live (s_best s) = 0 <-> length (s_finished s) = length cs).
Proof.
  intros Hn Hl Hr Hst.
  destruct (sched_all_done cs b0 es s Hn Hl Hr) as (H1 & H2 & _).
  rewrite H1. lia.
Qed.

(* the schedule in which each job finishes right after its start (no pool) is executable, so the hypotheses of
   sched_all_done are satisfiable: two jobs *)
Example sched_example :
  exists s, run [ {| c_csize := 7; c_hasdict := true; c_dsize := 3 |}; {| c_csize := 7; c_hasdict := true; c_dsize := 4 |} ]
                (sys_init best_init) [EStart 0; EStart 1; EFinish 1; EFinish 0; EWaitReturn] = Some s /\
            s_returned s = true /\ b_who (s_best s) = Some 1%nat.
Proof. eexists. split; [vm_compute; reflexivity | split; reflexivity]. Qed.
