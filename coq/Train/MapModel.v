(* C18 round 3 - model of the COVER_map implementation of lib/dictBuilder/cover.c (NO proofs in this file).

   COVER_map_t : an open-addressing table of 2^sizeLog (key, value) pairs of U32, linear probing, deletion by backward
   shift; an EMPTY slot is one whose VALUE is MAP_EMPTY_VALUE = (U32)-1 (COVER_map_clear memsets the table to 0xFF, so an
   empty slot initially has key (U32)-1 too).  "The map does not resize, so if it becomes full it will loop forever":
   the probing loops are fuelled here, running out of fuel is the result [None].

   SegmentModel.v abstracts this table to its contents (a counter per d-mer id); this file is the table itself. *)
From Coq Require Import NArith List Bool.
From ZV.Gen Require Import Gen_Train.
From ZV.Train Require Import CoverParams SegmentModel.
Import ListNotations.
Local Open Scope N_scope.

Definition MAP_EMPTY : N := 4294967295.
(* U32 truncation and COVER_map_hash written with bit operations (fast inside vm_compute); MapProofs.v shows that they are
   w32 and SegmentModel.map_hash *)
Definition w32f (v : N) : N := N.land v 4294967295.
Definition hashf (sizeLog key : N) : N := N.shiftr (w32f (key * t_COVER_prime4bytes)) (32 - sizeLog).
Definition slot := (N * N)%type.                       (* key, value *)
Record cmap := { cm_log : N; cm_slots : list slot }.

Definition cm_size (m : cmap) : N := 2 ^ cm_log m.
Definition cm_mask (m : cmap) : N := cm_size m - 1.

(* COVER_map_clear *)
Definition cmap_clear (sizeLog : N) : cmap :=
  {| cm_log := sizeLog; cm_slots := repeat (MAP_EMPTY, MAP_EMPTY) (N.to_nat (2 ^ sizeLog)) |}.

Definition slot_at (m : cmap) (i : N) : slot := nth (N.to_nat i) (cm_slots m) (MAP_EMPTY, MAP_EMPTY).
Fixpoint set_nth {A} (l : list A) (n : nat) (x : A) : list A :=
  match l, n with
  | [], _ => []
  | _ :: t, O => x :: t
  | h :: t, S k => h :: set_nth t k x
  end.
Definition slot_set (m : cmap) (i : N) (s : slot) : cmap :=
  {| cm_log := cm_log m; cm_slots := set_nth (cm_slots m) (N.to_nat i) s |}.

(* (i + 1) & map->sizeMask *)
Definition nexti (m : cmap) (i : N) : N := N.land (i + 1) (cm_mask m).

(* COVER_map_index: for (i = hash;; i = (i + 1) & mask) { if (pos->value == EMPTY) return i; if (pos->key == key) return i; } *)
Fixpoint index_loop (fuel : nat) (m : cmap) (i key : N) : option N :=
  match fuel with
  | O => None
  | S f => let s := slot_at m i in
           if snd s =? MAP_EMPTY then Some i
           else if fst s =? key then Some i
           else index_loop f m (nexti m i) key
  end.
Definition cmap_index (m : cmap) (key : N) : option N :=
  index_loop (S (N.to_nat (cm_size m))) m (hashf (cm_log m) key) key.

(* COVER_map_at: the slot of key; inserted with value 0 when absent.  Returns the map and the slot index
   (the C function returns &pos->value: the caller reads and writes the value through it) *)
Definition cmap_at (m : cmap) (key : N) : option (cmap * N) :=
  match cmap_index m key with
  | None => None
  | Some i => if snd (slot_at m i) =? MAP_EMPTY then Some (slot_set m i (key, 0), i) else Some (m, i)
  end.
Definition cmap_value (m : cmap) (i : N) : N := snd (slot_at m i).
Definition cmap_set_value (m : cmap) (i v : N) : cmap := slot_set m i (fst (slot_at m i), v).

(* COVER_map_remove: backward-shift deletion
     for (i = (i + 1) & mask;; i = (i + 1) & mask) {
       if (pos->value == EMPTY) { del->value = EMPTY; return; }
       if (((i - COVER_map_hash(map, pos->key)) & mask) >= shift) { del takes the pair of pos; del = pos; shift = 1; } else ++shift; }   *)
Fixpoint remove_loop (fuel : nat) (m : cmap) (del i shift : N) : option cmap :=
  match fuel with
  | O => None
  | S f => let s := slot_at m i in
           if snd s =? MAP_EMPTY then Some (slot_set m del (fst (slot_at m del), MAP_EMPTY))
           else if shift <=? N.land (w32f (i + U32MOD - hashf (cm_log m) (fst s))) (cm_mask m)
                then remove_loop f (slot_set m del s) i (nexti m i) 1
                else remove_loop f m del (nexti m i) (shift + 1)
  end.
Definition cmap_remove (m : cmap) (key : N) : option cmap :=
  match cmap_index m key with
  | None => None
  | Some i => if snd (slot_at m i) =? MAP_EMPTY then Some m
              else remove_loop (S (N.to_nat (cm_size m))) m i (nexti m i) 1
  end.

(* ------------------------------------------------------------------ how COVER_selectSegment uses the map *)
(* newDmerOcc = COVER_map_at(map, key); if the counter is 0 ...; counter += 1;            -> OpAdd key
   delDmerOcc = COVER_map_at(map, key); counter -= 1; if it is 0 COVER_map_remove(map, key)  -> OpDel key  *)
Inductive mop := OpAdd (key : N) | OpDel (key : N).

(* returns the map and the counter value seen AFTER the update (U32 arithmetic) *)
Definition cmap_apply (m : cmap) (o : mop) : option (cmap * N) :=
  match o with
  | OpAdd k => match cmap_at m k with
               | None => None
               | Some (m1, i) => let v := w32f (cmap_value m1 i + 1) in Some (cmap_set_value m1 i v, v)
               end
  | OpDel k => match cmap_at m k with
               | None => None
               | Some (m1, i) => let v := w32f (cmap_value m1 i + U32MOD - 1) in
                                 let m2 := cmap_set_value m1 i v in
                                 if v =? 0 then match cmap_remove m2 k with None => None | Some m3 => Some (m3, v) end
                                 else Some (m2, v)
               end
  end.

Fixpoint cmap_run (m : cmap) (ops : list mop) : option (cmap * list N) :=
  match ops with
  | [] => Some (m, [])
  | o :: r => match cmap_apply m o with
              | None => None
              | Some (m1, v) => match cmap_run m1 r with None => None | Some (m2, vs) => Some (m2, v :: vs) end
              end
  end.

(* ------------------------------------------------------------------ the abstract contents (what SegmentModel.v keeps) *)
(* a counter per key; absent = 0 *)
Fixpoint cnt_get (c : list (N * N)) (k : N) : N :=
  match c with [] => 0 | (k', v) :: r => if k' =? k then v else cnt_get r k end.
Fixpoint cnt_del (c : list (N * N)) (k : N) : list (N * N) :=
  match c with [] => [] | (k', v) :: r => if k' =? k then cnt_del r k else (k', v) :: cnt_del r k end.
Definition cnt_set (c : list (N * N)) (k v : N) : list (N * N) := if v =? 0 then cnt_del c k else (k, v) :: cnt_del c k.
Definition cnt_apply (c : list (N * N)) (o : mop) : list (N * N) * N :=
  match o with
  | OpAdd k => let v := w32f (cnt_get c k + 1) in (cnt_set c k v, v)
  | OpDel k => let v := w32f (cnt_get c k + U32MOD - 1) in (cnt_set c k v, v)
  end.

(* the table agrees with the abstract contents on a key: looked up WITHOUT inserting *)
Definition cmap_lookup (m : cmap) (key : N) : option N :=
  match cmap_index m key with
  | None => None
  | Some i => Some (if snd (slot_at m i) =? MAP_EMPTY then 0 else snd (slot_at m i))
  end.
Definition occupied (m : cmap) : N := N.of_nat (length (filter (fun s => negb (snd s =? MAP_EMPTY)) (cm_slots m))).

(* one operation on the table and on the abstract contents, side by side.  None = they disagree (or the table ran out of
   fuel): the value returned differs, a key of [univ] does not look up to its abstract counter, or the number of occupied
   slots is not the number of live keys.  An operation the C code never performs is skipped (state unchanged): OpAdd of a
   new key when [cap] keys are live (the map must never be full), OpDel of a key that is not in the window. *)
Definition step_ok (univ : list N) (cap : N) (st : cmap * list (N * N)) (o : mop) : option (cmap * list (N * N)) :=
  let (m, c) := st in
  let skip := match o with OpAdd k => (cnt_get c k =? 0) && (cap <=? N.of_nat (length c)) | OpDel k => cnt_get c k =? 0 end in
  if skip then Some st
  else match cmap_apply m o with
       | None => None
       | Some (m1, v) =>
           let (c1, v') := cnt_apply c o in
           if (v =? v') && (occupied m1 =? N.of_nat (length c1)) &&
              forallb (fun k => match cmap_lookup m1 k with Some x => x =? cnt_get c1 k | None => false end) univ
           then Some (m1, c1) else None
       end.

Fixpoint agree_run (univ : list N) (cap : N) (st : cmap * list (N * N)) (ops : list mop) : bool :=
  match ops with
  | [] => true
  | o :: r => match step_ok univ cap st o with None => false | Some st1 => agree_run univ cap st1 r end
  end.

(* every sequence of at most n operations over the keys of [univ], explored as a tree (prefixes shared) *)
Definition all_ops (univ : list N) : list mop := map OpAdd univ ++ map OpDel univ.
Fixpoint agree_tree (univ : list N) (cap : N) (n : nat) (st : cmap * list (N * N)) : bool :=
  match n with
  | O => true
  | S k => forallb (fun o => match step_ok univ cap st o with None => false | Some st1 => agree_tree univ cap k st1 end) (all_ops univ)
  end.
