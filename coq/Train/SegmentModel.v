(* C18 - model of segment selection and dictionary building of the COVER and FASTCOVER trainers, of the FASTCOVER
   hash / frequency table, and of two pieces of 32-bit arithmetic that round 2 found broken (NO proofs in this file).

   lib/dictBuilder/fastcover.c : FASTCOVER_hashPtrToIndex (ZSTD_hash6Ptr / ZSTD_hash8Ptr), FASTCOVER_computeFrequency,
                                 FASTCOVER_selectSegment, FASTCOVER_buildDictionary
   lib/dictBuilder/cover.c     : COVER_selectSegment (the activeDmers hash map is abstracted to its contents: a counter
                                 per dmer id), COVER_buildDictionary, COVER_map_init (size arithmetic), COVER_map_hash
   lib/dictBuilder/zdict.c     : the selectivity hint loop of ZDICT_trainFromBuffer_unsafe_legacy

   Conventions.  A table (freqs, segmentFreqs, the contents of activeDmers) is a total function N -> N; that every
   index used is inside the real table is a separate theorem (fc_hash_in_table).  U32 / U16 wrap-around is explicit.
   [cm] is the modulus of the per-key occurrence counter: 2^16 for FASTCOVER (U16 segmentFreqs), 2^32 for COVER
   (U32 value of the map).  [cover = true] selects the COVER variant of selectSegment (counters cleared on entry, zero
   frequency head and tail trimmed), [cover = false] the FASTCOVER variant (counters drained on exit, no trimming).
   A C loop that would run off its array is the result [None] (select) / [BuildTrap] (build).                    *)
From Coq Require Import NArith List Bool.
From ZV.Gen Require Import Gen_Train.
From ZV.Train Require Import CoverParams.
Import ListNotations.
Local Open Scope N_scope.

Definition U16MOD : N := 65536.
Definition U64MOD : N := 18446744073709551616.
Definition zero_fn : N -> N := fun _ => 0.
Definition upd (f : N -> N) (i v : N) : N -> N := fun j => if j =? i then v else f j.
Definition sub32 (a b : N) : N := w32 (a + (U32MOD - w32 b)).            (* a - b on U32 *)
Definition inc (cm c : N) : N := (c + 1) mod cm.
Definition dec (cm c : N) : N := (c + (cm - 1)) mod cm.

(* ------------------------------------------------------------------ FASTCOVER hash and frequency table *)
Definition byte_at (s : list N) (p : N) : N := nth (N.to_nat p) s 0.
(* MEM_readLE64 *)
Definition le64 (s : list N) (p : N) : N :=
  byte_at s p + 256 * (byte_at s (p + 1) + 256 * (byte_at s (p + 2) + 256 * (byte_at s (p + 3) + 256 *
  (byte_at s (p + 4) + 256 * (byte_at s (p + 5) + 256 * (byte_at s (p + 6) + 256 * byte_at s (p + 7))))))).
(* FASTCOVER_hashPtrToIndex: d == 6 ? ZSTD_hash6Ptr(p, f) : ZSTD_hash8Ptr(p, f) *)
Definition fc_hash (d f u : N) : N :=
  if d =? 6 then ((((u * 65536) mod U64MOD) * t_prime6bytes) mod U64MOD) / 2 ^ (64 - f)
  else ((u * t_prime8bytes) mod U64MOD) / 2 ^ (64 - f).
Definition fc_key (s : list N) (d f : N) (p : N) : N := fc_hash d f (le64 s p).

(* the while loop of FASTCOVER_computeFrequency for one sample [start, sEnd) *)
Fixpoint fc_count (n : nat) (key : N -> N) (readLen skip start sEnd : N) (fr : N -> N) : N -> N :=
  match n with
  | O => fr
  | S n' => if start + readLen <=? sEnd
            then fc_count n' key readLen skip (start + skip + 1) sEnd (upd fr (key start) (w32 (fr (key start) + 1)))
            else fr
  end.
(* over the training samples, given their sizes *)
Fixpoint fc_freqs_from (key : N -> N) (readLen skip : N) (sizes : list N) (off : N) (fr : N -> N) : N -> N :=
  match sizes with
  | [] => fr
  | sz :: t => fc_freqs_from key readLen skip t (off + sz) (fc_count (S (N.to_nat sz)) key readLen skip off (off + sz) fr)
  end.
Definition fc_freqs (key : N -> N) (d skip : N) (trainSizes : list N) : N -> N :=
  fc_freqs_from key (N.max d 8) skip trainSizes 0 zero_fn.

(* ------------------------------------------------------------------ selectSegment *)
Record seg := mkseg { sb : N; se : N; ss : N }.                 (* begin, end, score *)
Record wst := mkwst { w_act : seg; w_cnt : N -> N; w_best : seg }.

Section Select.
  Variables (cm : N) (key : N -> N) (dk1 : N).     (* dk1 = (U32)(dmersInK + 1) *)

  (* one iteration of  while (activeSegment.end < end)  *)
  Definition slide_step (fr : N -> N) (st : wst) : wst :=
    let a := w_act st in
    let c := w_cnt st in
    let idx := key (se a) in
    let score1 := if c idx =? 0 then w32 (ss a + fr idx) else ss a in
    let c1 := upd c idx (inc cm (c idx)) in
    let e1 := se a + 1 in
    let a2 :=
      if e1 - sb a =? dk1 then
        let del := key (sb a) in
        let cd := dec cm (c1 del) in
        mkseg (sb a + 1) e1 (if cd =? 0 then sub32 score1 (fr del) else score1)
      else mkseg (sb a) e1 score1 in
    let c2 := if e1 - sb a =? dk1 then upd c1 (key (sb a)) (dec cm (c1 (key (sb a)))) else c1 in
    mkwst a2 c2 (if ss (w_best st) <? ss a2 then a2 else w_best st).

  Fixpoint slide (n : nat) (fr : N -> N) (st : wst) : wst :=
    match n with O => st | S n' => slide n' fr (slide_step fr st) end.

  (* FASTCOVER: "Zero out rest of segmentFreqs array" *)
  Fixpoint drain (n : nat) (b : N) (c : N -> N) : N -> N :=
    match n with O => c | S n' => drain n' (b + 1) (upd c (key b) (dec cm (c (key b)))) end.

  (* COVER: "Trim off the zero frequency head and tail from the segment" *)
  Fixpoint trim_scan (n : nat) (fr : N -> N) (pos nb ne : N) : N * N :=
    match n with
    | O => (nb, ne)
    | S n' => if fr (key pos) =? 0 then trim_scan n' fr (pos + 1) nb ne
              else trim_scan n' fr (pos + 1) (N.min nb pos) (pos + 1)
    end.

  (* "Zero out the frequency of each dmer covered by the chosen segment" *)
  Fixpoint zero_range (n : nat) (pos : N) (fr : N -> N) : N -> N :=
    match n with O => fr | S n' => zero_range n' (pos + 1) (upd fr (key pos) 0) end.

  (* result: the segment, the new frequency table, the occurrence counters left behind.
     None = the final loops "for (pos = begin; pos != end; ++pos)" start with begin > end and run off the arrays *)
  Definition select (cover : bool) (fr cnt0 : N -> N) (b e : N) : option (seg * (N -> N) * (N -> N)) :=
    let c0 := if cover then zero_fn else cnt0 in
    let st := slide (N.to_nat (e - b)) fr (mkwst (mkseg b b 0) c0 (mkseg 0 0 0)) in
    let best := w_best st in
    let c1 := if cover then w_cnt st else drain (N.to_nat (e - sb (w_act st))) (sb (w_act st)) (w_cnt st) in
    if se best <? sb best then None
    else
      let best' := if cover
                   then let '(nb, ne) := trim_scan (N.to_nat (se best - sb best)) fr (sb best) (se best) (sb best) in
                        mkseg nb ne (ss best)
                   else best in
      if se best' <? sb best' then None
      else Some (best', zero_range (N.to_nat (se best' - sb best')) (sb best') fr, c1).
End Select.

(* (U32)(dmersInK + 1)  with  dmersInK = k - d + 1  (U32) *)
Definition dk1_of (k d : N) : N := w32 (w32 (k + (U32MOD - w32 d)) + 1 + 1).

(* ------------------------------------------------------------------ buildDictionary *)
Inductive bres :=
| BuildDone (tail : N) (copies : list (N * N * N))      (* memcpy(dict + dst, samples + src, len), latest first *)
| BuildTrap                                             (* selectSegment ran off *)
| BuildFuel.                                            (* the model's fuel ran out *)

Section Build.
  Variables (cm : N) (cover : bool) (key : N -> N) (d k : N) (epNum epSize maxZero : N).

  Fixpoint build (fuel : nat) (epoch tail zero : N) (fr cnt : N -> N) (acc : list (N * N * N)) : bres :=
    match fuel with
    | O => BuildFuel
    | S fuel' =>
        if tail =? 0 then BuildDone tail acc
        else
          let eb := w32 (epoch * epSize) in
          let ee := w32 (eb + epSize) in
          match select cm key (dk1_of k d) cover fr cnt eb ee with
          | None => BuildTrap
          | Some (sg, fr', cnt') =>
              let next := (epoch + 1) mod epNum in
              if ss sg =? 0 then
                if maxZero <=? zero + 1 then BuildDone tail acc
                else build fuel' next tail (zero + 1) fr' cnt' acc
              else
                let segSize := N.min (w32 (se sg + (U32MOD - w32 (sb sg)) + d + (U32MOD - 1))) tail in
                if segSize <? d then BuildDone tail acc
                else build fuel' next (tail - segSize) 0 fr' cnt' ((tail - segSize, sb sg, segSize) :: acc)
          end
    end.
End Build.

(* maxZeroScoreRun: 10 in FASTCOVER_buildDictionary, MAX(10, MIN(100, epochs.num >> 3)) in COVER_buildDictionary *)
Definition max_zero_run (cover : bool) (epNum : N) : N :=
  if cover then N.max 10 (N.min 100 (epNum / 8)) else 10.
Definition build_fuel (capacity d maxZero : N) : nat := S (N.to_nat ((capacity / d + 1) * maxZero)).

(* COVER_buildDictionary / FASTCOVER_buildDictionary: epochs from COVER_computeEpochs(passes = 4 | 1) *)
Definition build_dictionary (cover : bool) (key : N -> N) (fr : N -> N) (capacity nbDmers d k : N) : option bres :=
  match build_epochs capacity nbDmers k (if cover then 4 else 1) with
  | None => None                                                          (* division by zero *)
  | Some (num, size) =>
      let mz := max_zero_run cover num in
      Some (build (if cover then U32MOD else U16MOD) cover key d k num size mz
                  (build_fuel capacity d mz) 0 capacity 0 fr zero_fn [])
  end.

(* the bytes written behind dict + tail, from the copies (latest first = lowest address first) *)
Fixpoint take_bytes (s : list N) (src : N) (n : nat) : list N :=
  match n with O => [] | S n' => byte_at s src :: take_bytes s (src + 1) n' end.
Definition content_of (s : list N) (copies : list (N * N * N)) : list N :=
  flat_map (fun c => match c with (_, src, len) => take_bytes s src (N.to_nat len) end) copies.

(* ------------------------------------------------------------------ whole runs, as the correspondence drives them *)
Definition accel_skip (accel : N) : N := snd (nth (N.to_nat accel) t_accel_table (0, 0)).

Inductive tres :=
| TErr                                        (* ctx_init refuses the sample set *)
| TTrap                                       (* COVER_computeEpochs divides by zero *)
| TOk (nbDmers : N) (fr : N -> N) (r : bres).

(* FASTCOVER_ctx_init (split point 1.0: every sample trains) + FASTCOVER_buildDictionary, from the bytes of the samples *)
Definition fc_train (bytes sizes : list N) (d f accel k cap : N) : tres :=
  match fastcover_ctx_init true sizes d sp_one with
  | None => TErr
  | Some c =>
      let key := fc_key bytes d f in
      let fr := fc_freqs key d (accel_skip accel) sizes in
      match build_dictionary false key fr cap (ci_nbDmers c) d k with
      | None => TTrap
      | Some r => TOk (ci_nbDmers c) fr r
      end
  end.
Definition fc_select (bytes sizes : list N) (d f accel k b e : N) : option (seg * (N -> N) * (N -> N)) :=
  let key := fc_key bytes d f in
  select U16MOD key (dk1_of k d) false (fc_freqs key d (accel_skip accel) sizes) zero_fn b e.

(* COVER: dmerAt[] and freqs[dmerAt[]] of the real context are inputs (the suffix sort is not modelled) *)
Definition key_fn (keys : list N) : N -> N := fun p => nth (N.to_nat p) keys 0.
Definition assoc_fn (keys vals : list N) : N -> N :=
  fun i => match find (fun kv => fst kv =? i) (combine keys vals) with Some kv => snd kv | None => 0 end.
Definition cv_build (keys fvals : list N) (d k cap : N) : option bres :=
  build_dictionary true (key_fn keys) (assoc_fn keys fvals) cap (lenN keys) d k.
Definition cv_select (keys fvals : list N) (d k b e : N) : option (seg * (N -> N) * (N -> N)) :=
  select U32MOD (key_fn keys) (dk1_of k d) true (assoc_fn keys fvals) zero_fn b e.

(* ------------------------------------------------------------------ COVER_map_init / COVER_map_hash *)
Definition highbit (v : N) : N := N.log2 v.                  (* ZSTD_highbit32, v != 0 *)
(* repaired = true: the code after fix 62c5591 (size >= 2^30 is refused); result = sizeLog *)
Definition map_init (repaired : bool) (size : N) : option N :=
  if repaired && (1073741824 <=? size) then None else Some (highbit size + 2).
Definition map_hash (sizeLog key : N) : N := w32 (key * t_COVER_prime4bytes) / 2 ^ (32 - sizeLog).

(* ------------------------------------------------------------------ the selectivity hint of the legacy trainer *)
(* proposedSelectivity = MIN(selectivity, 32) - 1 (repaired; the pinned tree had selectivity - 1);
   while ((nbSamples >> proposedSelectivity) <= MINRATIO) proposedSelectivity--;
   result: the list of shift counts evaluated, in order (None = fuel) *)
Fixpoint hint_loop (fuel : nat) (nbSamples p : N) : option (list N) :=
  match fuel with
  | O => None
  | S f => if N.shiftr nbSamples p <=? t_MINRATIO
           then match hint_loop f nbSamples (w32 (p + (U32MOD - 1))) with Some l => Some (p :: l) | None => None end
           else Some [p]
  end.
Definition hint_start (repaired : bool) (selectivity : N) : N :=
  if repaired then N.min selectivity 32 - 1 else selectivity - 1.
