(* C18 round 3 - a third bounded universe for Train/MapModel.v: keys whose homes are CONSECUTIVE slots (0, 1, 0, 2, 0 on 8 slots):
   clusters whose entries have different homes, where a deletion needs successive moves over different distances *)
From Coq Require Import NArith ZArith List Bool Lia.
From ZV.Gen Require Import Gen_Train.
From ZV.Train Require Import CoverParams SegmentModel MapModel MapProofs.
Import ListNotations.
Local Open Scope N_scope.

Definition univ3b : list N := [0; 2; 5; 7; 13].

Lemma univ3b_homes : map (hashf 3) univ3b = [0; 1; 0; 2; 0].
Proof. vm_compute. reflexivity. Qed.

Lemma tree3b : agree_tree univ3b 7 5 (cmap_clear 3, []) = true.
Proof. vm_compute. reflexivity. Qed.

Lemma cover_map_agrees_3b ops : (length ops <= 5)%nat -> (forall o, In o ops -> In o (all_ops univ3b)) ->
  agree_run univ3b 7 (cmap_clear 3, []) ops = true.
Proof. apply agree_tree_run, tree3b. Qed.
