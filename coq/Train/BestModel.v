(* C18 - model of COVER_best_t (cover.c: COVER_best_init / _start / _finish / _wait) as used by the two
   optimisers (NO proofs in this file).

   A candidate job reports a COVER_dictSelection_t: totalCompressedSize (a size_t; error codes are the
   values close to 2^64), whether dictContent is non-NULL, and dictSize.  The model keeps, instead of the
   dictionary bytes and the parameter struct, the identifier of the job whose dictionary and parameters
   are currently stored (b_who); the correspondence compares the real bytes / parameters with that job's.

   Allocation failure inside COVER_best_finish (malloc returning NULL) is not modelled (fault injection is
   property C13's subject).                                                                                *)
From Coq Require Import NArith List Bool.
From ZV.Gen Require Import Gen_Train.
Import ListNotations.
Local Open Scope N_scope.

Definition SZMODb : N := 2 ^ (8 * t_sizeof_size_t).

Record cand := { c_csize : N; c_hasdict : bool; c_dsize : N }.

Record best := { b_live : N; b_csize : N; b_who : option nat; b_dsize : N }.

(* COVER_best_init: liveJobs = 0, dict = NULL, dictSize = 0, compressedSize = (size_t)-1 *)
Definition best_init : best := {| b_live := 0; b_csize := SZMODb - 1; b_who := None; b_dsize := 0 |}.

(* COVER_best_start: ++liveJobs *)
Definition best_start (b : best) : best :=
  {| b_live := (b_live b + 1) mod SZMODb; b_csize := b_csize b; b_who := b_who b; b_dsize := b_dsize b |}.

(* COVER_best_finish: --liveJobs; if (compressedSize < best->compressedSize) { ...; if (dict) { save } } *)
Definition best_finish (b : best) (j : nat * cand) : best :=
  let live := (b_live b + (SZMODb - 1)) mod SZMODb in
  let c := snd j in
  if (c_csize c <? b_csize b) && c_hasdict c
  then {| b_live := live; b_csize := c_csize c; b_who := Some (fst j); b_dsize := c_dsize c |}
  else {| b_live := live; b_csize := b_csize b; b_who := b_who b; b_dsize := b_dsize b |}.

Definition run_finishes (l : list (nat * cand)) (b : best) : best := fold_left best_finish l b.

(* index the candidates of one optimiser run in iteration order *)
Fixpoint indexed_from {A} (n : nat) (l : list A) : list (nat * A) :=
  match l with [] => [] | x :: t => (n, x) :: indexed_from (S n) t end.
Definition indexed {A} (l : list A) : list (nat * A) := indexed_from 0 l.

(* the result of a run without a pool (nbThreads <= 1): start;finish for each job in iteration order *)
Definition run_sequential (cs : list cand) : best :=
  fold_left (fun b j => best_finish (best_start b) j) (indexed cs) best_init.

(* ------------------------------------------------------------------ schedules *)
(* One group = the jobs of one value of d: the main thread calls COVER_best_start for job 0,1,...,n-1 in
   order (handing each job to the pool, or running it inline), then COVER_best_wait.  A job finishes at any
   time after its start.  COVER_best_wait can return only when it observes liveJobs == 0 under the mutex.
   Every critical section is one atomic step (all of them hold best->mutex).                               *)
Inductive ev := EStart (i : nat) | EFinish (i : nat) | EWaitReturn.

Record sys := { s_best : best; s_started : list nat; s_finished : list nat; s_returned : bool }.

Definition sys_init (b : best) : sys := {| s_best := b; s_started := []; s_finished := []; s_returned := false |}.

Definition memb (i : nat) (l : list nat) : bool := existsb (Nat.eqb i) l.

(* None = the event is not enabled in this state *)
Definition step (cs : list cand) (s : sys) (e : ev) : option sys :=
  match e with
  | EStart i =>
      if Nat.eqb i (length (s_started s)) && Nat.ltb i (length cs) && negb (s_returned s)
      then Some {| s_best := best_start (s_best s); s_started := s_started s ++ [i];
                   s_finished := s_finished s; s_returned := false |}
      else None
  | EFinish i =>
      if memb i (s_started s) && negb (memb i (s_finished s))
      then match nth_error cs i with
           | Some c => Some {| s_best := best_finish (s_best s) (i, c); s_started := s_started s;
                               s_finished := s_finished s ++ [i]; s_returned := s_returned s |}
           | None => None
           end
      else None
  | EWaitReturn =>
      if Nat.eqb (length (s_started s)) (length cs) && (b_live (s_best s) =? 0) && negb (s_returned s)
      then Some {| s_best := s_best s; s_started := s_started s; s_finished := s_finished s; s_returned := true |}
      else None
  end.

Fixpoint run (cs : list cand) (s : sys) (es : list ev) : option sys :=
  match es with
  | [] => Some s
  | e :: t => match step cs s e with Some s' => run cs s' t | None => None end
  end.

(* ------------------------------------------------------------------ single-threaded driving of the real functions *)
(* op sequences for the correspondence: the harness applies them to the real COVER_best_* and dumps the struct *)
Inductive op := OStart | OFinish (id : nat) (c : cand).
Definition apply_op (b : best) (o : op) : best :=
  match o with OStart => best_start b | OFinish id c => best_finish b (id, c) end.
