(* C18 - proofs about Train/GroupModel.v (COVER_group / COVER_lower_bound) *)
From Coq Require Import NArith ZArith List Bool Lia.
From ZV.Gen Require Import Gen_Train.
From ZV.Train Require Import CoverParams CoverProofs SegmentModel GroupModel.
Import ListNotations.
Local Open Scope N_scope.
Ltac Zify.zify_post_hook ::= Z.to_euclidean_division_equations.

(* the result pointer of COVER_lower_bound lies in [first, last] *)
Lemma lower_bound_range fuel : forall offs first count v,
    first <= lower_bound fuel offs first count v <= first + count.
Proof.
  induction fuel as [|fuel IH]; intros offs first count v; cbn [lower_bound]; [lia|].
  destruct (N.eqb_spec count 0); [lia|].
  assert (count / 2 < count) by (apply N.div_lt; lia).
  destruct (off_at offs (first + count / 2) <? v).
  - specialize (IH offs (first + count / 2 + 1) (count - (count / 2 + 1)) v). lia.
  - specialize (IH offs first (count / 2) v). lia.
Qed.

Section Group.
  Variables (offs : list N) (nb total : N).
  Hypothesis Hlast : off_at offs nb = total.

  Lemma group_loop_ok ps : forall curEnd curIdx freq,
      (forall p, In p ps -> p < total) -> (curIdx <= nb \/ curEnd = total) ->
      exists f, group_loop offs nb ps curEnd curIdx freq = Some f /\ freq <= f <= freq + N.of_nat (length ps).
  Proof.
    induction ps as [|p t IH]; intros curEnd curIdx freq Hp Hinv; cbn [group_loop].
    - exists freq. split; [reflexivity|cbn; lia].
    - assert (Ht : forall q, In q t -> q < total) by (intros q Hq; apply Hp; now right).
      destruct (N.ltb_spec p curEnd) as [L|L].
      + destruct (IH curEnd curIdx freq Ht Hinv) as (f & E & B). exists f. split; [exact E|]. cbn [length]. lia.
      + destruct t as [|q t'].
        * exists (freq + 1). split; [reflexivity|cbn; lia].
        * destruct (N.ltb_spec nb curIdx) as [Lt|Ge].
          -- exfalso. destruct Hinv as [Hi|Hi]; [lia|]. specialize (Hp p (or_introl eq_refl)). lia.
          -- pose proof (lower_bound_range (S (N.to_nat nb)) offs curIdx (nb - curIdx) p) as R.
             set (i := lower_bound (S (N.to_nat nb)) offs curIdx (nb - curIdx) p) in *.
             assert (Hinv' : i + 1 <= nb \/ off_at offs i = total).
             { destruct (N.eq_dec i nb) as [->|NE]; [right; exact Hlast | left; lia]. }
             destruct (IH (off_at offs i) (i + 1) (freq + 1) Ht Hinv') as (f & E & B).
             exists f. split; [exact E|]. cbn [length] in *. lia.
  Qed.

  (* COVER_group never searches past the offsets array, and the frequency of a group is between 1 and its size *)
  Theorem group_freq_ok ps :
    off_at offs 0 = 0 -> ps <> [] -> (forall p, In p ps -> p < total) ->
    exists f, group_freq offs nb ps = Some f /\ 1 <= f <= N.of_nat (length ps).
  Proof.
    intros H0 Hne Hp. unfold group_freq. rewrite H0.
    destruct ps as [|p t]; [congruence|]. cbn [group_loop].
    destruct (N.ltb_spec p 0); [lia|].
    assert (Ht : forall q, In q t -> q < total) by (intros q Hq; apply Hp; now right).
    destruct t as [|q t'].
    - exists 1. split; [reflexivity|cbn; lia].
    - destruct (N.ltb_spec nb 0); [lia|].
      pose proof (lower_bound_range (S (N.to_nat nb)) offs 0 (nb - 0) p) as R.
      set (i := lower_bound (S (N.to_nat nb)) offs 0 (nb - 0) p) in *.
      assert (Hinv' : i + 1 <= nb \/ off_at offs i = total).
      { destruct (N.eq_dec i nb) as [->|NE]; [right; exact Hlast | left; lia]. }
      destruct (group_loop_ok (q :: t') (off_at offs i) (i + 1) (0 + 1) Ht Hinv') as (f & E & B).
      exists f. split; [exact E|]. cbn [length] in *. lia.
  Qed.
End Group.

(* ctx->offsets *)
Lemma offsets_from_0 sizes off : off_at (offsets_from sizes off) 0 = off.
Proof. destruct sizes; reflexivity. Qed.
Lemma offsets_from_last sizes : forall off, off_at (offsets_from sizes off) (lenN sizes) = off + sumN sizes.
Proof.
  induction sizes as [|s t IH]; intros off.
  - cbn. unfold sumN. cbn. lia.
  - unfold lenN. cbn [length offsets_from]. unfold off_at. rewrite Nat2N.inj_succ, N2Nat.inj_succ. cbn [nth].
    specialize (IH (off + s)). unfold off_at, lenN in IH. rewrite IH, sumN_cons. lia.
Qed.

Lemma seqN_in n : forall b p, In p (seqN b n) -> b <= p < b + N.of_nat n.
Proof.
  induction n as [|n IH]; intros b p H; cbn [seqN] in H; [destruct H|].
  destruct H as [<-|H]; [lia|]. apply IH in H. lia.
Qed.

Lemma seqN_length n : forall b, length (seqN b n) = n.
Proof. induction n as [|n IH]; intros b; cbn; [reflexivity|now rewrite IH]. Qed.
Lemma filter_len_le {A} (f : A -> bool) l : (length (filter f l) <= length l)%nat.
Proof. induction l as [|x l IH]; cbn; [lia|]. destruct (f x); cbn; lia. Qed.

(* COVER_ctx_init (repaired), split point 1.0, any sample set: every d-mer gets a frequency, computed without leaving
   the offsets array, between 1 and the number of positions *)
Theorem cv_ctx_freqs_ok bytes sizes d keys fvals :
  cv_ctx bytes sizes d = Some (keys, fvals) ->
  length fvals = length keys /\
  forall fv, In fv fvals -> exists f, fv = Some f /\ 1 <= f <= N.of_nat (length keys).
Proof.
  unfold cv_ctx. destruct (cover_ctx_init true sizes d sp_one) as [c|] eqn:C; [|discriminate].
  intros E. injection E as <- <-.
  split; [now rewrite map_length|].
  intros fv Hin. apply in_map_iff in Hin. destruct Hin as (k & <- & Hk).
  set (n := N.to_nat (ci_nbDmers c)) in *.
  set (keys := map (fun p => dmer_at bytes p (N.to_nat d)) (seqN 0 n)) in *.
  set (ps := map fst (filter (fun q => snd q =? k) (combine (seqN 0 n) keys))).
  destruct (ctx_init_guarantees_dmers _ _ _ _ _ (proj1 max_samples_le) C) as (H1 & H2 & H3 & H4 & _).
  assert (Hlen : length keys = n).
  { subst keys. rewrite map_length. apply seqN_length. }
  assert (Hps : forall p, In p ps -> p < sumN sizes).
  { intros p Hp. subst ps. apply in_map_iff in Hp. destruct Hp as ([p' k'] & <- & Hf). apply filter_In in Hf.
    destruct Hf as [Hc _]. apply in_combine_l in Hc. apply seqN_in in Hc. cbn [fst]. unfold minlen in H2.
    rewrite sizeof_U64_val in H2. subst n. lia. }
  assert (Hne : ps <> []).
  { (* k is the key of some position, which therefore is in its own group *)
    subst keys. apply in_map_iff in Hk. destruct Hk as (p & Ek & Hp).
    assert (Hc : In (p, k) (combine (seqN 0 n) (map (fun p => dmer_at bytes p (N.to_nat d)) (seqN 0 n)))).
    { rewrite <- Ek. clear - Hp. revert Hp. generalize 0. induction n as [|n IH]; intros b Hp; cbn [seqN] in *; [destruct Hp|].
      cbn [map combine]. destruct Hp as [->|Hp]; [now left | right; apply IH; exact Hp]. }
    intros Z. assert (In p ps).
    { subst ps. apply in_map_iff. exists (p, k). split; [reflexivity|]. apply filter_In. split; [exact Hc|]. cbn. apply N.eqb_refl. }
    rewrite Z in H. destruct H. }
  destruct (group_freq_ok (offsets_from sizes 0) (lenN sizes) (sumN sizes)
              ltac:(rewrite offsets_from_last; lia) ps (offsets_from_0 sizes 0) Hne Hps) as (f & E & B).
  exists f. split; [exact E|]. rewrite Hlen.
  assert (length ps <= n)%nat.
  { subst ps. rewrite map_length. etransitivity; [apply filter_len_le|]. rewrite combine_length, Hlen, seqN_length. lia. }
  lia.
Qed.
