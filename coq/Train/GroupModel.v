(* C18 - model of the frequency computation of COVER_ctx_init: COVER_group with COVER_lower_bound (NO proofs here).

   lib/dictBuilder/cover.c : COVER_lower_bound, COVER_group (the loop that counts in how many samples a d-mer occurs),
                             and the position -> d-mer map of COVER_ctx_init (the suffix sort itself is not modelled: a
                             group is "all positions that carry the same d bytes, in ascending order", which is what the
                             stable sort + COVER_groupBy produce)

   offsets = ctx->offsets: nbSamples + 1 entries, offsets[0] = 0, offsets[nbSamples] = total size.
   A pointer into that array is modelled by its index.  [None] = the C code would compute a negative element count
   (last < first in COVER_lower_bound), i.e. run off the array.                                                  *)
From Coq Require Import NArith List Bool.
From ZV.Train Require Import CoverParams SegmentModel.
Import ListNotations.
Local Open Scope N_scope.

Definition off_at (offs : list N) (i : N) : N := nth (N.to_nat i) offs 0.

(* COVER_lower_bound(first, last, value) with count = last - first; returns the index of the result pointer *)
Fixpoint lower_bound (fuel : nat) (offs : list N) (first count value : N) : N :=
  match fuel with
  | O => first
  | S f => if count =? 0 then first
           else let step := count / 2 in
                let ptr := first + step in
                if off_at offs ptr <? value then lower_bound f offs (ptr + 1) (count - (step + 1)) value
                else lower_bound f offs first step value
  end.

(* the loop of COVER_group over the positions of one group (ascending); state: curSampleEnd, index of curOffsetPtr, freq *)
Fixpoint group_loop (offs : list N) (nbSamples : N) (ps : list N) (curEnd curIdx freq : N) : option N :=
  match ps with
  | [] => Some freq
  | p :: t =>
      if p <? curEnd then group_loop offs nbSamples t curEnd curIdx freq
      else match t with
           | [] => Some (freq + 1)                                   (* grpPtr + 1 == grpEnd: no search *)
           | _ => if nbSamples <? curIdx then None                   (* last < first *)
                  else let i := lower_bound (S (N.to_nat nbSamples)) offs curIdx (nbSamples - curIdx) p in
                       group_loop offs nbSamples t (off_at offs i) (i + 1) (freq + 1)
           end
  end.
Definition group_freq (offs : list N) (nbSamples : N) (ps : list N) : option N :=
  group_loop offs nbSamples ps (off_at offs 0) 0 0.

(* ctx->offsets *)
Fixpoint offsets_from (sizes : list N) (off : N) : list N :=
  match sizes with [] => [off] | s :: t => off :: offsets_from t (off + s) end.

(* the d bytes at position p as one number (any injective encoding will do: ids are only compared) *)
Fixpoint dmer_at (s : list N) (p : N) (d : nat) : N :=
  match d with O => 1 | S d' => byte_at s p + 256 * dmer_at s (p + 1) d' end.

Fixpoint seqN (b : N) (n : nat) : list N := match n with O => [] | S n' => b :: seqN (b + 1) n' end.

(* keys[p] and freqs[dmerAt[p]] for every position p < suffixSize, from the bytes of the samples (split point 1.0) *)
Definition cv_ctx (bytes sizes : list N) (d : N) : option (list N * list (option N)) :=
  match cover_ctx_init true sizes d sp_one with
  | None => None
  | Some c =>
      let n := N.to_nat (ci_nbDmers c) in
      let keys := map (fun p => dmer_at bytes p (N.to_nat d)) (seqN 0 n) in
      let pk := combine (seqN 0 n) keys in
      let offs := offsets_from sizes 0 in
      let nb := lenN sizes in
      Some (keys, map (fun k => group_freq offs nb (map fst (filter (fun q => snd q =? k) pk))) keys)
  end.
