(* C18 round 3 - proofs about Train/MapModel.v *)
From Coq Require Import NArith ZArith List Bool Lia.
From ZV.Gen Require Import Gen_Train.
From ZV.Train Require Import CoverParams SegmentModel MapModel.
Import ListNotations.
Local Open Scope N_scope.
Ltac Zify.zify_post_hook ::= Z.div_mod_to_equations.

(* ------------------------------------------------------------------ the bit-operation forms are the arithmetic ones *)
Lemma w32f_w32 v : w32f v = w32 v.
Proof. unfold w32f, w32. change 4294967295 with (N.ones 32). rewrite N.land_ones. reflexivity. Qed.

Lemma hashf_map_hash sizeLog key : hashf sizeLog key = map_hash sizeLog key.
Proof. unfold hashf, map_hash. rewrite w32f_w32, N.shiftr_div_pow2. reflexivity. Qed.

Lemma hashf_lt sizeLog key : sizeLog <= 32 -> hashf sizeLog key < 2 ^ sizeLog.
Proof.
  intros Hl. unfold hashf. rewrite N.shiftr_div_pow2.
  assert (Hw : w32f (key * t_COVER_prime4bytes) < 2 ^ 32).
  { rewrite w32f_w32. unfold w32. apply N.mod_lt. discriminate. }
  apply N.div_lt_upper_bound; [apply N.pow_nonzero; discriminate|].
  rewrite <- N.pow_add_r. replace (32 - sizeLog + sizeLog) with 32 by lia. exact Hw.
Qed.

(* ------------------------------------------------------------------ every slot index stays inside the table *)
Lemma cm_mask_ones m : cm_mask m = N.ones (cm_log m).
Proof. unfold cm_mask, cm_size. rewrite N.ones_equiv. lia. Qed.

Lemma nexti_lt m i : nexti m i < cm_size m.
Proof.
  unfold nexti. rewrite cm_mask_ones, N.land_ones. unfold cm_size. apply N.mod_lt. apply N.pow_nonzero. discriminate.
Qed.

Lemma index_loop_lt : forall fuel m i key r, i < cm_size m -> index_loop fuel m i key = Some r -> r < cm_size m.
Proof.
  induction fuel as [|f IH]; intros m i key r Hi H; cbn [index_loop] in H; [discriminate|].
  destruct (snd (slot_at m i) =? MAP_EMPTY); [injection H as <-; exact Hi|].
  destruct (fst (slot_at m i) =? key); [injection H as <-; exact Hi|].
  eapply IH; [apply nexti_lt|exact H].
Qed.

(* COVER_map_index / COVER_map_at return a slot inside the table, for every table contents and key (sizeLog <= 32) *)
Lemma cmap_index_lt m key r : cm_log m <= 32 -> cmap_index m key = Some r -> r < cm_size m.
Proof. intros Hl H. unfold cmap_index in H. eapply index_loop_lt; [apply hashf_lt; exact Hl|exact H]. Qed.

Lemma set_nth_length {A} (l : list A) n x : length (set_nth l n x) = length l.
Proof. revert n; induction l as [|h t IH]; intros [|n]; cbn; auto. Qed.

Lemma cmap_at_lt m key m1 i : cm_log m <= 32 -> cmap_at m key = Some (m1, i) ->
  i < cm_size m /\ cm_log m1 = cm_log m /\ length (cm_slots m1) = length (cm_slots m).
Proof.
  intros Hl H. unfold cmap_at in H. destruct (cmap_index m key) as [j|] eqn:E; [|discriminate].
  pose proof (cmap_index_lt _ _ _ Hl E) as Hj.
  destruct (snd (slot_at m j) =? MAP_EMPTY); injection H as <- <-; cbn; rewrite ?set_nth_length; auto.
Qed.

(* ------------------------------------------------------------------ bounded agreement with the abstract contents *)
(* the tree exploration covers every operation sequence of at most n steps over the universe *)
Lemma agree_tree_run univ cap : forall n st, agree_tree univ cap n st = true ->
  forall ops, (length ops <= n)%nat -> (forall o, In o ops -> In o (all_ops univ)) -> agree_run univ cap st ops = true.
Proof.
  induction n as [|n IH]; intros st Ht ops Hlen Hin.
  - destruct ops; [reflexivity|cbn in Hlen; lia].
  - destruct ops as [|o r]; [reflexivity|].
    cbn [agree_tree] in Ht. rewrite forallb_forall in Ht.
    specialize (Ht o (Hin o (or_introl eq_refl))).
    cbn [agree_run]. destruct (step_ok univ cap st o) as [st1|]; [|discriminate].
    apply IH; [exact Ht|cbn in Hlen; lia|intros o' Ho'; apply Hin; right; exact Ho'].
Qed.

(* sizeLog 3 (8 slots): 8, 16, 21 have their home in the LAST slot (their probe sequences wrap around to slot 0),
   0 and 5 in slot 0 *)
Definition univ3 : list N := [8; 16; 21; 0; 5].
(* sizeLog 2 (4 slots, at most 3 live keys): 3, 8, 11 in the last slot, 0 in slot 0 *)
Definition univ2 : list N := [3; 8; 11; 0].

Lemma univ_homes :
  map (hashf 3) univ3 = [7; 7; 7; 0; 0] /\ map (hashf 2) univ2 = [3; 3; 3; 0].
Proof. vm_compute. split; reflexivity. Qed.

Lemma tree3 : agree_tree univ3 7 5 (cmap_clear 3, []) = true.
Proof. vm_compute. reflexivity. Qed.

Lemma tree2 : agree_tree univ2 3 6 (cmap_clear 2, []) = true.
Proof. vm_compute. reflexivity. Qed.

Lemma cover_map_agrees_3 ops : (length ops <= 5)%nat -> (forall o, In o ops -> In o (all_ops univ3)) ->
  agree_run univ3 7 (cmap_clear 3, []) ops = true.
Proof. apply agree_tree_run, tree3. Qed.

Lemma cover_map_agrees_2 ops : (length ops <= 6)%nat -> (forall o, In o ops -> In o (all_ops univ2)) ->
  agree_run univ2 3 (cmap_clear 2, []) ops = true.
Proof. apply agree_tree_run, tree2. Qed.

(* a full map: the probing loop of COVER_map_index never finds an empty slot ("it will loop forever"): the model runs out of fuel *)
Lemma full_map_probe_never_ends :
  cmap_run (cmap_clear 2) [OpAdd 3; OpAdd 8; OpAdd 11; OpAdd 0; OpAdd 4] = None.
Proof. vm_compute. reflexivity. Qed.
