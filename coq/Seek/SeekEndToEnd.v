(* C20 - composition: frame log of an archive -> seek table bytes -> loader -> reader.  For every list of frames
   (compressed size, content) the table the format prescribes loads back to a table for which the reader's
   hypotheses hold with x = the concatenation of the frame contents; hence every read history returns slices of x. *)
From Coq Require Import NArith ZArith List Bool Lia.
From ZV.Gen Require Import Gen_Seek.
From ZV.Seek Require Import SeekTable SeekBase SeekTableProofs SeekLoadProofs SeekLoadSafe.
From ZV.Seek Require Import SeekReader SeekReaderProofs.
Import ListNotations.
Local Open Scope N_scope.
Ltac Zify.zify_post_hook ::= Z.to_euclidean_division_equations.

Lemma firstN_map {A B} (f : A -> B) l n : firstN (map f l) n = map f (firstN l n).
Proof.
  revert n; induction l as [|a l IH]; intros n; cbn [map firstN]; [reflexivity|].
  destruct (n =? 0); [reflexivity|]. cbn [map]. now rewrite IH.
Qed.
Lemma nthN_map {A B} (f : A -> B) l n d : nthN (map f l) n (f d) = f (nthN l n d).
Proof.
  revert n; induction l as [|a l IH]; intros n; cbn [map nthN]; [reflexivity|].
  destruct (n =? 0); [reflexivity|]. apply IH.
Qed.
Lemma lenN_map {A B} (f : A -> B) l : lenN (map f l) = lenN l.
Proof. rewrite !lenN_eq, map_length. reflexivity. Qed.

Lemma skipN_nth {A} (l : list A) i d : i < lenN l -> skipN l i = nthN l i d :: skipN l (i + 1).
Proof.
  revert i; induction l as [|a l IH]; intros i Hi.
  - rewrite lenN_nil in Hi. lia.
  - rewrite lenN_cons in Hi. cbn [skipN nthN].
    destruct (N.eqb_spec i 0) as [->|Hn].
    + cbn [N.add N.eqb]. change (0 + 1 =? 0) with false. cbn [N.pred]. now rewrite skipN_0.
    + replace (i + 1 =? 0) with false by (symmetry; apply N.eqb_neq; lia).
      rewrite (IH (N.pred i)) by lia. do 2 f_equal. lia.
Qed.

Lemma sliceN_app_at' {A} (P X : list A) m : sliceN (P ++ X) (lenN P) m = firstN X m.
Proof. unfold sliceN. now rewrite skipN_app_len. Qed.

Lemma nthN_indep {A} (l : list A) i d d' : i < lenN l -> nthN l i d = nthN l i d'.
Proof.
  revert i; induction l as [|a l IH]; intros i Hi.
  - rewrite lenN_nil in Hi. lia.
  - rewrite lenN_cons in Hi. cbn [nthN]. destruct (N.eqb_spec i 0); [reflexivity|]. apply IH. lia.
Qed.

Definition frame := (N * list N)%type.        (* (compressed size, content) *)
Definition frame_ok (f : frame) : Prop := fst f < 4294967296 /\ lenN (snd f) < 4294967296.

Section EndToEnd.
  Variable H : list N -> N.
  Variable fl : bool.

  Definition entry_of (f : frame) : logent :=
    (fst f, lenN (snd f), if fl then H (snd f) mod 4294967296 else 0).
  Definition log_of (frames : list frame) : list logent := map entry_of frames.
  Definition content_of (frames : list frame) (i : N) : list N := nthN (map snd frames) i [].
  Definition whole (frames : list frame) : list N := concat (map snd frames).

  Lemma whole_app a b : whole (a ++ b) = whole a ++ whole b.
  Proof. unfold whole. now rewrite map_app, concat_app. Qed.
  Lemma whole_cons f r : whole (f :: r) = snd f ++ whole r.
  Proof. reflexivity. Qed.

  Lemma sumd_log_of frames : sumd (log_of frames) = lenN (whole frames).
  Proof.
    unfold log_of, whole. induction frames as [|[c x] r IH]; [reflexivity|].
    cbn [map sumd entry_of fst snd concat]. rewrite lenN_app, IH. reflexivity.
  Qed.

  Lemma log_of_ok frames : Forall frame_ok frames -> Forall logent_ok (log_of frames) /\ Forall dsize_ok (log_of frames).
  Proof.
    induction 1 as [|[c x] r [Hc Hx] _ [IH1 IH2]]; [split; constructor|].
    cbn [fst snd] in *. split; constructor; try assumption; cbn [entry_of fst snd].
    repeat split; try assumption. destruct fl; [apply N.mod_lt|]; lia.
  Qed.

  Lemma nthN_cum_k log c d i : i < lenN log ->
    e_k (nthN (cum fl log c d) i e0) = (if fl then snd (nthN log i (0, 0, 0)) else 0).
  Proof.
    revert c d i; induction log as [|[[cs ds] k] r IH]; intros c d i Hi.
    - rewrite lenN_nil in Hi. lia.
    - rewrite lenN_cons in Hi. cbn [cum nthN].
      destruct (N.eqb_spec i 0) as [->|Hn]; [reflexivity|]. apply IH. lia.
  Qed.

  Section Frames.
    Variable frames : list frame.
    Hypothesis Hfr : Forall frame_ok frames.
    Hypothesis Hnum : lenN frames <= MAXFRAMES.
    Let log := log_of frames.
    Let t := table_of fl log.
    Let x := whole frames.

    Lemma e2e_len : lenN log = lenN frames. Proof. apply lenN_map. Qed.
    Lemma e2e_small : lenN log < 4294967295.
    Proof. rewrite e2e_len. pose proof MAXFRAMES_le. lia. Qed.

    Lemma e2e_wf : wf_table t.
    Proof. apply table_of_wf; [apply e2e_small|apply log_of_ok, Hfr]. Qed.

    Lemma e2e_doff i : i <= lenN frames -> e_d (ent t i) = lenN (whole (firstN frames i)).
    Proof.
      intros Hi. unfold t. rewrite table_of_ent_d by (rewrite e2e_len; assumption).
      unfold log, log_of. rewrite firstN_map. apply sumd_log_of.
    Qed.

    Lemma e2e_frames : frames_match (content_of frames) t x.
    Proof.
      split.
      - unfold t at 2. cbn [table_of t_len]. rewrite e2e_doff by (rewrite e2e_len; lia).
        rewrite e2e_len, firstN_all by lia. reflexivity.
      - intros i Hi. unfold t in Hi. cbn [table_of t_len] in Hi. rewrite e2e_len in Hi.
        rewrite !e2e_doff by lia.
        assert (Hsplit : frames = firstN frames i ++ nthN frames i (0, []) :: skipN frames (i + 1)).
        { rewrite <- (firstN_skipN frames i) at 1. f_equal. now apply skipN_nth. }
        assert (Hc : content_of frames i = snd (nthN frames i (0, []))).
        { unfold content_of. apply (nthN_map snd frames i (0, [])). }
        set (ci := nthN frames i (0, [])) in *.
        assert (Hf1 : firstN frames (i + 1) = firstN frames i ++ [ci]).
        { rewrite firstN_plus. f_equal. rewrite (skipN_nth frames i (0, [])) by assumption. fold ci.
          cbn [firstN]. change (1 =? 0) with false. cbv iota. now rewrite firstN_0. }
        rewrite Hf1, whole_app, whole_cons. change (whole []) with (@nil N). rewrite app_nil_r, lenN_app.
        replace (lenN (whole (firstN frames i)) + lenN (snd ci) - lenN (whole (firstN frames i))) with (lenN (snd ci)) by lia.
        unfold x. replace (whole frames) with (whole (firstN frames i ++ ci :: skipN frames (i + 1))) by (now rewrite <- Hsplit).
        rewrite whole_app, whole_cons.
        rewrite sliceN_app_at', Hc.
        symmetry. apply firstN_app_len.
    Qed.

    Lemma e2e_sums : checksums_match H (content_of frames) t.
    Proof.
      intros Hf i Hi. unfold t in *. cbn [table_of t_len t_flag] in *.
      unfold ent, table_of. cbn [t_entries]. rewrite nthN_cum_k by assumption. rewrite Hf.
      unfold log, log_of in *. rewrite (nthN_indep _ i (0, 0, 0) (entry_of (0, []))) by assumption.
      rewrite nthN_map. cbn [entry_of snd]. rewrite Hf. unfold content_of.
      do 2 f_equal. apply (nthN_map snd frames i (0, [])).
    Qed.
  End Frames.
End EndToEnd.

Lemma archive_reads_back_lemma H fl frames pre buf0 NOPROG sfc :
  Forall frame_ok frames -> lenN frames <= MAXFRAMES -> lenN buf0 = sk_BUFF ->
  exists t, load_seek_table sk_BUFF (pre ++ seek_table_bytes (cf_of fl) (log_of H fl frames)) buf0 = Ok t /\
    forall h, Forall (fun c => op_in_range t (fst (fst c))) h ->
      history_ok H (content_of frames) sk_BUFF NOPROG t sfc (whole frames) rinit h.
Proof.
  intros Hfr Hn Hb. exists (table_of fl (log_of H fl frames)). split.
  - apply seektable_roundtrip_BUFF; [assumption| |apply log_of_ok, Hfr].
    unfold log_of. now rewrite lenN_map.
  - intros h Hh. apply range_read_history; try assumption.
    + now apply e2e_wf.
    + now apply e2e_frames.
    + now apply e2e_sums.
Qed.

(* ------------------------------------------------------------------ every checksumFlag value (fix 0531868)
   The table bytes depend on the flag through its truth value only - descriptor byte included - so the table written
   under ANY non-zero flag (2, 4, 256, ...) is the table written under 1, and the loader reads it back. *)
Lemma seek_table_bytes_flag cf log : seek_table_bytes cf log = seek_table_bytes (cf_of (flag_set cf)) log.
Proof.
  unfold seek_table_bytes, table_size, sfd_of.
  assert (E : flag_set (cf_of (flag_set cf)) = flag_set cf) by (destruct (flag_set cf); reflexivity).
  rewrite E. reflexivity.
Qed.

Lemma seektable_roundtrip_any_flag cf log pre buf0 :
  lenN buf0 = sk_BUFF -> lenN log <= MAXFRAMES -> Forall logent_ok log ->
  load_seek_table sk_BUFF (pre ++ seek_table_bytes cf log) buf0 = Ok (table_of (flag_set cf) log).
Proof.
  intros. rewrite seek_table_bytes_flag. apply seektable_roundtrip_BUFF; assumption.
Qed.

(* witness for the code before the fix: descriptor (BYTE)(2 << 7) = 0 over 12-byte entries *)
Example flag2_before_fix_descriptor_says_no_checksums : (2 * 128) mod 256 = 0 /\ flag_set 2 = true /\ sfd_of 2 = 128.
Proof. repeat split. Qed.
