(* C20 - XXH64 (seed 0) over byte lists, used to instantiate the hash parameter H of the seekable models when
   they are extracted and run against the real code (the theorems hold for ANY H).  Written from the XXH64
   specification; agreement with lib/common/xxhash.c is checked on every run through the checksum fields of
   the seek tables the real compressor writes.  Only a known-answer Example.                                  *)
From Coq Require Import NArith List.
Import ListNotations.
Local Open Scope N_scope.

Definition M64 : N := 18446744073709551616.
Definition XP1 : N := 0x9E3779B185EBCA87.
Definition XP2 : N := 0xC2B2AE3D27D4EB4F.
Definition XP3 : N := 0x165667B19E3779F9.
Definition XP4 : N := 0x85EBCA77C2B2AE63.
Definition XP5 : N := 0x27D4EB2F165667C5.

Definition MASK64 : N := 0xFFFFFFFFFFFFFFFF.
Definition m64 (x : N) : N := N.land x MASK64.                     (* x mod 2^64 *)
Definition rotl (x r : N) : N := N.lor (m64 (N.shiftl x r)) (N.shiftr x (64 - r)).
Definition xround (acc input : N) : N := m64 (rotl (m64 (acc + m64 (input * XP2))) 31 * XP1).
Definition xmerge (acc val : N) : N := m64 (m64 (N.lxor acc (xround 0 val) * XP1) + XP4).

Definition le64 (b0 b1 b2 b3 b4 b5 b6 b7 : N) : N :=
  b0 + 256 * (b1 + 256 * (b2 + 256 * (b3 + 256 * (b4 + 256 * (b5 + 256 * (b6 + 256 * b7)))))).

Fixpoint xstripes (l : list N) (n : N) (v1 v2 v3 v4 : N) {struct l} : list N * N * (N * N * N * N) :=
  if n <? 32 then (l, n, (v1, v2, v3, v4)) else
  match l with
  | a0 :: a1 :: a2 :: a3 :: a4 :: a5 :: a6 :: a7 :: b0 :: b1 :: b2 :: b3 :: b4 :: b5 :: b6 :: b7
    :: c0 :: c1 :: c2 :: c3 :: c4 :: c5 :: c6 :: c7 :: d0 :: d1 :: d2 :: d3 :: d4 :: d5 :: d6 :: d7 :: rest =>
      xstripes rest (n - 32)
               (xround v1 (le64 a0 a1 a2 a3 a4 a5 a6 a7)) (xround v2 (le64 b0 b1 b2 b3 b4 b5 b6 b7))
               (xround v3 (le64 c0 c1 c2 c3 c4 c5 c6 c7)) (xround v4 (le64 d0 d1 d2 d3 d4 d5 d6 d7))
  | _ => (l, n, (v1, v2, v3, v4))
  end.

Fixpoint xfin8 (l : list N) (n : N) (h : N) {struct l} : list N * N * N :=
  if n <? 8 then (l, n, h) else
  match l with
  | a0 :: a1 :: a2 :: a3 :: a4 :: a5 :: a6 :: a7 :: rest =>
      let k1 := xround 0 (le64 a0 a1 a2 a3 a4 a5 a6 a7) in
      xfin8 rest (n - 8) (m64 (m64 (rotl (N.lxor h k1) 27 * XP1) + XP4))
  | _ => (l, n, h)
  end.

Definition xfin4 (l : list N) (n : N) (h : N) : list N * N :=
  if n <? 4 then (l, h) else
  match l with
  | a0 :: a1 :: a2 :: a3 :: rest =>
      let w := a0 + 256 * (a1 + 256 * (a2 + 256 * a3)) in
      (rest, m64 (m64 (rotl (N.lxor h (m64 (w * XP1))) 23 * XP2) + XP3))
  | _ => (l, h)
  end.

Fixpoint xfin1 (l : list N) (h : N) : N :=
  match l with
  | [] => h
  | b :: rest => xfin1 rest (m64 (rotl (N.lxor h (m64 (b * XP5))) 11 * XP1))
  end.

Definition xavalanche (h : N) : N :=
  let h := N.lxor h (N.shiftr h 33) in
  let h := m64 (h * XP2) in
  let h := N.lxor h (N.shiftr h 29) in
  let h := m64 (h * XP3) in
  N.lxor h (N.shiftr h 32).

Definition xxh64 (l : list N) : N :=
  let n := N.of_nat (length l) in
  let '(rest, r, h0) :=
    if n <? 32 then (l, n, XP5)
    else
      let '(rest, r, (v1, v2, v3, v4)) := xstripes l n (m64 (XP1 + XP2)) XP2 0 (M64 - XP1) in
      let h := m64 (rotl v1 1 + rotl v2 7 + rotl v3 12 + rotl v4 18) in
      (rest, r, xmerge (xmerge (xmerge (xmerge h v1) v2) v3) v4) in
  let h := m64 (h0 + n) in
  let '(rest, r, h) := xfin8 rest r h in
  let '(rest, h) := xfin4 rest r h in
  xavalanche (xfin1 rest h).

(* known answers (xxhash reference): XXH64("") = EF46DB3751D8E999 *)
Example xxh64_empty : xxh64 [] = 0xEF46DB3751D8E999. Proof. vm_compute. reflexivity. Qed.
