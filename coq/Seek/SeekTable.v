(* C20 - model of the seek table of contrib/seekable_format (NO proofs in this file).

   zstdseek_compress.c : ZSTD_seekable_logFrame, ZSTD_stwrite32, ZSTD_seekable_writeSeekTable (resumable)
   zstdseek_decompress.c : ZSTD_seekable_loadSeekTable (chunked through inBuff[SEEKABLE_BUFF_SIZE]),
                           ZSTD_seekTable_offsetToFrameIndex, the accessors.

   C wrap-around is written explicitly (w32 / w64 / sub32).  Every place where the C code indexes an
   array carries a ghost range check that makes the model return [Trap site]; the theorems show that no
   Trap is reachable (index-level memory safety of the table code, for ALL input bytes).              *)
From Coq Require Import NArith List Bool.
From ZV.Gen Require Import Gen_Seek.
Import ListNotations.
Local Open Scope N_scope.

(* ------------------------------------------------------------------ basics *)
Inductive res (A : Type) : Type :=
| Ok (a : A)
| Err (code : N)        (* the C function returns ERROR(code) *)
| Trap (site : N).      (* ghost: the C code would use an out-of-range index at this site *)
Arguments Ok {A} _.
Arguments Err {A} _.
Arguments Trap {A} _.

Definition w32 (v : N) : N := v mod 4294967296.
Definition w64 (v : N) : N := v mod 18446744073709551616.
(* a - b in U32 / U64 arithmetic *)
Definition sub32 (a b : N) : N := w32 (w32 a + (4294967296 - w32 b)).
Definition sub64 (a b : N) : N := w64 (w64 a + (18446744073709551616 - w64 b)).

(* list access with binary indices (structural on the list; no unary numbers at run time) *)
Fixpoint skipN {A} (l : list A) (n : N) : list A :=
  match l with
  | [] => []
  | _ :: t => if n =? 0 then l else skipN t (N.pred n)
  end.
Fixpoint firstN {A} (l : list A) (n : N) : list A :=
  match l with
  | [] => []
  | x :: t => if n =? 0 then [] else x :: firstN t (N.pred n)
  end.
(* linear-time reverse (= rev, lemma revT_rev) *)
Definition revT {A} (l : list A) : list A := rev_append l [].
Definition sliceN {A} (l : list A) (a n : N) : list A := firstN (skipN l a) n.
(* length as a binary number, counted directly (= N.of_nat (length l), lemma lenN_eq) *)
Fixpoint lenN_aux {A} (l : list A) (acc : N) : N :=
  match l with [] => acc | _ :: t => lenN_aux t (N.succ acc) end.
Definition lenN {A} (l : list A) : N := lenN_aux l 0.
Fixpoint nthN {A} (l : list A) (n : N) (d : A) : A :=
  match l with
  | [] => d
  | x :: t => if n =? 0 then x else nthN t (N.pred n) d
  end.

(* little-endian 32-bit words *)
Definition le32 (v : N) : list N :=
  [v mod 256; (v / 256) mod 256; (v / 65536) mod 256; (v / 16777216) mod 256].
Definition rd32 (l : list N) : N :=
  match l with
  | a :: b :: c :: d :: _ => a + 256 * b + 65536 * c + 16777216 * d
  | _ => 0
  end.

(* ------------------------------------------------------------------ constants (regenerated) *)
Definition FOOTER := sk_FOOTER.          (* ZSTD_seekTableFooterSize = 9 *)
Definition SKIPHDR := sk_SKIPHDR.        (* ZSTD_SKIPPABLEHEADERSIZE = 8 *)
Definition MAGIC := sk_MAGIC.
Definition SKIPMAGIC := sk_SKIPMAGIC.    (* ZSTD_MAGIC_SKIPPABLE_START | 0xE *)
Definition MAXFRAMES := sk_MAXFRAMES.
Definition TOOLARGE := sk_TOOLARGE.      (* ZSTD_SEEKABLE_FRAMEINDEX_TOOLARGE *)
(* ERROR(name) as a size_t *)
Definition errval (code : N) : N := sub64 0 code.

(* ------------------------------------------------------------------ frame log (compressor side) *)
(* one framelogEntry_t : (cSize, dSize, checksum), all U32 *)
Definition logent := (N * N * N)%type.

(* ZSTD_seekable_logFrame *)
Definition log_frame (log : list logent) (c d k : N) : res (list logent) :=
  if lenN log =? MAXFRAMES then Err sk_E_frameIndex_tooLarge
  else Ok (log ++ [(w32 c, w32 d, w32 k)]).

(* checksumFlag is a C int: "set" means non-zero *)
Definition flag_set (cf : N) : bool := negb (cf =? 0).
Definition spe (fl : bool) : N := if fl then 12 else 8.
(* ZSTD_seekable_seekTableSize (size_t) *)
Definition table_size (cf : N) (n : N) : N := w64 (SKIPHDR + spe (flag_set cf) * n + FOOTER).
(* (BYTE)((checksumFlag != 0) << 7)   (fix 0531868: every other use of the flag is its truth value; before it the byte was
   (BYTE)(checksumFlag << 7), 0 for every even flag) *)
Definition sfd_of (cf : N) : N := if flag_set cf then 128 else 0.

Definition entry_bytes (fl : bool) (e : logent) : list N :=
  let '(c, d, k) := e in le32 c ++ le32 d ++ (if fl then le32 k else []).

(* the complete seek table frame, as a specification of what the writer emits *)
Definition seek_table_bytes (cf : N) (log : list logent) : list N :=
  le32 SKIPMAGIC ++ le32 (sub32 (table_size cf (lenN log)) SKIPHDR)
  ++ flat_map (entry_bytes (flag_set cf)) log
  ++ le32 (lenN log) ++ [sfd_of cf] ++ le32 MAGIC.

(* ---- resumable writer: ZSTD_stwrite32 / ZSTD_seekable_writeSeekTable ---- *)
Record wst := mkW { w_pos : N;      (* fl->seekTablePos (U32) *)
                    w_idx : N;      (* fl->seekTableIndex (U32) *)
                    w_avail : N;    (* output->size - output->pos *)
                    w_rout : list N (* bytes appended to output by this call, most recent first *) }.
Definition w_out (s : wst) : list N := revT (w_rout s).

(* continue / return a value *)
Inductive wstep := WCont (s : wst) | WRet (s : wst) (v : N) | WTrap (site : N).

Definition stwrite32 (total value offset : N) (s : wst) : wstep :=
  if w_pos s <? w32 (offset + 4) then
    let room := sub32 (offset + 4) (w_pos s) in
    let lenWrite := N.min (w_avail s) room in
    let skip := sub32 (w_pos s) offset in                 (* tmp + (seekTablePos - offset) *)
    if 4 <? skip + lenWrite then WTrap 1                   (* memcpy would read outside tmp[4] *)
    else
      let s' := mkW (w32 (w_pos s + lenWrite)) (w_idx s) (w_avail s - lenWrite)
                    (rev_append (sliceN (le32 value) skip lenWrite) (w_rout s)) in
      if lenWrite <? 4 then WRet s' (sub64 total (w_pos s')) else WCont s'
  else WCont s.

Definition wbind (x : wstep) (f : wst -> wstep) : wstep :=
  match x with WCont s => f s | other => other end.

(* the while loop over entries; [ents] = entries from index w_idx on (ghost: the C code indexes fl->entries) *)
Fixpoint write_entries (cf total : N) (ents : list logent) (s : wst) : wstep :=
  match ents with
  | [] => WCont s
  | (c, d, k) :: rest =>
      let start := w64 (SKIPHDR + spe (flag_set cf) * w_idx s) in
      wbind (stwrite32 total c (w32 start) s) (fun s =>
      wbind (stwrite32 total d (w32 (w32 start + 4)) s) (fun s =>
      wbind (if flag_set cf then stwrite32 total k (w32 (w32 start + 8)) s else WCont s) (fun s =>
      write_entries cf total rest (mkW (w_pos s) (w32 (w_idx s + 1)) (w_avail s) (w_rout s)))))
  end.

(* one call of ZSTD_seekable_writeSeekTable with [avail] bytes of room; state = (seekTablePos, seekTableIndex) *)
Definition write_call (cf : N) (log : list logent) (pos idx avail : N) : wstep :=
  let n := lenN log in
  let total := table_size cf n in
  let s0 := mkW pos idx avail [] in
  wbind (stwrite32 total SKIPMAGIC 0 s0) (fun s =>
  wbind (stwrite32 total (sub32 total SKIPHDR) 4 s) (fun s =>
  wbind (write_entries cf total (skipN log (w_idx s)) s) (fun s =>
  wbind (stwrite32 total (w32 n) (sub32 total FOOTER) s) (fun s =>
  if w_avail s <? 1 then WRet s (sub64 total (w_pos s))
  else
    let s := if w_pos s <? sub64 total 4
             then mkW (w32 (w_pos s + 1)) (w_idx s) (w_avail s - 1) (sfd_of cf :: w_rout s)
             else s in
    wbind (stwrite32 total MAGIC (sub32 total 4) s) (fun s =>
    if w_pos s =? total then WRet s 0 else WRet s (errval sk_E_GENERIC)))))).

(* a history of calls with the given output room each; result: per call (return value, bytes written) *)
Fixpoint write_history (cf : N) (log : list logent) (pos idx : N) (avails : list N)
  : list (res (N * list N)) :=
  match avails with
  | [] => []
  | a :: rest =>
      match write_call cf log pos idx a with
      | WRet s v => Ok (v, w_out s) :: write_history cf log (w_pos s) (w_idx s) rest
      | WCont s => [Trap 2]                 (* write_call always ends in a return *)
      | WTrap site => [Trap site]
      end
  end.

(* ------------------------------------------------------------------ loaded table (decompressor side) *)
Record seek_entry := mkE { e_c : N; e_d : N; e_k : N }.   (* seekEntry_t: cOffset U64, dOffset U64, checksum U32 *)
Record seek_table := mkT { t_entries : list seek_entry;   (* numFrames + 1 entries *)
                           t_len : N;                     (* tableLen *)
                           t_flag : bool }.

Definition e0 := mkE 0 0 0.
Definition ent (t : seek_table) (i : N) : seek_entry := nthN (t_entries t) i e0.
Definition in_range (t : seek_table) (i : N) : bool := i <? lenN (t_entries t).

(* what the table of a frame log is *)
Fixpoint cum (fl : bool) (log : list logent) (c d : N) : list seek_entry :=
  match log with
  | [] => [mkE c d 0]
  | (cs, ds, k) :: rest => mkE c d (if fl then k else 0) :: cum fl rest (c + cs) (d + ds)
  end.
Definition table_of (fl : bool) (log : list logent) : seek_table :=
  mkT (cum fl log 0 0) (lenN log) fl.

(* ---- ZSTD_seekable_loadSeekTable ---- *)
(* the source: an in-memory / regular file of known size; read and seek as ZSTD_seekable_read_buff/_seek_buff *)
Definition src_seek_end (file : list N) (back : N) : option N :=
  if lenN file <? back then None else Some (lenN file - back).
Definition src_read (file : list N) (fpos n : N) : option (list N * N) :=
  if lenN file <? fpos + n then None else Some (sliceN file fpos n, fpos + n).

(* write [data] at the start (offset [at]) of the BUFF-sized buffer, keeping the other bytes *)
Definition buf_store (buf : list N) (at_ : N) (data : list N) : list N :=
  firstN buf at_ ++ data ++ skipN buf (at_ + lenN data).

Record ldst := mkL { l_buf : list N;     (* zs->inBuff as of the last refill *)
                     l_pos : N;          (* pos (U32) *)
                     l_cur : list N;     (* the bytes of inBuff from pos on *)
                     l_rem : N;          (* remaining (U32) *)
                     l_fpos : N;         (* read head of the source *)
                     l_c : N; l_d : N;   (* cOffset, dOffset (U64) *)
                     l_idx : N;          (* idx (U32) *)
                     l_ents : list seek_entry  (* entries[0..idx), reversed *) }.

Definition ld_refill (BUFF : N) (file : list N) (s : ldst) : res ldst :=
  if BUFF <? l_pos s then Trap 10 else
  let offset := sub32 BUFF (l_pos s) in
  let toRead := N.min (l_rem s) (sub32 BUFF offset) in
  if BUFF <? l_pos s + offset then Trap 11               (* memmove source range *)
  else if BUFF <? offset + toRead then Trap 12           (* read destination range *)
  else match src_read file (l_fpos s) toRead with
       | None => Err sk_E_seekableIO
       | Some (data, fpos') =>
           let moved := firstN (l_cur s) offset in
           let buf' := buf_store (buf_store (l_buf s) 0 moved) offset data in
           Ok (mkL buf' 0 buf' (sub32 (l_rem s) toRead) fpos' (l_c s) (l_d s) (l_idx s) (l_ents s))
       end.

(* one iteration of the for loop *)
Definition ld_step (BUFF : N) (file : list N) (fl : bool) (alloc : N) (s : ldst) : res ldst :=
  let s1 := if BUFF <? w32 (l_pos s + spe fl) then ld_refill BUFF file s else Ok s in
  match s1 with
  | Ok s =>
      if alloc <=? l_idx s then Trap 13                   (* entries[idx] *)
      else if BUFF <? l_pos s + spe fl then Trap 14       (* MEM_readLE32(inBuff + pos ...) *)
      else
        let cs := rd32 (l_cur s) in
        let ds := rd32 (skipN (l_cur s) 4) in
        let k := if fl then rd32 (skipN (l_cur s) 8) else 0 in
        Ok (mkL (l_buf s) (w32 (l_pos s + spe fl)) (skipN (l_cur s) (spe fl)) (l_rem s) (l_fpos s)
                (w64 (l_c s + cs)) (w64 (l_d s + ds)) (w32 (l_idx s + 1))
                (mkE (l_c s) (l_d s) k :: l_ents s))
  | other => other
  end.

Fixpoint ld_loop (BUFF : N) (file : list N) (fl : bool) (alloc : N) (fuel : nat) (s : ldst) : res ldst :=
  match fuel with
  | O => Ok s
  | S f => match ld_step BUFF file fl alloc s with
           | Ok s' => ld_loop BUFF file fl alloc f s'
           | other => other
           end
  end.

Definition rbind {A B} (x : res A) (f : A -> res B) : res B :=
  match x with Ok a => f a | Err c => Err c | Trap t => Trap t end.

(* stage 1: read and check the footer.  [buf0] : the content of zs->inBuff before the call (arbitrary, BUFF bytes).
   Result: the buffer, the checksum flag, numFrames *)
Definition ld_footer (BUFF : N) (file : list N) (buf0 : list N) : res (list N * bool * N) :=
  match src_seek_end file FOOTER with
  | None => Err sk_E_seekableIO
  | Some fp =>
  match src_read file fp FOOTER with
  | None => Err sk_E_seekableIO
  | Some (foot, _) =>
  if BUFF <? FOOTER then Trap 20 else
  let buf := buf_store buf0 0 foot in
  if negb (rd32 (skipN buf 5) =? MAGIC) then Err sk_E_prefix_unknown else
  let sfd := nthN buf 4 0 in
  let fl := negb (sfd / 128 =? 0) in
  if negb ((sfd / 4) mod 32 =? 0) then Err sk_E_corruption_detected else
  Ok (buf, fl, rd32 buf)
  end end.

(* stage 2: size arithmetic (U32), read the first chunk of the frame, check the skippable header.
   Result: the state at the head of the entry loop *)
Definition ld_header (BUFF : N) (file : list N) (buf : list N) (fl : bool) (numFrames : N) : res ldst :=
  (* fix 56d8861: same limit as the writer; the U32 size arithmetic below cannot wrap then.  Before it a footer claiming
     k + m * 2^29 frames wrapped onto the size of a k-entry table and was accepted ([ld_header_old], witness only) *)
  if MAXFRAMES <? numFrames then Err sk_E_corruption_detected else
  let tableSize := w32 (spe fl * numFrames) in
  let frameSize := w32 (tableSize + FOOTER + SKIPHDR) in
  let remaining := sub32 frameSize FOOTER in
  let toRead := N.min remaining BUFF in
  match src_seek_end file frameSize with
  | None => Err sk_E_seekableIO
  | Some fp =>
  match src_read file fp toRead with
  | None => Err sk_E_seekableIO
  | Some (data, fp') =>
  let buf := buf_store buf 0 data in
  if negb (rd32 buf =? SKIPMAGIC) then Err sk_E_prefix_unknown else
  if negb (w32 (rd32 (skipN buf 4) + SKIPHDR) =? frameSize) then Err sk_E_prefix_unknown else
  Ok (mkL buf 8 (skipN buf 8) (sub32 remaining toRead) fp' 0 0 0 [])
  end end.

(* the size arithmetic and header checks as they were before fix 56d8861 (no limit on numFrames): refutation witness only *)
Definition ld_header_old (BUFF : N) (file : list N) (buf : list N) (fl : bool) (numFrames : N) : res ldst :=
  let tableSize := w32 (spe fl * numFrames) in
  let frameSize := w32 (tableSize + FOOTER + SKIPHDR) in
  let remaining := sub32 frameSize FOOTER in
  let toRead := N.min remaining BUFF in
  match src_seek_end file frameSize with
  | None => Err sk_E_seekableIO
  | Some fp =>
  match src_read file fp toRead with
  | None => Err sk_E_seekableIO
  | Some (data, fp') =>
  let buf := buf_store buf 0 data in
  if negb (rd32 buf =? SKIPMAGIC) then Err sk_E_prefix_unknown else
  if negb (w32 (rd32 (skipN buf 4) + SKIPHDR) =? frameSize) then Err sk_E_prefix_unknown else
  Ok (mkL buf 8 (skipN buf 8) (sub32 remaining toRead) fp' 0 0 0 [])
  end end.

Definition load_seek_table (BUFF : N) (file : list N) (buf0 : list N) : res seek_table :=
  rbind (ld_footer BUFF file buf0) (fun '(buf, fl, numFrames) =>
  rbind (ld_header BUFF file buf fl numFrames) (fun s0 =>
  let alloc := w32 (numFrames + 1) in                     (* malloc(sizeof(seekEntry_t) * (numFrames + 1)) *)
  rbind (ld_loop BUFF file fl alloc (N.to_nat numFrames) s0) (fun s =>
  if alloc <=? numFrames then Trap 15                     (* entries[numFrames] *)
  else Ok (mkT (revT (mkE (l_c s) (l_d s) 0 :: l_ents s)) numFrames fl)))).

(* ---- ZSTD_seekTable_offsetToFrameIndex ---- *)
Fixpoint o2f_loop (t : seek_table) (pos : N) (fuel : nat) (lo hi : N) : res N :=
  if w32 (lo + 1) <? hi then
    match fuel with
    | O => Trap 30                                        (* ghost: out of fuel = the C loop would still run *)
    | S f =>
        let mid := w32 (lo + (sub32 hi lo) / 2) in
        if negb (in_range t mid) then Trap 31
        else if e_d (ent t mid) <=? pos then o2f_loop t pos f mid hi else o2f_loop t pos f lo mid
    end
  else Ok lo.

Definition o2f_fuel (t : seek_table) : nat := S (N.to_nat (N.size (t_len t))).

Definition offset_to_frame (t : seek_table) (pos : N) : res N :=
  if negb (in_range t (t_len t)) then Trap 32
  else if e_d (ent t (t_len t)) <=? pos then Ok (w32 (t_len t))
  else o2f_loop t pos (o2f_fuel t) 0 (w32 (t_len t)).

(* ---- accessors (frameIndex is a C unsigned) ---- *)
Definition get_num_frames (t : seek_table) : N := w32 (t_len t).

Definition get_frame_c_offset (t : seek_table) (i : N) : res N :=
  if t_len t <=? i then Ok TOOLARGE
  else if negb (in_range t i) then Trap 40 else Ok (e_c (ent t i)).

Definition get_frame_d_offset (t : seek_table) (i : N) : res N :=
  if t_len t <=? i then Ok TOOLARGE
  else if negb (in_range t i) then Trap 41 else Ok (e_d (ent t i)).

Definition get_frame_c_size (t : seek_table) (i : N) : res N :=
  if t_len t <=? i then Ok (errval sk_E_frameIndex_tooLarge)
  else if negb (in_range t (w32 (i + 1))) then Trap 42
  else Ok (sub64 (e_c (ent t (w32 (i + 1)))) (e_c (ent t i))).

Definition get_frame_d_size (t : seek_table) (i : N) : res N :=
  if t_len t <=? i then Ok (errval sk_E_frameIndex_tooLarge)
  else if negb (in_range t (w32 (i + 1))) then Trap 43
  else Ok (sub64 (e_d (ent t (w32 (i + 1)))) (e_d (ent t i))).

(* model variant of the code before fix fcd1515 (frameIndex > tableLen): kept for the refutation witness *)
Definition get_frame_d_size_old (t : seek_table) (i : N) : res N :=
  if t_len t <? i then Ok (errval sk_E_frameIndex_tooLarge)
  else if negb (in_range t (w32 (i + 1))) then Trap 43
  else Ok (sub64 (e_d (ent t (w32 (i + 1)))) (e_d (ent t i))).
