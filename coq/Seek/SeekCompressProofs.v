(* C20 - proofs about the seekable compressor's bookkeeping (ZSTD_seekable_compressStream / endFrame / endStream):
   for every history of API calls and every behaviour of the inner ZSTD_CStream (oracle), the frame log describes
   exactly the partition of the consumed input into frames of at most maxFrameSize bytes, with the checksums of those
   frames, and the seek-table phase emits the table of that log whatever output room the calls are given. *)
From Coq Require Import NArith ZArith List Bool Lia.
From ZV.Gen Require Import Gen_Seek.
From ZV.Seek Require Import SeekTable SeekBase SeekLoadProofs SeekWriter SeekWriteProofs.
From ZV.Seek Require Import SeekEndToEnd.
Import ListNotations.
Local Open Scope N_scope.
Ltac Zify.zify_post_hook ::= Z.to_euclidean_division_equations.

Lemma lenN_revT {A} (l : list A) : lenN (revT l) = lenN l.
Proof. rewrite revT_rev, !lenN_eq, rev_length. reflexivity. Qed.
Lemma lenN_rev_append {A} (a b : list A) : lenN (rev_append a b) = lenN a + lenN b.
Proof. rewrite rev_append_rev, lenN_app, !lenN_eq, rev_length. reflexivity. Qed.
Lemma w32_add_idem a b : w32 (w32 a + b) = w32 (a + b).
Proof. unfold w32. apply N.add_mod_idemp_l. lia. Qed.
Lemma MAX_FRAME_DSIZE_eq : MAX_FRAME_DSIZE = 1073741824. Proof. reflexivity. Qed.

Section Compressor.
  Variable H : list N -> N.

  (* the bytes of the input consumed so far, as the model's ghost fields partition them *)
  Definition stream (s : cstate) : list N :=
    whole (map (fun f => (w32 (fst f), snd f)) (rev (g_frames s))) ++ revT (g_cur s).

  Definition norm_frames (s : cstate) : list frame := map (fun f => (w32 (fst f), snd f)) (rev (g_frames s)).

  Record CInv (s : cstate) : Prop := {
    ci_mfs : 1 <= c_mfs s <= 1073741824;
    ci_fd : c_fd s = lenN (g_cur s) /\ c_fd s <= c_mfs s;
    ci_acc : c_acc s = if flag_set (c_cf s) then g_cur s else [];
    ci_fc : c_fc s = w32 (g_emit s);
    ci_log : c_log s = log_of H (flag_set (c_cf s)) (norm_frames s);
    ci_sizes : Forall (fun f => lenN (snd f) <= c_mfs s) (g_frames s);
    ci_n : lenN (c_log s) <= MAXFRAMES;
    ci_tab : if c_wst s
             then WI (c_cf s) (c_log s) (c_stpos s) (c_stidx s) /\
                  g_table s = sliceN (seek_table_bytes (c_cf s) (c_log s)) 0 (c_stpos s) /\ g_cur s = []
             else c_stpos s = 0 /\ c_stidx s = 0 /\ g_table s = []
  }.

  Lemma c_init_inv cf m s : c_init cf m = Ok s -> CInv s /\ stream s = [] /\ c_cf s = cf /\ c_wst s = false.
  Proof.
    unfold c_init. rewrite MAX_FRAME_DSIZE_eq.
    destruct (N.ltb_spec 1073741824 m); [discriminate|]. intros E. injection E as <-.
    split; [|conj_split; reflexivity].
    constructor; cbn [c_mfs c_fd g_cur c_acc c_cf c_fc g_emit c_log g_frames c_wst c_stpos c_stidx g_table].
    - destruct (N.eqb_spec m 0); lia.
    - split; [reflexivity|]. destruct (N.eqb_spec m 0); lia.
    - now destruct (flag_set cf).
    - reflexivity.
    - reflexivity.
    - constructor.
    - unfold MAXFRAMES, sk_MAXFRAMES. cbn. lia.
    - conj_split; reflexivity.
  Qed.

  (* ---- ZSTD_seekable_endFrame ---- *)
  Lemma end_frame_inv s orc r : CInv s -> c_wst s = false -> c_end_frame H s orc = Some r ->
    CInv (cr_st r) /\ stream (cr_st r) = stream s /\ c_wst (cr_st r) = false /\ c_cf (cr_st r) = c_cf s /\
    c_mfs (cr_st r) = c_mfs s /\ cr_consumed r = 0 /\
    (cr_ret r = 0 -> g_cur (cr_st r) = [] /\ lenN (c_log (cr_st r)) = lenN (c_log s) + 1).
  Proof.
    intros [Im [Ifd1 Ifd2] Iacc Ifc Ilog Isz In Itab] Hw.
    unfold c_end_frame. destruct orc as [|[?|produced ret] orc']; try discriminate.
    rewrite Hw in Itab. destruct Itab as (Tp & Ti & Tt).
    destruct (N.eqb_spec ret 0) as [->|Hret]; cbn [negb].
    2:{ intros E. injection E as <-. cbn [cr_st cr_consumed cr_ret].
        split; [|conj_split; try assumption; try reflexivity; try (intros; lia)].
        constructor; cbn [c_mfs c_fd g_cur c_acc c_cf c_fc g_emit c_log g_frames c_wst c_stpos c_stidx g_table];
          try assumption; try (split; assumption).
        - rewrite Ifc. apply w32_add_idem.
        - rewrite Hw. conj_split; assumption. }
    cbn [c_log c_fc c_fd c_cf c_acc]. unfold log_frame.
    destruct (N.eqb_spec (lenN (c_log s)) MAXFRAMES) as [Efull|Hroom].
    { intros E. injection E as <-. cbn [cr_st cr_consumed cr_ret].
      split; [|conj_split; try assumption; try reflexivity].
      - constructor; cbn [c_mfs c_fd g_cur c_acc c_cf c_fc g_emit c_log g_frames c_wst c_stpos c_stidx g_table];
          try assumption; try (split; assumption).
        + rewrite Ifc. apply w32_add_idem.
        + rewrite Hw. conj_split; assumption.
      - intros E0. exfalso. revert E0. unfold errval, sub64, w64. cbn. discriminate. }
    intros E. injection E as <-. cbn [cr_st cr_consumed cr_ret].
    set (content := revT (g_cur s)).
    assert (Hcl : lenN content = c_fd s) by (unfold content; rewrite lenN_revT; symmetry; assumption).
    assert (Hchk : w32 (if flag_set (c_cf s) then H (revT (c_acc s)) mod 4294967296 else 0) =
                   (if flag_set (c_cf s) then H content mod 4294967296 else 0)).
    { rewrite Iacc. destruct (flag_set (c_cf s)); [|reflexivity]. fold content.
      apply w32_small. apply N.mod_lt. lia. }
    split; [|conj_split; try reflexivity].
    - constructor; cbn [c_mfs c_fd g_cur c_acc c_cf c_fc g_emit c_log g_frames c_wst c_stpos c_stidx g_table];
        try assumption; try reflexivity.
      + split; [reflexivity|lia].
      + now destruct (flag_set (c_cf s)).
      + unfold norm_frames. cbn [g_frames rev]. rewrite map_app. cbn [map fst snd].
        unfold log_of. rewrite map_app. rewrite Ilog. unfold log_of, norm_frames.
        f_equal. unfold entry_of. cbn [map fst snd]. rewrite Hchk, Hcl, Ifc, w32_add_idem.
        rewrite (w32_small (c_fd s)) by lia. rewrite (w32_small (w32 _)) by apply w32_lt. reflexivity.
      + constructor; [cbn [snd]; fold content; lia|assumption].
      + rewrite lenN_app. change (lenN [_]) with 1. lia.
      + rewrite Hw. conj_split; assumption.
    - unfold stream. cbn [g_frames g_cur rev]. rewrite map_app, whole_app. cbn [map fst snd].
      rewrite whole_cons. cbn [snd]. change (whole []) with (@nil N).
      change (revT []) with (@nil N). rewrite ?app_nil_r. reflexivity.
    - assumption.
    - intros _. split; [reflexivity|]. cbn [c_log]. rewrite lenN_app. reflexivity.
  Qed.

  (* ---- ZSTD_seekable_compressStream ---- *)
  Lemma compress_body_inv s inp orc r : CInv s -> c_wst s = false -> c_compress_body H s inp orc = Some r ->
    CInv (cr_st r) /\ stream (cr_st r) = stream s ++ firstN inp (cr_consumed r) /\ c_wst (cr_st r) = false /\
    c_cf (cr_st r) = c_cf s /\ c_mfs (cr_st r) = c_mfs s /\ cr_consumed r <= lenN inp.
  Proof.
    intros I Hw. pose proof I as [Im [Ifd1 Ifd2] Iacc Ifc Ilog Isz In Itab].
    unfold c_compress_body.
    rewrite (sub32_small (c_mfs s) (c_fd s)) by lia.
    set (inLen := N.min (lenN inp) (c_mfs s - c_fd s)).
    (* the inner ZSTD_compressStream call *)
    assert (Hstep : forall ret s1 orc1 k,
      (if 0 <? inLen
       then match orc with
            | ICompress consumed produced ret :: orc' =>
                let k := N.min consumed inLen in
                let fed := firstN inp k in
                let acc' := if flag_set (c_cf s) then rev_append fed (c_acc s) else c_acc s in
                Some (ret,
                      mkC (c_log s) (w32 (c_fc s + produced)) (w32 (c_fd s + k)) acc' (c_mfs s) (c_cf s) (c_wst s) (c_pend s)
                          (c_stpos s) (c_stidx s) (rev_append fed (g_cur s)) (g_emit s + produced) (g_frames s) (g_table s),
                      orc', k)
            | _ => None
            end
       else Some (0, s, orc, 0)) = Some (ret, s1, orc1, k) ->
      CInv s1 /\ stream s1 = stream s ++ firstN inp k /\ c_wst s1 = false /\ c_cf s1 = c_cf s /\
      c_mfs s1 = c_mfs s /\ k <= lenN inp).
    { intros ret s1 orc1 k. destruct (0 <? inLen).
      - destruct orc as [|[consumed produced ret0|? ?] orc']; try discriminate.
        cbv zeta. intros E. injection E as <- <- <- <-.
        set (k := N.min consumed inLen).
        assert (Hk : k <= lenN inp /\ c_fd s + k <= c_mfs s) by (unfold k, inLen; lia).
        assert (Hfl : lenN (firstN inp k) = k) by (rewrite lenN_firstN; lia).
        split; [|conj_split; try reflexivity; try assumption; try lia].
        + constructor; cbn [c_mfs c_fd g_cur c_acc c_cf c_fc g_emit c_log g_frames c_wst c_stpos c_stidx g_table];
            try assumption.
          * rewrite (w32_small (c_fd s + k)) by lia. rewrite lenN_rev_append, Hfl. lia.
          * rewrite Iacc. now destruct (flag_set (c_cf s)).
          * rewrite Ifc. apply w32_add_idem.
          * rewrite Hw in *. assumption.
        + unfold stream. cbn [g_frames g_cur]. rewrite revT_rev_append. now rewrite app_assoc.
      - intros E. injection E as <- <- <- <-. rewrite firstN_0, app_nil_r.
        conj_split; try reflexivity; try assumption; lia. }
    match goal with |- match ?X with _ => _ end = _ -> _ => destruct X as [[[[ret s1] orc1] k]|] eqn:E1 end; [|discriminate].
    destruct (Hstep ret s1 orc1 k eq_refl) as (I1 & S1 & W1 & F1 & M1 & K1). clear Hstep E1.
    destruct (is_error ret).
    { intros E. injection E as <-. cbn [cr_st cr_consumed]. conj_split; assumption. }
    destruct (c_mfs s1 =? c_fd s1).
    - destruct (c_end_frame H s1 orc1) as [r'|] eqn:E2; [|discriminate].
      destruct (end_frame_inv s1 orc1 r' I1 W1 E2) as (I2 & S2 & W2 & F2 & M2 & _).
      intros E. injection E as <-. cbn [cr_st cr_consumed].
      conj_split; try assumption; congruence.
    - intros E. injection E as <-. cbn [cr_st cr_consumed]. conj_split; assumption.
  Qed.

  (* the whole call (fix 9f11afe): a pending frame end is completed first *)
  Lemma compress_inv s inp orc r : CInv s -> c_wst s = false -> c_compress H s inp orc = Some r ->
    CInv (cr_st r) /\ stream (cr_st r) = stream s ++ firstN inp (cr_consumed r) /\ c_wst (cr_st r) = false /\
    c_cf (cr_st r) = c_cf s /\ c_mfs (cr_st r) = c_mfs s /\ cr_consumed r <= lenN inp.
  Proof.
    intros I Hw. unfold c_compress. destruct (c_pend s); [|apply compress_body_inv; assumption].
    destruct (c_end_frame H s orc) as [r'|] eqn:E2; [|discriminate].
    destruct (end_frame_inv s orc r' I Hw E2) as (I2 & S2 & W2 & F2 & M2 & C2 & _).
    destruct (negb (cr_ret r' =? 0)).
    - intros E. injection E as <-. cbn [cr_st cr_consumed]. rewrite firstN_0, app_nil_r.
      conj_split; try assumption. lia.
    - intros E. destruct (compress_body_inv (cr_st r') inp (cr_orc r') r I2 W2 E) as (I3 & S3 & W3 & F3 & M3 & K3).
      conj_split; try assumption; congruence.
  Qed.

  (* ---- ZSTD_seekable_endStream ---- *)
  (* a ZSTD_endStream result is an error code or a (small) number of bytes still to flush; without this the sum
     "endFrame + seekTableSize" could wrap around to 0 *)
  Definition sane (i : inner) : Prop :=
    match i with IEnd _ ret => is_error ret = true \/ ret < 9223372036854775808 | _ => True end.

  Lemma end_stream_inv s avail orc r : CInv s -> Forall sane orc -> c_end_stream H s avail orc = Some r ->
    CInv (cr_st r) /\ stream (cr_st r) = stream s /\ c_cf (cr_st r) = c_cf s /\ c_mfs (cr_st r) = c_mfs s /\
    cr_consumed r = 0 /\
    (c_wst s = true -> c_log (cr_st r) = c_log s /\ c_wst (cr_st r) = true) /\
    (cr_ret r = 0 -> c_wst (cr_st r) = true /\ g_table (cr_st r) = seek_table_bytes (c_cf s) (c_log (cr_st r))).
  Proof.
    intros I Hsane. unfold c_end_stream.
    (* state at the start of the table phase *)
    assert (Hpre : forall s1 orc1 used,
      (if c_wst s then Some (None, s, orc, 0)
       else match c_end_frame H s orc with
            | None => None
            | Some r =>
                let produced := match orc with IEnd p _ :: _ => p | _ => 0 end in
                if is_error (cr_ret r) then Some (Some (cr_ret r), cr_st r, cr_orc r, produced)
                else if negb (cr_ret r =? 0)
                     then Some (Some (w64 (cr_ret r + table_size (c_cf s) (lenN (c_log (cr_st r))))), cr_st r, cr_orc r, produced)
                     else Some (None, cr_st r, cr_orc r, produced)
            end) = Some (None, s1, orc1, used) ->
      CInv s1 /\ stream s1 = stream s /\ c_cf s1 = c_cf s /\ c_mfs s1 = c_mfs s /\
      (c_wst s = false -> g_cur s1 = [] /\ c_wst s1 = false) /\ (c_wst s = true -> s1 = s)).
    { intros s1 orc1 used. destruct (c_wst s) eqn:Hw.
      - intros E. injection E as <- <- <-. conj_split; try reflexivity; try assumption; intros; try discriminate; reflexivity.
      - destruct (c_end_frame H s orc) as [r'|] eqn:E2; [|discriminate].
        destruct (end_frame_inv s orc r' I Hw E2) as (I2 & S2 & W2 & F2 & M2 & _ & Z2).
        cbv zeta. destruct (is_error (cr_ret r')); [discriminate|].
        destruct (N.eqb_spec (cr_ret r') 0) as [E0|]; cbn [negb]; [|discriminate].
        intros E. injection E as <- <- <-. conj_split; try assumption.
        + intros _. split; [apply (Z2 E0)|assumption].
        + intros; discriminate. }
    (* early returns *)
    assert (Hearly : forall v s1 orc1 used,
      (if c_wst s then Some (None, s, orc, 0)
       else match c_end_frame H s orc with
            | None => None
            | Some r =>
                let produced := match orc with IEnd p _ :: _ => p | _ => 0 end in
                if is_error (cr_ret r) then Some (Some (cr_ret r), cr_st r, cr_orc r, produced)
                else if negb (cr_ret r =? 0)
                     then Some (Some (w64 (cr_ret r + table_size (c_cf s) (lenN (c_log (cr_st r))))), cr_st r, cr_orc r, produced)
                     else Some (None, cr_st r, cr_orc r, produced)
            end) = Some (Some v, s1, orc1, used) ->
      CInv s1 /\ stream s1 = stream s /\ c_cf s1 = c_cf s /\ c_mfs s1 = c_mfs s /\ c_wst s1 = false /\ c_wst s = false /\
      v <> 0).
    { intros v s1 orc1 used. destruct (c_wst s) eqn:Hw; [discriminate|].
      destruct (c_end_frame H s orc) as [r'|] eqn:E2; [|discriminate].
      destruct (end_frame_inv s orc r' I Hw E2) as (I2 & S2 & W2 & F2 & M2 & _ & Z2).
      cbv zeta. destruct (is_error (cr_ret r')) eqn:Eerr.
      - intros E. injection E as <- <- <- <-. conj_split; try assumption; try reflexivity.
        intros E0. rewrite E0 in Eerr. discriminate.
      - destruct (N.eqb_spec (cr_ret r') 0) as [E0|Hne]; cbn [negb]; [discriminate|].
        intros E. injection E as <- <- <- <-. conj_split; try assumption; try reflexivity.
        (* ret + table size does not wrap to 0: ret is not an error code, the table size is small *)
        unfold is_error in Eerr. apply N.ltb_ge in Eerr.
        pose proof (ci_n _ I2) as Hn2. pose proof MAXFRAMES_le.
        assert (Hts : table_size (c_cf s) (lenN (c_log (cr_st r'))) <= 17 + 12 * 134217728).
        { unfold table_size. rewrite SKIPHDR_eq, FOOTER_eq.
          pose proof (spe_bounds (flag_set (c_cf s))). rewrite w64_small by nia. nia. }
        assert (Hret : cr_ret r' < 9223372036854775808).
        { unfold c_end_frame in E2. destruct orc as [|[?|produced ret0] orc']; try discriminate.
          apply Forall_inv in Hsane. cbn [sane] in Hsane.
          destruct (N.eqb_spec ret0 0) as [->|Hr0]; cbn [negb] in E2.
          - unfold log_frame in E2. cbn [c_log] in E2. destruct (lenN (c_log s) =? MAXFRAMES); cbv beta iota in E2; injection E2 as <-; cbn [cr_ret] in *; try lia.
            exfalso. revert Eerr. vm_compute. intros E; apply E; reflexivity.
          - injection E2 as <-. cbn [cr_ret] in *. destruct Hsane as [He|?]; [|assumption]. unfold is_error in He. apply N.ltb_lt in He. lia. }
        rewrite w64_small by lia. lia. }
    match goal with |- match ?X with _ => _ end = _ -> _ => destruct X as [[[[[v|] s1] orc1] used]|] eqn:E1 end; [| |discriminate].
    - destruct (Hearly v s1 orc1 used eq_refl) as (I1 & S1 & F1 & M1 & W1 & W0 & Hv).
      intros E. injection E as <-. cbn [cr_st cr_consumed cr_ret].
      conj_split; try assumption; try reflexivity.
      + rewrite W0. discriminate.
      + intros E0. contradiction.
    - destruct (Hpre s1 orc1 used eq_refl) as (I1 & S1 & F1 & M1 & Hf & Ht). clear Hpre Hearly E1.
      pose proof I1 as [Im [Ifd1 Ifd2] Iacc Ifc Ilog Isz In Itab].
      assert (Hwi : WI (c_cf s1) (c_log s1) (c_stpos s1) (c_stidx s1) /\
                    g_table s1 = sliceN (seek_table_bytes (c_cf s1) (c_log s1)) 0 (c_stpos s1) /\ g_cur s1 = []).
      { destruct (c_wst s1) eqn:Hw1; [assumption|]. destruct Itab as (-> & -> & ->).
        split; [|split; [now rewrite sliceN_0|]].
        - unfold WI. conj_split; lia.
        - destruct (c_wst s) eqn:Hw0; [|apply Hf; reflexivity].
          rewrite (Ht eq_refl) in Hw1. congruence. }
      destruct Hwi as (Hwi & Htab & Hcur).
      pose proof (write_call_spec (c_cf s1) (c_log s1) In (c_stpos s1) (c_stidx s1) (avail - used) Hwi) as X.
      destruct (write_call (c_cf s1) (c_log s1) (c_stpos s1) (c_stidx s1) (avail - used)) as [?|w v|?];
        cbn [call_post] in X; try contradiction.
      destruct X as ([Clo Chi Cout Cav] & -> & Wi' & _).
      intros E. injection E as <-. cbn [cr_st cr_consumed cr_ret].
      conj_split; try assumption; try reflexivity.
      + (* invariant of the new state *)
        constructor; cbn [c_mfs c_fd g_cur c_acc c_cf c_fc g_emit c_log g_frames c_wst c_stpos c_stidx g_table];
          try assumption; try (split; assumption).
        split; [assumption|]. split; [|assumption].
        rewrite Htab, Cout. rewrite <- sliceN_plus. f_equal. lia.
      + intros Hw0. rewrite (Ht Hw0). split; reflexivity.
      + intros Ev. split; [reflexivity|]. cbn [g_table c_log].
        rewrite Htab, Cout, <- sliceN_plus.
        pose proof (T_len (c_cf s1) (c_log s1) In) as HT.
        replace (c_stpos s1 + (w_pos w - c_stpos s1)) with (lenN (seek_table_bytes (c_cf s1) (c_log s1))) by lia.
        rewrite F1 in *. apply sliceN_all.
  Qed.

  (* ---- histories of API calls ---- *)
  (* the API contract: no compressStream / endFrame once the seek-table phase has started; sane inner results *)
  Definition op_pre (s : cstate) (op : cop) : Prop :=
    match op with
    | OpCompress _ _ | OpEndFrame _ => c_wst s = false
    | OpEndStream _ orc => Forall sane orc
    end.
  Fixpoint ops_ok (s : cstate) (ops : list cop) : Prop :=
    match ops with
    | [] => True
    | op :: rest => op_pre s op /\
                    match c_op H s op with Some r => ops_ok (cr_st r) rest | None => True end
    end.
  (* the input bytes the calls consumed *)
  Fixpoint fed_of (ops : list cop) (rets : list (N * N)) : list N :=
    match ops, rets with
    | OpCompress inp _ :: o, (_, k) :: r => firstN inp k ++ fed_of o r
    | _ :: o, _ :: r => fed_of o r
    | _, _ => []
    end.

  Lemma op_inv s op r : CInv s -> op_pre s op -> c_op H s op = Some r ->
    CInv (cr_st r) /\ c_cf (cr_st r) = c_cf s /\ c_mfs (cr_st r) = c_mfs s /\
    stream (cr_st r) = stream s ++ (match op with OpCompress inp _ => firstN inp (cr_consumed r) | _ => [] end) /\
    (match op with
     | OpEndStream _ _ => cr_ret r = 0 -> c_wst (cr_st r) = true /\
                          g_table (cr_st r) = seek_table_bytes (c_cf s) (c_log (cr_st r))
     | _ => True
     end).
  Proof.
    intros I P E. destruct op as [inp orc|orc|avail orc]; cbn [c_op op_pre] in *.
    - destruct (compress_inv s inp orc r I P E) as (I1 & S1 & _ & F1 & M1 & _). conj_split; try assumption. exact Logic.I.
    - destruct (end_frame_inv s orc r I P E) as (I1 & S1 & _ & F1 & M1 & _). rewrite app_nil_r.
      conj_split; try assumption. exact Logic.I.
    - destruct (end_stream_inv s avail orc r I P E) as (I1 & S1 & F1 & M1 & _ & _ & Z). rewrite app_nil_r.
      conj_split; assumption.
  Qed.

  Lemma run_inv : forall ops s s' rets, CInv s -> ops_ok s ops -> c_run H s ops = Some (s', rets) ->
    CInv s' /\ c_cf s' = c_cf s /\ c_mfs s' = c_mfs s /\ stream s' = stream s ++ fed_of ops rets.
  Proof.
    induction ops as [|op rest IH]; intros s s' rets I Hok E; cbn [c_run] in E.
    - injection E as <- <-. cbn [fed_of]. rewrite app_nil_r. conj_split; try reflexivity; assumption.
    - destruct Hok as [P Hrest].
      destruct (c_op H s op) as [r|] eqn:Eop; [|discriminate].
      destruct (op_inv s op r I P Eop) as (I1 & F1 & M1 & S1 & _).
      destruct (cr_orc r); [|discriminate].
      destruct (c_run H (cr_st r) rest) as [[s2 l]|] eqn:Erun; [|discriminate].
      injection E as <- <-.
      destruct (IH (cr_st r) s2 l I1 Hrest Erun) as (I2 & F2 & M2 & S2).
      conj_split; try assumption; try congruence.
      rewrite S2, S1, <- app_assoc. f_equal.
      destruct op; reflexivity.
  Qed.
End Compressor.

(* ------------------------------------------------------------------ closed statement *)
Lemma compressor_log_correct H cf m s0 ops s' rets :
  c_init cf m = Ok s0 -> ops_ok H s0 ops -> c_run H s0 ops = Some (s', rets) ->
  let frames := norm_frames s' in
  c_log s' = log_of H (flag_set cf) frames /\
  Forall (fun f => lenN (snd f) <= c_mfs s') frames /\ 1 <= c_mfs s' <= 1073741824 /\
  lenN (c_log s') <= MAXFRAMES /\
  whole frames ++ revT (g_cur s') = fed_of ops rets /\
  (c_wst s' = true -> g_cur s' = [] /\ exists n, g_table s' = firstN (seek_table_bytes cf (c_log s')) n).
Proof.
  intros E0 Hok Erun frames.
  destruct (c_init_inv H cf m s0 E0) as (I0 & S0 & F0 & _).
  destruct (run_inv H ops s0 s' rets I0 Hok Erun) as (I1 & F1 & M1 & S1).
  pose proof I1 as [[Im1 Im2] Ifd Iacc Ifc Ilog Isz In Itab].
  rewrite F1, F0 in *. conj_split; try assumption.
  - unfold frames, norm_frames. apply Forall_forall. intros f Hf. apply in_map_iff in Hf.
    destruct Hf as (g & <- & Hg). cbn [snd]. apply in_rev in Hg. revert g Hg. now apply Forall_forall.
  - rewrite S0 in S1. exact S1.
  - intros Hw. rewrite Hw in Itab. destruct Itab as (_ & Ht & Hc). split; [assumption|].
    eexists. rewrite Ht. unfold sliceN. now rewrite skipN_0.
Qed.

Lemma compressor_table_complete H cf m s0 ops avail orc s' rets k :
  c_init cf m = Ok s0 -> ops_ok H s0 (ops ++ [OpEndStream avail orc]) ->
  c_run H s0 (ops ++ [OpEndStream avail orc]) = Some (s', rets ++ [(0, k)]) -> lenN rets = lenN ops ->
  g_table s' = seek_table_bytes cf (c_log s') /\ g_cur s' = [].
Proof.
  intros E0. destruct (c_init_inv H cf m s0 E0) as (I0 & _ & F0 & _). clear E0. revert s0 I0 F0 rets.
  induction ops as [|op rest IH]; intros s0 I0 F0 rets Hok Erun Hlen.
  - destruct rets; [|rewrite lenN_cons, lenN_nil in Hlen; lia].
    cbn [app c_run] in Erun. destruct Hok as [P _]. cbn [app] in *.
    destruct (c_op H s0 (OpEndStream avail orc)) as [r|] eqn:Eop; [|discriminate].
    destruct (cr_orc r); [|discriminate]. injection Erun as <- Er Ek.
    destruct (op_inv H s0 _ r I0 P Eop) as (I1 & F1 & _ & _ & Z). destruct (Z Er) as [Hw Ht].
    split; [now rewrite <- F0|].
    pose proof (ci_tab H _ I1) as Tb. rewrite Hw in Tb. tauto.
  - destruct rets as [|[r0 k0] rets]; [rewrite lenN_cons, lenN_nil in Hlen; lia|].
    cbn [app c_run] in Erun. destruct Hok as [P Hrest]. cbn [app] in *.
    destruct (c_op H s0 op) as [r|] eqn:Eop; [|discriminate].
    destruct (op_inv H s0 op r I0 P Eop) as (I1 & F1 & _).
    destruct (cr_orc r); [|discriminate].
    destruct (c_run H (cr_st r) (rest ++ [OpEndStream avail orc])) as [[s2 l]|] eqn:Erun2; [|discriminate].
    injection Erun as <- _ _ El.
    apply (IH (cr_st r) I1 ltac:(congruence) rets Hrest); [now rewrite Erun2, El|].
    rewrite !lenN_cons in Hlen. lia.
Qed.

(* the hypotheses are satisfiable and the model computes: maxFrameSize 2, checksums on, 3 bytes in two calls, then
   endStream with plenty of room: two frames [1;2] and [3], table complete *)
Definition exc_H (l : list N) : N := fold_left (fun a b => a * 31 + b) l 7.
Definition exc_ops : list cop :=
  [OpCompress [1; 2; 3] [ICompress 2 5 0; IEnd 3 0]; OpCompress [3] [ICompress 1 4 1]; OpEndStream 100 [IEnd 2 0]].
Example exc_run : exists s0 s',
  c_init 1 2 = Ok s0 /\ c_run exc_H s0 exc_ops = Some (s', [(2, 2); (1, 1); (0, 0)]) /\
  c_log s' = [(8, 2, exc_H [1; 2] mod 4294967296); (6, 1, exc_H [3] mod 4294967296)] /\
  g_table s' = seek_table_bytes 1 (c_log s').
Proof.
  eexists. eexists. split; [reflexivity|]. split; [vm_compute; reflexivity|]. split; vm_compute; reflexivity.
Qed.
Example exc_ok : forall s0, c_init 1 2 = Ok s0 -> ops_ok exc_H s0 exc_ops.
Proof.
  intros s0 E. injection E as <-. unfold exc_ops.
  cbn [ops_ok op_pre]. split; [reflexivity|].
  match goal with |- match ?X with _ => _ end => let v := eval vm_compute in X in change X with v end. cbv beta iota.
  cbn [ops_ok op_pre cr_st]. split; [reflexivity|].
  match goal with |- match ?X with _ => _ end => let v := eval vm_compute in X in change X with v end. cbv beta iota.
  cbn [ops_ok op_pre cr_st]. split; [|].
  - constructor; [|constructor]. right. reflexivity.
  - match goal with |- match ?X with _ => _ end => let v := eval vm_compute in X in change X with v end. exact I.
Qed.

(* ZSTD_seekable_compressStream looks at no more than maxFrameSize bytes of the input it is offered: the
   correspondence driver may therefore hand the model the first maxFrameSize bytes only (a performance clamp) *)
Lemma c_compress_body_input_prefix H s inp orc : c_fd s <= c_mfs s -> c_mfs s < 4294967296 ->
  c_compress_body H s inp orc = c_compress_body H s (firstN inp (c_mfs s)) orc.
Proof.
  intros Hfd Hm. unfold c_compress_body.
  rewrite (sub32_small (c_mfs s) (c_fd s)) by lia.
  rewrite lenN_firstN.
  replace (N.min (N.min (c_mfs s) (lenN inp)) (c_mfs s - c_fd s)) with (N.min (lenN inp) (c_mfs s - c_fd s)) by lia.
  set (inLen := N.min (lenN inp) (c_mfs s - c_fd s)).
  destruct (0 <? inLen); [|reflexivity].
  destruct orc as [|[consumed produced ret|? ?] orc']; try reflexivity.
  assert (E : firstN (firstN inp (c_mfs s)) (N.min consumed inLen) = firstN inp (N.min consumed inLen)).
  { rewrite firstN_firstN. f_equal. unfold inLen. lia. }
  cbv zeta. rewrite E. reflexivity.
Qed.

Lemma end_frame_mfs_fd H s orc r : c_end_frame H s orc = Some r ->
  c_mfs (cr_st r) = c_mfs s /\ (c_fd (cr_st r) = c_fd s \/ c_fd (cr_st r) = 0).
Proof.
  unfold c_end_frame. destruct orc as [|[?|produced ret] orc']; try discriminate.
  destruct (negb (ret =? 0)).
  - intros E. injection E as <-. cbn. auto.
  - cbn [c_log c_fc c_fd c_cf c_acc c_mfs].
    match goal with |- match ?X with _ => _ end = _ -> _ => destruct X end; try discriminate;
      intros E; injection E as <-; cbn; auto.
Qed.

Lemma c_compress_input_prefix H s inp orc : c_fd s <= c_mfs s -> c_mfs s < 4294967296 ->
  c_compress H s inp orc = c_compress H s (firstN inp (c_mfs s)) orc.
Proof.
  intros Hfd Hm. unfold c_compress. destruct (c_pend s); [|apply c_compress_body_input_prefix; assumption].
  destruct (c_end_frame H s orc) as [r|] eqn:E; [|reflexivity].
  destruct (negb (cr_ret r =? 0)); [reflexivity|].
  destruct (end_frame_mfs_fd H s orc r E) as [Em Ef].
  rewrite <- Em. apply c_compress_body_input_prefix; rewrite Em; [|assumption].
  destruct Ef as [-> | ->]; lia.
Qed.

(* ------------------------------------------------------------------ one seek-table entry = one zstd frame (fix 9f11afe)
   The inner ZSTD_CStream ends a zstd frame when ZSTD_endStream returns 0 - or, when a ZSTD_endStream has returned > 0 and
   ZSTD_compressStream is called next, inside that ZSTD_compressStream call, which then starts a NEW frame that the
   seekable layer would keep counting into the same table entry.  [inner_seq_ok ending l]: in the sequence l of inner calls
   no ZSTD_compressStream is issued while an end is pending ([ending] = a ZSTD_endStream returned a non-error value > 0
   and none has returned 0 since).  Every API call history, every inner behaviour, no contract on the caller. *)
Fixpoint inner_seq_ok (ending : bool) (l : list inner) : Prop :=
  match l with
  | [] => True
  | ICompress _ _ _ :: r => ending = false /\ inner_seq_ok false r
  | IEnd _ ret :: r => inner_seq_ok (if ret =? 0 then false else if is_error ret then ending else true) r
  end.
Fixpoint inner_seq_end (ending : bool) (l : list inner) : bool :=
  match l with
  | [] => ending
  | ICompress _ _ _ :: r => inner_seq_end false r
  | IEnd _ ret :: r => inner_seq_end (if ret =? 0 then false else if is_error ret then ending else true) r
  end.
Definition orc_of (op : cop) : list inner :=
  match op with OpCompress _ o => o | OpEndFrame o => o | OpEndStream _ o => o end.

Lemma inner_seq_app e a b : inner_seq_ok e (a ++ b) <-> inner_seq_ok e a /\ inner_seq_ok (inner_seq_end e a) b.
Proof.
  revert e. induction a as [|[c p r|p r] a IH]; intros e; cbn [app inner_seq_ok inner_seq_end].
  - tauto.
  - rewrite IH. tauto.
  - apply IH.
Qed.
Lemma inner_seq_end_app e a b : inner_seq_end e (a ++ b) = inner_seq_end (inner_seq_end e a) b.
Proof. revert e. induction a as [|[c p r|p r] a IH]; intros e; cbn [app inner_seq_end]; auto. Qed.

Section OneEntryOneFrame.
  Variable H : list N -> N.

  (* what an API call does with its oracle: it consumes a prefix [used], issued in an order that respects the pending end *)
  Definition uses (s : cstate) (orc : list inner) (r : cret) : Prop :=
    exists used, orc = used ++ cr_orc r /\ inner_seq_ok (c_pend s) used /\ inner_seq_end (c_pend s) used = c_pend (cr_st r).

  Lemma end_frame_uses s orc r : c_end_frame H s orc = Some r -> uses s orc r.
  Proof.
    unfold c_end_frame. destruct orc as [|[?|produced ret] orc']; try discriminate.
    destruct (N.eqb_spec ret 0) as [->|Hr]; cbn [negb].
    - cbn [c_log c_fc c_fd c_cf c_acc].
      match goal with |- match ?X with _ => _ end = _ -> _ => destruct X end; try discriminate;
        intros E; injection E as <-; exists [IEnd produced 0]; cbn; auto.
    - intros E. injection E as <-. exists [IEnd produced ret]. cbn [app cr_orc cr_st c_pend inner_seq_ok inner_seq_end].
      replace (ret =? 0) with false by (symmetry; apply N.eqb_neq; assumption). auto.
  Qed.

  Lemma uses_nil s orc st' v k out : c_pend st' = c_pend s -> uses s orc (mkCR v k st' orc out).
  Proof. intros E. exists []. cbn. auto. Qed.

  Lemma uses_trans s orc r1 r2 : uses s orc r1 -> uses (cr_st r1) (cr_orc r1) r2 ->
    forall v k out, uses s orc (mkCR v k (cr_st r2) (cr_orc r2) out).
  Proof.
    intros (u1 & E1 & O1 & P1) (u2 & E2 & O2 & P2) v k out. exists (u1 ++ u2). cbn [cr_orc cr_st].
    split; [rewrite E1, E2, app_assoc; reflexivity|]. split.
    - apply inner_seq_app. rewrite P1. auto.
    - rewrite inner_seq_end_app, P1. assumption.
  Qed.

  Lemma compress_body_uses s inp orc r : c_pend s = false -> c_compress_body H s inp orc = Some r -> uses s orc r.
  Proof.
    intros Hp. unfold c_compress_body.
    set (inLen := N.min (lenN inp) (sub32 (c_mfs s) (c_fd s))).
    destruct (0 <? inLen).
    - destruct orc as [|[consumed produced ret|? ?] orc']; try discriminate. cbv zeta.
      set (s1 := mkC _ _ _ _ _ _ _ _ _ _ _ _ _ _).
      assert (U1 : uses s (ICompress consumed produced ret :: orc') (mkCR ret 0 s1 orc' [])).
      { exists [ICompress consumed produced ret]. cbn [app cr_orc cr_st inner_seq_ok inner_seq_end]. unfold s1. cbn [c_pend]. auto. }
      destruct (is_error ret).
      { intros E. injection E as <-. destruct U1 as (u & ? & ? & ?). exists u. auto. }
      destruct (c_mfs s1 =? c_fd s1).
      + destruct (c_end_frame H s1 orc') as [r'|] eqn:E2; [|discriminate].
        intros E. injection E as <-.
        exact (uses_trans _ _ _ _ U1 (end_frame_uses s1 orc' r' E2) _ _ _).
      + intros E. injection E as <-. destruct U1 as (u & ? & ? & ?). exists u. auto.
    - destruct (is_error 0) eqn:E0; [discriminate E0|].
      destruct (c_mfs s =? c_fd s).
      + destruct (c_end_frame H s orc) as [r'|] eqn:E2; [|discriminate].
        intros E. injection E as <-.
        destruct (end_frame_uses s orc r' E2) as (u & ? & ? & ?). exists u. auto.
      + intros E. injection E as <-. apply uses_nil. reflexivity.
  Qed.

  Lemma compress_uses s inp orc r : c_compress H s inp orc = Some r -> uses s orc r.
  Proof.
    unfold c_compress. destruct (c_pend s) eqn:Hp; [|apply compress_body_uses; assumption].
    destruct (c_end_frame H s orc) as [r'|] eqn:E2; [|discriminate].
    pose proof (end_frame_uses s orc r' E2) as U1.
    destruct (N.eqb_spec (cr_ret r') 0) as [Ez|Hnz]; cbn [negb].
    - intros E.
      assert (Hp' : c_pend (cr_st r') = false).
      { revert E2 Ez. unfold c_end_frame. destruct orc as [|[?|produced ret] orc']; try discriminate.
        destruct (N.eqb_spec ret 0) as [->|Hr]; cbn [negb].
        - cbn [c_log c_fc c_fd c_cf c_acc].
          match goal with |- match ?X with _ => _ end = _ -> _ => destruct X end; try discriminate;
            intros E3; injection E3 as <-; reflexivity.
        - intros E3. injection E3 as <-. cbn [cr_ret]. intros; contradiction. }
      pose proof (compress_body_uses (cr_st r') inp (cr_orc r') r Hp' E) as U2.
      destruct r as [v k st o out].
      exact (uses_trans _ _ _ _ U1 U2 v k out).
    - intros E. injection E as <-. destruct U1 as (u & ? & ? & ?). exists u. cbn [cr_orc cr_st]. auto.
  Qed.

  Lemma end_stream_uses s avail orc r : c_end_stream H s avail orc = Some r -> uses s orc r.
  Proof.
    unfold c_end_stream. destruct (c_wst s).
    - cbv beta iota. destruct (write_call _ _ _ _ _); try discriminate.
      intros E. injection E as <-. apply uses_nil. reflexivity.
    - destruct (c_end_frame H s orc) as [r'|] eqn:E2; [|discriminate].
      destruct (end_frame_uses _ _ _ E2) as (u & Eu & Ou & Pu).
      destruct (is_error (cr_ret r')).
      { intros E. injection E as <-. exists u. cbn [cr_orc cr_st]. auto. }
      destruct (negb (cr_ret r' =? 0)).
      { intros E. injection E as <-. exists u. cbn [cr_orc cr_st]. auto. }
      cbv beta iota. destruct (write_call _ _ _ _ _); try discriminate.
      intros E. injection E as <-. exists u. cbn [cr_orc cr_st c_pend]. auto.
  Qed.

  Lemma op_uses s op r : c_op H s op = Some r -> uses s (orc_of op) r.
  Proof.
    destruct op as [inp orc|orc|avail orc]; cbn [c_op orc_of].
    - apply compress_uses.
    - apply end_frame_uses.
    - apply end_stream_uses.
  Qed.

  (* EVERY history of API calls (no contract at all), EVERY inner behaviour: the inner calls the seekable layer makes,
     in order, never contain a ZSTD_compressStream issued while a ZSTD_endStream is incomplete *)
  Lemma run_uses : forall ops s s' rets, c_run H s ops = Some (s', rets) ->
    inner_seq_ok (c_pend s) (flat_map orc_of ops) /\ inner_seq_end (c_pend s) (flat_map orc_of ops) = c_pend s'.
  Proof.
    induction ops as [|op rest IH]; intros s s' rets E; cbn [c_run flat_map] in *.
    - injection E as <- <-. cbn. auto.
    - destruct (c_op H s op) as [r|] eqn:Eop; [|discriminate].
      destruct (op_uses s op r Eop) as (u & Eu & Ou & Pu).
      destruct (cr_orc r); [|discriminate]. rewrite app_nil_r in Eu. subst u.
      destruct (c_run H (cr_st r) rest) as [[s2 l]|] eqn:Erun; [|discriminate].
      injection E as <- <-.
      destruct (IH (cr_st r) s2 l Erun) as [O2 P2].
      split.
      + apply inner_seq_app. rewrite Pu. auto.
      + rewrite inner_seq_end_app, Pu. assumption.
  Qed.
End OneEntryOneFrame.

Lemma one_entry_one_frame H cf m s0 ops s' rets :
  c_init cf m = Ok s0 -> c_run H s0 ops = Some (s', rets) -> inner_seq_ok false (flat_map orc_of ops).
Proof.
  intros E0 Erun. destruct (run_uses H ops s0 s' rets Erun) as [O _].
  unfold c_init in E0. destruct (MAX_FRAME_DSIZE <? m); [discriminate|]. injection E0 as <-. exact O.
Qed.

(* witness for the code before fix 9f11afe (ZSTD_seekable_compressStream = c_compress_body, no pending test): after an
   endFrame that returned 17 the next compressStream hands its input to the inner ZSTD_compressStream *)
Example before_fix_compresses_into_pending_end :
  exists s0 r1 r2, c_init 0 0 = Ok s0 /\
    c_end_frame exc_H s0 [IEnd 2 17] = Some r1 /\ c_pend (cr_st r1) = true /\
    c_compress_body exc_H (cr_st r1) [5; 6] [ICompress 2 19 7] = Some r2 /\ cr_consumed r2 = 2 /\
    ~ inner_seq_ok false [IEnd 2 17; ICompress 2 19 7].
Proof.
  eexists. eexists. eexists. split; [reflexivity|]. split; [vm_compute; reflexivity|]. split; [reflexivity|].
  split; [vm_compute; reflexivity|]. split; [reflexivity|]. cbn. intros [E _]. discriminate.
Qed.
