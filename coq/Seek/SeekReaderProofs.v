(* C20 - proofs about the reader model (ZSTD_seekable_decompress / decompressFrame): every range of every read
   history returns exactly the content slice; the cache state stays consistent whatever the decoder's pacing. *)
From Coq Require Import NArith ZArith List Bool Lia.
From ZV.Gen Require Import Gen_Seek.
From ZV.Seek Require Import SeekTable SeekBase SeekTableProofs.
From ZV.Seek Require Import SeekReader.
Import ListNotations.
Local Open Scope N_scope.
Ltac Zify.zify_post_hook ::= Z.to_euclidean_division_equations.

Lemma rev_append_rev' {A} (a b : list A) : rev_append a b = rev a ++ b.
Proof. apply rev_append_rev. Qed.

Lemma firstN_sliceN_app {A} (l : list A) p k : firstN l p ++ sliceN l p k = firstN l (p + k).
Proof. unfold sliceN. symmetry. apply firstN_plus. Qed.

Lemma store_after (a s b : list N) n k : lenN a = n -> lenN b = k ->
  buf_store (a ++ s) n b = a ++ b ++ skipN s k.
Proof.
  intros <- Hb. unfold buf_store. rewrite firstN_app_len, Hb. rewrite skipN_app_r by lia.
  f_equal. f_equal. f_equal. lia.
Qed.

Section ReaderProofs.
  Variable H : list N -> N.
  Variable content : N -> list N.
  Variables BUFF NOPROG : N.
  Variable t : seek_table.
  Variable sfc : bool.
  Variable x : list N.
  Hypothesis W : wf_table t.
  Notation D i := (e_d (ent t i)).
  Notation eos := (e_d (ent t (t_len t))).
  Hypothesis Hx : lenN x = eos.
  Hypothesis Hcontent : forall i, i < t_len t -> content i = sliceN x (D i) (D (i + 1) - D i).
  Hypothesis Hsum : t_flag t = true -> forall i, i < t_len t -> H (content i) mod 4294967296 = e_k (ent t i).

  Lemma Dmono i j : i <= j -> j <= t_len t -> D i <= D j.
  Proof. apply (wf_mono t W). Qed.
  Lemma D_eos i : i <= t_len t -> D i <= eos.
  Proof. intros. apply Dmono; lia. Qed.
  Lemma eos_lt : eos < 18446744073709551616.
  Proof. apply (wf_bound t W). Qed.
  Lemma tlen_small : t_len t < 4294967295.
  Proof. apply (wf_small t W). Qed.

  Lemma Lc i : i < t_len t -> lenN (content i) = D (i + 1) - D i.
  Proof.
    intros Hi. rewrite (Hcontent i Hi), lenN_sliceN, Hx.
    pose proof (Dmono i (i + 1) ltac:(lia) ltac:(lia)). pose proof (D_eos (i + 1) ltac:(lia)). lia.
  Qed.

  Lemma content_slice i p k : i < t_len t -> p + k <= lenN (content i) ->
    sliceN (content i) p k = sliceN x (D i + p) k.
  Proof.
    intros Hi Hpk. pose proof (Lc i Hi) as HL. rewrite (Hcontent i Hi) in *.
    apply sliceN_sliceN. lia.
  Qed.

  (* ---------------------------------------------------------------- cache invariant *)
  Definition InvA (st : rstate) : Prop :=
    r_cur st < t_len t /\ d_frame st = r_cur st /\ d_fin st = false /\
    d_prod st <= lenN (content (r_cur st)) /\ r_doff st = D (r_cur st) + d_prod st /\
    (t_flag t = true -> r_acc st = rev (firstN (content (r_cur st)) (d_prod st))).
  Definition Idle (st : rstate) : Prop :=
    (r_cur st < t_len t /\ D (r_cur st + 1) <= r_doff st) \/
    (r_cur st = t_len t /\ r_doff st = eos) \/
    t_len t < r_cur st.
  Definition Inv (st : rstate) : Prop := InvA st \/ Idle st.

  Lemma Inv_rinit : Inv rinit.
  Proof. right. right. right. cbn. pose proof tlen_small. lia. Qed.

  Lemma Inv_trace st tr : Inv st ->
    Inv (mkR (r_cur st) (r_doff st) (d_frame st) (d_prod st) (d_fin st) (r_acc st) tr).
  Proof. intros [A|I]; [left|right]; exact A || exact I. Qed.

  (* ---------------------------------------------------------------- one decoder call *)
  Lemma dcall_spec st space o : d_fin st = false -> d_prod st <= lenN (content (d_frame st)) ->
    exists k, k <= space /\ d_prod st + k <= lenN (content (d_frame st)) /\
      k = N.min (N.min (fst o) space) (lenN (content (d_frame st)) - d_prod st) /\
      dcall content st space o =
        (sliceN (content (d_frame st)) (d_prod st) k,
         snd o && (d_prod st + k =? lenN (content (d_frame st))),
         mkR (r_cur st) (r_doff st) (d_frame st) (d_prod st + k)
             (snd o && (d_prod st + k =? lenN (content (d_frame st)))) (r_acc st) (r_trace st)).
  Proof.
    intros Hf Hp. unfold dcall. rewrite Hf.
    set (c := content (d_frame st)).
    exists (N.min (N.min (fst o) space) (lenN c - d_prod st)).
    split; [lia|]. split; [fold c in Hp; lia|]. split; reflexivity.
  Qed.

  Section Call.
    Variables offset len : N.
    Variable dst0 : list N.
    Hypothesis Hrange : offset + len <= eos.
    Notation endpos := (offset + len).

    Lemma endpos_w64 : w64 (offset + len) = offset + len.
    Proof. pose proof eos_lt. apply w64_small. lia. Qed.

    Definition dst_ok (doff : N) (dst : list N) : Prop :=
      dst = sliceN x offset (doff - offset) ++ skipN dst0 (doff - offset).

    Record LI (st : rstate) (target : N) (dst : list N) : Prop := {
      li_t : target < t_len t;
      li_cur : r_cur st = target;
      li_fr : d_frame st = target;
      li_fin : d_fin st = false;
      li_p : d_prod st <= lenN (content target);
      li_doff : r_doff st = D target + d_prod st;
      li_acc : t_flag t = true -> r_acc st = rev (firstN (content target) (d_prod st));
      li_end : r_doff st <= endpos;
      li_dst : dst_ok (r_doff st) dst
    }.

    Lemma LI_InvA st target dst : LI st target dst -> InvA st.
    Proof.
      intros [? Hc ? ? ? ? ? ? ?]. unfold InvA. rewrite Hc. repeat split; assumption.
    Qed.

    Definition result_ok (r : rres) : Prop :=
      match r with
      | ROk v dst' st' => v = len /\ dst' = sliceN x offset len ++ skipN dst0 len /\ Inv st'
      | RErr c _ st' => c = sk_E_seekableIO /\ Inv st'
      | RFuel _ st' => Inv st'
      | RSpin _ => False
      | RTrap _ => False
      end.

    Definition is_ok (r : rres) : Prop := match r with ROk _ _ _ => True | _ => False end.
    Definition productive (o : N * bool) : Prop := 1 <= fst o /\ snd o = true.
    (* the decoder makes progress on every call and reports completion with the last byte of a frame; the oracle
       is long enough; the current frame is not exhausted *)
    Definition live (orc : list (N * bool)) (st : rstate) (target : N) : Prop :=
      Forall productive orc /\ 1 <= BUFF /\ endpos - r_doff st <= lenN orc /\
      d_prod st < lenN (content target).

    Notation FEnd target := (e_d (ent t (target + 1))).

    Lemma loop_cond_lt st target : r_doff st < endpos -> loop_cond t offset len st target = Ok true.
    Proof.
      intros Hl. unfold loop_cond. rewrite endpos_w64.
      now replace (r_doff st <? endpos) with true by (symmetry; apply N.ltb_lt; lia).
    Qed.

    Lemma loop_cond_end st target : r_doff st = endpos -> target < t_len t ->
      loop_cond t offset len st target = Ok ((0 <? len) && (endpos =? FEnd target)).
    Proof.
      intros E Ht. pose proof tlen_small. unfold loop_cond. rewrite endpos_w64, E, N.ltb_irrefl.
      rewrite (w32_small (target + 1)) by lia. rewrite (wf_in_range t (target + 1) W) by lia. cbn [negb].
      destruct (0 <? len); reflexivity.
    Qed.

    (* the read is complete and does not stop at the end of the current frame (or is empty): the call returns *)
    Lemma rloop_done orc st target np dst : r_doff st = endpos -> target < t_len t ->
      (0 <? len) && (endpos =? FEnd target) = false ->
      rloop H content BUFF NOPROG t sfc offset len orc st target np dst = ROk len dst st.
    Proof.
      intros E Ht Hc. destruct orc; cbn [rloop]; rewrite (loop_cond_end _ _ E Ht), Hc, endpos_w64, E, N.eqb_refl; reflexivity.
    Qed.

    Lemma buf_store_nil (dst : list N) pos : buf_store dst pos [] = dst.
    Proof. unfold buf_store. cbn [app]. rewrite lenN_nil, N.add_0_r. apply firstN_skipN. Qed.

    Lemma dst_ok_step doff k dst : dst_ok doff dst -> offset <= doff -> doff + k <= endpos ->
      dst_ok (doff + k) (buf_store dst (doff - offset) (sliceN x doff k)).
    Proof.
      unfold dst_ok. intros -> Ho He.
      set (m := doff - offset).
      assert (Hm : lenN (sliceN x offset m) = m) by (rewrite lenN_sliceN, Hx; unfold m; lia).
      assert (Hk : lenN (sliceN x doff k) = k) by (rewrite lenN_sliceN, Hx; lia).
      rewrite (store_after _ _ _ m k Hm Hk). rewrite skipN_skipN.
      replace (doff + k - offset) with (m + k) by (unfold m; lia).
      rewrite sliceN_plus. replace (offset + m) with doff by (unfold m; lia).
      now rewrite <- app_assoc.
    Qed.

    Lemma dst_ok_skip doff k dst : dst_ok doff dst -> doff + k <= offset -> dst_ok (doff + k) dst.
    Proof.
      unfold dst_ok. intros -> Hk.
      replace (doff - offset) with 0 by lia. replace (doff + k - offset) with 0 by lia. reflexivity.
    Qed.

    (* the read is complete and stops exactly where the table ends the current frame: the decoder is called with no output
       room until it reports the end of the frame; then the checksum is compared and the call returns *)
    Lemma rloop_exact_end : forall orc st target np dst, LI st target dst ->
      r_doff st = endpos -> 0 < len -> endpos = FEnd target ->
      result_ok (rloop H content BUFF NOPROG t sfc offset len orc st target np dst).
    Proof.
      pose proof eos_lt as Heos. pose proof tlen_small as Hts.
      induction orc as [|o orc IH]; intros st target np dst L Edone Hlen HFE.
      - cbn [rloop]. rewrite (loop_cond_end _ _ Edone (li_t _ _ _ L)).
        replace (0 <? len) with true by (symmetry; apply N.ltb_lt; lia).
        rewrite HFE, N.eqb_refl. cbn [andb]. cbn. left. eapply LI_InvA; eassumption.
      - pose proof L as L0.
        destruct L as [Lt Lcur Lfr Lfin Lp Ldoff Lacc Lend Ldst].
        pose proof (Lc target Lt) as HL.
        pose proof (Dmono target (target + 1) ltac:(lia) ltac:(lia)) as Hm1.
        pose proof (D_eos (target + 1) ltac:(lia)) as Hm2.
        cbn [rloop]. rewrite (loop_cond_end _ _ Edone Lt).
        replace (0 <? len) with true by (symmetry; apply N.ltb_lt; lia).
        rewrite HFE, N.eqb_refl. cbn [andb].
        rewrite (w32_small (target + 1)) by lia.
        rewrite (wf_in_range t (target + 1) W) by lia. cbn [negb].
        replace (r_doff st <? offset) with false by (symmetry; apply N.ltb_ge; lia).
        rewrite !sub64_small by lia.
        replace (e_d (ent t (target + 1)) - offset) with len by lia.
        replace (r_doff st - offset) with len by lia.
        rewrite N.min_id, N.ltb_irrefl, N.sub_diag.
        set (st0 := mkR (r_cur st) (r_doff st) (d_frame st) (d_prod st) (d_fin st) (r_acc st)
                        (EvCall false len len :: r_trace st)).
        destruct (dcall_spec st0 0 o) as (k & Hk1 & Hk2 & Hkdef & E).
        { exact Lfin. } { cbn [st0 d_prod d_frame]. rewrite Lfr. exact Lp. }
        cbn [st0 d_prod d_frame r_cur r_doff r_acc r_trace] in E, Hk2, Hkdef. rewrite Lfr in E, Hk2, Hkdef.
        rewrite E. clear E.
        assert (Ek : k = 0) by lia. clear Hkdef. subst k.
        set (c := content target) in *. set (p := d_prod st) in *.
        assert (Hp : p = lenN c) by (fold c in HL; lia).
        rewrite sliceN_0. rewrite N.add_0_r.
        replace (p =? lenN c) with true by (symmetry; apply N.eqb_eq; exact Hp).
        rewrite andb_true_r.
        cbv beta iota zeta. cbn [r_cur r_doff d_frame d_prod d_fin r_acc r_trace].
        rewrite lenN_nil, buf_store_nil. change (0 =? 0) with true. cbn [andb rev_append].
        assert (Hsame : (if t_flag t then r_acc st else r_acc st) = r_acc st) by (destruct (t_flag t); reflexivity).
        rewrite Hsame. rewrite N.add_0_r, (w64_small (r_doff st)) by lia.
        destruct (NOPROG <? np) eqn:Enp.
        { (* seekableIO *)
          cbn [result_ok]. split; [reflexivity|].
          destruct (snd o).
          - right. left. cbn [r_cur r_doff]. rewrite Lcur. split; [assumption|lia].
          - left. unfold InvA. cbn [r_cur r_doff d_frame d_prod d_fin r_acc]. rewrite Lcur. fold c.
            repeat split; try assumption; try reflexivity; try lia. }
        destruct (snd o) eqn:Eo.
        + (* the decoder reports the end of the frame: checksum, then return *)
          rewrite (wf_in_range t target W) by lia. cbn [negb].
          assert (Hchk : t_flag t && negb (H (revT (r_acc st)) mod 4294967296 =? e_k (ent t target)) = false).
          { case_eq (t_flag t); intros Ef; [|reflexivity]. cbn [andb].
            rewrite (Lacc Ef), revT_rev, rev_involutive. fold c p. rewrite Hp, firstN_all by lia.
            unfold c. rewrite (Hsum Ef target Lt), N.eqb_refl. reflexivity. }
          rewrite Hchk.
          assert (Hnew : sfc && (r_doff st <? e_d (ent t (target + 1))) = false).
          { replace (r_doff st <? e_d (ent t (target + 1))) with false by (symmetry; apply N.ltb_ge; lia). apply andb_false_r. }
          rewrite Hnew.
          rewrite <- HFE, endpos_w64, Edone, N.ltb_irrefl, N.eqb_refl.
          cbn. split; [reflexivity|]. split.
          * unfold dst_ok in Ldst. replace (r_doff st - offset) with len in Ldst by lia. exact Ldst.
          * right. left. cbn [r_cur r_doff]. rewrite Lcur. split; [assumption|lia].
        + (* not yet: same state, one more stalled call *)
          apply IH; try assumption.
          constructor; cbn [r_cur r_doff d_frame d_prod d_fin r_acc]; try assumption; try reflexivity; try lia.
    Qed.

    (* the read is complete *)
    Lemma rloop_at_end orc st target np dst : LI st target dst -> r_doff st = endpos ->
      result_ok (rloop H content BUFF NOPROG t sfc offset len orc st target np dst) /\
      (live orc st target -> is_ok (rloop H content BUFF NOPROG t sfc offset len orc st target np dst)).
    Proof.
      intros L Edone. pose proof (li_t _ _ _ L) as Lt0.
      destruct ((0 <? len) && (endpos =? FEnd target)) eqn:Ec.
      - apply andb_prop in Ec. destruct Ec as [E1 E2]. apply N.ltb_lt in E1. apply N.eqb_eq in E2.
        split; [apply rloop_exact_end; assumption|].
        intros (_ & _ & _ & Hav). exfalso.
        pose proof (Lc target Lt0) as HL. pose proof (li_doff _ _ _ L) as Hd.
        pose proof (Dmono target (target + 1) ltac:(lia) ltac:(pose proof tlen_small; lia)). lia.
      - rewrite rloop_done by assumption. split; [|intros _; exact I]. cbn. split; [reflexivity|]. split.
        + pose proof (li_dst _ _ _ L) as Hd. unfold dst_ok in Hd.
          replace (r_doff st - offset) with len in Hd by lia. exact Hd.
        + left. eapply LI_InvA; eassumption.
    Qed.

    Lemma rloop_ok : forall orc st target np dst, LI st target dst ->
      result_ok (rloop H content BUFF NOPROG t sfc offset len orc st target np dst) /\
      (live orc st target -> is_ok (rloop H content BUFF NOPROG t sfc offset len orc st target np dst)).
    Proof.
      pose proof eos_lt as Heos. pose proof tlen_small as Hts.
      induction orc as [|o orc IH]; intros st target np dst L.
      - pose proof (li_end _ _ _ L).
        destruct (N.eq_dec (r_doff st) endpos) as [Edone|Hnd]; [apply rloop_at_end; assumption|].
        cbn [rloop]. rewrite loop_cond_lt by lia.
        split; [cbn; left; eapply LI_InvA; eassumption|].
        intros (_ & _ & Hl & _). rewrite lenN_nil in Hl. lia.
      - destruct (N.eq_dec (r_doff st) endpos) as [Edone|Hnd]; [apply rloop_at_end; assumption|].
        destruct L as [Lt Lcur Lfr Lfin Lp Ldoff Lacc Lend Ldst].
        assert (Hlt : r_doff st < endpos) by lia.
        pose proof (Lc target Lt) as HL.
        pose proof (Dmono target (target + 1) ltac:(lia) ltac:(lia)) as Hm1.
        pose proof (D_eos (target + 1) ltac:(lia)) as Hm2.
        cbn [rloop]. rewrite (loop_cond_lt st target Hlt). cbv iota. rewrite endpos_w64.
        rewrite (w32_small (target + 1)) by lia.
        rewrite (wf_in_range t (target + 1) W) by lia. cbn [negb].
        set (FE := e_d (ent t (target + 1))) in *.
        assert (HdFE : r_doff st <= FE) by lia.
        set (skipping := r_doff st <? offset).
        set (size := if skipping then N.min BUFF (sub64 (N.min offset FE) (r_doff st)) else N.min len (sub64 FE offset)).
        set (pos := if skipping then 0 else sub64 (r_doff st) offset).
        assert (Hsp : (skipping = true /\ r_doff st < offset /\ size = N.min BUFF (N.min offset FE - r_doff st) /\ pos = 0) \/
                      (skipping = false /\ offset <= r_doff st /\ size = N.min len (FE - offset) /\ pos = r_doff st - offset)).
        { unfold size, pos, skipping. destruct (N.ltb_spec (r_doff st) offset).
          - left. rewrite sub64_small by lia. auto.
          - right. rewrite !sub64_small by lia. auto. }
        assert (Hps : pos <= size) by (destruct Hsp as [(_ & ? & -> & ->)|(_ & ? & -> & ->)]; lia).
        replace (size <? pos) with false by (symmetry; apply N.ltb_ge; lia).
        set (st0 := mkR (r_cur st) (r_doff st) (d_frame st) (d_prod st) (d_fin st) (r_acc st)
                        (EvCall skipping size pos :: r_trace st)).
        destruct (dcall_spec st0 (size - pos) o) as (k & Hk1 & Hk2 & Hkdef & E).
        { exact Lfin. } { cbn [st0 d_prod d_frame]. rewrite Lfr. exact Lp. }
        cbn [st0 d_prod d_frame r_cur r_doff r_acc r_trace] in E, Hk2, Hkdef. rewrite Lfr in E, Hk2, Hkdef.
        rewrite E. clear E.
        set (c := content target) in *. set (p := d_prod st) in *.
        set (bytes := sliceN c p k).
        set (fin := snd o && (p + k =? lenN c)).
        assert (Hbl : lenN bytes = k) by (unfold bytes; rewrite lenN_sliceN; lia).
        assert (Hbx : bytes = sliceN x (r_doff st) k).
        { unfold bytes, c. rewrite content_slice by (assumption || (fold c; lia)). now rewrite Ldoff. }
        cbv beta iota zeta. cbn [r_cur r_doff d_frame d_prod d_fin r_acc r_trace].
        rewrite Hbl.
        (* where the call leaves decompressedOffset *)
        assert (Hk3 : (skipping = true -> r_doff st + k <= offset) /\ r_doff st + k <= endpos).
        { destruct Hsp as [(-> & ? & Es & Ep)|(-> & ? & Es & Ep)]; rewrite Es, Ep in Hk1; split; try lia; discriminate. }
        destruct Hk3 as [Hk3 Hk4].
        rewrite (w64_small (r_doff st + k)) by lia.
        set (dst' := if skipping then dst else buf_store dst pos bytes).
        assert (Hdst' : dst_ok (r_doff st + k) dst').
        { unfold dst'. destruct Hsp as [(Es & ? & _ & _)|(Es & ? & _ & Ep)]; rewrite Es.
          - apply dst_ok_skip; [assumption|]. apply Hk3. assumption.
          - rewrite Ep, Hbx. apply dst_ok_step; assumption. }
        set (acc' := if t_flag t then rev_append bytes (r_acc st) else r_acc st).
        assert (Hacc' : t_flag t = true -> acc' = rev (firstN c (p + k))).
        { intros Hf. unfold acc'. rewrite Hf, rev_append_rev', (Lacc Hf). fold c p.
          rewrite <- rev_app_distr. f_equal. unfold bytes. apply firstN_sliceN_app. }
        (* under [live], this call produces at least one byte *)
        assert (Hlive0 : live (o :: orc) st target -> k <> 0).
        { intros (Hpr & HB & _ & Hav) Ek0. destruct (Forall_inv Hpr) as [Ho1 _].
          fold p c in Hav.
          (* k is the minimum of three positive numbers *)
          rewrite Ek0 in Hkdef.
          destruct Hsp as [(_ & ? & Es & Ep)|(_ & ? & Es & Ep)]; rewrite Es, Ep in Hkdef; lia. }
        (* no-progress counter *)
        destruct ((k =? 0) && (NOPROG <? np)) eqn:Enp.
        { (* seekableIO: k = 0, state unchanged up to the completion flag *)
          apply andb_prop in Enp. destruct Enp as [Ek0 _]. apply N.eqb_eq in Ek0.
          split; [|intros Lv; exfalso; apply (Hlive0 Lv); assumption].
          cbn [result_ok]. split; [reflexivity|].
          unfold fin. replace (p + k) with p by lia.
          destruct (snd o && (p =? lenN c)) eqn:Ef.
          - right. left. cbn [r_cur r_doff]. rewrite Lcur. split; [assumption|].
            apply andb_prop in Ef. destruct Ef as [_ Ef]. apply N.eqb_eq in Ef. fold c in HL. lia.
          - left. unfold InvA. cbn [r_cur r_doff d_frame d_prod d_fin r_acc]. rewrite Lcur. fold c p.
            repeat split; try assumption; try reflexivity; lia. }
        set (np' := if k =? 0 then w32 (np + 1) else 0).
        destruct fin eqn:Efin.
        + (* frame complete *)
          unfold fin in Efin. apply andb_prop in Efin. destruct Efin as [_ Efull]. apply N.eqb_eq in Efull.
          rewrite (wf_in_range t target W) by lia. cbn [negb].
          assert (Hchk : t_flag t && negb (H (revT acc') mod 4294967296 =? e_k (ent t target)) = false).
          { case_eq (t_flag t); intros Ef; [|reflexivity]. cbn [andb].
            rewrite (Hacc' Ef), revT_rev, rev_involutive, Efull, firstN_all by lia.
            unfold c. rewrite (Hsum Ef target Lt), N.eqb_refl. reflexivity. }
          rewrite Hchk.
          assert (Hd2 : r_doff st + k = D (target + 1)) by (fold c in HL; lia).
          assert (Hnew : sfc && (r_doff st + k <? FE) = false).
          { replace (r_doff st + k <? FE) with false by (symmetry; apply N.ltb_ge; unfold FE; lia). apply andb_false_r. }
          rewrite Hnew.
          destruct (N.ltb_spec (r_doff st + k) endpos) as [Hmore|Hstop].
          * (* move on to the frame containing the new offset *)
            destruct (offset_to_frame_spec t (r_doff st + k) W) as [_ Ho2f].
            destruct (Ho2f ltac:(lia)) as (tg & Etg & Htg & Htg1 & Htg2). rewrite Etg.
            rewrite (w32_small tg) by lia.
            assert (Htgne : tg <> target) by (intros ->; lia).
            assert (Htggt : target + 1 <= tg).
            { destruct (N.le_gt_cases (target + 1) tg); [assumption|].
              pose proof (Dmono (tg + 1) (target + 1) ltac:(lia) ltac:(lia)). lia. }
            assert (Htgd : D tg = r_doff st + k).
            { pose proof (Dmono (target + 1) tg ltac:(lia) ltac:(lia)). lia. }
            cbn [r_cur r_doff].
            replace (sfc && (tg =? r_cur st)) with false
              by (symmetry; rewrite Lcur; apply andb_false_intro2; apply N.eqb_neq; assumption).
            unfold prelude. cbn [r_cur r_doff].
            replace (tg =? r_cur st) with false by (symmetry; rewrite Lcur; apply N.eqb_neq; assumption).
            cbn [negb orb]. unfold restart. rewrite (wf_in_range t tg W) by lia. cbn [negb].
            pose proof (Lc tg Htg) as HLtg.
            match goal with |- context [rloop _ _ _ _ _ _ _ _ orc ?s3 tg ?n3 ?d3] =>
              destruct (IH s3 tg n3 d3) as [R1 R2] end.
            { constructor; cbn [r_cur r_doff d_frame d_prod d_fin r_acc]; try reflexivity; try lia.
              - intros _. now rewrite firstN_0.
              - rewrite Htgd. assumption. }
            split; [exact R1|]. intros Lv. apply R2.
            pose proof (Hlive0 Lv) as Hkn.
            destruct Lv as (Hpr & HB & Hl & _). pose proof (Forall_inv_tail Hpr) as Hpr'.
            unfold live. cbn [r_doff d_prod]. rewrite lenN_cons in Hl.
            split; [assumption|]. split; [assumption|]. split.
            -- clear - Hl Hkn Htgd. lia.
            -- clear - HLtg Htg2 Htgd. lia.
          * replace (r_doff st + k =? endpos) with true by (symmetry; apply N.eqb_eq; clear - Hk4 Hstop; lia).
            split; [|intros _; exact I].
            cbn. split; [reflexivity|]. split.
            -- unfold dst_ok in Hdst'. replace (r_doff st + k - offset) with len in Hdst' by (clear - Hk4 Hstop; lia). exact Hdst'.
            -- right. left. cbn [r_cur r_doff]. rewrite Lcur. split; [assumption|clear - Hd2; lia].
        + (* frame not complete: same frame, next call *)
          match goal with |- context [rloop _ _ _ _ _ _ _ _ orc ?s3 target ?n3 ?d3] =>
            destruct (IH s3 target n3 d3) as [R1 R2] end.
          { constructor; cbn [r_cur r_doff d_frame d_prod d_fin r_acc]; try assumption; try reflexivity;
              try (clear - Ldoff; lia); try lia. }
          split; [exact R1|]. intros Lv. apply R2.
          pose proof (Hlive0 Lv) as Hkn.
          destruct Lv as (Hpr & HB & Hl & Hav). destruct (Forall_inv Hpr) as [_ Ho2].
          pose proof (Forall_inv_tail Hpr) as Hpr'.
          unfold live. cbn [r_doff d_prod]. rewrite lenN_cons in Hl.
          unfold fin in Efin. rewrite Ho2 in Efin. cbn [andb] in Efin. apply N.eqb_neq in Efin.
          split; [assumption|]. split; [assumption|]. split.
          * clear - Hl Hkn. lia.
          * fold c p. clear - Hk2 Efin. lia.
    Qed.
  End Call.

  (* ---------------------------------------------------------------- ZSTD_seekable_decompress *)
  (* a decoder that makes progress for this call: oracle at least as long as the distance it may have to decode *)
  Definition live_call (offset len : N) (orc : list (N * bool)) : Prop :=
    Forall productive orc /\ 1 <= BUFF /\ offset + len <= lenN orc.

  Lemma decompress_ok st dst0 len offset orc : Inv st -> offset + len <= eos ->
    result_ok offset len dst0 (seekable_decompress H content BUFF NOPROG t sfc st dst0 len offset orc) /\
    (live_call offset len orc -> is_ok (seekable_decompress H content BUFF NOPROG t sfc st dst0 len offset orc)).
  Proof.
    intros I Hr. pose proof eos_lt as Heos. pose proof tlen_small as Hts.
    unfold seekable_decompress.
    rewrite (wf_in_range t (t_len t) W) by lia. cbn [negb].
    destruct (offset_to_frame_spec t offset W) as [Hbeyond Hin].
    destruct (N.leb_spec eos offset) as [Hge|Hlt].
    - (* offset = end of the content, len = 0: returns 0, cache untouched *)
      assert (offset = eos) by lia. assert (len = 0) by lia. subst offset len.
      split; [|intros _; exact Logic.I].
      cbn. split; [reflexivity|]. split; [|assumption]. now rewrite sliceN_0, skipN_0.
    - rewrite sub64_small by lia.
      replace (eos - offset <? len) with false by (symmetry; apply N.ltb_ge; lia).
      destruct (Hin Hlt) as (tg & Etg & Htg & Htg1 & Htg2). rewrite Etg.
      rewrite (w32_small tg) by lia.
      pose proof (Lc tg Htg) as HL.
      unfold prelude, restart.
      destruct (negb (tg =? r_cur st) || (offset <? r_doff st)) eqn:Ere.
      + rewrite (wf_in_range t tg W) by lia. cbn [negb].
        match goal with |- context [rloop _ _ _ _ _ _ _ _ orc ?s3 tg 0 dst0] =>
          destruct (rloop_ok offset len dst0 Hr orc s3 tg 0 dst0) as [R1 R2] end.
        { constructor; cbn [r_cur r_doff d_frame d_prod d_fin r_acc]; try reflexivity; try lia.
          - intros _. now rewrite firstN_0.
          - unfold dst_ok. replace (e_d (ent t tg) - offset) with 0 by lia.
            now rewrite sliceN_0, skipN_0. }
        split; [exact R1|]. intros (Hpr & HB & Hl). apply R2.
        unfold live. cbn [r_doff d_prod]. repeat split; try assumption; lia.
      + apply orb_false_elim in Ere. destruct Ere as [E1 E2].
        apply negb_false_iff, N.eqb_eq in E1. apply N.ltb_ge in E2.
        destruct I as [(A1 & A2 & A3 & A4 & A5 & A6)|[(B1 & B2)|[(C1 & C2)|C3]]]; try lia.
        * destruct (rloop_ok offset len dst0 Hr orc st tg 0 dst0) as [R1 R2].
          { rewrite E1. constructor; try assumption; try reflexivity; try lia.
            unfold dst_ok. replace (r_doff st - offset) with 0 by lia. now rewrite sliceN_0, skipN_0. }
          split; [exact R1|]. intros (Hpr & HB & Hl). apply R2.
          unfold live. repeat split; try assumption; try lia.
          rewrite <- E1 in A4, A5. lia.
        * rewrite <- E1 in B2. lia.
  Qed.

  (* ---------------------------------------------------------------- ZSTD_seekable_decompressFrame *)
  Lemma decompress_frame_ok st dst0 dstSize i orc : Inv st ->
    let r := seekable_decompress_frame H content BUFF NOPROG t sfc st dst0 dstSize i orc in
    (t_len t <= i -> r = RErr sk_E_frameIndex_tooLarge dst0 st) /\
    (i < t_len t -> dstSize < D (i + 1) - D i -> r = RErr sk_E_dstSize_tooSmall dst0 st) /\
    (i < t_len t -> D (i + 1) - D i <= dstSize ->
       result_ok (D i) (D (i + 1) - D i) dst0 r /\
       (live_call (D i) (D (i + 1) - D i) orc -> is_ok r)).
  Proof.
    intros I r. subst r. pose proof eos_lt as Heos. pose proof tlen_small as Hts.
    unfold seekable_decompress_frame.
    destruct (N.leb_spec (t_len t) i) as [Hbig|Hi].
    - split; [reflexivity|]. split; intros; lia.
    - split; [intros; lia|].
      rewrite (w32_small (i + 1)) by lia.
      rewrite (wf_in_range t (i + 1) W) by lia. cbn [negb].
      pose proof (Dmono i (i + 1) ltac:(lia) ltac:(lia)). pose proof (D_eos (i + 1) ltac:(lia)).
      rewrite sub64_small by lia.
      split; intros _ Hsz.
      + replace (dstSize <? D (i + 1) - D i) with true by (symmetry; apply N.ltb_lt; lia). reflexivity.
      + replace (dstSize <? D (i + 1) - D i) with false by (symmetry; apply N.ltb_ge; lia).
        apply decompress_ok; [assumption|lia].
  Qed.

  (* ---------------------------------------------------------------- read histories *)
  Inductive rop :=
  | RdRange (offset len : N)                 (* ZSTD_seekable_decompress(dst, len, offset) *)
  | RdFrame (index dstSize : N).             (* ZSTD_seekable_decompressFrame(dst, dstSize, index) *)

  Definition op_in_range (op : rop) : Prop :=
    match op with RdRange offset len => offset + len <= eos | RdFrame _ _ => True end.

  Definition exec (st : rstate) (op : rop) (dst0 : list N) (orc : list (N * bool)) : rres :=
    match op with
    | RdRange offset len => seekable_decompress H content BUFF NOPROG t sfc st dst0 len offset orc
    | RdFrame i dstSize => seekable_decompress_frame H content BUFF NOPROG t sfc st dst0 dstSize i orc
    end.

  Definition st_of (r : rres) (st : rstate) : rstate :=
    match r with ROk _ _ s | RErr _ _ s | RFuel _ s | RSpin s => s | RTrap _ => st end.

  (* what the property demands of one call: success means exactly the requested bytes and nothing written beyond;
     the only other outcomes are the documented refusals of decompressFrame, the oracle running out (the C loop
     would call the decoder again) and the no-progress error when the decoder stalls more than NOPROG times *)
  Definition call_ok (op : rop) (dst0 : list N) (r : rres) : Prop :=
    match op with
    | RdRange offset len =>
        match r with
        | ROk v dst' _ => v = len /\ dst' = sliceN x offset len ++ skipN dst0 len
        | RErr c _ _ => c = sk_E_seekableIO
        | RFuel _ _ => True
        | _ => False
        end
    | RdFrame i dstSize =>
        match r with
        | ROk v dst' _ => i < t_len t /\ v = lenN (content i) /\ v <= dstSize /\ dst' = content i ++ skipN dst0 v
        | RErr c d _ => (c = sk_E_frameIndex_tooLarge /\ t_len t <= i /\ d = dst0) \/
                        (c = sk_E_dstSize_tooSmall /\ i < t_len t /\ dstSize < lenN (content i) /\ d = dst0) \/
                        c = sk_E_seekableIO
        | RFuel _ _ => True
        | _ => False
        end
    end.

  Lemma exec_ok st op dst0 orc : Inv st -> op_in_range op ->
    call_ok op dst0 (exec st op dst0 orc) /\ Inv (st_of (exec st op dst0 orc) st).
  Proof.
    intros I Hr. destruct op as [offset len|i dstSize]; cbn [exec op_in_range call_ok] in *.
    - destruct (decompress_ok st dst0 len offset orc I Hr) as [R _].
      destruct (seekable_decompress H content BUFF NOPROG t sfc st dst0 len offset orc); cbn in R |- *; tauto.
    - destruct (decompress_frame_ok st dst0 dstSize i orc I) as (R1 & R2 & R3).
      destruct (N.le_gt_cases (t_len t) i) as [Hbig|Hi].
      + rewrite (R1 Hbig). cbn. split; [left; auto|assumption].
      + pose proof (Lc i Hi) as HL.
        destruct (N.lt_ge_cases dstSize (D (i + 1) - D i)) as [Hsm|Hok].
        * rewrite (R2 Hi Hsm). cbn. split; [right; left; repeat split; try assumption; lia|assumption].
        * destruct (R3 Hi Hok) as [R _].
          destruct (seekable_decompress_frame H content BUFF NOPROG t sfc st dst0 dstSize i orc); cbn in R |- *;
            try tauto.
          destruct R as (-> & -> & Is). split; [|assumption]. rewrite HL.
          repeat split; try assumption. f_equal. symmetry. apply Hcontent. assumption.
  Qed.

  Fixpoint history_ok (st : rstate) (h : list (rop * list N * list (N * bool))) : Prop :=
    match h with
    | [] => True
    | (op, dst0, orc) :: rest =>
        let r := exec st op dst0 orc in
        call_ok op dst0 r /\ history_ok (st_of r st) rest
    end.

  Lemma history_correct h : forall st, Inv st -> Forall (fun c => op_in_range (fst (fst c))) h -> history_ok st h.
  Proof.
    induction h as [|[[op dst0] orc] rest IH]; intros st I Hh; cbn [history_ok]; [exact Logic.I|].
    inversion Hh as [|? ? Hop Hrest]; subst. cbn [fst] in Hop.
    destruct (exec_ok st op dst0 orc I Hop) as [C I'].
    split; [assumption|]. apply IH; assumption.
  Qed.
End ReaderProofs.

(* ------------------------------------------------------------------ closed statements *)
Definition frames_match (content : N -> list N) (t : seek_table) (x : list N) : Prop :=
  lenN x = e_d (ent t (t_len t)) /\
  forall i, i < t_len t -> content i = sliceN x (e_d (ent t i)) (e_d (ent t (i + 1)) - e_d (ent t i)).
Definition checksums_match (H : list N -> N) (content : N -> list N) (t : seek_table) : Prop :=
  t_flag t = true -> forall i, i < t_len t -> H (content i) mod 4294967296 = e_k (ent t i).

Lemma range_read_history H content BUFF NOPROG t sfc x :
  wf_table t -> frames_match content t x -> checksums_match H content t ->
  forall h, Forall (fun c => op_in_range t (fst (fst c))) h ->
  history_ok H content BUFF NOPROG t sfc x rinit h.
Proof.
  intros W [Hx Hc] Hk h Hh. apply history_correct; try assumption. exact (Inv_rinit H content BUFF t x W Hx Hc Hk).
Qed.

Lemma range_read_live H content BUFF NOPROG t sfc x st dst0 len offset orc :
  wf_table t -> frames_match content t x -> checksums_match H content t ->
  Inv content t st -> offset + len <= e_d (ent t (t_len t)) ->
  live_call BUFF offset len orc ->
  exists st', seekable_decompress H content BUFF NOPROG t sfc st dst0 len offset orc
              = ROk len (sliceN x offset len ++ skipN dst0 len) st' /\ Inv content t st'.
Proof.
  intros W [Hx Hc] Hk I Hr Lv.
  destruct (decompress_ok H content BUFF NOPROG t sfc x W Hx Hc Hk st dst0 len offset orc I Hr) as [R1 R2].
  specialize (R2 Lv).
  destruct (seekable_decompress H content BUFF NOPROG t sfc st dst0 len offset orc); cbn in R1, R2; try contradiction.
  destruct R1 as (-> & -> & Is). eexists. split; [reflexivity|assumption].
Qed.

(* ---- the hypotheses are satisfiable and the model computes: three frames (one empty), checksums on ---- *)
Definition ex_H (l : list N) : N := fold_left (fun a b => a * 31 + b) l 7.
Definition ex_x : list N := [10; 20; 30; 40; 50].
Definition ex_t : seek_table :=
  mkT [mkE 0 0 (ex_H [10; 20; 30]); mkE 11 3 (ex_H []); mkE 20 3 (ex_H [40; 50]); mkE 31 5 0] 3 true.
Definition ex_content (i : N) : list N :=
  sliceN ex_x (e_d (ent ex_t i)) (e_d (ent ex_t (i + 1)) - e_d (ent ex_t i)).

Lemma ex_wf : wf_table ex_t.
Proof.
  constructor; try reflexivity; try (cbn; lia).
  intros i j Hij Hj. cbn in Hj.
  assert (Hc : i = 0 \/ i = 1 \/ i = 2 \/ i = 3) by lia.
  assert (Hd : j = 0 \/ j = 1 \/ j = 2 \/ j = 3) by lia.
  destruct Hc as [-> | [-> | [-> | ->]]], Hd as [-> | [-> | [-> | ->]]]; cbn; lia.
Qed.
Lemma ex_frames : frames_match ex_content ex_t ex_x.
Proof. split; [reflexivity|]. intros i _. reflexivity. Qed.
Lemma ex_sums : checksums_match ex_H ex_content ex_t.
Proof.
  intros _ i Hi. cbn in Hi.
  assert (Hc : i = 0 \/ i = 1 \/ i = 2) by lia. destruct Hc as [-> | [-> | ->]]; reflexivity.
Qed.
(* read [1,5) across the empty frame, then backwards [0,2), decoder delivering one byte per call *)
Example ex_run :
  match seekable_decompress ex_H ex_content 4 16 ex_t true rinit [0; 0; 0; 0; 9] 4 1 (repeat (1, true) 8) with
  | ROk v d st => v = 4 /\ d = [20; 30; 40; 50; 9] /\
      match seekable_decompress ex_H ex_content 4 16 ex_t true st [0; 0] 2 0 (repeat (1, true) 8) with
      | ROk v2 d2 _ => v2 = 2 /\ d2 = [10; 20]
      | _ => False
      end
  | _ => False
  end.
Proof. vm_compute. repeat split; reflexivity. Qed.

(* ---- livelock witness for the code before fix e8679b7 (short_frame_check = false) ----
   one frame that regenerates 16 bytes, table entry claiming 32, no checksums, read of 32 bytes at 0: however many
   decoder calls are allowed the loop asks for more; with the check the same call returns corruption_detected *)
Definition sf_t : seek_table := mkT [mkE 0 0 0; mkE 25 32 0] 1 false.
Definition sf_content (i : N) : list N := if i =? 0 then repeat 7 16 else [].
Definition sf_st (tr : list revent) : rstate := mkR 0 0 0 0 false [] tr.

Lemma sf_loop_forever : forall n tr np dst,
  exists d s, rloop ex_H sf_content 131072 16 sf_t false 0 32 (repeat (16, true) n) (sf_st tr) 0 np dst = RFuel d s.
Proof.
  induction n as [|n IH]; intros tr np dst.
  - eexists. eexists. reflexivity.
  - cbn [repeat]. cbn -[buf_store N.leb N.ltb w32 repeat]. apply IH.
Qed.

Lemma livelock_before_fix : forall n dst0,
  exists d s, seekable_decompress ex_H sf_content 131072 16 sf_t false rinit dst0 32 0 (repeat (16, true) n) = RFuel d s.
Proof.
  intros n dst0. unfold seekable_decompress. cbn -[rloop repeat]. apply (sf_loop_forever n).
Qed.

Lemma no_livelock_after_fix :
  exists d s, seekable_decompress ex_H sf_content 131072 16 sf_t true rinit (repeat 0 32) 32 0 (repeat (16, true) 40)
              = RErr sk_E_corruption_detected d s.
Proof. eexists. eexists. vm_compute. reflexivity. Qed.

(* ---- a failed seek in the restart branch (finding 'seek-failure-stale-cache') ----
   the example archive without checksums: read byte 3 (frame 2), then a read at offset 0 whose seek fails, then the
   same read again.  With the cache assigned before the seek (the code as it is) the model returns success with byte
   x[4] = 50 where x[0] = 10 belongs; when a failed seek leaves the state alone the invariant is kept and the retry
   returns the right byte. *)
Definition ex_t0 : seek_table := mkT (t_entries ex_t) (t_len ex_t) false.
Lemma ex_t0_wf : wf_table ex_t0.
Proof. destruct ex_wf as [A B C E F]. constructor; assumption. Qed.
Definition after_first_read : rstate :=
  match seekable_decompress ex_H ex_content 4 16 ex_t0 true rinit [0] 1 3 (repeat (1, true) 8) with
  | ROk _ _ st => st
  | _ => rinit
  end.
Lemma stale_cache_wrong_data :
  exists st', seekable_decompress ex_H ex_content 4 16 ex_t0 true
                (restart_seek_failed ex_t0 true after_first_read 0) [0] 1 0 (repeat (1, false) 8) = ROk 1 [50] st'
              /\ sliceN ex_x 0 1 = [10].
Proof. eexists. split; vm_compute; reflexivity. Qed.
Lemma failed_seek_keeps_invariant content t st target : wf_table t ->
  Inv content t (restart_seek_failed t false st target).
Proof.
  intros W. right. right. right. cbn [restart_seek_failed r_cur]. pose proof (wf_small t W). lia.
Qed.
(* fix b978b70: after a decoder error the reader is positioned nowhere, whatever it was doing *)
Lemma decoder_failed_keeps_invariant content t st : wf_table t -> Inv content t (decoder_failed st).
Proof.
  intros W. right. right. right. cbn [decoder_failed r_cur]. pose proof (wf_small t W). lia.
Qed.
Lemma retry_after_clean_failure :
  exists st', seekable_decompress ex_H ex_content 4 16 ex_t0 true
                (restart_seek_failed ex_t0 false after_first_read 0) [0] 1 0 (repeat (1, true) 8) = ROk 1 [10] st'.
Proof. eexists. vm_compute. reflexivity. Qed.
