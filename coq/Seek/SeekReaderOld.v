(* C20 - ZSTD_seekable_decompress / ZSTD_seekable_decompressFrame AS THEY WERE before the fixes bb8f456 (offset beyond the end)
   and 7f35186 (read stopping exactly at a frame end), kept ONLY for the refutation witnesses of SeekBeyond.v / SeekExact.v.
   Nothing else refers to this file; the model of the current code is SeekReader.v (dcall / prelude / restart are shared).
   NO proofs in this file. *)
From Coq Require Import NArith List Bool.
From ZV.Gen Require Import Gen_Seek.
From ZV.Seek Require Import SeekTable SeekReader.
Import ListNotations.
Local Open Scope N_scope.

Section ReaderOld.
  Variable H : list N -> N.
  Variable content : N -> list N.
  Variable BUFF : N.
  Variable NOPROG : N.
  Variable t : seek_table.
  Variable short_frame_check : bool.

  Section Call.
    Variable offset len : N.                  (* len after clamping *)
    Let endpos := w64 (offset + len).

    Fixpoint rloop_old (orc : list (N * bool)) (st : rstate) (target np : N) (dst : list N) : rres :=
      if r_doff st <? endpos then
        match orc with
        | [] => RFuel dst st
        | o :: orc' =>
            (* fix 943db3b: frameEnd = entries[targetFrame + 1].dOffset caps what one frame may hand out *)
            if negb (in_range t (w32 (target + 1))) then RTrap 55 else
            let frameEnd := e_d (ent t (w32 (target + 1))) in
            let skipping := r_doff st <? offset in
            let size := if skipping then N.min BUFF (sub64 (N.min offset frameEnd) (r_doff st))
                        else N.min len (sub64 frameEnd offset) in
            let pos := if skipping then 0 else sub64 (r_doff st) offset in
            if size <? pos then RTrap 52 else
            let st0 := mkR (r_cur st) (r_doff st) (d_frame st) (d_prod st) (d_fin st) (r_acc st)
                           (EvCall skipping size pos :: r_trace st) in
            let '(bytes, fin, st1) := dcall content st0 (size - pos) o in
            let k := lenN bytes in
            let dst' := if skipping then dst else buf_store dst pos bytes in
            let acc' := if t_flag t then rev_append bytes (r_acc st1) else r_acc st1 in
            if (k =? 0) && (NOPROG <? np) then RErr sk_E_seekableIO dst' st1 else
            let np' := if k =? 0 then w32 (np + 1) else 0 in
            let st2 := mkR (r_cur st1) (w64 (r_doff st1 + k)) (d_frame st1) (d_prod st1) (d_fin st1) acc' (r_trace st1) in
            if fin then
              (* frame complete: verify checksum *)
              if negb (in_range t target) then RTrap 53 else
              if t_flag t && negb (H (revT acc') mod 4294967296 =? e_k (ent t target))
              then RErr sk_E_corruption_detected dst' st2
              else if r_doff st2 <? endpos then
                match offset_to_frame t (r_doff st2) with
                | Ok target' =>
                    if short_frame_check && (w32 target' =? r_cur st2)
                    then RErr sk_E_corruption_detected dst' st2 else
                    match prelude t offset st2 (w32 target') with
                    | Ok st3 => rloop_old orc' st3 (w32 target') np' dst'
                    | Err c => RErr c dst' st2
                    | Trap s => RTrap s
                    end
                | Err c => RErr c dst' st2
                | Trap s => RTrap s
                end
              else if r_doff st2 =? endpos then ROk len dst' st2 else RSpin st2
            else rloop_old orc' st2 target np' dst'
        end
      else if r_doff st =? endpos then ROk len dst st else RSpin st.
  End Call.

  (* ZSTD_seekable_decompress(zs, dst, len0, offset) with dst's previous content [dst0] *)
  Definition seekable_decompress_old (st : rstate) (dst0 : list N) (len0 offset : N) (orc : list (N * bool)) : rres :=
    if negb (in_range t (t_len t)) then RTrap 50 else
    let eos := e_d (ent t (t_len t)) in
    let len := if eos <? w64 (offset + len0) then sub64 eos offset else len0 in
    match offset_to_frame t offset with
    | Ok target =>
        match prelude t offset st (w32 target) with
        | Ok st1 => rloop_old offset len orc st1 (w32 target) 0 dst0
        | Err c => RErr c dst0 st
        | Trap s => RTrap s
        end
    | Err c => RErr c dst0 st
    | Trap s => RTrap s
    end.

  (* ZSTD_seekable_decompressFrame *)
  Definition seekable_decompress_frame_old (st : rstate) (dst0 : list N) (dstSize frameIndex : N) (orc : list (N * bool)) : rres :=
    if t_len t <=? frameIndex then RErr sk_E_frameIndex_tooLarge dst0 st
    else if negb (in_range t (w32 (frameIndex + 1))) then RTrap 54
    else
      let dsz := sub64 (e_d (ent t (w32 (frameIndex + 1)))) (e_d (ent t frameIndex)) in
      if dstSize <? dsz then RErr sk_E_dstSize_tooSmall dst0 st
      else seekable_decompress_old st dst0 dsz (e_d (ent t frameIndex)) orc.
End ReaderOld.
