(* C20 - proofs about ZSTD_seekable_loadSeekTable's model: round trip with the writer's format, and safety on
   arbitrary bytes. *)
From Coq Require Import NArith ZArith List Bool Lia.
From ZV.Gen Require Import Gen_Seek.
From ZV.Seek Require Import SeekTable SeekBase SeekTableProofs.
Import ListNotations.
Local Open Scope N_scope.
Ltac Zify.zify_post_hook ::= Z.to_euclidean_division_equations.

Definition bytes_ok (l : list N) : Prop := Forall (fun b => b < 256) l.
Definition logent_ok (e : logent) : Prop :=
  let '(c, d, k) := e in c < 4294967296 /\ d < 4294967296 /\ k < 4294967296.

Lemma bytes_ok_app a b : bytes_ok (a ++ b) <-> bytes_ok a /\ bytes_ok b.
Proof. apply Forall_app. Qed.
Lemma bytes_ok_firstN l n : bytes_ok l -> bytes_ok (firstN l n).
Proof.
  intros H. rewrite <- (firstN_skipN l n) in H. now apply bytes_ok_app in H.
Qed.
Lemma bytes_ok_skipN l n : bytes_ok l -> bytes_ok (skipN l n).
Proof.
  intros H. rewrite <- (firstN_skipN l n) in H. now apply bytes_ok_app in H.
Qed.
Lemma bytes_ok_sliceN l a n : bytes_ok l -> bytes_ok (sliceN l a n).
Proof. intros. unfold sliceN. now apply bytes_ok_firstN, bytes_ok_skipN. Qed.
Lemma bytes_ok_store b at_ d : bytes_ok b -> bytes_ok d -> bytes_ok (buf_store b at_ d).
Proof.
  intros. unfold buf_store. apply bytes_ok_app; split; [now apply bytes_ok_firstN|].
  apply bytes_ok_app; split; [assumption|now apply bytes_ok_skipN].
Qed.

Lemma lenN_store b at_ d : at_ + lenN d <= lenN b -> lenN (buf_store b at_ d) = lenN b.
Proof. intros. unfold buf_store. rewrite !lenN_app, lenN_firstN, lenN_skipN. lia. Qed.

Lemma store_0 b d : lenN d <= lenN b -> buf_store b 0 d = d ++ skipN b (lenN d).
Proof. intros. unfold buf_store. rewrite firstN_0. cbn [app]. reflexivity. Qed.

(* ------------------------------------------------------------------ the constants the proofs rely on *)
Lemma FOOTER_eq : FOOTER = 9. Proof. reflexivity. Qed.
Lemma SKIPHDR_eq : SKIPHDR = 8. Proof. reflexivity. Qed.
Lemma MAGIC_lt : MAGIC < 4294967296. Proof. reflexivity. Qed.
Lemma SKIPMAGIC_lt : SKIPMAGIC < 4294967296. Proof. reflexivity. Qed.
Lemma MAXFRAMES_le : MAXFRAMES <= 134217728. Proof. unfold MAXFRAMES, sk_MAXFRAMES. lia. Qed.

(* ------------------------------------------------------------------ table_of *)
Fixpoint sumc (log : list logent) : N := match log with [] => 0 | (c, _, _) :: r => c + sumc r end.
Fixpoint sumd (log : list logent) : N := match log with [] => 0 | (_, d, _) :: r => d + sumd r end.

Lemma lenN_cum fl log c d : lenN (cum fl log c d) = lenN log + 1.
Proof.
  revert c d; induction log as [|[[cs ds] k] r IH]; intros c d; cbn [cum].
  - reflexivity.
  - rewrite !lenN_cons, IH. lia.
Qed.

Lemma sumc_app a b : sumc (a ++ b) = sumc a + sumc b.
Proof. induction a as [|[[c d] k] r IH]; cbn [app sumc]; [reflexivity|]. rewrite IH. lia. Qed.
Lemma sumd_app a b : sumd (a ++ b) = sumd a + sumd b.
Proof. induction a as [|[[c d] k] r IH]; cbn [app sumd]; [reflexivity|]. rewrite IH. lia. Qed.

Lemma cum_app fl a b c d :
  cum fl (a ++ b) c d = removelast (cum fl a c d) ++ cum fl b (c + sumc a) (d + sumd a).
Proof.
  revert c d; induction a as [|[[cs ds] k] r IH]; intros c d.
  - cbn. now rewrite !N.add_0_r.
  - cbn [app cum sumc sumd]. rewrite IH.
    assert (cum fl r (c + cs) (d + ds) <> []) by (destruct r as [|[[? ?] ?] ?]; discriminate).
    cbn [removelast]. destruct (cum fl r (c + cs) (d + ds)) eqn:E; [congruence|].
    cbn [app]. do 2 f_equal. f_equal; lia.
Qed.

Lemma nthN_cum_d fl log c d i : i <= lenN log ->
  e_d (nthN (cum fl log c d) i e0) = d + sumd (firstN log i) /\
  e_c (nthN (cum fl log c d) i e0) = c + sumc (firstN log i).
Proof.
  revert c d i; induction log as [|[[cs ds] k] r IH]; intros c d i Hi.
  - rewrite lenN_nil in Hi. assert (i = 0) by lia. subst. cbn. lia.
  - rewrite lenN_cons in Hi. cbn [cum nthN firstN].
    destruct (N.eqb_spec i 0) as [->|Hn].
    + cbn. lia.
    + destruct (IH (c + cs) (d + ds) (N.pred i)) as [A B]; [lia|].
      rewrite A, B. cbn [sumd sumc]. lia.
Qed.

Lemma sumd_firstN_mono log i j : i <= j -> sumd (firstN log i) <= sumd (firstN log j).
Proof.
  intros Hij. replace j with (i + (j - i)) by lia. rewrite firstN_plus, sumd_app. lia.
Qed.

Definition dsize_ok (e : logent) : Prop := let '(c, d, k) := e in d < 4294967296.
Lemma sumd_bound' (log : list logent) : Forall dsize_ok log -> sumd log <= lenN log * 4294967295.
Proof.
  induction 1 as [|[[c d] k] r Hd _ IH]; cbn [sumd]; [rewrite lenN_eq; cbn [length]; lia|].
  rewrite lenN_cons. unfold dsize_ok in Hd. lia.
Qed.

Lemma table_of_wf fl (log : list logent) : lenN log < 4294967295 -> Forall dsize_ok log -> wf_table (table_of fl log).
Proof.
  intros Hn Hok. constructor; unfold table_of; cbn [t_entries t_len].
  - apply lenN_cum.
  - assumption.
  - unfold ent. cbn [t_entries]. destruct (nthN_cum_d fl log 0 0 0) as [A _]; [lia|].
    rewrite A. now rewrite firstN_0.
  - intros i j Hij Hj. unfold ent. cbn [t_entries].
    destruct (nthN_cum_d fl log 0 0 i) as [A _]; [lia|].
    destruct (nthN_cum_d fl log 0 0 j) as [B _]; [lia|].
    rewrite A, B. pose proof (sumd_firstN_mono log i j Hij). lia.
  - unfold ent. cbn [t_entries]. destruct (nthN_cum_d fl log 0 0 (lenN log)) as [A _]; [lia|].
    rewrite A, firstN_all by lia. pose proof (sumd_bound' log Hok). lia.
Qed.

Lemma table_of_ent_d fl log i : i <= lenN log -> e_d (ent (table_of fl log) i) = sumd (firstN log i).
Proof. intros. unfold ent, table_of. cbn [t_entries]. destruct (nthN_cum_d fl log 0 0 i) as [A _]; [lia|]. rewrite A. lia. Qed.
Lemma table_of_ent_c fl log i : i <= lenN log -> e_c (ent (table_of fl log) i) = sumc (firstN log i).
Proof. intros. unfold ent, table_of. cbn [t_entries]. destruct (nthN_cum_d fl log 0 0 i) as [_ A]; [lia|]. rewrite A. lia. Qed.

(* ------------------------------------------------------------------ the chunked entry loop *)
Lemma entry_bytes_len fl e : lenN (entry_bytes fl e) = spe fl.
Proof. destruct e as [[c d] k]. destruct fl; reflexivity. Qed.

Lemma spe_bounds fl : 8 <= spe fl <= 12.
Proof. destruct fl; cbn; lia. Qed.

Lemma app_inv_len {A} (a b c d : list A) : lenN a = lenN c -> a ++ b = c ++ d -> a = c /\ b = d.
Proof.
  rewrite !lenN_eq. intros Hl H. apply Nat2N.inj in Hl.
  revert c Hl H; induction a as [|x a IH]; intros [|y c] Hl H; cbn in *; try discriminate.
  - auto.
  - injection H as -> H. destruct (IH c) as [-> ->]; auto.
Qed.

Section Load.
  Variable BUFF : N.
  Hypothesis BUFF_lo : 17 <= BUFF.
  Hypothesis BUFF_hi : BUFF + 12 < 4294967296.
  Variable file : list N.

  Record ld_inv (s : ldst) (R : list N) : Prop := {
    li_cur : l_cur s = skipN (l_buf s) (l_pos s);
    li_len : lenN (l_buf s) = BUFF;
    li_pos : l_pos s <= BUFF;
    li_rem : l_rem s < 4294967296;
    li_file : l_fpos s + l_rem s <= lenN file;
    li_str : exists a, a <= BUFF - l_pos s /\
                       firstN (l_cur s) a ++ sliceN file (l_fpos s) (l_rem s) = R /\
                       (0 < l_rem s -> l_pos s + a = BUFF)
  }.

  Lemma ld_refill_ok s R : ld_inv s R ->
    exists s1, ld_refill BUFF file s = Ok s1 /\ ld_inv s1 R /\ l_pos s1 = 0 /\
               l_c s1 = l_c s /\ l_d s1 = l_d s /\ l_idx s1 = l_idx s /\ l_ents s1 = l_ents s.
  Proof.
    intros [Hc Hl Hp Hr Hf (a & Ha & Hs & Hfull)].
    unfold ld_refill.
    destruct (N.ltb_spec BUFF (l_pos s)); [lia|].
    rewrite (sub32_small BUFF (l_pos s)) by lia.
    set (offset := BUFF - l_pos s).
    rewrite (sub32_small BUFF offset) by (unfold offset; lia).
    replace (BUFF - offset) with (l_pos s) by (unfold offset; lia).
    set (toRead := N.min (l_rem s) (l_pos s)).
    destruct (N.ltb_spec BUFF (l_pos s + offset)); [unfold offset in *; lia|].
    destruct (N.ltb_spec BUFF (offset + toRead)); [unfold offset, toRead in *; lia|].
    unfold src_read.
    destruct (N.ltb_spec (lenN file) (l_fpos s + toRead)); [unfold toRead in *; lia|].
    assert (Hlc : lenN (l_cur s) = offset) by (rewrite Hc, lenN_skipN, Hl; reflexivity).
    assert (Hmoved : firstN (l_cur s) offset = l_cur s) by (apply firstN_all; lia).
    rewrite Hmoved.
    set (data := sliceN file (l_fpos s) toRead).
    assert (Hld : lenN data = toRead) by (unfold data; rewrite lenN_sliceN; lia).
    set (buf1 := buf_store (l_buf s) 0 (l_cur s)).
    assert (Hb1 : buf1 = l_cur s ++ skipN (l_buf s) offset).
    { unfold buf1. rewrite store_0 by lia. now rewrite Hlc. }
    assert (Hb1l : lenN buf1 = BUFF).
    { rewrite Hb1, lenN_app, lenN_skipN, Hlc, Hl. unfold offset. lia. }
    set (buf2 := buf_store buf1 offset data).
    assert (Hb2 : buf2 = l_cur s ++ data ++ skipN buf1 (offset + toRead)).
    { unfold buf2, buf_store. rewrite Hld. f_equal. rewrite Hb1. rewrite <- Hlc. apply firstN_app_len. }
    assert (Hb2l : lenN buf2 = BUFF).
    { unfold buf2. rewrite lenN_store; [assumption|]. rewrite Hld, Hb1l. lia. }
    eexists. split; [reflexivity|].
    cbn [l_pos l_c l_d l_idx l_ents]. split; [|repeat split; reflexivity].
    constructor; cbn [l_buf l_pos l_cur l_rem l_fpos].
    - now rewrite skipN_0.
    - assumption.
    - lia.
    - apply sub32_lt.
    - rewrite sub32_small by (unfold toRead; lia). unfold toRead. lia.
    - rewrite sub32_small by (unfold toRead; lia).
      exists (a + toRead). split; [|split].
      + unfold toRead, offset in *. lia.
      + destruct (N.eq_dec (l_rem s) 0) as [E|E].
        * assert (toRead = 0) by (unfold toRead; lia).
          rewrite E in *. replace (a + toRead) with a by lia. replace (0 - toRead) with 0 by lia.
          rewrite <- Hs. f_equal; [|now rewrite !sliceN_0].
          rewrite Hb2, firstN_app_l by lia. reflexivity.
        * assert (a = offset) by (unfold offset; specialize (Hfull ltac:(lia)); lia). subst a.
          rewrite <- Hs. rewrite Hb2.
          rewrite firstN_app_r by lia. rewrite Hlc, Hmoved.
          replace (offset + toRead - offset) with toRead by lia.
          assert (Hfd : forall X, firstN (data ++ X) toRead = data)
            by (intros X; rewrite <- Hld; apply firstN_app_len).
          rewrite Hfd.
          rewrite <- app_assoc. f_equal. unfold data.
          rewrite <- sliceN_plus. f_equal. unfold toRead. lia.
      + intros Hpos. unfold toRead, offset in *. specialize (Hfull ltac:(lia)). lia.
  Qed.

  Lemma ld_step_ok s fl alloc c d k R :
    ld_inv s (entry_bytes fl (c, d, k) ++ R) -> logent_ok (c, d, k) -> l_idx s < alloc ->
    exists s1, ld_step BUFF file fl alloc s = Ok s1 /\ ld_inv s1 R /\
               l_c s1 = w64 (l_c s + c) /\ l_d s1 = w64 (l_d s + d) /\ l_idx s1 = w32 (l_idx s + 1) /\
               l_ents s1 = mkE (l_c s) (l_d s) (if fl then k else 0) :: l_ents s.
  Proof.
    intros Hinv (Hc32 & Hd32 & Hk32) Hidx.
    pose proof (spe_bounds fl) as Hspe.
    unfold ld_step.
    assert (Hpre : exists s0, (if BUFF <? w32 (l_pos s + spe fl) then ld_refill BUFF file s else Ok s) = Ok s0 /\
                              ld_inv s0 (entry_bytes fl (c, d, k) ++ R) /\ l_pos s0 + spe fl <= BUFF /\
                              l_c s0 = l_c s /\ l_d s0 = l_d s /\ l_idx s0 = l_idx s /\ l_ents s0 = l_ents s).
    { pose proof (li_pos s _ Hinv). rewrite w32_small by lia.
      destruct (N.ltb_spec BUFF (l_pos s + spe fl)).
      - destruct (ld_refill_ok s _ Hinv) as (s1 & E & I & P & Q). exists s1. rewrite P.
        split; [exact E|split; [exact I|split; [lia|exact Q]]].
      - exists s. split; [reflexivity|split; [exact Hinv|split; [lia|tauto]]]. }
    destruct Hpre as (s0 & -> & Hinv0 & Hroom & Ec & Ed & Ei & Ee).
    destruct Hinv0 as [Hc Hl Hp Hr Hf (a & Ha & Hs & Hfull)].
    destruct (N.leb_spec alloc (l_idx s0)); [lia|].
    destruct (N.ltb_spec BUFF (l_pos s0 + spe fl)); [lia|].
    set (eb := entry_bytes fl (c, d, k)) in *.
    assert (Hebl : lenN eb = spe fl) by apply entry_bytes_len.
    assert (Hlc : lenN (l_cur s0) = BUFF - l_pos s0) by (rewrite Hc, lenN_skipN, Hl; reflexivity).
    assert (HF : lenN (sliceN file (l_fpos s0) (l_rem s0)) = l_rem s0) by (rewrite lenN_sliceN; lia).
    assert (Hfa : lenN (firstN (l_cur s0) a) = a) by (rewrite lenN_firstN; lia).
    assert (Hage : spe fl <= a).
    { destruct (N.eq_dec (l_rem s0) 0) as [E|E].
      - apply (f_equal lenN) in Hs. rewrite !lenN_app, Hfa, HF, Hebl in Hs. lia.
      - specialize (Hfull ltac:(lia)). lia. }
    assert (Hsplit : firstN (l_cur s0) a = firstN (l_cur s0) (spe fl) ++ firstN (skipN (l_cur s0) (spe fl)) (a - spe fl)).
    { rewrite <- firstN_plus. f_equal. lia. }
    rewrite Hsplit, <- app_assoc in Hs.
    apply app_inv_len in Hs; [|rewrite lenN_firstN, Hebl; lia].
    destruct Hs as [Heb Hrest].
    assert (Hcur : l_cur s0 = eb ++ skipN (l_cur s0) (spe fl)).
    { rewrite <- Heb. symmetry. apply firstN_skipN. }
    assert (Hrd : rd32 (l_cur s0) = c /\ rd32 (skipN (l_cur s0) 4) = d /\
                  (if fl then rd32 (skipN (l_cur s0) 8) else 0) = (if fl then k else 0)).
    { rewrite Hcur. unfold eb, entry_bytes. split; [|split].
      - rewrite <- app_assoc. now apply rd32_le32_app.
      - rewrite <- app_assoc. rewrite <- (le32_length c) at 1. rewrite skipN_app_len.
        rewrite <- app_assoc. now apply rd32_le32_app.
      - destruct fl; [|reflexivity].
        rewrite <- !app_assoc.
        replace 8 with (lenN (le32 c) + lenN (le32 d)) by reflexivity.
        rewrite <- skipN_skipN, !skipN_app_len. now apply rd32_le32_app. }
    destruct Hrd as (-> & -> & Hk).
    eexists. split; [reflexivity|].
    cbn [l_c l_d l_idx l_ents]. rewrite Ec, Ed, Ei, Ee.
    split; [|repeat split; try reflexivity; now rewrite Hk].
    constructor; cbn [l_buf l_pos l_cur l_rem l_fpos].
    - rewrite w32_small by lia. rewrite Hc, skipN_skipN. reflexivity.
    - assumption.
    - rewrite w32_small by lia. lia.
    - assumption.
    - assumption.
    - exists (a - spe fl). rewrite w32_small by lia. split; [lia|]. split; [assumption|].
      intros Hpos. specialize (Hfull Hpos). lia.
  Qed.
End Load.

(* ------------------------------------------------------------------ the whole loop, on well-formed entry bytes *)
Fixpoint cumh (fl : bool) (log : list logent) (c d : N) : list seek_entry :=
  match log with
  | [] => []
  | (cs, ds, k) :: r => mkE c d (if fl then k else 0) :: cumh fl r (c + cs) (d + ds)
  end.

Lemma cum_cumh fl log c d : cum fl log c d = cumh fl log c d ++ [mkE (c + sumc log) (d + sumd log) 0].
Proof.
  revert c d; induction log as [|[[cs ds] k] r IH]; intros c d; cbn [cum cumh sumc sumd app].
  - now rewrite !N.add_0_r.
  - rewrite IH. f_equal. f_equal. f_equal. f_equal; lia.
Qed.

Lemma sumc_bound log : Forall logent_ok log -> sumc log <= lenN log * 4294967295.
Proof.
  induction 1 as [|[[c d] k] r (Hc & Hd & Hk) _ IH]; cbn [sumc]; [rewrite lenN_eq; cbn [length]; lia|].
  rewrite lenN_cons. lia.
Qed.
Lemma sumd_bound log : Forall logent_ok log -> sumd log <= lenN log * 4294967295.
Proof.
  induction 1 as [|[[c d] k] r (Hc & Hd & Hk) _ IH]; cbn [sumd]; [rewrite lenN_eq; cbn [length]; lia|].
  rewrite lenN_cons. lia.
Qed.

Section Load2.
  Variable BUFF : N.
  Hypothesis BUFF_lo : 17 <= BUFF.
  Hypothesis BUFF_hi : BUFF + 12 < 4294967296.
  Variable file : list N.

  Lemma ld_loop_ok fl alloc log : Forall logent_ok log ->
    forall s R,
      ld_inv BUFF file s (flat_map (entry_bytes fl) log ++ R) ->
      l_idx s + lenN log <= alloc -> alloc < 4294967296 ->
      l_c s + sumc log < 18446744073709551616 -> l_d s + sumd log < 18446744073709551616 ->
      exists s1, ld_loop BUFF file fl alloc (length log) s = Ok s1 /\ ld_inv BUFF file s1 R /\
                 l_c s1 = l_c s + sumc log /\ l_d s1 = l_d s + sumd log /\
                 l_ents s1 = rev (cumh fl log (l_c s) (l_d s)) ++ l_ents s.
  Proof.
    induction 1 as [|[[c d] k] r Hok _ IH]; intros s R Hinv Hidx Hal Hc Hd.
    - cbn [length ld_loop sumc sumd cumh rev app]. exists s. cbn [flat_map app] in Hinv.
      split; [reflexivity|]. split; [assumption|]. repeat split; lia.
    - rewrite lenN_cons in Hidx. cbn [sumc sumd] in Hc, Hd.
      cbn [length ld_loop]. cbn [flat_map] in Hinv. rewrite <- app_assoc in Hinv.
      destruct (ld_step_ok BUFF BUFF_lo BUFF_hi file s fl alloc c d k _ Hinv Hok) as (s1 & E & I1 & Ec & Ed & Ei & Ee); [lia|].
      rewrite E. rewrite w64_small in Ec, Ed by lia. rewrite w32_small in Ei by lia.
      destruct (IH s1 R I1) as (s2 & E2 & I2 & Ec2 & Ed2 & Ee2); try lia.
      exists s2. split; [assumption|]. split; [assumption|].
      rewrite Ec2, Ed2, Ee2, Ec, Ed, Ee. cbn [sumc sumd cumh rev]. rewrite <- app_assoc. cbn [app].
      repeat split; lia.
  Qed.
End Load2.

(* ------------------------------------------------------------------ seektable_roundtrip *)
Lemma skipN5 {A} (a0 a1 a2 a3 a4 : A) l : skipN (a0 :: a1 :: a2 :: a3 :: a4 :: l) 5 = l.
Proof. change (skipN l 0 = l). apply skipN_0. Qed.
Lemma skipN4 {A} (a0 a1 a2 a3 : A) l : skipN (a0 :: a1 :: a2 :: a3 :: l) 4 = l.
Proof. change (skipN l 0 = l). apply skipN_0. Qed.
Lemma skipN8 {A} (a0 a1 a2 a3 a4 a5 a6 a7 : A) l : skipN (a0 :: a1 :: a2 :: a3 :: a4 :: a5 :: a6 :: a7 :: l) 8 = l.
Proof. change (skipN l 0 = l). apply skipN_0. Qed.
Lemma nthN4 {A} (a0 a1 a2 a3 a4 : A) l d : nthN (a0 :: a1 :: a2 :: a3 :: a4 :: l) 4 d = a4.
Proof. reflexivity. Qed.

Lemma lenN_flat_entries fl log : lenN (flat_map (entry_bytes fl) log) = spe fl * lenN log.
Proof.
  induction log as [|e r IH]; cbn [flat_map]; [rewrite !lenN_eq; cbn [length]; lia|].
  rewrite lenN_app, entry_bytes_len, lenN_cons, IH. lia.
Qed.

Lemma sliceN_app_skip {A} (pre X : list A) a n : sliceN (pre ++ X) (lenN pre + a) n = sliceN X a n.
Proof. unfold sliceN. rewrite skipN_app_r by lia. f_equal. f_equal. lia. Qed.

Definition cf_of (fl : bool) : N := if fl then 1 else 0.

Section Roundtrip.
  Variable BUFF : N.
  Hypothesis Blo : 17 <= BUFF.
  Hypothesis Bhi : BUFF + 12 < 4294967296.
  Variable fl : bool.
  Variable log : list logent.
  Variable pre buf0 : list N.
  Hypothesis Hb0 : lenN buf0 = BUFF.
  Hypothesis Hn : lenN log <= MAXFRAMES.
  Hypothesis Hok : Forall logent_ok log.
  (* round 3: the descriptor byte is ANY byte whose reserved bits 2..6 are clear and whose bit 7 is the flag (bits 0..1 are unused
     and ignored by the loader) *)
  Variable sfd : N.
  Hypothesis Hsfd_res : (sfd / 4) mod 32 = 0.
  Hypothesis Hsfd_fl : negb (sfd / 128 =? 0) = fl.

  Let n := lenN log.
  Let E := flat_map (entry_bytes fl) log.
  Let sz := spe fl * n + 9.
  Let Hd := le32 SKIPMAGIC ++ le32 sz.
  Let F := le32 n ++ [sfd] ++ le32 MAGIC.
  Let file := pre ++ Hd ++ E ++ F.
  Let rest0 := skipN buf0 9.

  Lemma rt_n : n <= 134217728. Proof. pose proof MAXFRAMES_le. unfold n. lia. Qed.
  Lemma rt_p : spe fl * n <= 1610612736. Proof. pose proof rt_n. destruct fl; cbn [spe]; lia. Qed.
  Lemma rt_E : lenN E = spe fl * n. Proof. apply lenN_flat_entries. Qed.
  Lemma rt_Hd : lenN Hd = 8. Proof. reflexivity. Qed.
  Lemma rt_F : lenN F = 9. Proof. reflexivity. Qed.
  Lemma rt_file : lenN file = lenN pre + 8 + spe fl * n + 9.
  Proof. unfold file. rewrite !lenN_app, rt_Hd, rt_E, rt_F. lia. Qed.

  Lemma rt_footer : ld_footer BUFF file buf0 = Ok (F ++ rest0, fl, n).
  Proof.
    pose proof rt_p. pose proof rt_n. pose proof rt_file as Hfl.
    unfold ld_footer. rewrite FOOTER_eq. unfold src_seek_end, src_read.
    assert (H1 : (lenN file <? 9) = false) by (apply N.ltb_ge; lia). rewrite H1.
    assert (H2 : (lenN file <? lenN file - 9 + 9) = false) by (apply N.ltb_ge; lia). rewrite H2.
    assert (H3 : (BUFF <? 9) = false) by (apply N.ltb_ge; lia). rewrite H3.
    cbv beta iota zeta.
    assert (Hfoot : sliceN file (lenN file - 9) 9 = F).
    { unfold file at 1. replace (lenN file - 9) with (lenN pre + (lenN Hd + (lenN E + 0))) by (rewrite rt_Hd, rt_E; lia).
      rewrite !sliceN_app_skip. unfold sliceN. rewrite skipN_0. apply firstN_all. rewrite rt_F. lia. }
    rewrite Hfoot. rewrite store_0 by (rewrite rt_F; lia). rewrite rt_F. fold rest0.
    assert (Hbuf : F ++ rest0 = (n mod 256) :: ((n / 256) mod 256) :: ((n / 65536) mod 256) :: ((n / 16777216) mod 256)
                                :: sfd :: (le32 MAGIC ++ rest0)) by reflexivity.
    assert (A1 : rd32 (skipN (F ++ rest0) 5) = MAGIC).
    { rewrite Hbuf, skipN5. apply rd32_le32_app, MAGIC_lt. }
    assert (A2 : nthN (F ++ rest0) 4 0 = sfd).
    { rewrite Hbuf, nthN4. reflexivity. }
    assert (A3 : rd32 (F ++ rest0) = n).
    { unfold F. rewrite <- app_assoc. apply rd32_le32_app. lia. }
    rewrite A1, A2, A3, N.eqb_refl. cbn [negb].
    rewrite Hsfd_res, N.eqb_refl. cbn [negb].
    rewrite Hsfd_fl. reflexivity.
  Qed.

  Let toRead := N.min (spe fl * n + 8) BUFF.
  Let rest1 := skipN (F ++ rest0) toRead.
  Let buf1 := (Hd ++ firstN E (toRead - 8)) ++ rest1.
  Let s0 := mkL buf1 8 (skipN buf1 8) (spe fl * n + 8 - toRead) (lenN pre + toRead) 0 0 0 [].

  Lemma rt_header : ld_header BUFF file (F ++ rest0) fl n = Ok s0.
  Proof.
    pose proof rt_p. pose proof rt_n. pose proof rt_file as Hfl. pose proof (spe_bounds fl).
    unfold ld_header. rewrite FOOTER_eq, SKIPHDR_eq.
    assert (G0 : (MAXFRAMES <? n) = false) by (apply N.ltb_ge; exact Hn). rewrite G0.
    rewrite (w32_small (spe fl * n)) by lia.
    rewrite (w32_small (spe fl * n + 9 + 8)) by lia.
    rewrite (sub32_small (spe fl * n + 9 + 8) 9) by lia.
    replace (spe fl * n + 9 + 8 - 9) with (spe fl * n + 8) by lia. fold toRead.
    unfold src_seek_end, src_read.
    assert (G1 : (lenN file <? spe fl * n + 9 + 8) = false) by (apply N.ltb_ge; lia). rewrite G1.
    replace (lenN file - (spe fl * n + 9 + 8)) with (lenN pre) by lia.
    assert (G2 : (lenN file <? lenN pre + toRead) = false) by (apply N.ltb_ge; unfold toRead; lia). rewrite G2.
    cbv beta iota zeta.
    assert (Htr : 8 <= toRead) by (unfold toRead; lia).
    assert (Hdata : sliceN file (lenN pre) toRead = Hd ++ firstN E (toRead - 8)).
    { unfold file. replace (lenN pre) with (lenN pre + 0) at 1 by lia. rewrite sliceN_app_skip.
      unfold sliceN. rewrite skipN_0. rewrite app_assoc.
      rewrite firstN_app_l by (rewrite lenN_app, rt_Hd, rt_E; unfold toRead; lia).
      rewrite firstN_app_r by (rewrite rt_Hd; lia). now rewrite rt_Hd. }
    rewrite Hdata.
    assert (Hdl : lenN (Hd ++ firstN E (toRead - 8)) = toRead).
    { rewrite lenN_app, rt_Hd, lenN_firstN, rt_E. unfold toRead. lia. }
    assert (Hbl : lenN (F ++ rest0) = BUFF).
    { rewrite lenN_app, rt_F. unfold rest0. rewrite lenN_skipN. lia. }
    rewrite store_0 by (rewrite Hdl, Hbl; unfold toRead; lia). rewrite Hdl. fold rest1. fold buf1.
    assert (Hb : buf1 = le32 SKIPMAGIC ++ le32 sz ++ firstN E (toRead - 8) ++ rest1).
    { unfold buf1, Hd. now rewrite <- !app_assoc. }
    assert (R1 : rd32 buf1 = SKIPMAGIC) by (rewrite Hb; apply rd32_le32_app, SKIPMAGIC_lt).
    assert (R2 : rd32 (skipN buf1 4) = sz).
    { rewrite Hb. rewrite <- (le32_length SKIPMAGIC) at 1. rewrite skipN_app_len. apply rd32_le32_app. unfold sz. lia. }
    rewrite R1, R2, N.eqb_refl. cbv beta iota zeta. cbn [negb].
    replace (w32 (sz + 8)) with (spe fl * n + 9 + 8) by (unfold sz; rewrite w32_small; lia).
    rewrite N.eqb_refl. cbn [negb].
    rewrite (sub32_small (spe fl * n + 8) toRead) by (unfold toRead; lia).
    reflexivity.
  Qed.

  Lemma rt_inv0 : ld_inv BUFF file s0 (E ++ []).
  Proof.
    pose proof rt_p. pose proof rt_n. pose proof rt_file as Hfl. pose proof (spe_bounds fl).
    assert (Htr : 8 <= toRead) by (unfold toRead; lia).
    assert (Hbl : lenN (F ++ rest0) = BUFF).
    { rewrite lenN_app, rt_F. unfold rest0. rewrite lenN_skipN. lia. }
    assert (Hb1l : lenN buf1 = BUFF).
    { unfold buf1. rewrite !lenN_app, rt_Hd, lenN_firstN, rt_E. unfold rest1. rewrite lenN_skipN, Hbl. unfold toRead. lia. }
    assert (Hskip8 : skipN buf1 8 = firstN E (toRead - 8) ++ rest1).
    { unfold buf1. rewrite <- app_assoc. rewrite <- rt_Hd. apply skipN_app_len. }
    constructor; cbn [l_buf l_pos l_cur l_rem l_fpos s0].
    - reflexivity.
    - assumption.
    - lia.
    - unfold toRead. lia.
    - unfold toRead. lia.
    - exists (toRead - 8). split; [unfold toRead; lia|]. split.
      + rewrite Hskip8. rewrite firstN_app_l by (rewrite lenN_firstN, rt_E; unfold toRead; lia).
        rewrite firstN_firstN. replace (N.min (toRead - 8) (toRead - 8)) with (toRead - 8) by lia.
        rewrite app_nil_r.
        unfold file. rewrite sliceN_app_skip.
        replace toRead with (lenN Hd + (toRead - 8)) at 2 by (rewrite rt_Hd; lia).
        rewrite sliceN_app_skip.
        unfold sliceN. rewrite skipN_app_l by (rewrite rt_E; unfold toRead; lia).
        replace (spe fl * n + 8 - toRead) with (lenN (skipN E (toRead - 8))) by (rewrite lenN_skipN, rt_E; unfold toRead; lia).
        rewrite firstN_app_len. apply firstN_skipN.
      + unfold toRead. lia.
  Qed.

  Lemma seektable_roundtrip_frame : load_seek_table BUFF (pre ++ Hd ++ E ++ F) buf0 = Ok (table_of fl log).
  Proof.
    pose proof rt_p. pose proof rt_n.
    fold file. unfold load_seek_table.
    rewrite rt_footer. cbn [rbind]. rewrite rt_header. cbn [rbind].
    rewrite (w32_small (n + 1)) by lia.
    destruct (ld_loop_ok BUFF Blo Bhi file fl (n + 1) log Hok s0 [] rt_inv0) as (s1 & E1 & I1 & Ec & Ed & Ee);
      cbn [l_idx l_c l_d s0]; try (unfold n; lia).
    { pose proof (sumc_bound log Hok). unfold n in *. lia. }
    { pose proof (sumd_bound log Hok). unfold n in *. lia. }
    assert (Hlenlog : N.to_nat n = length log) by (unfold n; rewrite lenN_eq; lia).
    rewrite Hlenlog, E1. cbn [rbind].
    assert (H3 : (n + 1 <=? n) = false) by (apply N.leb_gt; lia). rewrite H3.
    f_equal. unfold table_of. fold n. f_equal.
    rewrite revT_rev. cbn [rev]. rewrite Ee, Ec, Ed. cbn [l_ents l_c l_d s0].
    rewrite app_nil_r, rev_involutive, !N.add_0_l. symmetry. apply cum_cumh.
  Qed.
End Roundtrip.

(* the table frame with an arbitrary descriptor byte (what the loader looks at); [seek_table_bytes] is the instance the writer emits *)
Definition table_frame (fl : bool) (sfd : N) (log : list logent) : list N :=
  (le32 SKIPMAGIC ++ le32 (spe fl * lenN log + 9)) ++ flat_map (entry_bytes fl) log ++ le32 (lenN log) ++ [sfd] ++ le32 MAGIC.

Lemma seek_table_bytes_frame fl log : lenN log <= MAXFRAMES ->
  seek_table_bytes (cf_of fl) log = table_frame fl (sfd_of (cf_of fl)) log.
Proof.
  intros Hn. pose proof MAXFRAMES_le. pose proof (spe_bounds fl).
  assert (Hp : spe fl * lenN log <= 1610612736) by (destruct fl; cbn [spe]; lia).
  assert (Hfs : flag_set (cf_of fl) = fl) by (destruct fl; reflexivity).
  unfold seek_table_bytes, table_size, table_frame. rewrite Hfs, SKIPHDR_eq, FOOTER_eq.
  rewrite w64_small by lia. rewrite sub32_small by lia.
  replace (8 + spe fl * lenN log + 9 - 8) with (spe fl * lenN log + 9) by lia.
  now rewrite <- !app_assoc.
Qed.

Lemma seektable_roundtrip_gen BUFF fl log pre buf0 :
  17 <= BUFF -> BUFF + 12 < 4294967296 -> lenN buf0 = BUFF -> lenN log <= MAXFRAMES -> Forall logent_ok log ->
  load_seek_table BUFF (pre ++ seek_table_bytes (cf_of fl) log) buf0 = Ok (table_of fl log).
Proof.
  intros Blo Bhi Hb0 Hn Hok. rewrite seek_table_bytes_frame by assumption.
  apply seektable_roundtrip_frame; try assumption; destruct fl; reflexivity.
Qed.

(* ------------------------------------------------------------------ arbitrary bytes: no Trap, and a loaded table is well formed *)
Fixpoint asc (l : list seek_entry) : Prop :=
  match l with
  | [] => True
  | a :: r => (forall b, In b r -> e_d a <= e_d b) /\ asc r
  end.

Lemma asc_app_one l x : asc l -> (forall a, In a l -> e_d a <= e_d x) -> asc (l ++ [x]).
Proof.
  induction l as [|a r IH]; intros Ha Hx; cbn [app asc].
  - split; [intros b []|exact I].
  - destruct Ha as [Ha1 Ha2]. split.
    + intros b Hb. apply in_app_or in Hb. destruct Hb as [Hb|[<-|[]]]; [now apply Ha1|apply Hx; now left].
    + apply IH; [assumption|]. intros a' Ha'. apply Hx. now right.
Qed.

Lemma asc_nth l i j : asc l -> (i <= j)%nat -> (j < length l)%nat -> e_d (nth i l e0) <= e_d (nth j l e0).
Proof.
  revert i j; induction l as [|a r IH]; intros i j Ha Hij Hj; cbn [length] in Hj; [lia|].
  destruct Ha as [Ha1 Ha2].
  destruct i as [|i], j as [|j]; cbn [nth]; try lia.
  - apply Ha1. apply nth_In. lia.
  - apply IH; [assumption|lia|lia].
Qed.

Section Safe.
  Variable BUFF : N.
  Hypothesis BUFF_lo : 17 <= BUFF.
  Hypothesis BUFF_hi : BUFF + 12 < 4294967296.
  Variable file : list N.
  Hypothesis file_ok : bytes_ok file.

  Record ld_safe (s : ldst) : Prop := {
    ls_cur : l_cur s = skipN (l_buf s) (l_pos s);
    ls_len : lenN (l_buf s) = BUFF;
    ls_pos : l_pos s <= BUFF;
    ls_bytes : bytes_ok (l_buf s);
    ls_idx : lenN (l_ents s) = l_idx s;
    ls_dmax : l_d s <= l_idx s * 4294967295;
    ls_asc : asc (rev (l_ents s));
    ls_le : forall a, In a (l_ents s) -> e_d a <= l_d s;
    ls_first : e_d (hd (mkE 0 (l_d s) 0) (rev (l_ents s))) = 0
  }.

  Lemma ld_refill_safe s : ld_safe s ->
    match ld_refill BUFF file s with
    | Ok s1 => ld_safe s1 /\ l_pos s1 = 0 /\ l_d s1 = l_d s /\ l_idx s1 = l_idx s /\ l_ents s1 = l_ents s /\ l_c s1 = l_c s
    | Err _ => True
    | Trap _ => False
    end.
  Proof.
    intros [Hc Hl Hp Hb Hi Hdm Ha Hle Hf].
    unfold ld_refill.
    destruct (N.ltb_spec BUFF (l_pos s)); [lia|].
    rewrite (sub32_small BUFF (l_pos s)) by lia.
    set (offset := BUFF - l_pos s).
    rewrite (sub32_small BUFF offset) by (unfold offset; lia).
    set (toRead := N.min (l_rem s) (BUFF - offset)).
    destruct (N.ltb_spec BUFF (l_pos s + offset)); [unfold offset in *; lia|].
    destruct (N.ltb_spec BUFF (offset + toRead)); [unfold offset, toRead in *; lia|].
    unfold src_read. destruct (N.ltb_spec (lenN file) (l_fpos s + toRead)); [exact I|].
    assert (Hlc : lenN (l_cur s) = offset) by (rewrite Hc, lenN_skipN, Hl; reflexivity).
    assert (Hld : lenN (sliceN file (l_fpos s) toRead) = toRead) by (rewrite lenN_sliceN; lia).
    assert (Hm : lenN (firstN (l_cur s) offset) = offset) by (rewrite lenN_firstN; lia).
    assert (Hb1l : lenN (buf_store (l_buf s) 0 (firstN (l_cur s) offset)) = BUFF).
    { rewrite lenN_store; [assumption|]. rewrite Hm, Hl. unfold offset. lia. }
    split; [|cbn [l_pos l_d l_idx l_ents l_c]; repeat split; reflexivity].
    constructor; cbn [l_buf l_pos l_cur l_d l_idx l_ents]; try assumption.
    - now rewrite skipN_0.
    - rewrite lenN_store; [assumption|]. rewrite Hld, Hb1l. lia.
    - lia.
    - apply bytes_ok_store; [apply bytes_ok_store; [assumption|]|now apply bytes_ok_sliceN].
      apply bytes_ok_firstN. rewrite Hc. now apply bytes_ok_skipN.
  Qed.

  Lemma rd32_cur_bound s k : ld_safe s -> rd32 (skipN (l_cur s) k) < 4294967296.
  Proof.
    intros S. apply rd32_bound. apply bytes_ok_skipN. rewrite (ls_cur s S). apply bytes_ok_skipN, (ls_bytes s S).
  Qed.

  Lemma ld_step_safe s fl alloc : ld_safe s -> alloc < 4294967296 ->
    match ld_step BUFF file fl alloc s with
    | Ok s1 => ld_safe s1 /\ l_idx s1 = l_idx s + 1 /\ l_idx s < alloc
    | Err _ => True
    | Trap _ => l_idx s >= alloc
    end.
  Proof.
    intros S Hal. pose proof (spe_bounds fl) as Hspe. pose proof (ls_pos s S).
    unfold ld_step. rewrite w32_small by lia.
    assert (Hpre : match (if BUFF <? l_pos s + spe fl then ld_refill BUFF file s else Ok s) with
                   | Ok s0 => ld_safe s0 /\ l_pos s0 + spe fl <= BUFF /\ l_d s0 = l_d s /\ l_idx s0 = l_idx s /\ l_ents s0 = l_ents s
                   | Err _ => True | Trap _ => False end).
    { destruct (N.ltb_spec BUFF (l_pos s + spe fl)).
      - pose proof (ld_refill_safe s S) as R. destruct (ld_refill BUFF file s) as [s1|c|t]; [|exact I|exact R].
        destruct R as (S1 & P & D & Ix & En & _). rewrite P.
        split; [exact S1|split; [lia|split; [exact D|split; [exact Ix|exact En]]]].
      - split; [exact S|split; [lia|split; [reflexivity|split; reflexivity]]]. }
    destruct (if BUFF <? l_pos s + spe fl then ld_refill BUFF file s else Ok s) as [s0|c|t]; [|exact I|contradiction].
    destruct Hpre as (S0 & Hroom & Ed & Ei & Ee).
    destruct (N.leb_spec alloc (l_idx s0)); [lia|].
    destruct (N.ltb_spec BUFF (l_pos s0 + spe fl)); [lia|].
    pose proof (rd32_cur_bound s0 4 S0) as Hds.
    destruct S0 as [Hc Hl Hp Hb Hi Hdm Ha Hle Hf].
    cbn [l_idx]. rewrite (w32_small (l_idx s0 + 1)) by lia. rewrite (w32_small (l_pos s0 + spe fl)) by lia.
    split; [|split; lia].
    assert (Hnw : l_d s0 + rd32 (skipN (l_cur s0) 4) < 18446744073709551616) by nia.
    constructor; cbn [l_buf l_pos l_cur l_d l_idx l_ents]; try assumption.
    - rewrite Hc, skipN_skipN. reflexivity.
    - rewrite lenN_cons. lia.
    - rewrite w64_small by assumption. nia.
    - cbn [rev]. apply asc_app_one; [assumption|]. intros a Ha'. apply in_rev in Ha'. cbn [e_d]. now apply Hle.
    - rewrite w64_small by assumption. intros a [<-|Ha']; cbn [e_d]; [lia|]. specialize (Hle a Ha'). lia.
    - cbn [rev]. destruct (rev (l_ents s0)) as [|x r] eqn:Er; cbn [app hd] in *; [cbn [e_d] in *; assumption|assumption].
  Qed.

  Lemma ld_loop_safe fl alloc fuel : alloc < 4294967296 -> forall s, ld_safe s -> l_idx s + N.of_nat fuel < alloc + 1 ->
    match ld_loop BUFF file fl alloc fuel s with
    | Ok s1 => ld_safe s1 /\ l_idx s1 = l_idx s + N.of_nat fuel
    | Err _ => True
    | Trap _ => False
    end.
  Proof.
    intros Hal. induction fuel as [|f IH]; intros s S Hf; cbn [ld_loop].
    - split; [assumption|]. cbn. lia.
    - pose proof (ld_step_safe s fl alloc S Hal) as St.
      destruct (ld_step BUFF file fl alloc s) as [s1|c|t]; [|exact I|lia].
      destruct St as (S1 & Ei & _).
      specialize (IH s1 S1 ltac:(lia)).
      destruct (ld_loop BUFF file fl alloc f s1) as [s2|c|t]; [|exact I|assumption].
      destruct IH as [S2 E2]. split; [assumption|]. lia.
  Qed.
End Safe.
