(* C20 - proofs about ZSTD_seekable_loadSeekTable's model: round trip with the writer's format, and safety on
   arbitrary bytes. *)
From Coq Require Import NArith ZArith List Bool Lia.
From ZV.Gen Require Import Gen_Seek.
From ZV.Seek Require Import SeekTable SeekBase SeekTableProofs.
Import ListNotations.
Local Open Scope N_scope.
Ltac Zify.zify_post_hook ::= Z.to_euclidean_division_equations.

Definition bytes_ok (l : list N) : Prop := Forall (fun b => b < 256) l.
Definition logent_ok (e : logent) : Prop :=
  let '(c, d, k) := e in c < 4294967296 /\ d < 4294967296 /\ k < 4294967296.

Lemma bytes_ok_app a b : bytes_ok (a ++ b) <-> bytes_ok a /\ bytes_ok b.
Proof. apply Forall_app. Qed.
Lemma bytes_ok_firstN l n : bytes_ok l -> bytes_ok (firstN l n).
Proof.
  intros H. rewrite <- (firstN_skipN l n) in H. now apply bytes_ok_app in H.
Qed.
Lemma bytes_ok_skipN l n : bytes_ok l -> bytes_ok (skipN l n).
Proof.
  intros H. rewrite <- (firstN_skipN l n) in H. now apply bytes_ok_app in H.
Qed.
Lemma bytes_ok_sliceN l a n : bytes_ok l -> bytes_ok (sliceN l a n).
Proof. intros. unfold sliceN. now apply bytes_ok_firstN, bytes_ok_skipN. Qed.
Lemma bytes_ok_store b at_ d : bytes_ok b -> bytes_ok d -> bytes_ok (buf_store b at_ d).
Proof.
  intros. unfold buf_store. apply bytes_ok_app; split; [now apply bytes_ok_firstN|].
  apply bytes_ok_app; split; [assumption|now apply bytes_ok_skipN].
Qed.

Lemma lenN_store b at_ d : at_ + lenN d <= lenN b -> lenN (buf_store b at_ d) = lenN b.
Proof. intros. unfold buf_store. rewrite !lenN_app, lenN_firstN, lenN_skipN. lia. Qed.

Lemma store_0 b d : lenN d <= lenN b -> buf_store b 0 d = d ++ skipN b (lenN d).
Proof. intros. unfold buf_store. rewrite firstN_0. cbn [app]. reflexivity. Qed.

(* ------------------------------------------------------------------ the constants the proofs rely on *)
Lemma FOOTER_eq : FOOTER = 9. Proof. reflexivity. Qed.
Lemma SKIPHDR_eq : SKIPHDR = 8. Proof. reflexivity. Qed.
Lemma MAGIC_lt : MAGIC < 4294967296. Proof. reflexivity. Qed.
Lemma SKIPMAGIC_lt : SKIPMAGIC < 4294967296. Proof. reflexivity. Qed.
Lemma MAXFRAMES_le : MAXFRAMES <= 134217728. Proof. unfold MAXFRAMES, sk_MAXFRAMES. lia. Qed.

(* ------------------------------------------------------------------ table_of *)
Fixpoint sumc (log : list logent) : N := match log with [] => 0 | (c, _, _) :: r => c + sumc r end.
Fixpoint sumd (log : list logent) : N := match log with [] => 0 | (_, d, _) :: r => d + sumd r end.

Lemma lenN_cum fl log c d : lenN (cum fl log c d) = lenN log + 1.
Proof.
  revert c d; induction log as [|[[cs ds] k] r IH]; intros c d; cbn [cum].
  - reflexivity.
  - rewrite !lenN_cons, IH. lia.
Qed.

Lemma sumc_app a b : sumc (a ++ b) = sumc a + sumc b.
Proof. induction a as [|[[c d] k] r IH]; cbn [app sumc]; [reflexivity|]. rewrite IH. lia. Qed.
Lemma sumd_app a b : sumd (a ++ b) = sumd a + sumd b.
Proof. induction a as [|[[c d] k] r IH]; cbn [app sumd]; [reflexivity|]. rewrite IH. lia. Qed.

Lemma cum_app fl a b c d :
  cum fl (a ++ b) c d = removelast (cum fl a c d) ++ cum fl b (c + sumc a) (d + sumd a).
Proof.
  revert c d; induction a as [|[[cs ds] k] r IH]; intros c d.
  - cbn. now rewrite !N.add_0_r.
  - cbn [app cum sumc sumd]. rewrite IH.
    assert (cum fl r (c + cs) (d + ds) <> []) by (destruct r as [|[[? ?] ?] ?]; discriminate).
    cbn [removelast]. destruct (cum fl r (c + cs) (d + ds)) eqn:E; [congruence|].
    cbn [app]. do 2 f_equal. f_equal; lia.
Qed.

Lemma nthN_cum_d fl log c d i : i <= lenN log ->
  e_d (nthN (cum fl log c d) i e0) = d + sumd (firstN log i) /\
  e_c (nthN (cum fl log c d) i e0) = c + sumc (firstN log i).
Proof.
  revert c d i; induction log as [|[[cs ds] k] r IH]; intros c d i Hi.
  - rewrite lenN_nil in Hi. assert (i = 0) by lia. subst. cbn. lia.
  - rewrite lenN_cons in Hi. cbn [cum nthN firstN].
    destruct (N.eqb_spec i 0) as [->|Hn].
    + cbn. lia.
    + destruct (IH (c + cs) (d + ds) (N.pred i)) as [A B]; [lia|].
      rewrite A, B. cbn [sumd sumc]. lia.
Qed.

Lemma sumd_firstN_mono log i j : i <= j -> sumd (firstN log i) <= sumd (firstN log j).
Proof.
  intros Hij. replace j with (i + (j - i)) by lia. rewrite firstN_plus, sumd_app. lia.
Qed.

Lemma table_of_wf fl log : lenN log < 4294967295 -> wf_table (table_of fl log).
Proof.
  intros Hn. constructor; unfold table_of; cbn [t_entries t_len].
  - apply lenN_cum.
  - assumption.
  - unfold ent. cbn [t_entries]. destruct (nthN_cum_d fl log 0 0 0) as [A _]; [lia|].
    rewrite A. now rewrite firstN_0.
  - intros i j Hij Hj. unfold ent. cbn [t_entries].
    destruct (nthN_cum_d fl log 0 0 i) as [A _]; [lia|].
    destruct (nthN_cum_d fl log 0 0 j) as [B _]; [lia|].
    rewrite A, B. pose proof (sumd_firstN_mono log i j Hij). lia.
Qed.

Lemma table_of_ent_d fl log i : i <= lenN log -> e_d (ent (table_of fl log) i) = sumd (firstN log i).
Proof. intros. unfold ent, table_of. cbn [t_entries]. destruct (nthN_cum_d fl log 0 0 i) as [A _]; [lia|]. rewrite A. lia. Qed.
Lemma table_of_ent_c fl log i : i <= lenN log -> e_c (ent (table_of fl log) i) = sumc (firstN log i).
Proof. intros. unfold ent, table_of. cbn [t_entries]. destruct (nthN_cum_d fl log 0 0 i) as [_ A]; [lia|]. rewrite A. lia. Qed.
