(* C20 round 3 - model of the INPUT side of ZSTD_seekable_decompress (zstdseek_decompress.c): the source's read head,
   zs->in = {inBuff, size, pos}, the restart branch's src.seek, the refill "read in more data if we're done with this
   buffer" (toRead = MIN(hint, SEEKABLE_BUFF_SIZE), src.read, in.size / in.pos), and what a failed src.read / src.seek
   leaves behind (curFrame = (U32)-1 : fixes c859e4f and 9b1486b).  NO proofs in this file.

   Abstract: the decoder (how many input bytes each ZSTD_decompressStream call consumes, the size hint it returns;
   clamped to what zs->in holds), which frame is wanted and whether the cache test asks for a restart (that is
   SeekReader.v), and I/O failures (an oracle: a read may fail after moving the read head by any amount).
   The source is a byte list with the semantics of the harness' callback pair / ZSTD_seekable_read_buff: a read of n
   bytes beyond the end fails (premature EOF), a seek beyond the end fails.

   Ghost output: the I/O requests made and the bytes handed to the decoder, each tagged with the compressed offset the
   last successful restart seeked to and the number of bytes consumed since then.                                   *)
From Coq Require Import NArith List Bool.
From ZV.Seek Require Import SeekTable.
Import ListNotations.
Local Open Scope N_scope.

Record istate := mkI {
  i_claim : bool;        (* zs->curFrame != (U32)-1 : the reader claims to be positioned in a frame *)
  i_head : N;            (* read head of the source *)
  i_buf : list N;        (* zs->inBuff[0 .. zs->in.size) *)
  i_pos : N;             (* zs->in.pos *)
  i_base : N;            (* ghost: the cOffset the last successful restart seeked to *)
  i_fed : N              (* ghost: input bytes the decoder has consumed since then *)
}.

(* state after ZSTD_seekable_init* : curFrame = (U32)-1 *)
Definition iinit : istate := mkI false 0 [] 0 0 0.

Inductive ievent :=
| IoSeek (c0 : N) (ok : bool)               (* src.seek(c0, SEEK_SET) *)
| IoRead (head n : N) (ok : bool)           (* src.read(inBuff, n) with the read head at [head] *)
| Feed (base off : N) (bytes : list N).     (* the decoder consumed [bytes]; they are claimed to be file[base + off ..) *)

(* one iteration of the decoding loop, input side: the decoder call, then the refill *)
Inductive iiter := IIter (consumed hint : N) (rdfail : option N).
  (* consumed : input bytes the call takes (clamped to zs->in.size - zs->in.pos)
     hint     : its return value (0 = frame complete: the loop breaks, no refill)
     rdfail   : if a refill is made, Some m = the src.read fails after moving the read head by m (clamped to the request) *)

(* one visit of the do { } while body: the cache test / restart branch, then iterations *)
Inductive iseg := ISeg (want : bool) (c0 : N) (seek_ok : bool) (iters : list iiter).
  (* want    : targetFrame != curFrame || offset < decompressedOffset as far as the POSITION is concerned (decided by
               SeekReader's prelude); the branch is also taken when nothing is claimed
     c0      : entries[targetFrame].cOffset
     seek_ok : false = the seek callback fails *)

Section Input.
  Variable BUFF : N.                 (* SEEKABLE_BUFF_SIZE *)
  Variable file : list N.
  (* true = the code before fix 9b1486b: a failed src.read returns seekableIO and leaves curFrame alone *)
  Variable keep_claim : bool.

  (* the restart branch: curFrame = -1; seek; (position recorded, zs->in = {inBuff, 0, 0}) *)
  Definition in_restart (c0 : N) (seek_ok : bool) (st : istate) : istate * list ievent * bool :=
    let ok := seek_ok && (c0 <=? lenN file) in
    if ok then (mkI true c0 [] 0 c0 0, [IoSeek c0 true], true)
    else (mkI false (i_head st) (i_buf st) (i_pos st) (i_base st) (i_fed st), [IoSeek c0 false], false).

  Definition in_prelude (want : bool) (c0 : N) (seek_ok : bool) (st : istate) : istate * list ievent * bool :=
    if want || negb (i_claim st) then in_restart c0 seek_ok st else (st, [], true).

  (* result of an iteration: continue, frame complete (break), or seekableIO *)
  Inductive istat := SCont | SDone | SFail.

  Definition in_iter (it : iiter) (st : istate) : istate * list ievent * istat :=
    let '(IIter consumed hint rdfail) := it in
    let avail := lenN (i_buf st) - i_pos st in
    let c := N.min consumed avail in
    let ev := Feed (i_base st) (i_fed st) (sliceN (i_buf st) (i_pos st) c) in
    let pos' := i_pos st + c in
    let st1 := mkI (i_claim st) (i_head st) (i_buf st) pos' (i_base st) (i_fed st + c) in
    if hint =? 0 then (st1, [ev], SDone)
    else if pos' =? lenN (i_buf st) then
      let toRead := N.min hint BUFF in
      let natural := lenN file <? i_head st + toRead in         (* premature EOF *)
      match rdfail, natural with
      | None, false =>
          (mkI (i_claim st) (i_head st + toRead) (sliceN file (i_head st) toRead) 0 (i_base st) (i_fed st + c),
           [ev; IoRead (i_head st) toRead true], SCont)
      | _, _ =>
          let moved := match rdfail with Some m => N.min m toRead | None => 0 end in
          let moved := N.min moved (lenN file - i_head st) in
          (mkI (if keep_claim then i_claim st else false) (i_head st + moved) (i_buf st) pos' (i_base st) (i_fed st + c),
           [ev; IoRead (i_head st) toRead false], SFail)
      end
    else (st1, [ev], SCont).

  Fixpoint in_iters (its : list iiter) (st : istate) : istate * list ievent * istat :=
    match its with
    | [] => (st, [], SCont)
    | it :: rest =>
        let '(st1, ev1, s) := in_iter it st in
        match s with
        | SCont => let '(st2, ev2, s2) := in_iters rest st1 in (st2, ev1 ++ ev2, s2)
        | _ => (st1, ev1, s)
        end
    end.

  (* one ZSTD_seekable_decompress call = segments (one per frame visited); it returns at the first I/O failure *)
  Fixpoint in_call (segs : list iseg) (st : istate) : istate * list ievent * bool :=
    match segs with
    | [] => (st, [], true)
    | ISeg want c0 seek_ok its :: rest =>
        let '(st1, ev1, ok) := in_prelude want c0 seek_ok st in
        if ok then
          let '(st2, ev2, s) := in_iters its st1 in
          match s with
          | SFail => (st2, ev1 ++ ev2, false)
          | _ => let '(st3, ev3, ok3) := in_call rest st2 in (st3, ev1 ++ ev2 ++ ev3, ok3)
          end
        else (st1, ev1, false)
    end.

  (* a history of calls on one object *)
  Fixpoint in_history (calls : list (list iseg)) (st : istate) : istate * list ievent :=
    match calls with
    | [] => (st, [])
    | c :: rest =>
        let '(st1, ev1, _) := in_call c st in
        let '(st2, ev2) := in_history rest st1 in
        (st2, ev1 ++ ev2)
    end.
End Input.

(* what the property needs from the input side: every chunk handed to the decoder is the file's bytes at the position it
   is claimed to come from *)
Definition feed_ok (file : list N) (e : ievent) : Prop :=
  match e with
  | Feed base off bytes => bytes = sliceN file (base + off) (lenN bytes)
  | _ => True
  end.
