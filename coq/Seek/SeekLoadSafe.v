(* C20 - ZSTD_seekable_loadSeekTable's model on ARBITRARY bytes: never an out-of-range index, and whatever it
   accepts is a well-formed table (so every later use of the table stays in range); round trip instantiated at
   the regenerated SEEKABLE_BUFF_SIZE. *)
From Coq Require Import NArith ZArith List Bool Lia.
From ZV.Gen Require Import Gen_Seek.
From ZV.Seek Require Import SeekTable SeekBase SeekTableProofs SeekLoadProofs.
Import ListNotations.
Local Open Scope N_scope.
Ltac Zify.zify_post_hook ::= Z.to_euclidean_division_equations.

Lemma sk_BUFF_lo : 17 <= sk_BUFF. Proof. unfold sk_BUFF. lia. Qed.
Lemma sk_BUFF_hi : sk_BUFF + 12 < 4294967296. Proof. unfold sk_BUFF. lia. Qed.

Lemma seektable_roundtrip_BUFF fl log pre buf0 :
  lenN buf0 = sk_BUFF -> lenN log <= MAXFRAMES -> Forall logent_ok log ->
  load_seek_table sk_BUFF (pre ++ seek_table_bytes (cf_of fl) log) buf0 = Ok (table_of fl log).
Proof. intros. apply seektable_roundtrip_gen; auto using sk_BUFF_lo, sk_BUFF_hi. Qed.

Lemma lenN_rev {A} (l : list A) : lenN (rev l) = lenN l.
Proof. rewrite !lenN_eq, rev_length. reflexivity. Qed.

Section Safe2.
  Variable BUFF : N.
  Hypothesis BUFF_lo : 17 <= BUFF.
  Hypothesis BUFF_hi : BUFF + 12 < 4294967296.
  Variable file : list N.
  Hypothesis file_ok : bytes_ok file.

  Lemma src_read_len fp n data fp' : src_read file fp n = Some (data, fp') ->
    data = sliceN file fp n /\ lenN data = n /\ fp' = fp + n /\ fp + n <= lenN file.
  Proof.
    unfold src_read. destruct (N.ltb_spec (lenN file) (fp + n)); [discriminate|].
    intros E. injection E as <- <-. repeat split; try lia. rewrite lenN_sliceN. lia.
  Qed.

  Lemma ld_footer_safe buf0 : lenN buf0 = BUFF -> bytes_ok buf0 ->
    match ld_footer BUFF file buf0 with
    | Ok (buf, fl, nf) => lenN buf = BUFF /\ bytes_ok buf /\ nf = rd32 buf /\ nf < 4294967296
    | Err _ => True
    | Trap _ => False
    end.
  Proof.
    intros Hl Hb. unfold ld_footer. rewrite FOOTER_eq.
    destruct (src_seek_end file 9) as [fp|]; [|exact I].
    destruct (src_read file fp 9) as [[foot fp']|] eqn:Er; [|exact I].
    apply src_read_len in Er. destruct Er as (Ef & Elen & _ & _).
    destruct (N.ltb_spec BUFF 9); [lia|].
    assert (Hbl : lenN (buf_store buf0 0 foot) = BUFF) by (rewrite lenN_store; lia).
    assert (Hbb : bytes_ok (buf_store buf0 0 foot)).
    { apply bytes_ok_store; [assumption|]. subst foot. now apply bytes_ok_sliceN. }
    destruct (negb (rd32 (skipN (buf_store buf0 0 foot) 5) =? MAGIC)); [exact I|].
    destruct (negb ((nthN (buf_store buf0 0 foot) 4 0 / 4) mod 32 =? 0)); [exact I|].
    repeat split; try assumption. now apply rd32_bound.
  Qed.

  Lemma ld_header_safe buf fl nf : lenN buf = BUFF -> bytes_ok buf -> nf = rd32 buf -> nf < 4294967296 ->
    match ld_header BUFF file buf fl nf with
    | Ok s0 => ld_safe BUFF s0 /\ l_idx s0 = 0 /\ l_ents s0 = [] /\ nf < 4294967295
    | Err _ => True
    | Trap _ => False
    end.
  Proof.
    intros Hl Hb Hnf Hlt.
    unfold ld_header.
    destruct (N.ltb_spec MAXFRAMES nf) as [Hbig|Hsmall]; [exact I|].
    pose proof MAXFRAMES_le as Hmax.
    assert (Hne : nf <> 4294967295) by lia.
    { set (frameSize := w32 (w32 (spe fl * nf) + FOOTER + SKIPHDR)).
      set (remaining := sub32 frameSize FOOTER).
      set (toRead := N.min remaining BUFF).
      destruct (src_seek_end file frameSize) as [fp|]; [|exact I].
      destruct (src_read file fp toRead) as [[data fp']|] eqn:Er; [|exact I].
      apply src_read_len in Er. destruct Er as (Ed & Elen & _ & _).
      assert (Htr : toRead <= BUFF) by (unfold toRead; lia).
      assert (Hbl : lenN (buf_store buf 0 data) = BUFF) by (rewrite lenN_store; lia).
      assert (Hbb : bytes_ok (buf_store buf 0 data)).
      { apply bytes_ok_store; [assumption|]. subst data. now apply bytes_ok_sliceN. }
      destruct (negb (rd32 (buf_store buf 0 data) =? SKIPMAGIC)); [exact I|].
      destruct (negb (w32 (rd32 (skipN (buf_store buf 0 data) 4) + SKIPHDR) =? frameSize)); [exact I|].
      split; [|cbn [l_idx l_ents]; repeat split; lia].
      constructor; cbn [l_buf l_pos l_cur l_d l_idx l_ents rev asc hd e_d]; try assumption; try reflexivity; try lia;
        first [exact I | intros a []]. }
  Qed.

  Lemma asc_nthN l i j : asc l -> i <= j -> j < lenN l -> e_d (nthN l i e0) <= e_d (nthN l j e0).
  Proof.
    intros Ha Hij Hj. rewrite lenN_eq in Hj. rewrite !nthN_nth. apply asc_nth; [assumption|lia|lia].
  Qed.

  Lemma load_safe buf0 : lenN buf0 = BUFF -> bytes_ok buf0 ->
    match load_seek_table BUFF file buf0 with
    | Ok t => wf_table t
    | Err _ => True
    | Trap _ => False
    end.
  Proof.
    intros Hl Hb. unfold load_seek_table.
    pose proof (ld_footer_safe buf0 Hl Hb) as F.
    destruct (ld_footer BUFF file buf0) as [[[buf fl] nf]|c|s]; cbn [rbind]; [|exact I|exact F].
    destruct F as (Fl & Fb & Fn & Flt).
    pose proof (ld_header_safe buf fl nf Fl Fb Fn Flt) as Hh.
    destruct (ld_header BUFF file buf fl nf) as [s0|c|s]; cbn [rbind]; [|exact I|exact Hh].
    destruct Hh as (S0 & I0 & E0 & Hnf).
    rewrite (w32_small (nf + 1)) by lia.
    pose proof (ld_loop_safe BUFF BUFF_lo BUFF_hi file file_ok fl (nf + 1) (N.to_nat nf) ltac:(lia) s0 S0 ltac:(lia)) as L.
    destruct (ld_loop BUFF file fl (nf + 1) (N.to_nat nf) s0) as [s1|c|s]; cbn [rbind]; [|exact I|exact L].
    destruct L as (S1 & I1). rewrite I0, N2Nat.id, N.add_0_l in I1.
    destruct (N.leb_spec (nf + 1) nf); [lia|].
    destruct S1 as [Hc Hlen Hp Hby Hi Hdm Ha Hle Hf].
    rewrite revT_rev. cbn [rev].
    assert (Hrl : lenN (rev (l_ents s1)) = nf) by (rewrite lenN_rev; lia).
    constructor; cbn [t_entries t_len]; unfold ent; cbn [t_entries].
    - rewrite lenN_app, Hrl. reflexivity.
    - assumption.
    - destruct (rev (l_ents s1)) as [|x r] eqn:Er; cbn [app hd] in *.
      + cbn [nthN N.eqb e_d] in *. assumption.
      + cbn [nthN N.eqb]. assumption.
    - intros i j Hij Hj. apply asc_nthN; [|assumption|rewrite lenN_app, Hrl; cbn; lia].
      apply asc_app_one; [assumption|]. intros a Ha'. apply in_rev in Ha'. cbn [e_d]. now apply Hle.
    - rewrite nthN_app_r by lia. rewrite Hrl, N.sub_diag. cbn [nthN N.eqb e_d]. nia.
  Qed.
End Safe2.

Lemma load_safe_BUFF file buf0 : bytes_ok file -> lenN buf0 = sk_BUFF -> bytes_ok buf0 ->
  match load_seek_table sk_BUFF file buf0 with
  | Ok t => wf_table t
  | Err _ => True
  | Trap _ => False
  end.
Proof. intros. apply load_safe; auto using sk_BUFF_lo, sk_BUFF_hi. Qed.
