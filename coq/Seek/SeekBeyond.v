(* C20 round 2 - ZSTD_seekable_decompress with an offset at / BEYOND the end of the content.
   Part 1 (Section Beyond): refutation witnesses for the code BEFORE fix bb8f456 (SeekReaderOld.seekable_decompress_old):
   the length clamp  len = eos - offset  wraps in U64.  For every well-formed table, every reachable cache state,
   every decoder behaviour:
   - offset > eos, offset + len < 2^64 : the call reports SUCCESS with the value 2^64 + eos - offset and leaves dst untouched;
   - offset >= eos, offset + len wraps around 2^64 to a value below eos : the C do/while never ends (RSpin).
   No hypothesis on the frame contents. *)
From Coq Require Import NArith ZArith List Bool Lia.
From ZV.Gen Require Import Gen_Seek.
From ZV.Seek Require Import SeekTable SeekBase SeekTableProofs.
From ZV.Seek Require Import SeekReader SeekReaderOld SeekReaderProofs.
Import ListNotations.
Local Open Scope N_scope.
Ltac Zify.zify_post_hook ::= Z.to_euclidean_division_equations.

Section Beyond.
  Variable H : list N -> N.
  Variable content : N -> list N.
  Variables BUFF NOPROG : N.
  Variable t : seek_table.
  Variable sfc : bool.
  Hypothesis W : wf_table t.
  Notation D i := (e_d (ent t i)).
  Notation eos := (e_d (ent t (t_len t))).

  (* the part of the cache invariant that matters here: a reader positioned "at the end" (curFrame = numFrames) has
     decompressedOffset = eos.  It holds initially and after every call (it is a consequence of SeekReaderProofs.Inv). *)
  Definition at_end_ok (st : rstate) : Prop := r_cur st = t_len t -> r_doff st = eos.

  Lemma at_end_ok_rinit : at_end_ok rinit.
  Proof. intros E. cbn in E. pose proof (wf_small t W). lia. Qed.

  Lemma prelude_at_end st offset : at_end_ok st -> eos <= offset ->
    exists st1, prelude t offset st (w32 (t_len t)) = Ok st1 /\ r_doff st1 = eos /\ r_cur st1 = t_len t.
  Proof.
    intros A Ho. pose proof (wf_small t W) as Hs. rewrite (w32_small (t_len t)) by lia.
    unfold prelude.
    destruct (N.eqb_spec (t_len t) (r_cur st)) as [E|E]; cbn [negb orb].
    - destruct (N.ltb_spec offset (r_doff st)) as [L|L].
      + unfold restart. rewrite (wf_in_range t (t_len t) W) by lia. cbn [negb].
        eexists. split; [reflexivity|]. cbn. auto.
      + exists st. rewrite (A (eq_sym E)). auto.
    - unfold restart. rewrite (wf_in_range t (t_len t) W) by lia. cbn [negb].
      eexists. split; [reflexivity|]. cbn. auto.
  Qed.

  Lemma rloop_done offset len orc st target np dst :
    r_doff st = w64 (offset + len) ->
    rloop_old H content BUFF NOPROG t sfc offset len orc st target np dst = ROk len dst st.
  Proof.
    intros E. destruct orc; cbn [rloop_old]; rewrite E, N.ltb_irrefl, N.eqb_refl; reflexivity.
  Qed.

  Lemma rloop_spin offset len orc st target np dst :
    w64 (offset + len) < r_doff st ->
    rloop_old H content BUFF NOPROG t sfc offset len orc st target np dst = RSpin st.
  Proof.
    intros E.
    destruct orc; cbn [rloop_old];
      (replace (r_doff st <? w64 (offset + len)) with false by (symmetry; apply N.ltb_ge; lia));
      (replace (r_doff st =? w64 (offset + len)) with false by (symmetry; apply N.eqb_neq; lia)); reflexivity.
  Qed.

  Theorem beyond_end_wrapped_length_before_fix st dst0 len0 offset orc :
    at_end_ok st -> eos < offset -> 0 < len0 -> offset + len0 < 18446744073709551616 ->
    exists st1, seekable_decompress_old H content BUFF NOPROG t sfc st dst0 len0 offset orc
                = ROk (18446744073709551616 + eos - offset) dst0 st1
                /\ 18446744073709551616 + eos - offset > eos.
  Proof.
    intros A Ho Hl Hr. pose proof (wf_small t W) as Hs. pose proof (wf_bound t W) as Hb.
    unfold seekable_decompress_old. rewrite (wf_in_range t (t_len t) W) by lia. cbn [negb].
    rewrite (w64_small (offset + len0)) by lia.
    replace (eos <? offset + len0) with true by (symmetry; apply N.ltb_lt; lia).
    destruct (offset_to_frame_spec t offset W) as [Hge _]. rewrite (Hge ltac:(lia)).
    destruct (prelude_at_end st offset A ltac:(lia)) as (st1 & -> & Hd & _).
    assert (Es : sub64 eos offset = 18446744073709551616 + eos - offset).
    { unfold sub64. rewrite (w64_small eos), (w64_small offset) by lia.
      replace (eos + (18446744073709551616 - offset)) with (18446744073709551616 + eos - offset) by lia.
      apply w64_small. lia. }
    rewrite Es. exists st1. split; [|lia].
    apply rloop_done. rewrite Hd. unfold w64.
    replace (offset + (18446744073709551616 + eos - offset)) with (eos + 1 * 18446744073709551616) by lia.
    rewrite N.mod_add by lia. symmetry. apply N.mod_small. lia.
  Qed.

  Theorem wrapping_offset_never_returned_before_fix st dst0 len0 offset orc :
    at_end_ok st -> eos <= offset -> offset < 18446744073709551616 -> len0 < 18446744073709551616 ->
    18446744073709551616 <= offset + len0 -> offset + len0 - 18446744073709551616 < eos ->
    exists st1, seekable_decompress_old H content BUFF NOPROG t sfc st dst0 len0 offset orc = RSpin st1.
  Proof.
    intros A Ho Ho2 Hl Hw He. pose proof (wf_small t W) as Hs. pose proof (wf_bound t W) as Hb.
    unfold seekable_decompress_old. rewrite (wf_in_range t (t_len t) W) by lia. cbn [negb].
    assert (Ew : w64 (offset + len0) = offset + len0 - 18446744073709551616).
    { unfold w64. replace (offset + len0) with ((offset + len0 - 18446744073709551616) + 1 * 18446744073709551616) at 1 by lia.
      rewrite N.mod_add by lia. apply N.mod_small. lia. }
    rewrite Ew.
    replace (eos <? offset + len0 - 18446744073709551616) with false by (symmetry; apply N.ltb_ge; lia).
    destruct (offset_to_frame_spec t offset W) as [Hge _]. rewrite (Hge ltac:(lia)).
    destruct (prelude_at_end st offset A ltac:(lia)) as (st1 & -> & Hd & _).
    exists st1. apply rloop_spin. rewrite Ew, Hd. lia.
  Qed.
End Beyond.

(* every state the read theorems of SeekReaderProofs reach (cache invariant Inv) satisfies at_end_ok *)
Lemma Inv_at_end_ok content t st : Inv content t st -> at_end_ok t st.
Proof.
  intros I E. destruct I as [(A & _)|[(A & _)|[(_ & A)|A]]].
  - lia.
  - lia.
  - exact A.
  - lia.
Qed.

(* ------------------------------------------------------------------ Part 2: the current code (fix bb8f456) *)
Section BeyondFixed.
  Variable H : list N -> N.
  Variable content : N -> list N.
  Variables BUFF NOPROG : N.
  Variable t : seek_table.
  Variable sfc : bool.
  Hypothesis W : wf_table t.
  Notation eos := (e_d (ent t (t_len t))).

  (* an offset at or beyond the end: 0, nothing written, cache untouched - for every state, length and decoder behaviour *)
  Theorem beyond_end_returns_zero st dst0 len0 offset orc : eos <= offset ->
    seekable_decompress H content BUFF NOPROG t sfc st dst0 len0 offset orc = ROk 0 dst0 st.
  Proof.
    intros Ho. pose proof (wf_small t W). unfold seekable_decompress.
    rewrite (wf_in_range t (t_len t) W) by lia. cbn [negb].
    now replace (eos <=? offset) with true by (symmetry; apply N.leb_le; lia).
  Qed.

  (* a length that reaches beyond the end (any size_t value, offset + len may exceed 2^64) is the same call as the one
     with the length eos - offset: together with range_read_correct, EVERY (offset, len) returns x[offset, min(offset+len, |x|)) *)
  Theorem overlong_read_is_clamped st dst0 len0 offset orc : offset < eos -> eos - offset <= len0 ->
    seekable_decompress H content BUFF NOPROG t sfc st dst0 len0 offset orc =
    seekable_decompress H content BUFF NOPROG t sfc st dst0 (eos - offset) offset orc.
  Proof.
    intros Ho Hl. pose proof (wf_small t W). pose proof (wf_bound t W). unfold seekable_decompress.
    rewrite (wf_in_range t (t_len t) W) by lia. cbn [negb].
    replace (eos <=? offset) with false by (symmetry; apply N.leb_gt; lia).
    rewrite sub64_small by lia.
    rewrite N.ltb_irrefl.
    destruct (N.ltb_spec (eos - offset) len0) as [L|G]; [reflexivity|].
    replace len0 with (eos - offset) by lia. reflexivity.
  Qed.
End BeyondFixed.
