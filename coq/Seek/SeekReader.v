(* C20 - model of ZSTD_seekable_decompress / ZSTD_seekable_decompressFrame (zstdseek_decompress.c).
   NO proofs in this file.

   What is modelled: the curFrame / decompressedOffset cache, the restart-vs-continue decision, dummy
   decoding into the scratch buffer until the target offset, decoding into the caller's buffer at
   position decompressedOffset - offset, the per-frame XXH64 (low 32 bits) check when the frame completes,
   the move to the next frame through offsetToFrameIndex (and the "frame shorter than its table entry" error),
   the cap of the decoder's output room at the frame end the table gives (fix 943db3b: a frame cannot hand out more
   than its entry announces; a surplus ends in the no-progress or the checksum error),
   the no-output-progress counter, the early return for an offset at / beyond the end and the length clamp (fix bb8f456),
   the continuation of the loop when the read stops exactly at the end of a frame (fix 7f35186), the state after a
   decoder error (fix b978b70) and after a failed src.read (fix 9b1486b).

   What is abstract: libzstd's streaming decoder and the input side (zs->in, src.read of the size hints).
   A frame is a function [content i] = the bytes the decoder regenerates from the frame entry i points at;
   how many bytes each ZSTD_decompressStream call produces, and when it reports "frame complete", is given
   by an ORACLE list (one element per call) - any list.  An oracle element is clamped to what is possible
   (room offered, bytes left in the frame), so the model is total.                                        *)
From Coq Require Import NArith List Bool.
From ZV.Gen Require Import Gen_Seek.
From ZV.Seek Require Import SeekTable.
Import ListNotations.
Local Open Scope N_scope.

Inductive revent :=
| EvRestart (target : N)                      (* seek to entries[target].cOffset, reset decoder and hash *)
| EvCall (skip : bool) (size pos : N).        (* ZSTD_decompressStream with outTmp = {skip buffer | dst, size, pos} *)

Record rstate := mkR {
  r_cur : N;            (* zs->curFrame (U32) *)
  r_doff : N;           (* zs->decompressedOffset (U64) *)
  d_frame : N;          (* frame the decoder/source was last positioned at *)
  d_prod : N;           (* bytes the decoder produced since then *)
  d_fin : bool;         (* the decoder reported the frame complete *)
  r_acc : list N;       (* bytes fed to XXH64 since its reset, most recent first *)
  r_trace : list revent (* ghost: events, most recent first (used by the correspondence only) *)
}.

(* state after ZSTD_seekable_init*: curFrame = (U32)-1, decompressedOffset = (U64)-1 *)
Definition rinit : rstate := mkR 4294967295 18446744073709551615 4294967295 0 false [] [].

Inductive rres :=
| ROk (ret : N) (dst : list N) (st : rstate)
| RErr (code : N) (dst : list N) (st : rstate)
| RFuel (dst : list N) (st : rstate)          (* oracle exhausted: the C loop would call the decoder again *)
| RSpin (st : rstate)                         (* the C do/while would loop without ever calling the decoder *)
| RTrap (site : N).                           (* ghost: out-of-range index *)

Section Reader.
  Variable H : list N -> N.                   (* XXH64, seed 0 *)
  Variable content : N -> list N.             (* frame_content *)
  Variable BUFF : N.                          (* SEEKABLE_BUFF_SIZE *)
  Variable NOPROG : N.                        (* ZSTD_SEEKABLE_NO_OUTPUT_PROGRESS_MAX *)
  Variable t : seek_table.
  (* true = the current code (fix e8679b7: a frame that completes before the end offset its table entry gives is
     reported as corruption); false = the code before that fix, kept for the livelock refutation witness *)
  Variable short_frame_check : bool.

  (* one ZSTD_decompressStream call with [space] bytes of room; oracle element (k, fin) *)
  Definition dcall (st : rstate) (space : N) (o : N * bool) : list N * bool * rstate :=
    let '(f, p) := if d_fin st then (w32 (d_frame st + 1), 0) else (d_frame st, d_prod st) in
    let c := content f in
    let avail := lenN c - p in
    let k := N.min (N.min (fst o) space) avail in
    let bytes := sliceN c p k in
    let fin := snd o && (p + k =? lenN c) in
    (bytes, fin, mkR (r_cur st) (r_doff st) f (p + k) fin (r_acc st) (r_trace st)).

  Definition restart (st : rstate) (target : N) : res rstate :=
    if negb (in_range t target) then Trap 51
    else Ok (mkR target (e_d (ent t target)) target 0 false [] (EvRestart target :: r_trace st)).

  (* the restart branch when its src.seek fails (CHECK_IO): the call returns ERROR(seekableIO).  [cache_first = true] is the
     code before fix c859e4f: curFrame / decompressedOffset were assigned before the seek while zs->in, the hash state and the
     decoder were not touched.  [cache_first = false] is the current code: curFrame = (U32)-1 before the seek, the position is
     recorded only after the seek succeeded. *)
  Definition restart_seek_failed (cache_first : bool) (st : rstate) (target : N) : rstate :=
    if cache_first
    then mkR target (e_d (ent t target)) (d_frame st) (d_prod st) (d_fin st) (r_acc st) (r_trace st)
    else mkR 4294967295 (r_doff st) (d_frame st) (d_prod st) (d_fin st) (r_acc st) (r_trace st).

  (* top of the do { } while : "check if we can continue from a previous decompress job" *)
  Definition prelude (offset : N) (st : rstate) (target : N) : res rstate :=
    if negb (target =? r_cur st) || (offset <? r_doff st) then restart st target else Ok st.

  (* every error return of the loop that finds the frame different from what the table says (checksum mismatch, frame
     shorter than its entry), like a decoder error and a failed read, leaves the reader positioned nowhere:
     curFrame = (U32)-1 (fix a2a0322 for the two corruption_detected returns; before it the position stayed claimed
     while the decoder had finished the frame, and the next call for the same frame continued into the NEXT frame of the file) *)
  Definition forget_position (st : rstate) : rstate :=
    mkR 4294967295 (r_doff st) (d_frame st) (d_prod st) (d_fin st) (r_acc st) (r_trace st).

  Section Call.
    Variable offset len : N.                  (* len after clamping *)
    Let endpos := w64 (offset + len).

    (* the condition of the inner while (fix 7f35186):
         decompressedOffset < offset + len
         || (len > 0 && !frameDone && decompressedOffset == entries[targetFrame + 1].dOffset)
       frameDone is a local that is 1 only between "toRead == 0" and the break that follows it, and 0 again when the read
       moves to the next frame: at every evaluation of this condition it is 0 - except after a break with
       decompressedOffset > offset + len, which the model reports as RSpin directly.  So the second disjunct is
       "the read stops exactly where the table ends the current frame": the decoder is driven (with no output room) until it
       reports the end of the frame, and the checksum is compared. *)
    Definition loop_cond (st : rstate) (target : N) : res bool :=
      if r_doff st <? endpos then Ok true
      else if 0 <? len then
             if negb (in_range t (w32 (target + 1))) then Trap 56
             else Ok (r_doff st =? e_d (ent t (w32 (target + 1))))
           else Ok false.

    Fixpoint rloop (orc : list (N * bool)) (st : rstate) (target np : N) (dst : list N) : rres :=
      match loop_cond st target with
      | Trap s => RTrap s
      | Err _ => RTrap 57
      | Ok false => if r_doff st =? endpos then ROk len dst st else RSpin st
      | Ok true =>
        match orc with
        | [] => RFuel dst st
        | o :: orc' =>
            (* fix 943db3b: frameEnd = entries[targetFrame + 1].dOffset caps what one frame may hand out *)
            if negb (in_range t (w32 (target + 1))) then RTrap 55 else
            let frameEnd := e_d (ent t (w32 (target + 1))) in
            let skipping := r_doff st <? offset in
            let size := if skipping then N.min BUFF (sub64 (N.min offset frameEnd) (r_doff st))
                        else N.min len (sub64 frameEnd offset) in
            let pos := if skipping then 0 else sub64 (r_doff st) offset in
            if size <? pos then RTrap 52 else
            let st0 := mkR (r_cur st) (r_doff st) (d_frame st) (d_prod st) (d_fin st) (r_acc st)
                           (EvCall skipping size pos :: r_trace st) in
            let '(bytes, fin, st1) := dcall st0 (size - pos) o in
            let k := lenN bytes in
            let dst' := if skipping then dst else buf_store dst pos bytes in
            let acc' := if t_flag t then rev_append bytes (r_acc st1) else r_acc st1 in
            if (k =? 0) && (NOPROG <? np) then RErr sk_E_seekableIO dst' st1 else
            let np' := if k =? 0 then w32 (np + 1) else 0 in
            let st2 := mkR (r_cur st1) (w64 (r_doff st1 + k)) (d_frame st1) (d_prod st1) (d_fin st1) acc' (r_trace st1) in
            if fin then
              (* frame complete: verify checksum *)
              if negb (in_range t target) then RTrap 53 else
              if t_flag t && negb (H (revT acc') mod 4294967296 =? e_k (ent t target))
              then RErr sk_E_corruption_detected dst' (forget_position st2)
              (* fix b63eccc: the frame is complete but its seek-table entry says it goes on: table and frame disagree, whether or
                 not this read wants more (before it a read ending exactly at the real end of a short frame returned success and
                 kept its position; the next call continued into the next frame of the file) *)
              else if short_frame_check && (r_doff st2 <? frameEnd)
              then RErr sk_E_corruption_detected dst' (forget_position st2)
              else if r_doff st2 <? endpos then
                match offset_to_frame t (r_doff st2) with
                | Ok target' =>
                    if short_frame_check && (w32 target' =? r_cur st2)
                    then RErr sk_E_corruption_detected dst' (forget_position st2) else
                    match prelude offset st2 (w32 target') with
                    | Ok st3 => rloop orc' st3 (w32 target') np' dst'
                    | Err c => RErr c dst' st2
                    | Trap s => RTrap s
                    end
                | Err c => RErr c dst' st2
                | Trap s => RTrap s
                end
              else if r_doff st2 =? endpos then ROk len dst' st2 else RSpin st2
            else rloop orc' st2 target np' dst'
        end
      end.
  End Call.

  (* the decoder reported an error (fix b978b70): curFrame = (U32)-1 before the error is returned, so the next call seeks
     and resets the decoder instead of continuing a stream in an error state.  (Decoder errors are outside the oracle - a
     frame here is its content; this is the state transformation of that return path.) *)
  Definition decoder_failed (st : rstate) : rstate :=
    mkR 4294967295 (r_doff st) (d_frame st) (d_prod st) (d_fin st) (r_acc st) (r_trace st).

  (* the src.read of the decoder's size hint failed inside the loop (fix 9b1486b): curFrame = (U32)-1 before seekableIO is
     returned, because the source's read head is unknown after a failed read (fread: file position indeterminate; a callback
     may have transferred part of the bytes).  The input side is outside this model - a read failure is not an oracle
     element and the model has no read head, so the defect itself (the next call continuing from a moved read head) cannot be
     exhibited here; this is the state transformation of that return path.  [st] is the state after the decoder call that
     emptied zs->in (decompressedOffset already advanced). *)
  Definition read_failed (st : rstate) : rstate :=
    mkR 4294967295 (r_doff st) (d_frame st) (d_prod st) (d_fin st) (r_acc st) (r_trace st).

  (* ZSTD_seekable_decompress(zs, dst, len0, offset) with dst's previous content [dst0] *)
  Definition seekable_decompress (st : rstate) (dst0 : list N) (len0 offset : N) (orc : list (N * bool)) : rres :=
    if negb (in_range t (t_len t)) then RTrap 50 else
    let eos := e_d (ent t (t_len t)) in
    (* fix bb8f456: nothing at or beyond the end - return 0 without touching the cache; the clamp cannot wrap any more *)
    if eos <=? offset then ROk 0 dst0 st else
    let len := if sub64 eos offset <? len0 then sub64 eos offset else len0 in
    match offset_to_frame t offset with
    | Ok target =>
        match prelude offset st (w32 target) with
        | Ok st1 => rloop offset len orc st1 (w32 target) 0 dst0
        | Err c => RErr c dst0 st
        | Trap s => RTrap s
        end
    | Err c => RErr c dst0 st
    | Trap s => RTrap s
    end.

  (* ZSTD_seekable_decompressFrame *)
  Definition seekable_decompress_frame (st : rstate) (dst0 : list N) (dstSize frameIndex : N) (orc : list (N * bool)) : rres :=
    if t_len t <=? frameIndex then RErr sk_E_frameIndex_tooLarge dst0 st
    else if negb (in_range t (w32 (frameIndex + 1))) then RTrap 54
    else
      let dsz := sub64 (e_d (ent t (w32 (frameIndex + 1)))) (e_d (ent t frameIndex)) in
      if dstSize <? dsz then RErr sk_E_dstSize_tooSmall dst0 st
      else seekable_decompress st dst0 dsz (e_d (ent t frameIndex)) orc.
End Reader.
