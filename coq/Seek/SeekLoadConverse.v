(* C20 round 3 - the converse of seektable_roundtrip: whatever ZSTD_seekable_loadSeekTable's model accepts IS a
   serialised seek table (any bytes, then magic, size, lenN log entries, count, descriptor, magic) and the table it
   returns is the table of the entries the file holds.  True since fix 56d8861 (numFrames <= ZSTD_SEEKABLE_MAXFRAMES);
   before it the U32 size arithmetic wrapped (witness at the end: a 78-byte file claiming 2^29 + 3 frames passes the
   header checks of the old code). *)
From Coq Require Import NArith ZArith List Bool Lia.
From ZV.Gen Require Import Gen_Seek.
From ZV.Seek Require Import SeekTable SeekBase SeekTableProofs SeekLoadProofs SeekLoadSafe.
Import ListNotations.
Local Open Scope N_scope.
Ltac Zify.zify_post_hook ::= Z.to_euclidean_division_equations.

(* ------------------------------------------------------------------ bytes <-> words *)
Lemma le32_rd32_4 a b c d r : a < 256 -> b < 256 -> c < 256 -> d < 256 ->
  le32 (rd32 (a :: b :: c :: d :: r)) = [a; b; c; d].
Proof.
  intros Ha Hb Hc Hd. unfold rd32, le32.
  assert (E0 : (a + 256 * b + 65536 * c + 16777216 * d) mod 256 = a) by lia.
  assert (E1 : ((a + 256 * b + 65536 * c + 16777216 * d) / 256) mod 256 = b) by lia.
  assert (E2 : ((a + 256 * b + 65536 * c + 16777216 * d) / 65536) mod 256 = c) by lia.
  assert (E3 : ((a + 256 * b + 65536 * c + 16777216 * d) / 16777216) mod 256 = d) by lia.
  now rewrite E0, E1, E2, E3.
Qed.

Lemma lenN_ge4 {A} (l : list A) : 4 <= lenN l -> exists a b c d r, l = a :: b :: c :: d :: r.
Proof.
  rewrite lenN_eq. intros H.
  destruct l as [|a [|b [|c [|d r]]]]; cbn [length] in H; try lia. now exists a, b, c, d, r.
Qed.

Lemma le32_rd32 l : bytes_ok l -> 4 <= lenN l -> le32 (rd32 l) = firstN l 4.
Proof.
  intros Hb Hl. destruct (lenN_ge4 l Hl) as (a & b & c & d & r & ->).
  unfold bytes_ok in Hb. repeat (apply Forall_cons_iff in Hb; destruct Hb as [? Hb]).
  rewrite le32_rd32_4 by assumption.
  change (firstN (a :: b :: c :: d :: r) 4) with (a :: b :: c :: d :: firstN r 0). now rewrite firstN_0.
Qed.

(* ------------------------------------------------------------------ any spe * n bytes are n entries *)
Fixpoint parse_entries (fl : bool) (n : nat) (l : list N) : list logent :=
  match n with
  | O => []
  | S k => (rd32 l, rd32 (skipN l 4), if fl then rd32 (skipN l 8) else 0) :: parse_entries fl k (skipN l (spe fl))
  end.

Lemma parse_entries_ok fl n : forall l, bytes_ok l -> lenN l = spe fl * N.of_nat n ->
  flat_map (entry_bytes fl) (parse_entries fl n l) = l /\ Forall logent_ok (parse_entries fl n l) /\
  length (parse_entries fl n l) = n.
Proof.
  induction n as [|k IH]; intros l Hb Hl.
  - cbn [parse_entries flat_map length]. rewrite N.mul_0_r in Hl. rewrite lenN_eq in Hl.
    destruct l; [repeat split; constructor|cbn [length] in Hl; lia].
  - pose proof (spe_bounds fl) as Hs.
    cbn [parse_entries flat_map length].
    assert (Hl' : lenN (skipN l (spe fl)) = spe fl * N.of_nat k) by (rewrite lenN_skipN; lia).
    destruct (IH (skipN l (spe fl)) (bytes_ok_skipN _ _ Hb) Hl') as (E1 & E2 & E3).
    rewrite E1, E3. split; [|split; [|reflexivity]].
    + assert (Heb : entry_bytes fl (rd32 l, rd32 (skipN l 4), if fl then rd32 (skipN l 8) else 0) = firstN l (spe fl)).
      { unfold entry_bytes.
        rewrite (le32_rd32 l) by (assumption || lia).
        rewrite (le32_rd32 (skipN l 4)) by (try apply bytes_ok_skipN; try assumption; rewrite lenN_skipN; lia).
        destruct fl; cbn [spe] in *.
        - rewrite (le32_rd32 (skipN l 8)) by (try apply bytes_ok_skipN; try assumption; rewrite lenN_skipN; lia).
          rewrite (firstN_plus l 4 8 : firstN l 12 = _). rewrite (firstN_plus (skipN l 4) 4 4 : firstN (skipN l 4) 8 = _).
          rewrite skipN_skipN. reflexivity.
        - rewrite (firstN_plus l 4 4 : firstN l 8 = _). now rewrite app_nil_r. }
      rewrite Heb. apply firstN_skipN.
    + constructor; [|assumption].
      unfold logent_ok. repeat split.
      * now apply rd32_bound.
      * apply rd32_bound. now apply bytes_ok_skipN.
      * destruct fl; [apply rd32_bound; now apply bytes_ok_skipN|lia].
Qed.

Lemma lenN_9 {A} (l : list A) : lenN l = 9 ->
  exists a0 a1 a2 a3 a4 a5 a6 a7 a8, l = [a0; a1; a2; a3; a4; a5; a6; a7; a8].
Proof.
  rewrite lenN_eq. intros H.
  destruct l as [|a0 [|a1 [|a2 [|a3 [|a4 [|a5 [|a6 [|a7 [|a8 [|x r]]]]]]]]]]; cbn [length] in H; try lia.
  now exists a0, a1, a2, a3, a4, a5, a6, a7, a8.
Qed.

Lemma src_read_ok file fp n data fp' : src_read file fp n = Some (data, fp') ->
  data = sliceN file fp n /\ lenN data = n /\ fp' = fp + n /\ fp + n <= lenN file.
Proof.
  unfold src_read. destruct (N.ltb_spec (lenN file) (fp + n)); [discriminate|].
  intros E. injection E as <- <-. repeat split; try lia. rewrite lenN_sliceN. lia.
Qed.

Section Converse.
  Variable BUFF : N.
  Hypothesis Blo : 17 <= BUFF.
  Hypothesis Bhi : BUFF + 12 < 4294967296.
  Variable file buf0 : list N.
  Hypothesis file_ok : bytes_ok file.
  Hypothesis Hb0 : lenN buf0 = BUFF.

  (* what an accepted footer says about the file *)
  Lemma ld_footer_shape buf fl nf : ld_footer BUFF file buf0 = Ok (buf, fl, nf) ->
    exists sfd, 9 <= lenN file /\ sliceN file (lenN file - 9) 9 = le32 nf ++ [sfd] ++ le32 MAGIC /\
                sfd < 256 /\ (sfd / 4) mod 32 = 0 /\ negb (sfd / 128 =? 0) = fl /\ nf < 4294967296 /\
                lenN buf = BUFF.
  Proof.
    unfold ld_footer. rewrite FOOTER_eq. unfold src_seek_end.
    destruct (N.ltb_spec (lenN file) 9) as [|Hlen]; [discriminate|].
    destruct (src_read file (lenN file - 9) 9) as [[foot fp']|] eqn:Er; [|discriminate].
    apply src_read_ok in Er. destruct Er as (Ef & Elen & _ & _).
    destruct (N.ltb_spec BUFF 9); [lia|].
    assert (Hfb : bytes_ok foot) by (subst foot; now apply bytes_ok_sliceN).
    destruct (lenN_9 foot Elen) as (a0 & a1 & a2 & a3 & a4 & a5 & a6 & a7 & a8 & Efoot).
    rewrite store_0 by lia. rewrite Elen.
    set (rest := skipN buf0 9).
    rewrite Efoot. cbn [app].
    rewrite skipN5, nthN4.
    set (nfv := rd32 (a0 :: a1 :: a2 :: a3 :: a4 :: a5 :: a6 :: a7 :: a8 :: rest)).
    destruct (N.eqb_spec (rd32 (a5 :: a6 :: a7 :: a8 :: rest)) MAGIC) as [Em|]; cbn [negb]; [|discriminate].
    destruct (N.eqb_spec ((a4 / 4) mod 32) 0) as [Eres|]; cbn [negb]; [|discriminate].
    intros E. injection E as <- <- <-.
    unfold bytes_ok in Hfb. rewrite Efoot in Hfb.
    repeat (apply Forall_cons_iff in Hfb; destruct Hfb as [? Hfb]).
    exists a4. split; [assumption|]. split; [|split; [assumption|split; [assumption|split; [reflexivity|split]]]].
    - rewrite <- Ef, Efoot. unfold nfv.
      rewrite le32_rd32_4 by assumption.
      rewrite <- Em. rewrite le32_rd32_4 by assumption. reflexivity.
    - unfold nfv, rd32. lia.
    - change (lenN ([a0; a1; a2; a3; a4; a5; a6; a7; a8] ++ rest) = BUFF).
      rewrite lenN_app. unfold rest. rewrite lenN_skipN. rewrite lenN_eq. cbn [length]. lia.
  Qed.

  (* what an accepted header says about the file (numFrames within the limit: no wrap) *)
  Lemma ld_header_shape buf fl nf s0 : lenN buf = BUFF -> nf < 4294967296 ->
    ld_header BUFF file buf fl nf = Ok s0 ->
    nf <= MAXFRAMES /\ spe fl * nf + 17 <= lenN file /\
    sliceN file (lenN file - (spe fl * nf + 17)) 8 = le32 SKIPMAGIC ++ le32 (spe fl * nf + 9).
  Proof.
    intros Hbl Hnf. unfold ld_header. rewrite FOOTER_eq, SKIPHDR_eq.
    destruct (N.ltb_spec MAXFRAMES nf) as [|Hle]; [discriminate|].
    pose proof MAXFRAMES_le as Hmax. pose proof (spe_bounds fl) as Hs.
    assert (Hp : spe fl * nf <= 1610612736) by (destruct fl; cbn [spe] in *; lia).
    rewrite (w32_small (spe fl * nf)) by lia.
    rewrite (w32_small (spe fl * nf + 9 + 8)) by lia.
    rewrite (sub32_small (spe fl * nf + 9 + 8) 9) by lia.
    replace (spe fl * nf + 9 + 8 - 9) with (spe fl * nf + 8) by lia.
    set (toRead := N.min (spe fl * nf + 8) BUFF).
    unfold src_seek_end.
    destruct (N.ltb_spec (lenN file) (spe fl * nf + 9 + 8)) as [|Hlen]; [discriminate|].
    set (fp := lenN file - (spe fl * nf + 9 + 8)).
    destruct (src_read file fp toRead) as [[data fp']|] eqn:Er; [|discriminate].
    apply src_read_ok in Er. destruct Er as (Ed & Elen & _ & _).
    assert (Htr : 8 <= toRead /\ toRead <= BUFF) by (unfold toRead; lia).
    rewrite store_0 by lia. rewrite Elen.
    assert (Hdb : bytes_ok data) by (subst data; now apply bytes_ok_sliceN).
    destruct (lenN_ge4 data ltac:(lia)) as (a & b & c & d & r & Edata).
    assert (Hr4 : 4 <= lenN r).
    { rewrite Edata in Elen. rewrite !lenN_cons in Elen. lia. }
    destruct (lenN_ge4 r Hr4) as (a' & b' & c' & d' & r' & Er').
    rewrite Edata, Er'. cbn [app]. rewrite skipN4.
    destruct (N.eqb_spec (rd32 (a :: b :: c :: d :: a' :: b' :: c' :: d' :: r' ++ skipN buf toRead)) SKIPMAGIC) as [Em|];
      cbn [negb]; [|discriminate].
    destruct (N.eqb_spec (w32 (rd32 (a' :: b' :: c' :: d' :: r' ++ skipN buf toRead) + 8)) (spe fl * nf + 9 + 8)) as [Es|];
      cbn [negb]; [|discriminate].
    intros _. split; [assumption|]. split; [lia|].
    replace (spe fl * nf + 17) with (spe fl * nf + 9 + 8) by lia. fold fp.
    assert (H8 : sliceN file fp 8 = firstN data 8).
    { rewrite Ed. rewrite firstN_sliceN by lia. reflexivity. }
    rewrite H8, Edata, Er'.
    unfold bytes_ok in Hdb. rewrite Edata, Er' in Hdb.
    repeat (apply Forall_cons_iff in Hdb; destruct Hdb as [? Hdb]).
    assert (Hsz : rd32 (a' :: b' :: c' :: d' :: r' ++ skipN buf toRead) = spe fl * nf + 9).
    { assert (Hlt : rd32 (a' :: b' :: c' :: d' :: r' ++ skipN buf toRead) < 4294967296) by (unfold rd32; lia).
      destruct (N.lt_ge_cases (rd32 (a' :: b' :: c' :: d' :: r' ++ skipN buf toRead) + 8) 4294967296) as [Hw|Hw].
      - rewrite w32_small in Es by assumption. lia.
      - unfold w32 in Es. lia. }
    rewrite <- Em, <- Hsz.
    rewrite !le32_rd32_4 by assumption.
    change (firstN (a :: b :: c :: d :: a' :: b' :: c' :: d' :: r') 8) with (a :: b :: c :: d :: a' :: b' :: c' :: d' :: firstN r' 0).
    now rewrite firstN_0.
  Qed.

  Theorem load_accepts_only_table_frames t : load_seek_table BUFF file buf0 = Ok t ->
    exists pre fl sfd log,
      file = pre ++ table_frame fl sfd log /\ lenN log <= MAXFRAMES /\ Forall logent_ok log /\
      sfd < 256 /\ (sfd / 4) mod 32 = 0 /\ negb (sfd / 128 =? 0) = fl /\ t = table_of fl log.
  Proof.
    intros Hload. pose proof Hload as Hload0. unfold load_seek_table in Hload.
    destruct (ld_footer BUFF file buf0) as [[[buf fl] nf]|c|s] eqn:Ef; cbn [rbind] in Hload; try discriminate.
    destruct (ld_footer_shape buf fl nf Ef) as (sfd & Hlen9 & Hfoot & Hsfd & Hres & Hfl & Hnf & Hbl).
    destruct (ld_header BUFF file buf fl nf) as [s0|c|s] eqn:Eh; cbn [rbind] in Hload; try discriminate.
    destruct (ld_header_shape buf fl nf s0 Hbl Hnf Eh) as (Hmax & Hflen & Hhd).
    clear Hload.
    pose proof (spe_bounds fl) as Hs.
    set (fp := lenN file - (spe fl * nf + 17)) in *.
    set (E := sliceN file (fp + 8) (spe fl * nf)).
    assert (HEb : bytes_ok E) by (now apply bytes_ok_sliceN).
    assert (HEl : lenN E = spe fl * N.of_nat (N.to_nat nf)).
    { unfold E. rewrite lenN_sliceN, N2Nat.id. unfold fp. lia. }
    destruct (parse_entries_ok fl (N.to_nat nf) E HEb HEl) as (P1 & P2 & P3).
    set (log := parse_entries fl (N.to_nat nf) E) in *.
    assert (Hlog : lenN log = nf) by (rewrite lenN_eq, P3; lia).
    assert (Hfile : file = firstN file fp ++ table_frame fl sfd log).
    { unfold table_frame. rewrite Hlog, P1, <- Hhd, <- Hfoot.
      rewrite <- (firstN_skipN file fp) at 1. f_equal.
      assert (Hsk : skipN file fp = sliceN file fp (8 + (spe fl * nf + 9))).
      { unfold sliceN. symmetry. apply firstN_all. rewrite lenN_skipN. unfold fp. lia. }
      rewrite Hsk. rewrite sliceN_plus. f_equal. rewrite sliceN_plus. unfold E. f_equal.
      f_equal. unfold fp. lia. }
    exists (firstN file fp), fl, sfd, log.
    split; [exact Hfile|]. split; [lia|]. split; [exact P2|]. split; [exact Hsfd|]. split; [exact Hres|]. split; [exact Hfl|].
    assert (Hrt : load_seek_table BUFF (firstN file fp ++ table_frame fl sfd log) buf0 = Ok (table_of fl log)).
    { unfold table_frame. apply seektable_roundtrip_frame; try assumption. lia. }
    rewrite <- Hfile in Hrt. rewrite Hload0 in Hrt. now injection Hrt.
  Qed.

  (* both directions: the accepted files are exactly [anything ++ table frame] *)
  Theorem load_accepts_exactly_table_frames t :
    load_seek_table BUFF file buf0 = Ok t <->
    exists pre fl sfd log,
      file = pre ++ table_frame fl sfd log /\ lenN log <= MAXFRAMES /\ Forall logent_ok log /\
      (sfd / 4) mod 32 = 0 /\ negb (sfd / 128 =? 0) = fl /\ t = table_of fl log.
  Proof.
    split.
    - intros H. destruct (load_accepts_only_table_frames t H) as (pre & fl & sfd & log & H1 & H2 & H3 & _ & H5 & H6 & H7).
      exists pre, fl, sfd, log. tauto.
    - intros (pre & fl & sfd & log & -> & H2 & H3 & H5 & H6 & ->).
      unfold table_frame. now apply seektable_roundtrip_frame.
  Qed.
End Converse.

Lemma load_accepts_exactly_table_frames_BUFF file buf0 t : bytes_ok file -> lenN buf0 = sk_BUFF ->
  (load_seek_table sk_BUFF file buf0 = Ok t <->
   exists pre fl sfd log,
     file = pre ++ table_frame fl sfd log /\ lenN log <= MAXFRAMES /\ Forall logent_ok log /\
     (sfd / 4) mod 32 = 0 /\ negb (sfd / 128 =? 0) = fl /\ t = table_of fl log).
Proof. intros. apply load_accepts_exactly_table_frames; auto using sk_BUFF_lo, sk_BUFF_hi. Qed.

(* ------------------------------------------------------------------ witness: the code before fix 56d8861 *)
(* the 78-byte archive of "0123456789" (maxFrameSize 5, no checksums: 3 entries) with the footer count 3 replaced by 2^29 + 3 *)
Definition wrap_file : list N :=
  [40;181;47;253;0;0;41;0;0;48;49;50;51;52; 40;181;47;253;0;0;41;0;0;53;54;55;56;57; 40;181;47;253;32;0;1;0;0]
  ++ le32 SKIPMAGIC ++ le32 33 ++ le32 14 ++ le32 5 ++ le32 14 ++ le32 5 ++ le32 9 ++ le32 0
  ++ le32 536870915 ++ [0] ++ le32 MAGIC.

(* (stated with a 64-byte buffer: the file's table frame has 41 bytes, nothing depends on the buffer beyond that) *)
Lemma wrapped_count_passes_old_header_checks :
  exists buf, ld_footer 64 wrap_file (repeat 0 64) = Ok (buf, false, 536870915) /\
              (exists s0, ld_header_old 64 wrap_file buf false 536870915 = Ok s0) /\
              ld_header 64 wrap_file buf false 536870915 = Err sk_E_corruption_detected /\
              lenN wrap_file = 78.
Proof.
  eexists. split; [vm_compute; reflexivity|]. split; [|split; [vm_compute; reflexivity|vm_compute; reflexivity]].
  eexists. vm_compute. reflexivity.
Qed.
