(* C20 - basic lemmas: binary-indexed list access, little-endian words, wrap-around arithmetic. *)
From Coq Require Import NArith ZArith List Bool Lia.
From ZV.Seek Require Import SeekTable.
Import ListNotations.
Local Open Scope N_scope.
Ltac Zify.zify_post_hook ::= Z.to_euclidean_division_equations.

Lemma skipN_skipn {A} (l : list A) n : skipN l n = skipn (N.to_nat n) l.
Proof.
  revert n; induction l as [|x t IH]; intros n; cbn [skipN].
  - now rewrite skipn_nil.
  - destruct (N.eqb_spec n 0) as [->|Hn]; [reflexivity|].
    rewrite IH. replace (N.to_nat n) with (S (N.to_nat (N.pred n))) by lia. reflexivity.
Qed.

Lemma firstN_firstn {A} (l : list A) n : firstN l n = firstn (N.to_nat n) l.
Proof.
  revert n; induction l as [|x t IH]; intros n; cbn [firstN].
  - now rewrite firstn_nil.
  - destruct (N.eqb_spec n 0) as [->|Hn]; [reflexivity|].
    rewrite IH. replace (N.to_nat n) with (S (N.to_nat (N.pred n))) by lia. reflexivity.
Qed.

Lemma nthN_nth {A} (l : list A) n d : nthN l n d = nth (N.to_nat n) l d.
Proof.
  revert n; induction l as [|x t IH]; intros n; cbn [nthN].
  - now destruct (N.to_nat n).
  - destruct (N.eqb_spec n 0) as [->|Hn]; [reflexivity|].
    rewrite IH. replace (N.to_nat n) with (S (N.to_nat (N.pred n))) by lia. reflexivity.
Qed.

Lemma revT_rev {A} (l : list A) : revT l = rev l.
Proof. unfold revT. now rewrite rev_append_rev, app_nil_r. Qed.

Lemma lenN_aux_eq {A} (l : list A) acc : lenN_aux l acc = acc + N.of_nat (length l).
Proof.
  revert acc; induction l as [|x t IH]; intros acc; cbn [lenN_aux length]; [lia|].
  rewrite IH. lia.
Qed.
Lemma lenN_eq {A} (l : list A) : lenN l = N.of_nat (length l).
Proof. unfold lenN. now rewrite lenN_aux_eq. Qed.

Lemma lenN_app {A} (a b : list A) : lenN (a ++ b) = lenN a + lenN b.
Proof. rewrite ?lenN_eq. rewrite app_length. lia. Qed.
Lemma lenN_nil {A} : lenN (@nil A) = 0. Proof. reflexivity. Qed.
Lemma lenN_cons {A} (x : A) l : lenN (x :: l) = 1 + lenN l.
Proof. rewrite ?lenN_eq. cbn [length]. lia. Qed.

Lemma lenN_firstN {A} (l : list A) n : lenN (firstN l n) = N.min n (lenN l).
Proof. rewrite ?lenN_eq. rewrite firstN_firstn, firstn_length. lia. Qed.
Lemma lenN_skipN {A} (l : list A) n : lenN (skipN l n) = lenN l - n.
Proof. rewrite ?lenN_eq. rewrite skipN_skipn, skipn_length. lia. Qed.
Lemma lenN_sliceN {A} (l : list A) a n : lenN (sliceN l a n) = N.min n (lenN l - a).
Proof. unfold sliceN. now rewrite lenN_firstN, lenN_skipN. Qed.

Lemma skipN_0 {A} (l : list A) : skipN l 0 = l.
Proof. now rewrite skipN_skipn. Qed.
Lemma firstN_0 {A} (l : list A) : firstN l 0 = [].
Proof. now rewrite firstN_firstn. Qed.
Lemma skipN_all {A} (l : list A) n : lenN l <= n -> skipN l n = [].
Proof. rewrite ?lenN_eq. intros. rewrite skipN_skipn. apply skipn_all2. lia. Qed.
Lemma firstN_all {A} (l : list A) n : lenN l <= n -> firstN l n = l.
Proof. rewrite ?lenN_eq. intros. rewrite firstN_firstn. apply firstn_all2. lia. Qed.

Lemma skipn_skipn' {A} (a b : nat) (l : list A) : skipn a (skipn b l) = skipn (b + a) l.
Proof.
  revert l; induction b as [|b IH]; intros l; [reflexivity|].
  destruct l; [now rewrite !skipn_nil|]. cbn. apply IH.
Qed.

Lemma skipN_skipN {A} (l : list A) a b : skipN (skipN l a) b = skipN l (a + b).
Proof. rewrite !skipN_skipn, skipn_skipn'. f_equal. lia. Qed.

Lemma firstN_skipN {A} (l : list A) n : firstN l n ++ skipN l n = l.
Proof. rewrite firstN_firstn, skipN_skipn. apply firstn_skipn. Qed.

Lemma skipN_app_l {A} (a b : list A) n : n <= lenN a -> skipN (a ++ b) n = skipN a n ++ b.
Proof.
  rewrite ?lenN_eq. intros. rewrite !skipN_skipn, skipn_app.
  replace (N.to_nat n - length a)%nat with 0%nat by lia. reflexivity.
Qed.
Lemma skipN_app_r {A} (a b : list A) n : lenN a <= n -> skipN (a ++ b) n = skipN b (n - lenN a).
Proof.
  rewrite ?lenN_eq. intros. rewrite !skipN_skipn, skipn_app.
  rewrite skipn_all2 by lia. cbn [app]. f_equal. lia.
Qed.
Lemma skipN_app_len {A} (a b : list A) : skipN (a ++ b) (lenN a) = b.
Proof. rewrite skipN_app_r by lia. rewrite N.sub_diag. apply skipN_0. Qed.
Lemma firstN_app_l {A} (a b : list A) n : n <= lenN a -> firstN (a ++ b) n = firstN a n.
Proof.
  rewrite ?lenN_eq. intros. rewrite !firstN_firstn, firstn_app.
  replace (N.to_nat n - length a)%nat with 0%nat by lia. cbn [firstn]. apply app_nil_r.
Qed.
Lemma firstN_app_r {A} (a b : list A) n : lenN a <= n -> firstN (a ++ b) n = a ++ firstN b (n - lenN a).
Proof.
  rewrite ?lenN_eq. intros. rewrite !firstN_firstn, firstn_app.
  rewrite firstn_all2 by lia. f_equal. f_equal. lia.
Qed.
Lemma firstN_app_len {A} (a b : list A) : firstN (a ++ b) (lenN a) = a.
Proof. rewrite firstN_app_l by lia. apply firstN_all. lia. Qed.

Lemma firstN_firstN {A} (l : list A) a b : firstN (firstN l a) b = firstN l (N.min a b).
Proof. rewrite !firstN_firstn, firstn_firstn. f_equal. lia. Qed.

Lemma firstN_plus {A} (l : list A) a b : firstN l (a + b) = firstN l a ++ firstN (skipN l a) b.
Proof.
  rewrite !firstN_firstn, skipN_skipn.
  replace (N.to_nat (a + b)) with (N.to_nat a + N.to_nat b)%nat by lia.
  rewrite <- (firstn_skipn (N.to_nat a) l) at 1.
  rewrite firstn_app, firstn_firstn.
  replace (Nat.min (N.to_nat a + N.to_nat b) (N.to_nat a)) with (N.to_nat a) by lia.
  f_equal. rewrite firstn_length.
  destruct (Nat.le_gt_cases (N.to_nat a) (length l)).
  - f_equal. lia.
  - rewrite !skipn_all2 by lia. now rewrite !firstn_nil.
Qed.

Lemma sliceN_plus {A} (l : list A) a n m : sliceN l a (n + m) = sliceN l a n ++ sliceN l (a + n) m.
Proof. unfold sliceN. rewrite firstN_plus, skipN_skipN. reflexivity. Qed.

Lemma sliceN_0 {A} (l : list A) a : sliceN l a 0 = [].
Proof. unfold sliceN. apply firstN_0. Qed.

Lemma sliceN_all {A} (l : list A) : sliceN l 0 (lenN l) = l.
Proof. unfold sliceN. rewrite skipN_0. apply firstN_all. lia. Qed.

Lemma skipN_sliceN {A} (l : list A) a n k : k <= n -> skipN (sliceN l a n) k = sliceN l (a + k) (n - k).
Proof.
  intros. unfold sliceN. rewrite !firstN_firstn, !skipN_skipn, skipn_firstn_comm, skipn_skipn'.
  f_equal; [lia|f_equal; lia].
Qed.

Lemma firstN_sliceN {A} (l : list A) a n k : k <= n -> firstN (sliceN l a n) k = sliceN l a k.
Proof. intros. unfold sliceN. rewrite firstN_firstN. f_equal. lia. Qed.

Lemma sliceN_sliceN {A} (l : list A) a n b m : b + m <= n -> sliceN (sliceN l a n) b m = sliceN l (a + b) m.
Proof.
  intros. unfold sliceN at 1. rewrite skipN_sliceN by lia. rewrite firstN_sliceN by lia. reflexivity.
Qed.

Lemma nthN_app_l {A} (a b : list A) n d : n < lenN a -> nthN (a ++ b) n d = nthN a n d.
Proof. rewrite ?lenN_eq. intros. rewrite !nthN_nth. apply app_nth1. lia. Qed.
Lemma nthN_app_r {A} (a b : list A) n d : lenN a <= n -> nthN (a ++ b) n d = nthN b (n - lenN a) d.
Proof. rewrite ?lenN_eq. intros. rewrite !nthN_nth, app_nth2 by lia. f_equal. lia. Qed.

(* ---- little endian ---- *)
Lemma le32_length v : lenN (le32 v) = 4. Proof. reflexivity. Qed.
Lemma le32_sum v : v < 4294967296 ->
  v mod 256 + 256 * ((v / 256) mod 256) + 65536 * ((v / 65536) mod 256) + 16777216 * ((v / 16777216) mod 256) = v.
Proof.
  intros Hv.
  replace (v / 65536) with (v / 256 / 256) by (rewrite N.div_div by lia; reflexivity).
  replace (v / 16777216) with (v / 256 / 256 / 256) by (rewrite !N.div_div by lia; reflexivity).
  pose proof (N.div_mod' v 256). pose proof (N.div_mod' (v / 256) 256).
  pose proof (N.div_mod' (v / 256 / 256) 256).
  assert (v / 256 / 256 / 256 < 256).
  { rewrite !N.div_div by lia. apply N.div_lt_upper_bound; lia. }
  rewrite (N.mod_small (v / 256 / 256 / 256) 256) by assumption.
  set (a := v / 256) in *. set (b := a / 256) in *. set (c := b / 256) in *.
  set (r0 := v mod 256) in *. set (r1 := a mod 256) in *. set (r2 := b mod 256) in *. lia.
Qed.
Lemma rd32_le32 v : v < 4294967296 -> rd32 (le32 v) = v.
Proof. intros. unfold rd32, le32. now apply le32_sum. Qed.
Lemma rd32_le32_app v l : v < 4294967296 -> rd32 (le32 v ++ l) = v.
Proof. intros. unfold rd32, le32. cbn [app]. now apply le32_sum. Qed.
Lemma le32_bytes v : Forall (fun b => b < 256) (le32 v).
Proof. unfold le32. repeat constructor; apply N.mod_lt; lia. Qed.
Lemma rd32_bound l : Forall (fun b => b < 256) l -> rd32 l < 4294967296.
Proof.
  intros Hl. unfold rd32. destruct l as [|a [|b [|c [|d r]]]]; try lia.
  inversion Hl as [|? ? Ha Hl1]; subst. inversion Hl1 as [|? ? Hb Hl2]; subst.
  inversion Hl2 as [|? ? Hc Hl3]; subst. inversion Hl3 as [|? ? Hd Hl4]; subst. lia.
Qed.

(* ---- wrap-around ---- *)
Lemma w32_small v : v < 4294967296 -> w32 v = v.
Proof. intros. unfold w32. apply N.mod_small. lia. Qed.
Lemma w64_small v : v < 18446744073709551616 -> w64 v = v.
Proof. intros. unfold w64. apply N.mod_small. lia. Qed.
Lemma w32_lt v : w32 v < 4294967296. Proof. unfold w32. apply N.mod_lt. lia. Qed.
Lemma w64_lt v : w64 v < 18446744073709551616. Proof. unfold w64. apply N.mod_lt. lia. Qed.
Lemma sub32_small a b : b <= a -> a < 4294967296 -> sub32 a b = a - b.
Proof. intros. unfold sub32, w32. lia. Qed.
Lemma sub64_small a b : b <= a -> a < 18446744073709551616 -> sub64 a b = a - b.
Proof. intros. unfold sub64, w64. lia. Qed.
Lemma sub32_lt a b : sub32 a b < 4294967296. Proof. apply w32_lt. Qed.
Lemma sub64_lt a b : sub64 a b < 18446744073709551616. Proof. apply w64_lt. Qed.
