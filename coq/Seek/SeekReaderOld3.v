(* C20 round 3 - ZSTD_seekable_decompress AS IT WAS before fix a2a0322: the two corruption_detected returns of the loop
   (checksum mismatch, frame shorter than its seek-table entry) left curFrame / decompressedOffset claimed.  Kept ONLY for
   the refutation witness in SeekFailed.v; the model of the current code is SeekReader.v (dcall / prelude / restart are
   shared).  NO proofs in this file. *)
From Coq Require Import NArith List Bool.
From ZV.Gen Require Import Gen_Seek.
From ZV.Seek Require Import SeekTable SeekReader.
Import ListNotations.
Local Open Scope N_scope.

Section ReaderKeep.
  Variable H : list N -> N.
  Variable content : N -> list N.
  Variable BUFF : N.
  Variable NOPROG : N.
  Variable t : seek_table.
  Variable short_frame_check : bool.

  Section Call.
    Variable offset len : N.                  (* len after clamping *)
    Let endpos := w64 (offset + len).

    Definition loop_cond_keep (st : rstate) (target : N) : res bool :=
      if r_doff st <? endpos then Ok true
      else if 0 <? len then
             if negb (in_range t (w32 (target + 1))) then Trap 56
             else Ok (r_doff st =? e_d (ent t (w32 (target + 1))))
           else Ok false.

    Fixpoint rloop_keep (orc : list (N * bool)) (st : rstate) (target np : N) (dst : list N) : rres :=
      match loop_cond_keep st target with
      | Trap s => RTrap s
      | Err _ => RTrap 57
      | Ok false => if r_doff st =? endpos then ROk len dst st else RSpin st
      | Ok true =>
        match orc with
        | [] => RFuel dst st
        | o :: orc' =>
            (* fix 943db3b: frameEnd = entries[targetFrame + 1].dOffset caps what one frame may hand out *)
            if negb (in_range t (w32 (target + 1))) then RTrap 55 else
            let frameEnd := e_d (ent t (w32 (target + 1))) in
            let skipping := r_doff st <? offset in
            let size := if skipping then N.min BUFF (sub64 (N.min offset frameEnd) (r_doff st))
                        else N.min len (sub64 frameEnd offset) in
            let pos := if skipping then 0 else sub64 (r_doff st) offset in
            if size <? pos then RTrap 52 else
            let st0 := mkR (r_cur st) (r_doff st) (d_frame st) (d_prod st) (d_fin st) (r_acc st)
                           (EvCall skipping size pos :: r_trace st) in
            let '(bytes, fin, st1) := dcall content st0 (size - pos) o in
            let k := lenN bytes in
            let dst' := if skipping then dst else buf_store dst pos bytes in
            let acc' := if t_flag t then rev_append bytes (r_acc st1) else r_acc st1 in
            if (k =? 0) && (NOPROG <? np) then RErr sk_E_seekableIO dst' st1 else
            let np' := if k =? 0 then w32 (np + 1) else 0 in
            let st2 := mkR (r_cur st1) (w64 (r_doff st1 + k)) (d_frame st1) (d_prod st1) (d_fin st1) acc' (r_trace st1) in
            if fin then
              (* frame complete: verify checksum *)
              if negb (in_range t target) then RTrap 53 else
              if t_flag t && negb (H (revT acc') mod 4294967296 =? e_k (ent t target))
              then RErr sk_E_corruption_detected dst' st2
              else if r_doff st2 <? endpos then
                match offset_to_frame t (r_doff st2) with
                | Ok target' =>
                    if short_frame_check && (w32 target' =? r_cur st2)
                    then RErr sk_E_corruption_detected dst' st2 else
                    match prelude t offset st2 (w32 target') with
                    | Ok st3 => rloop_keep orc' st3 (w32 target') np' dst'
                    | Err c => RErr c dst' st2
                    | Trap s => RTrap s
                    end
                | Err c => RErr c dst' st2
                | Trap s => RTrap s
                end
              else if r_doff st2 =? endpos then ROk len dst' st2 else RSpin st2
            else rloop_keep orc' st2 target np' dst'
        end
      end.
  End Call.

  Definition seekable_decompress_keep (st : rstate) (dst0 : list N) (len0 offset : N) (orc : list (N * bool)) : rres :=
    if negb (in_range t (t_len t)) then RTrap 50 else
    let eos := e_d (ent t (t_len t)) in
    (* fix bb8f456: nothing at or beyond the end - return 0 without touching the cache; the clamp cannot wrap any more *)
    if eos <=? offset then ROk 0 dst0 st else
    let len := if sub64 eos offset <? len0 then sub64 eos offset else len0 in
    match offset_to_frame t offset with
    | Ok target =>
        match prelude t offset st (w32 target) with
        | Ok st1 => rloop_keep offset len orc st1 (w32 target) 0 dst0
        | Err c => RErr c dst0 st
        | Trap s => RTrap s
        end
    | Err c => RErr c dst0 st
    | Trap s => RTrap s
    end.

End ReaderKeep.
