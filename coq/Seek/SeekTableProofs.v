(* C20 - proofs about the seek table model: binary search, accessors. *)
From Coq Require Import NArith ZArith List Bool Lia.
From ZV.Gen Require Import Gen_Seek.
From ZV.Seek Require Import SeekTable SeekBase.
Import ListNotations.
Local Open Scope N_scope.
Ltac Zify.zify_post_hook ::= Z.to_euclidean_division_equations.

(* ------------------------------------------------------------------ well-formed loaded tables *)
Record wf_table (t : seek_table) : Prop := {
  wf_len : lenN (t_entries t) = t_len t + 1;
  wf_small : t_len t < 4294967295;
  wf_d0 : e_d (ent t 0) = 0;
  wf_mono : forall i j, i <= j -> j <= t_len t -> e_d (ent t i) <= e_d (ent t j);
  wf_bound : e_d (ent t (t_len t)) < 18446744073709551616
}.

Lemma in_range_iff t i : in_range t i = true <-> i < lenN (t_entries t).
Proof. unfold in_range. apply N.ltb_lt. Qed.

Lemma wf_in_range t i : wf_table t -> i <= t_len t -> in_range t i = true.
Proof. intros W Hi. apply in_range_iff. rewrite (wf_len t W). lia. Qed.

(* ------------------------------------------------------------------ offsetToFrameIndex *)
Lemma o2f_loop_correct t pos : wf_table t ->
  forall fuel lo hi,
    lo < hi -> hi <= t_len t ->
    hi - lo <= 2 ^ N.of_nat fuel ->
    e_d (ent t lo) <= pos -> pos < e_d (ent t hi) ->
    exists i, o2f_loop t pos fuel lo hi = Ok i /\ lo <= i /\ i < hi /\
              e_d (ent t i) <= pos /\ pos < e_d (ent t (i + 1)).
Proof.
  intros W. pose proof (wf_small t W) as Hs.
  induction fuel as [|f IH]; intros lo hi Hlt Hhi Hd Hlo Hpos.
  - (* no fuel: hi - lo <= 1 *)
    cbn [N.of_nat] in Hd. change (2 ^ 0) with 1 in Hd.
    assert (hi = lo + 1) by lia. subst hi.
    cbn [o2f_loop]. rewrite w32_small by lia.
    destruct (N.ltb_spec (lo + 1) (lo + 1)); [lia|].
    exists lo. repeat split; try lia; assumption.
  - cbn [o2f_loop]. rewrite w32_small by lia.
    destruct (N.ltb_spec (lo + 1) hi) as [Hrun|Hstop].
    + rewrite sub32_small by lia.
      assert (Hdiv : (hi - lo) / 2 < hi - lo) by (apply N.div_lt; lia).
      assert (Hdiv1 : 1 <= (hi - lo) / 2) by (apply N.div_le_lower_bound; lia).
      rewrite w32_small by lia.
      set (mid := lo + (hi - lo) / 2).
      assert (Hm1 : lo < mid) by (unfold mid; lia).
      assert (Hm2 : mid < hi) by (unfold mid; lia).
      rewrite (wf_in_range t mid W) by lia. cbn [negb].
      assert (Hpow : 2 ^ N.of_nat (S f) = 2 * 2 ^ N.of_nat f).
      { rewrite Nat2N.inj_succ, N.pow_succ_r'. reflexivity. }
      rewrite Hpow in Hd. clear Hpow.
      assert (Hq : (hi - lo) = 2 * ((hi - lo) / 2) + (hi - lo) mod 2) by apply N.div_mod'.
      assert (Hr : (hi - lo) mod 2 < 2) by (apply N.mod_lt; lia).
      assert (Hup : hi - mid <= 2 ^ N.of_nat f).
      { unfold mid. set (p := 2 ^ N.of_nat f) in *. set (q := (hi - lo) / 2) in *. set (r := (hi - lo) mod 2) in *. lia. }
      assert (Hdn : mid - lo <= 2 ^ N.of_nat f).
      { unfold mid. set (p := 2 ^ N.of_nat f) in *. set (q := (hi - lo) / 2) in *. set (r := (hi - lo) mod 2) in *. lia. }
      destruct (N.leb_spec (e_d (ent t mid)) pos) as [Hle|Hgt].
      * destruct (IH mid hi) as (i & Hi & ? & ? & ? & ?); try assumption; try lia.
        exists i. repeat split; try assumption; lia.
      * destruct (IH lo mid) as (i & Hi & ? & ? & ? & ?); try assumption; try lia.
        exists i. repeat split; try assumption; lia.
    + assert (hi = lo + 1) by lia. subst hi.
      exists lo. repeat split; try lia; assumption.
Qed.

Lemma offset_to_frame_spec t pos : wf_table t ->
  (e_d (ent t (t_len t)) <= pos -> offset_to_frame t pos = Ok (t_len t)) /\
  (pos < e_d (ent t (t_len t)) ->
   exists i, offset_to_frame t pos = Ok i /\ i < t_len t /\
             e_d (ent t i) <= pos /\ pos < e_d (ent t (i + 1))).
Proof.
  intros W. pose proof (wf_small t W) as Hs.
  unfold offset_to_frame. rewrite (wf_in_range t (t_len t) W) by lia. cbn [negb].
  split; intros Hp.
  - destruct (N.leb_spec (e_d (ent t (t_len t))) pos); [|lia].
    now rewrite w32_small by lia.
  - destruct (N.leb_spec (e_d (ent t (t_len t))) pos); [lia|].
    rewrite w32_small by lia.
    assert (Hpos : 0 < t_len t).
    { destruct (N.eq_dec (t_len t) 0) as [E|E]; [|lia]. rewrite E in Hp. rewrite (wf_d0 t W) in Hp. lia. }
    destruct (o2f_loop_correct t pos W (o2f_fuel t) 0 (t_len t)) as (i & Hi & ? & ? & ? & ?); try lia.
    + unfold o2f_fuel. rewrite Nat2N.inj_succ, N2Nat.id, N.pow_succ_r'.
      pose proof (N.size_gt (t_len t)). lia.
    + rewrite (wf_d0 t W). lia.
    + exists i. repeat split; assumption.
Qed.

(* the loop never runs out of fuel and never leaves the table: no Trap, for every position *)
Lemma offset_to_frame_total t pos : wf_table t ->
  exists i, offset_to_frame t pos = Ok i /\ i <= t_len t.
Proof.
  intros W. destruct (offset_to_frame_spec t pos W) as [H1 H2].
  destruct (N.le_gt_cases (e_d (ent t (t_len t))) pos) as [H|H].
  - exists (t_len t). split; [auto|lia].
  - destruct (H2 H) as (i & Hi & ? & _). exists i. split; [assumption|lia].
Qed.

(* uniqueness: the result is THE frame containing pos *)
Lemma frame_containing_unique t pos i j : wf_table t ->
  i < t_len t -> j < t_len t ->
  e_d (ent t i) <= pos < e_d (ent t (i + 1)) ->
  e_d (ent t j) <= pos < e_d (ent t (j + 1)) -> i = j.
Proof.
  intros W Hi Hj [A1 A2] [B1 B2].
  destruct (N.lt_trichotomy i j) as [L|[E|L]]; [|assumption|].
  - pose proof (wf_mono t W (i + 1) j). lia.
  - pose proof (wf_mono t W (j + 1) i). lia.
Qed.

(* ------------------------------------------------------------------ accessors *)
Definition ERR_TOOLARGE := errval sk_E_frameIndex_tooLarge.

Lemma accessors_in_table t i : wf_table t -> i < t_len t ->
  get_frame_c_offset t i = Ok (e_c (ent t i)) /\
  get_frame_d_offset t i = Ok (e_d (ent t i)) /\
  get_frame_c_size t i = Ok (sub64 (e_c (ent t (i + 1))) (e_c (ent t i))) /\
  get_frame_d_size t i = Ok (sub64 (e_d (ent t (i + 1))) (e_d (ent t i))).
Proof.
  intros W Hi. pose proof (wf_small t W).
  unfold get_frame_c_offset, get_frame_d_offset, get_frame_c_size, get_frame_d_size.
  destruct (N.leb_spec (t_len t) i); [lia|].
  rewrite (w32_small (i + 1)) by lia.
  rewrite !(wf_in_range t i W), !(wf_in_range t (i + 1) W) by lia. cbn [negb]. auto.
Qed.

Lemma accessors_beyond t i : t_len t <= i ->
  get_frame_c_offset t i = Ok TOOLARGE /\
  get_frame_d_offset t i = Ok TOOLARGE /\
  get_frame_c_size t i = Ok ERR_TOOLARGE /\
  get_frame_d_size t i = Ok ERR_TOOLARGE.
Proof.
  intros Hi. unfold get_frame_c_offset, get_frame_d_offset, get_frame_c_size, get_frame_d_size.
  destruct (N.leb_spec (t_len t) i); [auto|lia].
Qed.

(* refutation witness for the code before fix fcd1515: index = numFrames reads entries[numFrames+1] *)
Definition old_witness : seek_table := mkT [mkE 0 0 0; mkE 5 7 0] 1 false.
Lemma old_witness_wf : wf_table old_witness.
Proof.
  constructor; try reflexivity; try (cbn; lia).
  intros i j Hij Hj. cbn in Hj.
  assert (Hc : (i = 0 /\ j = 0) \/ (i = 0 /\ j = 1) \/ (i = 1 /\ j = 1)) by lia.
  destruct Hc as [[-> ->]|[[-> ->]|[-> ->]]]; cbn; lia.
Qed.
Lemma old_d_size_out_of_range : get_frame_d_size_old old_witness 1 = Trap 43.
Proof. reflexivity. Qed.
Lemma new_d_size_at_numFrames : get_frame_d_size old_witness 1 = Ok ERR_TOOLARGE.
Proof. reflexivity. Qed.
