(* C20 round 3 - the input side of ZSTD_seekable_decompress (model: SeekInput.v): for EVERY history of calls, every
   decoder behaviour (bytes consumed, size hints), every pattern of failing seeks and reads (a failed read may move the read
   head by any amount), the byte stream the decoder receives between two resets is the file's bytes from the compressed offset
   of the frame start on, without gap or repetition.  True since fix 9b1486b; witness for the code before it. *)
From Coq Require Import NArith ZArith List Bool Lia.
From ZV.Seek Require Import SeekTable SeekBase SeekInput.
Import ListNotations.
Local Open Scope N_scope.
Ltac Zify.zify_post_hook ::= Z.to_euclidean_division_equations.

(* the decoder's input stream since its last reset: [cur] = Some (base, off) = it was reset by a restart that seeked to
   [base] and has consumed [off] bytes since.  A successful seek belongs to a restart (ZSTD_DCtx_reset follows it); failed
   seeks and reads do not touch the decoder. *)
Fixpoint stream_ok (file : list N) (cur : option (N * N)) (evs : list ievent) : Prop :=
  match evs with
  | [] => True
  | IoSeek c0 true :: r => stream_ok file (Some (c0, 0)) r
  | Feed b o bytes :: r =>
      cur = Some (b, o) /\ bytes = sliceN file (b + o) (lenN bytes) /\ stream_ok file (Some (b, o + lenN bytes)) r
  | _ :: r => stream_ok file cur r
  end.

Fixpoint cur_after (cur : option (N * N)) (evs : list ievent) : option (N * N) :=
  match evs with
  | [] => cur
  | IoSeek c0 true :: r => cur_after (Some (c0, 0)) r
  | Feed b o bytes :: r => cur_after (Some (b, o + lenN bytes)) r
  | _ :: r => cur_after cur r
  end.

Lemma stream_ok_app file e1 : forall cur e2,
  stream_ok file cur (e1 ++ e2) <-> stream_ok file cur e1 /\ stream_ok file (cur_after cur e1) e2.
Proof.
  induction e1 as [|e r IH]; intros cur e2; cbn [app stream_ok cur_after]; [tauto|].
  destruct e as [c0 [|]|h n ok|b o bytes]; try apply IH.
  rewrite IH. tauto.
Qed.

Lemma cur_after_app e1 : forall cur e2, cur_after cur (e1 ++ e2) = cur_after (cur_after cur e1) e2.
Proof.
  induction e1 as [|e r IH]; intros cur e2; cbn [app cur_after]; [reflexivity|].
  destruct e as [c0 [|]|h n ok|b o bytes]; apply IH.
Qed.

Section InputProofs.
  Variable BUFF : N.
  Variable file : list N.

  (* zs->in holds the file's bytes that follow what the decoder has consumed, and the read head is right behind them *)
  Definition J (st : istate) : Prop :=
    i_claim st = true ->
      i_pos st <= lenN (i_buf st) /\
      i_head st = i_base st + i_fed st + (lenN (i_buf st) - i_pos st) /\
      i_head st <= lenN file /\
      skipN (i_buf st) (i_pos st) = sliceN file (i_base st + i_fed st) (lenN (i_buf st) - i_pos st).
  Definition K (st : istate) (cur : option (N * N)) : Prop :=
    J st /\ (i_claim st = true -> cur = Some (i_base st, i_fed st)).

  Lemma K_iinit cur : K iinit cur.
  Proof. split; intros H; discriminate H. Qed.

  Lemma in_restart_ok c0 sk st cur :
    let '(st1, ev, ok) := in_restart file c0 sk st in
    stream_ok file cur ev /\ K st1 (cur_after cur ev) /\ (ok = true -> i_claim st1 = true).
  Proof.
    unfold in_restart.
    destruct (sk && (c0 <=? lenN file)) eqn:E.
    - apply andb_true_iff in E. destruct E as [_ E]. apply N.leb_le in E.
      cbn [stream_ok cur_after]. split; [exact I|]. split; [|reflexivity].
      split.
      + intros _. cbn [i_pos i_buf i_head i_base i_fed].
        change (lenN (@nil N)) with 0. repeat split; try lia.
        rewrite sliceN_0. reflexivity.
      + intros _. reflexivity.
    - cbn [stream_ok cur_after]. split; [exact I|]. split; [|discriminate].
      split; intros H; discriminate H.
  Qed.

  Lemma in_prelude_ok want c0 sk st cur : K st cur ->
    let '(st1, ev, ok) := in_prelude file want c0 sk st in
    stream_ok file cur ev /\ K st1 (cur_after cur ev) /\ (ok = true -> i_claim st1 = true).
  Proof.
    intros HK. unfold in_prelude.
    destruct (want || negb (i_claim st)) eqn:E.
    - apply in_restart_ok.
    - apply orb_false_iff in E. destruct E as [_ E]. apply negb_false_iff in E.
      cbn [stream_ok cur_after]. split; [exact I|]. split; [exact HK|]. intros _. exact E.
  Qed.

  (* one iteration, current code (keep_claim = false) *)
  Lemma in_iter_ok it st cur : K st cur -> i_claim st = true ->
    let '(st1, ev, s) := in_iter BUFF file false it st in
    stream_ok file cur ev /\ K st1 (cur_after cur ev) /\ (s <> SFail -> i_claim st1 = true).
  Proof.
    intros [HJ Hc] Hcl. specialize (Hc Hcl). destruct (HJ Hcl) as (Hp & Hh & Hle & Hb).
    destruct it as [consumed hint rdfail]. unfold in_iter.
    set (avail := lenN (i_buf st) - i_pos st).
    set (c := N.min consumed avail).
    set (bytes := sliceN (i_buf st) (i_pos st) c).
    assert (Hcle : c <= avail) by (unfold c; lia).
    assert (Hbl : lenN bytes = c) by (unfold bytes; rewrite lenN_sliceN; unfold avail in *; lia).
    assert (Hbytes : bytes = sliceN file (i_base st + i_fed st) (lenN bytes)).
    { rewrite Hbl. unfold bytes, sliceN at 1. rewrite Hb. apply firstN_sliceN. exact Hcle. }
    assert (Hskip : skipN (i_buf st) (i_pos st + c) = sliceN file (i_base st + (i_fed st + c)) (lenN (i_buf st) - (i_pos st + c))).
    { rewrite <- skipN_skipN, Hb. rewrite skipN_sliceN by exact Hcle. f_equal; unfold avail; lia. }
    (* the state after the decoder call, before any refill *)
    assert (K1 : forall cl, K (mkI cl (i_head st) (i_buf st) (i_pos st + c) (i_base st) (i_fed st + c))
                              (Some (i_base st, i_fed st + lenN bytes))).
    { intros cl. split.
      - intros _. cbn [i_pos i_buf i_head i_base i_fed]. unfold avail in *. repeat split; try lia. exact Hskip.
      - intros _. cbn [i_base i_fed]. now rewrite Hbl. }
    destruct (hint =? 0).
    { cbn [stream_ok cur_after]. split; [repeat split; assumption|]. split; [apply K1|intros _; exact Hcl]. }
    destruct (N.eqb_spec (i_pos st + c) (lenN (i_buf st))) as [Hex|Hnex].
    2:{ cbn [stream_ok cur_after]. split; [repeat split; assumption|]. split; [apply K1|intros _; exact Hcl]. }
    set (toRead := N.min hint BUFF).
    assert (Hfail : forall moved,
      stream_ok file cur [Feed (i_base st) (i_fed st) bytes; IoRead (i_head st) toRead false] /\
      K (mkI false (i_head st + moved) (i_buf st) (i_pos st + c) (i_base st) (i_fed st + c))
        (cur_after cur [Feed (i_base st) (i_fed st) bytes; IoRead (i_head st) toRead false]) /\
      (SFail <> SFail -> false = true)).
    { intros moved. cbn [stream_ok cur_after]. split; [repeat split; assumption|]. split; [|intros X; now elim X].
      split; intros X; discriminate X. }
    destruct rdfail as [m|]; [apply Hfail|].
    destruct (N.ltb_spec (lenN file) (i_head st + toRead)) as [Heof|Hin]; [apply Hfail|].
    cbn [stream_ok cur_after]. split; [repeat split; assumption|]. split; [|intros _; exact Hcl].
    split.
    - intros _. cbn [i_pos i_buf i_head i_base i_fed].
      rewrite lenN_sliceN. unfold avail in *. repeat split; try lia.
      rewrite skipN_0. f_equal; lia.
    - intros _. cbn [i_base i_fed]. now rewrite Hbl.
  Qed.

  Lemma in_iters_ok its : forall st cur, K st cur -> i_claim st = true ->
    let '(st1, ev, s) := in_iters BUFF file false its st in
    stream_ok file cur ev /\ K st1 (cur_after cur ev) /\ (s <> SFail -> i_claim st1 = true).
  Proof.
    induction its as [|it rest IH]; intros st cur HK Hcl; cbn [in_iters].
    - cbn [stream_ok cur_after]. split; [exact I|]. split; [exact HK|]. intros _. exact Hcl.
    - pose proof (in_iter_ok it st cur HK Hcl) as H1.
      destruct (in_iter BUFF file false it st) as [[st1 ev1] s1].
      destruct H1 as (S1 & K1 & C1).
      destruct s1; try (split; [exact S1|split; [exact K1|exact C1]]).
      specialize (IH st1 (cur_after cur ev1) K1 (C1 ltac:(discriminate))).
      destruct (in_iters BUFF file false rest st1) as [[st2 ev2] s2].
      destruct IH as (S2 & K2 & C2).
      rewrite stream_ok_app, cur_after_app. split; [split; assumption|split; assumption].
  Qed.

  Lemma in_call_ok segs : forall st cur, K st cur ->
    let '(st1, ev, ok) := in_call BUFF file false segs st in
    stream_ok file cur ev /\ K st1 (cur_after cur ev).
  Proof.
    induction segs as [|[want c0 sk its] rest IH]; intros st cur HK; cbn [in_call].
    - cbn [stream_ok cur_after]. split; [exact I|exact HK].
    - pose proof (in_prelude_ok want c0 sk st cur HK) as H1.
      destruct (in_prelude file want c0 sk st) as [[st1 ev1] ok1].
      destruct H1 as (S1 & K1 & C1).
      destruct ok1; [|split; assumption].
      pose proof (in_iters_ok its st1 (cur_after cur ev1) K1 (C1 eq_refl)) as H2.
      destruct (in_iters BUFF file false its st1) as [[st2 ev2] s2].
      destruct H2 as (S2 & K2 & C2).
      assert (Hgo : let '(st3, ev3, ok3) := in_call BUFF file false rest st2 in
                    stream_ok file cur (ev1 ++ ev2 ++ ev3) /\ K st3 (cur_after cur (ev1 ++ ev2 ++ ev3))).
      { specialize (IH st2 (cur_after (cur_after cur ev1) ev2) K2).
        destruct (in_call BUFF file false rest st2) as [[st3 ev3] ok3].
        destruct IH as (S3 & K3).
        rewrite !stream_ok_app, !cur_after_app. split; [split; [assumption|split; assumption]|assumption]. }
      destruct s2.
      + destruct (in_call BUFF file false rest st2) as [[st3 ev3] ok3]. exact Hgo.
      + destruct (in_call BUFF file false rest st2) as [[st3 ev3] ok3]. exact Hgo.
      + rewrite stream_ok_app, cur_after_app. split; [split; assumption|assumption].
  Qed.

  Lemma in_history_ok calls : forall st cur, K st cur ->
    let '(st1, ev) := in_history BUFF file false calls st in
    stream_ok file cur ev /\ K st1 (cur_after cur ev).
  Proof.
    induction calls as [|c rest IH]; intros st cur HK; cbn [in_history].
    - cbn [stream_ok cur_after]. split; [exact I|exact HK].
    - pose proof (in_call_ok c st cur HK) as H1.
      destruct (in_call BUFF file false c st) as [[st1 ev1] ok1].
      destruct H1 as (S1 & K1).
      specialize (IH st1 (cur_after cur ev1) K1).
      destruct (in_history BUFF file false rest st1) as [st2 ev2].
      destruct IH as (S2 & K2).
      rewrite stream_ok_app, cur_after_app. split; [split; assumption|assumption].
  Qed.

  (* from the state after init, whatever the decoder's input stream was before *)
  Lemma input_stream_is_the_file calls cur :
    stream_ok file cur (snd (in_history BUFF file false calls iinit)).
  Proof.
    pose proof (in_history_ok calls iinit cur (K_iinit cur)) as H.
    destruct (in_history BUFF file false calls iinit) as [st ev]. cbn [snd]. tauto.
  Qed.
End InputProofs.

(* ------------------------------------------------------------------ the code before fix 9b1486b *)
(* file = 0 1 2 ... 19.  Call 1: restart at 0; the decoder asks for 5 bytes, takes them, asks for 4 more; that read fails
   after moving the read head by 2.  Call 2 for the same frame: the cache test does not ask for a restart; the decoder
   asks again, the refill reads at the moved head, and the decoder - which has consumed file[0..5) - is handed file[7..11)
   as if it were file[5..9). *)
Definition in_ex_file : list N := [0;1;2;3;4;5;6;7;8;9;10;11;12;13;14;15;16;17;18;19].
Definition in_ex_calls : list (list iseg) :=
  [ [ISeg true 0 true [IIter 0 5 None; IIter 5 4 (Some 2)]];
    [ISeg false 0 true [IIter 0 4 None; IIter 4 3 None]] ].

Lemma failed_read_before_fix_skips_bytes :
  In (Feed 0 5 [7; 8; 9; 10]) (snd (in_history 16 in_ex_file true in_ex_calls iinit)) /\
  sliceN in_ex_file 5 4 = [5; 6; 7; 8] /\
  ~ stream_ok in_ex_file None (snd (in_history 16 in_ex_file true in_ex_calls iinit)).
Proof.
  split; [vm_compute; tauto|]. split; [reflexivity|].
  vm_compute. intros (_ & _ & _ & _ & _ & _ & _ & H & _). discriminate H.
Qed.

(* the same history on the current code: the second call restarts and the decoder gets file[0..) again *)
Lemma failed_read_after_fix_restarts :
  snd (in_history 16 in_ex_file false in_ex_calls iinit) =
  [IoSeek 0 true; Feed 0 0 []; IoRead 0 5 true; Feed 0 0 [0;1;2;3;4]; IoRead 5 4 false;
   IoSeek 0 true; Feed 0 0 []; IoRead 0 4 true; Feed 0 0 [0;1;2;3]; IoRead 4 3 true].
Proof. vm_compute. reflexivity. Qed.
