(* C20 round 2 - refutation witnesses for the code BEFORE fix 7f35186 (SeekReaderOld): there,
   a read that ends EXACTLY at the end of a frame was not covered by the seek-table checksum when the
   decoder does not report "frame complete" together with the frame's last byte (the pacing libzstd exhibits for frames
   that carry their own 4-byte content checksum: it still wants input after the last output byte).
   For EVERY well-formed table, EVERY frame b, WHATEVER bytes frame b regenerates (right length, any content, any
   checksum in the table): ZSTD_seekable_decompress(dst, |frame b|, dOffset b) and ZSTD_seekable_decompressFrame(b) on a
   freshly opened archive returned SUCCESS with those bytes.  (For the current code SeekIntegrity.damaged_frame_not_read_to_its_end
   proves the opposite: such a read never succeeds.) *)
From Coq Require Import NArith ZArith List Bool Lia.
From ZV.Gen Require Import Gen_Seek.
From ZV.Seek Require Import SeekTable SeekBase SeekTableProofs.
From ZV.Seek Require Import SeekReader SeekReaderOld SeekReaderProofs.
Import ListNotations.
Local Open Scope N_scope.
Ltac Zify.zify_post_hook ::= Z.to_euclidean_division_equations.

Section Exact.
  Variable H : list N -> N.
  Variable content : N -> list N.          (* ARBITRARY *)
  Variables BUFF NOPROG : N.
  Variable t : seek_table.
  Variable sfc : bool.
  Hypothesis W : wf_table t.
  Notation D i := (e_d (ent t i)).
  Variable b : N.
  Hypothesis Hb : b < t_len t.
  Hypothesis Hne : D b < D (b + 1).
  Hypothesis Hlen : lenN (content b) = D (b + 1) - D b.      (* the frame regenerates as many bytes as its entry says *)

  Let n := D (b + 1) - D b.

  Lemma exact_target : offset_to_frame t (D b) = Ok b.
  Proof.
    pose proof (wf_mono t W) as M.
    destruct (offset_to_frame_spec t (D b) W) as [_ Hin].
    pose proof (M (b + 1) (t_len t) ltac:(lia) ltac:(lia)).
    destruct (Hin ltac:(lia)) as (i & -> & Hi & Hi1 & Hi2). f_equal.
    destruct (N.lt_trichotomy i b) as [L|[E|G]]; [|exact E|].
    - pose proof (M (i + 1) b ltac:(lia) ltac:(lia)). lia.
    - pose proof (M (b + 1) i ltac:(lia) ltac:(lia)). lia.
  Qed.

  Theorem exact_frame_read_unchecked_before_fix dst0 :
    exists st1, seekable_decompress_old H content BUFF NOPROG t sfc rinit dst0 n (D b) [(n, false)]
                = ROk n (buf_store dst0 0 (content b)) st1.
  Proof.
    pose proof (wf_small t W) as Hs. pose proof (wf_bound t W) as Hbd.
    pose proof (wf_mono t W (b + 1) (t_len t) ltac:(lia) ltac:(lia)) as Hm.
    assert (En : D b + n = D (b + 1)) by (unfold n; lia).
    unfold seekable_decompress_old. rewrite (wf_in_range t (t_len t) W) by lia. cbn [negb].
    rewrite (w64_small (D b + n)) by lia.
    replace (e_d (ent t (t_len t)) <? D b + n) with false by (symmetry; apply N.ltb_ge; lia).
    rewrite exact_target. rewrite (w32_small b) by lia.
    unfold prelude. cbn [rinit r_cur r_doff].
    replace (b =? 4294967295) with false by (symmetry; apply N.eqb_neq; lia).
    cbn [negb orb]. unfold restart. rewrite (wf_in_range t b W) by lia. cbn [negb].
    cbn [rloop_old r_doff r_cur d_frame d_prod d_fin r_acc r_trace].
    rewrite (w64_small (D b + n)) by lia.
    replace (D b <? D b + n) with true by (symmetry; apply N.ltb_lt; lia).
    rewrite (w32_small (b + 1)) by lia.
    rewrite (wf_in_range t (b + 1) W) by lia. cbn [negb].
    rewrite N.ltb_irrefl.
    rewrite !sub64_small by lia.
    replace (D (b + 1) - D b) with n by reflexivity.
    rewrite N.min_id, N.sub_diag.
    replace (n <? 0) with false by (symmetry; apply N.ltb_ge; lia).
    unfold dcall. cbn [d_fin d_frame d_prod r_cur r_doff r_acc r_trace fst snd andb].
    rewrite N.sub_0_r, N.min_id, Hlen. fold n. rewrite N.sub_0_r, N.min_id.
    assert (Esl : sliceN (content b) 0 n = content b).
    { unfold n. rewrite <- Hlen. apply sliceN_all. }
    rewrite Esl, Hlen. fold n.
    replace (n =? 0) with false by (symmetry; apply N.eqb_neq; unfold n; lia).
    cbn [andb].
    cbv beta iota zeta. cbn [r_cur r_doff d_frame d_prod d_fin r_acc r_trace].
    rewrite (w64_small (D b + n)) by lia.
    rewrite N.ltb_irrefl, N.eqb_refl.
    eexists. reflexivity.
  Qed.

  Theorem exact_frame_decompressFrame_unchecked_before_fix dst0 dstSize : n <= dstSize ->
    exists st1, seekable_decompress_frame_old H content BUFF NOPROG t sfc rinit dst0 dstSize b [(n, false)]
                = ROk n (buf_store dst0 0 (content b)) st1.
  Proof.
    intros Hd. pose proof (wf_small t W) as Hs. pose proof (wf_bound t W) as Hbd.
    pose proof (wf_mono t W (b + 1) (t_len t) ltac:(lia) ltac:(lia)) as Hm.
    unfold seekable_decompress_frame_old.
    replace (t_len t <=? b) with false by (symmetry; apply N.leb_gt; lia).
    rewrite (w32_small (b + 1)) by lia.
    rewrite (wf_in_range t (b + 1) W) by lia. cbn [negb].
    rewrite sub64_small by lia. fold n.
    replace (dstSize <? n) with false by (symmetry; apply N.ltb_ge; lia).
    apply exact_frame_read_unchecked_before_fix.
  Qed.
End Exact.
