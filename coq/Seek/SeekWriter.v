(* C20 - model of the seekable compressor's bookkeeping (zstdseek_compress.c): ZSTD_seekable_initCStream,
   ZSTD_seekable_compressStream, ZSTD_seekable_endFrame, ZSTD_seekable_endStream.   NO proofs in this file.

   libzstd's ZSTD_CStream is abstract: each inner ZSTD_compressStream / ZSTD_endStream call is described by
   an oracle element (bytes consumed, bytes produced, return value).  The model tracks what the seekable
   layer does with them: how much input it offers, the frame accounting (frameCSize/frameDSize, U32), the
   per-frame XXH64, the frame log, when frames are cut, the return values, and the seek table phase.    *)
From Coq Require Import NArith List Bool.
From ZV.Gen Require Import Gen_Seek.
From ZV.Seek Require Import SeekTable.
Import ListNotations.
Local Open Scope N_scope.

Inductive inner :=
| ICompress (consumed produced ret : N)   (* ZSTD_compressStream: ret = raw size_t (hint or error code) *)
| IEnd (produced ret : N).                (* ZSTD_endStream: ret = bytes still to flush, or error code *)

(* ZSTD_isError on a size_t *)
Definition is_error (v : N) : bool := errval sk_E_maxCode <? v.

Record cstate := mkC {
  c_log : list logent;
  c_fc : N;  c_fd : N;          (* frameCSize, frameDSize (U32) *)
  c_acc : list N;               (* bytes fed to XXH64 since its reset, most recent first *)
  c_mfs : N;                    (* maxFrameSize *)
  c_cf : N;                     (* framelog.checksumFlag (C int, >= 0 here) *)
  c_wst : bool;                 (* writingSeekTable *)
  c_pend : bool;                (* frameEndPending (fix 9f11afe): endFrame has started to end the frame and could not flush everything *)
  c_stpos : N; c_stidx : N;     (* framelog.seekTablePos / seekTableIndex *)
  (* ghost *)
  g_cur : list N;               (* input consumed by the inner compressor since its last reset, most recent first *)
  g_emit : N;                   (* bytes it produced since then *)
  g_frames : list (N * list N); (* completed frames: (bytes produced, content), most recent first *)
  g_table : list N              (* bytes written during the seek-table phase *)
}.

Definition MAX_FRAME_DSIZE := sk_MAX_FRAME_DSIZE.

Definition c_init (cf maxFrameSize : N) : res cstate :=
  if MAX_FRAME_DSIZE <? maxFrameSize then Err sk_E_frameParameter_unsupported
  else Ok (mkC [] 0 0 [] (if maxFrameSize =? 0 then MAX_FRAME_DSIZE else maxFrameSize) cf false false 0 0 [] 0 [] []).

(* result of one API call: return value (size_t; errors as errval), bytes of input consumed, new state, unused oracle *)
Record cret := mkCR { cr_ret : N; cr_consumed : N; cr_st : cstate; cr_orc : list inner; cr_out : list N }.

Section Writer.
  Variable H : list N -> N.

  Definition upd_fc (s : cstate) (fc : N) : cstate :=
    mkC (c_log s) fc (c_fd s) (c_acc s) (c_mfs s) (c_cf s) (c_wst s) (c_pend s) (c_stpos s) (c_stidx s)
        (g_cur s) (g_emit s) (g_frames s) (g_table s).

  (* ZSTD_seekable_endFrame; None = the oracle does not start with an IEnd (correspondence failure) *)
  Definition c_end_frame (s : cstate) (orc : list inner) : option cret :=
    match orc with
    | IEnd produced ret :: orc' =>
        (* if (ret) { if (!ZSTD_isError(ret)) frameEndPending = 1; return ret; }  frameEndPending = 0; *)
        let pend' := if ret =? 0 then false else if is_error ret then c_pend s else true in
        let s1 := mkC (c_log s) (w32 (c_fc s + produced)) (c_fd s) (c_acc s) (c_mfs s) (c_cf s) (c_wst s) pend'
                      (c_stpos s) (c_stidx s) (g_cur s) (g_emit s + produced) (g_frames s) (g_table s) in
        if negb (ret =? 0) then Some (mkCR ret 0 s1 orc' [])
        else
          let chk := if flag_set (c_cf s1) then H (revT (c_acc s1)) mod 4294967296 else 0 in
          match log_frame (c_log s1) (c_fc s1) (c_fd s1) chk with
          | Ok log' =>
              Some (mkCR 0 0 (mkC log' 0 0 [] (c_mfs s1) (c_cf s1) (c_wst s1) false (c_stpos s1) (c_stidx s1)
                                  [] 0 ((g_emit s1, revT (g_cur s1)) :: g_frames s1) (g_table s1)) orc' [])
          | Err c => Some (mkCR (errval c) 0 s1 orc' [])
          | Trap _ => None
          end
    | _ => None
    end.

  (* ZSTD_seekable_compressStream with [inp] = the bytes from input->pos to input->size: the part after the
     frameEndPending block *)
  Definition c_compress_body (s : cstate) (inp : list N) (orc : list inner) : option cret :=
    let inLen := N.min (lenN inp) (sub32 (c_mfs s) (c_fd s)) in
    let step1 : option (N * cstate * list inner * N) :=   (* (ret of the inner call, state, oracle, consumed) *)
      if 0 <? inLen then
        match orc with
        | ICompress consumed produced ret :: orc' =>
            let k := N.min consumed inLen in
            let fed := firstN inp k in
            let acc' := if flag_set (c_cf s) then rev_append fed (c_acc s) else c_acc s in
            Some (ret,
                  mkC (c_log s) (w32 (c_fc s + produced)) (w32 (c_fd s + k)) acc' (c_mfs s) (c_cf s) (c_wst s) (c_pend s)
                      (c_stpos s) (c_stidx s) (rev_append fed (g_cur s)) (g_emit s + produced) (g_frames s) (g_table s),
                  orc', k)
        | _ => None
        end
      else Some (0, s, orc, 0) in
    match step1 with
    | None => None
    | Some (ret, s1, orc1, k) =>
        if is_error ret then Some (mkCR ret k s1 orc1 [])
        else if c_mfs s1 =? c_fd s1 then
          match c_end_frame s1 orc1 with
          | Some r =>
              (* an error of endFrame is returned; any other value is replaced by maxFrameSize *)
              Some (mkCR (if is_error (cr_ret r) then cr_ret r else c_mfs s1) k (cr_st r) (cr_orc r) [])
          | None => None
          end
        else Some (mkCR (sub32 (c_mfs s1) (c_fd s1)) k s1 orc1 [])
    end.

  (* ZSTD_seekable_compressStream (fix 9f11afe): a frame end that an explicit endFrame left pending is completed - and the
     frame logged - before any input goes into the next frame; while it is still pending (or fails) the call returns
     ZSTD_seekable_endFrame's value and consumes nothing *)
  Definition c_compress (s : cstate) (inp : list N) (orc : list inner) : option cret :=
    if c_pend s then
      match c_end_frame s orc with
      | None => None
      | Some r => if negb (cr_ret r =? 0) then Some (mkCR (cr_ret r) 0 (cr_st r) (cr_orc r) [])
                  else c_compress_body (cr_st r) inp (cr_orc r)
      end
    else c_compress_body s inp orc.

  (* ZSTD_seekable_endStream with [avail] bytes of output room *)
  Definition c_end_stream (s : cstate) (avail : N) (orc : list inner) : option cret :=
    let pre : option (option N * cstate * list inner * N) :=     (* (early return value, state, oracle, room used) *)
      if c_wst s then Some (None, s, orc, 0)
      else match c_end_frame s orc with
           | None => None
           | Some r =>
               let produced := match orc with IEnd p _ :: _ => p | _ => 0 end in
               if is_error (cr_ret r) then Some (Some (cr_ret r), cr_st r, cr_orc r, produced)
               else if negb (cr_ret r =? 0)
                    then Some (Some (w64 (cr_ret r + table_size (c_cf s) (lenN (c_log (cr_st r))))), cr_st r, cr_orc r, produced)
                    else Some (None, cr_st r, cr_orc r, produced)
           end in
    match pre with
    | None => None
    | Some (Some v, s1, orc1, _) => Some (mkCR v 0 s1 orc1 [])
    | Some (None, s1, orc1, used) =>
        match write_call (c_cf s1) (c_log s1) (c_stpos s1) (c_stidx s1) (avail - used) with
        | WRet w v =>
            Some (mkCR v 0 (mkC (c_log s1) (c_fc s1) (c_fd s1) (c_acc s1) (c_mfs s1) (c_cf s1) true (c_pend s1) (w_pos w) (w_idx w)
                               (g_cur s1) (g_emit s1) (g_frames s1) (g_table s1 ++ w_out w)) orc1 (w_out w))
        | _ => None
        end
    end.

  (* API call histories *)
  Inductive cop :=
  | OpCompress (inp : list N) (orc : list inner)     (* input offered, inner results observed *)
  | OpEndFrame (orc : list inner)
  | OpEndStream (avail : N) (orc : list inner).

  Definition c_op (s : cstate) (op : cop) : option cret :=
    match op with
    | OpCompress inp orc => c_compress s inp orc
    | OpEndFrame orc => c_end_frame s orc
    | OpEndStream avail orc => c_end_stream s avail orc
    end.

  Fixpoint c_run (s : cstate) (ops : list cop) : option (cstate * list (N * N)) :=   (* per call (ret, consumed) *)
    match ops with
    | [] => Some (s, [])
    | op :: rest =>
        match c_op s op with
        | None => None
        | Some r => match cr_orc r with
                    | [] => match c_run (cr_st r) rest with
                            | Some (s', l) => Some (s', (cr_ret r, cr_consumed r) :: l)
                            | None => None
                            end
                    | _ :: _ => None          (* an observed inner call the model did not make *)
                    end
        end
    end.
End Writer.
