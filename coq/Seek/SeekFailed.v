(* C20 round 3 - the three error returns of ZSTD_seekable_decompress that leave the reader "positioned nowhere"
   (curFrame = (U32)-1: failed seek c859e4f, failed decoder b978b70, failed read 9b1486b): the state satisfies the cache
   invariant, and the next call does not depend on anything the failed call left behind (decoder position, frame, hash
   state, decompressedOffset): it seeks to the frame start and resets. *)
From Coq Require Import NArith ZArith List Bool Lia.
From ZV.Gen Require Import Gen_Seek.
From ZV.Seek Require Import SeekTable SeekBase SeekTableProofs SeekReader SeekReaderProofs SeekReaderOld3.
Import ListNotations.
Local Open Scope N_scope.
Ltac Zify.zify_post_hook ::= Z.to_euclidean_division_equations.

Lemma read_failed_keeps_invariant content t st : wf_table t -> Inv content t (read_failed st).
Proof.
  intros W. right. right. right. cbn [read_failed r_cur]. pose proof (wf_small t W). lia.
Qed.

(* a state with curFrame = (U32)-1 *)
Definition nowhere (doff f p : N) (fin : bool) (acc : list N) (tr : list revent) : rstate :=
  mkR 4294967295 doff f p fin acc tr.

Lemma read_failed_nowhere st : read_failed st = nowhere (r_doff st) (d_frame st) (d_prod st) (d_fin st) (r_acc st) (r_trace st).
Proof. reflexivity. Qed.
Lemma decoder_failed_nowhere st : decoder_failed st = nowhere (r_doff st) (d_frame st) (d_prod st) (d_fin st) (r_acc st) (r_trace st).
Proof. reflexivity. Qed.
Lemma seek_failed_nowhere t st target :
  restart_seek_failed t false st target = nowhere (r_doff st) (d_frame st) (d_prod st) (d_fin st) (r_acc st) (r_trace st).
Proof. reflexivity. Qed.

Section Forgotten.
  Variable H : list N -> N.
  Variable content : N -> list N.
  Variables BUFF NOPROG : N.
  Variable t : seek_table.
  Variable sfc : bool.
  Hypothesis W : wf_table t.

  (* the next ZSTD_seekable_decompress inside the content: the same call, whatever the failed call left in the decoder,
     the hash state and decompressedOffset (only the ghost trace is carried along) *)
  Lemma nowhere_is_forgotten doff f p fin acc doff' f' p' fin' acc' tr dst len offset orc :
    offset < e_d (ent t (t_len t)) ->
    seekable_decompress H content BUFF NOPROG t sfc (nowhere doff f p fin acc tr) dst len offset orc =
    seekable_decompress H content BUFF NOPROG t sfc (nowhere doff' f' p' fin' acc' tr) dst len offset orc.
  Proof.
    intros Hoff. unfold seekable_decompress.
    rewrite (wf_in_range t (t_len t) W) by lia. cbn [negb].
    destruct (N.leb_spec (e_d (ent t (t_len t))) offset); [lia|].
    destruct (offset_to_frame_spec t offset W) as [_ Hin]. destruct (Hin Hoff) as (i & -> & Hi & _ & _).
    pose proof (wf_small t W) as Hsm.
    rewrite (w32_small i) by lia.
    unfold prelude, nowhere. cbn [r_cur r_doff].
    assert (Hne : (i =? 4294967295) = false) by (apply N.eqb_neq; lia).
    rewrite Hne. cbn [negb orb]. unfold restart. cbn [r_trace].
    rewrite (wf_in_range t i W) by lia. cbn [negb]. reflexivity.
  Qed.

  (* ... and that call starts by seeking to the start of the frame that contains the offset *)
  Lemma nowhere_restarts doff f p fin acc tr dst len offset orc :
    offset < e_d (ent t (t_len t)) ->
    exists i, offset_to_frame t offset = Ok i /\ i < t_len t /\
      seekable_decompress H content BUFF NOPROG t sfc (nowhere doff f p fin acc tr) dst len offset orc =
      rloop H content BUFF NOPROG t sfc offset
            (if sub64 (e_d (ent t (t_len t))) offset <? len then sub64 (e_d (ent t (t_len t))) offset else len)
            orc (mkR i (e_d (ent t i)) i 0 false [] (EvRestart i :: tr)) i 0 dst.
  Proof.
    intros Hoff. unfold seekable_decompress.
    rewrite (wf_in_range t (t_len t) W) by lia. cbn [negb].
    destruct (N.leb_spec (e_d (ent t (t_len t))) offset); [lia|].
    destruct (offset_to_frame_spec t offset W) as [_ Hin]. destruct (Hin Hoff) as (i & E & Hi & _ & _).
    exists i. split; [exact E|]. split; [exact Hi|]. rewrite E.
    pose proof (wf_small t W) as Hsm.
    rewrite (w32_small i) by lia.
    unfold prelude, nowhere. cbn [r_cur r_doff].
    assert (Hne : (i =? 4294967295) = false) by (apply N.eqb_neq; lia).
    rewrite Hne. cbn [negb orb]. unfold restart. cbn [r_trace].
    rewrite (wf_in_range t i W) by lia. cbn [negb]. reflexivity.
  Qed.
End Forgotten.

(* ZSTD_seekable_init* on an object that has been reading another archive (re-initialisation is documented): curFrame = (U32)-1,
   decompressedOffset = (U64)-1; the decoder, zs->in and the hash state are whatever the previous archive left.  The first
   read inside the new content is the read a fresh object makes. *)
Definition reinit_state (prev : rstate) : rstate :=
  nowhere 18446744073709551615 (d_frame prev) (d_prod prev) (d_fin prev) (r_acc prev) [].

Lemma reinit_reads_like_fresh H content BUFF NOPROG t sfc prev dst len offset orc : wf_table t ->
  offset < e_d (ent t (t_len t)) ->
  seekable_decompress H content BUFF NOPROG t sfc (reinit_state prev) dst len offset orc =
  seekable_decompress H content BUFF NOPROG t sfc rinit dst len offset orc.
Proof.
  intros W Hoff. unfold reinit_state.
  change rinit with (nowhere 18446744073709551615 4294967295 0 false [] []).
  now apply nowhere_is_forgotten.
Qed.

Lemma reinit_keeps_invariant content t prev : wf_table t -> Inv content t (reinit_state prev).
Proof.
  intros W. right. right. right. cbn [reinit_state nowhere r_cur]. pose proof (wf_small t W). lia.
Qed.

(* ------------------------------------------------------------------ fix a2a0322: corruption_detected forgets the position *)
Lemma offset_to_frame_no_err t pos c : offset_to_frame t pos <> Err c.
Proof.
  unfold offset_to_frame.
  destruct (negb (in_range t (t_len t))); [discriminate|].
  destruct (e_d (ent t (t_len t)) <=? pos); [discriminate|].
  generalize (w32 (t_len t)). generalize 0. generalize (o2f_fuel t).
  induction n as [|f IH]; intros lo hi; cbn [o2f_loop].
  - destruct (w32 (lo + 1) <? hi); discriminate.
  - destruct (w32 (lo + 1) <? hi); [|discriminate].
    destruct (negb (in_range t (w32 (lo + sub32 hi lo / 2)))); [discriminate|].
    destruct (e_d (ent t (w32 (lo + sub32 hi lo / 2))) <=? pos); apply IH.
Qed.

Lemma prelude_no_err t offset st target c : prelude t offset st target <> Err c.
Proof.
  unfold prelude, restart.
  destruct (negb (target =? r_cur st) || (offset <? r_doff st)); [|discriminate].
  destruct (negb (in_range t target)); discriminate.
Qed.

Lemma codes_differ : sk_E_seekableIO <> sk_E_corruption_detected.
Proof. vm_compute. discriminate. Qed.

Section CorruptionForgets.
  Variable H : list N -> N.
  Variable content : N -> list N.
  Variables BUFF NOPROG : N.
  Variable t : seek_table.
  Variable sfc : bool.

  Lemma rloop_corruption_forgets offset len : forall orc st target np dst d st',
    rloop H content BUFF NOPROG t sfc offset len orc st target np dst = RErr sk_E_corruption_detected d st' ->
    r_cur st' = 4294967295.
  Proof.
    induction orc as [|o orc IH]; intros st target np dst d st' E; cbn [rloop] in E.
    - destruct (loop_cond t offset len st target) as [[|]|c|s]; try discriminate E.
      destruct (r_doff st =? w64 (offset + len)); discriminate E.
    - destruct (loop_cond t offset len st target) as [[|]|c|s]; try discriminate E.
      2:{ destruct (r_doff st =? w64 (offset + len)); discriminate E. }
      destruct (negb (in_range t (w32 (target + 1)))); [discriminate E|].
      match type of E with context [if ?c then RTrap 52 else _] => destruct c; [discriminate E|] end.
      match type of E with context [dcall content ?a ?b ?c] => destruct (dcall content a b c) as [[bytes fin] st1] end.
      match type of E with context [if ?c then RErr sk_E_seekableIO _ _ else _] => destruct c end.
      { exfalso. injection E as E0 _ _. discriminate E0. }
      destruct fin.
      + destruct (negb (in_range t target)); [discriminate E|].
        (* checksum mismatch *)
        match type of E with (if ?c then _ else _) = _ => destruct c end.
        { injection E as _ <-. reflexivity. }
        (* frame shorter than its entry (fix b63eccc) *)
        match type of E with (if ?c then _ else _) = _ => destruct c end.
        { injection E as _ <-. reflexivity. }
        match type of E with (if ?c then _ else _) = _ => destruct c end.
        * match type of E with context [offset_to_frame t ?p] => destruct (offset_to_frame t p) as [tg|c|s] eqn:Eo end.
          -- match type of E with (if ?c then _ else _) = _ => destruct c end.
             { injection E as _ <-. reflexivity. }
             match type of E with context [prelude t offset ?a ?b] => destruct (prelude t offset a b) as [st3|c|s] eqn:Ep end.
             ++ eapply IH; exact E.
             ++ elim (prelude_no_err _ _ _ _ _ Ep).
             ++ discriminate E.
          -- elim (offset_to_frame_no_err _ _ _ Eo).
          -- discriminate E.
        * match type of E with (if ?c then _ else _) = _ => destruct c; discriminate E end.
      + eapply IH; exact E.
  Qed.

  (* ZSTD_seekable_decompress / decompressFrame returning corruption_detected leave curFrame = (U32)-1: EVERY table (well formed or
     not), content, hash, pacing, state, arguments *)
  Lemma corruption_return_forgets st dst len offset orc d st' :
    seekable_decompress H content BUFF NOPROG t sfc st dst len offset orc = RErr sk_E_corruption_detected d st' ->
    r_cur st' = 4294967295.
  Proof.
    unfold seekable_decompress. intros E.
    destruct (negb (in_range t (t_len t))); [discriminate E|].
    destruct (e_d (ent t (t_len t)) <=? offset); [discriminate E|].
    destruct (offset_to_frame t offset) as [tg|c|s] eqn:Eo; [|elim (offset_to_frame_no_err _ _ _ Eo)|discriminate E].
    destruct (prelude t offset st (w32 tg)) as [st1|c|s] eqn:Ep; [|elim (prelude_no_err _ _ _ _ _ Ep)|discriminate E].
    eapply rloop_corruption_forgets; exact E.
  Qed.
End CorruptionForgets.

(* ---- witness for the code before a2a0322 (rloop_keep): table of two frames, no checksums, entry 0 announces 24 bytes, the frame
   holds 16.  Call 1 reads [0, 24): the frame completes after 16 bytes -> corruption_detected, position (frame 0, offset 16)
   kept, decoder at the start of the next frame.  Call 2 reads [16, 20) - inside frame 0 for the table -: the old loop
   continues and returns the first four bytes of frame 1 as success; a fresh reader answers corruption_detected for the same
   call, and so does the current model after the same first call. *)
Definition st_t : seek_table := mkT [mkE 0 0 0; mkE 25 24 0; mkE 50 40 0] 2 false.
Definition st_content (i : N) : list N :=
  if i =? 0 then [0;1;2;3;4;5;6;7;8;9;10;11;12;13;14;15]
  else if i =? 1 then [100;101;102;103;104;105;106;107;108;109;110;111;112;113;114;115] else [].
Definition st_H (l : list N) : N := 0.
Definition st_after_first_keep : rstate :=
  match seekable_decompress_keep st_H st_content 64 16 st_t true rinit (repeat 165 24) 24 0 [(16, true)] with
  | RErr _ _ st => st | _ => rinit end.
Definition st_after_first_now : rstate :=
  match seekable_decompress st_H st_content 64 16 st_t true rinit (repeat 165 24) 24 0 [(16, true)] with
  | RErr _ _ st => st | _ => rinit end.

Lemma corruption_return_before_fix_reads_next_frame :
  (exists d st, seekable_decompress_keep st_H st_content 64 16 st_t true rinit (repeat 165 24) 24 0 [(16, true)]
                = RErr sk_E_corruption_detected d st /\ r_cur st = 0 /\ r_doff st = 16) /\
  (exists st', seekable_decompress_keep st_H st_content 64 16 st_t true st_after_first_keep [165;165;165;165] 4 16 [(4, false)]
               = ROk 4 [100; 101; 102; 103] st') /\
  (exists d st', seekable_decompress_keep st_H st_content 64 16 st_t true rinit [165;165;165;165] 4 16 [(16, true)]
               = RErr sk_E_corruption_detected d st') /\
  (exists d st', seekable_decompress st_H st_content 64 16 st_t true st_after_first_now [165;165;165;165] 4 16 [(16, true)]
               = RErr sk_E_corruption_detected d st').
Proof.
  split; [eexists; eexists; vm_compute; repeat split; reflexivity|].
  split; [eexists; vm_compute; reflexivity|].
  split; eexists; eexists; vm_compute; reflexivity.
Qed.

(* ---- fix b63eccc: witness for the loop before it (rloop_keep has neither this test nor a2a0322; no error return is involved in
   this history, so it behaves like the code at a2a0322 here).  Same table: entry 0 announces 24 bytes, the frame holds 16.
   Call 1 reads [0, 16) - exactly the bytes the frame really holds: success, position (frame 0, offset 16) kept although the
   decoder has finished the frame.  Call 2 reads [16, 20): the first four bytes of frame 1, as success.  The current model
   refuses call 1 (the frame is complete before the end its entry gives) and is positioned nowhere afterwards. *)
Definition st_after_ok_keep : rstate :=
  match seekable_decompress_keep st_H st_content 64 16 st_t true rinit (repeat 165 16) 16 0 [(16, true)] with
  | ROk _ _ st => st | _ => rinit end.

Lemma short_frame_unnoticed_before_fix :
  (exists st, seekable_decompress_keep st_H st_content 64 16 st_t true rinit (repeat 165 16) 16 0 [(16, true)]
              = ROk 16 [0;1;2;3;4;5;6;7;8;9;10;11;12;13;14;15] st /\ r_cur st = 0 /\ r_doff st = 16 /\ d_fin st = true) /\
  (exists st', seekable_decompress_keep st_H st_content 64 16 st_t true st_after_ok_keep [165;165;165;165] 4 16 [(4, false)]
               = ROk 4 [100; 101; 102; 103] st') /\
  (exists d st', seekable_decompress st_H st_content 64 16 st_t true rinit (repeat 165 16) 16 0 [(16, true)]
               = RErr sk_E_corruption_detected d st' /\ r_cur st' = 4294967295).
Proof.
  split; [eexists; vm_compute; repeat split; reflexivity|].
  split; [eexists; vm_compute; reflexivity|].
  eexists; eexists; vm_compute; split; reflexivity.
Qed.

(* ------------------------------------------------------------------ the decoder is never left finished inside a claimed frame *)
(* ANY contents (frames shorter / longer than their entries, wrong checksums ...): a state is [Sound] when the reader is positioned
   nowhere, or the decoder has not finished the frame it claims to be in, or it has and decompressedOffset is at (or beyond) the
   end the table gives for that frame - so that no later call can take the continue path with a decoder that sits at the start of
   the NEXT frame of the file (findings a2a0322 and b63eccc were exactly such states). *)
Section SoundPosition.
  Variable H : list N -> N.
  Variable content : N -> list N.
  Variables BUFF NOPROG : N.
  Variable t : seek_table.
  Hypothesis W : wf_table t.

  Definition Sound (st : rstate) : Prop :=
    r_cur st = 4294967295 \/ (d_fin st = true -> e_d (ent t (w32 (r_cur st + 1))) <= r_doff st).

  Definition result_sound (r : rres) : Prop :=
    match r with ROk _ _ s => Sound s | RFuel _ s => Sound s | _ => True end.

  Lemma Sound_unfinished st : d_fin st = false -> Sound st.
  Proof. intros Hf. right. rewrite Hf. discriminate. Qed.

  Lemma rloop_sound offset len : forall orc st target np dst, r_cur st = target -> d_fin st = false ->
    result_sound (rloop H content BUFF NOPROG t true offset len orc st target np dst).
  Proof.
    induction orc as [|o orc IH]; intros st target np dst Hcur Hfin; cbn [rloop].
    - destruct (loop_cond t offset len st target) as [[|]|c|s]; cbn [result_sound]; try exact I.
      + now apply Sound_unfinished.
      + destruct (r_doff st =? w64 (offset + len)); cbn [result_sound]; [now apply Sound_unfinished|exact I].
    - destruct (loop_cond t offset len st target) as [[|]|c|s]; cbn [result_sound]; try exact I.
      2:{ destruct (r_doff st =? w64 (offset + len)); cbn [result_sound]; [now apply Sound_unfinished|exact I]. }
      destruct (negb (in_range t (w32 (target + 1)))); [exact I|].
      match goal with |- context [if ?c then RTrap 52 else _] => destruct c; [exact I|] end.
      unfold dcall. cbn [d_fin d_frame d_prod r_cur r_doff r_acc r_trace]. rewrite Hfin.
      cbv beta iota zeta. cbn [fst snd d_fin d_frame d_prod r_cur r_doff r_acc r_trace].
      match goal with |- context [if ?c then RErr sk_E_seekableIO _ _ else _] => destruct c; [exact I|] end.
      match goal with |- context [if ?f then (if negb (in_range t target) then _ else _) else _] => destruct f eqn:Ef end.
      + destruct (negb (in_range t target)); [exact I|].
        match goal with |- result_sound (if ?c then _ else _) => destruct c; [exact I|] end.
        cbn [andb].
        match goal with |- result_sound (if ?a <? ?b then _ else _) => destruct (N.ltb_spec a b) as [Hshort|Hge]; [exact I|] end.
        match goal with |- result_sound (if ?c then _ else _) => destruct c end.
        * match goal with |- context [offset_to_frame t ?p] => destruct (offset_to_frame t p) as [tg|c|s]; try exact I end.
          cbn [r_cur]. rewrite Hcur.
          destruct (N.eqb_spec (w32 tg) target) as [Esame|Hdiff]; cbn [andb]; [exact I|].
          unfold prelude. cbn [r_cur r_doff].
          replace (w32 tg =? target) with false by (symmetry; apply N.eqb_neq; assumption). cbn [negb orb].
          unfold restart. destruct (negb (in_range t (w32 tg))); [exact I|].
          apply IH; reflexivity.
        * match goal with |- result_sound (if ?c then _ else _) => destruct c; [|exact I] end.
          cbn [result_sound]. right. intros _. cbn [r_cur r_doff]. rewrite Hcur. exact Hge.
      + apply IH; [cbn [r_cur]; exact Hcur|reflexivity].
  Qed.

  (* one ZSTD_seekable_decompress call keeps it (when it returns a position at all: success or "oracle exhausted") *)
  Lemma call_keeps_sound st dst len offset orc : Sound st ->
    result_sound (seekable_decompress H content BUFF NOPROG t true st dst len offset orc).
  Proof.
    intros HS. unfold seekable_decompress.
    destruct (negb (in_range t (t_len t))); [exact I|].
    destruct (N.leb_spec (e_d (ent t (t_len t))) offset) as [Hbeyond|Hin]; [exact HS|].
    destruct (offset_to_frame_spec t offset W) as [_ Hspec].
    destruct (Hspec Hin) as (i & -> & Hi & Hlo & Hhi).
    pose proof (wf_small t W) as Hsm.
    rewrite (w32_small i) by lia.
    unfold prelude.
    destruct (negb (i =? r_cur st) || (offset <? r_doff st)) eqn:Ep.
    - unfold restart. destruct (negb (in_range t i)); [exact I|]. apply rloop_sound; reflexivity.
    - apply orb_false_iff in Ep. destruct Ep as [E1 E2].
      apply negb_false_iff in E1. apply N.eqb_eq in E1. apply N.ltb_ge in E2.
      apply rloop_sound; [symmetry; exact E1|].
      destruct (d_fin st) eqn:Ef; [exfalso|reflexivity].
      destruct HS as [Hn|HS]; [lia|]. specialize (HS Ef).
      rewrite <- E1 in HS. rewrite (w32_small (i + 1)) in HS by lia. lia.
  Qed.

  (* consequence: from a Sound state a call never takes the continue path with a finished decoder, i.e. never decodes the next
     frame of the file as the rest of the claimed one *)
  Lemma continue_path_has_live_decoder st offset target :
    Sound st -> offset < e_d (ent t (t_len t)) -> offset_to_frame t offset = Ok target ->
    prelude t offset st (w32 target) = Ok st -> d_fin st = false.
  Proof.
    intros HS Hin Eo. destruct (offset_to_frame_spec t offset W) as [_ Hspec].
    destruct (Hspec Hin) as (i & Ei & Hi & Hlo & Hhi). rewrite Ei in Eo. injection Eo as <-.
    pose proof (wf_small t W) as Hsm. rewrite (w32_small i) by lia.
    unfold prelude. destruct (negb (i =? r_cur st) || (offset <? r_doff st)) eqn:Ep.
    - unfold restart. destruct (negb (in_range t i)); [discriminate|].
      intros E. injection E as E. destruct (d_fin st) eqn:Ef; [|reflexivity].
      apply (f_equal d_fin) in E. cbn [d_fin] in E. congruence.
    - intros _. apply orb_false_iff in Ep. destruct Ep as [E1 E2].
      apply negb_false_iff in E1. apply N.eqb_eq in E1. apply N.ltb_ge in E2.
      destruct (d_fin st) eqn:Ef; [exfalso|reflexivity].
      destruct HS as [Hn|HS]; [lia|]. specialize (HS Ef).
      rewrite <- E1 in HS. rewrite (w32_small (i + 1)) in HS by lia. lia.
  Qed.

  Lemma Sound_rinit : Sound rinit.
  Proof. left. reflexivity. Qed.
  Lemma Sound_nowhere doff f p fin acc tr : Sound (nowhere doff f p fin acc tr).
  Proof. left. reflexivity. Qed.
End SoundPosition.
