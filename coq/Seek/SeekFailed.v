(* C20 round 3 - the three error returns of ZSTD_seekable_decompress that leave the reader "positioned nowhere"
   (curFrame = (U32)-1: failed seek c859e4f, failed decoder b978b70, failed read 9b1486b): the state satisfies the cache
   invariant, and the next call does not depend on anything the failed call left behind (decoder position, frame, hash
   state, decompressedOffset): it seeks to the frame start and resets. *)
From Coq Require Import NArith ZArith List Bool Lia.
From ZV.Gen Require Import Gen_Seek.
From ZV.Seek Require Import SeekTable SeekBase SeekTableProofs SeekReader SeekReaderProofs.
Import ListNotations.
Local Open Scope N_scope.
Ltac Zify.zify_post_hook ::= Z.to_euclidean_division_equations.

Lemma read_failed_keeps_invariant content t st : wf_table t -> Inv content t (read_failed st).
Proof.
  intros W. right. right. right. cbn [read_failed r_cur]. pose proof (wf_small t W). lia.
Qed.

(* a state with curFrame = (U32)-1 *)
Definition nowhere (doff f p : N) (fin : bool) (acc : list N) (tr : list revent) : rstate :=
  mkR 4294967295 doff f p fin acc tr.

Lemma read_failed_nowhere st : read_failed st = nowhere (r_doff st) (d_frame st) (d_prod st) (d_fin st) (r_acc st) (r_trace st).
Proof. reflexivity. Qed.
Lemma decoder_failed_nowhere st : decoder_failed st = nowhere (r_doff st) (d_frame st) (d_prod st) (d_fin st) (r_acc st) (r_trace st).
Proof. reflexivity. Qed.
Lemma seek_failed_nowhere t st target :
  restart_seek_failed t false st target = nowhere (r_doff st) (d_frame st) (d_prod st) (d_fin st) (r_acc st) (r_trace st).
Proof. reflexivity. Qed.

Section Forgotten.
  Variable H : list N -> N.
  Variable content : N -> list N.
  Variables BUFF NOPROG : N.
  Variable t : seek_table.
  Variable sfc : bool.
  Hypothesis W : wf_table t.

  (* the next ZSTD_seekable_decompress inside the content: the same call, whatever the failed call left in the decoder,
     the hash state and decompressedOffset (only the ghost trace is carried along) *)
  Lemma nowhere_is_forgotten doff f p fin acc doff' f' p' fin' acc' tr dst len offset orc :
    offset < e_d (ent t (t_len t)) ->
    seekable_decompress H content BUFF NOPROG t sfc (nowhere doff f p fin acc tr) dst len offset orc =
    seekable_decompress H content BUFF NOPROG t sfc (nowhere doff' f' p' fin' acc' tr) dst len offset orc.
  Proof.
    intros Hoff. unfold seekable_decompress.
    rewrite (wf_in_range t (t_len t) W) by lia. cbn [negb].
    destruct (N.leb_spec (e_d (ent t (t_len t))) offset); [lia|].
    destruct (offset_to_frame_spec t offset W) as [_ Hin]. destruct (Hin Hoff) as (i & -> & Hi & _ & _).
    pose proof (wf_small t W) as Hsm.
    rewrite (w32_small i) by lia.
    unfold prelude, nowhere. cbn [r_cur r_doff].
    assert (Hne : (i =? 4294967295) = false) by (apply N.eqb_neq; lia).
    rewrite Hne. cbn [negb orb]. unfold restart. cbn [r_trace].
    rewrite (wf_in_range t i W) by lia. cbn [negb]. reflexivity.
  Qed.

  (* ... and that call starts by seeking to the start of the frame that contains the offset *)
  Lemma nowhere_restarts doff f p fin acc tr dst len offset orc :
    offset < e_d (ent t (t_len t)) ->
    exists i, offset_to_frame t offset = Ok i /\ i < t_len t /\
      seekable_decompress H content BUFF NOPROG t sfc (nowhere doff f p fin acc tr) dst len offset orc =
      rloop H content BUFF NOPROG t sfc offset
            (if sub64 (e_d (ent t (t_len t))) offset <? len then sub64 (e_d (ent t (t_len t))) offset else len)
            orc (mkR i (e_d (ent t i)) i 0 false [] (EvRestart i :: tr)) i 0 dst.
  Proof.
    intros Hoff. unfold seekable_decompress.
    rewrite (wf_in_range t (t_len t) W) by lia. cbn [negb].
    destruct (N.leb_spec (e_d (ent t (t_len t))) offset); [lia|].
    destruct (offset_to_frame_spec t offset W) as [_ Hin]. destruct (Hin Hoff) as (i & E & Hi & _ & _).
    exists i. split; [exact E|]. split; [exact Hi|]. rewrite E.
    pose proof (wf_small t W) as Hsm.
    rewrite (w32_small i) by lia.
    unfold prelude, nowhere. cbn [r_cur r_doff].
    assert (Hne : (i =? 4294967295) = false) by (apply N.eqb_neq; lia).
    rewrite Hne. cbn [negb orb]. unfold restart. cbn [r_trace].
    rewrite (wf_in_range t i W) by lia. cbn [negb]. reflexivity.
  Qed.
End Forgotten.

(* ZSTD_seekable_init* on an object that has been reading another archive (re-initialisation is documented): curFrame = (U32)-1,
   decompressedOffset = (U64)-1; the decoder, zs->in and the hash state are whatever the previous archive left.  The first
   read inside the new content is the read a fresh object makes. *)
Definition reinit_state (prev : rstate) : rstate :=
  nowhere 18446744073709551615 (d_frame prev) (d_prod prev) (d_fin prev) (r_acc prev) [].

Lemma reinit_reads_like_fresh H content BUFF NOPROG t sfc prev dst len offset orc : wf_table t ->
  offset < e_d (ent t (t_len t)) ->
  seekable_decompress H content BUFF NOPROG t sfc (reinit_state prev) dst len offset orc =
  seekable_decompress H content BUFF NOPROG t sfc rinit dst len offset orc.
Proof.
  intros W Hoff. unfold reinit_state.
  change rinit with (nowhere 18446744073709551615 4294967295 0 false [] []).
  now apply nowhere_is_forgotten.
Qed.

Lemma reinit_keeps_invariant content t prev : wf_table t -> Inv content t (reinit_state prev).
Proof.
  intros W. right. right. right. cbn [reinit_state nowhere r_cur]. pose proof (wf_small t W). lia.
Qed.
