(* C20 - proofs about the resumable seek-table writer (ZSTD_stwrite32 / ZSTD_seekable_writeSeekTable): whatever
   output room each call is given, the calls emit consecutive slices of the table's specification bytes, return the
   number of bytes still missing, never fail and never touch tmp[4] out of range. *)
From Coq Require Import NArith ZArith List Bool Lia.
From ZV.Gen Require Import Gen_Seek.
From ZV.Seek Require Import SeekTable SeekBase SeekLoadProofs.
Import ListNotations.
Local Open Scope N_scope.
Ltac Zify.zify_post_hook ::= Z.to_euclidean_division_equations.

Lemma flat_map_app' {A B} (f : A -> list B) a b : flat_map f (a ++ b) = flat_map f a ++ flat_map f b.
Proof. induction a as [|x a IH]; cbn [flat_map app]; [reflexivity|]. now rewrite IH, app_assoc. Qed.

Lemma revT_cons_out (b : N) rout : revT (b :: rout) = revT rout ++ [b].
Proof. now rewrite !revT_rev. Qed.
Lemma revT_rev_append (X rout : list N) : revT (rev_append X rout) = revT rout ++ X.
Proof. rewrite !revT_rev, rev_append_rev, rev_app_distr, rev_involutive. reflexivity. Qed.

Lemma sliceN_app_at {A} (P X : list A) m : sliceN (P ++ X) (lenN P) m = firstN X m.
Proof. unfold sliceN. now rewrite skipN_app_len. Qed.

Ltac conj_split := repeat match goal with |- _ /\ _ => split end.

Section Writer.
  Variable cf : N.
  Variable log : list logent.
  Hypothesis Hn : lenN log <= MAXFRAMES.
  Hypothesis Hok : Forall logent_ok log.

  Notation n := (lenN log).
  Notation fl := (flag_set cf).
  Notation total := (table_size cf (lenN log)).
  Notation T := (seek_table_bytes cf log).

  Lemma n_le : n <= 134217728. Proof. pose proof MAXFRAMES_le. lia. Qed.
  Lemma total_eq : total = 8 + spe fl * n + 9.
  Proof.
    pose proof n_le. pose proof (spe_bounds fl). unfold table_size. rewrite SKIPHDR_eq, FOOTER_eq.
    apply w64_small. nia.
  Qed.
  Lemma total_lt : total < 4294967296.
  Proof. rewrite total_eq. pose proof n_le. pose proof (spe_bounds fl). nia. Qed.

  Definition Hdr : list N := le32 SKIPMAGIC ++ le32 (sub32 total SKIPHDR).
  Definition Ftr : list N := le32 n ++ [sfd_of cf] ++ le32 MAGIC.
  Lemma T_eq : T = Hdr ++ flat_map (entry_bytes fl) log ++ Ftr.
  Proof. unfold seek_table_bytes, Hdr, Ftr. now rewrite <- !app_assoc. Qed.
  Lemma Hdr_len : lenN Hdr = 8. Proof. reflexivity. Qed.
  Lemma Ftr_len : lenN Ftr = 9. Proof. reflexivity. Qed.
  Lemma T_len : lenN T = total.
  Proof. rewrite T_eq, !lenN_app, Hdr_len, Ftr_len, lenN_flat_entries, total_eq. lia. Qed.

  (* ---- where the words are ---- *)
  Lemma word_in_middle (P S : list N) v off : lenN P = off -> sliceN (P ++ le32 v ++ S) off 4 = le32 v.
  Proof.
    intros <-. rewrite sliceN_app_at. rewrite <- (le32_length v) at 1. apply firstN_app_len.
  Qed.

  Lemma word0 : sliceN T 0 4 = le32 SKIPMAGIC.
  Proof. rewrite T_eq. unfold Hdr. rewrite <- !app_assoc. apply (word_in_middle []). reflexivity. Qed.
  Lemma word1 : sliceN T 4 4 = le32 (sub32 total SKIPHDR).
  Proof.
    rewrite T_eq. unfold Hdr. rewrite <- !app_assoc. apply (word_in_middle (le32 SKIPMAGIC)). reflexivity.
  Qed.
  Lemma wordN : sliceN T (total - 9) 4 = le32 n.
  Proof.
    rewrite T_eq. unfold Ftr. rewrite !app_assoc. rewrite <- (app_assoc _ (le32 n)). rewrite <- app_assoc.
    apply word_in_middle. rewrite lenN_app, Hdr_len, lenN_flat_entries, total_eq. lia.
  Qed.
  Lemma byteS : sliceN T (total - 5) 1 = [sfd_of cf].
  Proof.
    rewrite T_eq. unfold Ftr.
    replace (Hdr ++ flat_map (entry_bytes fl) log ++ le32 n ++ [sfd_of cf] ++ le32 MAGIC)
      with ((Hdr ++ flat_map (entry_bytes fl) log ++ le32 n) ++ [sfd_of cf] ++ le32 MAGIC)
      by (now rewrite <- !app_assoc).
    replace (total - 5) with (lenN (Hdr ++ flat_map (entry_bytes fl) log ++ le32 n)).
    - rewrite sliceN_app_at. reflexivity.
    - rewrite !lenN_app, Hdr_len, lenN_flat_entries, le32_length, total_eq. lia.
  Qed.
  Lemma wordM : sliceN T (total - 4) 4 = le32 MAGIC.
  Proof.
    rewrite T_eq. unfold Ftr.
    replace (Hdr ++ flat_map (entry_bytes fl) log ++ le32 n ++ [sfd_of cf] ++ le32 MAGIC)
      with ((Hdr ++ flat_map (entry_bytes fl) log ++ le32 n ++ [sfd_of cf]) ++ le32 MAGIC ++ [])
      by (now rewrite app_nil_r, <- !app_assoc).
    apply word_in_middle. rewrite !lenN_app, Hdr_len, lenN_flat_entries, le32_length, total_eq.
    change (lenN [sfd_of cf]) with 1. lia.
  Qed.

  (* ---- invariant of one call: what has been appended so far is the slice of T between the call's start and the
          current seekTablePos ---- *)
  Section OneCall.
    Variables p0 a0 : N.

    Record CI (s : wst) : Prop := {
      ci_lo : p0 <= w_pos s;
      ci_hi : w_pos s <= total;
      ci_out : w_out s = sliceN T p0 (w_pos s - p0);
      ci_av : w_avail s + (w_pos s - p0) = a0
    }.

    Lemma stw_spec value offset s :
      offset + 4 <= total -> sliceN T offset 4 = le32 value -> CI s -> offset <= w_pos s ->
      match stwrite32 total value offset s with
      | WCont s' => CI s' /\ offset + 4 <= w_pos s' /\ w_idx s' = w_idx s /\ w_pos s <= w_pos s'
      | WRet s' v => CI s' /\ v = total - w_pos s' /\ w_idx s' = w_idx s /\ w_pos s <= w_pos s' /\
                     (w_avail s' = 0 \/ w_pos s < w_pos s')
      | WTrap _ => False
      end.
    Proof.
      intros Hoff Hword C Hpos. pose proof C as [Clo Chi Cout Cav]. pose proof total_lt as Ht.
      unfold stwrite32. rewrite (w32_small (offset + 4)) by lia.
      destruct (N.ltb_spec (w_pos s) (offset + 4)) as [Hin|Hpast].
      - rewrite (sub32_small (offset + 4) (w_pos s)) by lia.
        rewrite (sub32_small (w_pos s) offset) by lia.
        set (lw := N.min (w_avail s) (offset + 4 - w_pos s)).
        set (skip := w_pos s - offset).
        replace (4 <? skip + lw) with false by (symmetry; apply N.ltb_ge; unfold skip, lw; lia).
        rewrite (w32_small (w_pos s + lw)) by (unfold lw; lia).
        assert (HX : sliceN (le32 value) skip lw = sliceN T (w_pos s) lw).
        { rewrite <- Hword. rewrite sliceN_sliceN by (unfold skip, lw; lia). f_equal. unfold skip. lia. }
        assert (C' : CI (mkW (w_pos s + lw) (w_idx s) (w_avail s - lw)
                             (rev_append (sliceN (le32 value) skip lw) (w_rout s)))).
        { constructor; cbn [w_pos w_avail]; try (unfold lw; lia).
          unfold w_out in *. cbn [w_rout]. rewrite revT_rev_append, Cout, HX.
          replace (w_pos s + lw - p0) with (w_pos s - p0 + lw) by lia.
          rewrite sliceN_plus. do 2 f_equal. lia. }
        destruct (N.ltb_spec lw 4) as [Hshort|Hfull].
        + split; [exact C'|]. cbn [w_pos w_idx w_avail]. rewrite sub64_small by (unfold lw; lia).
          conj_split; try reflexivity; try (unfold lw; lia).
        + split; [exact C'|]. cbn [w_pos w_idx]. unfold lw in *. conj_split; try reflexivity; lia.
      - conj_split; try assumption; try reflexivity; lia.
    Qed.
  End OneCall.

  (* ---- the loop over entries ---- *)
  Lemma we_spec p0 a0 : forall ents P S s,
    T = P ++ flat_map (entry_bytes fl) ents ++ S -> lenN S = 9 ->
    lenN P = 8 + spe fl * w_idx s -> w_idx s + lenN ents <= n ->
    CI p0 a0 s -> lenN P <= w_pos s ->
    match write_entries cf total ents s with
    | WCont s' => CI p0 a0 s' /\ w_idx s' = w_idx s + lenN ents /\ lenN P + spe fl * lenN ents <= w_pos s'
    | WRet s' v => CI p0 a0 s' /\ v = total - w_pos s' /\ (w_avail s' = 0 \/ w_pos s < w_pos s') /\
                   w_idx s <= w_idx s' /\ w_idx s' < w_idx s + lenN ents /\ 8 + spe fl * w_idx s' <= w_pos s'
    | WTrap _ => False
    end.
  Proof.
    pose proof n_le as Hnle. pose proof (spe_bounds fl) as Hspe. pose proof total_lt as Ht.
    induction ents as [|[[c d] k] rest IH]; intros P S s HT HS HP Hidx C Hpos.
    - cbn [write_entries]. change (lenN (@nil logent)) with 0. rewrite N.mul_0_r, !N.add_0_r. conj_split; try assumption; lia.
    - rewrite lenN_cons in *. cbn [write_entries].
      assert (Htot : lenN P + spe fl * (1 + lenN rest) + 9 = total).
      { rewrite <- T_len, HT, !lenN_app, lenN_flat_entries, lenN_cons, HS. lia. }
      assert (Hstart : w64 (SKIPHDR + spe fl * w_idx s) = lenN P).
      { rewrite SKIPHDR_eq, HP. apply w64_small. nia. }
      rewrite Hstart. rewrite (w32_small (lenN P)) by lia.
      rewrite (w32_small (lenN P + 4)) by lia. rewrite (w32_small (lenN P + 8)) by lia.
      cbn [flat_map entry_bytes] in HT.
      (* word c *)
      assert (Wc : sliceN T (lenN P) 4 = le32 c).
      { rewrite HT. rewrite <- !app_assoc. now apply word_in_middle. }
      assert (Wd : sliceN T (lenN P + 4) 4 = le32 d).
      { rewrite HT. rewrite <- !app_assoc. rewrite (app_assoc P (le32 c)). apply word_in_middle.
        rewrite lenN_app, le32_length. reflexivity. }
      assert (Wk : fl = true -> sliceN T (lenN P + 8) 4 = le32 k).
      { intros Hf. rewrite HT, Hf. rewrite <- !app_assoc. rewrite (app_assoc P (le32 c)), (app_assoc _ (le32 d)).
        apply word_in_middle. rewrite !lenN_app, !le32_length. lia. }
      pose proof (stw_spec p0 a0 c (lenN P) s ltac:(lia) Wc C Hpos) as X1.
      destruct (stwrite32 total c (lenN P) s) as [s1|s1 v1|?]; cbn [wbind]; [|
        destruct X1 as (C1 & -> & I1 & M1 & Pr1); conj_split; try assumption; try lia | contradiction].
      destruct X1 as (C1 & O1 & I1 & M1). pose proof (ci_lo _ _ _ C1) as L1.
      pose proof (stw_spec p0 a0 d (lenN P + 4) s1 ltac:(lia) Wd C1 ltac:(lia)) as X2.
      destruct (stwrite32 total d (lenN P + 4) s1) as [s2|s2 v2|?]; cbn [wbind]; [|
        destruct X2 as (C2 & -> & I2 & M2 & Pr2); conj_split; try assumption; try lia | contradiction].
      destruct X2 as (C2 & O2 & I2 & M2). pose proof (ci_lo _ _ _ C2) as L2.
      assert (X3 : match (if fl then stwrite32 total k (lenN P + 8) s2 else WCont s2) with
                   | WCont s' => CI p0 a0 s' /\ lenN P + spe fl <= w_pos s' /\ w_idx s' = w_idx s2 /\ w_pos s2 <= w_pos s'
                   | WRet s' v => CI p0 a0 s' /\ v = total - w_pos s' /\ w_idx s' = w_idx s2 /\ w_pos s2 <= w_pos s' /\
                                  (w_avail s' = 0 \/ w_pos s2 < w_pos s')
                   | WTrap _ => False end).
      { destruct fl eqn:Ef.
        - pose proof (stw_spec p0 a0 k (lenN P + 8) s2 ltac:(cbn [spe] in *; lia) (Wk eq_refl) C2 ltac:(lia)) as X.
          destruct (stwrite32 total k (lenN P + 8) s2); [|exact X|exact X].
          destruct X as (? & ? & ? & ?). cbn [spe]. conj_split; try assumption; lia.
        - cbn [spe]. conj_split; try assumption; lia. }
      destruct (if fl then stwrite32 total k (lenN P + 8) s2 else WCont s2) as [s3|s3 v3|?]; cbn [wbind]; [|
        destruct X3 as (C3 & -> & I3 & M3 & Pr3); conj_split; try assumption; try lia | contradiction].
      destruct X3 as (C3 & O3 & I3 & M3).
      rewrite (w32_small (w_idx s3 + 1)) by lia.
      set (s4 := mkW (w_pos s3) (w_idx s3 + 1) (w_avail s3) (w_rout s3)).
      assert (C4 : CI p0 a0 s4) by (destruct C3; constructor; assumption).
      specialize (IH (P ++ entry_bytes fl (c, d, k)) S s4).
      rewrite lenN_app, entry_bytes_len in IH.
      pose proof (IH ltac:(rewrite HT; cbn [entry_bytes]; now rewrite <- !app_assoc) HS
                     ltac:(cbn [s4 w_idx]; nia) ltac:(cbn [s4 w_idx]; lia) C4 ltac:(cbn [s4 w_pos]; lia)) as X4.
      destruct (write_entries cf total rest s4) as [s5|s5 v5|?]; [| |contradiction].
      + destruct X4 as (C5 & I5 & O5). cbn [s4 w_idx] in I5. conj_split; try assumption; lia.
      + destruct X4 as (C5 & -> & Pr5 & I5a & I5b & O5). cbn [s4 w_idx w_pos] in *.
        conj_split; try assumption; lia.
  Qed.

  (* ---- one call ---- *)
  Definition WI (pos idx : N) : Prop := pos <= total /\ idx <= n /\ (idx = 0 \/ 8 + spe fl * idx <= pos).

  Definition call_post (pos avail : N) (r : wstep) : Prop :=
    match r with
    | WRet s v => CI pos avail s /\ v = total - w_pos s /\ WI (w_pos s) (w_idx s) /\
                  (w_avail s = 0 \/ pos < w_pos s \/ pos = total)
    | _ => False
    end.

  Lemma write_call_spec pos idx avail : WI pos idx -> call_post pos avail (write_call cf log pos idx avail).
  Proof.
    intros (Wp & Wi & Wpi).
    pose proof n_le as Hnle. pose proof (spe_bounds fl) as Hspe. pose proof total_lt as Ht. pose proof total_eq as Hte.
    unfold write_call.
    set (s0 := mkW pos idx avail []).
    assert (C0 : CI pos avail s0).
    { constructor; cbn [s0 w_pos w_avail]; try lia. rewrite N.sub_diag, sliceN_0. reflexivity. }
    pose proof (stw_spec pos avail SKIPMAGIC 0 s0 ltac:(lia) word0 C0 ltac:(lia)) as X1.
    destruct (stwrite32 total SKIPMAGIC 0 s0) as [s1|s1 v1|?]; cbn [wbind call_post]; [| |contradiction].
    2:{ destruct X1 as (C1 & -> & I1 & M1 & Pr1). cbn [s0 w_idx w_pos] in *. pose proof C1 as [? ? ? ?].
        unfold WI. rewrite I1. conj_split; try assumption; try lia. }
    destruct X1 as (C1 & O1 & I1 & M1). pose proof (ci_lo _ _ _ C1) as L1.
    pose proof (stw_spec pos avail (sub32 total SKIPHDR) 4 s1 ltac:(lia) word1 C1 ltac:(lia)) as X2.
    destruct (stwrite32 total (sub32 total SKIPHDR) 4 s1) as [s2|s2 v2|?]; cbn [wbind call_post]; [| |contradiction].
    2:{ destruct X2 as (C2 & -> & I2 & M2 & Pr2). cbn [s0 w_idx w_pos] in *. pose proof C2 as [? ? ? ?].
        unfold WI. rewrite I2, I1. conj_split; try assumption; try lia. }
    destruct X2 as (C2 & O2 & I2 & M2). pose proof (ci_lo _ _ _ C2) as L2.
    assert (Eidx : w_idx s2 = idx) by (rewrite I2, I1; reflexivity).
    (* entries from index idx on *)
    pose proof (we_spec pos avail (skipN log (w_idx s2)) (Hdr ++ flat_map (entry_bytes fl) (firstN log (w_idx s2))) Ftr s2) as X3.
    assert (Hfl : lenN (firstN log idx) = idx) by (rewrite lenN_firstN; lia).
    assert (Hsl : lenN (skipN log idx) = n - idx) by apply lenN_skipN.
    rewrite Eidx in X3.
    specialize (X3 ltac:(rewrite T_eq, <- !app_assoc; f_equal; rewrite app_assoc, <- flat_map_app', firstN_skipN; reflexivity)
                   Ftr_len
                   ltac:(rewrite lenN_app, Hdr_len, lenN_flat_entries, Hfl; reflexivity)
                   ltac:(rewrite Hsl; lia) C2).
    rewrite lenN_app, Hdr_len, lenN_flat_entries, Hfl, Hsl in X3.
    cbn [s0 w_pos] in M1.
    specialize (X3 ltac:(destruct Wpi as [->|?]; lia)).
    rewrite Eidx.
    destruct (write_entries cf total (skipN log idx) s2) as [s3|s3 v3|?]; cbn [wbind call_post]; [| |contradiction].
    2:{ destruct X3 as (C3 & -> & Pr3 & I3a & I3b & O3). pose proof C3 as [? ? ? ?].
        unfold WI. conj_split; try assumption; try lia. }
    destruct X3 as (C3 & I3 & O3). pose proof (ci_lo _ _ _ C3) as L3.
    assert (En : w_idx s3 = n) by lia.
    assert (Hp3 : total - 9 <= w_pos s3) by nia.
    rewrite (w32_small n) by lia.
    rewrite (sub32_small total FOOTER) by (rewrite ?FOOTER_eq; lia). rewrite FOOTER_eq.
    pose proof (stw_spec pos avail n (total - 9) s3 ltac:(lia) wordN C3 Hp3) as X4.
    destruct (stwrite32 total n (total - 9) s3) as [s4|s4 v4|?]; cbn [wbind call_post]; [| |contradiction].
    2:{ destruct X4 as (C4 & -> & I4 & M4 & Pr4). pose proof C4 as [? ? ? ?].
        unfold WI. rewrite I4, En. conj_split; try assumption; try lia. }
    destruct X4 as (C4 & O4 & I4 & M4). pose proof (ci_lo _ _ _ C4) as L4.
    assert (En4 : w_idx s4 = n) by lia.
    destruct (N.ltb_spec (w_avail s4) 1) as [Hno|Hroom].
    { rewrite sub64_small by (destruct C4; lia). pose proof C4 as [? ? ? ?].
      cbn [call_post]. unfold WI. rewrite En4. conj_split; try assumption; try lia. }
    rewrite (sub64_small total 4) by lia.
    set (s5 := if w_pos s4 <? total - 4
               then mkW (w32 (w_pos s4 + 1)) (w_idx s4) (w_avail s4 - 1) (sfd_of cf :: w_rout s4) else s4).
    assert (C5 : CI pos avail s5 /\ total - 4 <= w_pos s5 /\ w_idx s5 = n /\ w_pos s4 <= w_pos s5).
    { unfold s5. destruct (N.ltb_spec (w_pos s4) (total - 4)) as [Hs|Hs].
      - assert (Ep : w_pos s4 = total - 5) by lia.
        rewrite (w32_small (w_pos s4 + 1)) by lia. cbn [w_pos w_idx].
        split; [|lia]. destruct C4 as [Clo Chi Cout Cav].
        constructor; cbn [w_pos w_avail]; try lia.
        unfold w_out in *. cbn [w_rout]. rewrite revT_cons_out, Cout.
        replace (w_pos s4 + 1 - pos) with (w_pos s4 - pos + 1) by lia.
        rewrite sliceN_plus. f_equal. replace (pos + (w_pos s4 - pos)) with (total - 5) by lia.
        symmetry. apply byteS.
      - conj_split; try assumption; lia. }
    destruct C5 as (C5 & O5 & I5 & M5). pose proof (ci_lo _ _ _ C5) as L5.
    rewrite (sub32_small total 4) by lia.
    pose proof (stw_spec pos avail MAGIC (total - 4) s5 ltac:(lia) wordM C5 O5) as X6.
    destruct (stwrite32 total MAGIC (total - 4) s5) as [s6|s6 v6|?]; cbn [wbind call_post]; [| |contradiction].
    2:{ destruct X6 as (C6 & -> & I6 & M6 & Pr6). pose proof C6 as [? ? ? ?].
        unfold WI. rewrite I6, I5. conj_split; try assumption; try lia. }
    destruct X6 as (C6 & O6 & I6 & M6).
    assert (Ep6 : w_pos s6 = total) by (destruct C6; lia).
    rewrite Ep6, N.eqb_refl. cbn [call_post]. unfold WI. rewrite Ep6, I6, I5.
    pose proof C6 as [Clo ? ? ?]. rewrite Ep6 in Clo.
    conj_split; try assumption; try lia.
  Qed.

  (* ---- any history of calls ---- *)
  Fixpoint hist_spec (pos : N) (avails : list N) (rs : list (res (N * list N))) : Prop :=
    match avails, rs with
    | [], [] => True
    | a :: avs, Ok (v, out) :: rs' =>
        lenN out <= a /\ pos + lenN out <= total /\ out = sliceN T pos (lenN out) /\
        v = total - (pos + lenN out) /\
        (0 < a -> pos < total -> 0 < lenN out) /\
        hist_spec (pos + lenN out) avs rs'
    | _, _ => False
    end.

  Lemma write_history_spec : forall avails pos idx, WI pos idx ->
    hist_spec pos avails (write_history cf log pos idx avails).
  Proof.
    induction avails as [|a avs IH]; intros pos idx Wi; cbn [write_history hist_spec]; [exact I|].
    pose proof (write_call_spec pos idx a Wi) as X.
    destruct (write_call cf log pos idx a) as [?|s v|?]; cbn [call_post] in X; try contradiction.
    destruct X as ([Clo Chi Cout Cav] & -> & Wi' & Pr).
    assert (Hol : lenN (w_out s) = w_pos s - pos).
    { rewrite Cout, lenN_sliceN, T_len. lia. }
    cbn [hist_spec]. rewrite Hol.
    replace (pos + (w_pos s - pos)) with (w_pos s) by lia.
    conj_split; try assumption; try lia.
    apply IH. assumption.
  Qed.

  Lemma write_history_from_start avails : hist_spec 0 avails (write_history cf log 0 0 avails).
  Proof. apply write_history_spec. unfold WI. conj_split; lia. Qed.
End Writer.
