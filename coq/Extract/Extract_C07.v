(* C07: extraction of the determinism models for the correspondence runs (ExtrOcamlBasic only). *)
From Coq Require Import ZArith List.
Require Import ExtrOcamlBasic.
From ZV.Det Require Import Driver.
Extraction "Extract/out/c07model.ml" dispatch.
