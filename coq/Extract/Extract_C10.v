(* Extraction of the C10 hint-following readers over the reference decoder R.  ExtrOcamlBasic only. *)
From Coq Require Import NArith ZArith List.
From Coq Require Extraction ExtrOcamlBasic.
From ZV.Codec Require Import Bytes.
From ZV.Stream Require Import DStreamModel CStreamModel StreamInst C10Hints C10Api C10Stab C10Inst.
Extraction Language OCaml.
Extraction "Extract/out/c10model.ml" Rhread Rsread Rextent default_dparams
  Ta_new Ta_call Ta_stream Ta_flushStream Ta_endStream Ta_reset Ta_wview Ta_hint
  Ts_new Ts_call Ts_stream Ts_flushStream Ts_endStream.
