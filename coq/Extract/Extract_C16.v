(* C16: extraction of the parameter-interface model (ExtrOcamlBasic only; Z stays Coq's binary type) *)
Require Import ExtrOcamlBasic.
From ZV.Params Require Import BoundsModel ParamModel CParamsAdjust SessionModel InitModel.
Extraction "Extract/out/c16model.ml" ystep xstep xworld_new step world_new cbounds_id dbounds_id all_cparams all_dparams cparam_id dparam_id cdefault
  adjust_cparams adjust_cparams_public get_cparams get_cparams_public check_cparams cpar_list unknown_cell.
