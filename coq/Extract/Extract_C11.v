(* Extraction of the zstdmt protocol model for the C11 lock-step tie (ExtrOcamlBasic only; N stays Coq's binary type). *)
Require Import ExtrOcamlBasic.
From ZV.Conc Require Import MtModel.
Extraction "Extract/out/c11model.ml" step init slot mask stuck enabled_list caller_done.
