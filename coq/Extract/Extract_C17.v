(* C17: extraction of the sequence-API model (ExtrOcamlBasic only; N stays Coq's binary type) *)
Require Import ExtrOcamlBasic.
From ZV.Seq Require Import SeqApi SeqProducerFrame SeqFallback.
Extraction "Extract/out/c17model.ml" compress_sequences producer_block producer_block_at post_process merge_delims generate_block
  validate_sequence validate_fixed finalize_offbase update_rep sequence_bound exec_parse copy_no_delim copy_explicit determine_block_size
  producer_frame_fb fallback_history.
