(* Extraction of the reference decoder R (ExtrOcamlBasic only: N/Z/positive stay Coq's binary types).
   coqc runs with cwd = coq/, so the relative path below lands in coq/Extract/out/. *)
From Coq Require Import NArith ZArith List.
From Coq Require Extraction ExtrOcamlBasic.
From ZV.Codec Require Import Bytes XXH64 Fse Huf Block Frame Encode Reassemble.
Extraction Language OCaml.
Extraction "Extract/out/rdecoder.ml" R decode_frame parse_dict parse_fheader default_config xxh64 raw_dict reassemble_check enc_fheader_of enc_store reencode_check lz_frame lz_frame_blocks enc_skippable xreset xupdate xdigest.
