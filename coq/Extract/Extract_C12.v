(* Extraction of the pool model for the C12 lock-step tie (ExtrOcamlBasic only; nat stays unary). *)
Require Import ExtrOcamlBasic.
From ZV.Conc Require Import PoolModel.
Extraction "Extract/out/c12model.ml" step init mkcfg all_done stuck self_blocked enabled_list.
