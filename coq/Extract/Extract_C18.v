(* C18 - extraction of the training models to OCaml (ExtrOcamlBasic only: N / Z / positive / nat stay Coq's types) *)
From Coq Require Import NArith ZArith List.
From Coq Require Import ExtrOcamlBasic.
From ZV.Train Require Import CoverParams ZdictModel BestModel SegmentModel GroupModel LimitsModel MapModel.
Extraction Language OCaml.
Extraction "Extract/out/c18model.ml"
  N.add N.mul N.div_eucl N.to_nat N.of_nat Z.of_N Z.opp
  cover_check fastcover_check compute_epochs build_epochs cover_ctx_init fastcover_ctx_init nb_finalize
  opt_grid grid_cover_jobs grid_fastcover_jobs opt_entry_cover opt_entry_fast
  compliant_id dict_id get_dict_id finalize_sizes finalize_bytes add_entropy_sizes add_entropy_precheck
  add_entropy_maxdst legacy_gate
  best_init best_start best_finish apply_op run_sequential run_finishes indexed
  fc_train fc_select cv_build cv_select content_of key_fn map_init map_hash hint_loop hint_start dk1_of
  cv_ctx lower_bound group_freq offsets_from
  legacy_plan legacy_plan_at offcode_max offsets_alloc offsets_written
  cmap_clear cmap_run cm_slots.
