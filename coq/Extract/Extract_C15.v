(* C15: extraction of the index-window model for the correspondence runs (ExtrOcamlBasic only). *)
From Coq Require Import ZArith List.
Require Import ExtrOcamlBasic.
From ZV.Index Require Import Window Reduce Overflow History Driver.
Extraction "Extract/out/c15model.ml" dispatch hist_step hist_init.
