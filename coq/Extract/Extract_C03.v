(* Extraction of the C03 models (ExtrOcamlBasic only): the necessity witnesses + the reference decoder that rejects
   them, the multi-DDict hash set, the no-forward-progress watchdog, the literal-buffer placement, the output ring buffer,
   the history bookkeeping of the block-level API, the table pointers and
   the dictionary ownership of a context under ZSTD_copyDCtx.
   coqc runs with cwd = coq/, so the relative path below lands in coq/Extract/out/. *)
From Coq Require Import NArith ZArith List.
From Coq Require Extraction ExtrOcamlBasic.
From ZV.Codec Require Import Bytes XXH64 Fse Huf Block Frame.
From ZV.Safety Require Import DDictHashSet NoProgress Witnesses LitBuffer RingBuffer Continuity CtxPointers DictOwner LegacyWalk SkipSize.
Extraction Language OCaml.
Extraction "Extract/out/c03model.ml" witness_table R default_config nostrict_config
  add_all add_ddict get create xxh_hash next_fixed next_prefix np_step np_step_nocheck MAXNP place buf_size ring_trace ring0
  c_init step step_fixed trace prun d_init dtrace walk skip_size read_skip.
