(* Extraction of the allocation model for the C13 event-trace tie (ExtrOcamlBasic only; N and nat stay Coq's datatypes). *)
Require Import ExtrOcamlBasic.
From ZV.Mem Require Import AllocDsl AllocInstances AllocGen AllocLegacy AllocBorrow.
Extraction "Extract/out/c13model.ml" run_ops_gen formulas_agree run_lops run_bops.
