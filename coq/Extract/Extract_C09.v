(* Extraction of the C09 pledged-source-size model (coq/Codec/C09Pledge.v).  ExtrOcamlBasic only. *)
From Coq Require Import NArith List.
From Coq Require Extraction ExtrOcamlBasic.
From ZV.Codec Require Import C09Pledge.
Extraction Language OCaml.
Extraction "Extract/out/c09model.ml" run fresh.
