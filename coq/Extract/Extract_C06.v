(* C06 - extraction of the executable models for the correspondence runs (ExtrOcamlBasic only:
   Z / positive / nat stay Coq's datatypes) *)
Require Import ExtrOcamlBasic.
From Coq Require Import ZArith List.
From ZV.Mem Require Import CompressBound CompressCalls CompressSplit.
From ZV.Codec Require Import FrameInspect LegacyInspect.
Extraction "Extract/out/c06model.ml"
  bound compressBound_fn raw_frame replay_frame worst_frame suff_capacity cctx_block_size optimal_block_size nb_blocks
  frame_header_size get_frame_header get_frame_content_size find_frame_size_info find_frame_compressed_size
  decompress_bound decompression_margin find_decompressed_size DECOMPRESSION_MARGIN
  ser_frames inplace_decode margin_of regen_frames bound_frames
  no_compress_block rle_compress_block write_frame_header write_last_empty_block write_skippable_frame read_skippable_frame
  raw_two_calls mt_raw_frame
  derive_table emitted_partitions weak_block_cost max_partitions kb_blocks MAX_NB_BLOCK_SPLITS MIN_SEQUENCES_BLOCK_SPLITTING
  legacy_find lg_header_size LG_BLOCKSIZE.
