(* C14 extraction: ExtrOcamlBasic only; N / Z / positive stay Coq's binary datatypes. *)
From Coq Require Import NArith ZArith List.
From ZV.Mem Require Import Cwksp Estimate DBuffers History LevelDefs DOwner CDictLevel C14Round2 MtOwner.
Require Import ExtrOcamlBasic.
Extraction "Extract/out/c14model.ml"
  N.add N.sub N.mul N.div_eucl N.eqb Z.opp Z.of_N
  Cwksp.init Cwksp.run Cwksp.allocFailed Cwksp.cwksp_used Cwksp.cwksp_sizeof
  Estimate.getCParams_internal Estimate.adjustCParams_internal
  Estimate.estimateCCtxSize Estimate.estimateCStreamSize
  Estimate.estimateCCtxSize_usingCParams Estimate.estimateCStreamSize_usingCParams
  Estimate.estimateCCtxSize_usingCCtxParams Estimate.estimateCStreamSize_usingCCtxParams
  Estimate.estimateCDictSize Estimate.estimateCDictSize_advanced
  Estimate.initStaticCCtx Estimate.resetCCtx_static Estimate.initStaticCDict
  Estimate.static_stream2_session Estimate.static_simple_session Estimate.UNKNOWN
  Estimate.resetCCtx_ops Estimate.static_objects Estimate.heap_objects Estimate.cdict_ops
  Estimate.resolveRowMatchFinderMode Estimate.resolveEnableLdm Estimate.ldm_adjustParameters
  Estimate.estimate_internal Estimate.makeCCtxParamsFromCParams
  LevelDefs.need_simple LevelDefs.need_compress2 LevelDefs.need_stream
  History.static_history_hops History.static_history History.history History.history_final
  DBuffers.decodingBufferSize_internal DBuffers.estimateDStreamSize DBuffers.estimateDDictSize
  DBuffers.dstream_load_header DBuffers.dstate0 DBuffers.frame_windowSize
  DOwner.down_step DOwner.down0 DOwner.sizeof_DCtx_full DOwner.live_after DOwner.free_events DOwner.hs_count
  DOwner.estimateDStreamSize_fromFrame CDictLevel.cdict_level_recipe CDictLevel.getCParams_public
  C14Round2.need_advanced_raw
  MtOwner.mt_create MtOwner.mt_step MtOwner.mt_sizeof MtOwner.mt_sizeof_old MtOwner.mt_free_events.
