(* C20 - extraction of the seekable models (ExtrOcamlBasic only; N stays Coq's binary type). *)
Require Import ExtrOcamlBasic.
From Coq Require Import NArith List Bool.
From ZV.Gen Require Import Gen_Seek.
From ZV.Seek Require Import SeekTable SeekReader SeekWriter SeekXXH SeekInput.
Import ListNotations.
Local Open Scope N_scope.

(* instantiations used by the correspondence runs: BUFF, NOPROG from the regenerated constants, H = XXH64 *)
Definition x_ser := seek_table_bytes.
Definition x_whist (cf : N) (log : list logent) (avails : list N) := write_history cf log 0 0 avails.
Definition x_zero_buf : list N := repeat 0 (N.to_nat sk_BUFF).
Definition x_load (file : list N) := load_seek_table sk_BUFF file x_zero_buf.
Definition x_table_of := table_of.
Definition x_o2f := offset_to_frame.
Definition x_acc (t : seek_table) (i : N) :=
  (get_frame_c_offset t i, get_frame_d_offset t i, get_frame_c_size t i, get_frame_d_size t i).
Definition x_num := get_num_frames.

Fixpoint split_frames (x : list N) (log : list logent) : list (list N) :=
  match log with
  | [] => []
  | (_, d, _) :: rest => firstN x d :: split_frames (skipN x d) rest
  end.
Definition x_frames := split_frames.
Definition x_content (frames : list (list N)) (i : N) : list N := nthN frames i [].
Definition x_dst0 (len : N) : list N := repeat 165 (N.to_nat len).
Definition x_rinit := rinit.
Definition x_read (frames : list (list N)) (t : seek_table) :=
  seekable_decompress xxh64 (x_content frames) sk_BUFF sk_NOPROGRESS_MAX t true.
Definition x_read_frame (frames : list (list N)) (t : seek_table) :=
  seekable_decompress_frame xxh64 (x_content frames) sk_BUFF sk_NOPROGRESS_MAX t true.
Definition x_clear_trace (s : rstate) : rstate :=
  mkR (r_cur s) (r_doff s) (d_frame s) (d_prod s) (d_fin s) (r_acc s) [].

Definition x_cinit := c_init.
Definition x_compress := c_compress xxh64.
Definition x_end_frame := c_end_frame xxh64.
Definition x_end_stream := c_end_stream xxh64.
Definition x_xxh64 := xxh64.

(* round 3: the input side (current code: a failed read forgets the position) *)
Definition x_iinit := iinit.
Definition x_icall (file : list N) := in_call sk_BUFF file false.

Extraction "Extract/out/c20model.ml"
  x_ser x_whist x_load x_table_of x_o2f x_acc x_num x_frames x_dst0 x_rinit x_read x_read_frame x_clear_trace
  x_cinit x_compress x_end_frame x_end_stream x_xxh64 firstN skipN lenN x_iinit x_icall.
