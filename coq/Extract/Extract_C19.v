(* C19 — extraction of the CLI file-protocol model and the sparse writer model. *)
From Coq Require Import NArith List.
From ZV.Cli Require Import FsModel FioModel SparseModel.
Require Import ExtrOcamlBasic.
Extraction "Extract/out/c19model.ml"
  fio_ops eff_srcs run run_h sigint_ops handler_ops dst_of dsel_of frames_loop stdinmark stdoutmark
  sparse_init sparse_open dst_writer_ops
  fwrite_sparse fwrite_sparse_end sparse_ops sparse_frames_ops plain_ops s_run empty_file.
