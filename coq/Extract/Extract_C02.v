(* Extraction of the streaming state machines (C02 / C10), instantiated with the reference decoder R and with the
   tape block-compressor.  ExtrOcamlBasic only: N/Z/positive stay Coq's binary types. *)
From Coq Require Import NArith ZArith List.
From Coq Require Extraction ExtrOcamlBasic.
From ZV.Codec Require Import Bytes.
From ZV.Stream Require Import DStreamModel CStreamModel StreamInst WindowModel StoreStream StreamInstDict DictUseModel DictIdModel.
Extraction Language OCaml.
Extraction "Extract/out/c02model.ml" Rz_new Rdstep Rspec_decode Roneshot Rc_begin Rdcontinue default_dparams find_csize get_fheader
  Tk_new Tkstep Tk_hint cbound w_init w_clear w_update w_chunk Sk_new Skstep
  Rz_new_d Rdstep_d Rspec_decode_d dict_of_bytes dd_new dd_step ds_new ds_step.
