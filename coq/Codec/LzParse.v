(* Valid parses of a SOURCE: the specification-side notion "this list of (literal length, match length, offset) describes
   these bytes", stated on the bytes themselves (not by executing anything), and the block lists built from such parses.
   No proofs in this file. *)
From Coq Require Import NArith ZArith List Bool.
From ZV.Codec Require Import Bytes Fse Huf Block Frame Encode EncodeSeq EncodeLzFrame.
Import ListNotations.
Local Open Scope N_scope.

(* one sequence of a parse: raw offset [s_off] and the offset value [s_ofv] it is coded with (repeat codes 1..3 or offset+3) *)
Record pseq := { s_ll : N; s_ml : N; s_off : N; s_ofv : N }.

(* [full] = dictionary content followed by the source, oldest byte first.  A match of length ml at absolute position P with
   raw offset off repeats the bytes found off positions earlier (overlap allowed) *)
Definition match_ok (full : list N) (P ml off : N) : Prop :=
  1 <= off /\ off <= P /\ P + ml <= lenN full /\
  forall i, i < ml -> nthN full (P + i) 0 = nthN full (P + i - off) 0.

(* the sequences of one block laid over [full] from absolute position P, with repeat-offset history rep; returns nothing:
   it is a predicate.  Pend = position after the last match *)
Fixpoint parse_ok (full : list N) (P : N) (ps : list pseq) (rep : N * N * N) (Pend : N) (rep_end : N * N * N) : Prop :=
  match ps with
  | [] => P = Pend /\ rep = rep_end
  | s :: r =>
    exists rep', resolve_offset (s_ofv s) (s_ll s) rep = Ok (s_off s, rep') /\
                 match_ok full (P + s_ll s) (s_ml s) (s_off s) /\
                 parse_ok full (P + s_ll s + s_ml s) r rep' Pend rep_end
  end.

(* the literals of a block [P, Q): everything not covered by a match, in order *)
Fixpoint literals_of (full : list N) (P : N) (ps : list pseq) (Q : N) : list N :=
  match ps with
  | [] => firstn (N.to_nat (Q - P)) (skipn (N.to_nat P) full)
  | s :: r => firstn (N.to_nat (s_ll s)) (skipn (N.to_nat P) full) ++ literals_of full (P + s_ll s + s_ml s) r Q
  end.

Definition eseq_of (s : pseq) : eseq := {| q_ll := s_ll s; q_ml := s_ml s; q_ofv := s_ofv s |}.

(* a compressed block described on the source: it covers [P, Q) of [full] with the parse ps *)
Definition lz_block (full : list N) (P Q : N) (ps : list pseq) : pblock :=
  PLz (literals_of full P ps Q) (map eseq_of ps).

(* ---------- a whole source cut into blocks ---------- *)
Inductive sblock :=
| SRaw (n : N)                       (* the next n bytes stored raw *)
| SRle (n : N)                       (* the next n bytes are one repeated byte *)
| SLz (n : N) (ps : list pseq).      (* the next n bytes described by the parse ps (+ trailing literals) *)

Definition sb_size (b : sblock) : N := match b with SRaw n => n | SRle n => n | SLz n _ => n end.

Definition slice (full : list N) (P n : N) : list N := firstn (N.to_nat n) (skipn (N.to_nat P) full).

Definition to_pblock (full : list N) (P : N) (b : sblock) : pblock :=
  match b with
  | SRaw n => PRaw (slice full P n)
  | SRle n => PRle (nthN full P 0) n
  | SLz n ps => lz_block full P (P + n) ps
  end.

Fixpoint to_pblocks (full : list N) (P : N) (bs : list sblock) : list pblock :=
  match bs with
  | [] => []
  | b :: t => to_pblock full P b :: to_pblocks full (P + sb_size b) t
  end.

(* the blocks describe [full] from position P on, with repeat-offset history rep *)
Fixpoint sblocks_ok (full : list N) (P : N) (rep : N * N * N) (bs : list sblock) : Prop :=
  match bs with
  | [] => P = lenN full
  | b :: t =>
    P + sb_size b <= lenN full /\
    match b with
    | SRaw _ => sblocks_ok full (P + sb_size b) rep t
    | SRle n => (forall i, i < n -> nthN full (P + i) 0 = nthN full P 0) /\ sblocks_ok full (P + n) rep t
    | SLz n ps => ps <> [] /\ exists Pend rep', parse_ok full P ps rep Pend rep' /\ Pend <= P + n /\ sblocks_ok full (P + n) rep' t
    end
  end.
