(* What the sequence-execution engine of R (exec_seq / copy_match with its mark accelerator) computes, byte for byte:
   the naive one-byte-at-a-time LZ77 copy over the history.  Strong invariant of the output state. *)
From Coq Require Import NArith ZArith List Bool Lia.
From ZV.Codec Require Import Bytes ListLemmas Fse Huf Block LzProofs.
Import ListNotations.
Local Open Scope N_scope.

(* ---------- list-level LZ semantics (history newest first) ---------- *)
Fixpoint copy_naive (n : nat) (off : nat) (h : list N) : list N :=
  match n with
  | O => h
  | S k => copy_naive k off (nth (off - 1) h 0 :: h)
  end.

Lemma copy_naive_add a : forall b off h, copy_naive (a + b) off h = copy_naive b off (copy_naive a off h).
Proof. induction a as [|a IH]; intros b off h; cbn [copy_naive Nat.add]; [reflexivity|apply IH]. Qed.

Lemma copy_naive_length n : forall off h, length (copy_naive n off h) = (n + length h)%nat.
Proof. induction n as [|n IH]; intros off h; cbn [copy_naive]; [reflexivity|]. rewrite IH. cbn [length]. lia. Qed.

Lemma firstn_S_nth {A} (d : A) k : forall l, (k < length l)%nat -> firstn (S k) l = firstn k l ++ [nth k l d].
Proof.
  induction k as [|k IH]; intros l Hl; destruct l as [|x t]; cbn [length] in Hl; try lia; [reflexivity|].
  cbn [firstn nth app]. f_equal. apply IH. lia.
Qed.

Lemma nth_skipn {A} (d : A) m : forall l k, nth k (skipn m l) d = nth (m + k) l d.
Proof.
  induction m as [|m IH]; intros l k; [reflexivity|]. destruct l as [|x t]; [destruct k; reflexivity|].
  cbn [skipn Nat.add nth]. apply IH.
Qed.

(* a non-overlapping copy is a block move *)
Lemma copy_naive_le ml : forall off h, (ml <= off)%nat -> (off <= length h)%nat ->
  copy_naive ml off h = firstn ml (skipn (off - ml) h) ++ h.
Proof.
  induction ml as [|k IH]; intros off h H1 H2; cbn [copy_naive]; [reflexivity|].
  rewrite IH by (cbn [length]; lia).
  replace (off - k)%nat with (S (off - S k)) by lia. cbn [skipn].
  rewrite (firstn_S_nth 0 k) by (rewrite skipn_length; lia).
  rewrite nth_skipn. replace (off - S k + k)%nat with (off - 1)%nat by lia.
  rewrite <- app_assoc. reflexivity.
Qed.

(* ---------- strong invariant: every mark is the suffix it claims to be ---------- *)
Definition marks_suffix (x : xstate) : Prop :=
  Forall (fun m => fst m <= x_avail x /\ snd m = skipn (N.to_nat (x_avail x - fst m)) (x_hist x)) (x_marks x).
Definition sinv (x : xstate) : Prop := inv x /\ marks_suffix x.

Lemma sinv_inv x : sinv x -> inv x. Proof. intros H; exact (proj1 H). Qed.

Lemma add_mark_suffix (marks : list (N * list N)) len (hist : list N) (avail : N) :
  Forall (fun m => fst m <= avail /\ snd m = skipn (N.to_nat (avail - fst m)) hist) marks ->
  len = avail ->
  Forall (fun m => fst m <= avail /\ snd m = skipn (N.to_nat (avail - fst m)) hist) (add_mark marks len hist).
Proof.
  intros Hm ->. unfold add_mark.
  assert (New : avail <= avail /\ hist = skipn (N.to_nat (avail - avail)) hist) by (rewrite N.sub_diag; split; [apply N.le_refl|reflexivity]).
  destruct marks as [|[l s] t].
  - destruct (MARK_GAP <=? avail); constructor; auto.
  - destruct (l + MARK_GAP <=? avail); [constructor; auto|exact Hm].
Qed.

Lemma marks_shift (marks : list (N * list N)) (hist : list N) avail (seg : list N) n : lenN seg = n ->
  Forall (fun m => fst m <= avail /\ snd m = skipn (N.to_nat (avail - fst m)) hist) marks ->
  Forall (fun m => fst m <= avail + n /\ snd m = skipn (N.to_nat (avail + n - fst m)) (seg ++ hist)) marks.
Proof.
  intros Hl H. eapply Forall_impl; [|exact H]. cbn beta. intros [l s] (H1 & H2). cbn [fst snd] in *. split; [lia|].
  rewrite H2. rewrite lenN_length in Hl.
  replace (N.to_nat (avail + n - l)) with (length seg + N.to_nat (avail - l))%nat by lia.
  rewrite skipn_app. rewrite (skipn_all2 seg) by lia. cbn [app].
  replace (length seg + N.to_nat (avail - l) - length seg)%nat with (N.to_nat (avail - l)) by lia. reflexivity.
Qed.

Lemma push_rev_sinv x seg n : sinv x -> lenN seg = n ->
  sinv (push_rev x seg n) /\ x_hist (push_rev x seg n) = seg ++ x_hist x.
Proof.
  intros (Hi & Hm) Hl. destruct (push_rev_inv x seg n Hi Hl) as (I & _).
  split; [split; [exact I|]|].
  - unfold marks_suffix, push_rev; cbn [x_hist x_marks x_avail]. rewrite app_tr_app.
    apply add_mark_suffix; [|reflexivity]. apply marks_shift; assumption.
  - unfold push_rev; cbn [x_hist]. apply app_tr_app.
Qed.

Lemma push_fwd_sinv x seg n : sinv x -> lenN seg = n ->
  sinv (push_fwd x seg n) /\ x_hist (push_fwd x seg n) = rev seg ++ x_hist x.
Proof.
  intros (Hi & Hm) Hl. destruct (push_fwd_inv x seg n Hi Hl) as (I & _).
  split; [split; [exact I|]|].
  - unfold marks_suffix, push_fwd; cbn [x_hist x_marks x_avail]. rewrite rev_append_rev.
    apply add_mark_suffix; [|reflexivity]. apply marks_shift; [rewrite lenN_rev; exact Hl|assumption].
  - unfold push_fwd; cbn [x_hist]. apply rev_append_rev.
Qed.

Lemma find_mark_suffix (marks : list (N * list N)) (hist : list N) avail target : forall best,
  Forall (fun m => fst m <= avail /\ snd m = skipn (N.to_nat (avail - fst m)) hist) marks ->
  (fst best <= avail /\ snd best = skipn (N.to_nat (avail - fst best)) hist) -> target <= fst best ->
  let r := find_mark marks target best in
  fst r <= avail /\ snd r = skipn (N.to_nat (avail - fst r)) hist /\ target <= fst r.
Proof.
  induction marks as [|[l s] t IH]; intros best Hm Hb Ht; cbn [find_mark].
  - destruct Hb; auto.
  - inversion Hm as [|? ? H1 H2]; subst. destruct (N.leb_spec target l).
    + apply IH; auto.
    + destruct Hb; auto.
Qed.

Lemma skipn_skipn' {A} b : forall a (l : list A), skipn a (skipn b l) = skipn (b + a) l.
Proof. induction b as [|b IH]; intros a l; [reflexivity|]. destruct l as [|x t]; [rewrite !skipn_nil; reflexivity|]. cbn [skipn Nat.add]. apply IH. Qed.

Lemma suffix_at_spec x target : sinv x -> target <= x_avail x ->
  suffix_at x target = skipn (N.to_nat (x_avail x - target)) (x_hist x).
Proof.
  intros ((Ha & Hp & _) & Hm) Ht. unfold suffix_at.
  pose proof (find_mark_suffix (x_marks x) (x_hist x) (x_avail x) target (x_avail x, x_hist x) Hm) as F.
  cbn [fst snd] in F. rewrite N.sub_diag in F. specialize (F (conj (N.le_refl _) eq_refl) Ht). cbv zeta in F.
  destruct (find_mark (x_marks x) target (x_avail x, x_hist x)) as [l s]. cbn [fst snd] in F. destruct F as (F1 & F2 & F3).
  rewrite skipN_skipn, F2, skipn_skipn'. f_equal. lia.
Qed.

(* ---------- copy_match computes the naive copy ---------- *)
Lemma copy_match_spec fuel : forall x off ml, sinv x -> 1 <= off -> off <= x_avail x -> ml <= N.of_nat fuel * off ->
  sinv (copy_match fuel x off ml) /\
  x_hist (copy_match fuel x off ml) = copy_naive (N.to_nat ml) (N.to_nat off) (x_hist x).
Proof.
  induction fuel as [|f IH]; intros x off ml Hs Ho1 Ho2 Hml.
  - cbn [copy_match]. assert (ml = 0) by lia. subst ml. split; [exact Hs|reflexivity].
  - cbn [copy_match]. pose proof Hs as ((Ha & Hp & Hk) & Hm).
    destruct (N.leb_spec ml off) as [Hle|Hgt].
    + assert (Hsa : suffix_at x (x_avail x - (off - ml)) = skipn (N.to_nat (off - ml)) (x_hist x)).
      { rewrite suffix_at_spec by (auto; lia). f_equal. lia. }
      rewrite Hsa, takeN_firstn.
      assert (Hl : lenN (firstn (N.to_nat ml) (skipn (N.to_nat (off - ml)) (x_hist x))) = ml).
      { rewrite lenN_length, firstn_length, skipn_length. rewrite lenN_length in Ha. lia. }
      destruct (push_rev_sinv x _ ml Hs Hl) as (S1 & H1). split; [exact S1|]. rewrite H1.
      rewrite copy_naive_le by (rewrite lenN_length in Ha; lia). f_equal. f_equal. f_equal. lia.
    + assert (Hl : lenN (takeN off (x_hist x)) = off).
      { rewrite takeN_firstn, lenN_length, firstn_length. rewrite lenN_length in Ha. lia. }
      destruct (push_rev_sinv x _ off Hs Hl) as (S1 & H1).
      destruct (push_rev_inv x _ off (conj Ha (conj Hp Hk)) Hl) as (_ & _ & A1 & _).
      destruct (IH (push_rev x (takeN off (x_hist x)) off) off (ml - off) S1 Ho1 ltac:(lia) ltac:(lia)) as (S2 & H2).
      split; [exact S2|]. rewrite H2, H1.
      replace (N.to_nat ml) with (N.to_nat off + N.to_nat (ml - off))%nat by lia.
      rewrite copy_naive_add. f_equal.
      rewrite copy_naive_le by (rewrite lenN_length in Ha; lia). rewrite Nat.sub_diag. cbn [skipn].
      rewrite takeN_firstn. reflexivity.
Qed.

(* ---------- one sequence, a sequence list ---------- *)
Definition lz_step (h : list N) (lits : list N) (ll ml off : N) : list N * list N :=
  (copy_naive (N.to_nat ml) (N.to_nat off) (rev (firstn (N.to_nat ll) lits) ++ h), skipn (N.to_nat ll) lits).

Local Opaque copy_match push_fwd push_rev.

Lemma exec_seq_spec strict window blockMax x lits ll ml off x' lits' :
  sinv x -> exec_seq strict window blockMax x lits ll ml off = Ok (x', lits') ->
  sinv x' /\ (x_hist x', lits') = lz_step (x_hist x) lits ll ml off.
Proof.
  intros Hs H. unfold exec_seq in H.
  inv_bind_as H as [la lb] Hsp. apply of_opt_Ok in Hsp. pose proof Hsp as Hsp2. apply splitN_Some in Hsp. destruct Hsp as (El & Ell).
  rewrite splitN_spec in Hsp2. destruct (ll <=? lenN lits); [|discriminate]. injection Hsp2 as E1 E2.
  cbn [fst snd] in H. inv_bind_as H as [] Hoff. apply guard_Ok in Hoff. inv_bind_as H as [] Hblk.
  injection H as Hx Hl. subst x' lits'.
  destruct (push_fwd_sinv x la ll Hs Ell) as (S1 & H1).
  destruct (push_fwd_inv x la ll (sinv_inv x Hs) Ell) as (_ & _ & A1 & _).
  unfold offset_ok in Hoff. apply andb_true_iff in Hoff. destruct Hoff as (O1 & O2). apply andb_true_iff in O2. destruct O2 as (O2 & _).
  apply N.leb_le in O1. apply N.leb_le in O2.
  assert (Hfuel : ml <= N.of_nat (S (N.to_nat (ml / off))) * off).
  { rewrite Nat2N.inj_succ, N2Nat.id. pose proof (N.div_mod ml off ltac:(lia)). pose proof (N.mod_lt ml off ltac:(lia)). nia. }
  destruct (copy_match_spec _ (push_fwd x la ll) off ml S1 O1 O2 Hfuel) as (S2 & H2).
  split; [exact S2|]. unfold lz_step. rewrite H2, H1, <- E1, <- E2. reflexivity.
Qed.
