(* Characterising lemmas: the tail-recursive / N-indexed helpers of Bytes.v are the standard list functions. *)
From Coq Require Import NArith ZArith List Bool Lia PeanoNat.
From ZV.Codec Require Import Bytes.
Import ListNotations.
Local Open Scope N_scope.

Lemma to_nat_succ_pred k : k <> 0 -> N.to_nat k = S (N.to_nat (N.pred k)).
Proof. intros H. rewrite N2Nat.inj_pred. destruct (N.to_nat k) eqn:E; [|reflexivity]. lia. Qed.

Lemma lenN_acc_length {A} (l : list A) acc : lenN_acc l acc = acc + N.of_nat (length l).
Proof.
  revert acc; induction l as [|x t IH]; intros acc; cbn [lenN_acc length].
  - rewrite N.add_0_r. reflexivity.
  - rewrite IH. lia.
Qed.
Lemma lenN_length {A} (l : list A) : lenN l = N.of_nat (length l).
Proof. unfold lenN. rewrite lenN_acc_length. reflexivity. Qed.
Lemma lenN_nil {A} : lenN (@nil A) = 0. Proof. reflexivity. Qed.
Lemma lenN_cons {A} (x : A) l : lenN (x :: l) = 1 + lenN l.
Proof. rewrite !lenN_length. cbn [length]. lia. Qed.
Lemma lenN_app {A} (a b : list A) : lenN (a ++ b) = lenN a + lenN b.
Proof. rewrite !lenN_length, app_length. lia. Qed.
Lemma lenN_rev {A} (a : list A) : lenN (rev a) = lenN a.
Proof. rewrite !lenN_length, rev_length. reflexivity. Qed.

Lemma rev'_rev {A} (l : list A) : rev' l = rev l.
Proof. unfold rev'. rewrite rev_append_rev, app_nil_r. reflexivity. Qed.
Lemma rev_app_spec {A} (l acc : list A) : rev_app l acc = rev l ++ acc.
Proof. unfold rev_app. apply rev_append_rev. Qed.
Lemma app_tr_app {A} (a b : list A) : app_tr a b = a ++ b.
Proof. unfold app_tr. rewrite rev_append_rev, rev'_rev, rev_involutive. reflexivity. Qed.

Lemma take_rev_spec {A} k (l acc : list A) : take_rev k l acc = rev (firstn k l) ++ acc.
Proof.
  revert l acc; induction k as [|k IH]; intros l acc; cbn [take_rev firstn]; [reflexivity|].
  destruct l as [|x t]; [reflexivity|]. rewrite IH. cbn [rev]. rewrite <- app_assoc. reflexivity.
Qed.
Lemma take_firstn {A} k (l : list A) : take k l = firstn k l.
Proof. unfold take. rewrite rev'_rev, take_rev_spec, app_nil_r, rev_involutive. reflexivity. Qed.

Lemma splitn_acc_spec {A} k (l acc : list A) :
  splitn_acc k l acc = if (k <=? length l)%nat then Some (rev acc ++ firstn k l, skipn k l) else None.
Proof.
  revert l acc; induction k as [|k IH]; intros l acc; cbn [splitn_acc].
  - cbn. rewrite rev'_rev, app_nil_r. reflexivity.
  - destruct l as [|x t]; [reflexivity|]. rewrite IH. cbn [length firstn skipn rev].
    change (S k <=? S (length t))%nat with (k <=? length t)%nat.
    destruct (k <=? length t)%nat; [|reflexivity]. rewrite <- app_assoc. reflexivity.
Qed.
Lemma splitn_spec {A} k (l : list A) :
  splitn k l = if (k <=? length l)%nat then Some (firstn k l, skipn k l) else None.
Proof. unfold splitn. rewrite splitn_acc_spec. reflexivity. Qed.

Lemma takeN_rev_spec {A} (l : list A) k acc : takeN_rev l k acc = rev (firstn (N.to_nat k) l) ++ acc.
Proof.
  revert k acc; induction l as [|x t IH]; intros k acc; cbn [takeN_rev].
  - destruct (N.eqb_spec k 0) as [->|H]; [reflexivity|]. rewrite firstn_nil. reflexivity.
  - destruct (N.eqb_spec k 0) as [->|H]; [reflexivity|].
    rewrite IH, (to_nat_succ_pred k H). cbn [firstn rev]. rewrite <- app_assoc. reflexivity.
Qed.
Lemma takeN_firstn {A} k (l : list A) : takeN k l = firstn (N.to_nat k) l.
Proof. unfold takeN. rewrite rev'_rev, takeN_rev_spec, app_nil_r, rev_involutive. reflexivity. Qed.

Lemma skipN_skipn {A} (l : list A) k : skipN l k = skipn (N.to_nat k) l.
Proof.
  revert k; induction l as [|x t IH]; intros k; cbn [skipN].
  - destruct (N.eqb_spec k 0) as [->|H]; [reflexivity|]. rewrite skipn_nil. reflexivity.
  - destruct (N.eqb_spec k 0) as [->|H]; [reflexivity|].
    rewrite IH, (to_nat_succ_pred k H). reflexivity.
Qed.

Lemma splitN_acc_spec {A} (l : list A) k acc :
  splitN_acc l k acc = if k <=? lenN l then Some (rev acc ++ firstn (N.to_nat k) l, skipn (N.to_nat k) l) else None.
Proof.
  revert k acc; induction l as [|x t IH]; intros k acc; cbn [splitN_acc].
  - destruct (N.eqb_spec k 0) as [->|H].
    + change (N.to_nat 0) with O. cbn [firstn skipn]. rewrite rev'_rev, app_nil_r. reflexivity.
    + rewrite lenN_nil. destruct (N.leb_spec k 0); [lia|reflexivity].
  - destruct (N.eqb_spec k 0) as [->|H].
    + change (N.to_nat 0) with O. cbn [firstn skipn]. rewrite rev'_rev, app_nil_r.
      destruct (N.leb_spec 0 (lenN (x :: t))); [reflexivity|lia].
    + rewrite IH, lenN_cons, (to_nat_succ_pred k H). cbn [firstn skipn rev].
      destruct (N.leb_spec (N.pred k) (lenN t)); destruct (N.leb_spec k (1 + lenN t)); try lia; [|reflexivity].
      rewrite <- app_assoc. reflexivity.
Qed.
Lemma splitN_spec {A} k (l : list A) :
  splitN k l = if k <=? lenN l then Some (firstn (N.to_nat k) l, skipn (N.to_nat k) l) else None.
Proof. unfold splitN. rewrite splitN_acc_spec. reflexivity. Qed.

Lemma splitN_Some {A} k (l a b : list A) : splitN k l = Some (a, b) -> l = a ++ b /\ lenN a = k.
Proof.
  rewrite splitN_spec. destruct (N.leb_spec k (lenN l)) as [H|H]; [|discriminate].
  intros E. inversion E; subst. split; [symmetry; apply firstn_skipn|].
  rewrite lenN_length, firstn_length. rewrite lenN_length in H. lia.
Qed.

Lemma repeatN_spec {A} (x : A) n acc : repeatN x n acc = repeat x (N.to_nat n) ++ acc.
Proof.
  unfold repeatN. rewrite N2Nat.inj_iter. induction (N.to_nat n) as [|k IH]; [reflexivity|].
  change (Nat.iter (S k) (cons x) acc) with (x :: Nat.iter k (cons x) acc). rewrite IH. reflexivity.
Qed.
Lemma lenN_repeatN {A} (x : A) n acc : lenN (repeatN x n acc) = n + lenN acc.
Proof. rewrite repeatN_spec, lenN_app, lenN_length, repeat_length. lia. Qed.

Lemma lenN_firstn_le {A} k (l : list A) : k <= lenN l -> lenN (firstn (N.to_nat k) l) = k.
Proof. intros H. rewrite lenN_length in *. rewrite firstn_length. lia. Qed.
Lemma lenN_skipn {A} k (l : list A) : lenN (skipn (N.to_nat k) l) = lenN l - k.
Proof. rewrite !lenN_length, skipn_length. lia. Qed.
