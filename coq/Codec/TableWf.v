(* Shape of the decoding tables built from normalised counts: 2^log cells. *)
From Coq Require Import NArith ZArith List Bool Lia.
From ZV.Codec Require Import Bytes ListLemmas Fse Huf Block LzProofs EncodeProofs EncodeSeq EncodeSeqProofs.
Import ListNotations.
Local Open Scope N_scope.

Lemma upd_length {A} (l : list A) : forall i v, length (upd l i v) = length l.
Proof. induction l as [|x t IH]; intros [|i] v; cbn [upd length]; try reflexivity. rewrite IH. reflexivity. Qed.

Lemma place_low_length counts : forall sym high tbl, length (snd (place_low counts sym high tbl)) = length tbl.
Proof.
  induction counts as [|c t IH]; intros sym high tbl; cbn [place_low]; [reflexivity|].
  destruct (Z.eqb c (-1)); rewrite IH; [apply upd_length|reflexivity].
Qed.

Lemma spread_one_length n : forall sym pos step mask high tbl, length (snd (spread_one n sym pos step mask high tbl)) = length tbl.
Proof. induction n as [|n IH]; intros; cbn [spread_one]; [reflexivity|]. rewrite IH. apply upd_length. Qed.

Lemma spread_length counts : forall sym pos step mask high tbl, length (snd (spread counts sym pos step mask high tbl)) = length tbl.
Proof.
  induction counts as [|c t IH]; intros sym pos step mask high tbl; cbn [spread]; [reflexivity|].
  destruct (0 <? c)%Z; [|apply IH].
  pose proof (spread_one_length (Z.to_nat c) sym pos step mask high tbl) as H.
  destruct (spread_one (Z.to_nat c) sym pos step mask high tbl) as [pos' tbl']. cbn [snd] in H. rewrite IH. exact H.
Qed.

Lemma fill_cells_length syms : forall next log size acc, length (fill_cells syms next log size acc) = (length syms + length acc)%nat.
Proof.
  induction syms as [|s t IH]; intros next log size acc; cbn [fill_cells].
  - rewrite rev'_rev, rev_length. reflexivity.
  - rewrite IH. cbn [length]. lia.
Qed.

Theorem build_dtable_wf log counts t : build_dtable log counts = Ok t -> table_wf t /\ ft_log t = log.
Proof.
  unfold build_dtable. intros H. inv_bind_as H as [] Hg.
  pose proof (place_low_length counts 0 (pow2 log - 1) (repeatN 0 (pow2 log) [])) as L1.
  destruct (place_low counts 0 (pow2 log - 1) (repeatN 0 (pow2 log) [])) as [high tbl1]. cbn [snd] in L1.
  pose proof (spread_length counts 0 0 (N.shiftr (pow2 log) 1 + N.shiftr (pow2 log) 3 + 3) (pow2 log - 1) high tbl1) as L2.
  destruct (spread counts 0 0 (N.shiftr (pow2 log) 1 + N.shiftr (pow2 log) 3 + 3) (pow2 log - 1) high tbl1) as [pos tbl2]. cbn [snd] in L2.
  inv_bind_as H as [] Hp. injection H as <-. unfold table_wf. cbn [ft_cells ft_log]. split; [|reflexivity].
  rewrite lenN_length, fill_cells_length, L2, L1. cbn [length]. rewrite Nat.add_0_r, <- lenN_length, lenN_repeatN, lenN_nil. lia.
Qed.
