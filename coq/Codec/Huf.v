(* Huffman: tree description (direct or FSE-compressed weights), canonical code, stream decoding.
   Written from doc/zstd_compression_format.md ("Huffman Coding").  Model only. *)
From Coq Require Import NArith ZArith List Bool.
From ZV.Codec Require Import Bytes Fse.
Import ListNotations.
Local Open Scope N_scope.

(* ---------- weights ---------- *)
Fixpoint direct_weights (n : nat) (src : bytes) : option (list N) :=
  match n with
  | O => Some []
  | S O => match src with b :: _ => Some [N.shiftr b 4] | [] => None end
  | S (S n') => match src with
                | b :: t => match direct_weights n' t with
                            | Some l => Some (N.shiftr b 4 :: N.land b 15 :: l)
                            | None => None
                            end
                | [] => None
                end
  end.

(* two interleaved FSE states, bitstream read backwards, until the stream is exhausted *)
Fixpoint fse_weights_loop (fuel : nat) (t : fse_table) (st1 st2 : N) (s : list bool) (acc : list N) : res (list N) :=
  match fuel with
  | O => Err Eformat 200          (* more than 255 weights *)
  | S f =>
    let acc1 := fse_peek t st1 :: acc in
    match fse_update t st1 s with
    | None => Ok (rev' (fse_peek t st2 :: acc1))
    | Some (st1', s1) =>
      let acc2 := fse_peek t st2 :: acc1 in
      match fse_update t st2 s1 with
      | None => Ok (rev' (fse_peek t st1' :: acc2))
      | Some (st2', s2) => fse_weights_loop f t st1' st2' s2 acc2
      end
    end
  end.

Definition fse_weights (src : bytes) : res (list N) :=
  do r <- read_ncount 255 6 src;
  let '(log, counts, used) := r in
  do t <- build_dtable log counts;
  let body := skipN src used in
  do s0 <- of_opt (rbits_open body) Eformat 201;
  do r1 <- of_opt (fse_init t s0) Eformat 202;
  let '(st1, s1) := r1 in
  do r2 <- of_opt (fse_init t s1) Eformat 203;
  let '(st2, s2) := r2 in
  fse_weights_loop 130 t st1 st2 s2 [].

Definition weight_sum (ws : list N) : N :=
  fold_left (fun a w => a + (if w =? 0 then 0 else pow2 (w - 1))) ws 0.

(* returns (all weights incl. the implied last one, tableLog, header bytes consumed) *)
Definition read_huf_weights (maxLog : N) (src : bytes) : res (list N * N * N) :=
  match src with
  | [] => Err Etrunc 210
  | hb :: rest =>
    do r <- (if 128 <=? hb then
               let n := hb - 127 in
               do ws <- of_opt (direct_weights (N.to_nat n) rest) Etrunc 211;
               Ok (ws, (n + 1) / 2 + 1)
             else
               do sp <- of_opt (splitN hb rest) Etrunc 212;
               do ws <- fse_weights (fst sp);
               Ok (ws, hb + 1));
    let '(ws, used) := r in
    check (forallb (fun w => w <=? maxLog) ws) else Eformat @ 213;
    check (lenN ws <=? 255) else Eformat @ 214;
    let total := weight_sum ws in
    check (negb (total =? 0)) else Eformat @ 215;
    let log := N.log2 total + 1 in
    check (log <=? maxLog) else Eformat @ 216;
    let rest := pow2 log - total in
    check (pow2 (N.log2 rest) =? rest) else Eformat @ 217;
    let last := N.log2 rest + 1 in
    let all := ws ++ [last] in
    let n1 := lenN (filter (fun w => w =? 1) all) in
    check (andb (2 <=? n1) (N.even n1)) else Eformat @ 218;
    Ok (all, log, used)
  end.

(* ---------- canonical prefix code as a tree ---------- *)
Inductive htree := HLeaf (sym : N) | HNode (l r : htree) | HBad.

(* cells of the implicit decoding table in index order: (symbol, nbBits), each spanning 2^(weight-1) indices *)
Fixpoint syms_of_weight (ws : list N) (w sym : N) : list N :=
  match ws with
  | [] => []
  | x :: t => if x =? w then sym :: syms_of_weight t w (sym + 1) else syms_of_weight t w (sym + 1)
  end.

(* runs: list of (symbol, nbBits, span) in table order: weight 1 first (longest codes) *)
Fixpoint runs_from (fuel : nat) (ws : list N) (w log : N) : list (N * N * N) :=
  match fuel with
  | O => []
  | S f => if log <? w then []
           else map (fun s => (s, log + 1 - w, pow2 (w - 1))) (syms_of_weight ws w 0)
                ++ runs_from f ws (w + 1) log
  end.

(* build the tree for the index range of size 2^k (k = remaining depth) from the run list;
   returns the tree and the unconsumed runs *)
Fixpoint build_tree (k : nat) (runs : list (N * N * N)) : htree * list (N * N * N) :=
  match runs with
  | [] => (HBad, [])
  | (s, nb, span) :: rest =>
    match k with
    | O => (HLeaf s, if span =? 1 then rest else (s, nb, span - 1) :: rest)
    | S k' =>
      if pow2 (N.of_nat k) <=? span
      then (HLeaf s, if span =? pow2 (N.of_nat k) then rest else (s, nb, span - pow2 (N.of_nat k)) :: rest)
      else let '(l, r1) := build_tree k' runs in
           let '(r, r2) := build_tree k' r1 in
           (HNode l r, r2)
    end
  end.

Definition huf_tree (ws : list N) (log : N) : htree :=
  fst (build_tree (N.to_nat log) (runs_from 16 ws 1 log)).

Record huf_table := { h_log : N; h_tree : htree; h_weights : list N }.

Definition read_huf_table (maxLog : N) (src : bytes) : res (huf_table * N) :=
  do r <- read_huf_weights maxLog src;
  let '(ws, log, used) := r in
  Ok ({| h_log := log; h_tree := huf_tree ws log; h_weights := ws |}, used).

(* ---------- stream decoding ---------- *)
Fixpoint huf_sym (t : htree) (s : list bool) : option (N * list bool) :=
  match t with
  | HLeaf x => Some (x, s)
  | HBad => None
  | HNode l r => match s with
                 | [] => None
                 | false :: s' => huf_sym l s'
                 | true :: s' => huf_sym r s'
                 end
  end.

Fixpoint huf_syms (n : nat) (t : htree) (s : list bool) (acc : list N) : option (list N * list bool) :=
  match n with
  | O => Some (acc, s)
  | S n' => match huf_sym t s with
            | Some (x, s') => huf_syms n' t s' (x :: acc)
            | None => None
            end
  end.

(* decode exactly n symbols from one backward stream; the stream must be consumed exactly.
   Result is prepended in REVERSE order onto acc (acc holds earlier literals, newest first). *)
Definition huf_stream (t : htree) (n : N) (src : bytes) (acc : list N) : res (list N) :=
  do s0 <- of_opt (rbits_open src) Eformat 220;
  do r <- of_opt (huf_syms (N.to_nat n) t s0 acc) Eformat 221;
  let '(out, s') := r in
  check (match s' with [] => true | _ => false end) else Eformat @ 222;
  Ok out.

Definition huf_decode1 (t : htree) (n : N) (src : bytes) : res (list N) :=
  do r <- huf_stream t n src []; Ok (rev' r).

Definition huf_decode4 (t : htree) (n : N) (src : bytes) : res (list N) :=
  check (6 <=? n) else Eformat @ 230;
  check (10 <=? lenN src) else Eformat @ 231;
  do h <- of_opt (splitn 6 src) Etrunc 232;
  let '(jt, body) := h in
  let l1 := le_val (firstn 2 jt) in
  let l2 := le_val (firstn 2 (skipn 2 jt)) in
  let l3 := le_val (skipn 4 jt) in
  let seg := (n + 3) / 4 in
  check (3 * seg <=? n) else Eformat @ 233;
  do a <- of_opt (splitN l1 body) Eformat 234;
  do b <- of_opt (splitN l2 (snd a)) Eformat 235;
  do c <- of_opt (splitN l3 (snd b)) Eformat 236;
  do o1 <- huf_stream t seg (fst a) [];
  do o2 <- huf_stream t seg (fst b) o1;
  do o3 <- huf_stream t seg (fst c) o2;
  do o4 <- huf_stream t (n - 3 * seg) (snd c) o3;
  Ok (rev' o4).
