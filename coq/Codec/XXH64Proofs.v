(* XXH64: the streaming interface (reset / update* / digest) computes the one-shot hash of the concatenation,
   whatever the chunking. *)
From Coq Require Import NArith Arith List Lia.
From ZV.Codec Require Import Bytes ListLemmas XXH64.
Import ListNotations.
Local Open Scope N_scope.

Definition stripe (v1 v2 v3 v4 : N) (l : bytes) : N * N * N * N :=
  (xround v1 (le_val (firstn 8 l)), xround v2 (le_val (firstn 8 (skipn 8 l))),
   xround v3 (le_val (firstn 8 (skipn 16 l))), xround v4 (le_val (firstn 8 (skipn 24 l)))).

Lemma xstripes_short v1 v2 v3 v4 l : (length l < 32)%nat -> xstripes v1 v2 v3 v4 l = (v1, v2, v3, v4, l).
Proof.
  intros H. do 32 (destruct l as [|? l]; [reflexivity|]). cbn [length] in H. lia.
Qed.

Lemma xstripes_long v1 v2 v3 v4 l : (32 <= length l)%nat ->
  xstripes v1 v2 v3 v4 l = let '(a, b, c, d) := stripe v1 v2 v3 v4 l in xstripes a b c d (skipn 32 l).
Proof.
  intros H. do 32 (destruct l as [|? l]; [cbn [length] in H; lia|]). reflexivity.
Qed.

Lemma xstripes_rest_short : forall n v1 v2 v3 v4 l, (length l <= n)%nat ->
  (length (snd (xstripes v1 v2 v3 v4 l)) < 32)%nat.
Proof.
  induction n as [|n IH]; intros v1 v2 v3 v4 l Hl.
  - destruct l; [cbn; lia|cbn [length] in Hl; lia].
  - destruct (Nat.lt_ge_cases (length l) 32) as [Hs|Hg].
    + rewrite xstripes_short by exact Hs. exact Hs.
    + rewrite xstripes_long by exact Hg. destruct (stripe v1 v2 v3 v4 l) as [[[a b] c] d].
      apply IH. rewrite skipn_length. lia.
Qed.

(* processing l ++ m = processing l, then continuing with what l left over followed by m *)
Lemma xstripes_app : forall n v1 v2 v3 v4 l m, (length l <= n)%nat ->
  xstripes v1 v2 v3 v4 (l ++ m) =
  let '(a, b, c, d, r) := xstripes v1 v2 v3 v4 l in xstripes a b c d (r ++ m).
Proof.
  induction n as [|n IH]; intros v1 v2 v3 v4 l m Hl.
  - destruct l; [reflexivity|cbn [length] in Hl; lia].
  - destruct (Nat.lt_ge_cases (length l) 32) as [Hs|Hg].
    + rewrite (xstripes_short v1 v2 v3 v4 l Hs). reflexivity.
    + rewrite (xstripes_long v1 v2 v3 v4 l Hg), (xstripes_long v1 v2 v3 v4 (l ++ m)) by (rewrite app_length; lia).
      assert (Es : stripe v1 v2 v3 v4 (l ++ m) = stripe v1 v2 v3 v4 l).
      { unfold stripe. rewrite !skipn_app, !firstn_app.
        repeat match goal with |- context [(?a - length ?x)%nat] => replace (a - length x)%nat with 0%nat by (try rewrite skipn_length; lia) end.
        cbn [skipn firstn]. rewrite !app_nil_r. reflexivity. }
      rewrite Es. destruct (stripe v1 v2 v3 v4 l) as [[[a b] c] d].
      rewrite skipn_app. replace (32 - length l)%nat with 0%nat by lia. change (skipn 0 m) with m.
      apply IH. rewrite skipn_length. lia.
Qed.

Definition xwf (s : xstate) : Prop := (length (xbuf s) < 32)%nat.

Lemma xreset_wf seed : xwf (xreset seed). Proof. unfold xwf; cbn; lia. Qed.
Lemma xupdate_wf s d : xwf (xupdate s d).
Proof.
  unfold xwf, xupdate. pose proof (xstripes_rest_short (length (xbuf s ++ d)) (xv1 s) (xv2 s) (xv3 s) (xv4 s) (xbuf s ++ d) (le_n _)) as H.
  destruct (xstripes (xv1 s) (xv2 s) (xv3 s) (xv4 s) (xbuf s ++ d)) as [[[[a b] c] e] r]. exact H.
Qed.

Theorem xupdate_app s a b : xupdate (xupdate s a) b = xupdate s (a ++ b).
Proof.
  unfold xupdate. rewrite app_assoc.
  rewrite (xstripes_app (length (xbuf s ++ a)) (xv1 s) (xv2 s) (xv3 s) (xv4 s) (xbuf s ++ a) b (le_n _)).
  destruct (xstripes (xv1 s) (xv2 s) (xv3 s) (xv4 s) (xbuf s ++ a)) as [[[[v1 v2] v3] v4] r]. cbn [xv1 xv2 xv3 xv4 xbuf xtotal].
  destruct (xstripes v1 v2 v3 v4 (r ++ b)) as [[[[w1 w2] w3] w4] r2]. rewrite lenN_app, N.add_assoc. reflexivity.
Qed.

Lemma xupdate_nil s : xwf s -> xupdate s [] = s.
Proof.
  intros H. unfold xupdate. rewrite app_nil_r, xstripes_short by exact H. destruct s; cbn. rewrite N.add_0_r. reflexivity.
Qed.

(* chunk invariance *)
Theorem xxh64_streaming seed chunks : xdigest (fold_left xupdate chunks (xreset seed)) = xxh64 (concat chunks) seed.
Proof.
  unfold xxh64. f_equal.
  assert (G : forall cs s, xwf s -> fold_left xupdate cs s = xupdate s (concat cs)).
  { induction cs as [|c t IH]; intros s Hs; cbn [fold_left concat].
    - symmetry. apply xupdate_nil. exact Hs.
    - rewrite IH by apply xupdate_wf. apply xupdate_app. }
  apply G. apply xreset_wf.
Qed.
