(* Invariants of the decoder's output state (history, marks, counters) through sequence execution. *)
From Coq Require Import NArith ZArith List Bool Lia.
From ZV.Codec Require Import Bytes ListLemmas Fse Huf Block.
Import ListNotations.
Local Open Scope N_scope.

(* ---- monad inversion ---- *)
Lemma bind_Ok {A B} (r : res A) (f : A -> res B) v : bind r f = Ok v -> exists a, r = Ok a /\ f a = Ok v.
Proof. destruct r as [a|c s]; cbn; [eauto|discriminate]. Qed.
Lemma guard_Ok b c s u : guard b c s = Ok u -> b = true.
Proof. destruct b; cbn; [reflexivity|discriminate]. Qed.
Lemma of_opt_Ok {A} (o : option A) c s a : of_opt o c s = Ok a -> o = Some a.
Proof. destruct o; cbn; [intros E; inversion E; reflexivity|discriminate]. Qed.

Ltac inv_bind H :=
  let a := fresh "a" in let Ha := fresh "Ha" in
  apply bind_Ok in H; destruct H as (a & Ha & H).
Tactic Notation "inv_bind_as" hyp(H) "as" simple_intropattern(a) ident(Ha) :=
  apply bind_Ok in H; destruct H as (a & Ha & H).

(* ---- invariant ---- *)
Definition marks_ok (marks : list (N * list N)) : Prop := Forall (fun m => lenN (snd m) = fst m) marks.
Definition inv (x : xstate) : Prop :=
  x_avail x = lenN (x_hist x) /\ x_pos x <= x_avail x /\ marks_ok (x_marks x).

Lemma add_mark_ok marks len hist : marks_ok marks -> lenN hist = len -> marks_ok (add_mark marks len hist).
Proof.
  intros Hm Hl. unfold add_mark. destruct marks as [|[l s] t].
  - destruct (MARK_GAP <=? len); constructor; auto.
  - destruct (l + MARK_GAP <=? len); [constructor; auto|exact Hm].
Qed.

Lemma push_rev_inv x seg n : inv x -> lenN seg = n ->
  inv (push_rev x seg n) /\ x_pos (push_rev x seg n) = x_pos x + n /\ x_avail (push_rev x seg n) = x_avail x + n
  /\ x_blk (push_rev x seg n) = x_blk x + n.
Proof.
  intros (Ha & Hp & Hm) Hl. unfold push_rev, inv; cbn [x_hist x_marks x_avail x_pos x_blk].
  assert (E : lenN (app_tr seg (x_hist x)) = x_avail x + n) by (rewrite app_tr_app, lenN_app; lia).
  repeat split; try lia.
  apply add_mark_ok; auto.
Qed.

Lemma push_fwd_inv x seg n : inv x -> lenN seg = n ->
  inv (push_fwd x seg n) /\ x_pos (push_fwd x seg n) = x_pos x + n /\ x_avail (push_fwd x seg n) = x_avail x + n
  /\ x_blk (push_fwd x seg n) = x_blk x + n.
Proof.
  intros (Ha & Hp & Hm) Hl. unfold push_fwd, inv; cbn [x_hist x_marks x_avail x_pos x_blk].
  assert (E : lenN (rev_append seg (x_hist x)) = x_avail x + n) by (rewrite rev_append_rev, lenN_app, lenN_rev; lia).
  repeat split; try lia.
  apply add_mark_ok; auto.
Qed.

Lemma find_mark_ok marks target best :
  marks_ok marks -> lenN (snd best) = fst best -> target <= fst best ->
  lenN (snd (find_mark marks target best)) = fst (find_mark marks target best) /\ target <= fst (find_mark marks target best).
Proof.
  revert best; induction marks as [|[l s] t IH]; intros best Hm Hb Ht; cbn [find_mark]; [auto|].
  inversion Hm as [|? ? H1 H2]; subst. cbn [fst snd] in H1.
  destruct (N.leb_spec target l); [|auto].
  apply IH; auto.
Qed.

Lemma suffix_at_len x target : inv x -> target <= x_avail x -> lenN (suffix_at x target) = target.
Proof.
  intros (Ha & Hp & Hm) Ht. unfold suffix_at.
  pose proof (find_mark_ok (x_marks x) target (x_avail x, x_hist x) Hm (eq_sym Ha) Ht) as (H1 & H2).
  destruct (find_mark (x_marks x) target (x_avail x, x_hist x)) as [l s]. cbn [fst snd] in *.
  rewrite skipN_skipn, lenN_skipn. lia.
Qed.

Lemma copy_match_inv fuel : forall x off ml, inv x -> 1 <= off -> off <= x_avail x -> ml <= N.of_nat fuel * off ->
  let x' := copy_match fuel x off ml in
  inv x' /\ x_pos x' = x_pos x + ml /\ x_avail x' = x_avail x + ml /\ x_blk x' = x_blk x + ml.
Proof.
  induction fuel as [|f IH]; intros x off ml Hi Ho Ha Hf; cbn [copy_match]; cbv zeta.
  - assert (ml = 0) by lia. subst. split; [exact Hi|]. repeat split; lia.
  - destruct (N.leb_spec ml off) as [Hle|Hgt].
    + apply push_rev_inv; auto.
      rewrite takeN_firstn. apply lenN_firstn_le.
      rewrite suffix_at_len; auto; lia.
    + destruct (push_rev_inv x (takeN off (x_hist x)) off Hi) as (Hi' & Hp' & Ha' & Hb').
      { rewrite takeN_firstn. apply lenN_firstn_le. destruct Hi as (E & _). lia. }
      specialize (IH (push_rev x (takeN off (x_hist x)) off) off (ml - off) Hi' Ho).
      destruct IH as (I1 & I2 & I3 & I4); [lia|lia|].
      split; [exact I1|]. repeat split; lia.
Qed.

Local Opaque copy_match push_fwd push_rev.
Lemma exec_seq_inv strict window blockMax x lits ll ml off x' lits' :
  inv x -> exec_seq strict window blockMax x lits ll ml off = Ok (x', lits') ->
  inv x' /\ x_pos x' = x_pos x + ll + ml /\ x_avail x' = x_avail x + ll + ml /\ x_blk x' = x_blk x + ll + ml
  /\ x_blk x' <= blockMax /\ lenN lits = ll + lenN lits'.
Proof.
  intros Hi H. unfold exec_seq in H.
  inv_bind H. apply of_opt_Ok in Ha. destruct a as [la lb]. apply splitN_Some in Ha. destruct Ha as (El & Ell).
  inv_bind H. apply guard_Ok in Ha. inv_bind H. apply guard_Ok in Ha0. injection H as Hx Hl. subst x' lits'.
  change (fst (la, lb)) with la in *; change (snd (la, lb)) with lb in *.
  destruct (push_fwd_inv x la ll Hi Ell) as (I1 & P1 & A1 & B1).
  unfold offset_ok in Ha. apply andb_true_iff in Ha. destruct Ha as (Ho1 & Ho2).
  apply andb_true_iff in Ho2. destruct Ho2 as (Ho2 & _).
  apply N.leb_le in Ho1, Ho2, Ha0.
  pose proof (copy_match_inv (S (N.to_nat (ml / off))) (push_fwd x la ll) off ml I1 Ho1 Ho2) as C.
  destruct C as (C1 & C2 & C3 & C4).
  { rewrite Nat2N.inj_succ, N2Nat.id. pose proof (N.div_mod ml off). pose proof (N.mod_lt ml off). nia. }
  split; [exact C1|]. repeat split; try lia.
  rewrite El, lenN_app. lia.
Qed.

Lemma seq_loop_inv n : forall strict window blockMax tll tof tml stll stof stml s rep x lits acc x' lits' rep' sqs,
  inv x -> seq_loop n strict window blockMax tll tof tml stll stof stml s rep x lits acc = Ok (x', lits', rep', sqs) ->
  inv x' /\ x_pos x' + x_blk x = x_pos x + x_blk x'.
Proof.
  induction n as [|n IH]; intros strict window blockMax tll tof tml stll stof stml s rep x lits acc x' lits' rep' sqs Hi H;
    cbn [seq_loop] in H.
  - inv_bind H. injection H as Hx _ _ _. subst x'. split; [exact Hi|lia].
  - inv_bind_as H as [] Hg. inv_bind_as H as r1 Hr1. destruct (ml_info (fse_peek tml stml)) as [mlb mlx].
    inv_bind_as H as r2 Hr2. destruct (ll_info (fse_peek tll stll)) as [llb llx].
    inv_bind_as H as r3 Hr3. inv_bind_as H as [off rep1] Hro.
    inv_bind_as H as [x1 lits1] Hxe.
    apply exec_seq_inv in Hxe; [|exact Hi]. destruct Hxe as (I1 & P1 & _ & B1 & _).
    destruct n as [|n'].
    + apply IH in H; [|exact I1]. destruct H as (I2 & P2). split; [exact I2|lia].
    + inv_bind_as H as u1 Hu1. inv_bind_as H as u2 Hu2. inv_bind_as H as u3 Hu3.
      apply IH in H; [|exact I1]. destruct H as (I2 & P2). split; [exact I2|lia].
Qed.

Local Transparent copy_match push_fwd push_rev.
Lemma exec_seq_offset_ok strict window blockMax x lits ll ml off x' lits' :
  exec_seq strict window blockMax x lits ll ml off = Ok (x', lits') ->
  exists la, splitN ll lits = Some (la, lits') /\ offset_ok strict window (push_fwd x la ll) off = true.
Proof.
  unfold exec_seq. intros H.
  inv_bind_as H as [la lb] Hs. apply of_opt_Ok in Hs.
  inv_bind_as H as [] Hg. apply guard_Ok in Hg. inv_bind_as H as [] Hg2.
  injection H as _ <-. exists la. split; [exact Hs|exact Hg].
Qed.

(* the window rule, spelled out: in strict mode an executed match reaches at most `window` bytes back,
   unless it reaches before the start of the frame (into the dictionary), which is allowed only while
   the frame has produced at most `window` bytes *)
Lemma offset_ok_strict window x off : offset_ok true window x off = true ->
  1 <= off /\ off <= x_avail x /\ (off <= x_pos x -> off <= window) /\ (x_pos x < off -> x_pos x <= window).
Proof.
  unfold offset_ok. intros H. apply andb_true_iff in H. destruct H as (H1 & H).
  apply andb_true_iff in H. destruct H as (H2 & H3). cbn [negb orb] in H3.
  apply N.leb_le in H1, H2. repeat split; try assumption.
  - intros Hle. destruct (N.leb_spec off (x_pos x)); [apply N.leb_le; exact H3|lia].
  - intros Hlt. destruct (N.leb_spec off (x_pos x)); [lia|apply N.leb_le; exact H3].
Qed.
