(* A, fourth part: whole frames whose blocks are given by parses - the LZ compressor model (any block split, any parse):
   raw blocks, RLE blocks, and compressed blocks made by the basic block encoder from (literals, sequences).
   Validity of a parse is a check on numbers and plain lists only.  Model only - no proofs in this file. *)
From Coq Require Import NArith ZArith List Bool.
From ZV.Codec Require Import Bytes Fse Huf Block Frame Encode EncodeSeq.
From ZV.Codec Require LzContent.
Import ListNotations.
Local Open Scope N_scope.

Inductive pblock :=
| PRaw (d : bytes)
| PRle (v n : N)
| PLz (lits : bytes) (qs : list eseq).

(* the format's offset rule on numbers: avail = bytes an offset may reach (dictionary + frame so far), pos = frame bytes so far *)
Definition offset_ok_n (strict : bool) (window avail pos off : N) : bool :=
  andb (1 <=? off) (andb (off <=? avail) (orb (negb strict) (if off <=? pos then off <=? window else pos <=? window))).

(* every sequence of the list can be executed: enough literals, offset inside the reachable history and the window, block size *)
Fixpoint seqs_ok (strict : bool) (window blockMax : N) (qs : list eseq) (rep : N * N * N) (avail pos blk nlits : N) : bool :=
  match qs with
  | [] => true
  | q :: t =>
    match resolve_offset (q_ofv q) (q_ll q) rep with
    | Ok (off, rep') =>
      andb (q_ll q <=? nlits)
       (andb (offset_ok_n strict window (avail + q_ll q) (pos + q_ll q) off)
        (andb (blk + q_ll q + q_ml q <=? blockMax)
              (seqs_ok strict window blockMax t rep' (avail + q_ll q + q_ml q) (pos + q_ll q + q_ml q) (blk + q_ll q + q_ml q) (nlits - q_ll q))))
    | Err _ _ => false
    end
  end.

Definition seq_in_range_b (q : eseq) : bool :=
  andb (q_ll q <? 131072) (andb (3 <=? q_ml q) (andb (q_ml q <? 131075) (andb (1 <=? q_ofv q) (q_ofv q <? pow2 29)))).

(* list-level state between blocks: history (newest first), repeat offsets, frame position *)
Record lzstate := { z_hist : list N; z_rep : N * N * N; z_pos : N }.

(* one block: its bytes-on-the-wire form and the state after it; None when the block is not valid in this state *)
Definition pblock_step (strict : bool) (window blockMax : N) (z : lzstate) (b : pblock) : option (eblock * lzstate) :=
  match b with
  | PRaw d => if lenN d <=? blockMax
              then Some (EBRaw d, {| z_hist := rev_append d (z_hist z); z_rep := z_rep z; z_pos := z_pos z + lenN d |}) else None
  | PRle v n => if n <=? blockMax
                then Some (EBRle v n, {| z_hist := repeatN v n (z_hist z); z_rep := z_rep z; z_pos := z_pos z + n |}) else None
  | PLz lits qs =>
    match qs with
    | [] => None     (* a compressed block without sequences is not produced by this model *)
    | _ =>
      if andb (lenN lits <=? blockMax) (andb (lenN qs <? 98048) (andb (forallb seq_in_range_b qs)
              (seqs_ok strict window blockMax qs (z_rep z) (lenN (z_hist z)) (z_pos z) 0 (lenN lits))))
      then match lz_exec qs (z_rep z) (z_hist z) lits, enc_cblock_basic lits qs with
           | Some (h1, lits1, rep1), Some payload =>
             let h2 := rev_append lits1 h1 in
             let added := lenN h2 - lenN (z_hist z) in
             if andb (added <=? blockMax) (lenN payload <=? blockMax)
             then Some (EBComp payload (rev' (takeN added h2)), {| z_hist := h2; z_rep := rep1; z_pos := z_pos z + added |})
             else None
           | _, _ => None
           end
      else None
    end
  end.

Fixpoint pblocks_run (strict : bool) (window blockMax : N) (z : lzstate) (bs : list pblock) : option (list eblock * lzstate) :=
  match bs with
  | [] => Some ([], z)
  | b :: t => match pblock_step strict window blockMax z b with
              | None => None
              | Some (eb, z1) => match pblocks_run strict window blockMax z1 t with
                                 | None => None
                                 | Some (ebs, z2) => Some (eb :: ebs, z2)
                                 end
              end
  end.
