(* C06 (round 3) - block-walk model of the LEGACY side of ZSTD_decompressBound / ZSTD_findFrameCompressedSize
   (lib/legacy/zstd_v05.c, zstd_v06.c, zstd_v07.c: ZSTDv0x_findFrameSizeInfoLegacy, ZSTDv0x_frameHeaderSize,
   ZSTDv0x_getcBlockSize) and of the block loop of the single-call legacy frame decoders
   (ZSTDv05_decompress_continueDCtx, ZSTDv06_decompressFrame, ZSTDv07_decompressFrame) at the same level:
   block payloads are opaque, what a compressed block regenerates is an oracle, dst is ample.
   State of the code modelled: after f23db1d (a raw block - v0.7: an RLE block too - counts for its real size in the
   bound) and 39f3df0 + 2e38602 (a block of ANY type that regenerates more than 128 KiB is refused by the decoders);
   [checked = false] is the decoder before 39f3df0.   Model only: NO proofs in this file. *)
From Coq Require Import ZArith List Bool.
From ZV.Codec Require Import FrameInspect.
Import ListNotations.
Local Open Scope Z_scope.

Definition LG_BLOCKSIZE : Z := 131072.      (* BLOCKSIZE (v0.5), ZSTDv06_BLOCKSIZE_MAX, ZSTDv07_BLOCKSIZE_ABSOLUTEMAX *)
Definition LG_MAGIC (ver : Z) : Z := 4247762208 + ver.   (* 0xFD2FB520 + version: ZSTDv05/06/07_MAGICNUMBER *)

(* ZSTDv05_frameHeaderSize_min, ZSTDv06_frameHeaderSize, ZSTDv07_frameHeaderSize *)
Definition lg_header_size (ver : Z) (src : list Z) : option Z :=
  if len src <? 5 then None
  else
    let fhd := nth 4 src 0 in
    if ver =? 5 then Some 5
    else if ver =? 6 then Some (5 + nth (Z.to_nat (fhd / 64)) [0; 1; 2; 8] 0)
    else
      let direct := (fhd / 32) mod 2 in
      let fcs := nth (Z.to_nat (fhd / 64)) [0; 2; 4; 8] 0 in
      Some (5 + (1 - direct) + nth (Z.to_nat (fhd mod 4)) [0; 1; 2; 4] 0 + fcs
            + (if (direct =? 1) && (fcs =? 0) then 1 else 0)).

(* ZSTDv0x_getcBlockSize: (block type, cBlockSize = bytes that follow the 3-byte header, the 19-bit size field) *)
Definition lg_block (src : list Z) : option (Z * Z * Z) :=
  match src with
  | b0 :: b1 :: b2 :: _ =>
      let ty := (b0 / 64) mod 4 in                 (* first header byte >> 6 *)
      let sz := b2 + 256 * b1 + 65536 * (b0 mod 8) in
      Some (ty, (if ty =? 3 then 0 else if ty =? 2 then 1 else sz), sz)
  | _ => None
  end.

(* the block loop of ZSTDv0x_findFrameSizeInfoLegacy: (compressed size, decompressed bound).
   v0.5 / v0.6 leave the loop on ANY block whose cBlockSize is 0 ("if (cBlockSize == 0) break;  bt_end"),
   v0.7 on bt_end only.  Fuel = a list (callers pass 0 :: body: every turn consumes at least 3 bytes). *)
Fixpoint lg_walk (ver : Z) (fuel src : list Z) (consumed bound : Z) : option (Z * Z) :=
  match fuel with
  | [] => None
  | _ :: f =>
    match lg_block src with
    | None => None
    | Some (ty, c, sz) =>
      if (ver =? 7) && (ty =? 3) then Some (consumed + 3, bound)
      else
        match drop_exact src (3 + c) with            (* cBlockSize > remainingSize *)
        | None => None
        | Some rest =>
          if negb (ver =? 7) && (c =? 0) then Some (consumed + 3, bound)
          else
            let regen := if ty =? 1 then c else if (ty =? 2) && (ver =? 7) then sz else 0 in
            lg_walk ver f rest (consumed + 3 + c) (bound + Z.max regen LG_BLOCKSIZE)
        end
    end
  end.

Definition legacy_find (ver : Z) (src : list Z) : option (Z * Z) :=
  if negb (le (firstn 4 src) =? LG_MAGIC ver) then None
  else
    match lg_header_size ver src with
    | None => None
    | Some hs =>
      if negb (ver =? 5) && (len src <? hs + 3) then None
      else match drop_exact src hs with
           | None => None
           | Some body => lg_walk ver (0 :: body) body hs 0
           end
    end.

(* the block loop of the single-call frame decoders.  [regen i c]: what compressed block number i (c bytes) regenerates
   (None: the block decoder reports an error).  [checked]: the test added by 39f3df0. *)
Fixpoint lg_decode (checked : bool) (ver : Z) (regen : nat -> Z -> option Z) (i : nat) (fuel src : list Z) (produced : Z)
  : option Z :=
  match fuel with
  | [] => None
  | _ :: f =>
    match lg_block src with
    | None => None
    | Some (ty, c, sz) =>
      match drop_exact src (3 + c) with
      | None => None
      | Some rest =>
        if ty =? 3 then (if len src =? 3 then Some produced else None)      (* bt_end: "if (remainingSize) return srcSize_wrong" *)
        else if (ty =? 2) && negb (ver =? 7) then None                      (* v0.5 / v0.6: RLE "not yet supported" *)
        else if negb (ver =? 7) && (c =? 0) then Some produced              (* "if (cBlockSize == 0) break;" precedes the error test *)
        else
          let d := if ty =? 0 then regen i c else if ty =? 1 then Some c else Some sz in
          match d with
          | None => None
          | Some r =>
              (* 2e38602: "no block regenerates more than that, whatever its type" (39f3df0 had the test on compressed blocks only) *)
              if checked && (LG_BLOCKSIZE <? r) then None
              else lg_decode checked ver regen (S i) f rest (produced + r)
          end
      end
    end
  end.

(* [hdr_ok]: ZSTDv0x_decodeFrameHeader / getFrameParams accept the header (window, dictionary ID ...) *)
Definition legacy_decode (checked : bool) (ver : Z) (regen : nat -> Z -> option Z) (hdr_ok : bool) (src : list Z) : option Z :=
  if negb hdr_ok then None
  else if negb (le (firstn 4 src) =? LG_MAGIC ver) then None
  else
    match lg_header_size ver src with
    | None => None
    | Some hs =>
      if len src <? hs + 3 then None
      else match drop_exact src hs with
           | None => None
           | Some body => lg_decode checked ver regen O (0 :: body) body 0
           end
    end.

(* the 22-byte v0.7 frame of the finding C06-legacy-bound-oversize-compressed-block *)
Definition lg_finding_frame : list Z :=
  [39; 181; 47; 253; 0; 80;  0; 0; 10;  129; 65; 1; 84; 1; 2; 52; 255; 255; 4;  192; 0; 0].
