(* Base definitions of the reference decoder R: results, bytes, bit lists.
   Model only - no proofs in this file (DESIGN.md section 0). *)
From Coq Require Import NArith ZArith List Bool.
Import ListNotations.
Local Open Scope N_scope.

(* ---- results ---- *)
Inductive eclass := Etrunc | Eformat | Esafety | Eintegrity | Elimit | Edict | Efuel.
Inductive res (A : Type) := Ok (a : A) | Err (c : eclass) (site : N).
Arguments Ok {A} a.
Arguments Err {A} c site.

Definition bind {A B} (r : res A) (f : A -> res B) : res B :=
  match r with Ok a => f a | Err c s => Err c s end.
Notation "'do' x <- r ; k" := (bind r (fun x => k)) (at level 200, x pattern, r at level 100, k at level 200).
Definition guard (b : bool) (c : eclass) (site : N) : res unit := if b then Ok tt else Err c site.
Notation "'check' b 'else' c @ s ; k" := (bind (guard b c s) (fun _ => k)) (at level 200, b at level 100, k at level 200).
Definition of_opt {A} (o : option A) (c : eclass) (site : N) : res A :=
  match o with Some a => Ok a | None => Err c site end.

(* ---- bytes ---- *)
Definition bytes := list N.

Fixpoint le_val (l : bytes) : N :=
  match l with [] => 0 | b :: t => b + 256 * le_val t end.

(* [take_rev k l acc] = rev (first k elements of l) ++ acc  (all of l if shorter) ; tail recursive *)
Fixpoint take_rev {A} (k : nat) (l acc : list A) : list A :=
  match k with
  | O => acc
  | S k' => match l with [] => acc | x :: t => take_rev k' t (x :: acc) end
  end.
(* first k elements, tail recursive (two passes) *)
Definition take {A} (k : nat) (l : list A) : list A := rev' (take_rev k l []).

(* split exactly k elements off the front; None if too short (walks only k cells; tail recursive) *)
Fixpoint splitn_acc {A} (k : nat) (l acc : list A) : option (list A * list A) :=
  match k with
  | O => Some (rev' acc, l)
  | S k' => match l with
            | [] => None
            | x :: t => splitn_acc k' t (x :: acc)
            end
  end.
Definition splitn {A} (k : nat) (l : list A) : option (list A * list A) := splitn_acc k l [].

(* N-indexed variants for data-dependent sizes (structural on the list, never builds a Peano number) *)
Fixpoint splitN_acc {A} (l : list A) (k : N) (acc : list A) : option (list A * list A) :=
  if k =? 0 then Some (rev' acc, l)
  else match l with
       | [] => None
       | x :: t => splitN_acc t (N.pred k) (x :: acc)
       end.
Definition splitN {A} (k : N) (l : list A) : option (list A * list A) := splitN_acc l k [].

(* rev (first k elements of l) ++ acc *)
Fixpoint takeN_rev {A} (l : list A) (k : N) (acc : list A) : list A :=
  if k =? 0 then acc
  else match l with
       | [] => acc
       | x :: t => takeN_rev t (N.pred k) (x :: acc)
       end.
Definition takeN {A} (k : N) (l : list A) : list A := rev' (takeN_rev l k []).

Fixpoint skipN {A} (l : list A) (k : N) : list A :=
  if k =? 0 then l
  else match l with
       | [] => []
       | _ :: t => skipN t (N.pred k)
       end.

(* tail-recursive append *)
Definition app_tr {A} (a b : list A) : list A := rev_append (rev' a) b.

Definition read_le (k : nat) (l : bytes) : option (N * bytes) :=
  match splitn k l with Some (a, b) => Some (le_val a, b) | None => None end.

Fixpoint lenN_acc {A} (l : list A) (acc : N) : N :=
  match l with [] => acc | _ :: t => lenN_acc t (N.succ acc) end.
Definition lenN {A} (l : list A) : N := lenN_acc l 0.

(* n copies of x in front of acc *)
Definition repeatN {A} (x : A) (n : N) (acc : list A) : list A := N.iter n (cons x) acc.

(* tail-recursive reverse-append, used everywhere to keep OCaml stacks flat *)
Definition rev_app {A} (l acc : list A) : list A := rev_append l acc.

(* ---- bits ---- *)
Definition byte_bits_lsb (b : N) : list bool :=
  [N.testbit b 0; N.testbit b 1; N.testbit b 2; N.testbit b 3;
   N.testbit b 4; N.testbit b 5; N.testbit b 6; N.testbit b 7].
Definition byte_bits_msb (b : N) : list bool :=
  [N.testbit b 7; N.testbit b 6; N.testbit b 5; N.testbit b 4;
   N.testbit b 3; N.testbit b 2; N.testbit b 1; N.testbit b 0].

(* forward bitstream (FSE_readNCount): bytes in order, LSB first *)
Fixpoint fbits_acc (l : bytes) (acc : list bool) : list bool :=
  match l with
  | [] => rev' acc
  | b :: t => fbits_acc t (rev_append (byte_bits_lsb b) acc)
  end.
Definition fbits (l : bytes) : list bool := fbits_acc l [].

(* value of a bit list whose first element is the least significant bit *)
Fixpoint bits_val_lsb (l : list bool) : N :=
  match l with [] => 0 | b :: t => (if b then 1 else 0) + 2 * bits_val_lsb t end.
(* value of a bit list whose first element is the most significant bit *)
Fixpoint bits_val_msb_acc (l : list bool) (acc : N) : N :=
  match l with [] => acc | b :: t => bits_val_msb_acc t (2 * acc + (if b then 1 else 0)) end.
Definition bits_val_msb (l : list bool) : N := bits_val_msb_acc l 0.

(* backward bitstream (bitstream.h BIT_DStream): read order = last byte first, MSB first;
   the highest set bit of the last byte is the end marker and is skipped.
   [rbits_raw l] = all bits in read order, including padding and marker. *)
Fixpoint rbits_raw_acc (l : bytes) (acc : list bool) : list bool :=
  match l with
  | [] => acc
  | b :: t => rbits_raw_acc t (byte_bits_msb b ++ acc)
  end.
Definition rbits_raw (l : bytes) : list bool := rbits_raw_acc l [].

Fixpoint drop_to_marker (fuel : nat) (l : list bool) : option (list bool) :=
  match fuel with
  | O => None
  | S f => match l with
           | [] => None
           | true :: t => Some t
           | false :: t => drop_to_marker f t
           end
  end.
(* open a backward stream: None when empty or when the last byte is zero *)
Definition rbits_open (l : bytes) : option (list bool) := drop_to_marker 8 (rbits_raw l).

(* read n bits (strict: None if fewer remain) *)
Definition rread (n : nat) (s : list bool) : option (N * list bool) :=
  match splitn n s with Some (a, b) => Some (bits_val_msb a, b) | None => None end.

(* forward read of n bits, zero padded past the end; returns also how many bits were really available *)
Fixpoint ftake (n : nat) (s : list bool) : list bool * list bool :=
  match n with
  | O => ([], s)
  | S n' => match s with
            | [] => let '(a, b) := ftake n' [] in (false :: a, b)
            | x :: t => let '(a, b) := ftake n' t in (x :: a, b)
            end
  end.

(* ---- list access by N index ---- *)
Definition nthN {A} (l : list A) (i : N) (d : A) : A := nth (N.to_nat i) l d.
Fixpoint nth_opt {A} (l : list A) (i : nat) : option A :=
  match l, i with
  | [], _ => None
  | x :: _, O => Some x
  | _ :: t, S i' => nth_opt t i'
  end.
Fixpoint upd {A} (l : list A) (i : nat) (v : A) : list A :=
  match l, i with
  | [], _ => []
  | _ :: t, O => v :: t
  | x :: t, S i' => x :: upd t i' v
  end.

Definition pow2 (n : N) : N := N.shiftl 1 n.
