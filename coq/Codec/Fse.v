(* FSE: normalized-count header reader, decoding-table construction, decoding steps.
   Written from doc/zstd_compression_format.md ("FSE Table Description", "From normalized
   distribution to decoding tables").  Model only. *)
From Coq Require Import NArith ZArith List Bool.
From ZV.Codec Require Import Bytes.
Import ListNotations.
Local Open Scope N_scope.

(* ---------- normalized counts header (forward bitstream) ---------- *)
(* state of the reader: remaining bits, consumed-bit counter *)
Definition fread (n : N) (s : list bool * N) : N * (list bool * N) :=
  let '(a, b) := ftake (N.to_nat n) (fst s) in (bits_val_lsb a, (b, snd s + n)).

(* read one count value: returns (count as Z, -1 allowed) *)
Definition read_count (remaining threshold nbBits : N) (s : list bool * N) : Z * (list bool * N) :=
  let max := (2 * threshold - 1) - remaining in
  let '(low, _) := fread (nbBits - 1) s in
  if low <? max then
    let '(v, s') := fread (nbBits - 1) s in (Z.of_N v - 1, s')%Z
  else
    let '(v, s') := fread nbBits s in
    let v' := if threshold <=? v then v - max else v in
    (Z.of_N v' - 1, s')%Z.

(* zero-repeat flags after a zero count: 2-bit codes, 3 means "3 more and continue" *)
Fixpoint read_repeats (fuel : nat) (s : list bool * N) (acc : N) : N * (list bool * N) :=
  match fuel with
  | O => (acc, s)
  | S f => let '(v, s') := fread 2 s in
           if v =? 3 then read_repeats f s' (acc + 3) else (acc + v, s')
  end.

(* adjust threshold / nbBits so that threshold <= remaining *)
Definition renorm (remaining : N) (threshold nbBits : N) : N * N :=
  if remaining <? threshold
  then let nb := N.log2 remaining + 1 in (pow2 (nb - 1), nb)
  else (threshold, nbBits).

(* main loop; counts accumulated in reverse *)
Fixpoint ncount_loop (fuel : nat) (maxSV1 : N) (remaining threshold nbBits charnum : N) (prev0 : bool)
         (s : list bool * N) (acc : list Z) : res (list Z * N * (list bool * N)) :=
  match fuel with
  | O => Err Efuel 100
  | S f =>
    (* zero run *)
    let '(charnum1, s1, acc1) :=
      if prev0 then let '(n0, s') := read_repeats 256 s 0 in (charnum + n0, s', repeatN 0%Z n0 acc)
      else (charnum, s, acc) in
    if maxSV1 <=? charnum1 then
      (* libzstd: break, then remaining != 1 => corruption (remaining > 1 here) *)
      Err Eformat 101
    else
      let '(c, s2) := read_count remaining threshold nbBits s1 in
      let remaining' := remaining - Z.to_N (Z.abs c) in
      let acc2 := c :: acc1 in
      let charnum2 := charnum1 + 1 in
      if remaining' <=? 1 then Ok (rev' acc2, remaining', s2)
      else
        let '(threshold', nbBits') := renorm remaining' threshold nbBits in
        if maxSV1 <=? charnum2 then Err Eformat 102   (* symbols exhausted but probabilities remain *)
        else ncount_loop f maxSV1 remaining' threshold' nbBits' charnum2 (Z.eqb c 0) s2 acc2
  end.

(* returns (tableLog, counts, bytes consumed) ; counts has length <= maxSV+1 *)
Definition read_ncount (maxSV maxLog : N) (src : bytes) : res (N * list Z * N) :=
  check negb (match src with [] => true | _ => false end) else Etrunc @ 103;
  let s0 := (fbits src, 0) in
  let '(lowbits, s1) := fread 4 s0 in
  let log := lowbits + 5 in
  check (log <=? maxLog) else Eformat @ 104;
  do r <- ncount_loop 600 (maxSV + 1) (pow2 log + 1) (pow2 log) (log + 1) 0 false s1 [];
  let '(counts, remaining, (_, nbits)) := r in
  check (remaining =? 1) else Eformat @ 105;
  let used := (nbits + 7) / 8 in
  check (used <=? lenN src) else Etrunc @ 106;
  Ok (log, counts, used).

(* ---------- decoding table ---------- *)
Record fse_cell := { fc_sym : N; fc_nb : N; fc_base : N }.
Definition cell0 := {| fc_sym := 0; fc_nb := 0; fc_base := 0 |}.
Record fse_table := { ft_log : N; ft_cells : list fse_cell }.

(* symbols of probability -1 ("less than one") are laid out from the top of the table downwards *)
Fixpoint place_low (counts : list Z) (sym : N) (high : N) (tbl : list N) : N * list N :=
  match counts with
  | [] => (high, tbl)
  | c :: t => if Z.eqb c (-1)
              then place_low t (sym + 1) (high - 1) (upd tbl (N.to_nat high) sym)
              else place_low t (sym + 1) high tbl
  end.

Fixpoint skip_high (fuel : nat) (pos step mask high : N) : N :=
  match fuel with
  | O => pos
  | S f => if high <? pos then skip_high f (N.land (pos + step) mask) step mask high else pos
  end.

Fixpoint spread_one (n : nat) (sym pos step mask high : N) (tbl : list N) : N * list N :=
  match n with
  | O => (pos, tbl)
  | S n' => let tbl' := upd tbl (N.to_nat pos) sym in
            let pos' := skip_high 1024 (N.land (pos + step) mask) step mask high in
            spread_one n' sym pos' step mask high tbl'
  end.

Fixpoint spread (counts : list Z) (sym pos step mask high : N) (tbl : list N) : N * list N :=
  match counts with
  | [] => (pos, tbl)
  | c :: t => if (0 <? c)%Z
              then let '(pos', tbl') := spread_one (Z.to_nat c) sym pos step mask high tbl in
                   spread t (sym + 1) pos' step mask high tbl'
              else spread t (sym + 1) pos step mask high tbl
  end.

(* per-cell nbBits / baseline from the per-symbol "next state" counters *)
Fixpoint fill_cells (syms : list N) (next : list N) (log size : N) (acc : list fse_cell) : list fse_cell :=
  match syms with
  | [] => rev' acc
  | s :: t => let nx := nthN next s 0 in
              let nb := log - N.log2 nx in
              let cell := {| fc_sym := s; fc_nb := nb; fc_base := N.shiftl nx nb - size |} in
              fill_cells t (upd next (N.to_nat s) (nx + 1)) log size (cell :: acc)
  end.

Definition count_sum (counts : list Z) : Z := fold_left (fun a c => (a + Z.abs c)%Z) counts 0%Z.

Definition build_dtable (log : N) (counts : list Z) : res fse_table :=
  let size := pow2 log in
  check (Z.eqb (count_sum counts) (Z.of_N size)) else Eformat @ 110;
  let tbl0 := repeatN 0 size [] in
  let '(high, tbl1) := place_low counts 0 (size - 1) tbl0 in
  let step := N.shiftr size 1 + N.shiftr size 3 + 3 in
  let '(pos, tbl2) := spread counts 0 0 step (size - 1) high tbl1 in
  check (pos =? 0) else Eformat @ 111;
  let next := map (fun c => if Z.eqb c (-1) then 1 else Z.to_N c) counts in
  Ok {| ft_log := log; ft_cells := fill_cells tbl2 next log size [] |}.

Definition rle_table (sym : N) : fse_table :=
  {| ft_log := 0; ft_cells := [ {| fc_sym := sym; fc_nb := 0; fc_base := 0 |} ] |}.

(* ---------- decoding over the backward bitstream ---------- *)
Definition fse_init (t : fse_table) (s : list bool) : option (N * list bool) := rread (N.to_nat (ft_log t)) s.
Definition fse_cell_at (t : fse_table) (st : N) : fse_cell := nthN (ft_cells t) st cell0.
Definition fse_peek (t : fse_table) (st : N) : N := fc_sym (fse_cell_at t st).
Definition fse_update (t : fse_table) (st : N) (s : list bool) : option (N * list bool) :=
  let c := fse_cell_at t st in
  match rread (N.to_nat (fc_nb c)) s with
  | Some (v, s') => Some (fc_base c + v, s')
  | None => None
  end.
