(* A, sixth part: Huffman tree descriptions (lib/compress/huf_compress.c HUF_writeCTable_wksp, HUF_compressWeights,
   lib/compress/fse_compress.c FSE_compress_usingCTable_generic with its two interleaved states).
   The normalised distribution of the weights is a choice of the table builder (FSE_normalizeCount) and an input here.
   Model only - no proofs in this file. *)
From Coq Require Import NArith ZArith List Bool.
From ZV.Codec Require Import Bytes Fse Huf Encode EncodeSeq EncodeFse.
Import ListNotations.
Local Open Scope N_scope.

(* direct representation: 4 bits per weight, first weight in the high nibble *)
Fixpoint pack_nibbles (ws : list N) : bytes :=
  match ws with
  | a :: b :: t => (16 * a + b) :: pack_nibbles t
  | [a] => [16 * a]
  | [] => []
  end.
Definition enc_weights_direct (ws : list N) : bytes := (127 + lenN ws) :: pack_nibbles ws.

(* two interleaved FSE states: the state decoding symbol i moves on to symbol i+2.
   Returns (state decoding the first symbol, state decoding the second, update bits in read order) *)
Fixpoint enc_w2 (t : fse_table) (ws : list N) : option (N * N * list bool) :=
  match ws with
  | [] | [_] => None
  | a :: (b :: r) as rest =>
    match r with
    | [] => match enc_init t a, enc_init t b with
            | Some sa, Some sb => Some (sa, sb, [])
            | _, _ => None
            end
    | _ :: _ =>
      match enc_w2 t rest with
      | None => None
      | Some (sb, sc, bits) =>
        match enc_step t sc a with
        | Some (sa, ba) => Some (sa, sb, ba ++ bits)
        | None => None
        end
      end
    end
  end.

(* the same from the end with an accumulator (what the extracted code runs; equal to enc_w2) *)
Fixpoint enc_w2_rev (t : fse_table) (rws : list N) (s_next s_after : N) (bits : list bool) : option (N * N * list bool) :=
  match rws with
  | [] => Some (s_next, s_after, bits)
  | a :: r =>
    match enc_step t s_after a with
    | Some (sa, ba) => enc_w2_rev t r sa s_next (ba ++ bits)
    | None => None
    end
  end.
Definition enc_w2_fast (t : fse_table) (ws : list N) : option (N * N * list bool) :=
  match rev' ws with
  | b :: a :: r =>
    match enc_init t a, enc_init t b with
    | Some sa, Some sb => enc_w2_rev t r sa sb []
    | _, _ => None
    end
  | _ => None
  end.

Definition enc_weights_stream (t : fse_table) (ws : list N) : option bytes :=
  match enc_w2_fast t ws with
  | Some (s1, s2, bits) =>
    Some (pack_rbits (bits_msb (N.to_nat (ft_log t)) s1 ++ bits_msb (N.to_nat (ft_log t)) s2 ++ bits))
  | None => None
  end.

(* FSE-compressed representation, given the normalised distribution (log, counts) of the weights *)
Definition enc_weights_fse (log : N) (counts : list Z) (ws : list N) : option bytes :=
  match write_ncount log counts, build_dtable log counts with
  | Some d, Ok t =>
    match enc_weights_stream t ws with
    | Some st => let body := d ++ st in if lenN body <? 128 then Some (lenN body :: body) else None
    | None => None
    end
  | _, _ => None
  end.

(* what the decoder does with the listed weights once it has them (the checks on the CHOICE of weights and the implied
   last weight); copied from Huf.read_huf_weights, which is [weights_finish] applied to the weights it read *)
Definition weights_finish (maxLog : N) (ws : list N) (used : N) : res (list N * N * N) :=
  check (forallb (fun w => w <=? maxLog) ws) else Eformat @ 213;
  check (lenN ws <=? 255) else Eformat @ 214;
  let total := weight_sum ws in
  check (negb (total =? 0)) else Eformat @ 215;
  let log := N.log2 total + 1 in
  check (log <=? maxLog) else Eformat @ 216;
  let rest := pow2 log - total in
  check (pow2 (N.log2 rest) =? rest) else Eformat @ 217;
  let last := N.log2 rest + 1 in
  let all := ws ++ [last] in
  let n1 := lenN (filter (fun w => w =? 1) all) in
  check (andb (2 <=? n1) (N.even n1)) else Eformat @ 218;
  Ok (all, log, used).
