(* A: the serialiser side of the codec model - frame header, block headers, raw / RLE blocks, epilogue
   (lib/compress/zstd_compress.c: ZSTD_writeFrameHeader, ZSTD_noCompressBlock, ZSTD_rleCompressBlock,
   ZSTD_writeEpilogue).  Model only - no proofs in this file. *)
From Coq Require Import NArith ZArith List Bool.
From ZV.Codec Require Import Bytes XXH64 Fse Huf Block Frame.
Import ListNotations.
Local Open Scope N_scope.

(* k little-endian bytes of v (the value is truncated to 8k bits, like MEM_writeLE16/32/64 of a cast) *)
Fixpoint write_le (k : nat) (v : N) : bytes :=
  match k with
  | O => []
  | S k' => (v mod 256) :: write_le k' (v / 256)
  end.

Definition b2n (b : bool) : N := if b then 1 else 0.

(* ---------- frame header: ZSTD_writeFrameHeader ---------- *)
Record fparams := {
  fp_windowLog : N;        (* cParams.windowLog *)
  fp_contentSize : bool;   (* fParams.contentSizeFlag *)
  fp_checksum : bool;      (* fParams.checksumFlag *)
  fp_noDictID : bool;      (* fParams.noDictIDFlag *)
  fp_magicless : bool }.   (* format == ZSTD_f_zstd1_magicless *)

Definition fh_single_segment (p : fparams) (pledged : N) : bool :=
  andb (fp_contentSize p) (pledged <=? pow2 (fp_windowLog p)).

Definition fh_fcs_code (p : fparams) (pledged : N) : N :=
  if fp_contentSize p
  then b2n (256 <=? pledged) + b2n (65792 <=? pledged) + b2n (4294967295 <=? pledged)
  else 0.

Definition fh_did_code (p : fparams) (dictID : N) : N :=
  if fp_noDictID p then 0
  else b2n (0 <? dictID) + b2n (256 <=? dictID) + b2n (65536 <=? dictID).

Definition enc_fheader (p : fparams) (pledged dictID : N) : bytes :=
  let dcode := fh_did_code p dictID in
  let single := fh_single_segment p pledged in
  let fcs := fh_fcs_code p pledged in
  let fhd := dcode + 4 * b2n (fp_checksum p) + 32 * b2n single + 64 * fcs in
  (if fp_magicless p then [] else write_le 4 MAGIC)
  ++ [fhd]
  ++ (if single then [] else [8 * (fp_windowLog p - 10)])
  ++ (if dcode =? 0 then [] else if dcode =? 1 then write_le 1 dictID
      else if dcode =? 2 then write_le 2 dictID else write_le 4 dictID)
  ++ (if fcs =? 0 then (if single then write_le 1 pledged else [])
      else if fcs =? 1 then write_le 2 (pledged - 256)
      else if fcs =? 2 then write_le 4 pledged else write_le 8 pledged).

(* ---------- blocks ---------- *)
Inductive eblock :=
| EBRaw (data : bytes)                 (* ZSTD_noCompressBlock *)
| EBRle (b : N) (n : N)                (* ZSTD_rleCompressBlock *)
| EBComp (payload : bytes) (regen : bytes).   (* a compressed block: its bytes and what it stands for *)

Definition block_header (last : bool) (btype size : N) : bytes :=
  write_le 3 (b2n last + 2 * btype + 8 * size).

Definition enc_block (last : bool) (b : eblock) : bytes :=
  match b with
  | EBRaw d => block_header last 0 (lenN d) ++ d
  | EBRle v n => block_header last 1 n ++ [v]
  | EBComp pl _ => block_header last 2 (lenN pl) ++ pl
  end.

Definition block_content (b : eblock) : bytes :=
  match b with
  | EBRaw d => d
  | EBRle v n => repeatN v n []
  | EBComp _ r => r
  end.

(* the last block of the list carries the last-block bit *)
Fixpoint enc_blocks (bs : list eblock) : bytes :=
  match bs with
  | [] => []
  | [b] => enc_block true b
  | b :: t => enc_block false b ++ enc_blocks t
  end.

Definition blocks_content (bs : list eblock) : bytes := concat (map block_content bs).

(* ---------- a whole frame ---------- *)
Definition enc_frame (p : fparams) (dictID : N) (bs : list eblock) : bytes :=
  let content := blocks_content bs in
  enc_fheader p (lenN content) dictID
  ++ enc_blocks bs
  ++ (if fp_checksum p then write_le 4 (N.land (xxh64 content 0) 4294967295) else []).

(* ---------- skippable frames: ZSTD_writeSkippableFrame ---------- *)
Definition enc_skippable (variant : N) (payload : bytes) : bytes :=
  write_le 4 (MAGIC_SKIP + variant) ++ write_le 4 (lenN payload) ++ payload.

(* ---------- the store-only compressor: every chunk of [bsize] bytes becomes a raw block
   (what ZSTD_compress emits for incompressible input); the empty input gives one empty raw last block ---------- *)
Fixpoint chunks_fuel (fuel : nat) (bsize : N) (src : bytes) : list bytes :=
  match fuel with
  | O => [src]
  | S f => if lenN src <=? bsize then [src]
           else takeN bsize src :: chunks_fuel f bsize (skipN src bsize)
  end.
Definition chunks (bsize : N) (src : bytes) : list bytes := chunks_fuel (length src) bsize src.

Definition enc_store (p : fparams) (dictID bsize : N) (src : bytes) : bytes :=
  enc_frame p dictID (map EBRaw (chunks bsize src)).

(* ---------- what a block list means to the decoder state (specification used by the round-trip theorems) ---------- *)
Definition block_spec (strict : bool) (window blockMax : N) (e : entropy) (x : xstate) (b : eblock) : res (entropy * xstate) :=
  match b with
  | EBRaw d => check (lenN d <=? blockMax) else Esafety @ 900; Ok (e, push_fwd x d (lenN d))
  | EBRle v n => check (n <=? blockMax) else Esafety @ 901; Ok (e, push_rev x (repeatN v n []) n)
  | EBComp pl _ => check (lenN pl <=? blockMax) else Esafety @ 902;
                   do r <- decode_cblock strict window blockMax e x pl;
                   Ok (fst (fst r), snd (fst r))
  end.

Fixpoint blocks_spec (strict : bool) (window blockMax : N) (e : entropy) (x : xstate) (bs : list eblock) : res (entropy * xstate) :=
  match bs with
  | [] => Ok (e, x)
  | b :: t => do r <- block_spec strict window blockMax e x b;
              blocks_spec strict window blockMax (fst r) (snd r) t
  end.
